package gendrv

// Service glue (property C08). Go has no way to implement an interface at run time, so the
// handler "synthesised from the generated interface" is source code derived from the interface
// declaration found in the generated package:
//
//   - next to every generated file that declares service interfaces a file <file>_c08glue.go is
//     written (same package): for the k-th service interface X a struct C08H_X whose methods have
//     exactly the signatures of X and forward (service qname, IDL method name, arguments, result
//     type) to one callback; base services are embedded the way the interface embeds them;
//   - c08_services.go in the module root registers, per unit and service, the generated
//     constructors (NewXClientFactory, NewXProcessor) and the IDL-name -> Go-name table of the
//     service's own methods with the driver (RegisterService in driver/c08.go).
//
// Pairing IDL <-> Go is positional (k-th service of a.thrift = k-th service interface of a.go, k-th
// function = k-th method), found by shape (an interface type X for which a constructor with the
// single parameter X exists), never by spelling: Go identifiers are not observables.
//
// Call WriteServiceGlue between Generate and Build.

import (
	"bytes"
	"fmt"
	"go/ast"
	"go/parser"
	"go/printer"
	"go/token"
	"os"
	"os/exec"
	"path/filepath"
	"sort"
	"strconv"
	"strings"
	"sync"

	"verif/harness/schemagen"
)

type goService struct {
	Iface     string // Go name of the interface
	Embedded  []ast.Expr
	Methods   []*ast.Field
	ProcCtor  string
	ClientFac string
}

func exprString(fset *token.FileSet, e ast.Expr) string {
	var b bytes.Buffer
	printer.Fprint(&b, fset, e)
	return b.String()
}

func pkgIdents(e ast.Node, into map[string]bool) {
	ast.Inspect(e, func(n ast.Node) bool {
		if se, ok := n.(*ast.SelectorExpr); ok {
			if id, ok := se.X.(*ast.Ident); ok {
				into[id.Name] = true
			}
		}
		return true
	})
}

// scanServices finds the service interfaces of one generated file, in source order.
func scanServices(fset *token.FileSet, f *ast.File) []*goService {
	ifaces := map[string]*ast.InterfaceType{}
	var order []string
	for _, d := range f.Decls {
		gd, ok := d.(*ast.GenDecl)
		if !ok || gd.Tok != token.TYPE {
			continue
		}
		for _, sp := range gd.Specs {
			ts := sp.(*ast.TypeSpec)
			if it, ok := ts.Type.(*ast.InterfaceType); ok {
				ifaces[ts.Name.Name] = it
				order = append(order, ts.Name.Name)
			}
		}
	}
	procCtor := map[string]string{}
	var factories []string
	for _, d := range f.Decls {
		fd, ok := d.(*ast.FuncDecl)
		if !ok || fd.Recv != nil {
			continue
		}
		ps := fd.Type.Params.List
		if fd.Type.Params.NumFields() == 1 && len(ps) == 1 {
			if id, ok := ps[0].Type.(*ast.Ident); ok && ifaces[id.Name] != nil {
				procCtor[id.Name] = fd.Name.Name
			}
		}
		if fd.Type.Params.NumFields() == 2 && len(ps) == 2 &&
			exprString(fset, ps[0].Type) == "thrift.TTransport" && exprString(fset, ps[1].Type) == "thrift.TProtocolFactory" {
			factories = append(factories, fd.Name.Name)
		}
	}
	var out []*goService
	for _, name := range order {
		if procCtor[name] == "" {
			continue
		}
		gs := &goService{Iface: name, ProcCtor: procCtor[name]}
		for _, m := range ifaces[name].Methods.List {
			if len(m.Names) == 0 {
				gs.Embedded = append(gs.Embedded, m.Type)
			} else {
				gs.Methods = append(gs.Methods, m)
			}
		}
		out = append(out, gs)
	}
	if len(factories) == len(out) {
		for i := range out {
			out[i].ClientFac = factories[i]
		}
	}
	return out
}

func handlerName(e ast.Expr) (pkg, name string) {
	switch x := e.(type) {
	case *ast.Ident:
		return "", "C08H_" + x.Name
	case *ast.SelectorExpr:
		if id, ok := x.X.(*ast.Ident); ok {
			return id.Name, "C08H_" + x.Sel.Name
		}
	}
	return "", ""
}

// WriteServiceGlue writes the handler sources into the generated packages and the service
// registry into the module root.
func (b *Batch) WriteServiceGlue() error {
	var reg, regBody bytes.Buffer
	regImports := map[string]string{}
	for _, u := range b.Units {
		root := filepath.Join(b.Root, "gen", u.Key)
		byFile := map[string][]*schemagen.Service{}
		for _, s := range u.Prog.Services() {
			byFile[s.File] = append(byFile[s.File], s)
		}
		var paths []string
		filepath.Walk(root, func(path string, info os.FileInfo, err error) error {
			if err == nil && !info.IsDir() && strings.HasSuffix(path, ".go") && !strings.HasSuffix(path, "_c08glue.go") {
				paths = append(paths, path)
			}
			return nil
		})
		sort.Strings(paths)
		for _, path := range paths {
			base := strings.TrimSuffix(filepath.Base(path), ".go")
			idl := byFile[base]
			if len(idl) == 0 {
				continue
			}
			fset := token.NewFileSet()
			f, err := parser.ParseFile(fset, path, nil, 0)
			if err != nil {
				return err
			}
			gss := scanServices(fset, f)
			if len(gss) != len(idl) {
				return fmt.Errorf("%s: %d service interfaces found for %d IDL services", path, len(gss), len(idl))
			}
			importName := map[string]string{} // identifier -> import path
			for _, im := range f.Imports {
				p, _ := strconv.Unquote(im.Path.Value)
				name := p[strings.LastIndex(p, "/")+1:]
				if im.Name != nil {
					name = im.Name.Name
				}
				importName[name] = p
			}
			used := map[string]bool{"context": true}
			var body bytes.Buffer
			for k, gs := range gss {
				sv := idl[k]
				if len(gs.Methods) != len(sv.Functions) {
					var gm, im []string
					for _, m := range gs.Methods {
						gm = append(gm, m.Names[0].Name)
					}
					for _, fn := range sv.Functions {
						im = append(im, fn.Name)
					}
					return fmt.Errorf("%s: the generated interface %s has the methods %v, but service %s keeps the functions %v (functions annotated streaming.mode are removed, all others generated, in order)",
						path, gs.Iface, gm, sv.QName(), im)
				}
				if gs.ClientFac == "" {
					return fmt.Errorf("%s: client factories do not pair with the service interfaces", path)
				}
				hn := "C08H_" + gs.Iface
				fmt.Fprintf(&body, "type %s struct {\n", hn)
				var inits []string
				for _, e := range gs.Embedded {
					pk, n := handlerName(e)
					if n == "" {
						return fmt.Errorf("%s: unexpected embedded type in %s", path, gs.Iface)
					}
					q := n
					if pk != "" {
						q = pk + "." + n
						used[pk] = true
					}
					fmt.Fprintf(&body, "\t*%s\n", q)
					ctor := "New" + n
					if pk != "" {
						ctor = pk + "." + ctor
					}
					inits = append(inits, fmt.Sprintf("%s: %s(f)", n, ctor))
				}
				body.WriteString("\tF func(svc, method string, args []interface{}, ret reflect.Type) (interface{}, error)\n}\n\n")
				inits = append(inits, "F: f")
				fmt.Fprintf(&body, "func New%s(f func(svc, method string, args []interface{}, ret reflect.Type) (interface{}, error)) *%s {\n\treturn &%s{%s}\n}\n\n",
					hn, hn, hn, strings.Join(inits, ", "))
				for mi, m := range gs.Methods {
					ft := m.Type.(*ast.FuncType)
					pkgIdents(ft, used)
					var params, argv []string
					n := 0
					for _, p := range ft.Params.List {
						cnt := len(p.Names)
						if cnt == 0 {
							cnt = 1
						}
						for c := 0; c < cnt; c++ {
							params = append(params, fmt.Sprintf("a%d %s", n, exprString(fset, p.Type)))
							if n > 0 { // a0 is the context
								argv = append(argv, fmt.Sprintf("a%d", n))
							}
							n++
						}
					}
					var results []string
					for _, r := range ft.Results.List {
						cnt := len(r.Names)
						if cnt == 0 {
							cnt = 1
						}
						for c := 0; c < cnt; c++ {
							results = append(results, exprString(fset, r.Type))
						}
					}
					name := m.Names[0].Name
					idlName := sv.Functions[mi].Name
					switch len(results) {
					case 1:
						fmt.Fprintf(&body, "func (h *%s) %s(%s) (e0 %s) {\n\t_, e0 = h.F(%q, %q, []interface{}{%s}, nil)\n\treturn\n}\n\n",
							hn, name, strings.Join(params, ", "), results[0], sv.QName(), idlName, strings.Join(argv, ", "))
					case 2:
						fmt.Fprintf(&body, "func (h *%s) %s(%s) (r0 %s, e0 %s) {\n\tvar x0 interface{}\n\tx0, e0 = h.F(%q, %q, []interface{}{%s}, reflect.TypeOf(&r0).Elem())\n\tif x0 != nil {\n\t\treflect.ValueOf(&r0).Elem().Set(reflect.ValueOf(x0))\n\t}\n\treturn\n}\n\n",
							hn, name, strings.Join(params, ", "), results[0], results[1], sv.QName(), idlName, strings.Join(argv, ", "))
					default:
						return fmt.Errorf("%s: method %s.%s has %d results", path, gs.Iface, name, len(results))
					}
				}
				// registry entry
				rel, _ := filepath.Rel(b.Root, filepath.Dir(path))
				imp := "drv/" + filepath.ToSlash(rel)
				alias, ok := regImports[imp]
				if !ok {
					alias = fmt.Sprintf("s%d", len(regImports))
					regImports[imp] = alias
				}
				var ms []string
				for mi, m := range gs.Methods {
					ms = append(ms, fmt.Sprintf("{%q, %q}", sv.Functions[mi].Name, m.Names[0].Name))
				}
				fmt.Fprintf(&regBody, "\tRegisterService(%q, %q, &ServiceGlue{Base: %q, Methods: []MethodGlue{%s},\n\t\tNewClient: func(t thrift.TTransport, f thrift.TProtocolFactory) interface{} { return %s.%s(t, f) },\n\t\tNewProcessor: func(f HandlerFunc) thrift.TProcessor { return %s.%s(%s.New%s(f)) }})\n",
					u.Key, sv.QName(), sv.Extends, strings.Join(ms, ", "), alias, gs.ClientFac, alias, gs.ProcCtor, alias, hn)
			}
			var src bytes.Buffer
			fmt.Fprintf(&src, "// written by gendrv (service glue for property C08)\npackage %s\n\nimport (\n\t\"reflect\"\n", f.Name.Name)
			var names []string
			for n := range used {
				names = append(names, n)
			}
			sort.Strings(names)
			for _, n := range names {
				p, ok := importName[n]
				if !ok {
					if n == "context" {
						p = "context"
					} else {
						continue
					}
				}
				fmt.Fprintf(&src, "\t%s %q\n", n, p)
			}
			src.WriteString(")\n\n")
			src.Write(body.Bytes())
			if err := os.WriteFile(filepath.Join(filepath.Dir(path), base+"_c08glue.go"), src.Bytes(), 0o644); err != nil {
				return err
			}
		}
	}
	reg.WriteString("// written by gendrv (service registry for property C08)\npackage main\n\nimport (\n\t\"github.com/apache/thrift/lib/go/thrift\"\n")
	var imps []string
	for p := range regImports {
		imps = append(imps, p)
	}
	sort.Strings(imps)
	for _, p := range imps {
		fmt.Fprintf(&reg, "\t%s %q\n", regImports[p], p)
	}
	reg.WriteString(")\n\nvar _ thrift.TProcessor\n\nfunc init() {\n")
	reg.Write(regBody.Bytes())
	reg.WriteString("}\n")
	return os.WriteFile(filepath.Join(b.Root, "c08_services.go"), reg.Bytes(), 0o644)
}

// GenerateWith is Generate with the IDL text of a unit supplied by the caller (C08: services whose
// source contains functions that the backend removes).
func (b *Batch) GenerateWith(render func(u *Unit) map[string]string) error {
	empty := filepath.Join(b.Root, "cwd")
	if err := os.MkdirAll(empty, 0o755); err != nil {
		return err
	}
	type res struct {
		u   *Unit
		out string
		err error
	}
	results := make([]res, len(b.Units))
	sem := make(chan struct{}, b.Jobs)
	var wg sync.WaitGroup
	for i, u := range b.Units {
		wg.Add(1)
		go func(i int, u *Unit, files map[string]string) {
			defer wg.Done()
			sem <- struct{}{}
			defer func() { <-sem }()
			idlDir := filepath.Join(b.Root, "idl", u.Key)
			if err := os.MkdirAll(idlDir, 0o755); err != nil {
				results[i] = res{u, "", err}
				return
			}
			for name, text := range files {
				if err := os.WriteFile(filepath.Join(idlDir, name), []byte(text), 0o644); err != nil {
					results[i] = res{u, "", err}
					return
				}
			}
			outDir := filepath.Join(b.Root, "gen", u.Key)
			opts := "package_prefix=drv/gen/" + u.Key
			if u.Options != "" {
				opts = u.Options + "," + opts
			}
			cmd := exec.Command(b.Thriftgo, "-r", "-g", "go:"+opts, "-o", outDir,
				filepath.Join(idlDir, u.Prog.Files[0].Name+".thrift"))
			cmd.Dir = empty
			cmd.Env = goEnv()
			out, err := cmd.CombinedOutput()
			if err == nil {
				if _, serr := os.Stat(outDir); serr != nil {
					err = fmt.Errorf("thriftgo exited 0 but wrote nothing")
				}
			}
			results[i] = res{u, string(out), err}
		}(i, u, render(u))
	}
	wg.Wait()
	var kept []*Unit
	for _, r := range results {
		if r.err != nil {
			b.Rejected = append(b.Rejected, Rejected{r.u, r.out + "\n" + r.err.Error()})
			os.RemoveAll(filepath.Join(b.Root, "gen", r.u.Key))
			continue
		}
		kept = append(kept, r.u)
	}
	b.Units = kept
	return nil
}
