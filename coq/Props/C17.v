(* Props/C17.v — property C17 "Dumping an AST to IDL text and parsing it back gives the same
   IDL", stated about the model Idl/Dump.v of /repo/tool/trimmer/dump/dump.go (DumpIDL, as
   repaired by proposed_fixes/C17-1..3) and the parser model Idl/Lex.v + Idl/Parse.v of
   property C03.  Statements only; every proof is [exact lemma] and is followed by
   Print Assumptions.

   [fmt : N -> bytes] stands for strconv.FormatFloat(v, 'g', -1, 64) (bit pattern -> text);
   it is universally quantified and constrained only through decidable hypotheses, which the
   correspondence check evaluates on every double text the implementation printed. *)
From Coq Require Import List Bool NArith ZArith.
From Coq.Strings Require Import Byte String.
From Verif Require Import Base.Bytes Idl.Ast Idl.Lex Idl.LexFacts Idl.Parse Idl.Dump
  Idl.DumpFacts Idl.DumpLexFacts Idl.DumpNumFacts Idl.DumpParseFacts Idl.DumpTopFacts Idl.DumpLitFacts
  Idl.Resolve Idl.DumpResolveFacts Idl.DumpProgramFacts.
Import ListNotations.

(* ---- string literals keep their exact characters (the escaping is exact).
   For every text in the domain [lit_ok] (no backslash at the end; not both a double and a
   single quote after an odd run of backslashes) the token quoteLiteral writes is a literal
   of the grammar, the lexer stops exactly at its closing quote whatever follows, and
   pegText's unescaping returns the text.  This replaces escape_pipeline_inverse of the
   design: the placeholder / html.UnescapeString passes no longer exist. *)
Theorem C17_literal_roundtrip :
  forall s, lit_ok s = true ->
  exists q raw, lit_token s = TLit q raw /\ is_quote q = true /\
    (forall rest, lex_lit q (raw ++ q :: rest) = Some (raw, rest)) /\ unescape q raw = s.
Proof. exact lit_token_roundtrip. Qed.
Print Assumptions C17_literal_roundtrip.

(* every value a literal of the grammar can have is in that domain: whatever the lexer accepts
   between two quotes unescapes to a text quoteLiteral can write back *)
Theorem C17_literal_values_in_domain :
  forall q s raw rest, is_quote q = true -> lex_lit q s = Some (raw, rest) -> lit_ok (unescape q raw) = true.
Proof. exact unescape_in_domain. Qed.
Print Assumptions C17_literal_values_in_domain.

Example C17_literal_domain_inhabited :
  lit_ok (hx "61 5c 22 62 27 26 23"%string) = true /\ lit_ok (B "#OUTQUOTES ##34; &amp;"%string) = true.
Proof. split; reflexivity. Qed.

(* ---- numbers: what fmt.Sprintf("%d") writes is read back by strconv.ParseInt as the same number,
   for every constant / enum value in the int64 range and every field id in the int32 range *)
Theorem C17_int_value_print_Z :
  forall z, in_i64 z = true -> int_value (print_Z z) = Some z.
Proof. exact int_value_print_Z. Qed.
Print Assumptions C17_int_value_print_Z.

Theorem C17_field_id_value_print_Z :
  forall z, in_i32 z = true -> field_id_value (print_Z z) = z.
Proof. exact field_id_value_print_Z. Qed.
Print Assumptions C17_field_id_value_print_Z.

(* ---- dump_view_equal: the view (what the written text denotes) equals the original on
   everything the property lists: definitions, names, type expressions, field ids,
   requiredness, defaults and constant values, enum values, annotation key/value lists,
   includes, namespaces — up to recorded comments, cpp_type, resolution info, and a double
   read back as the integer of equal value ([c17_norm]).  [view_ok] is the shape of
   parser-built ASTs: annotation keys grouped, literal values in [lit_ok], include paths
   distinct and not empty, no explicit id equal to the parser's NOTSET sentinel, throws
   optional, each struct-like in the list of its kind, void flag consistent, and [fmt_ok]
   (text and double denote the same constant) for every double. *)
Theorem C17_dump_view_equal :
  forall (fmt : N -> bytes) (a : file), view_ok fmt a = true -> c17_norm (dump_view fmt a) = c17_norm a.
Proof. exact dump_view_equal. Qed.
Print Assumptions C17_dump_view_equal.

(* ---- the dumped text lexes into exactly the tokens the dumper wrote, its white space as
   trivia, for every file whose names are words of the grammar, whose literal values are in
   [lit_ok], whose double texts have a number shape, and whose recorded comments are blank or
   read back as trivia ([cmt_lex]: what parseReservedComments records — line, hash and block
   comments joined by line feeds — satisfies it; the sample below carries every kind). *)
Theorem C17_lex_dump :
  forall (fmt : N -> bytes) (a : file), lex_ok fmt a = true ->
  lex (dump fmt a) = Some (group [] (dump_pieces fmt a)).
Proof. exact lex_dump. Qed.
Print Assumptions C17_lex_dump.

(* ---- parse_dump: the parser accepts the dumped text and returns the view, up to the
   comment fields.  [dump_ok] (decidable, Idl/DumpParseFacts.v) = lex_ok, the parser-built
   shape with ids in i32 and integer values in i64 ([pd_ok]), the view is expressible by the token grammar
   (wf_file of Idl/Print.v: no keyword as a name, ids in i32, values in i64). *)
Theorem C17_parse_dump :
  forall (fmt : N -> bytes) (a : file), dump_ok fmt a = true ->
  exists b, parse (f_filename a) (dump fmt a) = Some b /\
            strip_comments b = strip_comments (dump_view fmt a).
Proof. exact parse_dump. Qed.
Print Assumptions C17_parse_dump.

(* ---- the property: the dumped text is accepted and the AST read back equals the original
   on everything C17 lists. *)
Theorem C17_roundtrip :
  forall (fmt : N -> bytes) (a : file), dump_ok fmt a = true -> view_ok fmt a = true ->
  exists b, parse (f_filename a) (dump fmt a) = Some b /\ c17_norm b = c17_norm a.
Proof. exact dump_roundtrip. Qed.
Print Assumptions C17_roundtrip.

(* the hypotheses are satisfiable: a file with every kind of node (negative ids, both quote
   kinds, the former placeholders, annotations on types and namespaces, nested constants,
   doubles, cpp_include, an empty union, oneway, two throws, recorded line / block / multi-line
   comments on a typedef, an enum, enum values, a struct, a field and a function) is in the domain *)
Example C17_domain_inhabited : dump_ok sample_fmt sample_file = true /\ view_ok sample_fmt sample_file = true.
Proof. exact sample_in_domain. Qed.

(* ---- dump_passes_semantic: the dumped program is accepted by symbol resolution (the model
   Idl/Resolve.v of semantic.ResolveSymbols, property C05) whenever the original is.
   [sem_view] is what the dumper does to a file as far as resolution can see: recorded comments
   and cpp_type are dropped and a double is replaced by the constant its text denotes.
   Resolution commutes with it (for EVERY program, no hypothesis): *)
Theorem C17_resolve_commutes_with_view :
  forall (fmt : N -> bytes) (p : program),
  resolve_program (sem_view_program fmt p) = rmap (sem_view_program fmt) (resolve_program p).
Proof. exact resolve_program_sem_view. Qed.
Print Assumptions C17_resolve_commutes_with_view.

(* [dumped_program]: every file replaced by its [dump_view], its include statements pointing to
   the same files again (the recursive parser re-reads the dumped tree).  For programs as the
   parser produces them ([parsed_ok]: the parser-built shape [view_ok], no resolution info yet)
   it is the [sem_view] of the program, so it resolves, and to the view of the original result. *)
Theorem C17_dump_passes_semantic :
  forall (fmt : N -> bytes) (p r : program),
  forallb (fun e => parsed_ok fmt (snd e)) p = true ->
  resolve_program p = Ok r ->
  resolve_program (dumped_program fmt p) = Ok (sem_view_program fmt r).
Proof. exact dump_passes_semantic. Qed.
Print Assumptions C17_dump_passes_semantic.

Example C17_dump_passes_semantic_inhabited :
  forallb (fun e => parsed_ok sem_sample_fmt (snd e)) sem_sample = true /\
  (match resolve_program sem_sample with Ok _ => true | Error _ => false end) = true /\
  (match resolve_program (dumped_program sem_sample_fmt sem_sample) with Ok _ => true | Error _ => false end) = true.
Proof. exact sem_sample_ok. Qed.

(* ---- the property for whole programs, about the files the parser ACTUALLY returns for the dumped
   texts (whatever comments it attaches; [reread p q]: every file of q is a result of parsing the
   dumped text of the file of p with the same name, its include statements pointing to the same
   files as before).  On the domain ([file_in_domain] = dump_ok and parsed_ok for every file):
   the parser accepts every dumped file (a re-read program exists); every re-read file equals the
   original on everything C17 lists; and every re-read program passes symbol resolution when the
   original does, with the same result as far as resolution's view goes. *)
Theorem C17_program_roundtrip :
  forall (fmt : N -> bytes) (p r : program),
  forallb (fun e => file_in_domain fmt (snd e)) p = true ->
  resolve_program p = Ok r ->
  (exists q, reread fmt p q) /\
  forall q, reread fmt p q ->
    Forall2 (fun e e' => fst e' = fst e /\ c17_norm (snd e') = c17_norm (snd e)) p q /\
    exists r', resolve_program q = Ok r' /\
               sem_view_program fmt r' = sem_view_program fmt (sem_view_program fmt r).
Proof. exact program_roundtrip. Qed.
Print Assumptions C17_program_roundtrip.

Example C17_program_roundtrip_inhabited :
  forallb (fun e => file_in_domain sem_sample_fmt (snd e)) sem_sample = true /\
  (match resolve_program sem_sample with Ok _ => true | Error _ => false end) = true.
Proof. exact program_roundtrip_sample. Qed.

(* ---- the former known finding C17-empty-file-not-document is gone: a file with nothing to print
   is dumped as the empty text, lies in the domain, and is read back as the empty file (parser
   repair 6a3edb3; under the unrepaired parser the same text was rejected) *)
Theorem C17_dump_empty_file :
  forall n fmt,
  dump fmt (empty_file n) = [] /\ parse n (dump fmt (empty_file n)) = Some (empty_file n) /\
  dump_ok fmt (empty_file n) = true /\ parse_unrepaired n (dump fmt (empty_file n)) = None.
Proof. exact dump_empty_file. Qed.
Print Assumptions C17_dump_empty_file.

(* ---- outside the property: cpp_type is not written; the AST read back differs there and
   only there *)
Theorem C17_dump_drops_cpp_type :
  exists b, parse (B "m.thrift"%string) (dump (fun _ => []) cpp_type_sample) = Some b /\
            file_eqb b cpp_type_sample = false /\ c17_eqb b cpp_type_sample = true.
Proof. exact dump_drops_cpp_type. Qed.
Print Assumptions C17_dump_drops_cpp_type.
