package schemagen

// AddMutualRecursion appends two struct-likes and a union that refer to each other (the random
// generator only produces self recursion): PrNodeA -> PrNodeB (declared later: a forward reference)
// -> PrNodeA through optional fields, list elements, map values and a union member. Fixed names;
// call it once per program.
func AddMutualRecursion(p *Program) {
	f := p.Files[0]
	q := func(n string) string { return f.Name + "." + n }
	a := &Type{Kind: "struct", Name: q("PrNodeA")}
	b := &Type{Kind: "struct", Name: q("PrNodeB")}
	u := &Type{Kind: "struct", Name: q("PrNodeU")}
	str := &Type{Kind: "string"}
	nodeA := &Struct{File: f.Name, Name: "PrNodeA", Kind: "struct", Fields: []*Field{
		{ID: 1, Name: "label", Req: "default", Type: str},
		{ID: 2, Name: "next", Req: "optional", ReqText: "optional", Type: b},
		{ID: 3, Name: "alts", Req: "default", Type: &Type{Kind: "list", Elem: u}},
	}}
	nodeB := &Struct{File: f.Name, Name: "PrNodeB", Kind: "struct", Fields: []*Field{
		{ID: 1, Name: "weight", Req: "required", ReqText: "required", Type: &Type{Kind: "i64"}},
		{ID: 2, Name: "kids", Req: "default", Type: &Type{Kind: "list", Elem: a}},
		{ID: 3, Name: "back", Req: "optional", ReqText: "optional", Type: a},
		{ID: 4, Name: "index", Req: "optional", ReqText: "optional", Type: &Type{Kind: "map", Key: str, Elem: b}},
	}}
	nodeU := &Struct{File: f.Name, Name: "PrNodeU", Kind: "union", Fields: []*Field{
		{ID: 1, Name: "a", Req: "optional", Type: a},
		{ID: 2, Name: "b", Req: "optional", Type: b},
		{ID: 3, Name: "n", Req: "optional", Type: &Type{Kind: "i32"}},
	}}
	f.Defs = append(f.Defs, &Def{Struct: nodeA}, &Def{Struct: nodeB}, &Def{Struct: nodeU})
}
