(* Gen/OptionsFacts.v — proofs about the option model Gen/Options.v, against the table generated
   into Gen/OptionsTable.v and the documentation tables in Gen/OptionsDoc.v.
   Finite facts about the regenerated tables are decided by vm_compute on boolean checkers and
   lifted with forallb_forall; everything about option lists is by induction (any length, any order). *)
From Coq Require Import String.
From Coq Require Import List Arith Bool Lia.
From Coq.Strings Require Import Byte.
From Verif Require Import Base.Bytes Gen.OptionsSyntax Gen.OptionsTable Gen.OptionsDoc Gen.Options.
Import ListNotations.
Close Scope string_scope.

(* ------------------------------------------------------------------ small tools *)

Lemma prefixb_is_prefix p s : prefixb p s = is_prefix p s.
Proof.
  revert s; induction p as [|a p IH]; intros [|b s]; cbn [prefixb is_prefix]; auto.
  all: try (destruct (Byte.eqb a b); cbn [andb]; auto).
Qed.

Lemma prefixb_refl p : prefixb p p = true.
Proof.
  rewrite prefixb_is_prefix. apply is_prefix_spec. exists []. now rewrite app_nil_r.
Qed.

Lemma action_eqb_eq a b : action_eqb a b = true -> a = b.
Proof.
  destruct a, b; cbn [action_eqb]; try discriminate; auto.
  intro H. apply Nat.eqb_eq in H. now subst.
Qed.

Lemma action_eqb_refl a : action_eqb a a = true.
Proof. destruct a; cbn [action_eqb]; auto. apply Nat.eqb_refl. Qed.

Lemma setting_eqb_eq a b : setting_eqb a b = true <-> a = b.
Proof.
  destruct a, b; cbn [setting_eqb]; split; try discriminate; try reflexivity; intro H.
  - apply Nat.eqb_eq in H. now subst.
  - injection H as ->. apply Nat.eqb_refl.
  - apply beqb_true in H. now subst.
  - injection H as ->. apply beqb_refl.
Qed.

Lemma setting_eqb_refl s : setting_eqb s s = true.
Proof. now apply setting_eqb_eq. Qed.

Lemma set_nth_length i b l : List.length (set_nth i b l) = List.length l.
Proof.
  revert i; induction l as [|x l IH]; intros [|i]; cbn [set_nth List.length]; auto.
Qed.

Lemma nth_set_nth i j b l : i < List.length l ->
  nth j (set_nth i b l) false = if Nat.eqb j i then b else nth j l false.
Proof.
  revert i j; induction l as [|x l IH]; intros i j Hi; cbn [List.length] in Hi; [lia|].
  destruct i as [|i]; destruct j as [|j]; cbn [set_nth nth Nat.eqb]; auto.
  apply IH. lia.
Qed.

Lemma nth_set_nth_false i l : nth i (set_nth i false l) false = false.
Proof.
  revert i; induction l as [|x l IH]; intros [|i]; cbn [set_nth nth]; auto.
Qed.

(* ------------------------------------------------------------------ checkBool *)

Lemma parse_bool_some v b : parse_bool v = Some b ->
  (b = true /\ (v = [] \/ v = s_true)) \/ (b = false /\ v = s_false).
Proof.
  unfold parse_bool. destruct v as [|x v]; [intros [= <-]; auto|].
  destruct (beqb (x :: v) s_true) eqn:E1.
  - intros [= <-]. apply beqb_true in E1. auto.
  - destruct (beqb (x :: v) s_false) eqn:E2; [|discriminate].
    intros [= <-]. apply beqb_true in E2. auto.
Qed.

Lemma parse_bool_none v : parse_bool v = None <-> v <> [] /\ v <> s_true /\ v <> s_false.
Proof.
  split.
  - intro H. repeat split; intro E; subst v; vm_compute in H; discriminate.
  - intros (H0 & H1 & H2). unfold parse_bool. destruct v as [|x v]; [congruence|].
    apply beqb_false in H1. apply beqb_false in H2. now rewrite H1, H2.
Qed.

Lemma parse_bool_empty : parse_bool [] = Some true. Proof. reflexivity. Qed.
Lemma parse_bool_true : parse_bool s_true = Some true. Proof. reflexivity. Qed.
Lemma parse_bool_false : parse_bool s_false = Some false. Proof. reflexivity. Qed.

(* ------------------------------------------------------------------ the regenerated table *)

Definition action_in_range (a : action) : bool :=
  match a with AFeature i => Nat.ltb i nfeat | AUnknown => false | _ => true end.

(* per entry: prefix lookup of the entry's own name finds this very entry; the exact lookup agrees;
   the action is understood and in range *)
Definition entry_ok (e : bytes * action) : bool :=
  match find_entry (fst e) table with
  | Some e' => beqb (fst e') (fst e) && action_eqb (snd e') (snd e)
  | None => false
  end &&
  match exact_action (fst e) with
  | Some a => action_eqb a (snd e)
  | None => false
  end &&
  action_in_range (snd e).

Definition table_ok : bool := forallb entry_ok table.

Lemma table_ok_true : table_ok = true.
Proof. vm_compute. reflexivity. Qed.

Lemma entry_facts n a : In (n, a) table ->
  find_entry n table = Some (n, a) /\ exact_action n = Some a /\ action_in_range a = true.
Proof.
  intro Hin. pose proof table_ok_true as H. unfold table_ok in H.
  rewrite forallb_forall in H. specialize (H _ Hin). unfold entry_ok in H. cbn [fst snd] in H.
  apply andb_true_iff in H as [H Hr]. apply andb_true_iff in H as [Hf He].
  repeat split; auto.
  - destruct (find_entry n table) as [[n' a']|]; [|discriminate]. cbn [fst snd] in Hf.
    apply andb_true_iff in Hf as [Hn Ha]. apply beqb_true in Hn. apply action_eqb_eq in Ha. now subst.
  - destruct (exact_action n) as [a'|]; [|discriminate]. apply action_eqb_eq in He. now subst.
Qed.

Lemma documented_entry n : documented n -> exists a, In (n, a) table.
Proof.
  unfold documented. rewrite in_map_iff. intros [[n' a] [E Hin]]. cbn in E. subst. eauto.
Qed.

Lemma in_range_feature i : action_in_range (AFeature i) = true -> i < nfeat.
Proof. cbn [action_in_range]. apply Nat.ltb_lt. Qed.

(* the name sets used by validateOptions / post / checkOptions resolve to documented options *)
Definition named_indices_ok : bool :=
  forallb (fun p => match exact_action (fst p) with
                    | Some (AFeature i) => Nat.eqb i (snd p) && Nat.ltb i nfeat
                    | _ => false
                    end)
    [(B "gen_deep_equal"%string, ix_deep_equal); (B "enable_nested_struct", ix_nested);
     (B "apache_warning"%string, ix_apache_warning); (B "apache_adaptor", ix_apache_adaptor);
     (B "with_field_mask"%string, ix_with_field_mask); (B "with_reflection", ix_with_reflection);
     (B "snake_style_json_tag"%string, ix_snake); (B "lower_camel_style_json_tag", ix_lower_camel);
     (B "gen_json_tag"%string, ix_gen_json_tag); (B "always_gen_json_tag", ix_always_json)].

Lemma named_indices_ok_true : named_indices_ok = true.
Proof. vm_compute. reflexivity. Qed.

Lemma ix_deep_equal_range : ix_deep_equal < nfeat.
Proof. apply Nat.ltb_lt. vm_compute. reflexivity. Qed.

(* ------------------------------------------------------------------ well-formed states *)

Definition wf (c : cfg) : Prop :=
  c_curinit c = c_doinit c /\ List.length (c_feats c) = nfeat.

Lemma wf_default : wf default_cfg.
Proof. split; vm_compute; reflexivity. Qed.

(* ------------------------------------------------------------------ one action *)

Lemma get_set_import p r c s :
  get s (set_import p r c) = if setting_eqb s (SImport p) then VOpt (Some r) else get s c.
Proof.
  destruct s as [i| | | | |q]; cbn [get set_import setting_eqb c_style c_curinit c_prefix c_template c_imports get_feat c_feats]; auto.
  destruct (beqb q p) eqn:E.
  - apply beqb_true in E. subst. now rewrite lookup_update_same.
  - apply beqb_false in E. rewrite lookup_update_other; auto.
Qed.

(* what a valid option does: exactly one setting receives exactly the written value *)
Lemma apply_some a v c s x : wf c -> action_in_range a = true -> writes a v = Some (s, x) ->
  exists c', apply a v c = Ok c' /\ wf c' /\
             forall s', get s' c' = if setting_eqb s' s then x else get s' c.
Proof.
  intros [Hi Hl] Hr Hw. destruct a; cbn [writes apply] in *.
  - injection Hw as <- <-. eexists; split; [reflexivity|]. split; [split; auto|]. apply get_set_import.
  - destruct (split_first ch_eq v) as [p [r|]]; [|discriminate]. injection Hw as <- <-.
    eexists; split; [reflexivity|]. split; [split; auto|]. apply get_set_import.
  - destruct (style_known v); [|discriminate]. injection Hw as <- <-.
    eexists; split; [reflexivity|]. split; [split; auto|].
    intros [i| | | | |q]; cbn [get set_style setting_eqb c_style c_curinit c_prefix c_template c_imports get_feat c_feats]; auto.
    now rewrite Hi.
  - destruct (parse_bool v) as [b|]; [|discriminate]. injection Hw as <- <-.
    eexists; split; [reflexivity|]. split; [split; auto|].
    intros [i| | | | |q]; cbn [get set_init setting_eqb c_style c_curinit c_prefix c_template c_imports get_feat c_feats]; auto.
  - injection Hw as <- <-. eexists; split; [reflexivity|]. split; [split; auto|].
    intros [i| | | | |q]; cbn [get set_prefix setting_eqb c_style c_curinit c_prefix c_template c_imports get_feat c_feats]; auto.
  - destruct (template_known v); [|discriminate]. injection Hw as <- <-.
    eexists; split; [reflexivity|]. split; [split; auto|].
    intros [i| | | | |q]; cbn [get set_template setting_eqb c_style c_curinit c_prefix c_template c_imports get_feat c_feats]; auto.
  - destruct (parse_bool v) as [b|]; [|discriminate]. injection Hw as <- <-.
    apply in_range_feature in Hr.
    eexists; split; [reflexivity|]. split.
    + split; cbn [set_feat c_curinit c_doinit c_feats]; auto. now rewrite set_nth_length.
    + intros [j| | | | |q]; cbn [get set_feat setting_eqb c_style c_curinit c_prefix c_template c_imports get_feat c_feats]; auto.
      unfold get_feat, set_feat; cbn [c_feats]. rewrite nth_set_nth by lia. destruct (Nat.eqb j i); auto.
  - discriminate.
Qed.

(* an invalid option is an error, in any state *)
Lemma apply_none a v c : writes a v = None -> exists e, apply a v c = Err e.
Proof.
  destruct a; cbn [writes apply]; try discriminate.
  - destruct (split_first ch_eq v) as [p [r|]]; [discriminate|]. eauto.
  - destruct (style_known v); [discriminate|]. eauto.
  - destruct (parse_bool v); [discriminate|]. eauto.
  - destruct (template_known v); [discriminate|]. eauto.
  - destruct (parse_bool v); [discriminate|]. eauto.
  - eauto.
Qed.

Lemma apply_ok_writes a v c c' : apply a v c = Ok c' -> exists s x, writes a v = Some (s, x).
Proof.
  intro H. destruct (writes a v) as [[s x]|] eqn:E; [eauto|].
  destruct (apply_none a v c E) as [e He]. congruence.
Qed.

(* ------------------------------------------------------------------ one option *)

Lemma step_documented n a v c : In (n, a) table -> step (n, v) c = apply a v c.
Proof.
  intro Hin. unfold step. cbn [fst snd]. destruct (entry_facts _ _ Hin) as (-> & _ & _). reflexivity.
Qed.

Lemma step_wf o c c' : wf c -> step o c = Ok c' -> wf c'.
Proof.
  intros Hwf. unfold step. destruct (find_entry (fst o) table) as [[n a]|] eqn:E; [|now intros [= <-]].
  cbn [snd]. intro H. unfold find_entry in E. apply find_some in E as [Hin _].
  destruct (entry_facts _ _ Hin) as (_ & _ & Hr).
  destruct (apply_ok_writes _ _ _ _ H) as (s & x & Hw).
  destruct (apply_some a (snd o) c s x Hwf Hr Hw) as (c'' & Hc & Hwf' & _). congruence.
Qed.

(* frame + effect of one documented option *)
Lemma step_frame n a v c c' : In (n, a) table -> wf c -> step (n, v) c = Ok c' ->
  exists s x, writes a v = Some (s, x) /\ wf c' /\
              forall s', get s' c' = if setting_eqb s' s then x else get s' c.
Proof.
  intros Hin Hwf H. rewrite (step_documented _ _ _ _ Hin) in H.
  destruct (entry_facts _ _ Hin) as (_ & _ & Hr).
  destruct (apply_ok_writes _ _ _ _ H) as (s & x & Hw).
  destruct (apply_some a v c s x Hwf Hr Hw) as (c'' & Hc & Hwf' & Hg).
  exists s, x. rewrite Hc in H. injection H as <-. auto.
Qed.

Lemma wr_documented n a v : In (n, a) table -> wr (n, v) = writes a v.
Proof.
  intro Hin. unfold wr. cbn [fst snd]. destruct (entry_facts _ _ Hin) as (_ & -> & _). reflexivity.
Qed.

(* ------------------------------------------------------------------ option lists *)

Lemma run_app l1 l2 c :
  run (l1 ++ l2) c = match run l1 c with (c1, None) => run l2 c1 | r => r end.
Proof.
  revert c; induction l1 as [|o l1 IH]; intro c; cbn [run app]; auto.
  destruct (step o c) as [c1|e]; auto.
Qed.

Lemma run_wf opts c c' : wf c -> run opts c = (c', None) -> wf c'.
Proof.
  revert c; induction opts as [|o r IH]; intros c Hwf; cbn [run].
  - now intros [= <-].
  - destruct (step o c) as [c1|e] eqn:E; [|discriminate]. apply IH. eapply step_wf; eauto.
Qed.

(* last writer wins, setting by setting, for lists of any length and order *)
Lemma run_last opts : forall c c', wf c -> Forall (fun o => documented (fst o)) opts ->
  run opts c = (c', None) -> forall s, get s c' = last_setting s opts (get s c).
Proof.
  unfold last_setting.
  induction opts as [|[n v] r IH]; intros c c' Hwf Hdoc; cbn [run map last_w].
  - now intros [= <-].
  - inversion Hdoc as [|? ? Hn Hr]; subst. cbn [fst] in Hn.
    destruct (documented_entry _ Hn) as [a Hin].
    destruct (step (n, v) c) as [c1|e] eqn:E; [|discriminate].
    destruct (step_frame _ _ _ _ _ Hin Hwf E) as (s0 & x & Hw & Hwf1 & Hg).
    intros Hrun s. rewrite (IH c1 c' Hwf1 Hr Hrun s).
    rewrite (wr_documented _ _ _ Hin), Hw, Hg. reflexivity.
Qed.

Lemma run_ok_iff opts : forall c, wf c -> Forall (fun o => documented (fst o)) opts ->
  ((exists c', run opts c = (c', None)) <-> forallb opt_ok opts = true).
Proof.
  induction opts as [|[n v] r IH]; intros c Hwf Hdoc; cbn [run forallb].
  - split; eauto.
  - inversion Hdoc as [|? ? Hn Hr]; subst. cbn [fst] in Hn.
    destruct (documented_entry _ Hn) as [a Hin].
    destruct (entry_facts _ _ Hin) as (_ & Hex & Hrg).
    unfold opt_ok at 1. cbn [fst snd]. rewrite Hex.
    rewrite (step_documented _ _ _ _ Hin).
    destruct (writes a v) as [[s x]|] eqn:Hw.
    + destruct (apply_some a v c s x Hwf Hrg Hw) as (c1 & Hc & Hwf1 & _). rewrite Hc.
      cbn [andb]. apply IH; auto.
    + destruct (apply_none a v c Hw) as [e He]. rewrite He. cbn [andb].
      split; [intros [c' H]; discriminate | discriminate].
Qed.

Lemma handle_inv opts c c' : handle opts c = Ok c' ->
  exists c1, run opts c = (c1, None) /\ c' = post c1 /\ validate (post c1) = None.
Proof.
  unfold handle. destruct (run opts c) as [c1 [e|]]; [discriminate|].
  destruct (validate (post c1)) eqn:E; [discriminate|]. intros [= <-]. eauto.
Qed.

Lemma post_template c : c_template (post c) = c_template c.
Proof. unfold post. destruct (beqb (c_template c) slim); reflexivity. Qed.

Lemma post_get c s : wf c ->
  get s (post c) =
  match s with
  | SFeat i => if Nat.eqb i ix_deep_equal
               then (if beqb (c_template c) slim then VBool false else get s c)
               else get s c
  | _ => get s c
  end.
Proof.
  intros [_ Hl]. unfold post. destruct (beqb (c_template c) slim) eqn:E.
  - destruct s as [i| | | | |q]; cbn [get set_feat c_style c_curinit c_prefix c_template c_imports get_feat c_feats]; auto.
    unfold get_feat, set_feat; cbn [c_feats]. rewrite nth_set_nth by (rewrite Hl; apply ix_deep_equal_range).
    destruct (Nat.eqb i ix_deep_equal); reflexivity.
  - destruct s as [i| | | | |q]; auto. destruct (Nat.eqb i ix_deep_equal); reflexivity.
Qed.

Lemma run_post_expected opts c1 : Forall (fun o => documented (fst o)) opts ->
  run opts default_cfg = (c1, None) -> forall s, get s (post c1) = expected default_of s opts.
Proof.
  intros Hdoc Hrun s.
  pose proof (run_wf _ _ _ wf_default Hrun) as Hwf1.
  pose proof (run_last opts default_cfg c1 wf_default Hdoc Hrun) as Hl.
  rewrite (post_get _ _ Hwf1). unfold expected, expected_w, slim_selected_w.
  assert (Ht : beqb (c_template c1) slim =
               value_eqb (last_w STemplate (map wr opts) (default_of STemplate)) (VStr slim)).
  { pose proof (Hl STemplate) as H. unfold last_setting in H. fold (default_of STemplate) in H.
    rewrite <- H. reflexivity. }
  destruct s as [i| | | | |q]; try (rewrite Hl; reflexivity).
  rewrite Ht, Hl. reflexivity.
Qed.

(* handle agrees with the specification on every setting *)
Lemma last_wins opts c : Forall (fun o => documented (fst o)) opts ->
  handle opts default_cfg = Ok c -> forall s, get s c = expected default_of s opts.
Proof.
  intros Hdoc H. destruct (handle_inv _ _ _ H) as (c1 & Hrun & -> & _).
  now apply run_post_expected.
Qed.

Lemma combo_violation_ext f g : (forall i, f i = g i) -> combo_violation f = combo_violation g.
Proof. intro H. unfold combo_violation. now rewrite !H. Qed.

(* acceptance: exactly the lists of valid options without a rejected combination *)
Lemma accepted_iff opts : Forall (fun o => documented (fst o)) opts ->
  ((exists c, handle opts default_cfg = Ok c) <-> spec_accepts default_of opts = true).
Proof.
  intro Hdoc. unfold spec_accepts. rewrite andb_true_iff.
  rewrite <- (run_ok_iff opts default_cfg wf_default Hdoc).
  assert (Hv : forall c1, run opts default_cfg = (c1, None) ->
               validate (post c1) = combo_violation (fun i => vbool (expected_w default_of (SFeat i) (map wr opts)))).
  { intros c1 Hrun. unfold validate. apply combo_violation_ext. intro i.
    pose proof (run_post_expected opts c1 Hdoc Hrun (SFeat i)) as H.
    unfold expected in H. rewrite <- H. reflexivity. }
  split.
  - intros [c H]. destruct (handle_inv _ _ _ H) as (c1 & Hrun & _ & Hval). split; [eauto|].
    unfold combo_ok, combo_ok_w. rewrite <- (Hv c1 Hrun), Hval. reflexivity.
  - intros [[c1 Hrun] Hc]. unfold combo_ok, combo_ok_w in Hc. rewrite <- (Hv c1 Hrun) in Hc.
    exists (post c1). unfold handle. rewrite Hrun.
    destruct (validate (post c1)); [discriminate | reflexivity].
Qed.

(* ------------------------------------------------------------------ boolean forms *)

Lemma bool_forms_feature n i c : In (n, AFeature i) table -> wf c ->
  step (n, []) c = Ok (set_feat i true c) /\
  step (n, s_true) c = Ok (set_feat i true c) /\
  step (n, s_false) c = Ok (set_feat i false c) /\
  get (SFeat i) (set_feat i true c) = VBool true /\
  get (SFeat i) (set_feat i false c) = VBool false /\
  forall v, v <> [] -> v <> s_true -> v <> s_false -> step (n, v) c = Err EBool.
Proof.
  intros Hin [_ Hl]. rewrite !(step_documented _ _ _ _ Hin).
  destruct (entry_facts _ _ Hin) as (_ & _ & Hr). apply in_range_feature in Hr.
  repeat split; try reflexivity.
  - unfold get, get_feat, set_feat; cbn [c_feats]. rewrite nth_set_nth by lia. now rewrite Nat.eqb_refl.
  - unfold get, get_feat, set_feat; cbn [c_feats]. rewrite nth_set_nth by lia. now rewrite Nat.eqb_refl.
  - intros v H0 H1 H2. rewrite (step_documented _ _ _ _ Hin). cbn [apply].
    assert (parse_bool v = None) as -> by (apply parse_bool_none; auto). reflexivity.
Qed.

Lemma bool_forms_initialisms n c : In (n, AIgnoreInit) table ->
  step (n, []) c = Ok (set_init false c) /\
  step (n, s_true) c = Ok (set_init false c) /\
  step (n, s_false) c = Ok (set_init true c) /\
  forall v, v <> [] -> v <> s_true -> v <> s_false -> step (n, v) c = Err EBool.
Proof.
  intros Hin. rewrite !(step_documented _ _ _ _ Hin). repeat split; try reflexivity.
  intros v H0 H1 H2. rewrite (step_documented _ _ _ _ Hin). cbn [apply].
  assert (parse_bool v = None) as -> by (apply parse_bool_none; auto). reflexivity.
Qed.

(* ------------------------------------------------------------------ invalid values, anywhere in a list *)

Lemma run_err_handle opts c e : snd (run opts c) = Some e -> handle opts c = Err e.
Proof. unfold handle. destruct (run opts c) as [c1 [e'|]]; cbn [snd]; [now intros [= ->] | discriminate]. Qed.

Lemma invalid_value_rejected n a v : In (n, a) table -> writes a v = None ->
  forall before after c, exists e, handle (before ++ (n, v) :: after) c = Err e.
Proof.
  intros Hin Hw before after.
  assert (H : forall c, exists e, snd (run (before ++ (n, v) :: after) c) = Some e).
  { induction before as [|o l IH]; intro c; cbn [app run].
    - rewrite (step_documented _ _ _ _ Hin). destruct (apply_none a v c Hw) as [e ->]. cbn [snd]. eauto.
    - destruct (step o c) as [c1|e]; [apply IH | cbn [snd]; eauto]. }
  intro c. destruct (H c) as [e He]. exists e. now apply run_err_handle.
Qed.

Lemma writes_bool_none i v : writes (AFeature i) v = None <-> v <> [] /\ v <> s_true /\ v <> s_false.
Proof.
  rewrite <- parse_bool_none. cbn [writes]. destruct (parse_bool v); split; congruence.
Qed.

Lemma writes_init_none v : writes AIgnoreInit v = None <-> v <> [] /\ v <> s_true /\ v <> s_false.
Proof.
  rewrite <- parse_bool_none. cbn [writes]. destruct (parse_bool v); split; congruence.
Qed.

Lemma existsb_beqb_In v l : existsb (beqb v) l = true <-> In v l.
Proof.
  rewrite existsb_exists. split.
  - intros [x [Hin E]]. apply beqb_true in E. now subst.
  - intro Hin. exists v. split; auto. apply beqb_refl.
Qed.

Lemma writes_style_none v : writes ANamingStyle v = None <-> ~ In v naming_styles.
Proof.
  cbn [writes]. unfold style_known. rewrite <- existsb_beqb_In.
  destruct (existsb (beqb v) naming_styles); split; congruence.
Qed.

Lemma writes_template_none v : writes ATemplate v = None <-> v <> default_template /\ ~ In v templates.
Proof.
  cbn [writes]. unfold template_known. rewrite <- existsb_beqb_In.
  destruct (beqb v default_template) eqn:E1; cbn [orb].
  - apply beqb_true in E1. split; [discriminate | intros [H _]; congruence].
  - apply beqb_false in E1. destruct (existsb (beqb v) templates); split; try discriminate; auto.
    intros [_ H]. exfalso. now apply H.
Qed.

Lemma split_first_none sep v : snd (split_first sep v) = None <-> ~ In sep v.
Proof.
  induction v as [|b v IH]; cbn [split_first snd In]; [tauto|].
  destruct (Byte.eqb b sep) eqn:E.
  - apply byte_eqb_eq in E. subst. cbn [snd]. split; [discriminate | tauto].
  - destruct (split_first sep v) as [h t]. cbn [snd] in *. rewrite IH.
    assert (b <> sep) by (intro; subst; rewrite (proj2 (byte_eqb_eq sep sep) eq_refl) in E; discriminate).
    tauto.
Qed.

Lemma writes_use_package_none v : writes AUsePackage v = None <-> ~ In ch_eq v.
Proof.
  rewrite <- split_first_none. cbn [writes]. destruct (split_first ch_eq v) as [p [r|]]; cbn [snd]; split; congruence.
Qed.

(* ------------------------------------------------------------------ rejected combinations *)

Lemma handle_no_violation opts c c' : handle opts c = Ok c' ->
  combo_violation (fun i => get_feat i c') = None.
Proof. intro H. destruct (handle_inv _ _ _ H) as (c1 & _ & -> & Hv). exact Hv. Qed.

Lemma invalid_combination_rejected opts c c' : handle opts c = Ok c' ->
  ~ (get_feat ix_apache_warning c' = true /\ get_feat ix_apache_adaptor c' = true) /\
  (get_feat ix_with_field_mask c' = true -> get_feat ix_with_reflection c' = true) /\
  ~ (get_feat ix_snake c' = true /\ get_feat ix_lower_camel c' = true) /\
  (get_feat ix_always_json c' = true -> get_feat ix_gen_json_tag c' = true).
Proof.
  intro H. apply handle_no_violation in H. unfold combo_violation in H.
  destruct (get_feat ix_apache_warning c'), (get_feat ix_apache_adaptor c'),
           (get_feat ix_with_field_mask c'), (get_feat ix_with_reflection c'),
           (get_feat ix_snake c'), (get_feat ix_lower_camel c'),
           (get_feat ix_gen_json_tag c'), (get_feat ix_always_json c');
    cbn [andb negb] in H; try discriminate; repeat split; try tauto; try (intros [? ?]; discriminate); auto.
Qed.

(* conversely, each of the four combinations is an error whatever else the list does *)
Lemma combination_error opts c c1 : run opts c = (c1, None) ->
  combo_violation (fun i => get_feat i (post c1)) <> None -> exists k, handle opts c = Err (ECombo k).
Proof.
  intros Hrun Hv. unfold handle. rewrite Hrun. unfold validate.
  destruct (combo_violation (fun i => get_feat i (post c1))) as [k|]; [eauto | congruence].
Qed.

(* ------------------------------------------------------------------ single valid options *)

Definition default_not_slim : bool := negb (beqb default_template slim).
Lemma default_not_slim_true : default_not_slim = true. Proof. vm_compute. reflexivity. Qed.

Lemma post_default_template c : c_template c = default_template -> post c = c.
Proof.
  intro H. unfold post. rewrite H. pose proof default_not_slim_true as D. unfold default_not_slim in D.
  apply negb_true_iff in D. now rewrite D.
Qed.

Definition single_bool_ok : bool :=
  forallb (fun i => forallb (fun b =>
      (b && Nat.eqb i ix_with_field_mask) ||
      match validate (set_feat i b default_cfg) with None => true | Some _ => false end) [true; false])
    (seq 0 nfeat).
Lemma single_bool_ok_true : single_bool_ok = true. Proof. vm_compute. reflexivity. Qed.

Lemma single_bool_accepted n i v b : In (n, AFeature i) table -> parse_bool v = Some b ->
  (b = true -> i <> ix_with_field_mask) ->
  handle [(n, v)] default_cfg = Ok (set_feat i b default_cfg).
Proof.
  intros Hin Hp Hx. unfold handle. cbn [run]. rewrite (step_documented _ _ _ _ Hin).
  cbn [apply]. rewrite Hp. rewrite post_default_template by reflexivity.
  destruct (entry_facts _ _ Hin) as (_ & _ & Hr). apply in_range_feature in Hr.
  pose proof single_bool_ok_true as H. unfold single_bool_ok in H. rewrite forallb_forall in H.
  specialize (H i). rewrite in_seq in H. specialize (H ltac:(lia)). rewrite forallb_forall in H.
  specialize (H b). assert (Hb : In b [true; false]) by (destruct b; cbn; auto). specialize (H Hb).
  apply orb_true_iff in H as [H|H].
  - apply andb_true_iff in H as [-> H]. apply Nat.eqb_eq in H. exfalso. now apply Hx.
  - destruct (validate (set_feat i b default_cfg)); [discriminate | reflexivity].
Qed.

Definition validate_default_ok : bool :=
  match validate default_cfg with None => true | Some _ => false end.
Lemma validate_default_ok_true : validate_default_ok = true. Proof. vm_compute. reflexivity. Qed.

Lemma validate_feats c : c_feats c = c_feats default_cfg -> validate c = None.
Proof.
  intro H. unfold validate, get_feat. rewrite H.
  pose proof validate_default_ok_true as V. unfold validate_default_ok, validate, get_feat in V.
  destruct (combo_violation (fun i => nth i (c_feats default_cfg) false)); [discriminate | reflexivity].
Qed.

(* an accepted option that leaves features and template alone is accepted on its own *)
Lemma single_other_accepted n a v c' : In (n, a) table -> apply a v default_cfg = Ok c' ->
  c_feats c' = c_feats default_cfg -> c_template c' = default_template ->
  handle [(n, v)] default_cfg = Ok c'.
Proof.
  intros Hin Ha Hf Ht. unfold handle. cbn [run]. rewrite (step_documented _ _ _ _ Hin), Ha.
  rewrite (post_default_template _ Ht), (validate_feats _ Hf). reflexivity.
Qed.

Lemma single_style_accepted n s : In (n, ANamingStyle) table -> In s naming_styles ->
  handle [(n, s)] default_cfg = Ok (set_style s default_cfg).
Proof.
  intros Hin Hs. apply (single_other_accepted n ANamingStyle); auto. cbn [apply]. unfold style_known.
  now rewrite (proj2 (existsb_beqb_In s naming_styles) Hs).
Qed.

Lemma single_initialisms_accepted n v b : In (n, AIgnoreInit) table -> parse_bool v = Some b ->
  handle [(n, v)] default_cfg = Ok (set_init (negb b) default_cfg).
Proof.
  intros Hin Hp. apply (single_other_accepted n AIgnoreInit); auto. cbn [apply]. now rewrite Hp.
Qed.

Lemma single_prefix_accepted n v : In (n, APackagePrefix) table ->
  handle [(n, v)] default_cfg = Ok (set_prefix v default_cfg).
Proof. intros Hin. now apply (single_other_accepted n APackagePrefix). Qed.

Lemma single_import_path_accepted n v : In (n, AImportPath) table ->
  handle [(n, v)] default_cfg = Ok (set_import default_thrift_lib v default_cfg).
Proof. intros Hin. now apply (single_other_accepted n AImportPath). Qed.

Lemma single_use_package_accepted n p r : In (n, AUsePackage) table -> ~ In ch_eq p ->
  handle [(n, (p ++ ch_eq :: r)%list)] default_cfg = Ok (set_import p r default_cfg).
Proof.
  intros Hin Hp. apply (single_other_accepted n AUsePackage); auto. cbn [apply].
  assert (E : split_first ch_eq (p ++ ch_eq :: r) = (p, Some r)).
  { induction p as [|b p IH]; cbn [app split_first].
    - now rewrite (proj2 (byte_eqb_eq ch_eq ch_eq) eq_refl).
    - destruct (Byte.eqb b ch_eq) eqn:E.
      + apply byte_eqb_eq in E. subst. exfalso. apply Hp. now left.
      + rewrite IH; auto. intro H. apply Hp. now right. }
  now rewrite E.
Qed.

Definition single_template_ok : bool :=
  forallb (fun t => match validate (post (set_template t default_cfg)) with None => true | Some _ => false end)
          (default_template :: templates).
Lemma single_template_ok_true : single_template_ok = true. Proof. vm_compute. reflexivity. Qed.

Lemma single_template_accepted n t : In (n, ATemplate) table -> t = default_template \/ In t templates ->
  handle [(n, t)] default_cfg = Ok (post (set_template t default_cfg)).
Proof.
  intros Hin Ht. unfold handle. cbn [run]. rewrite (step_documented _ _ _ _ Hin). cbn [apply].
  assert (template_known t = true) as ->.
  { unfold template_known. apply orb_true_iff. destruct Ht as [->|Ht]; [left; apply beqb_refl | right; now apply existsb_beqb_In]. }
  pose proof single_template_ok_true as H. unfold single_template_ok in H. rewrite forallb_forall in H.
  specialize (H t). assert (Hi : In t (default_template :: templates)) by (destruct Ht; [left; auto | right; auto]).
  specialize (H Hi). destruct (validate (post (set_template t default_cfg))); [discriminate | reflexivity].
Qed.

(* ------------------------------------------------------------------ implications *)

Lemma slim_disables_deep_equal opts c c' : handle opts c = Ok c' ->
  c_template c' = slim -> get_feat ix_deep_equal c' = false.
Proof.
  intros H Ht. destruct (handle_inv _ _ _ H) as (c1 & _ & -> & _).
  rewrite post_template in Ht. unfold post. rewrite Ht, beqb_refl.
  unfold get_feat, set_feat; cbn [c_feats]. apply nth_set_nth_false.
Qed.

Definition template_entry_ok : bool :=
  match find_entry template_name table with
  | Some e => beqb (fst e) template_name && action_eqb (snd e) ATemplate
  | None => false
  end && template_known slim.
Lemma template_entry_ok_true : template_entry_ok = true. Proof. vm_compute. reflexivity. Qed.

Lemma step_template_slim c : step (template_name, slim) c = Ok (set_template slim c).
Proof.
  pose proof template_entry_ok_true as H. unfold template_entry_ok in H.
  apply andb_true_iff in H as [H Hk]. unfold step. cbn [fst snd].
  destruct (find_entry template_name table) as [[n a]|]; [|discriminate]. cbn [fst snd] in *.
  apply andb_true_iff in H as [_ Ha]. apply action_eqb_eq in Ha. subst a. cbn [apply]. now rewrite Hk.
Qed.

Lemma check_options_adapts opts :
  get_feat ix_nested (final_state opts default_cfg) = true ->
  (forall o, In o opts -> fst o <> template_name) ->
  check_options opts = (opts ++ [(template_name, slim)])%list.
Proof.
  intros Hn Hno. unfold check_options. rewrite Hn.
  destruct (existsb (fun o => beqb (fst o) template_name) opts) eqn:E; auto.
  apply existsb_exists in E as [o [Hin Ho]]. apply beqb_true in Ho. exfalso. now apply (Hno o).
Qed.

Lemma nested_forces_slim opts c :
  get_feat ix_nested (final_state opts default_cfg) = true ->
  (forall o, In o opts -> fst o <> template_name) ->
  handle (check_options opts) default_cfg = Ok c ->
  c_template c = slim /\ get_feat ix_deep_equal c = false.
Proof.
  intros Hn Hno H. rewrite (check_options_adapts _ Hn Hno) in H.
  assert (Ht : c_template c = slim).
  { destruct (handle_inv _ _ _ H) as (c2 & Hrun & -> & _). rewrite post_template.
    rewrite run_app in Hrun. destruct (run opts default_cfg) as [c1 [e|]]; [discriminate|].
    cbn [run] in Hrun. rewrite step_template_slim in Hrun. now injection Hrun as <-. }
  split; auto. eapply slim_disables_deep_equal; eauto.
Qed.

Lemma check_options_keeps opts :
  get_feat ix_nested (final_state opts default_cfg) = false \/
  (exists o, In o opts /\ fst o = template_name) ->
  check_options opts = opts.
Proof.
  intros [Hn | [o [Hin Ho]]]; unfold check_options.
  - now rewrite Hn.
  - destruct (get_feat ix_nested (final_state opts default_cfg)); auto.
    assert (existsb (fun o => beqb (fst o) template_name) opts = true) as ->; auto.
    apply existsb_exists. exists o. split; auto. rewrite Ho. apply beqb_refl.
Qed.

(* ------------------------------------------------------------------ documentation against the table *)

Definition mem (n : bytes) (l : list bytes) : bool := existsb (beqb n) l.

Fixpoint names_eqb (a b : list bytes) : bool :=
  match a, b with
  | [], [] => true
  | x :: a', y :: b' => beqb x y && names_eqb a' b'
  | _, _ => false
  end.

Lemma names_eqb_eq a b : names_eqb a b = true -> a = b.
Proof.
  revert b; induction a as [|x a IH]; intros [|y b]; cbn [names_eqb]; try discriminate; auto.
  intro H. apply andb_true_iff in H as [H1 H2]. apply beqb_true in H1. f_equal; auto.
Qed.

Definition same_set (a b : list bytes) : bool :=
  forallb (fun x => mem x b) a && forallb (fun x => mem x a) b.

Lemma same_set_iff a b : same_set a b = true -> forall x, In x a <-> In x b.
Proof.
  unfold same_set, mem. rewrite andb_true_iff, !forallb_forall. intros [H1 H2] x.
  split; intro H; [apply H1 in H | apply H2 in H]; now apply existsb_beqb_In in H.
Qed.

Definition opt_bytes_eqb (a : option bytes) (b : bytes) : bool :=
  match a with Some x => beqb x b | None => false end.

(* README: every option is a table entry; documented defaults are the code's *)
Definition readme_entry_ok (e : bytes * doc_default) : bool :=
  match exact_action (fst e), snd e with
  | Some (AFeature i), DBool b => Bool.eqb (nth i feature_defaults false) b
  | Some AIgnoreInit, DBool b => Bool.eqb init_curinit (negb b) && Bool.eqb init_doinit (negb b)
  | Some ANamingStyle, DStr s => beqb s default_style
  | Some AImportPath, DNone => opt_bytes_eqb readme_thrift_lib default_thrift_lib
  | Some AUsePackage, DNone | Some APackagePrefix, DNone | Some ATemplate, DNone => true
  | _, _ => false
  end.

Definition readme_ok : bool := forallb readme_entry_ok readme_options.
Lemma readme_ok_true : readme_ok = true. Proof. vm_compute. reflexivity. Qed.

Lemma readme_entry n d : In (n, d) readme_options ->
  documented n /\
  match d with
  | DBool b => (exists i, In (n, AFeature i) table /\ nth i feature_defaults false = b) \/
               (In (n, AIgnoreInit) table /\ init_curinit = negb b /\ init_doinit = negb b)
  | DStr s => In (n, ANamingStyle) table /\ s = default_style
  | DNone => True
  end.
Proof.
  intro Hin. pose proof readme_ok_true as H. unfold readme_ok in H. rewrite forallb_forall in H.
  specialize (H _ Hin). unfold readme_entry_ok in H. cbn [fst snd] in H.
  destruct (exact_action n) as [a|] eqn:E; [|discriminate].
  unfold exact_action in E. apply lookup_In in E.
  split; [unfold documented; apply in_map_iff; exists (n, a); auto|].
  destruct d as [b|s|]; auto.
  - destruct a; try discriminate.
    + right. apply andb_true_iff in H as [H1 H2]. apply eqb_prop in H1. apply eqb_prop in H2. auto.
    + left. exists i. apply eqb_prop in H. auto.
  - destruct a; try discriminate. apply beqb_true in H. auto.
Qed.

(* thriftgo -h: lists exactly the table, in order; "Enabled by default" is the code's default *)
Definition help_entry_ok (e : bytes * (bool * bool)) : bool :=
  match exact_action (fst e) with
  | Some (AFeature i) => Bool.eqb (nth i feature_defaults false) (fst (snd e))
  | Some _ => negb (fst (snd e))
  | None => false
  end &&
  (mem (fst e) (map fst readme_options) || snd (snd e)).

Definition help_ok : bool :=
  names_eqb (map fst help_options) (map fst table) &&
  forallb help_entry_ok help_options &&
  forallb (fun n => mem n (map fst help_options)) (map fst readme_options) &&
  opt_bytes_eqb help_thrift_lib default_thrift_lib &&
  opt_bytes_eqb help_style_default default_style.
Lemma help_ok_true : help_ok = true. Proof. vm_compute. reflexivity. Qed.

Lemma help_lists_all :
  map fst help_options = map fst table /\
  (forall n, In n (map fst readme_options) -> In n (map fst help_options)) /\
  (forall n en dep, In (n, (en, dep)) help_options -> In n (map fst readme_options) \/ dep = true).
Proof.
  pose proof help_ok_true as H. unfold help_ok in H.
  apply andb_true_iff in H as [H _]. apply andb_true_iff in H as [H _].
  apply andb_true_iff in H as [H HC]. apply andb_true_iff in H as [HA HB].
  split; [now apply names_eqb_eq|]. split.
  - intros n Hn. rewrite forallb_forall in HC. apply HC in Hn. now apply existsb_beqb_In in Hn.
  - intros n en dep Hin. rewrite forallb_forall in HB. apply HB in Hin. unfold help_entry_ok in Hin.
    cbn [fst snd] in Hin. apply andb_true_iff in Hin as [_ Hin]. apply orb_true_iff in Hin as [Hin|Hin]; auto.
    left. now apply existsb_beqb_In in Hin.
Qed.

Lemma help_defaults_agree n en dep i : In (n, (en, dep)) help_options -> In (n, AFeature i) table ->
  nth i feature_defaults false = en.
Proof.
  intros Hin Ht. pose proof help_ok_true as H. unfold help_ok in H.
  apply andb_true_iff in H as [H _]. apply andb_true_iff in H as [H _].
  apply andb_true_iff in H as [H _]. apply andb_true_iff in H as [_ HB].
  rewrite forallb_forall in HB. apply HB in Hin.
  unfold help_entry_ok in Hin. cbn [fst snd] in Hin. apply andb_true_iff in Hin as [Hin _].
  destruct (entry_facts _ _ Ht) as (_ & Hex & _). rewrite Hex in Hin. now apply eqb_prop in Hin.
Qed.

Lemma doc_string_defaults :
  readme_thrift_lib = Some default_thrift_lib /\ help_thrift_lib = Some default_thrift_lib /\
  help_style_default = Some default_style.
Proof. repeat split; vm_compute; reflexivity. Qed.

(* documented value sets are the accepted ones *)
Definition doc_sets_ok : bool :=
  same_set readme_styles naming_styles && same_set help_styles naming_styles &&
  same_set readme_templates templates && same_set help_templates templates &&
  same_set readme_bool_forms [[]; s_true; s_false] && same_set help_bool_forms [[]; s_true; s_false].
Lemma doc_sets_ok_true : doc_sets_ok = true. Proof. vm_compute. reflexivity. Qed.

Lemma doc_value_sets :
  (forall s, In s readme_styles <-> In s naming_styles) /\
  (forall s, In s help_styles <-> In s naming_styles) /\
  (forall t, In t readme_templates <-> In t templates) /\
  (forall t, In t help_templates <-> In t templates) /\
  (forall v, In v readme_bool_forms <-> parse_bool v <> None) /\
  (forall v, In v help_bool_forms <-> parse_bool v <> None).
Proof.
  pose proof doc_sets_ok_true as H. unfold doc_sets_ok in H.
  apply andb_true_iff in H as [H H0]. apply andb_true_iff in H as [H H1].
  apply andb_true_iff in H as [H H2]. apply andb_true_iff in H as [H H3].
  apply andb_true_iff in H as [H H4].
  assert (PB : forall v, In v [[]; s_true; s_false] <-> parse_bool v <> None).
  { intro v. split.
    - intros [<-|[<-|[<-|[]]]]; discriminate.
    - intro Hn. destruct (parse_bool v) as [b|] eqn:E; [|congruence].
      apply parse_bool_some in E as [[_ [->| ->]]|[_ ->]]; cbn; auto. }
  repeat split; try (now apply same_set_iff); intro Hx.
  - apply PB. now apply (same_set_iff _ _ H1).
  - apply (same_set_iff _ _ H1). now apply PB.
  - apply PB. now apply (same_set_iff _ _ H0).
  - apply (same_set_iff _ _ H0). now apply PB.
Qed.

(* the defaults the correspondence oracle takes from the documentation are the model's *)
Definition doc_defaults_ok : bool :=
  forallb (fun i => value_eqb (doc_default_of (SFeat i)) (default_of (SFeat i))) (seq 0 nfeat) &&
  value_eqb (doc_default_of SStyle) (default_of SStyle) &&
  value_eqb (doc_default_of SInit) (default_of SInit) &&
  value_eqb (doc_default_of SPrefix) (default_of SPrefix) &&
  value_eqb (doc_default_of STemplate) (default_of STemplate).
Lemma doc_defaults_ok_true : doc_defaults_ok = true. Proof. vm_compute. reflexivity. Qed.

Lemma value_eqb_eq a b : value_eqb a b = true -> a = b.
Proof.
  destruct a as [x|x|[x|]], b as [y|y|[y|]]; cbn [value_eqb]; try discriminate; auto; intro H.
  - apply eqb_prop in H. now subst.
  - apply beqb_true in H. now subst.
  - apply beqb_true in H. now subst.
Qed.

Lemma documented_defaults_agree s :
  match s with SFeat i => i < nfeat | _ => True end -> doc_default_of s = default_of s.
Proof.
  pose proof doc_defaults_ok_true as H. unfold doc_defaults_ok in H.
  apply andb_true_iff in H as [H H0]. apply andb_true_iff in H as [H H1].
  apply andb_true_iff in H as [H H2]. apply andb_true_iff in H as [H H3].
  destruct s as [i| | | | |p]; intro Hs; try (now apply value_eqb_eq).
  rewrite forallb_forall in H. apply value_eqb_eq. apply H. apply in_seq. lia.
Qed.

(* ------------------------------------------------------------------ plugin.Pack / SplitN round trip *)

Lemma split_first_app p r : ~ In ch_eq p -> split_first ch_eq (p ++ ch_eq :: r) = (p, Some r).
Proof.
  intro Hp. induction p as [|b p IH]; cbn [app split_first].
  - now rewrite (proj2 (byte_eqb_eq ch_eq ch_eq) eq_refl).
  - destruct (Byte.eqb b ch_eq) eqn:E.
    + apply byte_eqb_eq in E. subst. exfalso. apply Hp. now left.
    + rewrite IH; auto. intro H. apply Hp. now right.
Qed.

Lemma parse_pack o : ~ In ch_eq (fst o) -> parse_arg (pack o) = o.
Proof.
  destruct o as [n v]. cbn [fst]. intro H. unfold parse_arg, pack. cbn [fst snd].
  now rewrite split_first_app.
Qed.

(* ------------------------------------------------------------------ why the initial state matters *)

(* NewCodeUtils before the repair proposed_fixes/C20-naming-style-resets-initialisms: the
   doInitialisms field starts false while the initial style object corrects initialisms *)
Definition unrepaired_default_cfg : cfg :=
  mkcfg feature_defaults default_style false true [] default_template [].

Lemma unrepaired_naming_style_resets_initialisms :
  exists n s c', existsb (fun e => beqb (fst e) n && action_eqb (snd e) ANamingStyle) table = true /\
    handle [(n, s)] unrepaired_default_cfg = Ok c' /\
    get SInit unrepaired_default_cfg = VBool true /\ get SInit c' = VBool false.
Proof.
  exists (B "naming_style"%string), (B "golint"%string).
  eexists. split; [vm_compute; reflexivity|]. split; [vm_compute; reflexivity|].
  split; vm_compute; reflexivity.
Qed.

(* ------------------------------------------------------------------ the whole command-line path
   -g value -> ParseCompactArguments -> checkOptions -> Pack -> HandleOptions (SplitN) *)

Lemma split_first_fst_no_sep sep s : ~ In sep (fst (split_first sep s)).
Proof.
  induction s as [|b s IH]; cbn [split_first fst In]; [tauto|].
  destruct (Byte.eqb b sep) eqn:E; [cbn [fst In]; tauto|].
  destruct (split_first sep s) as [h t]. cbn [fst In] in *.
  intros [H|H]; [|tauto]. subst. rewrite (proj2 (byte_eqb_eq sep sep) eq_refl) in E. discriminate.
Qed.

Lemma parse_arg_name a : ~ In ch_eq (fst (parse_arg a)).
Proof.
  unfold parse_arg. pose proof (split_first_fst_no_sep ch_eq a) as H.
  destruct (split_first ch_eq a) as [n r]. exact H.
Qed.

Lemma parse_compact_names g o : In o (snd (parse_compact g)) -> ~ In ch_eq (fst o).
Proof.
  unfold parse_compact. destruct (split_first ch_colon g) as [lang [rest|]]; cbn [snd]; [|intros []].
  rewrite in_map_iff. intros [a [<- _]]. apply parse_arg_name.
Qed.

Definition template_name_plain : bool := negb (existsb (Byte.eqb ch_eq) template_name).
Lemma template_name_plain_true : template_name_plain = true. Proof. vm_compute. reflexivity. Qed.

Lemma template_name_no_eq : ~ In ch_eq template_name.
Proof.
  pose proof template_name_plain_true as H. unfold template_name_plain in H. apply negb_true_iff in H.
  intro Hin. assert (existsb (Byte.eqb ch_eq) template_name = true); [|congruence].
  apply existsb_exists. exists ch_eq. split; [auto | now apply byte_eqb_eq].
Qed.

Lemma check_options_names opts :
  (forall o, In o opts -> ~ In ch_eq (fst o)) -> forall o, In o (check_options opts) -> ~ In ch_eq (fst o).
Proof.
  intros H o. unfold check_options.
  destruct (get_feat ix_nested (final_state opts default_cfg)); auto.
  destruct (existsb (fun o0 => beqb (fst o0) template_name) opts); auto.
  rewrite in_app_iff. intros [Hin|[<-|[]]]; [auto | cbn [fst]; apply template_name_no_eq].
Qed.

Lemma targets_names g o : In o (targets g) -> ~ In ch_eq (fst o).
Proof. unfold targets. apply check_options_names. apply parse_compact_names. Qed.

Lemma unpack_pack opts : (forall o, In o opts -> ~ In ch_eq (fst o)) -> map parse_arg (map pack opts) = opts.
Proof.
  induction opts as [|o r IH]; intro H; cbn [map]; auto.
  rewrite parse_pack by (apply H; now left). f_equal. apply IH. intros o' Ho. apply H. now right.
Qed.

(* what the backend does with the packed options is HandleOptions on the options themselves *)
Lemma handle_packed_eq opts : (forall o, In o opts -> ~ In ch_eq (fst o)) ->
  handle_packed opts = handle opts default_cfg.
Proof. intro H. unfold handle_packed. now rewrite unpack_pack. Qed.

Lemma command_line_handle g : handle_packed (targets g) = handle (targets g) default_cfg.
Proof. apply handle_packed_eq. apply targets_names. Qed.

(* nested structs force slim, stated on the outcome: if the accepted configuration has nested
   structs on and no option named template was given, the template is slim *)
Lemma nested_forces_slim_outcome opts c :
  handle (check_options opts) default_cfg = Ok c ->
  get_feat ix_nested c = true ->
  (forall o, In o opts -> fst o <> template_name) ->
  c_template c = slim /\ get_feat ix_deep_equal c = false.
Proof.
  intros H Hn Hno.
  destruct (get_feat ix_nested (final_state opts default_cfg)) eqn:E.
  - now apply (nested_forces_slim opts c).
  - exfalso. rewrite (check_options_keeps opts (or_introl E)) in H.
    destruct (handle_inv _ _ _ H) as (c1 & Hrun & -> & _).
    unfold final_state in E. rewrite Hrun in E. congruence.
Qed.

Lemma command_line_nested g c :
  handle_packed (targets g) = Ok c ->
  get_feat ix_nested c = true ->
  (forall o, In o (snd (parse_compact g)) -> fst o <> template_name) ->
  c_template c = slim /\ get_feat ix_deep_equal c = false.
Proof.
  rewrite command_line_handle. unfold targets. apply nested_forces_slim_outcome.
Qed.

(* and the result of any accepted -g value obeys last-wins over the options handed to the backend *)
Lemma command_line_last_wins g c :
  Forall (fun o => documented (fst o)) (targets g) ->
  handle_packed (targets g) = Ok c -> forall s, get s c = expected default_of s (targets g).
Proof. intros Hd H. rewrite command_line_handle in H. now apply last_wins. Qed.
