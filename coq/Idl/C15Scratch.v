From Coq Require Import List Bool NArith ZArith Lia Permutation.
From Coq.Strings Require Import Byte String.
From Verif Require Import Base.Bytes Base.BE Wire.TType Wire.WVal Wire.Codec Wire.CodecFacts Wire.Schema Wire.SchemaDescriptor
  Idl.Ast Idl.AstUtil Idl.AstFacts Idl.Reflect Idl.ReflectFacts.
Import ListNotations.
Local Open Scope Z_scope.
Local Open Scope list_scope.

(* ================================================================ 7. the descriptor holds nothing else *)

(* the descriptor rebuilt from the facts alone *)
Fixpoint tdesc_of_tyx (p : bytes) (t : tyx) : tdesc :=
  match t with
  | TyX n k v => TDesc p n (match k with Some x => Some (tdesc_of_tyx p x) | None => None end)
                       (match v with Some x => Some (tdesc_of_tyx p x) | None => None end) None
  end.
Fixpoint cvdesc_of_cvx (c : cvx) : cvdesc :=
  match c with
  | XDouble b => cvd_plain CVT_DOUBLE b 0 [] false []
  | XInt z => cvd_plain CVT_INT 0 z [] false []
  | XString s => cvd_plain CVT_STRING 0 0 s false []
  | XBool b => cvd_plain CVT_BOOL 0 0 [] b []
  | XIdent s => cvd_plain CVT_IDENTIFIER 0 0 [] false s
  | XList l => CVD CVT_LIST 0 0 [] false
                   (Some ((fix go (l : list cvx) : list cvdesc := match l with [] => [] | x :: r => cvdesc_of_cvx x :: go r end) l))
                   None [] None
  | XMap l => CVD CVT_MAP 0 0 [] false None
                  (Some ((fix go (l : list (cvx * cvx)) : list (cvdesc * cvdesc) :=
                            match l with [] => [] | (k, v) :: r => (cvdesc_of_cvx k, cvdesc_of_cvx v) :: go r end) l))
                  [] None
  end.
Definition fielddesc_of_x (p : bytes) (f : fieldx) : fielddesc :=
  FieldD p (fx_name f) (tdesc_of_tyx p (fx_type f)) (match fx_req f with Some r => req_string r | None => [] end) (fx_id f)
         (omap cvdesc_of_cvx (fx_default f)) (fx_annos f) (fx_comments f) None.
Definition structdesc_of_x (p : bytes) (s : structx) : structdesc :=
  StructD p (sx_name s) (map (fielddesc_of_x p) (sx_fields s)) (sx_annos s) (sx_comments s) None.
Definition enumdesc_of_x (p : bytes) (e : enumx) : enumdesc :=
  EnumD p (ex_name' e) (map (fun v => EnumValueD p (evx_name v) (evx_number v) (evx_annos v) (evx_comments v) None) (ex_values e))
        (ex_annos e) (ex_comments e) None.
Definition typedefdesc_of_x (p : bytes) (t : typedefx) : typedefdesc :=
  TypedefD p (tdesc_of_tyx p (tx_type t)) (tx_alias t) (tx_annos t) (tx_comments t) None.
Definition methoddesc_of_x (p : bytes) (m : methodx) : methoddesc :=
  MethodD p (mx_name m) (omap (tdesc_of_tyx p) (mx_response m)) (map (fielddesc_of_x p) (mx_args m)) (mx_annos m)
          (mx_comments m) (map (fielddesc_of_x p) (mx_throws m)) (mx_oneway m) None.
Definition servicedesc_of_x (p : bytes) (s : servicex) : servicedesc :=
  ServiceD p (svx_name s) (map (methoddesc_of_x p) (svx_methods s)) (svx_annos s) (svx_comments s) None (svx_base s).
Definition constdesc_of_x (p : bytes) (c : constx) : constdesc :=
  ConstD p (cx_name c) (tdesc_of_tyx p (cx_type c)) (cvdesc_of_cvx (cx_value c)) (cx_annos c) (cx_comments c) None.
Definition fdesc_of_facts (x : filex) : fdesc :=
  let p := x_path x in
  FileD p (x_includes x) (x_namespaces x) (map (servicedesc_of_x p) (x_services x)) (map (structdesc_of_x p) (x_structs x))
        (map (structdesc_of_x p) (x_exceptions x)) (map (enumdesc_of_x p) (x_enums x)) (map (typedefdesc_of_x p) (x_typedefs x))
        (map (structdesc_of_x p) (x_unions x)) (map (constdesc_of_x p) (x_consts x)) None.

Lemma tdesc_of_tyx_ty p : forall t, tdesc_of_tyx p (tyx_of_ty t) = type_desc p t.
Proof.
  induction t as [n k v c an cat r td IHk IHv] using ty_ind'. cbn [tyx_of_ty tdesc_of_tyx type_desc].
  destruct k as [x|]; destruct v as [y|]; rewrite ?(IHk _ eq_refl), ?(IHv _ eq_refl); reflexivity.
Qed.

Lemma cvdesc_of_cvx_list_eq l :
  (fix go (l : list cvx) : list cvdesc := match l with [] => [] | x :: r => cvdesc_of_cvx x :: go r end) l = map cvdesc_of_cvx l.
Proof. induction l as [|x r IH]; [reflexivity|]. cbn [map]. rewrite <- IH. reflexivity. Qed.
Lemma cvdesc_of_cvx_map_eq l :
  (fix go (l : list (cvx * cvx)) : list (cvdesc * cvdesc) :=
     match l with [] => [] | (k, v) :: r => (cvdesc_of_cvx k, cvdesc_of_cvx v) :: go r end) l =
  map (fun kv => (cvdesc_of_cvx (fst kv), cvdesc_of_cvx (snd kv))) l.
Proof. induction l as [|[k v] r IH]; [reflexivity|]. cbn [map fst snd]. rewrite <- IH. reflexivity. Qed.

Lemma cvdesc_of_cvx_cv : forall c, cvdesc_of_cvx (cvx_of_cv c) = cv_desc c.
Proof.
  induction c as [b|z|s|s e|l IH|l IH] using const_value_ind'; cbn [cvx_of_cv cv_desc]; try reflexivity.
  - destruct (beqb s s_false); [reflexivity|]. destruct (beqb s s_true); reflexivity.
  - rewrite cvx_of_cv_list_eq, cv_desc_list_eq. cbn [cvdesc_of_cvx]. rewrite cvdesc_of_cvx_list_eq, map_map. do 2 f_equal.
    induction IH as [|x r Hx _ IHr]; [reflexivity|]. cbn [map]. rewrite Hx, IHr. reflexivity.
  - rewrite cvx_of_cv_map_eq, cv_desc_map_eq. cbn [cvdesc_of_cvx]. rewrite cvdesc_of_cvx_map_eq, map_map. do 2 f_equal.
    induction IH as [|[k v] r [Hk Hv] _ IHr]; [reflexivity|]. cbn [map fst snd] in *. rewrite Hk, Hv, IHr. reflexivity.
Qed.

Lemma fielddesc_of_x_field p f : field_annos_ok f = true -> fielddesc_of_x p (fieldx_of f) = field_desc p f.
Proof.
  unfold field_annos_ok. intro H. unfold fielddesc_of_x, fieldx_of, field_desc.
  cbn [fx_name fx_id fx_req fx_type fx_default fx_annos fx_comments].
  rewrite tdesc_of_tyx_ty, <- annos_map_faithful by exact H.
  destruct (fd_default f); cbn [omap]; [rewrite cvdesc_of_cvx_cv|]; reflexivity.
Qed.

Lemma fields_of_x p l : forallb field_annos_ok l = true -> map (fielddesc_of_x p) (map fieldx_of l) = map (field_desc p) l.
Proof. intro H. apply map_map_in. intros x Hx. apply fielddesc_of_x_field. rewrite forallb_forall in H. apply H. exact Hx. Qed.

Lemma structdesc_of_x_struct p s :
  annos_ok (sl_annos s) && forallb field_annos_ok (sl_fields s) = true -> structdesc_of_x p (structx_of s) = struct_desc p s.
Proof.
  intro H. apply andb_true_iff in H as [Ha Hf]. unfold structdesc_of_x, structx_of, struct_desc.
  cbn [sx_name sx_fields sx_annos sx_comments]. rewrite fields_of_x, <- annos_map_faithful by assumption. reflexivity.
Qed.

Lemma enumdesc_of_x_enum p e :
  annos_ok (en_annos e) && forallb (fun v => annos_ok (ev_annos v)) (en_values e) = true -> enumdesc_of_x p (enumx_of e) = enum_desc p e.
Proof.
  intro H. apply andb_true_iff in H as [Ha Hv]. unfold enumdesc_of_x, enumx_of, enum_desc.
  cbn [ex_name' ex_values ex_annos ex_comments]. rewrite <- annos_map_faithful by exact Ha. f_equal.
  apply map_map_in. intros v Hin. unfold enumvaluex_of, enum_value_desc. cbn [evx_name evx_number evx_annos evx_comments].
  rewrite <- annos_map_faithful; [reflexivity|]. rewrite forallb_forall in Hv. apply Hv. exact Hin.
Qed.

Lemma typedefdesc_of_x_typedef p t : annos_ok (td_annos t) = true -> typedefdesc_of_x p (typedefx_of t) = typedef_desc p t.
Proof.
  intro H. unfold typedefdesc_of_x, typedefx_of, typedef_desc. cbn [tx_alias tx_type tx_annos tx_comments].
  rewrite tdesc_of_tyx_ty, <- annos_map_faithful by exact H. reflexivity.
Qed.

Lemma methoddesc_of_x_method p fn :
  annos_ok (fn_annos fn) && forallb field_annos_ok (fn_args fn) && forallb field_annos_ok (fn_throws fn) = true ->
  methoddesc_of_x p (methodx_of fn) = method_desc p fn.
Proof.
  intro H. apply andb_true_iff in H as [H Ht]. apply andb_true_iff in H as [Ha Hg].
  unfold methoddesc_of_x, methodx_of, method_desc. cbn [mx_name mx_response mx_args mx_throws mx_oneway mx_annos mx_comments omap].
  rewrite tdesc_of_tyx_ty, !fields_of_x, <- annos_map_faithful by assumption. reflexivity.
Qed.

Lemma servicedesc_of_x_service p s :
  annos_ok (sv_annos s) &&
  forallb (fun fn => annos_ok (fn_annos fn) && forallb field_annos_ok (fn_args fn) && forallb field_annos_ok (fn_throws fn)) (sv_functions s) = true ->
  servicedesc_of_x p (servicex_of s) = service_desc p s.
Proof.
  intro H. apply andb_true_iff in H as [Ha Hf]. unfold servicedesc_of_x, servicex_of, service_desc.
  cbn [svx_name svx_base svx_methods svx_annos svx_comments]. rewrite <- annos_map_faithful by exact Ha. f_equal.
  apply map_map_in. intros fn Hin. apply methoddesc_of_x_method. rewrite forallb_forall in Hf. apply Hf. exact Hin.
Qed.

Lemma constdesc_of_x_const p c : annos_ok (co_annos c) = true -> constdesc_of_x p (constx_of c) = const_desc p c.
Proof.
  intro H. unfold constdesc_of_x, constx_of, const_desc. cbn [cx_name cx_type cx_value cx_annos cx_comments].
  rewrite tdesc_of_tyx_ty, cvdesc_of_cvx_cv, <- annos_map_faithful by exact H. reflexivity.
Qed.

(* the descriptor is a function of the facts: it holds nothing the property does not name (the
   Filepath copies in every node repeat the file's path) *)
Theorem descriptor_from_facts f :
  file_annos_ok f = true -> distinct_basenames f = true -> includes_plain f = true ->
  descriptor_of f = fdesc_of_facts (project_a f).
Proof.
  intros Ha Hd Hp. unfold file_annos_ok in Ha.
  apply andb_true_iff in Ha as [H Hsv]. apply andb_true_iff in H as [H Hco]. apply andb_true_iff in H as [H Htd].
  apply andb_true_iff in H as [Hsl Hen].
  unfold struct_likes in Hsl. rewrite !forallb_app in Hsl. apply andb_true_iff in Hsl as [Hs Hsl]. apply andb_true_iff in Hsl as [Hu He].
  unfold fdesc_of_facts, project_a, descriptor_of.
  cbn [x_path x_includes x_namespaces x_structs x_unions x_exceptions x_enums x_typedefs x_services x_consts].
  rewrite (includes_faithful f Hd Hp), namespaces_faithful.
  f_equal; symmetry; apply map_map_in; intros y Hin.
  - apply servicedesc_of_x_service. rewrite forallb_forall in Hsv. apply Hsv. exact Hin.
  - apply structdesc_of_x_struct. rewrite forallb_forall in Hs. apply Hs. exact Hin.
  - apply structdesc_of_x_struct. rewrite forallb_forall in He. apply He. exact Hin.
  - apply enumdesc_of_x_enum. rewrite forallb_forall in Hen. apply Hen. exact Hin.
  - apply typedefdesc_of_x_typedef. rewrite forallb_forall in Htd. apply Htd. exact Hin.
  - apply structdesc_of_x_struct. rewrite forallb_forall in Hu. apply Hu. exact Hin.
  - apply constdesc_of_x_const. rewrite forallb_forall in Hco. apply Hco. exact Hin.
Qed.

Corollary descriptor_determined_by_projection f g :
  file_annos_ok f = true -> distinct_basenames f = true -> includes_plain f = true ->
  file_annos_ok g = true -> distinct_basenames g = true -> includes_plain g = true ->
  project_a f = project_a g -> descriptor_of f = descriptor_of g.
Proof.
  intros Hf1 Hf2 Hf3 Hg1 Hg2 Hg3 E.
  rewrite (descriptor_from_facts f Hf1 Hf2 Hf3), (descriptor_from_facts g Hg1 Hg2 Hg3), E. reflexivity.
Qed.
