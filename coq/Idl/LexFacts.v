(* Idl/LexFacts.v — facts about the token layer Idl/Lex.v (property C03). *)
From Coq Require Import List Bool NArith ZArith Lia Arith.
From Coq.Strings Require Import Byte.
From Verif Require Import Base.Bytes Idl.Lex.
Import ListNotations.

(* ---------------------------------------------------------------- unescape / escape *)

(* the texts for which quoting with q is reversible: no backslash stands directly in
   front of a q, and the text does not end with a backslash *)
Fixpoint lit_text_ok (q : byte) (s : bytes) : bool :=
  match s with
  | [] => true
  | c :: r =>
    (if Byte.eqb c c_bs
     then match r with [] => false | d :: _ => negb (Byte.eqb d q) end
     else true) && lit_text_ok q r
  end.

Lemma eqb_refl c : Byte.eqb c c = true.
Proof. apply byte_eqb_eq. reflexivity. Qed.

Lemma eqb_neq c d : c <> d -> Byte.eqb c d = false.
Proof. intro H. destruct (Byte.eqb c d) eqn:E; [apply byte_eqb_eq in E; contradiction | reflexivity]. Qed.

Lemma eqb_false_neq c d : Byte.eqb c d = false -> c <> d.
Proof. intros H ->. rewrite eqb_refl in H. discriminate. Qed.

Lemma lit_ok_cons q c r :
  lit_text_ok q (c :: r) = true <->
  (c = c_bs -> exists d r', r = d :: r' /\ d <> q) /\ lit_text_ok q r = true.
Proof.
  cbn [lit_text_ok]. rewrite andb_true_iff. split; intros [H1 H2]; split; try assumption.
  - intros ->. rewrite eqb_refl in H1. destruct r as [|d r']; [discriminate|].
    exists d, r'. split; [reflexivity|]. apply negb_true_iff in H1. apply eqb_false_neq. exact H1.
  - destruct (Byte.eqb c c_bs) eqn:E; [|reflexivity]. apply byte_eqb_eq in E.
    destruct (H1 E) as (d & r' & -> & Hd). apply negb_true_iff. apply eqb_neq. exact Hd.
Qed.

Lemma lit_text_ok_tail q c r : lit_text_ok q (c :: r) = true -> lit_text_ok q r = true.
Proof. intro H. apply lit_ok_cons in H. tauto. Qed.

Lemma unescape_step q c d r' :
  unescape q (c :: d :: r') =
  if Byte.eqb c c_bs then
    if Byte.eqb d c_bs then match r' with [] => [c; c; d] | _ => c :: c :: unescape q r' end
    else if Byte.eqb d q then unescape q (d :: r') else c :: unescape q (d :: r')
  else c :: unescape q (d :: r').
Proof. reflexivity. Qed.

(* text in which no backslash precedes q (and none is last) is left alone by unescape *)
Lemma unescape_id_n q : forall n t, List.length t <= n -> lit_text_ok q t = true -> unescape q t = t.
Proof.
  induction n as [|n IH]; intros t Hl Hok.
  - destruct t; [reflexivity | cbn in Hl; lia].
  - destruct t as [|c r]; [reflexivity|].
    destruct r as [|d r']; [reflexivity|].
    apply lit_ok_cons in Hok. destruct Hok as [Hc Hr].
    assert (Hlr : List.length (d :: r') <= n) by (cbn in *; lia).
    rewrite unescape_step.
    destruct (Byte.eqb c c_bs) eqn:Ec.
    + apply byte_eqb_eq in Ec. destruct (Hc Ec) as (d0 & r0 & [= <- <-] & Hdq).
      destruct (Byte.eqb d c_bs) eqn:Ed.
      * apply byte_eqb_eq in Ed. subst c d.
        apply lit_ok_cons in Hr. destruct Hr as [Hd Hr'].
        destruct (Hd eq_refl) as (e & r'' & -> & _).
        f_equal. f_equal. apply IH; [cbn in *; lia | exact Hr'].
      * rewrite (eqb_neq d q Hdq). f_equal. apply IH; assumption.
    + f_equal. apply IH; assumption.
Qed.

Lemma unescape_id q t : lit_text_ok q t = true -> unescape q t = t.
Proof. apply (unescape_id_n q (List.length t)). lia. Qed.

Lemma escape_nil_inv q s : escape q s = [] -> s = [].
Proof. destruct s as [|c r]; [reflexivity|]. cbn. destruct (Byte.eqb c q); discriminate. Qed.

Lemma escape_cons_ne q c r : c <> q -> escape q (c :: r) = c :: escape q r.
Proof. intro H. cbn [escape]. rewrite (eqb_neq c q H). reflexivity. Qed.

Lemma escape_cons_eq q r : escape q (q :: r) = c_bs :: q :: escape q r.
Proof. cbn [escape]. rewrite eqb_refl. reflexivity. Qed.

(* unescape on a text that starts with a byte that is no backslash *)
Lemma unescape_cons_plain q c t : c <> c_bs -> t <> [] -> unescape q (c :: t) = c :: unescape q t.
Proof.
  intros Hc Ht. destruct t as [|d r']; [contradiction|].
  rewrite unescape_step. rewrite (eqb_neq c c_bs Hc). reflexivity.
Qed.

Lemma unescape_escape_n q : q <> c_bs ->
  forall n s, List.length s <= n -> lit_text_ok q s = true -> unescape q (escape q s) = s.
Proof.
  intros Hq. induction n as [|n IH]; intros s Hl Hok.
  - destruct s; [reflexivity | cbn in Hl; lia].
  - destruct s as [|c r]; [reflexivity|].
    apply lit_ok_cons in Hok. destruct Hok as [Hc Hokr].
    assert (Hlr : List.length r <= n) by (cbn in Hl; lia).
    destruct (Byte.byte_eq_dec c q) as [->|Hcq].
    + (* c = q: printed as backslash q; unescape drops the backslash *)
      rewrite escape_cons_eq.
      assert (Hstep : unescape q (c_bs :: q :: escape q r) = unescape q (q :: escape q r)).
      { rewrite unescape_step. rewrite eqb_refl, (eqb_neq q c_bs Hq), eqb_refl. reflexivity. }
      rewrite Hstep.
      destruct r as [|d r'].
      * reflexivity.
      * rewrite unescape_cons_plain; [| exact Hq | intro E; apply escape_nil_inv in E; discriminate].
        f_equal. apply IH; assumption.
    + rewrite (escape_cons_ne q c r Hcq).
      destruct r as [|d r']; [reflexivity|].
      destruct (Byte.byte_eq_dec c c_bs) as [->|Hcb].
      * (* a backslash of the text: the next byte d is not q *)
        destruct (Hc eq_refl) as (d0 & r0 & [= <- <-] & Hdq).
        rewrite (escape_cons_ne q d r' Hdq).
        destruct (Byte.byte_eq_dec d c_bs) as [->|Hdb].
        -- apply lit_ok_cons in Hokr. destruct Hokr as [Hd Hokr'].
           destruct (Hd eq_refl) as (e & r'' & -> & Heq).
           assert (Hne : escape q (e :: r'') <> []) by (intro E; apply escape_nil_inv in E; discriminate).
           destruct (escape q (e :: r'')) as [|x rest] eqn:Er; [contradiction|].
           rewrite unescape_step. rewrite !eqb_refl. f_equal. f_equal. rewrite <- Er.
           apply IH; [cbn in *; lia | exact Hokr'].
        -- rewrite unescape_step. rewrite eqb_refl, (eqb_neq d c_bs Hdb), (eqb_neq d q Hdq). f_equal.
           rewrite <- (escape_cons_ne q d r' Hdq). apply IH; assumption.
      * rewrite unescape_cons_plain; [| exact Hcb | intro E; apply escape_nil_inv in E; discriminate].
        f_equal. apply IH; assumption.
Qed.

(* unescape_spec: quoting a text with q and reading it back gives the text *)
Theorem unescape_escape q s : q <> c_bs -> lit_text_ok q s = true -> unescape q (escape q s) = s.
Proof. intros Hq. apply (unescape_escape_n q Hq (List.length s)). lia. Qed.

(* escaping for another quote character does not disturb the condition for q *)
Lemma lit_text_ok_escape_other q q' s :
  q <> q' -> q <> c_bs -> lit_text_ok q s = true -> lit_text_ok q (escape q' s) = true.
Proof.
  intros Hne Hq. induction s as [|c r IH]; intro Hok; [reflexivity|].
  apply lit_ok_cons in Hok. destruct Hok as [Hc Hokr]. specialize (IH Hokr).
  destruct (Byte.byte_eq_dec c q') as [->|Hcq].
  - rewrite escape_cons_eq. apply lit_ok_cons. split.
    + intros _. exists q', (escape q' r). split; [reflexivity | congruence].
    + apply lit_ok_cons. split; [|exact IH].
      intros E. destruct (Hc E) as (d & r' & -> & Hdq).
      destruct (Byte.byte_eq_dec d q') as [->|Hdq'].
      * rewrite escape_cons_eq. exists c_bs, (q' :: escape q' r'). split; [reflexivity | congruence].
      * rewrite (escape_cons_ne q' d r' Hdq'). exists d, (escape q' r'). split; [reflexivity | exact Hdq].
  - rewrite (escape_cons_ne q' c r Hcq). apply lit_ok_cons. split; [|exact IH].
    intros E. destruct (Hc E) as (d & r' & -> & Hdq).
    destruct (Byte.byte_eq_dec d q') as [->|Hdq'].
    + rewrite escape_cons_eq. exists c_bs, (q' :: escape q' r'). split; [reflexivity | congruence].
    + rewrite (escape_cons_ne q' d r' Hdq'). exists d, (escape q' r'). split; [reflexivity | exact Hdq].
Qed.

(* a text quoted for the other quote character is read back unchanged *)
Theorem unescape_other_quote_untouched q q' s :
  q <> q' -> q <> c_bs -> lit_text_ok q s = true -> unescape q (escape q' s) = escape q' s.
Proof. intros Hne Hq Hok. apply unescape_id. apply lit_text_ok_escape_other; assumption. Qed.

(* ================================================================ lexing what was printed *)

(* ---------------------------------------------------------------- span *)

Lemma span_app p a rest :
  forallb p a = true -> match rest with [] => True | c :: _ => p c = false end ->
  span p (a ++ rest) = (a, rest).
Proof.
  intros Ha Hr. induction a as [|c a IH]; cbn [app].
  - destruct rest as [|c r]; [reflexivity|]. cbn [span]. rewrite Hr. reflexivity.
  - cbn [forallb] in Ha. apply andb_true_iff in Ha. destruct Ha as [Hc Ha].
    cbn [span]. rewrite Hc, (IH Ha). reflexivity.
Qed.

(* ---------------------------------------------------------------- well-formed trivia *)

Definition no_nl (b : bytes) : bool := forallb (fun x => negb (is_nl x)) b.
(* the body of a block comment: the first closing pair after it is the one printed *)
Definition block_body_ok (b : bytes) : bool :=
  match block_end (b ++ [c_star; c_slash]) with
  | Some (b', []) => beqb b' b
  | _ => false
  end.

Definition tritem_ok (i : tritem) : bool :=
  match i with
  | TrSp c => is_space c
  | TrLine b | TrHash b => no_nl b
  | TrBlock b => block_body_ok b
  end.

Definition is_line_comment (i : tritem) : bool :=
  match i with TrLine _ | TrHash _ => true | _ => false end.

(* every item is well formed and a line comment is followed by a line break; [last]:
   the run is the last thing of the file, where a line comment may come last *)
Fixpoint trivia_ok (last : bool) (tr : trivia) : bool :=
  match tr with
  | [] => true
  | i :: r =>
    tritem_ok i &&
    (if is_line_comment i
     then match r with [] => last | j :: _ => tr_is_nl j end
     else true) &&
    trivia_ok last r
  end.

(* bytes that cannot start a trivia item *)
Definition not_trivia_start (s : bytes) : Prop :=
  match s with
  | [] => True
  | c :: _ => is_space c = false /\ c <> c_hash /\ c <> c_slash
  end.

Lemma block_end_cons2 c d s :
  block_end (c :: d :: s) =
  if Byte.eqb c c_star && Byte.eqb d c_slash then Some ([], s)
  else match block_end (d :: s) with Some (b, rest) => Some (c :: b, rest) | None => None end.
Proof. reflexivity. Qed.

Lemma block_end_app s b r x : block_end s = Some (b, r) -> block_end (s ++ x) = Some (b, r ++ x).
Proof.
  revert b r. induction s as [|c s IH]; intros b r H; [discriminate|].
  destruct s as [|d s']; [discriminate|].
  rewrite block_end_cons2 in H.
  change ((c :: d :: s') ++ x) with (c :: d :: (s' ++ x)). rewrite block_end_cons2.
  destruct (Byte.eqb c c_star && Byte.eqb d c_slash).
  - injection H as <- <-. reflexivity.
  - destruct (block_end (d :: s')) as [[b0 r0]|] eqn:E; [|discriminate].
    injection H as <- <-.
    change (d :: s' ++ x) with ((d :: s') ++ x). rewrite (IH _ _ eq_refl). reflexivity.
Qed.

Lemma block_body_end b rest :
  block_body_ok b = true -> block_end (b ++ c_star :: c_slash :: rest) = Some (b, rest).
Proof.
  unfold block_body_ok. intro H.
  destruct (block_end (b ++ [c_star; c_slash])) as [[b' r]|] eqn:E; [|discriminate].
  destruct r; [|discriminate]. apply beqb_true in H. subst b'.
  replace (b ++ c_star :: c_slash :: rest) with ((b ++ [c_star; c_slash]) ++ rest)
    by (rewrite <- app_assoc; reflexivity).
  rewrite (block_end_app _ _ _ rest E). reflexivity.
Qed.

Lemma is_nl_space c : is_nl c = true -> is_space c = true.
Proof. unfold is_space. intros ->. apply orb_true_r. Qed.

(* what follows a line comment: a line break, or the end *)
Lemma span_line_body b rest :
  no_nl b = true -> match rest with [] => True | c :: _ => is_nl c = true end ->
  span (fun x => negb (is_nl x)) (b ++ rest) = (b, rest).
Proof.
  intros Hb Hr. apply span_app; [exact Hb|].
  destruct rest as [|c r]; [exact I|]. rewrite Hr. reflexivity.
Qed.

Lemma trivia_bytes_cons i r : trivia_bytes (i :: r) = tritem_bytes i ++ trivia_bytes r.
Proof. reflexivity. Qed.

(* the bytes of a trivia run starting with a line break item start with a line break *)
Lemma trivia_bytes_nl_head j r rest :
  tr_is_nl j = true -> match trivia_bytes (j :: r) ++ rest with [] => True | c :: _ => is_nl c = true end.
Proof. destruct j as [c| | |]; cbn; try discriminate. intro H. exact H. Qed.

Lemma lex_trivia_printed last tr : forall fuel rest,
  trivia_ok last tr = true -> List.length tr < fuel ->
  not_trivia_start rest -> (last = true -> rest = []) ->
  lex_trivia fuel (trivia_bytes tr ++ rest) = Some (tr, rest).
Proof.
  induction tr as [|i r IH]; intros fuel rest Hok Hf Hns Hlast.
  - cbn [trivia_bytes map List.concat app].
    destruct fuel as [|f]; [cbn in Hf; lia|].
    destruct rest as [|c rest']; [reflexivity|].
    cbn [lex_trivia]. destruct Hns as (Hsp & Hh & Hs).
    rewrite Hsp, (eqb_neq c c_hash Hh), (eqb_neq c c_slash Hs). reflexivity.
  - destruct fuel as [|f]; [cbn in Hf; lia|].
    cbn [trivia_ok] in Hok. apply andb_true_iff in Hok. destruct Hok as [Hok Hr].
    apply andb_true_iff in Hok. destruct Hok as [Hi Hfollow].
    assert (Hf' : List.length r < f) by (cbn in Hf; lia).
    specialize (IH f rest Hr Hf' Hns Hlast).
    rewrite trivia_bytes_cons, <- app_assoc.
    destruct i as [c|b|b|b]; cbn [tritem_bytes tritem_ok is_line_comment] in *.
    + (* blank *)
      cbn [app lex_trivia]. rewrite Hi, IH. reflexivity.
    + (* // body *)
      cbn [app lex_trivia].
      assert (Hsl : is_space c_slash = false) by reflexivity.
      rewrite Hsl. assert (Hh : Byte.eqb c_slash c_hash = false) by reflexivity. rewrite Hh.
      rewrite !eqb_refl.
      rewrite (span_line_body b (trivia_bytes r ++ rest) Hi).
      * rewrite IH. reflexivity.
      * destruct r as [|j r'].
        -- cbn. rewrite (Hlast Hfollow). exact I.
        -- apply trivia_bytes_nl_head. exact Hfollow.
    + (* # body *)
      cbn [app lex_trivia].
      assert (Hsl : is_space c_hash = false) by reflexivity. rewrite Hsl. rewrite eqb_refl.
      rewrite (span_line_body b (trivia_bytes r ++ rest) Hi).
      * rewrite IH. reflexivity.
      * destruct r as [|j r'].
        -- cbn. rewrite (Hlast Hfollow). exact I.
        -- apply trivia_bytes_nl_head. exact Hfollow.
    + (* block comment *)
      cbn [app lex_trivia].
      assert (Hsl : is_space c_slash = false) by reflexivity. rewrite Hsl.
      assert (Hh : Byte.eqb c_slash c_hash = false) by reflexivity. rewrite Hh.
      rewrite eqb_refl.
      assert (Hss : Byte.eqb c_star c_slash = false) by reflexivity. rewrite Hss. rewrite eqb_refl.
      rewrite <- app_assoc. cbn [app].
      rewrite (block_body_end b _ Hi). rewrite IH. reflexivity.
Qed.

(* ---------------------------------------------------------------- tokens *)

(* a byte after which a word or number has certainly ended *)
Definition safe_after (c : byte) : bool :=
  is_space c || Byte.eqb c c_slash || Byte.eqb c c_hash || is_punct c || is_quote c.
Definition stops (rest : bytes) : Prop :=
  match rest with [] => True | c :: _ => safe_after c = true end.

Ltac by_cases c := destruct c; try reflexivity; try discriminate.

Lemma safe_not_wordc c : safe_after c = true -> is_wordc c = false.
Proof. by_cases c. Qed.
Lemma safe_not_digit c : safe_after c = true -> is_digit c = false.
Proof. by_cases c. Qed.
Lemma safe_not_alnum c : safe_after c = true -> is_alnum c = false.
Proof. by_cases c. Qed.
Lemma safe_not_exp c : safe_after c = true -> is_exp c = false.
Proof. by_cases c. Qed.
Lemma safe_not_sign c : safe_after c = true -> is_sign c = false.
Proof. by_cases c. Qed.
Lemma safe_not_dot c : safe_after c = true -> Byte.eqb c c_dot = false.
Proof. by_cases c. Qed.
Lemma safe_not_x c : safe_after c = true -> Byte.eqb c c_x = false.
Proof. by_cases c. Qed.
Lemma safe_not_o c : safe_after c = true -> Byte.eqb c c_o = false.
Proof. by_cases c. Qed.
Lemma digit_not_letter c : is_digit c = true -> is_letter c = false.
Proof. by_cases c. Qed.
Lemma digit_not_sign c : is_digit c = true -> is_sign c = false.
Proof. by_cases c. Qed.
Lemma digit_not_dot c : is_digit c = true -> Byte.eqb c c_dot = false.
Proof. by_cases c. Qed.
Lemma digit_not_exp c : is_digit c = true -> is_exp c = false.
Proof. by_cases c. Qed.
Lemma digit_not_x c : is_digit c = true -> Byte.eqb c c_x = false.
Proof. by_cases c. Qed.
Lemma digit_not_o c : is_digit c = true -> Byte.eqb c c_o = false.
Proof. by_cases c. Qed.
Lemma sign_not_letter c : is_sign c = true -> is_letter c = false.
Proof. by_cases c. Qed.
Lemma sign_not_digit c : is_sign c = true -> is_digit c = false.
Proof. by_cases c. Qed.
Lemma exp_not_digit c : is_exp c = true -> is_digit c = false.
Proof. by_cases c. Qed.
Lemma exp_not_dot c : is_exp c = true -> Byte.eqb c c_dot = false.
Proof. by_cases c. Qed.
Lemma punct_classes c : is_punct c = true ->
  is_letter c = false /\ is_digit c = false /\ is_sign c = false /\ Byte.eqb c c_dot = false /\ is_quote c = false.
Proof. destruct c; try discriminate; intros _; repeat split. Qed.
Lemma quote_classes c : is_quote c = true ->
  is_letter c = false /\ is_digit c = false /\ is_sign c = false /\ Byte.eqb c c_dot = false.
Proof. destruct c; try discriminate; intros _; repeat split. Qed.
Lemma letter_not_trivia c : is_letter c = true -> is_space c = false /\ c <> c_hash /\ c <> c_slash.
Proof. destruct c; try discriminate; intros _; repeat split; discriminate. Qed.
Lemma digit_not_trivia c : is_digit c = true -> is_space c = false /\ c <> c_hash /\ c <> c_slash.
Proof. destruct c; try discriminate; intros _; repeat split; discriminate. Qed.
Lemma sign_not_trivia c : is_sign c = true -> is_space c = false /\ c <> c_hash /\ c <> c_slash.
Proof. destruct c; try discriminate; intros _; repeat split; discriminate. Qed.
Lemma punct_not_trivia c : is_punct c = true -> is_space c = false /\ c <> c_hash /\ c <> c_slash.
Proof. destruct c; try discriminate; intros _; repeat split; discriminate. Qed.
Lemma quote_not_trivia c : is_quote c = true -> is_space c = false /\ c <> c_hash /\ c <> c_slash.
Proof. destruct c; try discriminate; intros _; repeat split; discriminate. Qed.

Lemma stops_not (p : byte -> bool) rest :
  (forall c, safe_after c = true -> p c = false) -> stops rest ->
  match rest with [] => True | c :: _ => p c = false end.
Proof. intros H Hs. destruct rest as [|c r]; [exact I | apply H; exact Hs]. Qed.

(* ---- words *)

Lemma lex_word w rest :
  word_ok w = true -> stops rest -> lex_token (w ++ rest) = Some (TWord w, rest).
Proof.
  intros Hw Hs. destruct w as [|c r]; [discriminate|].
  cbn [word_ok] in Hw. apply andb_true_iff in Hw. destruct Hw as [Hc Hr].
  cbn [app lex_token]. rewrite Hc.
  rewrite (span_app is_wordc r rest Hr (stops_not _ _ safe_not_wordc Hs)). reflexivity.
Qed.

(* ---- punctuation *)

Lemma lex_punct c rest : is_punct c = true -> lex_token (c :: rest) = Some (TPunct c, rest).
Proof.
  intro H. destruct (punct_classes c H) as (H1 & H2 & H3 & H4 & H5).
  cbn [lex_token]. rewrite H1, H2, H3, H4, H5, H. reflexivity.
Qed.

(* ---- literals *)

(* the raw text is closed: scanning it ends exactly at the quote printed after it *)
Definition lit_closed (q : byte) (raw : bytes) : bool :=
  match lex_lit q (raw ++ [q]) with
  | Some (raw', []) => beqb raw' raw
  | _ => false
  end.

Lemma lex_lit_cons q c r :
  lex_lit q (c :: r) =
  if Byte.eqb c c_bs then
    match r with
    | d :: r' =>
      if is_quote d then match lex_lit q r' with Some (raw, rest) => Some (c :: d :: raw, rest) | None => None end
      else match lex_lit q r with Some (raw, rest) => Some (c :: raw, rest) | None => None end
    | [] => None
    end
  else if Byte.eqb c q then Some ([], r)
  else match lex_lit q r with Some (raw, rest) => Some (c :: raw, rest) | None => None end.
Proof. reflexivity. Qed.

Lemma lex_lit_app q : forall n s raw r x,
  List.length s <= n -> lex_lit q s = Some (raw, r) -> lex_lit q (s ++ x) = Some (raw, r ++ x).
Proof.
  induction n as [|n IH]; intros s raw r x Hl H.
  - destruct s; [discriminate | cbn in Hl; lia].
  - destruct s as [|c s]; [discriminate|].
    rewrite lex_lit_cons in H. change ((c :: s) ++ x) with (c :: (s ++ x)). rewrite lex_lit_cons.
    assert (Hls : List.length s <= n) by (cbn in Hl; lia).
    destruct (Byte.eqb c c_bs).
    + destruct s as [|d s']; [discriminate|]. cbn [app].
      destruct (is_quote d).
      * destruct (lex_lit q s') as [[raw0 r0]|] eqn:E; [|discriminate]. injection H as <- <-.
        rewrite (IH s' raw0 r0 x); [reflexivity | cbn in Hls; lia | exact E].
      * destruct (lex_lit q (d :: s')) as [[raw0 r0]|] eqn:E; [|discriminate]. injection H as <- <-.
        change (d :: s' ++ x) with ((d :: s') ++ x).
        rewrite (IH (d :: s') raw0 r0 x Hls E). reflexivity.
    + destruct (Byte.eqb c q).
      * injection H as <- <-. reflexivity.
      * destruct (lex_lit q s) as [[raw0 r0]|] eqn:E; [|discriminate]. injection H as <- <-.
        rewrite (IH s raw0 r0 x Hls E). reflexivity.
Qed.

Lemma lex_literal q raw rest :
  is_quote q = true -> lit_closed q raw = true ->
  lex_token (q :: raw ++ q :: rest) = Some (TLit q raw, rest).
Proof.
  intros Hq Hc. destruct (quote_classes q Hq) as (H1 & H2 & H3 & H4).
  cbn [lex_token]. rewrite H1, H2, H3, H4, Hq. cbn [orb].
  unfold lit_closed in Hc.
  destruct (lex_lit q (raw ++ [q])) as [[raw' r]|] eqn:E; [|discriminate].
  destruct r; [|discriminate]. apply beqb_true in Hc. subst raw'.
  replace (raw ++ q :: rest) with ((raw ++ [q]) ++ rest) by (rewrite <- app_assoc; reflexivity).
  rewrite (lex_lit_app q _ _ _ _ rest (le_n _) E). reflexivity.
Qed.

(* ---- numbers *)

Definition nonempty {A} (l : list A) : bool := match l with [] => false | _ => true end.

(* sign? : [] or one sign byte *)
Definition sign_ok (sg : bytes) : bool :=
  match sg with [] => true | [c] => is_sign c | _ => false end.
(* Exponent or nothing *)
Definition exp_ok (ex : bytes) : bool :=
  match ex with
  | [] => true
  | e :: r => is_exp e &&
              match r with
              | c :: r' => if is_sign c then nonempty r' && forallb is_digit r' else forallb is_digit r
              | [] => false
              end
  end.

Lemma lex_exponent_none rest : stops rest -> lex_exponent rest = ([], rest).
Proof.
  intro Hs. destruct rest as [|c r]; [reflexivity|]. cbn [lex_exponent].
  rewrite (safe_not_exp c Hs). reflexivity.
Qed.

Lemma lex_exponent_some ex rest :
  exp_ok ex = true -> nonempty ex = true -> stops rest -> lex_exponent (ex ++ rest) = (ex, rest).
Proof.
  intros Hok Hne Hs. destruct ex as [|e r]; [discriminate|].
  cbn [exp_ok] in Hok. apply andb_true_iff in Hok. destruct Hok as [He Hr].
  cbn [app lex_exponent]. rewrite He.
  destruct r as [|c r']; [discriminate|].
  cbn [app]. destruct (is_sign c) eqn:Ec.
  - apply andb_true_iff in Hr. destruct Hr as [Hne' Hd].
    rewrite (span_app is_digit r' rest Hd (stops_not _ _ safe_not_digit Hs)).
    destruct r' as [|x r'']; [discriminate|]. reflexivity.
  - change (c :: r' ++ rest) with ((c :: r') ++ rest).
    rewrite (span_app is_digit (c :: r') rest Hr (stops_not _ _ safe_not_digit Hs)).
    reflexivity.
Qed.

Lemma split_sign_app sg body rest :
  sign_ok sg = true ->
  (sg = [] -> match body ++ rest with c :: _ => is_sign c = false | [] => True end) ->
  split_sign ((sg ++ body) ++ rest) = (sg, body ++ rest).
Proof.
  intros Hsg Hb. unfold split_sign. destruct sg as [|s0 sg'].
  - cbn [app]. specialize (Hb eq_refl). destruct (body ++ rest) as [|c r]; [reflexivity|].
    rewrite Hb. reflexivity.
  - destruct sg' as [|? ?]; [|discriminate]. cbn [sign_ok] in Hsg. cbn [app]. rewrite Hsg. reflexivity.
Qed.

(* decimal integer: sign? Digit+ *)
Lemma lex_int_dec sg ds rest :
  sign_ok sg = true -> nonempty ds = true -> forallb is_digit ds = true -> stops rest ->
  lex_int ((sg ++ ds) ++ rest) = Some (TInt (sg ++ ds), rest).
Proof.
  intros Hsg Hne Hds Hs.
  assert (Hspan : span is_digit (ds ++ rest) = (ds, rest))
    by (apply span_app; [exact Hds | exact (stops_not _ _ safe_not_digit Hs)]).
  assert (Hsplit : split_sign ((sg ++ ds) ++ rest) = (sg, ds ++ rest)).
  { apply split_sign_app; [exact Hsg|]. intros _. destruct ds as [|d ds']; [discriminate|]. cbn [app].
    cbn in Hds. apply andb_true_iff in Hds. apply digit_not_sign. tauto. }
  assert (Hdec : (let (sg0, s1) := split_sign ((sg ++ ds) ++ rest) in
                  let (ds0, s2) := span is_digit s1 in
                  match ds0 with [] => None | _ => Some (TInt (sg0 ++ ds0), s2) end)
                 = Some (TInt (sg ++ ds), rest)).
  { rewrite Hsplit, Hspan. destruct ds; [discriminate | reflexivity]. }
  unfold lex_int.
  destruct ((sg ++ ds) ++ rest) as [|z [|p r]] eqn:E; try exact Hdec.
  (* at least two bytes: they are not the 0x / 0o prefixes *)
  assert (Hp : Byte.eqb z c_0 && Byte.eqb p c_x = false /\ Byte.eqb z c_0 && Byte.eqb p c_o = false).
  { destruct sg as [|s0 sg'].
    - destruct ds as [|d ds']; [discriminate|]. cbn [app] in E. injection E as -> E.
      destruct ds' as [|d2 ds'']; cbn [app] in E.
      + subst rest. cbn in Hs. rewrite (safe_not_x p Hs), (safe_not_o p Hs), !andb_false_r. split; reflexivity.
      + injection E as -> _. cbn in Hds. apply andb_true_iff in Hds. destruct Hds as [_ Hds].
        apply andb_true_iff in Hds. destruct Hds as [Hd2 _].
        rewrite (digit_not_x p Hd2), (digit_not_o p Hd2), !andb_false_r. split; reflexivity.
    - destruct sg' as [|? ?]; [|discriminate]. cbn [sign_ok] in Hsg. cbn [app] in E. injection E as -> _.
      assert (Hz : Byte.eqb z c_0 = false) by (clear - Hsg; by_cases z).
      rewrite Hz. split; reflexivity. }
  destruct Hp as [Hx Ho]. rewrite Hx, Ho. exact Hdec.
Qed.

Lemma lex_int_hex hs rest :
  nonempty hs = true -> forallb is_alnum hs = true -> stops rest ->
  lex_int (c_0 :: c_x :: hs ++ rest) = Some (TInt (c_0 :: c_x :: hs), rest).
Proof.
  intros Hne Hhs Hs. unfold lex_int. rewrite !eqb_refl. cbn [andb].
  rewrite (span_app is_alnum hs rest Hhs (stops_not _ _ safe_not_alnum Hs)).
  destruct hs; [discriminate | reflexivity].
Qed.

Lemma lex_int_oct os rest :
  nonempty os = true -> forallb is_digit os = true -> stops rest ->
  lex_int (c_0 :: c_o :: os ++ rest) = Some (TInt (c_0 :: c_o :: os), rest).
Proof.
  intros Hne Hos Hs. unfold lex_int. rewrite !eqb_refl.
  assert (H : Byte.eqb c_o c_x = false) by reflexivity. rewrite H. cbn [andb].
  rewrite (span_app is_digit os rest Hos (stops_not _ _ safe_not_digit Hs)).
  destruct os; [discriminate | reflexivity].
Qed.

(* the shapes of an integer text *)
Inductive int_shape : bytes -> Prop :=
| int_dec sg ds : sign_ok sg = true -> nonempty ds = true -> forallb is_digit ds = true -> int_shape (sg ++ ds)
| int_hex hs : nonempty hs = true -> forallb is_alnum hs = true -> int_shape (c_0 :: c_x :: hs)
| int_oct os : nonempty os = true -> forallb is_digit os = true -> int_shape (c_0 :: c_o :: os).

(* the shapes of a double text *)
Inductive double_shape : bytes -> Prop :=
| dbl_frac sg d1 d2 ex :
    sign_ok sg = true -> forallb is_digit d1 = true -> nonempty d2 = true -> forallb is_digit d2 = true ->
    exp_ok ex = true -> double_shape (sg ++ d1 ++ c_dot :: d2 ++ ex)
| dbl_exp sg d1 ex :
    sign_ok sg = true -> nonempty d1 = true -> forallb is_digit d1 = true ->
    exp_ok ex = true -> nonempty ex = true -> double_shape (sg ++ d1 ++ ex).

Lemma lex_number_int s rest :
  int_shape s -> stops rest -> lex_number (s ++ rest) = Some (TInt s, rest).
Proof.
  intros Hsh Hs. destruct Hsh as [sg ds Hsg Hne Hds | hs Hne Hhs | os Hne Hos].
  - (* decimal *)
    unfold lex_number.
    rewrite (split_sign_app sg ds rest Hsg).
    2:{ intros _. destruct ds as [|d ds']; [discriminate|]. cbn [app].
        cbn in Hds. apply andb_true_iff in Hds. apply digit_not_sign. tauto. }
    rewrite (span_app is_digit ds rest Hds (stops_not _ _ safe_not_digit Hs)).
    assert (Hint : lex_int ((sg ++ ds) ++ rest) = Some (TInt (sg ++ ds), rest))
      by (apply lex_int_dec; assumption).
    rewrite (lex_exponent_none rest Hs).
    destruct ds as [|d ds']; [discriminate|].
    destruct rest as [|c r]; [exact Hint|].
    rewrite (safe_not_dot c Hs). exact Hint.
  - (* hex *)
    unfold lex_number. cbn [app]. unfold split_sign.
    assert (H0 : is_sign c_0 = false) by reflexivity. rewrite H0.
    assert (Hd0 : is_digit c_0 = true) by reflexivity.
    assert (Hdx : is_digit c_x = false) by reflexivity.
    cbn [span]. rewrite Hd0, Hdx.
    assert (Hxd : Byte.eqb c_x c_dot = false) by reflexivity. rewrite Hxd.
    cbn [lex_exponent]. assert (Hxe : is_exp c_x = false) by reflexivity. rewrite Hxe.
    apply lex_int_hex; assumption.
  - (* octal *)
    unfold lex_number. cbn [app]. unfold split_sign.
    assert (H0 : is_sign c_0 = false) by reflexivity. rewrite H0.
    assert (Hd0 : is_digit c_0 = true) by reflexivity.
    assert (Hdo : is_digit c_o = false) by reflexivity.
    cbn [span]. rewrite Hd0, Hdo.
    assert (Hod : Byte.eqb c_o c_dot = false) by reflexivity. rewrite Hod.
    cbn [lex_exponent]. assert (Hoe : is_exp c_o = false) by reflexivity. rewrite Hoe.
    apply lex_int_oct; assumption.
Qed.

Lemma exp_head_not_digit ex rest :
  exp_ok ex = true -> stops rest ->
  match ex ++ rest with [] => True | c :: _ => is_digit c = false end.
Proof.
  intros Hex Hs. destruct ex as [|e r].
  - exact (stops_not _ _ safe_not_digit Hs).
  - cbn [exp_ok] in Hex. apply andb_true_iff in Hex. cbn [app]. apply exp_not_digit. tauto.
Qed.

Lemma lex_number_double s rest :
  double_shape s -> stops rest -> lex_number (s ++ rest) = Some (TDouble s, rest).
Proof.
  intros Hsh Hs. destruct Hsh as [sg d1 d2 ex Hsg Hd1 Hne2 Hd2 Hex | sg d1 ex Hsg Hne1 Hd1 Hex Hnex].
  - (* with a fraction *)
    unfold lex_number.
    rewrite (split_sign_app sg (d1 ++ c_dot :: d2 ++ ex) rest Hsg).
    2:{ intros _. destruct d1 as [|d d1']; cbn [app]; [reflexivity|].
        cbn in Hd1. apply andb_true_iff in Hd1. apply digit_not_sign. tauto. }
    rewrite <- app_assoc. cbn [app].
    assert (Hdotd : is_digit c_dot = false) by reflexivity.
    rewrite (span_app is_digit d1 (c_dot :: (d2 ++ ex) ++ rest) Hd1 Hdotd).
    rewrite eqb_refl. rewrite <- app_assoc.
    rewrite (span_app is_digit d2 (ex ++ rest) Hd2 (exp_head_not_digit ex rest Hex Hs)).
    destruct d2 as [|x d2']; [discriminate|].
    destruct ex as [|e exr].
    + cbn [app]. rewrite (lex_exponent_none rest Hs). rewrite !app_nil_r. reflexivity.
    + rewrite (lex_exponent_some (e :: exr) rest Hex eq_refl Hs). reflexivity.
  - (* digits and an exponent *)
    unfold lex_number.
    rewrite (split_sign_app sg (d1 ++ ex) rest Hsg).
    2:{ intros _. destruct d1 as [|d d1']; [discriminate|]. cbn [app].
        cbn in Hd1. apply andb_true_iff in Hd1. apply digit_not_sign. tauto. }
    rewrite <- app_assoc.
    rewrite (span_app is_digit d1 (ex ++ rest) Hd1 (exp_head_not_digit ex rest Hex Hs)).
    rewrite (lex_exponent_some ex rest Hex Hnex Hs).
    destruct d1 as [|d d1']; [discriminate|].
    destruct ex as [|e exr]; [discriminate|].
    cbn [exp_ok] in Hex. apply andb_true_iff in Hex. destruct Hex as [He _].
    cbn [app]. rewrite (exp_not_dot e He). reflexivity.
Qed.

(* first byte of a number *)
Lemma int_shape_first s : int_shape s -> exists c r, s = c :: r /\ (is_digit c = true \/ is_sign c = true).
Proof.
  intros [sg ds Hsg Hne Hds | hs _ _ | os _ _].
  - destruct sg as [|s0 sg'].
    + destruct ds as [|d ds']; [discriminate|]. exists d, ds'. split; [reflexivity|]. left.
      cbn in Hds. apply andb_true_iff in Hds. tauto.
    + destruct sg'; [|discriminate]. exists s0, ds. split; [reflexivity|]. right. exact Hsg.
  - exists c_0, (c_x :: hs). split; [reflexivity | left; reflexivity].
  - exists c_0, (c_o :: os). split; [reflexivity | left; reflexivity].
Qed.

Lemma double_shape_first s : double_shape s ->
  exists c r, s = c :: r /\ (is_digit c = true \/ is_sign c = true \/ c = c_dot).
Proof.
  intros [sg d1 d2 ex Hsg Hd1 _ _ _ | sg d1 ex Hsg Hne1 Hd1 _ _].
  - destruct sg as [|s0 sg'].
    + destruct d1 as [|d d1'].
      * eexists _, _. split; [reflexivity|]. right. right. reflexivity.
      * eexists _, _. split; [reflexivity|]. left. cbn in Hd1. apply andb_true_iff in Hd1. tauto.
    + destruct sg'; [|discriminate]. eexists _, _. split; [reflexivity|]. right. left. exact Hsg.
  - destruct sg as [|s0 sg'].
    + destruct d1 as [|d d1']; [discriminate|]. eexists _, _. split; [reflexivity|]. left.
      cbn in Hd1. apply andb_true_iff in Hd1. tauto.
    + destruct sg'; [|discriminate]. eexists _, _. split; [reflexivity|]. right. left. exact Hsg.
Qed.

Lemma lex_token_number c r t rest :
  (is_digit c = true \/ is_sign c = true \/ c = c_dot) ->
  lex_number ((c :: r) ++ rest) = Some (t, rest) ->
  lex_token ((c :: r) ++ rest) = Some (t, rest).
Proof.
  intros Hc H. cbn [app lex_token]. cbn [app] in H.
  assert (Hl : is_letter c = false).
  { destruct Hc as [Hc|[Hc|Hc]]; [apply digit_not_letter | apply sign_not_letter | subst c; reflexivity]; exact Hc. }
  rewrite Hl.
  assert (Hn : is_digit c || is_sign c || Byte.eqb c c_dot = true).
  { destruct Hc as [Hc|[Hc|Hc]]; [rewrite Hc; reflexivity | rewrite Hc; apply orb_true_iff; left; apply orb_true_r |
                                   subst c; apply orb_true_r]. }
  rewrite Hn. exact H.
Qed.

(* ---------------------------------------------------------------- whole documents *)

Inductive token_wf : token -> Prop :=
| twf_word w : word_ok w = true -> token_wf (TWord w)
| twf_int s : int_shape s -> token_wf (TInt s)
| twf_double s : double_shape s -> token_wf (TDouble s)
| twf_lit q raw : is_quote q = true -> lit_closed q raw = true -> token_wf (TLit q raw)
| twf_punct c : is_punct c = true -> token_wf (TPunct c).

Definition wordlike (t : token) : bool :=
  match t with TWord _ | TInt _ | TDouble _ => true | _ => false end.

(* admissible token sequences with their trivia: every token and every trivia run is well
   formed, and two word-like tokens (word, integer, double) are separated by at least one
   blank or comment *)
Fixpoint lts_wf (lts : list ltok) (fin : trivia) : Prop :=
  match lts with
  | [] => trivia_ok true fin = true
  | (tr, t) :: r =>
    trivia_ok false tr = true /\ token_wf t /\
    (wordlike t = true ->
     match r with (tr', t') :: _ => tr' <> [] \/ wordlike t' = false | [] => True end) /\
    lts_wf r fin
  end.

Lemma token_bytes_first t : token_wf t -> exists c r, token_bytes t = c :: r /\ not_trivia_start (c :: r).
Proof.
  intros [w Hw | s Hs | s Hs | q raw Hq _ | c Hc]; cbn [token_bytes].
  - destruct w as [|c r]; [discriminate|]. cbn in Hw. apply andb_true_iff in Hw.
    exists c, r. split; [reflexivity|]. apply letter_not_trivia. tauto.
  - destruct (int_shape_first s Hs) as (c & r & -> & [H|H]); exists c, r; (split; [reflexivity|]);
      [apply digit_not_trivia | apply sign_not_trivia]; exact H.
  - destruct (double_shape_first s Hs) as (c & r & -> & [H|[H|H]]); exists c, r; (split; [reflexivity|]);
      [apply digit_not_trivia; exact H | apply sign_not_trivia; exact H | subst c; repeat split; discriminate].
  - exists q, (raw ++ [q]). split; [reflexivity|]. apply quote_not_trivia. exact Hq.
  - exists c, []. split; [reflexivity|]. apply punct_not_trivia. exact Hc.
Qed.

Lemma tritem_first_safe i r : tritem_ok i = true ->
  exists c s, trivia_bytes (i :: r) = c :: s /\ safe_after c = true.
Proof.
  destruct i as [c|b|b|b]; cbn [tritem_ok]; intro H; rewrite trivia_bytes_cons; cbn [tritem_bytes app].
  - exists c, (trivia_bytes r). split; [reflexivity|]. unfold safe_after. rewrite H. reflexivity.
  - eexists _, _. split; [reflexivity | reflexivity].
  - eexists _, _. split; [reflexivity | reflexivity].
  - eexists _, _. split; [reflexivity | reflexivity].
Qed.

Lemma trivia_ok_head last i r : trivia_ok last (i :: r) = true -> tritem_ok i = true.
Proof. cbn [trivia_ok]. intro H. apply andb_true_iff in H. destruct H as [H _]. apply andb_true_iff in H. tauto. Qed.

Lemma ltoks_bytes_cons tr t r fin :
  ltoks_bytes ((tr, t) :: r) fin = trivia_bytes tr ++ token_bytes t ++ ltoks_bytes r fin.
Proof. unfold ltoks_bytes, ltok_bytes. cbn [map List.concat fst snd]. rewrite <- !app_assoc. reflexivity. Qed.

(* after a word-like token the printed text goes on with a byte that ends the token *)
Lemma stops_after r fin :
  lts_wf r fin ->
  match r with (tr', t') :: _ => tr' <> [] \/ wordlike t' = false | [] => True end ->
  stops (ltoks_bytes r fin).
Proof.
  intros Hwf Hsep. destruct r as [|[tr' t'] r'].
  - cbn in Hwf. unfold ltoks_bytes. cbn [map List.concat app].
    destruct fin as [|i fr]; [exact I|].
    destruct (tritem_first_safe i fr (trivia_ok_head _ _ _ Hwf)) as (c & s & -> & Hc). exact Hc.
  - cbn [lts_wf] in Hwf. destruct Hwf as (Htr & Htok & _ & _).
    rewrite ltoks_bytes_cons.
    destruct tr' as [|i tr''].
    + destruct Hsep as [H|H]; [contradiction|]. cbn [trivia_bytes map List.concat app].
      destruct Htok as [w Hw | s Hs | s Hs | q raw Hq _ | c Hc]; try discriminate; cbn [token_bytes app].
      * unfold stops, safe_after. rewrite Hq. rewrite !orb_true_r. reflexivity.
      * unfold stops, safe_after. rewrite Hc. rewrite !orb_true_r. reflexivity.
    + destruct (tritem_first_safe i tr'' (trivia_ok_head _ _ _ Htr)) as (c & s & -> & Hc). exact Hc.
Qed.

Lemma lex_token_printed t rest :
  token_wf t -> (wordlike t = true -> stops rest) ->
  lex_token (token_bytes t ++ rest) = Some (t, rest).
Proof.
  intros Hwf Hs. destruct Hwf as [w Hw | s Hsh | s Hsh | q raw Hq Hc | c Hc]; cbn [token_bytes].
  - apply lex_word; [exact Hw | exact (Hs eq_refl)].
  - destruct (int_shape_first s Hsh) as (c & r & -> & Hc).
    apply lex_token_number; [tauto|]. apply lex_number_int; [exact Hsh | exact (Hs eq_refl)].
  - destruct (double_shape_first s Hsh) as (c & r & -> & Hc).
    apply lex_token_number; [exact Hc|]. apply lex_number_double; [exact Hsh | exact (Hs eq_refl)].
  - cbn [app]. rewrite <- app_assoc. apply lex_literal; assumption.
  - apply lex_punct. exact Hc.
Qed.

Lemma trivia_len tr : trivia_ok false tr = true \/ trivia_ok true tr = true ->
  List.length tr <= List.length (trivia_bytes tr).
Proof.
  intros _. induction tr as [|i r IH]; [cbn; lia|].
  rewrite trivia_bytes_cons, app_length. cbn [List.length].
  assert (1 <= List.length (tritem_bytes i)) by (destruct i; cbn; lia). lia.
Qed.

Lemma lex_all_printed : forall lts fin fuel,
  lts_wf lts fin -> List.length lts < fuel ->
  lex_all fuel (ltoks_bytes lts fin) = Some (lts, fin).
Proof.
  induction lts as [|[tr t] r IH]; intros fin fuel Hwf Hf.
  - destruct fuel as [|f]; [lia|]. cbn [lts_wf] in Hwf.
    unfold ltoks_bytes. cbn [map List.concat app lex_all].
    assert (H := lex_trivia_printed true fin (S (List.length (trivia_bytes fin))) [] Hwf).
    rewrite app_nil_r in H. rewrite H; [reflexivity | | exact I | reflexivity].
    assert (Hl := trivia_len fin (or_intror Hwf)). lia.
  - destruct fuel as [|f]; [cbn in Hf; lia|].
    cbn [lts_wf] in Hwf. destruct Hwf as (Htr & Htok & Hsep & Hr).
    rewrite ltoks_bytes_cons. cbn [lex_all].
    destruct (token_bytes_first t Htok) as (c & tb & Etb & Hnts).
    set (REST := ltoks_bytes r fin).
    assert (Hlt : lex_trivia (S (List.length (trivia_bytes tr ++ token_bytes t ++ REST)))
                             (trivia_bytes tr ++ token_bytes t ++ REST) = Some (tr, token_bytes t ++ REST)).
    { apply (lex_trivia_printed false); [exact Htr | | | discriminate].
      - rewrite app_length. assert (Hl := trivia_len tr (or_introl Htr)). lia.
      - rewrite Etb. cbn [app]. exact Hnts. }
    rewrite Hlt.
    destruct (token_bytes t ++ REST) as [|c0 X] eqn:EX; [rewrite Etb in EX; discriminate|].
    rewrite <- EX.
    rewrite (lex_token_printed t REST Htok).
    2:{ intro Hw. apply (stops_after r fin Hr). exact (Hsep Hw). }
    unfold REST. rewrite (IH fin f Hr); [reflexivity | cbn in Hf; lia].
Qed.

Lemma ltoks_bytes_length lts fin : lts_wf lts fin -> List.length lts <= List.length (ltoks_bytes lts fin).
Proof.
  induction lts as [|[tr t] r IH]; intro Hwf; [cbn; lia|].
  cbn [lts_wf] in Hwf. destruct Hwf as (_ & Htok & _ & Hr).
  rewrite ltoks_bytes_cons, !app_length. cbn [List.length].
  destruct (token_bytes_first t Htok) as (c & tb & -> & _). specialize (IH Hr). cbn [List.length]. lia.
Qed.

(* lex_render: lexing the printed form of an admissible token sequence gives it back,
   trivia included *)
Theorem lex_ltoks_bytes lts fin : lts_wf lts fin -> lex (ltoks_bytes lts fin) = Some (lts, fin).
Proof.
  intro Hwf. unfold lex. apply lex_all_printed; [exact Hwf|].
  assert (H := ltoks_bytes_length lts fin Hwf). lia.
Qed.

(* ---------------------------------------------------------------- decidable admissibility *)

Lemma span_spec p : forall s a b, span p s = (a, b) -> s = a ++ b /\ forallb p a = true.
Proof.
  induction s as [|c s IH]; intros a b H.
  - cbn in H. injection H as <- <-. split; reflexivity.
  - cbn [span] in H. destruct (p c) eqn:Ec.
    + destruct (span p s) as [a' b'] eqn:E. injection H as <- <-.
      destruct (IH a' b' eq_refl) as [-> Ha]. split; [reflexivity|]. cbn. rewrite Ec, Ha. reflexivity.
    + injection H as <- <-. split; reflexivity.
Qed.

Lemma split_sign_spec s sg r : split_sign s = (sg, r) -> s = sg ++ r /\ sign_ok sg = true.
Proof.
  unfold split_sign. destruct s as [|c s'].
  - intros [= <- <-]. split; reflexivity.
  - destruct (is_sign c) eqn:Ec; intros [= <- <-]; split; try reflexivity. cbn. exact Ec.
Qed.

Definition dec_okb (s : bytes) : bool :=
  let (sg, ds) := split_sign s in nonempty ds && forallb is_digit ds.

Definition int_text_okb (s : bytes) : bool :=
  match s with
  | z :: p :: r =>
    if Byte.eqb z c_0 && Byte.eqb p c_x then nonempty r && forallb is_alnum r
    else if Byte.eqb z c_0 && Byte.eqb p c_o then nonempty r && forallb is_digit r
    else dec_okb s
  | _ => dec_okb s
  end.

Lemma dec_okb_shape s : dec_okb s = true -> int_shape s.
Proof.
  unfold dec_okb. destruct (split_sign s) as [sg ds] eqn:E. intro H.
  apply andb_true_iff in H. destruct H as [H1 H2].
  destruct (split_sign_spec _ _ _ E) as [-> Hsg]. apply int_dec; assumption.
Qed.

Lemma int_text_okb_shape s : int_text_okb s = true -> int_shape s.
Proof.
  unfold int_text_okb. destruct s as [|z [|p r]]; try apply dec_okb_shape.
  destruct (Byte.eqb z c_0 && Byte.eqb p c_x) eqn:Ex.
  - apply andb_true_iff in Ex. destruct Ex as [Ez Ep]. apply byte_eqb_eq in Ez, Ep. subst.
    intro H. apply andb_true_iff in H. destruct H. apply int_hex; assumption.
  - destruct (Byte.eqb z c_0 && Byte.eqb p c_o) eqn:Eo; [|apply dec_okb_shape].
    apply andb_true_iff in Eo. destruct Eo as [Ez Ep]. apply byte_eqb_eq in Ez, Ep. subst.
    intro H. apply andb_true_iff in H. destruct H. apply int_oct; assumption.
Qed.

Definition double_text_okb (s : bytes) : bool :=
  let (sg, s1) := split_sign s in
  let (d1, s2) := span is_digit s1 in
  match s2 with
  | c :: s3 =>
    if Byte.eqb c c_dot then
      let (d2, ex) := span is_digit s3 in nonempty d2 && exp_ok ex
    else nonempty d1 && exp_ok s2
  | [] => false
  end.

Lemma double_text_okb_shape s : double_text_okb s = true -> double_shape s.
Proof.
  unfold double_text_okb. destruct (split_sign s) as [sg s1] eqn:E1.
  destruct (span is_digit s1) as [d1 s2] eqn:E2. intro H.
  destruct (split_sign_spec _ _ _ E1) as [-> Hsg]. destruct (span_spec _ _ _ _ E2) as [-> Hd1].
  destruct s2 as [|c s3]; [discriminate|].
  destruct (Byte.eqb c c_dot) eqn:Ec.
  - apply byte_eqb_eq in Ec. subst c. destruct (span is_digit s3) as [d2 ex] eqn:E3.
    destruct (span_spec _ _ _ _ E3) as [-> Hd2]. apply andb_true_iff in H. destruct H as [Hn Hex].
    apply dbl_frac; assumption.
  - apply andb_true_iff in H. destruct H as [Hn Hex]. apply dbl_exp; try assumption. reflexivity.
Qed.

Definition token_okb (t : token) : bool :=
  match t with
  | TWord w => word_ok w
  | TInt s => int_text_okb s
  | TDouble s => double_text_okb s
  | TLit q raw => is_quote q && lit_closed q raw
  | TPunct c => is_punct c
  end.

Lemma token_okb_wf t : token_okb t = true -> token_wf t.
Proof.
  destruct t; cbn [token_okb]; intro H.
  - apply twf_word. exact H.
  - apply twf_int. apply int_text_okb_shape. exact H.
  - apply twf_double. apply double_text_okb_shape. exact H.
  - apply andb_true_iff in H. destruct H. apply twf_lit; assumption.
  - apply twf_punct. exact H.
Qed.

Fixpoint lts_wfb (lts : list ltok) (fin : trivia) : bool :=
  match lts with
  | [] => trivia_ok true fin
  | (tr, t) :: r =>
    trivia_ok false tr && token_okb t &&
    (negb (wordlike t) ||
     match r with (tr', t') :: _ => nonempty tr' || negb (wordlike t') | [] => true end) &&
    lts_wfb r fin
  end.

Lemma lts_wfb_wf lts fin : lts_wfb lts fin = true -> lts_wf lts fin.
Proof.
  induction lts as [|[tr t] r IH]; cbn [lts_wfb lts_wf]; intro H; [exact H|].
  apply andb_true_iff in H. destruct H as [H Hr].
  apply andb_true_iff in H. destruct H as [H Hsep].
  apply andb_true_iff in H. destruct H as [Htr Htok].
  repeat split; [exact Htr | apply token_okb_wf; exact Htok | | apply IH; exact Hr].
  intro Hw. rewrite Hw in Hsep. cbn [negb orb] in Hsep.
  destruct r as [|[tr' t'] r']; [exact I|].
  apply orb_true_iff in Hsep. destruct Hsep as [Hs|Hs].
  - left. destruct tr'; [discriminate | discriminate].
  - right. apply negb_true_iff. exact Hs.
Qed.
