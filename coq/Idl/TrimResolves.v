(* Idl/TrimResolves.v — the trimmed program is accepted by symbol resolution (property C16,
   "trim_resolves"), against the completeness theorem of C05 ([resolve_complete],
   Idl/ResolveCompleteConst.v).  Proofs; the statement is repeated in Props/C16.v.

   [resolvable] reads only the syntax of a program (names, include references), so it is
   evaluated on the resolved programs directly.  Proved here for every configuration:
     - global names stay distinct and plain ([trimmed_defs_nodup], [trimmed_plain_names]);
     - every type of every definition left in the output is accepted in the trimmed
       program ([trimmed_types_ok]): a name that denotes a definition in the input, written in
       a kept position, denotes the same definition in the output ([den]) — typedef chains
       across files, the include a qualified name goes through after earlier includes were
       deleted ([spec_include_sub]);
     - void functions stay well formed.
     - the include tree of the output is lower than its number of files
       ([trimmed_includes_ok]: it lies inside the input's acyclic tree, and an acyclic tree on
       n files is lower than n: [depth_bound]);
     - without a method filter the base services of the output resolve ([trimmed_base_ok]).
   [trim_resolves_with] has the three output conditions as hypotheses;
   [trim_resolves_given_bases_and_idents] discharges the include depth (every configuration),
   [trim_resolves_no_filter] also the base services;
     - every identifier used as a value keeps exactly one explanation ([trimmed_idents_ok]:
       for a file of the output the number of explanations is the same in both programs —
       constants, enums and typedefs are never deleted, the enum a definition stands for is
       preserved ([enum_values_of_q]), and an include that was deleted leads to a file without
       constants, enums and typedefs, which explains nothing).
     - with a method filter a kept service whose `extends` is not cleared has its base service
       and the include marked ([marked_services_good]), so its base service resolves too
       ([trimmed_base_ok_filter]).
   Final statement: [trim_resolves] — every configuration, no hypothesis on the output.
   ([trim_resolves_given_bases], [trim_resolves_without_filter] are the intermediate forms.) *)
From Coq Require Import List Bool Arith NArith ZArith Lia.
From Coq.Strings Require Import Byte.
From Verif Require Import Base.Bytes Idl.Ast Idl.AstUtil Idl.AstFacts Idl.Trim Idl.TrimSpec Idl.TrimFacts.
From Verif Require Import Idl.ResolveSpec Idl.ResolvableSpec Idl.ResolvableConst Idl.ResolvePath Idl.ResolveInv Idl.ResolveLemmas Idl.ResolveDeref.
From Verif Require Idl.Resolve Idl.ResolveCompleteConst.
Import ListNotations.


(* ==================================================================== *)
(* ---------------------------------------------------------------- sublists *)

Inductive sub {A} : list A -> list A -> Prop :=
| sub_nil : sub [] []
| sub_keep x l l' : sub l l' -> sub (x :: l) (x :: l')
| sub_skip x l l' : sub l l' -> sub l (x :: l').

Lemma sub_refl {A} (l : list A) : sub l l.
Proof. induction l; constructor; auto. Qed.
Lemma sub_In {A} (l l' : list A) x : sub l l' -> In x l -> In x l'.
Proof. intros H. induction H; cbn; intros Hin; [destruct Hin | destruct Hin; auto | auto]. Qed.
Lemma sub_app {A} (a a' b b' : list A) : sub a a' -> sub b b' -> sub (a ++ b) (a' ++ b').
Proof. intros H1 H2. induction H1; cbn; [exact H2 | constructor; auto | constructor; auto]. Qed.
Lemma sub_map {A B} (f : A -> B) l l' : sub l l' -> sub (map f l) (map f l').
Proof. intros H. induction H; cbn; constructor; auto. Qed.
Lemma sub_filter {A} (f : A -> bool) l : sub (filter f l) l.
Proof. induction l as [|x l IH]; cbn; [constructor|]. destruct (f x); constructor; auto. Qed.
Lemma sub_trans {A} (a b d : list A) : sub a b -> sub b d -> sub a d.
Proof.
  intros H1 H2. revert a H1. induction H2; intros a H1.
  - exact H1.
  - inversion H1; subst; constructor; auto.
  - constructor. auto.
Qed.
Lemma sub_NoDup {A} (l l' : list A) : sub l l' -> NoDup l' -> NoDup l.
Proof.
  intros H. induction H; intros Hn; [constructor | |].
  - inversion Hn; subst. constructor; [|auto]. intros Hin. apply H2. eapply sub_In; eauto.
  - inversion Hn; subst. auto.
Qed.
Lemma sub_length {A} (l l' : list A) : sub l l' -> List.length l <= List.length l'.
Proof. intros H. induction H; cbn; lia. Qed.

(* the kept elements of a list, by position *)
Lemma sub_kept {A} (f : nat * A -> bool) (l : list A) : sub (map snd (filter f (indexed l))) l.
Proof.
  unfold indexed. generalize 0. induction l as [|x l IH]; intros n; cbn; [constructor|].
  destruct (f (n, x)); cbn; constructor; apply IH.
Qed.

Lemma nodupb_NoDup l : nodupb l = true <-> NoDup l.
Proof.
  induction l as [|x l IH]; cbn; [split; [constructor | reflexivity]|].
  rewrite andb_true_iff, negb_true_iff, IH. split.
  - intros [H1 H2]. constructor; [|exact H2]. intros Hin.
    assert (existsb (beqb x) l = true) as E; [|congruence].
    apply existsb_exists. exists x. split; [exact Hin | apply beqb_refl].
  - intros H. inversion H; subst. split; [|assumption].
    destruct (existsb (beqb x) l) eqn:E; [|reflexivity].
    apply existsb_exists in E. destruct E as [y [Hy Hb]]. apply beqb_true in Hb. subst. contradiction.
Qed.

Lemma lookup_NoDup_In {A} (l : list (bytes * A)) k v : NoDup (map fst l) -> In (k, v) l -> lookup k l = Some v.
Proof. apply In_lookup. Qed.

Lemma lookup_sub {A} (l l' : list (bytes * A)) k v :
  sub l l' -> NoDup (map fst l') -> lookup k l = Some v -> lookup k l' = Some v.
Proof.
  intros Hs Hn Hl. apply lookup_NoDup_In; [exact Hn|]. eapply sub_In; [exact Hs|]. apply lookup_In. exact Hl.
Qed.

Lemma lookup_sub_back {A} (l l' : list (bytes * A)) k v :
  sub l l' -> NoDup (map fst l') -> In (k, v) l -> lookup k l = Some v.
Proof.
  intros Hs Hn Hin. apply lookup_NoDup_In; [|exact Hin]. eapply sub_NoDup; [apply sub_map; exact Hs | exact Hn].
Qed.


(* ==================================================================== *)
Lemma filter_res_sub {A} (f : A -> res bool) : forall l r, filter_res f l = Ok r -> sub r l.
Proof.
  induction l as [|x l IH]; intros r H; cbn in H.
  - injection H as <-. constructor.
  - apply TrimFacts.bind_ok in H. destruct H as [b [Hb H]]. apply TrimFacts.bind_ok in H. destruct H as [r' [Hr H]]. injection H as <-.
    destruct b; constructor; auto.
Qed.

Lemma map_indexed_snd {A B} (g : A -> B) (l : list (nat * A)) : map (fun is => g (snd is)) l = map g (map snd l).
Proof. rewrite map_map. reflexivity. Qed.

Section TrimSyntax.
  Variable cp : bytes -> bool.
  Variable c : cfg.
  Variable p : program.
  Variable st : mstate.
  Variable F : bytes.
  Variable pf qf : file.
  Hypothesis Htf : trim_file cp c p st F pf = Ok qf.

  Lemma trimmed_shape :
    f_typedefs qf = f_typedefs pf /\ f_constants qf = f_constants pf /\ f_enums qf = f_enums pf /\
    sub (f_structs qf) (f_structs pf) /\ sub (f_unions qf) (f_unions pf) /\ sub (f_exceptions qf) (f_exceptions pf) /\
    sub (map sv_name (f_services qf)) (map sv_name (f_services pf)) /\
    sub (map (fun i => (in_path i, in_ref i)) (f_includes qf)) (map (fun i => (in_path i, in_ref i)) (f_includes pf)).
  Proof.
    unfold trim_file in Htf. apply TrimFacts.bind_ok in Htf. destruct Htf as [incs [Hi H]]. injection H as <-. cbn.
    repeat split; try apply sub_kept.
    - rewrite map_map. 
      assert (forall l, map (fun x => sv_name (trim_service c st F x)) l = map sv_name (map snd l)) as E.
      { intros l. rewrite map_map. apply map_ext. intros [i s]. unfold trim_service. cbn [fst snd].
        destruct (in_ext st F i); reflexivity. }
      rewrite E. apply sub_map. apply sub_kept.
    - apply filter_res_sub in Hi. rewrite map_map. cbn.
      assert (map (fun x : nat * include => (in_path (snd x), in_ref (snd x))) incs =
              map (fun i => (in_path i, in_ref i)) (map snd incs)) as -> by (rewrite map_map; reflexivity).
      apply sub_map. eapply sub_trans; [apply sub_map; exact Hi|]. rewrite map_snd_indexed. apply sub_refl.
  Qed.

  Lemma struct_likes_sub : sub (struct_likes qf) (struct_likes pf).
  Proof.
    destruct trimmed_shape as [_ [_ [_ [H1 [H2 [H3 _]]]]]]. unfold struct_likes. repeat apply sub_app; assumption.
  Qed.

  Lemma file_defs_sub : sub (file_defs qf) (file_defs pf).
  Proof.
    destruct trimmed_shape as [E1 [E2 [E3 [_ [_ [_ [H4 _]]]]]]]. unfold file_defs. rewrite E1, E2, E3.
    repeat apply sub_app; try apply sub_refl.
    - apply sub_map. apply struct_likes_sub.
    - assert (forall l, map (fun s => (sv_name s, DkService)) l = map (fun n => (n, DkService)) (map sv_name l)) as E
        by (intros l; rewrite map_map; reflexivity).
      rewrite !E. apply sub_map. exact H4.
  Qed.

  Lemma file_incs_sub : sub (file_incs qf) (file_incs pf).
  Proof.
    destruct trimmed_shape as [_ [_ [_ [_ [_ [_ [_ H]]]]]]]. unfold file_incs.
    assert (forall l, map (fun i => (idl_prefix (in_path i), in_ref i)) l =
                      map (fun x => (idl_prefix (fst x), snd x)) (map (fun i => (in_path i, in_ref i)) l)) as E
      by (intros l; rewrite map_map; reflexivity).
    rewrite !E. apply sub_map. exact H.
  Qed.
End TrimSyntax.


(* ==================================================================== *)
Lemma combine_seq_ge {A} (L : list A) : forall k j x, In (j, x) (combine (seq k (List.length L)) L) -> k <= j.
Proof.
  induction L as [|y L IH]; intros k j x H; cbn in H; [destruct H|].
  destruct H as [[= <- <-]|H]; [lia|]. apply IH in H. lia.
Qed.

(* the include a qualified name goes through, after includes were deleted: still the same
   file, when the chosen include is kept and still defines the name *)
Lemma spec_include_sub (P Q : program) (ok : dkind -> bool) pre m :
  (forall g k, def_of Q g m = Some k -> ok k = true -> exists k', def_of P g m = Some k' /\ ok k' = true) ->
  forall L idx Lix' idx' i gn,
    sub Lix' (combine (seq idx (List.length L)) L) ->
    spec_include P ok pre m L idx = Some (i, gn) ->
    In (i, (pre, Some gn)) Lix' ->
    (exists k, def_of Q gn m = Some k /\ ok k = true) ->
    exists i', spec_include Q ok pre m (map snd Lix') idx' = Some (i', gn).
Proof.
  intros Hqp. induction L as [|[pre' ref] L IH]; intros idx Lix' idx' i gn Hs Hp Hin Hq; cbn [spec_include] in Hp; [discriminate|].
  cbn [List.length seq combine] in Hs.
  (* does the head qualify in P? *)
  assert (Hnext : spec_include P ok pre m L (S idx) = Some (i, gn) ->
                  forall Lt, sub Lt (combine (seq (S idx) (List.length L)) L) -> In (i, (pre, Some gn)) Lt ->
                  forall j, exists i', spec_include Q ok pre m (map snd Lt) j = Some (i', gn)).
  { intros Hn Lt Hst Hint j. eapply IH; eauto. }
  assert (Hhead_not_in_tail : forall Lt, sub Lt (combine (seq (S idx) (List.length L)) L) ->
            ~ In (idx, (pre, Some gn)) Lt).
  { intros Lt Hst Hi. eapply sub_In in Hi; [|exact Hst]. apply combine_seq_ge in Hi. lia. }
  inversion Hs as [|x l l' Hs' E1 E2|x l l' Hs' E1 E2]; subst.
  - (* head kept *)
    cbn [map snd spec_include].
    destruct (beqb pre' pre) eqn:Ep.
    + destruct ref as [g|].
      * destruct (def_of P g m) as [k|] eqn:Dk.
        -- destruct (ok k) eqn:Ok.
           ++ injection Hp as <- <-. destruct Hq as [k2 [Dq Oq]]. rewrite Dq, Oq. eauto.
           ++ assert (spec_include Q ok pre m (map snd l) (S idx') = Some (i, gn) \/ True) as _ by auto.
              destruct (def_of Q g m) as [k2|] eqn:Dq.
              ** destruct (ok k2) eqn:Oq.
                 --- destruct (Hqp _ _ Dq Oq) as [k' [Dk' Ok']]. rewrite Dk in Dk'. injection Dk' as <-. congruence.
                 --- destruct Hin as [E|Hin].
                     { injection E as <- _ <-. pose proof (spec_include_nth _ _ _ _ _ _ _ _ Hp) as [Hle _]. lia. }
                     eapply Hnext; eauto.
              ** destruct Hin as [E|Hin].
                 { injection E as <- _ <-. pose proof (spec_include_nth _ _ _ _ _ _ _ _ Hp) as [Hle _]. lia. }
                 eapply Hnext; eauto.
        -- destruct (def_of Q g m) as [k2|] eqn:Dq.
           ++ destruct (ok k2) eqn:Oq.
              ** destruct (Hqp _ _ Dq Oq) as [k' [Dk' _]]. congruence.
              ** destruct Hin as [E|Hin].
                 { injection E as <- _ <-. pose proof (spec_include_nth _ _ _ _ _ _ _ _ Hp) as [Hle _]. lia. }
                 eapply Hnext; eauto.
           ++ destruct Hin as [E|Hin].
              { injection E as <- _ <-. pose proof (spec_include_nth _ _ _ _ _ _ _ _ Hp) as [Hle _]. lia. }
              eapply Hnext; eauto.
      * destruct Hin as [E|Hin]; [discriminate E|]. eapply Hnext; eauto.
    + destruct Hin as [E|Hin].
      { injection E as <- E2 _. subst pre'. rewrite beqb_refl in Ep. discriminate. }
      eapply Hnext; eauto.
  - (* head deleted *)
    destruct (beqb pre' pre) eqn:Ep; [|eapply Hnext; eauto].
    destruct ref as [g|]; [|eapply Hnext; eauto].
    destruct (def_of P g m) as [k|] eqn:Dk; [|eapply Hnext; eauto].
    destruct (ok k) eqn:Ok; [|eapply Hnext; eauto].
    injection Hp as <- <-. exfalso. eapply Hhead_not_in_tail; eauto.
Qed.

Lemma NoDup_snoc {A} (l : list A) x : NoDup l -> ~ In x l -> NoDup (l ++ [x]).
Proof.
  induction l as [|y l IH]; intros Hn Hx; cbn; [constructor; [intros []|constructor]|].
  inversion Hn; subst. constructor.
  - rewrite in_app_iff. cbn. intros [H|[H|[]]]; [contradiction | subst; apply Hx; left; reflexivity].
  - apply IH; [assumption | intros H; apply Hx; right; exact H].
Qed.

(* the keys of the output are pairwise different *)
Lemma reach_keys_nodup cp c p full fuel st : forall F acc acc',
  reach cp c p full fuel st F acc = Ok acc' -> NoDup (map fst acc) -> NoDup (map fst acc').
Proof.
  induction fuel as [|n IH]; intros F acc acc' H Hn; cbn [reach] in H.
  - destruct (existsb _ acc); [injection H as <-; exact Hn | discriminate].
  - destruct (existsb _ acc) eqn:Ex; [injection H as <-; exact Hn|].
    destruct (prog_file p F) as [f|]; [|discriminate].
    apply TrimFacts.bind_ok in H. destruct H as [tf [Ht H]].
    assert (NoDup (map fst (acc ++ [(F, tf)]))) as Hn1.
    { rewrite map_app. cbn. apply NoDup_snoc; [exact Hn|].
      intros Hin. apply in_map_iff in Hin. destruct Hin as [[k v] [E Hin]]. cbn in E. subst k.
      assert (existsb (fun e => beqb (fst e) F) acc = true) as X; [|congruence].
      apply existsb_exists. exists (F, v). split; [exact Hin | apply beqb_refl]. }
    revert H Hn1. generalize (acc ++ [(F, tf)]). generalize (f_includes tf). intros l.
    induction l as [|inc l IHl]; intros a Hfo Ha; cbn [fold_res] in Hfo.
    + injection Hfo as <-. exact Ha.
    + apply TrimFacts.bind_ok in Hfo. destruct Hfo as [a1 [H1 H2]]. destruct (in_ref inc) as [tn|]; [|discriminate].
      eapply IHl; [exact H2|]. eapply IH; eauto.
Qed.


(* ==================================================================== *)
Lemma find_index_from_complete {A} (f : A -> bool) l : forall k x, In x l -> f x = true ->
  exists i y, find_index_from f l k = Some (i, y).
Proof.
  induction l as [|z l IH]; intros k x Hin Hf; [destruct Hin|]. cbn.
  destruct (f z) eqn:E; [eauto|]. destruct Hin as [->|Hin]; [congruence|]. eapply IH; eauto.
Qed.

Section Resolves.
  Variable matches : bytes -> bytes -> bool.
  Variable cp : bytes -> bool.
  Variable c : cfg.
  Variable p q : program.
  Variable fin : mstate.
  Hypothesis Hwf : wf p.
  Hypothesis Hm : mark_ast matches cp c p (prog_size p) = Ok fin.
  Hypothesis Hr : reach cp c p false (prog_size p) fin (main_name p) [] = Ok q.
  (* the input is accepted by symbol resolution ... *)
  Hypothesis Hres : resolvable p = true.
  (* ... its recorded resolution is the one the specification of C05 prescribes
     (Idl/ResolveInv.occ_good: what resolve_program_good proves of every result) ... *)
  Hypothesis Hocc : forall fn f, prog_file p fn = Some f -> forall t, In t (file_occs f) -> occ_good p fn f t.
  (* ... and the parser's three lists hold what their names say *)
  Hypothesis Hkinds : forall fn f k s, prog_file p fn = Some f -> In s (sl_list k f) -> sl_category s = k.

  Lemma p_file_ok fn f : prog_file p fn = Some f -> file_ok (ident_ok p) p fn f = true.
  Proof.
    intros Hf. unfold resolvable in Hres. apply andb_true_iff in Hres. destruct Hres as [_ H].
    unfold resolvable_with in H. destruct p as [|[mn mf] rest] eqn:Ep; [discriminate|]. rewrite <- Ep in *.
    apply andb_true_iff in H. destruct H as [_ H]. rewrite forallb_forall in H.
    apply lookup_In in Hf. exact (H (fn, f) Hf).
  Qed.

  Lemma p_defs_nodup fn f : prog_file p fn = Some f -> NoDup (map fst (file_defs f)).
  Proof.
    intros Hf. pose proof (p_file_ok _ _ Hf) as H. unfold file_ok in H. rewrite !andb_true_iff in H.
    apply nodupb_NoDup. tauto.
  Qed.

  Lemma q_keys : NoDup (map fst q).
  Proof. eapply reach_keys_nodup; [exact Hr | constructor]. Qed.

  Lemma q_file F qf : In (F, qf) q -> prog_file q F = Some qf.
  Proof. intros H. apply In_lookup; [apply q_keys | exact H]. Qed.

  Lemma q_entry F qf : In (F, qf) q -> exists pf, prog_file p F = Some pf /\ trim_file cp c p fin F pf = Ok qf.
  Proof. eapply output_entry. exact Hr. Qed.

  Lemma q_def_sub F qf a k : In (F, qf) q -> def_of q F a = Some k -> def_of p F a = Some k.
  Proof.
    intros Hq Hd. destruct (q_entry _ _ Hq) as [pf [Hpf Htf]].
    unfold def_of in *. rewrite (q_file _ _ Hq) in Hd. rewrite Hpf.
    eapply lookup_sub; [eapply file_defs_sub; exact Htf | eapply p_defs_nodup; exact Hpf | exact Hd].
  Qed.

  Lemma q_def_sub' G a k : def_of q G a = Some k -> def_of p G a = Some k.
  Proof.
    intros Hd. unfold def_of in Hd. destruct (prog_file q G) as [gq|] eqn:Hg; [|discriminate].
    apply lookup_In in Hg. eapply q_def_sub; [exact Hg|]. unfold def_of. rewrite (q_file _ _ Hg). exact Hd.
  Qed.

  Lemma q_def_keep F qf a k : In (F, qf) q -> In (a, k) (file_defs qf) -> def_of q F a = Some k.
  Proof.
    intros Hq Hin. destruct (q_entry _ _ Hq) as [pf [Hpf Htf]].
    unfold def_of. rewrite (q_file _ _ Hq).
    eapply lookup_sub_back; [eapply file_defs_sub; exact Htf | eapply p_defs_nodup; exact Hpf | exact Hin].
  Qed.

  (* typedefs, enums are kept with their files *)
  Lemma q_def_keep_always F qf pf a k :
    In (F, qf) q -> prog_file p F = Some pf -> def_of p F a = Some k ->
    (forall s, k <> DkStruct s) -> k <> DkService -> def_of q F a = Some k.
  Proof.
    intros Hq Hpf Hd Hns Hnv. destruct (q_entry _ _ Hq) as [pf' [Hpf' Htf]]. rewrite Hpf in Hpf'. injection Hpf' as <-.
    apply (q_def_keep _ _ _ _ Hq).
    unfold def_of in Hd. rewrite Hpf in Hd. apply lookup_In in Hd.
    destruct (trimmed_shape _ _ _ _ _ _ _ Htf) as [E1 [E2 [E3 _]]].
    unfold file_defs in *. rewrite E1, E2, E3. rewrite !in_app_iff in *.
    destruct Hd as [H|[H|[H|[H|H]]]]; auto.
    - apply in_map_iff in H. destruct H as [s [[= <- <-] _]]. exfalso. eapply Hns. reflexivity.
    - apply in_map_iff in H. destruct H as [s [[= <- <-] _]]. exfalso. apply Hnv. reflexivity.
  Qed.

  (* a struct-like definition: the position markType finds, and what survives when it is marked *)
  Lemma struct_def_position G pg a s :
    prog_file p G = Some pg -> def_of p G a = Some (DkStruct s) ->
    exists i sx, find_index (fun x => beqb (sl_name x) a) (sl_list s pg) = Some (i, sx) /\
                 nth_error (sl_list s pg) i = Some sx /\ sl_name sx = a /\ sl_category sx = s.
  Proof.
    intros Hpg Hd. unfold def_of in Hd. rewrite Hpg in Hd. apply lookup_In in Hd.
    unfold file_defs in Hd. rewrite !in_app_iff in Hd.
    destruct Hd as [H|[H|[H|[H|H]]]]; try (apply in_map_iff in H; destruct H as [x [E _]]; discriminate E).
    apply in_map_iff in H. destruct H as [sx [[= <- <-] Hin]].
    assert (exists k, In sx (sl_list k pg)) as [k Hk].
    { unfold struct_likes in Hin. rewrite !in_app_iff in Hin.
      destruct Hin as [H|[H|H]]; [exists SKStruct | exists SKUnion | exists SKException]; exact H. }
    rewrite <- (Hkinds _ _ _ _ Hpg Hk) in Hk.
    destruct (find_index_from_complete (fun x => beqb (sl_name x) (sl_name sx)) _ 0 sx Hk (beqb_refl _)) as [i [sy Hfi]].
    pose proof (find_index_some _ _ _ _ Hfi) as [Hn Hb]. apply beqb_true in Hb.
    exists i, sy. split; [exact Hfi|]. split; [exact Hn|]. split; [exact Hb|].
    eapply Hkinds; [exact Hpg | eapply nth_error_In; exact Hn].
  Qed.

  Lemma struct_def_kept G gq pg a s i sx :
    In (G, gq) q -> prog_file p G = Some pg -> nth_error (sl_list s pg) i = Some sx -> sl_name sx = a ->
    sl_category sx = s -> marked fin (NStructLike G s i) = true -> def_of q G a = Some (DkStruct s).
  Proof.
    intros Hq Hpg Hn Ha Hc Mk. destruct (q_entry _ _ Hq) as [pg' [Hpg' Htf]]. rewrite Hpg in Hpg'. injection Hpg' as <-.
    apply (q_def_keep _ _ _ _ Hq).
    assert (In sx (sl_list s gq)) as Hin.
    { eapply trim_file_struct_likes_conv; [exact Htf | exact Hn|]. unfold keep_sl. cbn [fst]. rewrite Mk. reflexivity. }
    unfold file_defs. rewrite !in_app_iff. right. right. right. left.
    apply in_map_iff. exists sx. split; [rewrite Ha, Hc; reflexivity|].
    unfold struct_likes. rewrite !in_app_iff. destruct s; cbn [sl_list] in Hin; auto.
  Qed.

  (* ---------------- includes of the trimmed file, with their old positions *)
  Lemma combine_seq_map {A B} (g : A -> B) (l : list A) k :
    combine (seq k (List.length (map g l))) (map g l) =
    map (fun ii => (fst ii, g (snd ii))) (combine (seq k (List.length l)) l).
  Proof. revert k. induction l as [|x l IH]; intros k; cbn; [reflexivity|]. f_equal. apply IH. Qed.

  Lemma q_spec_include F qf pf (ok : dkind -> bool) pre m i gn :
    In (F, qf) q -> prog_file p F = Some pf ->
    spec_include p ok pre m (file_incs pf) 0 = Some (i, gn) ->
    marked fin (NInclude F i) = true ->
    (exists k, def_of q gn m = Some k /\ ok k = true) ->
    exists i', spec_include q ok pre m (file_incs qf) 0 = Some (i', gn).
  Proof.
    intros Hq Hpf Hs Mk Hk. destruct (q_entry _ _ Hq) as [pf' [Hpf' Htf]]. rewrite Hpf in Hpf'. injection Hpf' as <-.
    unfold trim_file in Htf. apply TrimFacts.bind_ok in Htf. destruct Htf as [incs [Hi Htf]]. injection Htf as <-.
    set (key := fun inc : include => (idl_prefix (in_path inc), in_ref inc)).
    set (Lix' := map (fun ii : nat * include => (fst ii, key (snd ii))) incs).
    assert (file_incs (File (f_filename pf)
                 (map (fun ii : nat * include => Include (in_path (snd ii)) (in_ref (snd ii)) None) incs)
                 (f_cpp_includes pf) (f_namespaces pf) (f_typedefs pf) (f_constants pf) (f_enums pf)
                 (map snd (filter (keep_sl cp c fin F SKStruct) (indexed (f_structs pf))))
                 (map snd (filter (keep_sl cp c fin F SKUnion) (indexed (f_unions pf))))
                 (map snd (filter (keep_sl cp c fin F SKException) (indexed (f_exceptions pf))))
                 (map (trim_service c fin F) (filter (fun is => marked fin (NService F (fst is))) (indexed (f_services pf))))
                 None) = map snd Lix') as ->.
    { unfold file_incs, Lix'. cbn [f_includes]. rewrite !map_map. reflexivity. }
    eapply (spec_include_sub p q ok pre m) with (L := file_incs pf) (idx := 0).
    - intros g k Dq Ok. exists k. split; [apply q_def_sub'; exact Dq | exact Ok].
    - unfold file_incs at 1 2. rewrite combine_seq_map. unfold Lix'. apply sub_map.
      apply filter_res_sub in Hi. exact Hi.
    - exact Hs.
    - destruct (spec_include_nth _ _ _ _ _ _ _ _ Hs) as [_ [Hn _]]. rewrite Nat.sub_0_r in Hn.
      unfold file_incs in Hn. rewrite nth_error_map in Hn.
      destruct (nth_error (f_includes pf) i) as [inc|] eqn:En; [|discriminate]. cbn in Hn. injection Hn as Hp1 Hp2.
      unfold Lix'. apply in_map_iff. exists (i, inc). split; [unfold key; cbn; rewrite Hp1, Hp2; reflexivity|].
      eapply filter_res_spec in Hi. apply Hi. split; [apply indexed_In; exact En|].
      unfold keep_include, include_target. cbn [fst snd]. rewrite Hp2.
      destruct Hk as [k [Dk _]]. apply q_def_sub' in Dk. unfold def_of in Dk.
      destruct (prog_file p gn); [|discriminate]. rewrite Mk. reflexivity.
    - exact Hk.
  Qed.
End Resolves.


(* ==================================================================== *)
Lemma category_sl_kind_of k : category_sl_kind (sl_kind_category k) = Some k.
Proof. destruct k; reflexivity. Qed.

Section Resolves2.
  Variable matches : bytes -> bytes -> bool.
  Variable cp : bytes -> bool.
  Variable c : cfg.
  Variable p q : program.
  Variable fin : mstate.
  Hypothesis Hwf : wf p.
  Hypothesis Hm : mark_ast matches cp c p (prog_size p) = Ok fin.
  Hypothesis Hr : reach cp c p false (prog_size p) fin (main_name p) [] = Ok q.
  Hypothesis Hres : resolvable p = true.
  Hypothesis Hocc : forall fn f, prog_file p fn = Some f -> forall t, In t (file_occs f) -> occ_good p fn f t.
  Hypothesis Hkinds : forall fn f k s, prog_file p fn = Some f -> In s (sl_list k f) -> sl_category s = k.

  Definition occ_marked (F : bytes) (t : ty) : Prop :=
    forall m, In m (ty_denotes p F t) -> needs_mark m = true -> marked fin m = true.

  Lemma p_plain G pg a k : prog_file p G = Some pg -> In (a, k) (file_defs pg) -> plain_name a = true.
  Proof.
    intros Hpg Hin. unfold resolvable in Hres. apply andb_true_iff in Hres. destruct Hres as [Hp _].
    unfold plain_names in Hp. rewrite forallb_forall in Hp. apply lookup_In in Hpg.
    specialize (Hp _ Hpg). cbn [snd] in Hp. rewrite forallb_forall in Hp. exact (Hp _ Hin).
  Qed.

  (* the struct-like a type occurrence stands for is kept when the occurrence's marks are there *)
  Lemma struct_occ_kept F t G gq pg a s via :
    In (G, gq) q -> prog_file p G = Some pg -> def_of p G a = Some (DkStruct s) ->
    ty_target_file p F t = Some (G, via) -> ty_is_typedef t = None -> ty_category t = sl_kind_category s ->
    (forall x, ty_name_ok t x = true -> plain_name x = true -> x = a) -> ty_name_ok t a = true ->
    occ_marked F t -> def_of q G a = Some (DkStruct s).
  Proof.
    intros Hq Hpg Hd Ht Htd Hc Hname Hok Hmk.
    destruct (struct_def_position p Hkinds _ _ _ _ Hpg Hd) as [i0 [sx [_ [Hn0 [Ha0 Hc0]]]]].
    assert (ty_name_ok t (sl_name sx) = true) as Hok0 by (rewrite Ha0; exact Hok).
    destruct (find_index_from_complete (fun x => ty_name_ok t (sl_name x)) (sl_list s pg) 0 sx
                (nth_error_In _ _ Hn0) Hok0) as [i [sy Hfi]].
    pose proof (find_index_some _ _ _ _ Hfi) as [Hn Hb].
    assert (sl_name sy = a) as Hay.
    { apply Hname; [exact Hb|]. eapply (p_plain G pg _ (DkStruct (sl_category sy))); [exact Hpg|].
      unfold file_defs. rewrite !in_app_iff. right. right. right. left. apply in_map_iff. exists sy.
      split; [reflexivity|]. pose proof (nth_error_In _ _ Hn) as Hin. unfold struct_likes. rewrite !in_app_iff.
      destruct s; cbn [sl_list] in Hin; auto. }
    assert (marked fin (NStructLike G s i) = true) as Mk.
    { apply Hmk; [|reflexivity]. unfold ty_denotes. rewrite Ht, Hpg, Htd, Hc, category_sl_kind_of.
      unfold find_index. rewrite Hfi.
      apply in_or_app. right. left. reflexivity. }
    assert (sl_category sy = s) as Hcy by (eapply Hkinds; [exact Hpg | eapply nth_error_In; exact Hn]).
    eapply struct_def_kept with (sx := sy) (i := i); eauto.
  Qed.

  (* the include a resolved occurrence is written through *)
  Lemma spec_include_file F pf pre m i gn ok :
    prog_file p F = Some pf -> spec_include p ok pre m (file_incs pf) 0 = Some (i, gn) ->
    include_file p pf (Z.of_nat i) = Some (i, gn).
  Proof.
    intros Hpf Hs. destruct (spec_include_nth _ _ _ _ _ _ _ _ Hs) as [_ [Hn [k [Dk _]]]]. rewrite Nat.sub_0_r in Hn.
    unfold file_incs in Hn. rewrite nth_error_map in Hn.
    destruct (nth_error (f_includes pf) i) as [inc|] eqn:En; [|discriminate]. cbn in Hn. injection Hn as _ Hr0.
    unfold include_file. rewrite nth_include_nat, En, Hr0. unfold def_of in Dk.
    destruct (prog_file p gn); [|discriminate]. rewrite Nat2Z.id. reflexivity.
  Qed.

  Lemma typedef_entry G pg a tgt : prog_file p G = Some pg -> def_of p G a = Some (DkTypedef tgt) ->
    exists td, In td (f_typedefs pg) /\ td_alias td = a /\ ty_name (td_type td) = tgt.
  Proof.
    intros Hpg Hd. unfold def_of in Hd. rewrite Hpg in Hd. apply lookup_In in Hd.
    unfold file_defs in Hd. rewrite !in_app_iff in Hd.
    destruct Hd as [H|[H|[H|[H|H]]]]; try (apply in_map_iff in H; destruct H as [x [E _]]; discriminate E).
    apply in_map_iff in H. destruct H as [td [[= <- <-] Hin]]. eauto.
  Qed.

  Lemma typedef_occ G pg td : prog_file p G = Some pg -> In td (f_typedefs pg) ->
    In (td_type td) (file_occs pg) /\ occ_marked G (td_type td).
  Proof.
    intros Hpg Hin. split.
    - eapply In_top_occs_file_occs; [|apply ty_occs_head]. unfold file_top_occs. apply in_or_app. left.
      apply in_map. exact Hin.
    - destruct (fin_roots matches cp c p Hwf fin Hm _ _ Hpg pg Hpg) as [_ [R2 _]].
      intros m Hm' Hn. apply R2; [|exact Hn]. unfold tys_nodes. apply in_flat_map. exists (td_type td).
      split; [apply in_map; exact Hin|]. unfold ty_nodes. apply in_flat_map. exists (td_type td).
      split; [|exact Hm']. destruct (td_type td); cbn; auto.
  Qed.

  Lemma def_denotes_kind P G a d : def_denotes P G a d -> exists k, def_of P G a = Some k /\ is_type_kind k = true.
  Proof. intros H. inversion H; subst; eexists; split; eauto. destruct k; reflexivity. Qed.

  Lemma def_struct_denotes G a s d : def_of p G a = Some (DkStruct s) -> def_denotes p G a d -> d = TStruct G a s.
  Proof. intros Hd H. inversion H; subst; congruence. Qed.

  (* ---------------- a name that denotes something in the input, written in a kept position,
     denotes the same thing in the trimmed program *)
  Lemma den k : forall F n d t qf pf,
    denote k p F n = Some d -> In (F, qf) q -> prog_file p F = Some pf -> In t (file_occs pf) -> ty_name t = n ->
    occ_marked F t -> name_denotes q F n d.
  Proof.
    induction k as [|k IH]; intros F n d t qf pf Hden Hq Hpf Ht Hn Hmk; cbn [denote] in Hden; [discriminate|].
    destruct (builtin_category n) as [cb|] eqn:Bn; [injection Hden as <-; apply nd_builtin; exact Bn|].
    (* what a definition stands for, given that a struct-like behind the occurrence is kept *)
    assert (Haux : forall G gq pg a, In (G, gq) q -> prog_file p G = Some pg ->
              (forall s, def_of p G a = Some (DkStruct s) -> def_of q G a = Some (DkStruct s)) ->
              denote_def (denote k p) p G a = Some d -> def_denotes q G a d).
    { intros G gq pg a HG Hpg Hstruct Hdd. unfold denote_def in Hdd.
      destruct (def_of p G a) as [[tgt| |vs|s|]|] eqn:Dk; try discriminate.
      - (* typedef *)
        destruct (typedef_entry _ _ _ _ Hpg Dk) as [td [Htd [Ea Et]]].
        destruct (typedef_occ _ _ _ Hpg Htd) as [Ho Hm2].
        eapply dd_typedef.
        + eapply (q_def_keep_always matches cp c p q fin Hwf Hm Hr Hres Hocc Hkinds); eauto; intros; discriminate.
        + eapply IH; [exact Hdd | exact HG | exact Hpg | exact Ho | exact Et | exact Hm2].
      - injection Hdd as <-. eapply dd_enum.
        eapply (q_def_keep_always matches cp c p q fin Hwf Hm Hr Hres Hocc Hkinds); eauto; intros; discriminate.
      - injection Hdd as <-. eapply dd_struct. apply Hstruct. reflexivity. }
    pose proof (Hocc _ _ Hpf _ Ht) as Hg. unfold occ_good in Hg. rewrite Hn, Bn in Hg.
    destruct (split_type n) as [|a [|m [|? ?]]] eqn:Sn; try contradiction.
    - (* a local name *)
      destruct Hg as [k0 [d0 [Dk0 [Tk0 [Dd0 [Hc [Hr0 Hf0]]]]]]].
      pose proof (split_type_single _ _ Sn) as Ea. subst a.
      eapply nd_local; [exact Bn | exact Sn|].
      eapply (Haux F qf pf n Hq Hpf); [|exact Hden].
      intros s Ds. rewrite Dk0 in Ds. injection Ds as ->.
      pose proof (def_struct_denotes _ _ _ _ Dk0 Dd0) as ->.
      eapply struct_occ_kept with (t := t) (F := F) (via := []); eauto.
      + unfold ty_target_file. rewrite Hr0. reflexivity.
      + rewrite Hf0. destruct s; reflexivity.
      + intros x Hx _. unfold ty_name_ok in Hx. rewrite Hr0, Hn, orb_false_r in Hx. apply beqb_true in Hx. exact Hx.
      + unfold ty_name_ok. rewrite Hn, beqb_refl. reflexivity.
    - (* a name written through an include *)
      destruct Hg as [i [gn [k0 [d0 [Hs [Dk0 [Dd0 [Hc [Hr0 Hf0]]]]]]]]].
      rewrite Hpf, Hs in Hden.
      pose proof (spec_include_file _ _ _ _ _ _ _ Hpf Hs) as Hif.
      assert (ty_target_file p F t = Some (gn, [NInclude F i])) as Htf.
      { unfold ty_target_file. rewrite Hr0, Hpf. cbn [ref_index]. rewrite Hif. reflexivity. }
      assert (marked fin (NInclude F i) = true) as Mi.
      { apply Hmk; [|reflexivity]. unfold ty_denotes. rewrite Htf. apply in_or_app. left. left. reflexivity. }
      destruct (include_kept cp c p q fin Hr _ _ _ _ _ Hq Hpf Hif Mi) as [_ [gq Hgq]].
      assert (exists pg, prog_file p gn = Some pg) as [pg Hpg].
      { unfold def_of in Dk0. destruct (prog_file p gn); [eauto | discriminate]. }
      assert (def_denotes q gn m d) as Hdq.
      { eapply (Haux gn gq pg m Hgq Hpg); [|exact Hden].
        intros s Ds. rewrite Dk0 in Ds. injection Ds as ->.
        pose proof (def_struct_denotes _ _ _ _ Dk0 Dd0) as ->.
        eapply struct_occ_kept with (t := t) (F := F); eauto.
        + rewrite Hf0. destruct s; reflexivity.
        + intros x Hx Hpl. unfold ty_name_ok in Hx. rewrite Hr0, Hn in Hx. cbn [ref_name] in Hx.
          apply orb_true_iff in Hx. destruct Hx as [Hx|Hx]; apply beqb_true in Hx; [|exact Hx].
          subst x. unfold plain_name in Hpl. rewrite Bn, Sn in Hpl. discriminate.
        + unfold ty_name_ok. rewrite Hr0. cbn [ref_name]. rewrite beqb_refl, orb_true_r. reflexivity. }
      destruct (q_spec_include matches cp c p q fin Hwf Hm Hr Hres Hocc Hkinds _ _ _ is_type_kind _ _ _ _ Hq Hpf Hs Mi
                  (def_denotes_kind _ _ _ _ Hdq)) as [i' Hs'].
      eapply nd_qualified; [exact Bn | exact Sn | eapply (q_file cp c p q fin Hr); exact Hq | exact Hs' | exact Hdq].
  Qed.
End Resolves2.


(* ==================================================================== *)
Lemma ty_occs_subtypes : forall t t', In t' (ty_occs t) -> In t' (ty_subtypes t).
Proof.
  induction t using ty_ind'. intros t' Hin. cbn [ty_occs] in Hin. cbn [ty_subtypes].
  destruct Hin as [<-|Hin]; [left; reflexivity|]. right.
  destruct (builtin_category n) as [[]|]; try destruct Hin.
  - apply in_app_iff in Hin. apply in_or_app. destruct Hin as [Hin|Hin].
    + left. destruct k as [x|]; [|destruct Hin]. eapply H; eauto.
    + right. destruct v as [x|]; [|destruct Hin]. eapply H0; eauto.
  - apply in_or_app. right. destruct v as [x|]; [|destruct Hin]. eapply H0; eauto.
  - apply in_or_app. right. destruct v as [x|]; [|destruct Hin]. eapply H0; eauto.
Qed.

Section Resolves3.
  Variable matches : bytes -> bytes -> bool.
  Variable cp : bytes -> bool.
  Variable c : cfg.
  Variable p q : program.
  Variable fin : mstate.
  Hypothesis Hwf : wf p.
  Hypothesis Hm : mark_ast matches cp c p (prog_size p) = Ok fin.
  Hypothesis Hr : reach cp c p false (prog_size p) fin (main_name p) [] = Ok q.
  Hypothesis Hres : resolvable p = true.
  Hypothesis Hocc : forall fn f, prog_file p fn = Some f -> forall t, In t (file_occs f) -> occ_good p fn f t.
  Hypothesis Hkinds : forall fn f k s, prog_file p fn = Some f -> In s (sl_list k f) -> sl_category s = k.

  Notation occ_marked := (occ_marked p fin).

  (* a type all of whose names are written in kept positions is accepted in the trimmed program *)
  Lemma ty_ok_q F qf pf : In (F, qf) q -> prog_file p F = Some pf ->
    forall t, ty_ok p F t = true ->
      (forall t', In t' (ty_occs t) -> In t' (file_occs pf) /\ occ_marked F t') -> ty_ok q F t = true.
  Proof.
    intros Hq Hpf. induction t using ty_ind'. intros Hok Hall. cbn [ty_ok] in *.
    destruct (builtin_category n) as [cb|] eqn:Bn.
    - assert (forall x, In x (match cb with
                             | CatMap => (match k with Some a => ty_occs a | None => [] end) ++
                                         (match v with Some b => ty_occs b | None => [] end)
                             | CatList | CatSet => match v with Some b => ty_occs b | None => [] end
                             | _ => []
                             end) -> In x (file_occs pf) /\ occ_marked F x) as Hsub.
      { intros x Hx. apply Hall. cbn [ty_occs]. rewrite Bn. right. exact Hx. }
      destruct cb; try exact Hok.
      + destruct k as [a|]; [|discriminate]. destruct v as [b|]; [|discriminate].
        apply andb_true_iff in Hok. destruct Hok as [Ha Hb]. apply andb_true_iff. split.
        * eapply H; [reflexivity | exact Ha|]. intros x Hx. apply Hsub. apply in_or_app. left. exact Hx.
        * eapply H0; [reflexivity | exact Hb|]. intros x Hx. apply Hsub. apply in_or_app. right. exact Hx.
      + destruct k; [discriminate|]. destruct v as [b|]; [|discriminate].
        eapply H0; [reflexivity | exact Hok|]. intros x Hx. apply Hsub. exact Hx.
      + destruct k; [discriminate|]. destruct v as [b|]; [|discriminate].
        eapply H0; [reflexivity | exact Hok|]. intros x Hx. apply Hsub. exact Hx.
    - destruct k; [discriminate|]. destruct v; [discriminate|].
      apply denotes_b_iff in Hok. destruct Hok as [d Hd]. apply denote_complete in Hd.
      destruct (Hall (Ty n None None c0 an cat r t)) as [Ho Hmk]; [cbn [ty_occs]; left; reflexivity|].
      apply denotes_b_iff. exists d.
      eapply (den matches cp c p q fin Hwf Hm Hr Hres Hocc Hkinds); [exact Hd | exact Hq | exact Hpf | exact Ho | reflexivity | exact Hmk].
  Qed.

  (* the top-level types of the definitions left in a file: they are types of the input file,
     and everything they mention that needs a mark is marked *)
  Lemma kept_top_types F qf pf t :
    In (F, qf) q -> prog_file p F = Some pf -> In t (file_top_occs qf) ->
    In t (file_top_occs pf) /\
    forall m, In m (ty_nodes p F t) -> needs_mark m = true -> marked fin m = true.
  Proof.
    intros Hq Hpf Hin. destruct (q_entry cp c p q fin Hr _ _ Hq) as [pf' [Hpf' Htf]]. rewrite Hpf in Hpf'. injection Hpf' as <-.
    destruct (mark_ast_final matches cp c p (wf_types _ Hwf) (wf_below _ Hwf) _ _ Hm) as [[Hcl _] _ Hsv _].
    destruct (fin_roots matches cp c p Hwf fin Hm _ _ Hpf pf Hpf) as [R1 [R2 R3]].
    destruct (trimmed_shape _ _ _ _ _ _ _ Htf) as [E1 [E2 _]].
    unfold file_top_occs in Hin. rewrite E1, E2 in Hin. rewrite !in_app_iff in Hin.
    assert (forall ts, In t ts -> (forall m, In m (tys_nodes p F ts) -> needs_mark m = true -> marked fin m = true) ->
              forall m, In m (ty_nodes p F t) -> needs_mark m = true -> marked fin m = true) as Hsel.
    { intros ts Hts Hall m Hm' Hn. apply Hall; [|exact Hn]. unfold tys_nodes. apply in_flat_map. eauto. }
    destruct Hin as [Hin|[Hin|[Hin|Hin]]].
    - split; [unfold file_top_occs; rewrite !in_app_iff; auto | eapply Hsel; eauto].
    - split; [unfold file_top_occs; rewrite !in_app_iff; auto | eapply Hsel; eauto].
    - apply in_map_iff in Hin. destruct Hin as [fd [<- Hfd]]. apply in_flat_map' in Hfd. destruct Hfd as [s [Hs Hfd]].
      assert (exists k, In s (sl_list k qf)) as [k Hk].
      { unfold struct_likes in Hs. rewrite !in_app_iff in Hs.
        destruct Hs as [H|[H|H]]; [exists SKStruct | exists SKUnion | exists SKException]; exact H. }
      destruct (trim_file_struct_likes _ _ _ _ _ _ _ _ _ Htf Hk) as [i [Hi Hkeep]].
      split.
      + unfold file_top_occs. rewrite !in_app_iff. right. right. left. apply in_map. apply in_flat_map'.
        exists s. split; [apply (sl_list_struct_likes k); eapply nth_error_In; exact Hi | exact Hfd].
      + assert (marked fin (NStructLike F k i) = true) as Mk.
        { unfold keep_sl in Hkeep. cbn [fst snd] in Hkeep. apply orb_true_iff in Hkeep. destruct Hkeep as [Hk'|Hk']; [exact Hk'|].
          rewrite check_preserve_preserved in Hk'. eapply R3; eauto. }
        specialize (Hcl _ Mk). cbn in Hcl. eapply Hsel; [apply in_map; exact Hfd|].
        intros m Hm' Hn. eapply Hcl; eauto.
    - apply in_flat_map' in Hin. destruct Hin as [sv [Hsv' Hin]]. apply in_flat_map' in Hin. destruct Hin as [fn [Hfn Hin]].
      unfold trim_file in Htf. apply TrimFacts.bind_ok in Htf. destruct Htf as [incs [_ Htf]]. injection Htf as <-.
      cbn [f_services] in Hsv'. apply in_map_iff in Hsv'. destruct Hsv' as [[i s0] [<- Hsv']].
      apply filter_In in Hsv'. destruct Hsv' as [Hi Mks]. apply indexed_In in Hi. cbn [fst] in Mks.
      assert (exists j, nth_error (sv_functions s0) j = Some fn /\ marked fin (NFunction F i j) = true) as [j [Hj Mf]].
      { unfold trim_service in Hfn. cbn [fst snd] in Hfn.
        assert (In fn (if filtering c
                       then map snd (filter (fun jf => marked fin (NFunction F i (fst jf))) (indexed (sv_functions s0)))
                       else sv_functions s0)) as Hfn' by (destruct (in_ext fin F i); exact Hfn).
        destruct (filtering c) eqn:Ef.
        - apply in_map_iff in Hfn'. destruct Hfn' as [[j fn'] [E Hj]]. cbn in E. subst fn'.
          apply filter_In in Hj. destruct Hj as [Hj Mf]. apply indexed_In in Hj. eauto.
        - apply In_nth_error in Hfn'. destruct Hfn' as [j Hj]. exists j. split; [exact Hj|].
          destruct (Hsv Ef _ _ Mks _ _ Hpf Hi) as [Hall _]. eapply Hall; eauto. }
      split.
      + unfold file_top_occs. rewrite !in_app_iff. right. right. right. apply in_flat_map'. exists s0.
        split; [eapply nth_error_In; exact Hi|]. apply in_flat_map'. exists fn. split; [eapply nth_error_In; exact Hj | exact Hin].
      + specialize (Hcl _ Mf). cbn in Hcl.
        assert (In t (function_types fn)) as Hft.
        { unfold function_top_types in Hin. unfold function_types. unfold function_fields in Hin. rewrite map_app in Hin.
          rewrite !in_app_iff in *. destruct Hin as [Hin|[Hin|Hin]]; auto. }
        eapply Hsel; [exact Hft|]. intros m Hm' Hn. eapply Hcl; eauto.
  Qed.
End Resolves3.


(* ==================================================================== *)
Section Resolves4.
  Variable matches : bytes -> bytes -> bool.
  Variable compiles : bytes -> bool.
  Variable cp : bytes -> bool.
  Variable c : cfg.
  Variable p q : program.
  Variable fin : mstate.
  Hypothesis Hwf : wf p.
  Hypothesis Hm : mark_ast matches cp c p (prog_size p) = Ok fin.
  Hypothesis Hr : reach cp c p false (prog_size p) fin (main_name p) [] = Ok q.
  Hypothesis Hres : resolvable p = true.
  Hypothesis Hocc : forall fn f, prog_file p fn = Some f -> forall t, In t (file_occs f) -> occ_good p fn f t.
  Hypothesis Hkinds : forall fn f k s, prog_file p fn = Some f -> In s (sl_list k f) -> sl_category s = k.

  (* every type of every definition left in the output is accepted by symbol resolution of the
     trimmed program *)
  Theorem trimmed_types_ok F qf : In (F, qf) q -> forallb (ty_ok q F) (file_top_occs qf) = true.
  Proof.
    intros Hq. destruct (q_entry cp c p q fin Hr _ _ Hq) as [pf [Hpf Htf]].
    apply forallb_forall. intros t Ht.
    destruct (kept_top_types matches cp c p q fin Hwf Hm Hr _ _ _ _ Hq Hpf Ht) as [Htop Hmk].
    pose proof (p_file_ok matches cp c p q fin Hwf Hm Hr Hres Hocc Hkinds _ _ Hpf) as Hok. unfold file_ok in Hok. rewrite !andb_true_iff in Hok.
    destruct Hok as [[[[_ Hty] _] _] _]. rewrite forallb_forall in Hty.
    eapply (ty_ok_q matches cp c p q fin Hwf Hm Hr Hres Hocc Hkinds); [exact Hq | exact Hpf | apply Hty; exact Htop|].
    intros t' Ht'. split; [eapply In_top_occs_file_occs; eauto|].
    intros m Hm' Hn. apply Hmk; [|exact Hn]. unfold ty_nodes. apply in_flat_map. exists t'.
    split; [apply ty_occs_subtypes; exact Ht' | exact Hm'].
  Qed.

  Lemma trimmed_defs_nodup F qf : In (F, qf) q -> nodupb (map fst (file_defs qf)) = true.
  Proof.
    intros Hq. destruct (q_entry cp c p q fin Hr _ _ Hq) as [pf [Hpf Htf]]. apply nodupb_NoDup.
    eapply sub_NoDup; [apply sub_map; eapply file_defs_sub; exact Htf | eapply p_defs_nodup; eauto].
  Qed.

  Lemma trimmed_void_ok F qf : In (F, qf) q -> forallb (fun sv => forallb void_ok (sv_functions sv)) (f_services qf) = true.
  Proof.
    intros Hq. destruct (q_entry cp c p q fin Hr _ _ Hq) as [pf [Hpf Htf]].
    pose proof (p_file_ok matches cp c p q fin Hwf Hm Hr Hres Hocc Hkinds _ _ Hpf) as Hok. unfold file_ok in Hok. rewrite !andb_true_iff in Hok.
    destruct Hok as [[_ Hv] _]. rewrite forallb_forall in Hv.
    apply forallb_forall. intros sv Hsv. apply forallb_forall. intros fn Hfn.
    unfold trim_file in Htf. apply TrimFacts.bind_ok in Htf. destruct Htf as [incs [_ Htf]]. injection Htf as <-.
    cbn [f_services] in Hsv. apply in_map_iff in Hsv. destruct Hsv as [[i s0] [<- Hsv]].
    apply filter_In in Hsv. destruct Hsv as [Hi _]. apply indexed_In in Hi.
    specialize (Hv s0 (nth_error_In _ _ Hi)). rewrite forallb_forall in Hv. apply Hv.
    unfold trim_service in Hfn. cbn [fst snd] in Hfn.
    assert (In fn (if filtering c
                   then map snd (filter (fun jf => marked fin (NFunction F i (fst jf))) (indexed (sv_functions s0)))
                   else sv_functions s0)) as Hfn' by (destruct (in_ext fin F i); exact Hfn).
    destruct (filtering c); [|exact Hfn'].
    apply in_map_iff in Hfn'. destruct Hfn' as [[j fn'] [E Hj]]. cbn in E. subst fn'.
    apply filter_In in Hj. destruct Hj as [Hj _]. apply indexed_In in Hj. eapply nth_error_In; eauto.
  Qed.

  Lemma trimmed_plain_names : plain_names q = true.
  Proof.
    unfold plain_names. apply forallb_forall. intros [F qf] Hq. cbn [snd]. apply forallb_forall. intros [a k] Hd. cbn [fst].
    destruct (q_entry cp c p q fin Hr _ _ Hq) as [pf [Hpf Htf]].
    eapply (p_plain p Hres); [exact Hpf|]. eapply sub_In; [eapply file_defs_sub; exact Htf | exact Hd].
  Qed.

  (* trim_resolves: the trimmed program is accepted by symbol resolution, given what is not proved
     here: base services (hypothesis [Hbase]), identifiers used as values ([Hid]) and the
     depth bound of the include tree ([Hinc]) *)
  Theorem trim_resolves_with :
    (match q with [] => true | (mn, _) :: _ => includes_ok (S (List.length q)) q mn end = true) ->
    (forall F qf, In (F, qf) q -> forallb (base_ok q F qf) (f_services qf) = true) ->
    (forall F qf, In (F, qf) q -> forallb (cv_idents_ok (ident_ok q F)) (file_top_const_values qf) = true) ->
    resolvable q = true /\ exists r, Idl.Resolve.resolve_program q = Idl.Resolve.Ok r.
  Proof.
    intros Hinc Hbase Hid.
    assert (resolvable q = true) as Hq.
    { unfold resolvable. rewrite trimmed_plain_names. cbn [andb]. unfold resolvable_with.
      destruct q as [|[mn mf] rest] eqn:Eq; [reflexivity|]. rewrite <- Eq in *. rewrite Hinc. cbn [andb].
      apply forallb_forall. intros [F qf] Hin. cbn [fst snd]. unfold file_ok.
      rewrite (trimmed_defs_nodup _ _ Hin), (trimmed_types_ok _ _ Hin), (Hbase _ _ Hin), (trimmed_void_ok _ _ Hin), (Hid _ _ Hin).
      reflexivity. }
    split; [exact Hq|]. apply Idl.ResolveCompleteConst.resolve_complete. exact Hq.
  Qed.
End Resolves4.


(* ==================================================================== *)
(* ---------------------------------------------------------------- the depth of an acyclic include tree *)

Section Depth.
  Variable Q : program.

  Definition istep (a b : bytes) : Prop :=
    exists f inc, prog_file Q a = Some f /\ In inc (f_includes f) /\ in_ref inc = Some b.

  Inductive iplus : bytes -> bytes -> Prop :=
  | ip_one a b : istep a b -> iplus a b
  | ip_more a b d : istep a b -> iplus b d -> iplus a d.

  Lemma iplus_snoc a b d : iplus a b -> istep b d -> iplus a d.
  Proof. intros H S. induction H; [eapply ip_more; [eassumption | apply ip_one; exact S] | eapply ip_more; eauto]. Qed.

  Lemma inc_desc n a b : includes_ok (S n) Q a = true -> istep a b -> includes_ok n Q b = true.
  Proof.
    intros H [f [inc [Hf [Hin Hr]]]]. cbn [includes_ok] in H. rewrite Hf in H. rewrite forallb_forall in H.
    specialize (H _ Hin). rewrite Hr in H. exact H.
  Qed.

  Lemma inc_mono n : forall a, includes_ok n Q a = true -> includes_ok (S n) Q a = true.
  Proof.
    induction n as [|n IH]; intros a H; [discriminate|]. cbn [includes_ok] in H.
    change (includes_ok (S (S n)) Q a) with
      (match prog_file Q a with
       | None => false
       | Some f => forallb (fun i => match in_ref i with Some g => includes_ok (S n) Q g | None => false end) (f_includes f)
       end).
    destruct (prog_file Q a) as [f|]; [|discriminate]. rewrite forallb_forall in *. intros inc Hin.
    specialize (H _ Hin). destruct (in_ref inc); [apply IH; exact H | discriminate].
  Qed.

  Lemma iplus_desc a b : iplus a b -> forall n, includes_ok (S n) Q a = true -> includes_ok n Q b = true.
  Proof.
    intros H. induction H as [a b S|a b d S _ IH]; intros n Hn; [eapply inc_desc; eauto|].
    pose proof (inc_desc _ _ _ Hn S) as Hb. destruct n as [|n']; [discriminate|].
    apply inc_mono. apply IH. exact Hb.
  Qed.

  Lemma no_cycle n : forall a, includes_ok n Q a = true -> iplus a a -> False.
  Proof.
    induction n as [|n IH]; intros a H Hc; [discriminate|]. eapply IH; [|exact Hc]. eapply iplus_desc; eauto.
  Qed.

  Lemma inc_in_keys n a : includes_ok n Q a = true -> In a (map fst Q).
  Proof.
    destruct n; [discriminate|]. cbn [includes_ok]. destruct (prog_file Q a) as [f|] eqn:Hf; [|discriminate].
    intros _. apply lookup_In in Hf. apply in_map_iff. exists (a, f). auto.
  Qed.

  (* with enough fuel for an acyclic tree, the number of files is enough *)
  Lemma depth_bound : forall n a V N,
    includes_ok N Q a = true -> NoDup (a :: V) -> (forall v, In v V -> In v (map fst Q)) ->
    (forall v, In v V -> iplus v a) -> List.length (map fst Q) <= List.length V + n ->
    includes_ok n Q a = true.
  Proof.
    induction n as [|n IH]; intros a V N Hbig Hnd Hkeys Hanc Hlen.
    - exfalso. assert (List.length (a :: V) <= List.length (map fst Q)) as Hle.
      { apply NoDup_incl_length; [exact Hnd|]. intros x [<-|Hx]; [eapply inc_in_keys; eauto | auto]. }
      cbn in Hle. lia.
    - destruct N as [|N]; [discriminate|]. pose proof Hbig as Hbig0. cbn [includes_ok] in Hbig |- *.
      destruct (prog_file Q a) as [f|] eqn:Hf; [|discriminate]. rewrite forallb_forall in Hbig. apply forallb_forall.
      intros inc Hin. specialize (Hbig _ Hin). destruct (in_ref inc) as [g|] eqn:Hr; [|discriminate].
      assert (istep a g) as Sg by (exists f, inc; auto).
      eapply IH with (V := a :: V); [exact Hbig | | | |].
      + constructor; [|exact Hnd]. intros [E|Hg].
        * subst g. eapply (no_cycle (S N) a); [exact Hbig0 | apply ip_one; exact Sg].
        * eapply (no_cycle N g); [exact Hbig|]. eapply iplus_snoc; [apply Hanc; exact Hg | exact Sg].
      + intros v [<-|Hv]; [apply lookup_In in Hf; apply in_map_iff; exists (a, f); auto | auto].
      + intros v [<-|Hv]; [apply ip_one; exact Sg | eapply iplus_snoc; [apply Hanc; exact Hv | exact Sg]].
      + cbn. lia.
  Qed.
End Depth.


(* ==================================================================== *)
Lemma reach_prefix cp c p full fuel st : forall F acc acc',
  reach cp c p full fuel st F acc = Ok acc' -> exists ext, acc' = acc ++ ext.
Proof.
  induction fuel as [|n IH]; intros F acc acc' H; cbn [reach] in H.
  - destruct (existsb _ acc); [injection H as <-; exists []; rewrite app_nil_r; reflexivity | discriminate].
  - destruct (existsb _ acc); [injection H as <-; exists []; rewrite app_nil_r; reflexivity|].
    destruct (prog_file p F) as [f|]; [|discriminate].
    apply TrimFacts.bind_ok in H. destruct H as [tf [Ht H]].
    assert (forall l a b, fold_res (fun (inc : include) acc0 =>
               match in_ref inc with Some tn => reach cp c p full n st tn acc0 | None => Crash end) l a = Ok b ->
             exists ext, b = a ++ ext) as Hl.
    { induction l as [|inc l IHl]; intros a b Hfo; cbn [fold_res] in Hfo.
      - injection Hfo as <-. exists []. rewrite app_nil_r. reflexivity.
      - apply TrimFacts.bind_ok in Hfo. destruct Hfo as [a1 [H1 H2]]. destruct (in_ref inc) as [tn|]; [|discriminate].
        apply IH in H1. destruct H1 as [e1 ->]. apply IHl in H2. destruct H2 as [e2 ->].
        exists (e1 ++ e2). rewrite app_assoc. reflexivity. }
    apply Hl in H. destruct H as [e ->]. exists ((F, tf) :: e). rewrite <- app_assoc. reflexivity.
Qed.

Section IncludesOk.
  Variable matches : bytes -> bytes -> bool.
  Variable cp : bytes -> bool.
  Variable c : cfg.
  Variable p q : program.
  Variable fin : mstate.
  Hypothesis Hr : reach cp c p false (prog_size p) fin (main_name p) [] = Ok q.
  Hypothesis Hres : resolvable p = true.

  Lemma q_head : exists tf rest, q = (main_name p, tf) :: rest.
  Proof.
    pose proof Hr as H. destruct (prog_size p) as [|n] eqn:En; cbn [reach existsb] in H; [discriminate|].
    destruct (prog_file p (main_name p)) as [f|]; [|discriminate].
    apply TrimFacts.bind_ok in H. destruct H as [tf [_ H]].
    assert (forall l a b, fold_res (fun (inc : include) acc0 =>
               match in_ref inc with Some tn => reach cp c p false n fin tn acc0 | None => Crash end) l a = Ok b ->
             exists ext, b = a ++ ext) as Hl.
    { induction l as [|inc l IHl]; intros a b Hfo; cbn [fold_res] in Hfo.
      - injection Hfo as <-. exists []. rewrite app_nil_r. reflexivity.
      - apply TrimFacts.bind_ok in Hfo. destruct Hfo as [a1 [H1 H2]]. destruct (in_ref inc) as [tn|]; [|discriminate].
        apply reach_prefix in H1. destruct H1 as [e1 ->]. apply IHl in H2. destruct H2 as [e2 ->].
        exists (e1 ++ e2). rewrite app_assoc. reflexivity. }
    apply Hl in H. destruct H as [e ->]. cbn. eauto.
  Qed.

  (* the include tree of the output is inside that of the input *)
  Lemma inc_q n : forall fn, includes_ok n p fn = true -> In fn (map fst q) -> includes_ok n q fn = true.
  Proof.
    induction n as [|n IH]; intros fn H Hk; [discriminate|]. cbn [includes_ok] in *.
    apply in_map_iff in Hk. destruct Hk as [[fn' qf] [E Hq]]. cbn in E. subst fn'.
    rewrite (q_file cp c p q fin Hr _ _ Hq).
    destruct (q_entry cp c p q fin Hr _ _ Hq) as [pf [Hpf Htf]]. rewrite Hpf in H.
    rewrite forallb_forall in H. apply forallb_forall. intros inc Hin.
    destruct (trim_file_includes _ _ _ _ _ _ _ _ Htf Hin) as [i [inc0 [Hn [-> _]]]]. cbn [in_ref].
    specialize (H _ (nth_error_In _ _ Hn)). destruct (in_ref inc0) as [g|] eqn:Eg; [|discriminate].
    apply IH; [exact H|].
    pose proof (reach_closed cp c p false _ _ _ _ _ Hr _ Hq) as [[]|Hc]. eapply Hc; [exact Hin | reflexivity].
  Qed.

  Theorem trimmed_includes_ok :
    match q with [] => true | (mn, _) :: _ => includes_ok (S (List.length q)) q mn end = true.
  Proof.
    destruct q_head as [tf [rest Eq]].
    assert (includes_ok (S (List.length p)) p (main_name p) = true) as Hp.
    { unfold resolvable in Hres. apply andb_true_iff in Hres. destruct Hres as [_ H]. unfold resolvable_with in H.
      unfold main_name. destruct p as [|[mn mf] r]; [rewrite Eq in Hr; discriminate|].
      apply andb_true_iff in H. tauto. }
    assert (In (main_name p) (map fst q)) as Hk by (rewrite Eq; left; reflexivity).
    pose proof (inc_q _ _ Hp Hk) as Hbig.
    assert (includes_ok (S (List.length q)) q (main_name p) = true) as Hgoal.
    { eapply (depth_bound q) with (V := []) (N := S (List.length p)); [exact Hbig | | | |].
      - constructor; [intros [] | constructor].
      - intros v [].
      - intros v [].
      - rewrite map_length. cbn. lia. }
    destruct q as [|[mn mf] r]; [discriminate Eq|]. injection Eq as -> _ _. exact Hgoal.
  Qed.
End IncludesOk.


(* ==================================================================== *)
(* ---------------------------------------------------------------- base services, without a method filter *)

Section BaseOk.
  Variable matches : bytes -> bytes -> bool.
  Variable cp : bytes -> bool.
  Variable c : cfg.
  Variable p q : program.
  Variable fin : mstate.
  Hypothesis Hwf : wf p.
  Hypothesis Hm : mark_ast matches cp c p (prog_size p) = Ok fin.
  Hypothesis Hr : reach cp c p false (prog_size p) fin (main_name p) [] = Ok q.
  Hypothesis Hres : resolvable p = true.
  Hypothesis Hocc : forall fn f, prog_file p fn = Some f -> forall t, In t (file_occs f) -> occ_good p fn f t.
  Hypothesis Hkinds : forall fn f k s, prog_file p fn = Some f -> In s (sl_list k f) -> sl_category s = k.
  Hypothesis Hnf : filtering c = false.
  (* the recorded reference of a base service is the include the specification of C05 chooses *)
  Hypothesis Hsv : forall fn f s, prog_file p fn = Some f -> In s (f_services f) ->
    match split_type (sv_extends s) with
    | [pre; m] => exists i gn, spec_include p is_service_kind pre m (file_incs f) 0 = Some (i, gn) /\
                               sv_ref s = Some (Ref m (Z.of_nat i))
    | _ => sv_ref s = None
    end.

  Lemma service_entry G pg a : prog_file p G = Some pg -> def_of p G a = Some DkService ->
    exists b, In b (f_services pg) /\ sv_name b = a.
  Proof.
    intros Hpg Hd. unfold def_of in Hd. rewrite Hpg in Hd. apply lookup_In in Hd.
    unfold file_defs in Hd. rewrite !in_app_iff in Hd.
    destruct Hd as [H|[H|[H|[H|H]]]]; try (apply in_map_iff in H; destruct H as [x [E _]]; discriminate E).
    apply in_map_iff in H. destruct H as [b [[= <-] Hin]]. eauto.
  Qed.

  Lemma service_kept G gq pg j b :
    In (G, gq) q -> prog_file p G = Some pg -> nth_error (f_services pg) j = Some b ->
    marked fin (NService G j) = true -> def_of q G (sv_name b) = Some DkService.
  Proof.
    intros Hq Hpg Hn Mk. destruct (q_entry cp c p q fin Hr _ _ Hq) as [pg' [Hpg' Htf]]. rewrite Hpg in Hpg'. injection Hpg' as <-.
    apply (q_def_keep matches cp c p q fin Hwf Hm Hr Hres Hocc Hkinds _ _ _ _ Hq).
    unfold trim_file in Htf. apply TrimFacts.bind_ok in Htf. destruct Htf as [incs [_ Htf]]. injection Htf as <-.
    unfold file_defs. cbn [f_services]. rewrite !in_app_iff. right. right. right. right.
    apply in_map_iff. exists (trim_service c fin G (j, b)). split.
    - unfold trim_service. cbn [fst snd]. destruct (in_ext fin G j); reflexivity.
    - apply in_map. apply filter_In. split; [apply indexed_In; exact Hn | exact Mk].
  Qed.

  Lemma service_kind k : is_service_kind k = true -> k = DkService.
  Proof. destruct k as [t| |vs|s|]; cbn; try discriminate; [destruct s; discriminate | reflexivity]. Qed.

  Theorem trimmed_base_ok F qf : In (F, qf) q -> forallb (base_ok q F qf) (f_services qf) = true.
  Proof.
    intros Hq. destruct (q_entry cp c p q fin Hr _ _ Hq) as [pf [Hpf Htf]].
    destruct (mark_ast_final matches cp c p (wf_types _ Hwf) (wf_below _ Hwf) _ _ Hm) as [_ _ Hsvc _].
    pose proof (p_file_ok matches cp c p q fin Hwf Hm Hr Hres Hocc Hkinds _ _ Hpf) as Hok. unfold file_ok in Hok.
    rewrite !andb_true_iff in Hok. destruct Hok as [[[_ Hb] _] _]. rewrite forallb_forall in Hb.
    apply forallb_forall. intros sv Hsvin.
    pose proof Htf as Htf0.
    unfold trim_file in Htf. apply TrimFacts.bind_ok in Htf. destruct Htf as [incs [_ Htf]].
    assert (f_services qf = map (trim_service c fin F)
              (filter (fun is => marked fin (NService F (fst is))) (indexed (f_services pf)))) as Es
      by (injection Htf as <-; reflexivity).
    rewrite Es in Hsvin. apply in_map_iff in Hsvin. destruct Hsvin as [[i s0] [<- Hin]].
    apply filter_In in Hin. destruct Hin as [Hi Mk]. apply indexed_In in Hi. cbn [fst] in Mk.
    pose proof (nth_error_In _ _ Hi) as Hs0.
    specialize (Hb _ Hs0). specialize (Hsv _ _ _ Hpf Hs0).
    destruct (Hsvc Hnf _ _ Mk _ _ Hpf Hi) as [_ Hbase].
    unfold trim_service. cbn [fst snd].
    destruct (in_ext fin F i); unfold base_ok; cbn [sv_extends]; [reflexivity|].
    unfold base_ok in Hb.
    destruct (split_type (sv_extends s0)) as [|a [|m [|? ?]]] eqn:Sn; try reflexivity.
    - (* a base service of the same file *)
      destruct (def_of p F a) as [[| | | |]|] eqn:Dk; try discriminate.
      pose proof (split_type_single _ _ Sn) as Ea. subst a.
      destruct (service_entry _ _ _ Hpf Dk) as [b [Hbin Hbn]].
      assert (beqb (sv_name b) (sv_extends s0) = true) as Hbb by (rewrite Hbn; apply beqb_refl).
      destruct (find_index_from_complete (fun x => beqb (sv_name x) (sv_extends s0)) (f_services pf) 0 b Hbin Hbb) as [j [b' Hfi]].
      pose proof (find_index_some _ _ _ _ Hfi) as [Hnj Hbj]. apply beqb_true in Hbj.
      assert (base_of p F s0 = Some (NService F j, [])) as Hbo.
      { unfold base_of. destruct (sv_extends s0) eqn:Ee; [discriminate Sn|]. rewrite <- Ee in *. rewrite Hpf, Hsv.
        unfold find_index. rewrite Hfi. reflexivity. }
      destruct (Hbase _ _ Hbo) as [Mb _].
      rewrite <- Hbj. rewrite (service_kept _ _ _ _ _ Hq Hpf Hnj Mb). reflexivity.
    - (* a base service written through an include *)
      destruct (spec_include p is_service_kind a m (file_incs pf) 0) as [[i0 gn]|] eqn:Hs; [|discriminate].
      destruct Hsv as [i1 [gn1 [E1 Hrf]]]. injection E1 as <- <-.
      destruct (spec_include_nth _ _ _ _ _ _ _ _ Hs) as [_ [_ [k [Dk Ok]]]]. apply service_kind in Ok. subst k.
      pose proof (spec_include_file p _ _ _ _ _ _ _ Hpf Hs) as Hif.
      assert (exists tf, prog_file p gn = Some tf) as [tf Htfile].
      { unfold def_of in Dk. destruct (prog_file p gn); [eauto | discriminate]. }
      destruct (service_entry _ _ _ Htfile Dk) as [b [Hbin Hbn]].
      assert (beqb (sv_name b) m = true) as Hbb by (rewrite Hbn; apply beqb_refl).
      destruct (find_index_from_complete (fun x => beqb (sv_name x) m) (f_services tf) 0 b Hbin Hbb) as [j [b' Hfi]].
      pose proof (find_index_some _ _ _ _ Hfi) as [Hnj Hbj]. apply beqb_true in Hbj.
      assert (base_of p F s0 = Some (NService gn j, [NInclude F i0])) as Hbo.
      { unfold base_of. destruct (sv_extends s0) eqn:Ee; [discriminate Sn|]. rewrite <- Ee in *. rewrite Hpf, Hrf.
        cbn [ref_index ref_name]. rewrite Hif, Htfile. unfold find_index. rewrite Hfi. reflexivity. }
      destruct (Hbase _ _ Hbo) as [Mb Mv].
      assert (marked fin (NInclude F i0) = true) as Mi by (apply Mv; left; reflexivity).
      destruct (include_kept cp c p q fin Hr _ _ _ _ _ Hq Hpf Hif Mi) as [_ [gq Hgq]].
      pose proof (service_kept _ _ _ _ _ Hgq Htfile Hnj Mb) as Dq. rewrite Hbj in Dq.
      destruct (q_spec_include matches cp c p q fin Hwf Hm Hr Hres Hocc Hkinds _ _ _ is_service_kind _ _ _ _ Hq Hpf Hs Mi
                  (ex_intro _ DkService (conj Dq eq_refl))) as [i' Hs'].
      rewrite Hs'. reflexivity.
  Qed.
End BaseOk.


(* ==================================================================== *)
Section Final.
  Variable matches : bytes -> bytes -> bool.
  Variable cp : bytes -> bool.
  Variable c : cfg.
  Variable p q : program.
  Variable fin : mstate.
  Hypothesis Hwf : wf p.
  Hypothesis Hm : mark_ast matches cp c p (prog_size p) = Ok fin.
  Hypothesis Hr : reach cp c p false (prog_size p) fin (main_name p) [] = Ok q.
  Hypothesis Hres : resolvable p = true.
  Hypothesis Hocc : forall fn f, prog_file p fn = Some f -> forall t, In t (file_occs f) -> occ_good p fn f t.
  Hypothesis Hkinds : forall fn f k s, prog_file p fn = Some f -> In s (sl_list k f) -> sl_category s = k.

  (* every configuration: the include-depth hypothesis is discharged *)
  Theorem trim_resolves_given_bases_and_idents :
    (forall F qf, In (F, qf) q -> forallb (base_ok q F qf) (f_services qf) = true) ->
    (forall F qf, In (F, qf) q -> forallb (cv_idents_ok (ident_ok q F)) (file_top_const_values qf) = true) ->
    resolvable q = true /\ exists r, Idl.Resolve.resolve_program q = Idl.Resolve.Ok r.
  Proof.
    intros Hbase Hid.
    eapply (trim_resolves_with matches cp c p q fin Hwf Hm Hr Hres Hocc Hkinds); [|exact Hbase | exact Hid].
    eapply trimmed_includes_ok; eauto.
  Qed.

  (* without a method filter the base services are discharged as well; what remains is the
     hypothesis on identifiers used as values *)
  Theorem trim_resolves_no_filter :
    filtering c = false ->
    (forall fn f s, prog_file p fn = Some f -> In s (f_services f) ->
       match split_type (sv_extends s) with
       | [pre; m] => exists i gn, spec_include p is_service_kind pre m (file_incs f) 0 = Some (i, gn) /\
                                  sv_ref s = Some (Ref m (Z.of_nat i))
       | _ => sv_ref s = None
       end) ->
    (forall F qf, In (F, qf) q -> forallb (cv_idents_ok (ident_ok q F)) (file_top_const_values qf) = true) ->
    resolvable q = true /\ exists r, Idl.Resolve.resolve_program q = Idl.Resolve.Ok r.
  Proof.
    intros Hnf Hsv Hid. apply trim_resolves_given_bases_and_idents; [|exact Hid].
    intros F qf Hq. eapply (trimmed_base_ok matches cp c p q fin Hwf Hm Hr Hres Hocc Hkinds Hnf Hsv); exact Hq.
  Qed.
End Final.


(* ==================================================================== *)
(* ---------------------------------------------------------------- identifiers used as values *)

Lemma denotes_enum_def P :
  (forall fn n d, def_denotes P fn n d -> forall efn x, d = TEnum efn x -> exists vs, def_of P efn x = Some (DkEnum vs)) /\
  (forall fn n d, name_denotes P fn n d -> forall efn x, d = TEnum efn x -> exists vs, def_of P efn x = Some (DkEnum vs)).
Proof.
  apply (denotes_mutind P
           (fun fn n d => forall efn x, d = TEnum efn x -> exists vs, def_of P efn x = Some (DkEnum vs))
           (fun fn n d => forall efn x, d = TEnum efn x -> exists vs, def_of P efn x = Some (DkEnum vs))).
  - intros fn n vs Hd efn x [= <- <-]. eauto.
  - intros fn n k Hd efn x E. discriminate.
  - intros fn n tgt d Hd _ IH. exact IH.
  - intros fn n c0 Hb efn x E. discriminate.
  - intros fn n a d Hb Hs _ IH. exact IH.
  - intros fn f n pre m i gn d Hb Hs Hf Hi _ IH. exact IH.
Qed.

Lemma denote_fuel_S P : exists k, denote_fuel P = S (S k).
Proof. unfold denote_fuel. eexists. rewrite Nat.add_comm. reflexivity. Qed.

Lemma denote_builtin k P fn n cb : builtin_category n = Some cb -> denote (S k) P fn n = Some (TBuiltin cb).
Proof. intros H. cbn [denote]. rewrite H. reflexivity. Qed.

Section Idents.
  Variable matches : bytes -> bytes -> bool.
  Variable cp : bytes -> bool.
  Variable c : cfg.
  Variable p q : program.
  Variable fin : mstate.
  Hypothesis Hwf : wf p.
  Hypothesis Hm : mark_ast matches cp c p (prog_size p) = Ok fin.
  Hypothesis Hr : reach cp c p false (prog_size p) fin (main_name p) [] = Ok q.
  Hypothesis Hres : resolvable p = true.
  Hypothesis Hocc : forall fn f, prog_file p fn = Some f -> forall t, In t (file_occs f) -> occ_good p fn f t.
  Hypothesis Hkinds : forall fn f k s, prog_file p fn = Some f -> In s (sl_list k f) -> sl_category s = k.

  Let keep_always := q_def_keep_always matches cp c p q fin Hwf Hm Hr Hres Hocc Hkinds.
  Let def_sub := q_def_sub' matches cp c p q fin Hwf Hm Hr Hres Hocc Hkinds.

  (* definitions that are never deleted are the same in both programs, for a file of the output *)
  Lemma def_always G gq k : In (G, gq) q -> (forall s, k <> DkStruct s) -> k <> DkService ->
    forall a, def_of q G a = Some k <-> def_of p G a = Some k.
  Proof.
    intros Hq H1 H2 a. split; [apply def_sub|].
    intros Hd. destruct (q_entry cp c p q fin Hr _ _ Hq) as [pg [Hpg _]]. eapply keep_always; eauto.
  Qed.

  Lemma const_count_q G gq v : In (G, gq) q -> const_count q G v = const_count p G v.
  Proof.
    intros Hq. unfold const_count.
    destruct (def_of p G v) as [k|] eqn:Dp.
    - destruct (def_of q G v) as [k'|] eqn:Dq.
      + apply def_sub in Dq. rewrite Dp in Dq. injection Dq as ->. reflexivity.
      + destruct k; try reflexivity.
        assert (def_of q G v = Some DkConst) as X; [|congruence].
        apply (def_always G gq DkConst Hq); [intros; discriminate | discriminate | exact Dp].
    - destruct (def_of q G v) as [k'|] eqn:Dq; [|reflexivity]. apply def_sub in Dq. congruence.
  Qed.
End Idents.


(* ==================================================================== *)
Section Idents2.
  Variable matches : bytes -> bytes -> bool.
  Variable cp : bytes -> bool.
  Variable c : cfg.
  Variable p q : program.
  Variable fin : mstate.
  Hypothesis Hwf : wf p.
  Hypothesis Hm : mark_ast matches cp c p (prog_size p) = Ok fin.
  Hypothesis Hr : reach cp c p false (prog_size p) fin (main_name p) [] = Ok q.
  Hypothesis Hres : resolvable p = true.
  Hypothesis Hocc : forall fn f, prog_file p fn = Some f -> forall t, In t (file_occs f) -> occ_good p fn f t.
  Hypothesis Hkinds : forall fn f k s, prog_file p fn = Some f -> In s (sl_list k f) -> sl_category s = k.

  Let def_sub := q_def_sub' matches cp c p q fin Hwf Hm Hr Hres Hocc Hkinds.
  Let always G gq k := def_always matches cp c p q fin Hwf Hm Hr Hres Hocc Hkinds G gq k.

  (* the enum a definition of a file of the output stands for is the same in both programs *)
  Lemma enum_values_of_q G gq e : In (G, gq) q -> enum_values_of q G e = enum_values_of p G e.
  Proof.
    intros Hq. destruct (q_entry cp c p q fin Hr _ _ Hq) as [pg [Hpg Htf]].
    destruct (denote_fuel_S p) as [kp Ep]. destruct (denote_fuel_S q) as [kq Eq].
    unfold enum_values_of, denote_def.
    destruct (def_of p G e) as [[tgt| |vs|s|]|] eqn:Dp.
    - (* typedef *)
      assert (def_of q G e = Some (DkTypedef tgt)) as Dq
        by (apply (always G gq (DkTypedef tgt) Hq); [intros; discriminate | discriminate | exact Dp]).
      rewrite Dq.
      destruct (typedef_entry p _ _ _ _ Hpg Dp) as [td [Htd [Ea Et]]].
      destruct (typedef_occ matches cp c p fin Hwf Hm _ _ _ Hpg Htd) as [Ho Hmk].
      destruct (builtin_category tgt) as [cb|] eqn:Bn.
      + rewrite Ep, Eq. rewrite !(denote_builtin _ _ _ _ _ Bn). reflexivity.
      + (* the typedef's type is accepted in the input: it denotes something *)
        pose proof (p_file_ok matches cp c p q fin Hwf Hm Hr Hres Hocc Hkinds _ _ Hpg) as Hok. unfold file_ok in Hok.
        rewrite !andb_true_iff in Hok. destruct Hok as [[[[_ Hty] _] _] _]. rewrite forallb_forall in Hty.
        assert (In (td_type td) (file_top_occs pg)) as Htop
          by (unfold file_top_occs; apply in_or_app; left; apply in_map; exact Htd).
        specialize (Hty _ Htop). destruct (td_type td) as [n0 k0 v0 c0 an0 cat0 r0 t0] eqn:Etd. cbn [ty_name] in Et. subst n0.
        cbn [ty_ok] in Hty. rewrite Bn in Hty. destruct k0; [discriminate|]. destruct v0; [discriminate|].
        apply denotes_b_iff in Hty. destruct Hty as [d0 Hd0].
        pose proof (denote_complete _ _ _ _ Hd0) as Rp.
        assert (name_denotes q G tgt d0) as Hq0.
        { eapply (den matches cp c p q fin Hwf Hm Hr Hres Hocc Hkinds);
            [exact Rp | exact Hq | exact Hpg | exact Ho | reflexivity | exact Hmk]. }
        pose proof (denote_complete _ _ _ _ Hq0) as Rq. rewrite Rp, Rq.
        destruct d0 as [cb|efn x|efn x s]; try reflexivity.
        destruct (proj2 (denotes_enum_def q) _ _ _ Hq0 efn x eq_refl) as [vs Dv].
        rewrite Dv. rewrite (def_sub _ _ _ Dv). reflexivity.
    - (* constant *)
      assert (def_of q G e = Some DkConst) as Dq
        by (apply (always G gq DkConst Hq); [intros; discriminate | discriminate | exact Dp]).
      rewrite Dq. reflexivity.
    - (* enum *)
      assert (def_of q G e = Some (DkEnum vs)) as Dq
        by (apply (always G gq (DkEnum vs) Hq); [intros; discriminate | discriminate | exact Dp]).
      rewrite Dq, Dp, Dq. reflexivity.
    - destruct (def_of q G e) as [k'|] eqn:Dq; [|reflexivity]. apply def_sub in Dq. rewrite Dp in Dq. injection Dq as <-. reflexivity.
    - destruct (def_of q G e) as [k'|] eqn:Dq; [|reflexivity]. apply def_sub in Dq. rewrite Dp in Dq. injection Dq as <-. reflexivity.
    - destruct (def_of q G e) as [k'|] eqn:Dq; [|reflexivity]. apply def_sub in Dq. congruence.
  Qed.

  Lemma enum_value_count_q G gq e v : In (G, gq) q -> enum_value_count q G e v = enum_value_count p G e v.
  Proof. intros Hq. unfold enum_value_count. rewrite (enum_values_of_q _ _ _ Hq). reflexivity. Qed.

  (* a file without constants, enums and typedefs explains no identifier *)
  Lemma no_cet_counts gn tf : prog_file p gn = Some tf -> has_enum_const_typedef tf = false ->
    (forall v, const_count p gn v = 0) /\ (forall e v, enum_value_count p gn e v = 0).
  Proof.
    intros Htf Hc. unfold has_enum_const_typedef in Hc. apply negb_false_iff in Hc.
    apply andb_true_iff in Hc. destruct Hc as [Hc Ht]. apply andb_true_iff in Hc. destruct Hc as [Hco Hen].
    destruct (f_constants tf) eqn:E1; [|discriminate]. destruct (f_enums tf) eqn:E2; [|discriminate].
    destruct (f_typedefs tf) eqn:E3; [|discriminate].
    assert (forall a k, def_of p gn a = Some k -> (exists s, k = DkStruct s) \/ k = DkService) as Hk.
    { intros a k Hd. unfold def_of in Hd. rewrite Htf in Hd. apply lookup_In in Hd. unfold file_defs in Hd.
      rewrite E1, E2, E3 in Hd. cbn [map app] in Hd. apply in_app_iff in Hd. destruct Hd as [H|H].
      - apply in_map_iff in H. destruct H as [s [[= <- <-] _]]. left. eauto.
      - apply in_map_iff in H. destruct H as [s [[= <- <-] _]]. right. reflexivity. }
    split.
    - intros v. unfold const_count. destruct (def_of p gn v) as [k|] eqn:D; [|reflexivity].
      destruct (Hk _ _ D) as [[s ->]| ->]; reflexivity.
    - intros e v. unfold enum_value_count, enum_values_of, denote_def.
      destruct (def_of p gn e) as [k|] eqn:D; [|reflexivity].
      destruct (Hk _ _ D) as [[s ->]| ->]; reflexivity.
  Qed.
End Idents2.


(* ==================================================================== *)
Definition inc_key (inc : include) : bytes * option bytes := (idl_prefix (in_path inc), in_ref inc).

Lemma sum_incs_filtered (cntp cntq : bytes -> nat) pre (keepf : nat * include -> res bool) :
  forall l incs, filter_res keepf l = Ok incs ->
    (forall x, In x l -> keepf x = Ok false -> forall gn, in_ref (snd x) = Some gn -> cntp gn = 0) ->
    (forall x, In x l -> keepf x = Ok true -> forall gn, in_ref (snd x) = Some gn -> cntq gn = cntp gn) ->
    sum_incs cntq pre (map inc_key (map snd incs)) = sum_incs cntp pre (map inc_key (map snd l)).
Proof.
  induction l as [|x l IH]; intros incs H H0 H1; cbn in H.
  - injection H as <-. reflexivity.
  - apply TrimFacts.bind_ok in H. destruct H as [b [Hb H]]. apply TrimFacts.bind_ok in H. destruct H as [r' [Hr H]]. injection H as <-.
    specialize (IH _ Hr (fun y Hy => H0 y (or_intror Hy)) (fun y Hy => H1 y (or_intror Hy))).
    cbn [map sum_incs]. unfold inc_key at 2. destruct b.
    + cbn [map sum_incs]. unfold inc_key at 1. rewrite IH.
      destruct (beqb (idl_prefix (in_path (snd x))) pre); [|reflexivity].
      destruct (in_ref (snd x)) as [gn|] eqn:Er; [|reflexivity].
      rewrite (H1 x (or_introl eq_refl) Hb gn Er). reflexivity.
    + rewrite IH. destruct (beqb (idl_prefix (in_path (snd x))) pre); [|reflexivity].
      destruct (in_ref (snd x)) as [gn|] eqn:Er; [|reflexivity].
      rewrite (H0 x (or_introl eq_refl) Hb gn Er). reflexivity.
Qed.

Lemma cv_idents_ok_ext ok1 ok2 : (forall s, ok1 s = ok2 s) -> forall c, cv_idents_ok ok1 c = cv_idents_ok ok2 c.
Proof.
  intros He. induction c using const_value_ind'; cbn [cv_idents_ok]; try reflexivity.
  - rewrite He. reflexivity.
  - induction H as [|x l Hx _ IHl]; cbn; [reflexivity|]. rewrite Hx, IHl. reflexivity.
  - induction H as [|[k v] l [Hk Hv] _ IHl]; cbn; [reflexivity|]. cbn in Hk, Hv. rewrite Hk, Hv, IHl. reflexivity.
Qed.

Section Idents3.
  Variable matches : bytes -> bytes -> bool.
  Variable cp : bytes -> bool.
  Variable c : cfg.
  Variable p q : program.
  Variable fin : mstate.
  Hypothesis Hwf : wf p.
  Hypothesis Hm : mark_ast matches cp c p (prog_size p) = Ok fin.
  Hypothesis Hr : reach cp c p false (prog_size p) fin (main_name p) [] = Ok q.
  Hypothesis Hres : resolvable p = true.
  Hypothesis Hocc : forall fn f, prog_file p fn = Some f -> forall t, In t (file_occs f) -> occ_good p fn f t.
  Hypothesis Hkinds : forall fn f k s, prog_file p fn = Some f -> In s (sl_list k f) -> sl_category s = k.

  Let ccq := const_count_q matches cp c p q fin Hwf Hm Hr Hres Hocc Hkinds.
  Let evq := enum_value_count_q matches cp c p q fin Hwf Hm Hr Hres Hocc Hkinds.

  (* the includes of a file of the output, as the kept ones of the input file *)
  Lemma q_incs F qf pf : In (F, qf) q -> prog_file p F = Some pf ->
    exists incs, filter_res (keep_include p fin F) (indexed (f_includes pf)) = Ok incs /\
                 file_incs qf = map inc_key (map snd incs) /\
                 (forall x, In x incs -> forall gn, in_ref (snd x) = Some gn -> exists gq, In (gn, gq) q).
  Proof.
    intros Hq Hpf. destruct (q_entry cp c p q fin Hr _ _ Hq) as [pf' [Hpf' Htf]]. rewrite Hpf in Hpf'. injection Hpf' as <-.
    pose proof Htf as Htf0. unfold trim_file in Htf. apply TrimFacts.bind_ok in Htf. destruct Htf as [incs [Hi Htf]].
    exists incs. split; [exact Hi|]. split.
    - injection Htf as <-. unfold file_incs. cbn [f_includes]. rewrite !map_map. reflexivity.
    - intros x Hx gn Hg.
      pose proof (reach_closed cp c p false _ _ _ _ _ Hr _ Hq) as [[]|Hc].
      assert (In (Include (in_path (snd x)) (in_ref (snd x)) None) (f_includes qf)) as Hin.
      { injection Htf as <-. cbn [f_includes]. apply in_map_iff. exists x. auto. }
      specialize (Hc _ gn Hin Hg). apply in_map_iff in Hc. destruct Hc as [[g' gq] [E Hc]]. cbn in E. subst. eauto.
  Qed.

  Lemma sum_q F qf pf (cntp cntq : bytes -> nat) pre :
    In (F, qf) q -> prog_file p F = Some pf ->
    (forall gn gq, In (gn, gq) q -> cntq gn = cntp gn) ->
    (forall gn tf, prog_file p gn = Some tf -> has_enum_const_typedef tf = false -> cntp gn = 0) ->
    sum_incs cntq pre (file_incs qf) = sum_incs cntp pre (file_incs pf).
  Proof.
    intros Hq Hpf Heq Hzero. destruct (q_incs _ _ _ Hq Hpf) as [incs [Hi [-> Htg]]].
    assert (file_incs pf = map inc_key (map snd (indexed (f_includes pf)))) as -> by (rewrite map_snd_indexed; reflexivity).
    eapply sum_incs_filtered; [exact Hi | |].
    - intros x _ Hk gn Hg. unfold keep_include, include_target in Hk. rewrite Hg in Hk.
      destruct (prog_file p gn) as [tf|] eqn:Htf; [|discriminate]. injection Hk as Hk.
      apply orb_false_iff in Hk. eapply Hzero; [exact Htf | tauto].
    - intros x Hx Hk gn Hg. eapply filter_res_spec in Hi. 
      assert (In x incs) as Hxin by (apply Hi; split; assumption).
      destruct (Htg _ Hxin _ Hg) as [gq Hgq]. eapply Heq; eauto.
  Qed.

  Lemma explanations_q F qf pf s : In (F, qf) q -> prog_file p F = Some pf ->
    explanations q F qf s = explanations p F pf s.
  Proof.
    intros Hq Hpf. unfold explanations. induction (split_value s) as [|ss sss IH]; cbn [fold_right]; [reflexivity|].
    rewrite IH. f_equal. unfold alt_count.
    destruct ss as [|a [|b [|d [|? ?]]]]; try reflexivity.
    - eapply ccq; eauto.
    - rewrite (evq _ _ _ _ Hq). f_equal.
      eapply sum_q; [exact Hq | exact Hpf | intros gn gq Hg; eapply ccq; eauto|].
      intros gn tf Htf Hc. apply (no_cet_counts p _ _ Htf Hc).
    - eapply sum_q; [exact Hq | exact Hpf | intros gn gq Hg; eapply evq; eauto|].
      intros gn tf Htf Hc. apply (no_cet_counts p _ _ Htf Hc).
  Qed.

  Lemma ident_ok_q F qf s : In (F, qf) q -> ident_ok q F s = ident_ok p F s.
  Proof.
    intros Hq. destruct (q_entry cp c p q fin Hr _ _ Hq) as [pf [Hpf _]].
    unfold ident_ok. rewrite (q_file cp c p q fin Hr _ _ Hq), Hpf, (explanations_q _ _ _ _ Hq Hpf). reflexivity.
  Qed.
End Idents3.


(* ==================================================================== *)
Section Idents4.
  Variable matches : bytes -> bytes -> bool.
  Variable cp : bytes -> bool.
  Variable c : cfg.
  Variable p q : program.
  Variable fin : mstate.
  Hypothesis Hwf : wf p.
  Hypothesis Hm : mark_ast matches cp c p (prog_size p) = Ok fin.
  Hypothesis Hr : reach cp c p false (prog_size p) fin (main_name p) [] = Ok q.
  Hypothesis Hres : resolvable p = true.
  Hypothesis Hocc : forall fn f, prog_file p fn = Some f -> forall t, In t (file_occs f) -> occ_good p fn f t.
  Hypothesis Hkinds : forall fn f k s, prog_file p fn = Some f -> In s (sl_list k f) -> sl_category s = k.

  Lemma kept_fields F qf pf fd : trim_file cp c p fin F pf = Ok qf -> In fd (file_fields qf) -> In fd (file_fields pf).
  Proof.
    intros Htf Hin. unfold file_fields in *. rewrite in_app_iff in *. destruct Hin as [Hin|Hin].
    - left. apply in_flat_map' in Hin. destruct Hin as [s [Hs Hfd]]. apply in_flat_map'. exists s. split; [|exact Hfd].
      eapply sub_In; [eapply struct_likes_sub; exact Htf | exact Hs].
    - right. apply in_flat_map' in Hin. destruct Hin as [sv [Hsv Hfd]].
      unfold trim_file in Htf. apply TrimFacts.bind_ok in Htf. destruct Htf as [incs [_ Htf]]. injection Htf as <-.
      cbn [f_services] in Hsv. apply in_map_iff in Hsv. destruct Hsv as [[i s0] [<- Hsv]].
      apply filter_In in Hsv. destruct Hsv as [Hi _]. apply indexed_In in Hi.
      apply in_flat_map'. exists s0. split; [eapply nth_error_In; exact Hi|].
      unfold service_fields in *. apply in_flat_map' in Hfd. destruct Hfd as [fn [Hfn Hfd]].
      apply in_flat_map'. exists fn. split; [|exact Hfd].
      unfold trim_service in Hfn. cbn [fst snd] in Hfn.
      assert (In fn (if filtering c
                     then map snd (filter (fun jf => marked fin (NFunction F i (fst jf))) (indexed (sv_functions s0)))
                     else sv_functions s0)) as Hfn' by (destruct (in_ext fin F i); exact Hfn).
      destruct (filtering c); [|exact Hfn'].
      apply in_map_iff in Hfn'. destruct Hfn' as [[j fn'] [E Hj]]. cbn in E. subst fn'.
      apply filter_In in Hj. destruct Hj as [Hj _]. apply indexed_In in Hj. eapply nth_error_In; eauto.
  Qed.

  (* every identifier used as a value in the output keeps exactly one explanation *)
  Theorem trimmed_idents_ok F qf :
    In (F, qf) q -> forallb (cv_idents_ok (ident_ok q F)) (file_top_const_values qf) = true.
  Proof.
    intros Hq. destruct (q_entry cp c p q fin Hr _ _ Hq) as [pf [Hpf Htf]].
    pose proof (p_file_ok matches cp c p q fin Hwf Hm Hr Hres Hocc Hkinds _ _ Hpf) as Hok. unfold file_ok in Hok.
    rewrite !andb_true_iff in Hok. destruct Hok as [_ Hid]. rewrite forallb_forall in Hid.
    apply forallb_forall. intros cv Hcv.
    rewrite (cv_idents_ok_ext _ _ (fun s => ident_ok_q matches cp c p q fin Hwf Hm Hr Hres Hocc Hkinds F qf s Hq)).
    apply Hid. unfold file_top_const_values in *. rewrite in_app_iff in *.
    destruct (trimmed_shape _ _ _ _ _ _ _ Htf) as [_ [E2 _]].
    destruct Hcv as [Hcv|Hcv]; [left; rewrite <- E2; exact Hcv|]. right.
    apply in_flat_map' in Hcv. destruct Hcv as [fd [Hfd Hd]]. apply in_flat_map'. exists fd.
    split; [eapply kept_fields; eauto | exact Hd].
  Qed.

  (* every configuration: only the base services remain as a hypothesis on the output *)
  Theorem trim_resolves_given_bases :
    (forall F qf, In (F, qf) q -> forallb (base_ok q F qf) (f_services qf) = true) ->
    resolvable q = true /\ exists r, Idl.Resolve.resolve_program q = Idl.Resolve.Ok r.
  Proof.
    intros Hbase.
    apply (trim_resolves_given_bases_and_idents matches cp c p q fin Hwf Hm Hr Hres Hocc Hkinds Hbase).
    apply trimmed_idents_ok.
  Qed.

  (* without a method filter: no hypothesis on the output is left *)
  Theorem trim_resolves_without_filter :
    filtering c = false ->
    (forall fn f s, prog_file p fn = Some f -> In s (f_services f) ->
       match split_type (sv_extends s) with
       | [pre; m] => exists i gn, spec_include p is_service_kind pre m (file_incs f) 0 = Some (i, gn) /\
                                  sv_ref s = Some (Ref m (Z.of_nat i))
       | _ => sv_ref s = None
       end) ->
    resolvable q = true /\ exists r, Idl.Resolve.resolve_program q = Idl.Resolve.Ok r.
  Proof.
    intros Hnf Hsv.
    apply (trim_resolves_no_filter matches cp c p q fin Hwf Hm Hr Hres Hocc Hkinds Hnf Hsv).
    apply trimmed_idents_ok.
  Qed.
End Idents4.


(* ==================================================================== *)
(* ---------------------------------------------------------------- with a method filter: a kept service
   whose `extends` is not cleared has its base service (and the include) marked *)

Lemma in_ext_le a b F i : le a b -> in_ext a F i = true -> in_ext b F i = true.
Proof.
  intros [_ [L _]] H. unfold in_ext in *. apply existsb_exists in H. destruct H as [x [Hx Hb]].
  apply existsb_exists. exists x. split; [apply L; exact Hx | exact Hb].
Qed.
Lemma in_ext_add F i st : in_ext (add_ext F i st) F i = true.
Proof. unfold in_ext, add_ext, ext_eqb. cbn. rewrite beqb_refl, Nat.eqb_refl. reflexivity. Qed.

Section FilterBase.
  Variable matches : bytes -> bytes -> bool.
  Variable cp : bytes -> bool.
  Variable c : cfg.
  Variable p : program.
  Hypothesis Hfilter : filtering c = true.

  Definition good_ext (st : mstate) (F : bytes) (si : nat) (s : service) : Prop :=
    sv_extends s <> [] ->
    in_ext st F si = true \/
    exists b via, base_of p F s = Some (b, via) /\ marked st b = true /\ forall m, In m via -> marked st m = true.

  Lemma good_ext_le a b F si s : le a b -> good_ext a F si s -> good_ext b F si s.
  Proof.
    intros L H Hne. destruct (H Hne) as [H1|[bb [via [Hb [Mb Mv]]]]]; [left; eapply in_ext_le; eauto|].
    right. exists bb, via. split; [exact Hb|]. split; [eapply le_marked; eauto|].
    intros m Hm'. eapply le_marked; [exact L | auto].
  Qed.

  Definition trace_gpost (rec : list bytes -> bytes -> nat -> mstate -> res (mstate * bool)) : Prop :=
    forall fa F si s st st' ret, rec fa F si st = Ok (st', ret) -> service_at p F si s ->
      (ret = true -> marked st' (NService F si) = true) /\ good_ext st' F si s /\
      (forall G gi gs, service_at p G gi gs -> marked st' (NService G gi) = true ->
         marked st (NService G gi) = false -> good_ext st' G gi gs).

  Lemma trace_body_gpost rec fuel :
    (forall fa F si st r, rec fa F si st = Ok r -> le st (fst r)) ->
    trace_gpost rec -> trace_gpost (trace_body matches c p rec fuel).
  Proof.
    intros Hmono Hrec fa F si s st st' ret H Hsa.
    destruct Hsa as [f [Hf Hs]]. unfold trace_body in H. rewrite Hf, Hs in H.
    assert (service_at p F si s) as Hsa by (exists f; auto).
    apply TrimFacts.bind_ok in H. destruct H as [[st1 ret1] [H1 H]].
    apply trace_loop_only in H1. cbn [fst] in H1.
    apply TrimFacts.bind_ok in H. destruct H as [[st3 ret3] [H3 H]].
    (* the end of the function *)
    assert (le st3 st' /\ only_svc F si st3 st' /\ ret = ret3 /\
            (ret3 = true -> marked st' (NService F si) = true /\
                            forall r i tn, sv_ref s = Some r -> include_file p f (ref_index r) = Some (i, tn) ->
                                           marked st' (NInclude F i) = true)) as [L3 [O3 [Er Hend]]].
    { destruct ret3.
      - apply TrimFacts.bind_ok in H. destruct H as [st4 [H4 H]]. injection H as <- <-.
        pose proof (mark_service_include_le _ _ _ _ _ _ H4) as L4.
        split; [eapply le_trans; [apply le_mark | exact L4]|].
        split; [eapply only_svc_trans; [apply only_svc_mark | apply only_svc_same; eapply mark_service_include_services; exact H4]|].
        split; [reflexivity|]. intros _. split; [eapply le_marked; [exact L4|]; apply marked_mark; auto|].
        intros r i tn Hr0 Hi. unfold mark_service_include in H4. rewrite Hr0, Hi in H4. injection H4 as <-.
        apply marked_mark. auto.
      - injection H as <- <-. split; [apply le_refl|]. split; [apply only_svc_refl|]. split; [reflexivity | discriminate]. }
    subst ret.
    destruct (is_nil (sv_extends s)) eqn:Enil.
    - injection H3 as <- <-.
      assert (good_ext st' F si s) as Gs.
      { intros Hne. destruct (sv_extends s); [congruence | discriminate]. }
      split; [intros E; apply Hend; exact E|]. split; [exact Gs|].
      intros G gi gs Hg Hmk H0.
      destruct (O3 _ _ Hmk) as [M1|[-> ->]].
      + destruct (H1 _ _ M1) as [M0|[-> ->]]; [congruence|]. rewrite (service_at_fun _ _ _ _ _ Hg Hsa). exact Gs.
      + rewrite (service_at_fun _ _ _ _ _ Hg Hsa). exact Gs.
    - apply TrimFacts.bind_ok in H3. destruct H3 as [nb [Hb H3]].
      destruct nb as [[[bn bi] b]|]; [|discriminate].
      apply TrimFacts.bind_ok in H3. destruct H3 as [[st2 back] [H2 H3]]. injection H3 as <- <-.
      assert (sv_extends s <> []) as Hne by (apply is_nil_false; exact Enil).
      destruct (base_service_spec p _ _ _ _ _ _ Hf Hne Hb) as [via [Hbo Hvia]].
      pose proof (base_service_at matches cp p _ _ _ _ _ _ Hf Hb) as Hsb.
      pose proof (Hmono _ _ _ _ _ H2) as L2. cbn [fst] in L2.
      destruct (Hrec _ _ _ b _ _ _ H2 Hsb) as [R1 [R2 R3]].
      assert (le st2 st') as L2'.
      { eapply le_trans; [|exact L3]. destruct back; [apply le_refl | apply le_add_ext]. }
      assert (good_ext st' F si s) as Gs.
      { intros _. destruct back.
        - right. exists (NService bn bi), via. split; [exact Hbo|].
          split; [eapply le_marked; [exact L2' | apply R1; reflexivity]|].
          intros m Hm'. destruct (sv_ref s) as [r|] eqn:Er.
          + destruct (Hvia _ eq_refl) as [i [tn [Hi ->]]]. destruct Hm' as [<-|[]].
            destruct (Hend eq_refl) as [_ Hinc]. eapply Hinc; eauto.
          + unfold base_of in Hbo. rewrite Hf, Er in Hbo. destruct (sv_extends s); [congruence|].
            destruct (find_index _ _) as [[? ?]|]; [|discriminate]. inversion Hbo; subst. destruct Hm'.
        - left. eapply in_ext_le; [exact L3 | apply in_ext_add]. }
      split; [intros E; apply Hend; exact E|]. split; [exact Gs|].
      intros G gi gs Hg Hmk H0.
      destruct (O3 _ _ Hmk) as [M3|[-> ->]]; [|rewrite (service_at_fun _ _ _ _ _ Hg Hsa); exact Gs].
      assert (marked st2 (NService G gi) = true) as M2 by (destruct back; exact M3).
      destruct (marked st1 (NService G gi)) eqn:E1.
      + destruct (H1 _ _ E1) as [M0|[-> ->]]; [congruence|]. rewrite (service_at_fun _ _ _ _ _ Hg Hsa). exact Gs.
      + eapply good_ext_le; [exact L2' | apply R3; assumption].
  Qed.

  Lemma trace_gpost_all fuel : trace_gpost (trace matches c p fuel).
  Proof.
    induction fuel as [|n IH]; cbn.
    - intros fa F si s st st' ret H. discriminate.
    - apply trace_body_gpost; [apply trace_le | exact IH].
  Qed.
End FilterBase.


(* ==================================================================== *)
Section FilterBase2.
  Variable matches : bytes -> bytes -> bool.
  Variable cp : bytes -> bool.
  Variable c : cfg.
  Variable p : program.
  Hypothesis Hfilter : filtering c = true.

  Notation good_ext := (good_ext p).

  Definition svc_gpost (rec : bytes -> nat -> mstate -> res mstate) : Prop :=
    forall F si s st st', rec F si st = Ok st' -> service_at p F si s ->
      forall G gi gs, service_at p G gi gs -> marked st' (NService G gi) = true ->
        marked st (NService G gi) = false -> good_ext st' G gi gs.

  Lemma mark_service_body_gpost rec fuel :
    (forall F si st st', rec F si st = Ok st' -> le st st') ->
    svc_gpost rec -> svc_gpost (mark_service_body matches c p rec fuel).
  Proof.
    intros Hmono Hrec F si s st st' H Hsa.
    destruct Hsa as [f [Hf Hs]]. unfold mark_service_body in H. rewrite Hf, Hs in H.
    assert (service_at p F si s) as Hsa by (exists f; auto).
    destruct (marked st (NService F si)) eqn:Em.
    { injection H as <-. intros G gi gs _ H1 H0. congruence. }
    rewrite Hfilter in H. cbv beta iota in H.
    apply TrimFacts.bind_ok in H. destruct H as [st1 [H1 H]].
    apply sloop in H1. destruct H1 as [L1 [O1 _]].
    apply TrimFacts.bind_ok in H. destruct H as [st2 [H2 H]].
    (* traceExtendMethod *)
    assert (le st1 st2 /\ good_ext st2 F si s /\
            (forall G gi gs, service_at p G gi gs -> marked st2 (NService G gi) = true ->
               marked st1 (NService G gi) = false -> good_ext st2 G gi gs)) as [L2 [C2 N2]].
    { destruct (negb (is_nil (sv_extends s)) || negb (is_none (sv_ref s))) eqn:Ee; cbn [andb] in H2.
      - apply TrimFacts.bind_ok in H2. destruct H2 as [[s2 r2] [H2 H3]]. injection H3 as <-. cbn [fst].
        pose proof (trace_le matches c p fuel _ _ _ _ _ H2) as L. cbn [fst] in L.
        destruct (trace_gpost_all matches cp c p fuel _ _ _ s _ _ _ H2 Hsa) as [_ [T2 T3]].
        split; [exact L|]. split; [exact T2 | exact T3].
      - injection H2 as <-. split; [apply le_refl|]. split.
        + intros Hne. apply orb_false_iff in Ee. destruct Ee as [Ee _]. apply negb_false_iff in Ee.
          destruct (sv_extends s); [congruence | discriminate].
        + intros G gi gs _ Hmk H0. congruence. }
    assert (forall st3 nb, le st2 st3 -> same_services st2 st3 ->
              base_service p F f s = Ok nb ->
              match nb with Some (bn, bi, _) => rec bn bi st3 | None => Ok st3 end = Ok st' ->
              le st2 st' /\
              (forall G gi gs, service_at p G gi gs -> marked st' (NService G gi) = true ->
                 marked st2 (NService G gi) = false -> good_ext st' G gi gs)) as Hfin.
    { intros st3 nb L3 S3 Hb Hr. destruct nb as [[[bn bi] b]|].
      - pose proof (Hmono _ _ _ _ Hr) as L4.
        pose proof (Hrec _ _ b _ _ Hr (base_service_at matches cp p _ _ _ _ _ _ Hf Hb)) as N4.
        split; [eapply le_trans; eauto|].
        intros G gi gs Hg Hmk H0. apply N4; [exact Hg | exact Hmk|].
        destruct (marked st3 (NService G gi)) eqn:E; [|reflexivity]. apply S3 in E. congruence.
      - injection Hr as <-. split; [exact L3|]. intros G gi gs _ Hmk H0. apply S3 in Hmk. congruence. }
    assert (le st2 st' /\
            (forall G gi gs, service_at p G gi gs -> marked st' (NService G gi) = true ->
               marked st2 (NService G gi) = false -> good_ext st' G gi gs)) as [L3 N3].
    { destruct (negb (is_nil (sv_extends s)) && marked st2 (NService F si)).
      - destruct (sv_ref s) as [r|].
        + apply TrimFacts.bind_ok in H. destruct H as [st3 [H3 H]].
          apply TrimFacts.bind_ok in H. destruct H as [nb [Hb H]].
          eapply Hfin; [eapply mark_service_include_le; exact H3 | eapply mark_service_include_services; exact H3
                        | exact Hb | exact H].
        + apply TrimFacts.bind_ok in H. destruct H as [nb [Hb H]].
          eapply Hfin; [apply le_refl | apply same_services_refl | exact Hb | exact H].
      - injection H as <-. split; [apply le_refl|]. intros G gi gs _ Hmk H0. congruence. }
    intros G gi gs Hg Hmk H0.
    destruct (marked st2 (NService G gi)) eqn:E2; [|apply N3; assumption].
    eapply good_ext_le; [exact L3|].
    destruct (marked st1 (NService G gi)) eqn:E1; [|apply N2; assumption].
    destruct (O1 _ _ E1) as [M|[-> ->]]; [congruence|].
    rewrite (service_at_fun _ _ _ _ _ Hg Hsa). exact C2.
  Qed.

  Lemma mark_service_gpost fuel : svc_gpost (mark_service matches c p fuel).
  Proof.
    induction fuel as [|n IH]; cbn.
    - intros F si s st st' H. discriminate.
    - apply mark_service_body_gpost; [apply mark_service_le | exact IH].
  Qed.

  (* after markAST with a method filter every marked service is good *)
  Theorem marked_services_good fuel fin :
    mark_ast matches cp c p fuel = Ok fin ->
    forall G gi gs, service_at p G gi gs -> marked fin (NService G gi) = true -> good_ext fin G gi gs.
  Proof.
    intros H. unfold mark_ast in H. destruct (prog_main p) as [f|] eqn:Hm; [|discriminate].
    apply TrimFacts.bind_ok in H. destruct H as [[st1 r1] [H1 H]].
    apply TrimFacts.bind_ok in H. destruct H as [st2 [H2 H]].
    apply TrimFacts.bind_ok in H. destruct H as [[st3 r3] [H3 H]]. injection H as <-. cbn [fst].
    assert (le st1 st2) as L12.
    { revert H2. apply fold_res_rel; [apply le_refl | apply le_trans|]. intros is a b _. apply mark_service_le. }
    destruct (pre_process_cached _ _ _ _ _ _ _ _ H1) as [v Hv].
    assert (st3 = st2) as ->.
    { unfold kept_part in H3. destruct L12 as [_ [_ L]]. rewrite (L _ _ Hv) in H3. congruence. }
    assert (prog_file p (main_name p) = Some f) as Hf.
    { unfold prog_main, main_name, prog_file in *. destruct p as [|[n g] r]; [discriminate|]. injection Hm as ->.
      cbn. rewrite beqb_refl. reflexivity. }
    assert (forall l, (forall is, In is l -> In is (indexed (f_services f))) ->
              forall a b, fold_res (fun (is : nat * service) => mark_service matches c p fuel (main_name p) (fst is)) l a = Ok b ->
              (forall G gi gs, service_at p G gi gs -> marked a (NService G gi) = true -> good_ext a G gi gs) ->
              (forall G gi gs, service_at p G gi gs -> marked b (NService G gi) = true -> good_ext b G gi gs)) as Hl.
    { induction l as [|[j sj] l IH]; intros Hsub a b Hfo Ia; cbn [fold_res] in Hfo.
      - injection Hfo as <-. exact Ia.
      - apply TrimFacts.bind_ok in Hfo. destruct Hfo as [a1 [Hx Hr]]. cbn [fst] in Hx.
        pose proof (Hsub _ (or_introl eq_refl)) as Hj. apply indexed_In in Hj.
        assert (service_at p (main_name p) j sj) as Hsj by (exists f; auto).
        pose proof (mark_service_le matches c p fuel _ _ _ _ Hx) as La.
        pose proof (mark_service_gpost _ _ _ _ _ _ Hx Hsj) as N1.
        eapply IH; [intros; apply Hsub; right; assumption | exact Hr|].
        intros G gi gs Hg Hmk. destruct (marked a (NService G gi)) eqn:E.
        + eapply good_ext_le; [exact La | apply Ia; assumption].
        + apply N1; assumption. }
    eapply Hl; [intros is His; exact His | exact H2|].
    intros G gi gs _ Hmk. apply (pre_process_services _ _ _ _ _ _ _ H1) in Hmk. discriminate.
  Qed.
End FilterBase2.


(* ==================================================================== *)
(* ---------------------------------------------------------------- base services, with a method filter *)

Section BaseOkFilter.
  Variable matches : bytes -> bytes -> bool.
  Variable cp : bytes -> bool.
  Variable c : cfg.
  Variable p q : program.
  Variable fin : mstate.
  Hypothesis Hwf : wf p.
  Hypothesis Hm : mark_ast matches cp c p (prog_size p) = Ok fin.
  Hypothesis Hr : reach cp c p false (prog_size p) fin (main_name p) [] = Ok q.
  Hypothesis Hres : resolvable p = true.
  Hypothesis Hocc : forall fn f, prog_file p fn = Some f -> forall t, In t (file_occs f) -> occ_good p fn f t.
  Hypothesis Hkinds : forall fn f k s, prog_file p fn = Some f -> In s (sl_list k f) -> sl_category s = k.
  Hypothesis Hfilter : filtering c = true.
  Hypothesis Hsv : forall fn f s, prog_file p fn = Some f -> In s (f_services f) ->
    match split_type (sv_extends s) with
    | [pre; m] => exists i gn, spec_include p is_service_kind pre m (file_incs f) 0 = Some (i, gn) /\
                               sv_ref s = Some (Ref m (Z.of_nat i))
    | _ => sv_ref s = None
    end.

  Let service_entry := service_entry p.
  Let service_kept := service_kept matches cp c p q fin Hwf Hm Hr Hres Hocc Hkinds.

  Theorem trimmed_base_ok_filter F qf : In (F, qf) q -> forallb (base_ok q F qf) (f_services qf) = true.
  Proof.
    intros Hq. destruct (q_entry cp c p q fin Hr _ _ Hq) as [pf [Hpf Htf]].
    pose proof (p_file_ok matches cp c p q fin Hwf Hm Hr Hres Hocc Hkinds _ _ Hpf) as Hok. unfold file_ok in Hok.
    rewrite !andb_true_iff in Hok. destruct Hok as [[[_ Hb] _] _]. rewrite forallb_forall in Hb.
    apply forallb_forall. intros sv Hsvin.
    pose proof Htf as Htf0.
    unfold trim_file in Htf. apply TrimFacts.bind_ok in Htf. destruct Htf as [incs [_ Htf]].
    assert (f_services qf = map (trim_service c fin F)
              (filter (fun is => marked fin (NService F (fst is))) (indexed (f_services pf)))) as Es
      by (injection Htf as <-; reflexivity).
    rewrite Es in Hsvin. apply in_map_iff in Hsvin. destruct Hsvin as [[i s0] [<- Hin]].
    apply filter_In in Hin. destruct Hin as [Hi Mk]. apply indexed_In in Hi. cbn [fst] in Mk.
    pose proof (nth_error_In _ _ Hi) as Hs0.
    specialize (Hb _ Hs0). specialize (Hsv _ _ _ Hpf Hs0).
    unfold trim_service. cbn [fst snd].
    destruct (in_ext fin F i) eqn:Eext; unfold base_ok; cbn [sv_extends]; [reflexivity|].
    assert (forall b via, base_of p F s0 = Some (b, via) -> marked fin b = true /\ forall m, In m via -> marked fin m = true) as Hbase.
    { intros b via Hbo.
      assert (sv_extends s0 <> []) as Hne by (intros E; unfold base_of in Hbo; rewrite E in Hbo; discriminate).
      destruct (marked_services_good matches cp c p Hfilter _ _ Hm F i s0 (ex_intro _ pf (conj Hpf Hi)) Mk Hne)
        as [E|[b' [via' [Hbo' [Mb Mv]]]]]; [congruence|].
      rewrite Hbo in Hbo'. injection Hbo' as <- <-. auto. }
    unfold base_ok in Hb.
    destruct (split_type (sv_extends s0)) as [|a [|m [|? ?]]] eqn:Sn; try reflexivity.
    - (* a base service of the same file *)
      destruct (def_of p F a) as [[| | | |]|] eqn:Dk; try discriminate.
      pose proof (split_type_single _ _ Sn) as Ea. subst a.
      destruct (service_entry _ _ _ Hpf Dk) as [b [Hbin Hbn]].
      assert (beqb (sv_name b) (sv_extends s0) = true) as Hbb by (rewrite Hbn; apply beqb_refl).
      destruct (find_index_from_complete (fun x => beqb (sv_name x) (sv_extends s0)) (f_services pf) 0 b Hbin Hbb) as [j [b' Hfi]].
      pose proof (find_index_some _ _ _ _ Hfi) as [Hnj Hbj]. apply beqb_true in Hbj.
      assert (base_of p F s0 = Some (NService F j, [])) as Hbo.
      { unfold base_of. destruct (sv_extends s0) eqn:Ee; [discriminate Sn|]. rewrite <- Ee in *. rewrite Hpf, Hsv.
        unfold find_index. rewrite Hfi. reflexivity. }
      destruct (Hbase _ _ Hbo) as [Mb _].
      rewrite <- Hbj. rewrite (service_kept _ _ _ _ _ Hq Hpf Hnj Mb). reflexivity.
    - (* a base service written through an include *)
      destruct (spec_include p is_service_kind a m (file_incs pf) 0) as [[i0 gn]|] eqn:Hs; [|discriminate].
      destruct Hsv as [i1 [gn1 [E1 Hrf]]]. injection E1 as <- <-.
      destruct (spec_include_nth _ _ _ _ _ _ _ _ Hs) as [_ [_ [k [Dk Ok]]]]. apply service_kind in Ok. subst k.
      pose proof (spec_include_file p _ _ _ _ _ _ _ Hpf Hs) as Hif.
      assert (exists tf, prog_file p gn = Some tf) as [tf Htfile].
      { unfold def_of in Dk. destruct (prog_file p gn); [eauto | discriminate]. }
      destruct (service_entry _ _ _ Htfile Dk) as [b [Hbin Hbn]].
      assert (beqb (sv_name b) m = true) as Hbb by (rewrite Hbn; apply beqb_refl).
      destruct (find_index_from_complete (fun x => beqb (sv_name x) m) (f_services tf) 0 b Hbin Hbb) as [j [b' Hfi]].
      pose proof (find_index_some _ _ _ _ Hfi) as [Hnj Hbj]. apply beqb_true in Hbj.
      assert (base_of p F s0 = Some (NService gn j, [NInclude F i0])) as Hbo.
      { unfold base_of. destruct (sv_extends s0) eqn:Ee; [discriminate Sn|]. rewrite <- Ee in *. rewrite Hpf, Hrf.
        cbn [ref_index ref_name]. rewrite Hif, Htfile. unfold find_index. rewrite Hfi. reflexivity. }
      destruct (Hbase _ _ Hbo) as [Mb Mv].
      assert (marked fin (NInclude F i0) = true) as Mi by (apply Mv; left; reflexivity).
      destruct (include_kept cp c p q fin Hr _ _ _ _ _ Hq Hpf Hif Mi) as [_ [gq Hgq]].
      pose proof (service_kept _ _ _ _ _ Hgq Htfile Hnj Mb) as Dq. rewrite Hbj in Dq.
      destruct (q_spec_include matches cp c p q fin Hwf Hm Hr Hres Hocc Hkinds _ _ _ is_service_kind _ _ _ _ Hq Hpf Hs Mi
                  (ex_intro _ DkService (conj Dq eq_refl))) as [i' Hs'].
      rewrite Hs'. reflexivity.
  Qed.
End BaseOkFilter.

Section AllConfigurations.
  Variable matches : bytes -> bytes -> bool.
  Variable cp : bytes -> bool.
  Variable c : cfg.
  Variable p q : program.
  Variable fin : mstate.
  Hypothesis Hwf : wf p.
  Hypothesis Hm : mark_ast matches cp c p (prog_size p) = Ok fin.
  Hypothesis Hr : reach cp c p false (prog_size p) fin (main_name p) [] = Ok q.
  Hypothesis Hres : resolvable p = true.
  Hypothesis Hocc : forall fn f, prog_file p fn = Some f -> forall t, In t (file_occs f) -> occ_good p fn f t.
  Hypothesis Hkinds : forall fn f k s, prog_file p fn = Some f -> In s (sl_list k f) -> sl_category s = k.
  Hypothesis Hsv : forall fn f s, prog_file p fn = Some f -> In s (f_services f) ->
    match split_type (sv_extends s) with
    | [pre; m] => exists i gn, spec_include p is_service_kind pre m (file_incs f) 0 = Some (i, gn) /\
                               sv_ref s = Some (Ref m (Z.of_nat i))
    | _ => sv_ref s = None
    end.

  (* trim_resolves, every configuration, no hypothesis on the output *)
  Theorem trim_resolves :
    resolvable q = true /\ exists r, Idl.Resolve.resolve_program q = Idl.Resolve.Ok r.
  Proof.
    destruct (filtering c) eqn:Ef.
    - apply (trim_resolves_given_bases matches cp c p q fin Hwf Hm Hr Hres Hocc Hkinds).
      intros F qf Hq. eapply (trimmed_base_ok_filter matches cp c p q fin Hwf Hm Hr Hres Hocc Hkinds Ef Hsv); exact Hq.
    - apply (trim_resolves_without_filter matches cp c p q fin Hwf Hm Hr Hres Hocc Hkinds Ef Hsv).
  Qed.
End AllConfigurations.
