"""C17 — dumping an AST to IDL text and parsing it back gives the same IDL (tool/trimmer/dump)."""
import json
import os
import vlib


class S(vlib.Spec):
    prop = "C17"
    design_ref = "DESIGN.md section 3 / C17"
    coq_targets = ["Props/C17.vo", "Corr/C17.vo", "Corr/C17Domain.vo"]
    props_file = "Props/C17.v"
    harness_pkg = "./cmd/c17"
    harness_name = "c17"
    corr_codes = {1, 5, 6, 8, 9, 30}
    code_names = {
        1: "tokens of the model's dump differ from the tokens of the text DumpIDL wrote",
        5: "the re-parsed AST differs from dump_view (up to comments)",
        6: "parser model and real parser disagree on the dumped text",
        8: "fmt_ok fails on a double text strconv produced",
        30: "the file of the re-read dumped tree differs from relink a (dump_view a), the file of dumped_program",
        2: "DumpIDL failed or the trimmer did not write the file",
        3: "the parser rejects the dumped text",
        4: "an AST with nothing to print is dumped as the empty text, which the parser rejects (fixed by 6a3edb3)",
        7: "the semantic pass accepts the original program and rejects the dumped one",
        10: "includes differ", 11: "cpp_include differ", 12: "namespaces differ",
        13: "an annotation key/value list differs", 14: "definitions differ (number, kind, order, name)",
        15: "a type expression differs", 16: "a field id differs", 17: "a requiredness differs",
        18: "a default value was lost", 19: "a string literal changed", 20: "a number changed",
        21: "a constant value differs (identifier, list/map shape, default added)",
        22: "an enum value differs", 23: "oneway / void / extends differ",
        24: "fields, arguments, throws, functions or enum values differ in number or name",
    }
    modelled = ("tool/trimmer/dump/dump.go: DumpIDL, typeName, printAnnotation, printComment, printStruct, printField, "
                "printConstTypedValue, quoteLiteral/quoteWith -> coq/Idl/Dump.v (dump, dump_view); the parser side is "
                "coq/Idl/Lex.v + Idl/Parse.v (property C03); hand-written, tied by correspondence on every run: token "
                "stream of the dumped text, re-parsed AST against dump_view, parser model against the real parser, the file the recursive parser returns for the dumped tree against dumped_program")
    trusted_base = [
        "hand-written model coq/Idl/Dump.v (mirrors DumpIDL statement by statement, including white space)",
        "parser model coq/Idl/Lex.v, Idl/Parse.v (owned by C03; every C17 case re-checks it against parser.ParseString on the dumped text)",
        "strconv.FormatFloat(v,'g',-1,64) enters as a Section variable; the theorems assume fmt_ok for the doubles of the file, and the correspondence evaluates fmt_ok (through C03's double_value model of strconv.ParseFloat) on every double text the implementation printed",
        "strings.TrimSpace on a recorded comment is modelled for ASCII white space only (the parser's comments start with a slash)",
        "harness/cmd/c17 (drives dump.DumpIDL, parser.ParseString, semantic.Checker/ResolveSymbols in-process and the trimmer binary in thorough tier), harness/idlgen (program generator), harness/astdump + idlast (Go AST -> Coq term), harness/coqfmt, lib/vlib.py",
    ]
    assumptions = ["source bytes are valid UTF-8 (the Go parser works on runes; the models on bytes)",
                   "C05's Idl/Resolve.v models semantic.ResolveSymbols (tied by the C05 check); semantic.Checker.CheckAll has no model and is only checked on the implementation (code 7)",
                   "generated programs use no keyword as a name"]

    def producer_args(self, ctx):
        args = ["-seed", str(ctx.seed), "-tier", ctx.tier, "-out", ctx.out]
        if ctx.tier == "thorough":
            os.makedirs(vlib.BIN, exist_ok=True)
            trimmer = os.path.join(vlib.BIN, "trimmer")
            with vlib.Lock("go"):
                rc, out = vlib.sh(["go", "build", "-o", trimmer, "./tool/trimmer"], cwd=vlib.REPO, timeout=900)
            if rc != 0:
                raise RuntimeError("trimmer build failed: " + out[-2000:])
            args += ["-trimmer", trimmer]
        return args

    def extra_checks(self, ctx):
        """Measure how many cases lie inside the theorem domains (dump_ok, view_ok): a figure for
        the evidence, not a verdict."""
        import concurrent.futures
        import re
        shards = ctx.meta.get("shards", [])
        # a sample is enough for the figure: 3 shards in quick, every second shard (at most 50) in thorough
        shards = shards[:3] if ctx.tier == "quick" else shards[::2][:50]

        def one(s):
            f = os.path.join(ctx.out, "dom_" + s + ".v")
            with open(f, "w") as fh:
                fh.write("From Coq Require Import NArith List.\nFrom Verif Require Import Corr.C17 Corr.C17Domain.\nRequire Import %s.\n"
                         "Definition D := Eval vm_compute in (domain_counts %s.cases).\nPrint D.\n" % (s, s))
            rc, out = vlib.sh(["coqc", "-Q", vlib.COQ, "Verif", os.path.basename(f)], cwd=ctx.out, timeout=900)
            m = re.search(r"D = \((\d+)%N, (\d+)%N, (\d+)%N, (\d+)%N, (\d+)%N\)", " ".join(out.split()))
            return tuple(int(x) for x in m.groups()) if (rc == 0 and m) else None

        tot = [0, 0, 0, 0, 0]
        failed = 0
        with concurrent.futures.ThreadPoolExecutor(max_workers=4) as ex:
            for r in ex.map(one, shards):
                if r is None:
                    failed += 1
                else:
                    tot = [a + b for a, b in zip(tot, r)]
        st = ctx.meta.setdefault("stats", {})
        st["cases_in_domain_of_parse_dump(dump_ok)"] = tot[0]
        st["cases_in_domain_of_dump_view_equal(view_ok)"] = tot[1]
        st["cases_in_domain_of_roundtrip(both)"] = tot[2]
        st["cases_in_domain_of_lex_dump(lex_ok)"] = tot[3]
        st["cases_satisfying_parsed_ok(dump_passes_semantic)"] = tot[4]
        st["domain_cases_evaluated"] = "the cases of %d of %d shards" % (len(shards) - failed, len(ctx.meta.get("shards", [])))
        st["domain_shards_evaluated"] = len(shards) - failed
        st["domain_shards_not_evaluated"] = failed
        return []

    def classify(self, code, case):
        case = case or {}
        if code == 4:
            return "C17-empty-file-not-document"
        if code == 7 and case.get("empty_text_in_program"):
            # same root cause seen through the whole-program re-read
            return "C17-empty-file-not-document"
        names = {2: "dump-failed", 3: "dumped-text-rejected-by-parser", 7: "dumped-program-rejected-by-semantic-pass",
                 10: "includes-differ", 11: "cpp-include-differ", 12: "namespaces-differ", 13: "annotations-differ",
                 14: "definitions-differ", 15: "type-expression-differs", 16: "field-id-differs",
                 17: "requiredness-differs", 18: "default-value-lost", 19: "string-literal-changed",
                 20: "number-changed", 21: "constant-value-differs", 22: "enum-value-differs",
                 23: "oneway-void-extends-differ", 24: "members-differ"}
        return "C17-" + names.get(code, "code-%d" % code)


def run(tier):
    return vlib.standard_run(S(), tier)


def replay(path):
    obj = json.load(open(path))
    print(json.dumps(obj, indent=1)[:6000])
    return 0
