(* Idl/DumpResolveFacts.v — property C17, part 7: the program re-read from the dumped texts
   passes symbol resolution (Idl/Resolve.v, property C05) whenever the original does.
   Resolution does not look at recorded comments, cpp_type, or the spelling of numbers:
   [resolve_program] commutes with the transformation [sem_view] that the dumper applies. *)
From Coq Require Import List Bool NArith ZArith Lia Arith.
From Coq.Strings Require Import Byte.
From Verif Require Import Base.Bytes Idl.Ast Idl.AstUtil Idl.AstFacts Idl.Lex Idl.Parse Idl.Resolve Idl.ResolveLemmas
  Idl.Dump Idl.DumpFacts.
Import ListNotations.
Local Open Scope resolve_scope.

(* ---------------------------------------------------------------- the result monad *)
Definition rmap {A B} (h : A -> B) (r : result A) : result B :=
  match r with Ok a => Ok (h a) | Error e => Error e end.

Lemma bind_rmap {A B C} (h : A -> B) (r : result A) (k : B -> result C) :
  bind (rmap h r) k = bind r (fun a => k (h a)).
Proof. destruct r; reflexivity. Qed.
Lemma rmap_bind {A B C} (h : B -> C) (r : result A) (k : A -> result B) :
  rmap h (bind r k) = bind r (fun a => rmap h (k a)).
Proof. destruct r; reflexivity. Qed.
Lemma bind_ext {A B} (r : result A) (k k' : A -> result B) : (forall a, k a = k' a) -> bind r k = bind r k'.
Proof. intro H. destruct r; cbn; auto. Qed.

Lemma mapM_map {A A' B B'} (f : A -> result B) (f' : A' -> result B') (h : A -> A') (h' : B -> B') l :
  (forall x, In x l -> f' (h x) = rmap h' (f x)) -> mapM f' (map h l) = rmap (map h') (mapM f l).
Proof.
  induction l as [|x r IH]; intro H; [reflexivity|].
  cbn [map mapM]. rewrite (H x (or_introl eq_refl)), bind_rmap, rmap_bind. apply bind_ext. intro y.
  rewrite IH by (intros z Hz; apply H; right; exact Hz).
  rewrite bind_rmap, rmap_bind. apply bind_ext. intro ys. reflexivity.
Qed.

Lemma find_by_map {A} (key : A -> bytes) (h : A -> A) k l :
  (forall x, key (h x) = key x) -> find_by key k (map h l) = option_map h (find_by key k l).
Proof.
  intro H. induction l as [|x r IH]; [reflexivity|]. cbn [map find_by]. rewrite H.
  destruct (beqb (key x) k); [reflexivity | exact IH].
Qed.

(* ---------------------------------------------------------------- the transformation *)
Section SemView.
  Variable fmt : N -> bytes.
  Let NC := fun _ : bytes => @nil byte.

  (* cpp_type is not written *)
  Fixpoint cty (t : ty) : ty :=
    match t with
    | Ty n k v _ an c r td =>
      Ty n (match k with Some x => Some (cty x) | None => None end)
           (match v with Some x => Some (cty x) | None => None end) [] an c r td
    end.
  (* a double comes back as the number its text denotes *)
  Fixpoint dv (c : const_value) : const_value :=
    match c with
    | CDouble d => num_view (fmt d)
    | CList l => CList (map dv l)
    | CMap l => CMap (map (fun kv => (dv (fst kv), dv (snd kv))) l)
    | other => other
    end.

  Definition sem_view (f : file) : file := map_file cty dv NC false f.
  Definition sem_view_program (p : program) : program := map (fun e => (fst e, sem_view (snd e))) p.

  Notation T := sem_view.
  Notation Tp := sem_view_program.
  Notation Ttd := (map_typedef cty NC).
  Notation Tfd := (map_field cty dv NC).

  Lemma num_view_leaf text : (exists z, num_view text = CInt z) \/ (exists b, num_view text = CDouble b).
  Proof.
    unfold num_view. destruct (num_token text); eauto. destruct (int_value s); eauto.
  Qed.

  (* ---- what resolution reads from a file is unchanged *)
  Lemma map_include_false i : map_include false i = i.
  Proof. destruct i; reflexivity. Qed.
  Lemma T_includes f : f_includes (T f) = f_includes f.
  Proof. destruct f. cbn. rewrite (map_ext _ (fun i => i) map_include_false). apply map_id. Qed.
  Lemma T_n2c f : n2c_of (T f) = n2c_of f.
  Proof. destruct f. reflexivity. Qed.
  Lemma T_typedefs f : f_typedefs (T f) = map Ttd (f_typedefs f).
  Proof. destruct f. reflexivity. Qed.
  Lemma T_enums f : f_enums (T f) = map (map_enum NC) (f_enums f).
  Proof. destruct f. reflexivity. Qed.
  Lemma T_filename f : f_filename (T f) = f_filename f.
  Proof. destruct f. reflexivity. Qed.

  Lemma T_find_typedef f a : find_typedef (T f) a = option_map Ttd (find_typedef f a).
  Proof. unfold find_typedef. rewrite T_typedefs. apply find_by_map. intros []; reflexivity. Qed.
  Lemma T_find_enum f a : find_enum (T f) a = option_map (map_enum NC) (find_enum f a).
  Proof. unfold find_enum. rewrite T_enums. apply find_by_map. intros []; reflexivity. Qed.

  Lemma Tp_prog_file p fn : prog_file (Tp p) fn = option_map T (prog_file p fn).
  Proof. unfold prog_file, sem_view_program. apply lookup_map_snd. Qed.
  Lemma Tp_lookup p fn : lookup fn (Tp p) = option_map T (lookup fn p).
  Proof. apply lookup_map_snd. Qed.
  Lemma Tp_include_target p i : include_target (Tp p) i = option_map T (include_target p i).
  Proof. unfold include_target. destruct (in_ref i); [apply Tp_prog_file | reflexivity]. Qed.
  Lemma Tp_reference_target p f r : reference_target (Tp p) (T f) r = option_map T (reference_target p f r).
  Proof.
    unfold reference_target, nth_include. rewrite T_includes.
    destruct (ref_index r <? 0)%Z; [reflexivity|].
    destruct (nth_error (f_includes f) (Z.to_nat (ref_index r))); [apply Tp_include_target | reflexivity].
  Qed.

  Lemma T_def_names f : file_def_names (T f) = file_def_names f.
  Proof.
    destruct f. unfold file_def_names, struct_likes. cbn. rewrite !map_app, !map_map.
    repeat f_equal; apply map_ext; intros []; reflexivity.
  Qed.

  Lemma Tp_typedef_count p : prog_typedef_count (Tp p) = prog_typedef_count p.
  Proof.
    induction p as [|[n f] r IH]; [reflexivity|]. cbn [sem_view_program map prog_typedef_count fold_right fst snd].
    fold (Tp r). unfold prog_typedef_count in IH. rewrite IH, T_typedefs, map_length. reflexivity.
  Qed.

  (* ---- ResolveType *)
  Lemma Tp_find_include done ok pre m : forall incs idx,
    find_include (Tp done) ok pre m incs idx = find_include done ok pre m incs idx.
  Proof.
    induction incs as [|i r IH]; intro idx; [reflexivity|]. cbn [find_include]. rewrite IH, Tp_include_target.
    destruct (include_target done i) as [g|]; cbn [option_map]; [rewrite T_n2c|]; reflexivity.
  Qed.

  (* [f']: any file with the names and includes of [f] *)
  Lemma resolve_ty_cty done f f' : n2c_of f' = n2c_of f -> f_includes f' = f_includes f ->
    forall t, resolve_ty (Tp done) f' (cty t) = rmap cty (resolve_ty done f t).
  Proof.
    intros Hn Hi. induction t as [n k v c an cat r td IHk IHv] using ty_ind'.
    cbn [cty resolve_ty]. rewrite Hn, Hi.
    destruct (builtin_category n) as [[]|]; try reflexivity.
    - destruct k as [kt|]; [|reflexivity]. rewrite (IHk kt eq_refl).
      destruct (resolve_ty done f kt) as [k'|]; [|reflexivity]. cbn [rmap bind].
      destruct v as [vt|]; [|reflexivity]. rewrite (IHv vt eq_refl).
      destruct (resolve_ty done f vt) as [v'|]; reflexivity.
    - destruct v as [vt|]; [|reflexivity]. rewrite (IHv vt eq_refl).
      destruct (resolve_ty done f vt) as [v'|]; [|reflexivity]. cbn [rmap bind]. destruct k; reflexivity.
    - destruct v as [vt|]; [|reflexivity]. rewrite (IHv vt eq_refl).
      destruct (resolve_ty done f vt) as [v'|]; [|reflexivity]. cbn [rmap bind]. destruct k; reflexivity.
    - destruct (split_type n) as [|a [|m [|x y]]]; try reflexivity.
      + destruct (lookup a (n2c_of f)) as [c0|]; [|reflexivity]. destruct (is_type_cat c0); reflexivity.
      + rewrite Tp_find_include. destruct (find_include done is_type_cat a m (f_includes f) 0) as [[idx c0]|]; reflexivity.
  Qed.

  (* ---- getEnum *)
  Definition Tez (ez : enum * Z) : enum * Z := (map_enum NC (fst ez), snd ez).

  Lemma get_enum_T done : forall k g name,
    get_enum k (Tp done) (T g) name = rmap (option_map Tez) (get_enum k done g name).
  Proof.
    induction k as [|k IH]; intros g name; [reflexivity|].
    cbn [get_enum]. rewrite T_n2c.
    destruct (lookup name (n2c_of g)) as [[]|]; try reflexivity.
    - rewrite T_find_enum. destruct (find_enum g name); reflexivity.
    - rewrite T_find_typedef. destruct (find_typedef g name) as [x|]; [|reflexivity]. cbn [option_map].
      assert (E1 : ty_ref (td_type (Ttd x)) = ty_ref (td_type x)) by (destruct x as [[] ? ? ?]; reflexivity).
      assert (E2 : ty_name (td_type (Ttd x)) = ty_name (td_type x)) by (destruct x as [[] ? ? ?]; reflexivity).
      rewrite E1, E2.
      destruct (ty_ref (td_type x)) as [r|].
      + rewrite Tp_reference_target. destruct (reference_target done g r) as [h|]; [|reflexivity]. cbn [option_map].
        rewrite IH. destruct (get_enum k done h (ref_name r)) as [[[en z]|]|]; cbn [rmap bind option_map Tez fst snd]; try reflexivity.
        apply IH.
      + cbn [bind]. apply IH.
  Qed.

  Lemma enum_cands_T e v x : enum_cands (map_enum NC e) v x = enum_cands e v x.
  Proof.
    destruct e as [n vs an cm]. unfold enum_cands, map_enum. cbn [en_values].
    induction vs as [|w r IH]; [reflexivity|]. cbn [map filter].
    destruct w as [wn wv wa wc]. cbn [map_enum_value ev_name].
    destruct (beqb wn v); cbn [map]; rewrite IH; reflexivity.
  Qed.

  Lemma inc_cands_T done (h h' : nat -> file -> result (list const_extra)) pre :
    (forall idx g, h' idx (T g) = h idx g) ->
    forall incs idx, inc_cands (Tp done) h' pre incs idx = inc_cands done h pre incs idx.
  Proof.
    intro Hh. induction incs as [|i r IH]; intro idx; [reflexivity|].
    cbn [inc_cands]. rewrite IH, Tp_include_target.
    destruct (beqb (idl_prefix (in_path i)) pre); [|reflexivity].
    destruct (include_target done i) as [g|]; cbn [option_map]; [rewrite Hh|]; reflexivity.
  Qed.

  Lemma alt_cands_T fuel done f ss : alt_cands fuel (Tp done) (T f) ss = alt_cands fuel done f ss.
  Proof.
    destruct ss as [|a [|b [|c [|d r]]]]; try reflexivity; cbn [alt_cands].
    - rewrite get_enum_T, T_includes.
      rewrite (inc_cands_T done
                 (fun idx g => Ok (match lookup b (n2c_of g) with
                                   | Some CatConstant => [Extra false (Z.of_nat idx) b a]
                                   | _ => [] end))); [|intros idx g; rewrite T_n2c; reflexivity].
      destruct (get_enum fuel done f a) as [[[e z]|]|]; cbn [rmap bind option_map Tez fst snd]; try reflexivity.
      rewrite enum_cands_T. reflexivity.
    - rewrite T_includes. apply inc_cands_T. intros idx g. rewrite get_enum_T.
      destruct (get_enum fuel done g b) as [[[e z]|]|]; cbn [rmap bind option_map Tez fst snd]; try reflexivity.
      rewrite enum_cands_T. reflexivity.
  Qed.

  Lemma all_cands_T fuel done f : forall sss, all_cands fuel (Tp done) (T f) sss = all_cands fuel done f sss.
  Proof. induction sss as [|ss r IH]; [reflexivity|]. cbn [all_cands]. rewrite alt_cands_T, IH. reflexivity. Qed.

  Lemma resolve_ident_T fuel done f s : resolve_ident fuel (Tp done) (T f) s = resolve_ident fuel done f s.
  Proof. unfold resolve_ident. rewrite all_cands_T. reflexivity. Qed.

  (* ---- ResolveConstValue *)
  Lemma resolve_cv_dv fuel done f : forall c,
    resolve_cv fuel (Tp done) (T f) (dv c) = rmap dv (resolve_cv fuel done f c).
  Proof.
    induction c as [d|z|s|s e|l IH|l IH] using const_value_ind'; cbn [dv resolve_cv rmap]; try reflexivity.
    - destruct (num_view_leaf (fmt d)) as [[z ->]|[b ->]]; reflexivity.
    - rewrite resolve_ident_T. destruct (resolve_ident fuel done f s); reflexivity.
    - assert (E : (fix go (l : list const_value) : result (list const_value) :=
                     match l with
                     | [] => Ok []
                     | x :: r => x' <- resolve_cv fuel (Tp done) (T f) x ;; r' <- go r ;; Ok (x' :: r')
                     end) (map dv l) =
                  rmap (map dv) ((fix go (l : list const_value) : result (list const_value) :=
                     match l with
                     | [] => Ok []
                     | x :: r => x' <- resolve_cv fuel done f x ;; r' <- go r ;; Ok (x' :: r')
                     end) l)).
      { induction IH as [|x r Hx _ IHr]; [reflexivity|]. cbn [map]. rewrite Hx, bind_rmap, rmap_bind.
        apply bind_ext. intro x'. rewrite IHr, bind_rmap, rmap_bind. apply bind_ext. intro r'. reflexivity. }
      rewrite E, bind_rmap, rmap_bind. apply bind_ext. intro l'. reflexivity.
    - assert (E : (fix go (l : list (const_value * const_value)) : result (list (const_value * const_value)) :=
                     match l with
                     | [] => Ok []
                     | (k, v) :: r =>
                       k' <- resolve_cv fuel (Tp done) (T f) k ;; v' <- resolve_cv fuel (Tp done) (T f) v ;;
                       r' <- go r ;; Ok ((k', v') :: r')
                     end) (map (fun kv => (dv (fst kv), dv (snd kv))) l) =
                  rmap (map (fun kv => (dv (fst kv), dv (snd kv))))
                    ((fix go (l : list (const_value * const_value)) : result (list (const_value * const_value)) :=
                     match l with
                     | [] => Ok []
                     | (k, v) :: r =>
                       k' <- resolve_cv fuel done f k ;; v' <- resolve_cv fuel done f v ;;
                       r' <- go r ;; Ok ((k', v') :: r')
                     end) l)).
      { induction IH as [|[k v] r [Hk Hv] _ IHr]; [reflexivity|]. cbn [map fst snd] in *.
        rewrite Hk, bind_rmap, rmap_bind. apply bind_ext. intro k'.
        rewrite Hv, bind_rmap, rmap_bind. apply bind_ext. intro v'.
        rewrite IHr, bind_rmap, rmap_bind. apply bind_ext. intro r'. reflexivity. }
      rewrite E, bind_rmap, rmap_bind. apply bind_ext. intro l'. reflexivity.
  Qed.

  (* ---- definitions *)
  Notation Tco := (map_constant cty dv NC).
  Notation Tsl := (map_struct_like cty dv NC).
  Notation Tfn := (map_function cty dv NC).
  Notation Tsv := (map_service cty dv NC false).

  Ltac rb := rewrite ?bind_rmap, ?rmap_bind; apply bind_ext; intro.

  Lemma resolve_typedef_T done f td :
    resolve_typedef (Tp done) (T f) (Ttd td) = rmap Ttd (resolve_typedef done f td).
  Proof.
    destruct td as [t al an cm]. unfold resolve_typedef, map_typedef. cbn [td_type td_alias td_annos td_comments].
    rewrite (resolve_ty_cty done f (T f) (T_n2c f) (T_includes f)). rb. reflexivity.
  Qed.

  Lemma resolve_constant_T fuel done f c :
    resolve_constant fuel (Tp done) (T f) (Tco c) = rmap Tco (resolve_constant fuel done f c).
  Proof.
    destruct c as [n t v an cm]. unfold resolve_constant, map_constant. cbn [co_name co_type co_value co_annos co_comments].
    rewrite (resolve_ty_cty done f (T f) (T_n2c f) (T_includes f)). rb.
    rewrite resolve_cv_dv. rb. reflexivity.
  Qed.

  Lemma resolve_field_T fuel done f b fd :
    resolve_field fuel (Tp done) (T f) b (Tfd fd) = rmap Tfd (resolve_field fuel done f b fd).
  Proof.
    destruct fd as [id n r t d an cm]. unfold resolve_field, map_field.
    cbn [fd_id fd_name fd_req fd_type fd_default fd_annos fd_comments].
    rewrite (resolve_ty_cty done f (T f) (T_n2c f) (T_includes f)). rb.
    destruct d as [c|]; cbn [option_map].
    - rewrite resolve_cv_dv. rewrite !bind_rmap, !rmap_bind.
      destruct (resolve_cv fuel done f c); reflexivity.
    - reflexivity.
  Qed.

  Lemma resolve_struct_like_T fuel done f s :
    resolve_struct_like fuel (Tp done) (T f) (Tsl s) = rmap Tsl (resolve_struct_like fuel done f s).
  Proof.
    destruct s as [k n fs an cm]. unfold resolve_struct_like, map_struct_like, is_union.
    cbn [sl_category sl_name sl_fields sl_annos sl_comments].
    rewrite (mapM_map (resolve_field fuel done f match k with SKUnion => true | _ => false end) _ Tfd Tfd)
      by (intros; apply resolve_field_T).
    rb. reflexivity.
  Qed.

  Lemma resolve_function_T fuel done f fn :
    resolve_function fuel (Tp done) (T f) (Tfn fn) = rmap Tfn (resolve_function fuel done f fn).
  Proof.
    destruct fn as [n ow vd t args thr an cm]. unfold resolve_function, map_function.
    cbn [fn_name fn_oneway fn_void fn_type fn_args fn_throws fn_annos fn_comments].
    assert (E : (if vd then Ok (cty t) else resolve_ty (Tp done) (T f) (cty t)) =
                rmap cty (if vd then Ok t else resolve_ty done f t)).
    { destruct vd; [reflexivity|]. apply (resolve_ty_cty done f (T f) (T_n2c f) (T_includes f)). }
    rewrite E. rb.
    rewrite (mapM_map (resolve_field fuel done f false) _ Tfd Tfd) by (intros; apply resolve_field_T). rb.
    rewrite (mapM_map (resolve_field fuel done f false) _ Tfd Tfd) by (intros; apply resolve_field_T). rb.
    reflexivity.
  Qed.

  Lemma resolve_base_T done f sv : resolve_base (Tp done) (T f) (Tsv sv) = resolve_base done f sv.
  Proof.
    destruct sv as [n e fns an r cm]. unfold resolve_base, map_service. cbn [sv_extends].
    rewrite T_n2c, T_includes.
    destruct (split_type e) as [|a [|m [|x y]]]; try reflexivity.
    rewrite Tp_find_include. reflexivity.
  Qed.

  Lemma resolve_service_T fuel done f sv :
    resolve_service fuel (Tp done) (T f) (Tsv sv) = rmap Tsv (resolve_service fuel done f sv).
  Proof.
    unfold resolve_service. rewrite resolve_base_T.
    destruct sv as [n e fns an r cm]. unfold map_service.
    cbn [sv_name sv_extends sv_functions sv_annos sv_ref sv_comments].
    rewrite (mapM_map (resolve_function fuel done f) _ Tfn Tfn) by (intros; apply resolve_function_T). rb.
    rb. reflexivity.
  Qed.

  (* ---- ResolveTypedefs *)
  Lemma ext_typedef_cat_T done f r : ext_typedef_cat (Tp done) (T f) r = ext_typedef_cat done f r.
  Proof.
    unfold ext_typedef_cat. rewrite Tp_reference_target.
    destruct (reference_target done f r) as [g|]; [|reflexivity]. cbn [option_map].
    rewrite T_find_typedef. destruct (find_typedef g (ref_name r)) as [[[] ? ? ?]|]; reflexivity.
  Qed.

  Lemma te_init_T done f td : te_init (Tp done) (T f) (Ttd td) = te_init done f td.
  Proof.
    destruct td as [[n k v c an cat r tdf] al an2 cm]. unfold te_init, map_typedef.
    cbn [td_type td_alias cty ty_category ty_ref ty_name].
    destruct (is_typedef_cat cat); [|reflexivity]. destruct r as [rf|]; [|reflexivity].
    rewrite ext_typedef_cat_T. reflexivity.
  Qed.

  Lemma fix_ty_cty done f st : forall t, fix_ty (Tp done) (T f) st (cty t) = rmap cty (fix_ty done f st t).
  Proof.
    induction t as [n k v c an cat r td IHk IHv] using ty_ind'. cbn [cty fix_ty].
    assert (Ek : match k with Some x => Some (cty x) | None => None end = option_map cty k) by (destruct k; reflexivity).
    destruct k as [kt|]; [rewrite (IHk kt eq_refl); destruct (fix_ty done f st kt) as [k'|]; [|reflexivity]|];
      cbn [rmap bind];
      (destruct v as [vt|]; [rewrite (IHv vt eq_refl); destruct (fix_ty done f st vt) as [v'|]; [|reflexivity]|];
       cbn [rmap bind];
       (destruct (is_typedef_cat cat); [|reflexivity];
        destruct r as [rf|]; [rewrite ext_typedef_cat_T; destruct (ext_typedef_cat done f rf) as [c'|]
                             | destruct (te_lookup st n) as [c'|]]; try reflexivity;
        destruct (is_typedef_cat c'); reflexivity)).
  Qed.

  Lemma fix_typedef_T done f st td : fix_typedef (Tp done) (T f) st (Ttd td) = rmap Ttd (fix_typedef done f st td).
  Proof. destruct td. unfold fix_typedef, map_typedef. cbn. rewrite fix_ty_cty. rb. reflexivity. Qed.
  Lemma fix_constant_T done f st c : fix_constant (Tp done) (T f) st (Tco c) = rmap Tco (fix_constant done f st c).
  Proof. destruct c. unfold fix_constant, map_constant. cbn. rewrite fix_ty_cty. rb. reflexivity. Qed.
  Lemma fix_field_T done f st fd : fix_field (Tp done) (T f) st (Tfd fd) = rmap Tfd (fix_field done f st fd).
  Proof. destruct fd. unfold fix_field, map_field. cbn. rewrite fix_ty_cty. rb. reflexivity. Qed.
  Lemma fix_struct_like_T done f st s :
    fix_struct_like (Tp done) (T f) st (Tsl s) = rmap Tsl (fix_struct_like done f st s).
  Proof.
    destruct s. unfold fix_struct_like, map_struct_like. cbn.
    rewrite (mapM_map (fix_field done f st) _ Tfd Tfd) by (intros; apply fix_field_T). rb. reflexivity.
  Qed.
  Lemma fix_function_T done f st fn :
    fix_function (Tp done) (T f) st (Tfn fn) = rmap Tfn (fix_function done f st fn).
  Proof.
    destruct fn. unfold fix_function, map_function. cbn. rewrite fix_ty_cty. rb.
    rewrite (mapM_map (fix_field done f st) _ Tfd Tfd) by (intros; apply fix_field_T). rb.
    rewrite (mapM_map (fix_field done f st) _ Tfd Tfd) by (intros; apply fix_field_T). rb. reflexivity.
  Qed.
  Lemma fix_service_T done f st sv :
    fix_service (Tp done) (T f) st (Tsv sv) = rmap Tsv (fix_service done f st sv).
  Proof.
    destruct sv. unfold fix_service, map_service. cbn.
    rewrite (mapM_map (fix_function done f st) _ Tfn Tfn) by (intros; apply fix_function_T). rb. reflexivity.
  Qed.

  (* ---- Include.Used *)
  Lemma flat_map'_map {A B C} (g : B -> list C) (h : A -> B) l : flat_map' g (map h l) = flat_map' (fun x => g (h x)) l.
  Proof. unfold flat_map'. rewrite map_map. reflexivity. Qed.
  Lemma flat_map'_ext {A B} (g g' : A -> list B) l : (forall x, g x = g' x) -> flat_map' g l = flat_map' g' l.
  Proof. intro H. unfold flat_map'. rewrite (map_ext _ _ H). reflexivity. Qed.
  Lemma flat_map'_app {A B} (g : A -> list B) l1 l2 : flat_map' g (l1 ++ l2) = flat_map' g l1 ++ flat_map' g l2.
  Proof. unfold flat_map'. rewrite map_app, concat_app. reflexivity. Qed.
  Lemma flat_map'_flat_map' {A B C} (g : B -> list C) (h : A -> list B) l :
    flat_map' g (flat_map' h l) = flat_map' (fun x => flat_map' g (h x)) l.
  Proof.
    induction l as [|x r IH]; [reflexivity|]. unfold flat_map' in *. cbn [map List.concat].
    rewrite map_app, concat_app, IH. reflexivity.
  Qed.

  Lemma ty_marks_cty : forall t, flat_map' ty_mark (ty_subtypes (cty t)) = flat_map' ty_mark (ty_subtypes t).
  Proof.
    induction t as [n k v c an cat r td IHk IHv] using ty_ind'. cbn [cty ty_subtypes].
    unfold flat_map' in *. cbn [map List.concat]. rewrite !map_app, !concat_app.
    f_equal. f_equal.
    - destruct k as [kt|]; [apply (IHk kt eq_refl) | reflexivity].
    - destruct v as [vt|]; [apply (IHv vt eq_refl) | reflexivity].
  Qed.

  Lemma cv_marks_dv : forall c, flat_map' cv_mark (cv_subvalues (dv c)) = flat_map' cv_mark (cv_subvalues c).
  Proof.
    induction c as [d|z|s|s e|l IH|l IH] using const_value_ind'; try reflexivity.
    - cbn [dv]. destruct (num_view_leaf (fmt d)) as [[z ->]|[b ->]]; reflexivity.
    - cbn [dv cv_subvalues]. unfold flat_map' in *. cbn [map List.concat cv_mark app]. rewrite map_map.
      induction IH as [|x r Hx _ IHr]; [reflexivity|]. cbn [map List.concat]. rewrite !map_app, !concat_app, Hx, IHr. reflexivity.
    - cbn [dv cv_subvalues]. unfold flat_map' in *. cbn [map List.concat cv_mark app]. rewrite map_map.
      induction IH as [|[k v] r [Hk Hv] _ IHr]; [reflexivity|]. cbn [map List.concat fst snd] in *.
      rewrite !map_app, !concat_app, Hk, Hv, IHr. reflexivity.
  Qed.

  Lemma flat_map'_comm {A B C D} (g : B -> list D) (g0 : A -> list C) (h : A -> B) (k : C -> D) l :
    (forall x, g (h x) = map k (g0 x)) -> flat_map' g (map h l) = map k (flat_map' g0 l).
  Proof.
    intro H. induction l as [|x r IH]; [reflexivity|]. unfold flat_map' in *. cbn [map List.concat].
    rewrite map_app, H, IH. reflexivity.
  Qed.

  Lemma app_eq {A} (a a' b b' : list A) : a = a' -> b = b' -> a ++ b = a' ++ b'.
  Proof. intros -> ->. reflexivity. Qed.

  Lemma T_struct_likes f : struct_likes (T f) = map Tsl (struct_likes f).
  Proof. destruct f. unfold struct_likes. cbn. rewrite !map_app. reflexivity. Qed.
  Lemma T_services f : f_services (T f) = map Tsv (f_services f).
  Proof. destruct f. reflexivity. Qed.
  Lemma T_constants f : f_constants (T f) = map Tco (f_constants f).
  Proof. destruct f. reflexivity. Qed.

  Lemma T_file_fields f : file_fields (T f) = map Tfd (file_fields f).
  Proof.
    unfold file_fields. rewrite T_struct_likes, T_services, map_app. apply app_eq.
    - apply flat_map'_comm. intros []. reflexivity.
    - apply flat_map'_comm. intros [n e fns an r cm]. unfold service_fields, map_service. cbn [sv_functions].
      apply flat_map'_comm. intros []. unfold function_fields, map_function. cbn. rewrite map_app. reflexivity.
  Qed.

  Lemma T_top_types f : file_top_types (T f) = map cty (file_top_types f).
  Proof.
    unfold file_top_types. rewrite T_typedefs, T_constants, T_struct_likes, T_services, !map_app, !map_map.
    apply app_eq; [|apply app_eq; [|apply app_eq]].
    - apply map_ext. intros []. reflexivity.
    - apply map_ext. intros []. reflexivity.
    - rewrite (flat_map'_comm sl_fields sl_fields Tsl Tfd) by (intros []; reflexivity).
      rewrite map_map. apply map_ext. intros []. reflexivity.
    - apply flat_map'_comm. intros [n e fns an r cm]. unfold map_service. cbn [sv_functions].
      apply flat_map'_comm. intros [fnn ow vd t args thr fan fcm]. unfold map_function, function_fields.
      cbn [fn_type fn_args fn_throws map]. f_equal. rewrite <- map_app, !map_map. apply map_ext. intros []. reflexivity.
  Qed.

  Lemma T_top_const_values f : file_top_const_values (T f) = map dv (file_top_const_values f).
  Proof.
    unfold file_top_const_values. rewrite T_constants, T_file_fields, map_app, !map_map. apply app_eq.
    - apply map_ext. intros []. reflexivity.
    - apply flat_map'_comm. intros [id n r t [d|] an cm]; reflexivity.
  Qed.

  Lemma file_marks_T f : file_marks (T f) = file_marks f.
  Proof.
    unfold file_marks, file_types, file_const_values.
    rewrite !flat_map'_flat_map', T_top_types, T_top_const_values, T_services, !flat_map'_map.
    apply app_eq; [|apply app_eq].
    - apply flat_map'_ext. apply ty_marks_cty.
    - apply flat_map'_ext. apply cv_marks_dv.
    - apply flat_map'_ext. intros []. reflexivity.
  Qed.

  (* ---- one file *)
  Lemma T_with_name2cat f m : T (with_name2cat f m) = with_name2cat (T f) m.
  Proof. destruct f. reflexivity. Qed.
  Lemma T_with_typedefs f tds : T (with_typedefs f tds) = with_typedefs (T f) (map Ttd tds).
  Proof. destruct f. reflexivity. Qed.
  Lemma T_with_includes f l : T (with_includes f l) = with_includes (T f) (map (map_include false) l).
  Proof. destruct f. reflexivity. Qed.
  Lemma enum_fuel_T done f : enum_fuel (Tp done) (T f) = enum_fuel done f.
  Proof. unfold enum_fuel. rewrite Tp_typedef_count, T_typedefs, map_length. reflexivity. Qed.

  Lemma mark_includes_id marks : forall incs idx,
    map (map_include false) (mark_includes marks incs idx) = mark_includes marks incs idx.
  Proof. intros. rewrite (map_ext _ (fun i => i) map_include_false). apply map_id. Qed.

  Lemma resolve_file_in_T done f :
    resolve_file_in (Tp done) (T f) = rmap T (resolve_file_in done f).
  Proof.
    unfold resolve_file_in. rewrite T_def_names.
    destruct (register (file_def_names f) []) as [n2c|e]; [|reflexivity]. cbn [bind rmap].
    rewrite <- T_with_name2cat. set (f0 := with_name2cat f (Some n2c)).
    rewrite T_typedefs.
    rewrite (mapM_map (resolve_typedef done f0) _ Ttd Ttd) by (intros; apply resolve_typedef_T).
    destruct (mapM (resolve_typedef done f0) (f_typedefs f)) as [tds1|e]; [|reflexivity]. cbn [bind rmap].
    rewrite <- T_with_typedefs. set (f1 := with_typedefs f0 tds1).
    rewrite enum_fuel_T. set (fuel := enum_fuel done f1).
    destruct f as [fname incs cpp nss tds cs es ss us xs svs n2c0].
    cbn [sem_view map_file f_filename f_includes f_cpp_includes f_namespaces f_typedefs f_constants f_enums
         f_structs f_unions f_exceptions f_services f_name2cat] in *.
    fold NC.
    rewrite (mapM_map (resolve_constant fuel done f1) _ Tco Tco) by (intros; apply resolve_constant_T).
    destruct (mapM (resolve_constant fuel done f1) cs) as [cs1|e]; [|reflexivity]. cbn [bind rmap].
    rewrite (mapM_map (resolve_struct_like fuel done f1) _ Tsl Tsl) by (intros; apply resolve_struct_like_T).
    destruct (mapM (resolve_struct_like fuel done f1) ss) as [ss1|e]; [|reflexivity]. cbn [bind rmap].
    rewrite (mapM_map (resolve_struct_like fuel done f1) _ Tsl Tsl) by (intros; apply resolve_struct_like_T).
    destruct (mapM (resolve_struct_like fuel done f1) us) as [us1|e]; [|reflexivity]. cbn [bind rmap].
    rewrite (mapM_map (resolve_struct_like fuel done f1) _ Tsl Tsl) by (intros; apply resolve_struct_like_T).
    destruct (mapM (resolve_struct_like fuel done f1) xs) as [es1|e]; [|reflexivity]. cbn [bind rmap].
    rewrite (mapM_map (resolve_service fuel done f1) _ Tsv Tsv) by (intros; apply resolve_service_T).
    destruct (mapM (resolve_service fuel done f1) svs) as [sv1|e]; [|reflexivity]. cbn [bind rmap].
    rewrite map_length, map_map.
    rewrite (map_ext _ _ (te_init_T done f1)).
    destruct (te_fix (S (List.length tds1)) (map (te_init done f1) tds1)) as [st|e]; [|reflexivity]. cbn [bind rmap].
    rewrite (mapM_map (fix_typedef done f1 st) _ Ttd Ttd) by (intros; apply fix_typedef_T).
    destruct (mapM (fix_typedef done f1 st) tds1) as [tds2|e]; [|reflexivity]. cbn [bind rmap].
    rewrite (mapM_map (fix_constant done f1 st) _ Tco Tco) by (intros; apply fix_constant_T).
    destruct (mapM (fix_constant done f1 st) cs1) as [cs2|e]; [|reflexivity]. cbn [bind rmap].
    rewrite (mapM_map (fix_struct_like done f1 st) _ Tsl Tsl) by (intros; apply fix_struct_like_T).
    destruct (mapM (fix_struct_like done f1 st) ss1) as [ss2|e]; [|reflexivity]. cbn [bind rmap].
    rewrite (mapM_map (fix_struct_like done f1 st) _ Tsl Tsl) by (intros; apply fix_struct_like_T).
    destruct (mapM (fix_struct_like done f1 st) us1) as [us2|e]; [|reflexivity]. cbn [bind rmap].
    rewrite (mapM_map (fix_struct_like done f1 st) _ Tsl Tsl) by (intros; apply fix_struct_like_T).
    destruct (mapM (fix_struct_like done f1 st) es1) as [es2|e]; [|reflexivity]. cbn [bind rmap].
    rewrite (mapM_map (fix_service done f1 st) _ Tsv Tsv) by (intros; apply fix_service_T).
    destruct (mapM (fix_service done f1 st) sv1) as [sv2|e]; [|reflexivity]. cbn [bind rmap].
    f_equal.
    set (f2 := File fname incs cpp nss tds2 cs2 es ss2 us2 es2 sv2 (Some n2c)).
    change (File fname (map (map_include false) incs) cpp nss (map Ttd tds2) (map Tco cs2) (map (map_enum NC) es)
                 (map Tsl ss2) (map Tsl us2) (map Tsl es2) (map Tsv sv2) (Some n2c)) with (T f2).
    rewrite file_marks_T.
    rewrite (map_ext _ (fun i => i) map_include_false), map_id.
    rewrite T_with_includes, mark_includes_id. reflexivity.
  Qed.

  (* ---- the program *)
  Lemma resolve_rec_T p : forall fuel done fn,
    resolve_rec fuel (Tp p) (Tp done) fn = rmap Tp (resolve_rec fuel p done fn).
  Proof.
    induction fuel as [|k IH]; intros done fn; cbn [resolve_rec]; rewrite Tp_lookup;
      destruct (lookup fn done) as [x|]; cbn [option_map]; try reflexivity.
    rewrite Tp_prog_file. destruct (prog_file p fn) as [f|]; [|reflexivity]. cbn [option_map].
    rewrite T_includes.
    assert (Hgo : forall incs d,
      (fix go (incs : list include) (d : program) : result program :=
         match incs with
         | [] => Ok d
         | i :: r => match in_ref i with
                     | None => Error ErrNotParsed
                     | Some g => d' <- resolve_rec k (Tp p) d g ;; go r d'
                     end
         end) incs (Tp d) =
      rmap Tp ((fix go (incs : list include) (d : program) : result program :=
         match incs with
         | [] => Ok d
         | i :: r => match in_ref i with
                     | None => Error ErrNotParsed
                     | Some g => d' <- resolve_rec k p d g ;; go r d'
                     end
         end) incs d)).
    { induction incs as [|i r IHr]; intro d; [reflexivity|].
      destruct (in_ref i) as [g|]; [|reflexivity]. rewrite IH.
      destruct (resolve_rec k p d g) as [d'|e]; [|reflexivity]. cbn [rmap bind]. apply IHr. }
    rewrite Hgo.
    match goal with |- context [rmap Tp ?X] => destruct X as [done1|e] end; [|reflexivity]. cbn [rmap bind].
    rewrite Tp_lookup. destruct (lookup fn done1); cbn [option_map]; [reflexivity|].
    rewrite resolve_file_in_T. destruct (resolve_file_in done1 f); reflexivity.
  Qed.

  Lemma final_map_T done p :
    map (fun e => (fst e, match lookup (fst e) (Tp done) with Some f' => f' | None => snd e end)) (Tp p) =
    Tp (map (fun e => (fst e, match lookup (fst e) done with Some f' => f' | None => snd e end)) p).
  Proof.
    unfold sem_view_program at 2 3. rewrite !map_map. apply map_ext. intros [n f]. cbn [fst snd].
    rewrite Tp_lookup. destruct (lookup n done); reflexivity.
  Qed.

  (* resolution commutes with the dumper's view of every file *)
  Theorem resolve_program_sem_view p :
    resolve_program (Tp p) = rmap Tp (resolve_program p).
  Proof.
    destruct p as [|[mainfn f0] r]; [reflexivity|].
    set (P := (mainfn, f0) :: r).
    assert (E : resolve_program (Tp P) =
                done <- resolve_rec (S (List.length (Tp P))) (Tp P) (Tp []) mainfn ;;
                Ok (map (fun e => (fst e, match lookup (fst e) done with Some f' => f' | None => snd e end)) (Tp P)))
      by reflexivity.
    rewrite E. unfold sem_view_program at 1. rewrite map_length. fold (Tp P).
    rewrite resolve_rec_T.
    assert (E2 : resolve_program P =
                 done <- resolve_rec (S (List.length P)) P [] mainfn ;;
                 Ok (map (fun e => (fst e, match lookup (fst e) done with Some f' => f' | None => snd e end)) P))
      by reflexivity.
    rewrite E2.
    destruct (resolve_rec (S (List.length P)) P [] mainfn) as [done|e]; [|reflexivity].
    cbn [rmap bind]. rewrite final_map_T. reflexivity.
  Qed.

  Corollary sem_view_program_resolves p r :
    resolve_program p = Ok r -> resolve_program (Tp p) = Ok (Tp r).
  Proof. intro H. rewrite resolve_program_sem_view, H. reflexivity. Qed.
End SemView.

(* ================================================================ the dumped program *)
(* The program re-read from the dumped texts: every file is its [dump_view]; the recursive
   parser finds for every include statement the file it found before (the tree keeps its
   layout), so the includes point to the same files again. *)
Definition relink (f v : file) : file :=
  with_includes v (map (fun i => Include (in_path i) (in_ref i) None) (f_includes f)).
Definition dumped_program (fmt : N -> bytes) (p : program) : program :=
  map (fun e => (fst e, relink (snd e) (dump_view fmt (snd e)))) p.

Section Link.
  Variable fmt : N -> bytes.
  Let NC := fun _ : bytes => @nil byte.
  Let sty := fun t => cty (ty_strip t).
  Let scv := fun c => dv fmt (cv_strip c).

  Lemma view_ty_sty : forall t, ty_ok t = true -> view_ty t = sty t.
  Proof.
    induction t as [n k v c an cat r td IHk IHv] using ty_ind'. intro H.
    cbn [ty_ok] in H. apply andb_true_iff in H. destruct H as [Han H].
    unfold sty in *. destruct k as [kt|], v as [vt|]; cbn [view_ty ty_plain ty_strip cty]; unfold ty_plain;
      rewrite (view_annos_id an Han).
    - apply andb_true_iff in H. destruct H as [Hk Hv].
      rewrite (IHk kt eq_refl Hk), (IHv vt eq_refl Hv). reflexivity.
    - discriminate.
    - rewrite (IHv vt eq_refl H). reflexivity.
    - reflexivity.
  Qed.

  Lemma view_cv_scv : forall c, cv_ok fmt c = true -> view_cv fmt c = scv c.
  Proof.
    unfold scv. induction c as [d|z|s|s e|l IH|l IH] using const_value_ind'; intro H; cbn [cv_ok] in H;
      cbn [view_cv cv_strip dv]; try reflexivity.
    - rewrite (view_lit_id s H). reflexivity.
    - f_equal. rewrite map_map.
      induction IH as [|x r Hx _ IHr]; [reflexivity|].
      cbn [forallb] in H. apply andb_true_iff in H. destruct H as [H1 H2].
      cbn [map]. rewrite (Hx H1), (IHr H2). reflexivity.
    - f_equal. rewrite map_map.
      induction IH as [|[k v] r [Hk Hv] _ IHr]; [reflexivity|].
      cbn [forallb fst snd] in H. apply andb_true_iff in H. destruct H as [H1 H2].
      apply andb_true_iff in H1. destruct H1 as [H1k H1v].
      cbn [map fst snd] in *. rewrite (Hk H1k), (Hv H1v), (IHr H2). reflexivity.
  Qed.

  Notation Mfd := (map_field sty scv NC).

  Lemma view_field_M f : field_ok fmt f = true -> view_field fmt f = Mfd f /\ Z.eqb (fd_id f) NOTSET = false.
  Proof.
    unfold field_ok. intro H. repeat (apply andb_true_iff in H; destruct H as [H ?]).
    destruct f as [id name req t d an cm]. cbn [fd_id fd_type fd_default fd_annos] in *.
    apply negb_true_iff in H. split; [|exact H].
    unfold map_field, view_field. cbn [fd_id fd_name fd_req fd_type fd_default fd_annos fd_comments].
    rewrite (view_ty_sty t) by assumption. rewrite (view_annos_id an) by assumption.
    destruct d as [v|]; cbn [option_map]; [rewrite (view_cv_scv v) by assumption|]; reflexivity.
  Qed.

  Lemma view_fields_M l : forallb (field_ok fmt) l = true -> view_fields fmt l = map Mfd l.
  Proof.
    intro H. unfold view_fields.
    assert (E : map (view_field fmt) l = map Mfd l).
    { apply (map_ext_forallb _ _ (field_ok fmt) l); [|exact H]. intros f Hf. apply (view_field_M f Hf). }
    rewrite E. apply assign_ids_id. rewrite forallb_map. apply forallb_forall. intros f Hf.
    rewrite forallb_forall in H. destruct (view_field_M f (H f Hf)) as [_ Hn].
    destruct f. unfold map_field. cbn in *. rewrite Hn. reflexivity.
  Qed.

  Lemma view_throws_M l : forallb (throw_ok fmt) l = true ->
    assign_ids None (map (fun x => set_req (view_field fmt x) ReqOptional) l) = map Mfd l.
  Proof.
    intro H.
    assert (E : map (fun x => set_req (view_field fmt x) ReqOptional) l = map Mfd l).
    { apply (map_ext_forallb _ _ (throw_ok fmt) l); [|exact H]. intros f Hf.
      unfold throw_ok in Hf. apply andb_true_iff in Hf. destruct Hf as [Hf Hr].
      rewrite (proj1 (view_field_M f Hf)). destruct f as [id name req t d an cm]. cbn [fd_req] in Hr.
      destruct req; try discriminate. reflexivity. }
    rewrite E. apply assign_ids_id. rewrite forallb_map. apply forallb_forall. intros f Hf.
    rewrite forallb_forall in H. specialize (H f Hf). unfold throw_ok in H. apply andb_true_iff in H. destruct H as [H _].
    destruct (view_field_M f H) as [_ Hn]. destruct f. unfold map_field. cbn in *. rewrite Hn. reflexivity.
  Qed.

  Lemma view_struct_M k s : struct_ok fmt k s = true -> view_struct fmt k s = map_struct_like sty scv NC s.
  Proof.
    unfold struct_ok. intro H. repeat (apply andb_true_iff in H; destruct H as [H ?]).
    destruct s as [cat name fs an cm]. cbn [sl_category sl_fields sl_annos] in *.
    unfold map_struct_like, view_struct. cbn [sl_category sl_name sl_fields sl_annos sl_comments].
    rewrite (view_fields_M fs) by assumption. rewrite (view_annos_id an) by assumption.
    destruct cat, k; try discriminate; reflexivity.
  Qed.

  Lemma is_void_type_sty t : is_void_type t = true -> sty t = ty_named kw_void.
  Proof.
    destruct t as [n [k|] [v|] c an cat r td]; cbn [is_void_type]; try discriminate.
    destruct an; [|discriminate]. intro H. apply beqb_true in H. subst n. reflexivity.
  Qed.

  Lemma view_function_M f : function_ok fmt f = true -> view_function fmt f = map_function sty scv NC f.
  Proof.
    unfold function_ok. intro H. repeat (apply andb_true_iff in H; destruct H as [H ?]).
    destruct f as [name ow void t args throws an cm].
    cbn [fn_type fn_void fn_args fn_throws fn_annos] in *.
    unfold map_function, view_function.
    cbn [fn_name fn_oneway fn_void fn_type fn_args fn_throws fn_annos fn_comments].
    rewrite (view_fields_M args) by assumption. rewrite (view_throws_M throws) by assumption.
    rewrite (view_annos_id an) by assumption.
    match goal with Hv : Bool.eqb void (is_void_type t) = true |- _ => apply eqb_prop in Hv; subst void end.
    destruct (is_void_type t) eqn:Ev.
    - rewrite (is_void_type_sty t Ev). reflexivity.
    - rewrite (view_ty_sty t) by assumption. reflexivity.
  Qed.

  Lemma view_service_M s : service_ok fmt s = true -> view_service fmt s = map_service sty scv NC true s.
  Proof.
    unfold service_ok. intro H. apply andb_true_iff in H. destruct H as [Hf Han].
    destruct s as [name ext fns an ref cm]. cbn [sv_functions sv_annos] in *.
    unfold map_service, view_service. cbn [sv_name sv_extends sv_functions sv_annos sv_ref sv_comments].
    rewrite (view_annos_id an Han).
    rewrite (map_ext_forallb _ (map_function sty scv NC) (function_ok fmt) fns view_function_M Hf). reflexivity.
  Qed.

  Lemma view_enum_M e : enum_ok e = true -> view_enum e = map_enum NC e.
  Proof.
    unfold enum_ok. intro H. apply andb_true_iff in H. destruct H as [Hv Han].
    destruct e as [name vs an cm]. cbn [en_values en_annos] in *.
    unfold map_enum, view_enum. cbn [en_name en_values en_annos en_comments].
    rewrite (view_annos_id an Han). f_equal.
    apply (map_ext_forallb _ _ (fun v => annos_ok (ev_annos v)) vs); [|exact Hv].
    intros [vn vv va vc] Hx. cbn [ev_annos] in Hx. unfold map_enum_value.
    cbn [ev_name ev_value ev_annos ev_comments]. rewrite (view_annos_id va Hx). reflexivity.
  Qed.

  Lemma view_typedef_M t : typedef_ok t = true -> view_typedef t = map_typedef sty NC t.
  Proof.
    unfold typedef_ok. intro H. apply andb_true_iff in H. destruct H as [Ht Han].
    destruct t as [ty al an cm]. cbn [td_type td_annos] in *.
    unfold map_typedef, view_typedef. cbn [td_type td_alias td_annos td_comments].
    rewrite (view_ty_sty ty Ht), (view_annos_id an Han). reflexivity.
  Qed.

  Lemma view_constant_M c : constant_ok fmt c = true -> view_constant fmt c = map_constant sty scv NC c.
  Proof.
    unfold constant_ok. intro H. repeat (apply andb_true_iff in H; destruct H as [H ?]).
    destruct c as [name ty v an cm]. cbn [co_type co_value co_annos] in *.
    unfold map_constant, view_constant. cbn [co_name co_type co_value co_annos co_comments].
    rewrite (view_ty_sty ty) by assumption. rewrite (view_cv_scv v) by assumption.
    rewrite (view_annos_id an) by assumption. reflexivity.
  Qed.

  (* the re-read file is the original with comments, cpp_type and resolution info removed and
     doubles replaced by what their texts denote *)
  Lemma relink_dump_view f : view_ok fmt f = true ->
    relink f (dump_view fmt f) = map_file sty scv NC true f.
  Proof.
    unfold view_ok. intro H. repeat (apply andb_true_iff in H; destruct H as [H ?]).
    destruct f as [fname incs cpp nss tds cs es ss us xs svs n2c].
    cbn [f_includes f_cpp_includes f_namespaces f_typedefs f_constants f_enums f_structs f_unions
         f_exceptions f_services] in *.
    unfold relink, dump_view, map_file, with_includes.
    cbn [f_filename f_includes f_cpp_includes f_namespaces f_typedefs f_constants f_enums f_structs f_unions
         f_exceptions f_services f_name2cat].
    f_equal.
    - rewrite <- (map_id cpp) at 2. apply (map_ext_forallb _ (fun x => x) lit_ok cpp); [apply view_lit_id | assumption].
    - rewrite <- (map_id nss) at 2. apply (map_ext_forallb _ (fun x => x) namespace_ok nss); [apply view_namespace_id | assumption].
    - apply (map_ext_forallb _ _ typedef_ok tds); [apply view_typedef_M | assumption].
    - apply (map_ext_forallb _ _ (constant_ok fmt) cs); [apply view_constant_M | assumption].
    - apply (map_ext_forallb _ _ enum_ok es); [apply view_enum_M | assumption].
    - apply (map_ext_forallb _ _ (struct_ok fmt SKStruct) ss); [apply view_struct_M | assumption].
    - apply (map_ext_forallb _ _ (struct_ok fmt SKUnion) us); [apply view_struct_M | assumption].
    - apply (map_ext_forallb _ _ (struct_ok fmt SKException) xs); [apply view_struct_M | assumption].
    - apply (map_ext_forallb _ _ (service_ok fmt) svs); [apply view_service_M | assumption].
  Qed.
End Link.

Section Passes.
  Variable fmt : N -> bytes.
  Let NC := fun _ : bytes => @nil byte.
  Let sty := fun t => cty (ty_strip t).
  Let scv := fun c => dv fmt (cv_strip c).
  Let I0 := fun c : bytes => c.

  Lemma sf_strip f : map_field cty (dv fmt) NC (map_field ty_strip cv_strip I0 f) = map_field sty scv NC f.
  Proof. destruct f as [id n r t d an cm]. unfold map_field. cbn. destruct d; reflexivity. Qed.
  Lemma sfs_strip l : map (map_field cty (dv fmt) NC) (map (map_field ty_strip cv_strip I0) l) = map (map_field sty scv NC) l.
  Proof. rewrite map_map. apply map_ext. apply sf_strip. Qed.
  Lemma sfn_strip f : map_function cty (dv fmt) NC (map_function ty_strip cv_strip I0 f) = map_function sty scv NC f.
  Proof. destruct f. unfold map_function. cbn. rewrite !sfs_strip. reflexivity. Qed.
  Lemma sen_strip e : map_enum NC (map_enum I0 e) = map_enum NC e.
  Proof. destruct e as [n vs an cm]. unfold map_enum. cbn. rewrite map_map. reflexivity. Qed.
  Lemma ssl_strip s : map_struct_like cty (dv fmt) NC (map_struct_like ty_strip cv_strip I0 s) = map_struct_like sty scv NC s.
  Proof. destruct s as [k n fs an cm]. unfold map_struct_like. cbn. rewrite sfs_strip. reflexivity. Qed.
  Lemma ssv_strip s : map_service cty (dv fmt) NC false (map_service ty_strip cv_strip I0 true s) = map_service sty scv NC true s.
  Proof.
    destruct s as [n e fns an rf cm]. unfold map_service. cbn. rewrite map_map.
    f_equal. apply map_ext. apply sfn_strip.
  Qed.

  Lemma sem_view_strip f : sem_view fmt (strip_resolution f) = map_file sty scv NC true f.
  Proof.
    destruct f as [fname incs cpp nss tds cs es ss us xs svs n2c].
    unfold sem_view, strip_resolution, map_file.
    cbn [f_filename f_includes f_cpp_includes f_namespaces f_typedefs f_constants f_enums f_structs f_unions
         f_exceptions f_services f_name2cat].
    fold NC I0. rewrite !map_map.
    f_equal; apply map_ext;
      first [ apply sen_strip | apply ssl_strip | apply ssv_strip | intros []; reflexivity ].
  Qed.

  (* the files the property is about: what the parser produces (no resolution info yet), of the
     parser-built shape *)
  Definition parsed_ok (f : file) : bool := view_ok fmt f && file_eqb (strip_resolution f) f.

  Lemma relink_is_sem_view f : parsed_ok f = true -> relink f (dump_view fmt f) = sem_view fmt f.
  Proof.
    unfold parsed_ok. intro H. apply andb_true_iff in H. destruct H as [Hv Hs].
    apply file_eqb_eq in Hs. rewrite (relink_dump_view fmt f Hv). fold NC sty scv.
    rewrite <- sem_view_strip, Hs. reflexivity.
  Qed.

  Lemma dumped_program_is_sem_view p :
    forallb (fun e => parsed_ok (snd e)) p = true -> dumped_program fmt p = sem_view_program fmt p.
  Proof.
    intro H. unfold dumped_program, sem_view_program.
    apply (map_ext_forallb _ _ (fun e => parsed_ok (snd e)) p); [|exact H].
    intros [n f] Hf. cbn [fst snd] in *. rewrite (relink_is_sem_view f Hf). reflexivity.
  Qed.

  (* dump_passes_semantic: the program re-read from the dumped texts resolves whenever the
     original does, and to the view of the original's resolution *)
  Theorem dump_passes_semantic p r :
    forallb (fun e => parsed_ok (snd e)) p = true ->
    resolve_program p = Ok r ->
    resolve_program (dumped_program fmt p) = Ok (sem_view_program fmt r).
  Proof.
    intros Hp Hr. rewrite (dumped_program_is_sem_view p Hp). apply sem_view_program_resolves. exact Hr.
  Qed.
End Passes.

From Coq.Strings Require Import String.
(* ---- the hypotheses are satisfiable: a two-file program (include, qualified type and enum
   constant, typedef chain, cpp_type, a double, recorded comments) that resolves *)
Local Open Scope string_scope.
Definition sem_sample_fmt (d : N) : bytes := if N.eqb d 4609434218613702656 then B "1.5" else [].
Definition sem_sample : program :=
  [ (B "a.thrift",
     File (B "a.thrift") [Include (B "b.thrift") (Some (B "b.thrift")) None] [] []
          [Typedef (ty_named (B "b.T")) (B "TT") [] (B "// a typedef of an included struct");
           Typedef (ty_named (B "TT")) (B "T3") [] []]
          [Constant (B "c") (ty_named (B "b.E")) (CIdent (B "b.E.A") None) [] [];
           Constant (B "d") (ty_named (B "double")) (CDouble 4609434218613702656) [] []]
          []
          [StructLike SKStruct (B "S")
             [Field 1 (B "x") ReqDefault (ty_plain kw_list None (Some (ty_named (B "T3"))) (B "std::list") []) None [] []]
             [] (B "/* doc */")]
          [] [] [] None);
    (B "b.thrift",
     File (B "b.thrift") [] [] [] [] [] [Enum (B "E") [EnumValue (B "A") 1 [] []] [] []]
          [StructLike SKStruct (B "T") [] [] []] [] [] [] None) ].

Example sem_sample_ok :
  forallb (fun e => parsed_ok sem_sample_fmt (snd e)) sem_sample = true /\
  (match resolve_program sem_sample with Ok _ => true | Error _ => false end) = true /\
  (match resolve_program (dumped_program sem_sample_fmt sem_sample) with Ok _ => true | Error _ => false end) = true.
Proof. repeat split; vm_compute; reflexivity. Qed.
