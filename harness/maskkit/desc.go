// Package maskkit holds the reusable pieces of the field-mask harness: IDL texts and a
// random IDL generator, the projection of real thrift_reflection descriptors to the shape
// of coq/Mask/Desc.v, and the thrift-path grammar (generation, rendering, Coq terms).
package maskkit

import (
	"fmt"
	"sort"
	"strings"

	"github.com/cloudwego/thriftgo/parser"
	"github.com/cloudwego/thriftgo/thrift_reflection"

	"verif/harness/coqfmt"
)

// Ty mirrors Mask/Desc.v `ty` (typedefs looked through).
type Ty struct {
	Kind string `json:"kind"` // base enum list set map struct other
	Name string `json:"name,omitempty"`
	Elem *Ty    `json:"elem,omitempty"`
	Key  *Ty    `json:"key,omitempty"`
	Val  *Ty    `json:"val,omitempty"`
}

type Field struct {
	ID   int32  `json:"id"`
	Name string `json:"name"`
	Ty   *Ty    `json:"ty"`
}

// Desc is one root descriptor with everything reachable from it.
type Desc struct {
	Label   string                            `json:"label"`
	IDL     string                            `json:"idl"`
	Root    *Ty                               `json:"-"`
	Order   []string                          `json:"-"` // struct names in discovery order
	Structs map[string][]Field                `json:"-"`
	Real    *thrift_reflection.TypeDescriptor `json:"-"`
}

func unwrap(td *thrift_reflection.TypeDescriptor) *thrift_reflection.TypeDescriptor {
	for i := 0; td != nil && i < 64; i++ {
		if !td.IsTypedef() {
			return td
		}
		d, err := td.GetTypedefDescriptor()
		if err != nil || d == nil {
			return td
		}
		td = d.GetType()
	}
	return td
}

// Load parses the IDL with the real parser, registers it with the real reflection
// package and projects the descriptor of struct `root`.
func Load(label, idl, root string) (*Desc, error) {
	ast, err := parser.ParseString(label+".thrift", idl)
	if err != nil {
		return nil, err
	}
	_, fd := thrift_reflection.RegisterAST(ast)
	st := fd.GetStructDescriptor(root)
	if st == nil {
		return nil, fmt.Errorf("no struct %s", root)
	}
	real := &thrift_reflection.TypeDescriptor{
		Filepath: st.Filepath,
		Name:     st.Name,
		Extra:    map[string]string{thrift_reflection.GLOBAL_UUID_EXTRA_KEY: st.Extra[thrift_reflection.GLOBAL_UUID_EXTRA_KEY]},
	}
	d := &Desc{Label: label, IDL: idl, Structs: map[string][]Field{}, Real: real}
	d.Root = d.project(real)
	return d, nil
}

func (d *Desc) project(td *thrift_reflection.TypeDescriptor) *Ty {
	td = unwrap(td)
	if td == nil {
		return &Ty{Kind: "other"}
	}
	switch {
	case td.IsBasic():
		return &Ty{Kind: "base", Name: td.GetName()}
	case td.IsList():
		k := "list"
		if td.GetName() == "set" {
			k = "set"
		}
		return &Ty{Kind: k, Elem: d.project(td.GetValueType())}
	case td.IsMap():
		return &Ty{Kind: "map", Key: d.project(td.GetKeyType()), Val: d.project(td.GetValueType())}
	case td.IsStruct():
		st, _ := td.GetStructDescriptor()
		name := td.GetName()
		if _, ok := d.Structs[name]; !ok {
			d.Structs[name] = nil
			d.Order = append(d.Order, name)
			var fs []Field
			for _, f := range st.GetFields() {
				fs = append(fs, Field{ID: f.GetID(), Name: f.GetName(), Ty: d.project(f.GetType())})
			}
			d.Structs[name] = fs
		}
		return &Ty{Kind: "struct", Name: name}
	case td.IsEnum():
		return &Ty{Kind: "enum"}
	default:
		return &Ty{Kind: "other"}
	}
}

// ---- Coq terms

func (t *Ty) Coq() string {
	switch t.Kind {
	case "base":
		return "(TyBase " + coqfmt.Bytes(t.Name) + ")"
	case "enum":
		return "TyEnum"
	case "list":
		return "(TyList " + t.Elem.Coq() + ")"
	case "set":
		return "(TySet " + t.Elem.Coq() + ")"
	case "map":
		return "(TyMap " + t.Key.Coq() + " " + t.Val.Coq() + ")"
	case "struct":
		return "(TyStruct " + coqfmt.Bytes(t.Name) + ")"
	default:
		return "TyOther"
	}
}

func (d *Desc) CoqEnv() string {
	var ss []string
	for _, n := range d.Order {
		var fs []string
		for _, f := range d.Structs[n] {
			fs = append(fs, fmt.Sprintf("(mkfield %s %s %s)", coqfmt.Z(int64(f.ID)), coqfmt.Bytes(f.Name), f.Ty.Coq()))
		}
		ss = append(ss, fmt.Sprintf("(%s, %s)", coqfmt.Bytes(n), coqfmt.List(fs)))
	}
	return coqfmt.List(ss)
}

// Ft mirrors switchFt (used only to steer generation, never compared).
func (d *Desc) Ft(t *Ty) string {
	switch t.Kind {
	case "base", "enum":
		return "Scalar"
	case "list", "set":
		return "List"
	case "map":
		switch t.Key.Kind {
		case "enum":
			return "IntMap"
		case "base":
			switch t.Key.Name {
			case "i8", "i16", "i32", "i64", "byte":
				return "IntMap"
			case "string", "binary":
				return "StrMap"
			}
		}
		return "Scalar"
	case "struct":
		return "Struct"
	}
	return "Invalid"
}

// ---- IDL corpus

type Source struct{ Label, IDL, Root string }

// Fixed holds hand-written IDLs: negative and > 63 field ids, the 63/64 boundary, nested
// lists / maps / structs, int, string, enum and other keyed maps, typedefs, a union, an
// empty struct, a struct whose first field is a struct (struct star typing).
var Fixed = []Source{
	{"basic", `
typedef In TIn
typedef list<TIn> TL
typedef string Str
enum E { A = 1, B = 2 }
struct In { 1: i32 x, 2: i32 y, 3: In self, 4: list<In> l, 5: map<string,In> m }
struct S {
  1: i32 a,
  2: In in,
  3: list<In> li,
  4: list<string> ls,
  5: map<i32,In> mi,
  6: map<string,In> ms,
  7: map<double,In> md,
  -1: i32 neg,
  -7: In negin,
  64: i32 big,
  63: i32 b63,
  62: i32 b62,
  65: In b65,
  0: i32 zero,
  300: In far,
  8: list<list<i32>> ll,
  9: TL tl,
  10: map<E,TIn> me,
  11: set<i64> st,
  12: map<Str,list<TIn>> msl,
  13: map<i64,map<string,i32>> mim,
  14: TIn tin,
}
`, "S"},
	{"firststruct", `
struct In { 1: i32 x, 2: In self, 3: list<i32> l }
struct F { 1: In first, 2: i32 b, 3: list<In> li }
`, "F"},
	{"empty", `
struct Z {}
struct H { 1: Z z, 2: list<Z> lz, 3: i32 a }
`, "H"},
	{"union", `
union U { 1: i32 a, 2: string b }
exception X { 1: string msg }
struct W { 1: U u, 2: X x, 3: list<U> lu, 4: i32 a, 5: map<string,U> mu }
`, "W"},
	{"listroot", `
struct L { 1: list<L> kids, 2: map<i8,L> byid, 3: set<string> tags, 4: binary blob, 5: map<binary,i32> mb, 6: map<bool,i32> mbool, 7: map<byte,i16> mbyte }
`, "L"},
	{"dupid", `
struct In { 1: i32 x }
struct D { 1: i32 a, 2: In b, 2: list<In> c, 3: i32 a }
`, "D"},
}

// ---- random IDL

type R interface {
	Intn(int) int
	Range(int, int) int
	Chance(int, int) bool
}

var idPool = []int{-9, -1, 0, 1, 2, 3, 5, 7, 31, 62, 63, 64, 65, 100, 127, 128, 300, 1000, 32767}
var baseTypes = []string{"bool", "byte", "i8", "i16", "i32", "i64", "double", "string", "binary"}
var keyTypes = []string{"i8", "i16", "i32", "i64", "byte", "string", "binary", "double", "bool", "E", "KStr", "KInt"}

func genType(r R, nstruct, depth int) string {
	if depth <= 0 {
		if r.Chance(1, 3) {
			return fmt.Sprintf("S%d", r.Intn(nstruct))
		}
		return baseTypes[r.Intn(len(baseTypes))]
	}
	switch r.Intn(10) {
	case 0, 1:
		return baseTypes[r.Intn(len(baseTypes))]
	case 2:
		return "E"
	case 3, 4:
		return fmt.Sprintf("S%d", r.Intn(nstruct))
	case 5:
		return "list<" + genType(r, nstruct, depth-1) + ">"
	case 6:
		return "set<" + genType(r, nstruct, depth-2) + ">"
	case 7, 8:
		return "map<" + keyTypes[r.Intn(len(keyTypes))] + "," + genType(r, nstruct, depth-1) + ">"
	default:
		return []string{"TS", "TLst", "TMap"}[r.Intn(3)]
	}
}

// RandomIDL builds a small program: 2..4 structs S0.., an enum, typedefs.
func RandomIDL(r R, n int) Source {
	ns := r.Range(2, 4)
	var b strings.Builder
	b.WriteString("enum E { A = 1, B = 2, C = 5 }\n")
	b.WriteString("typedef string KStr\ntypedef i32 KInt\n")
	b.WriteString("typedef S1 TS\ntypedef list<S1> TLst\ntypedef map<KStr,S0> TMap\n")
	for s := 0; s < ns; s++ {
		fmt.Fprintf(&b, "struct S%d {\n", s)
		nf := r.Range(1, 7)
		used := map[int]bool{}
		for f := 0; f < nf; f++ {
			id := idPool[r.Intn(len(idPool))]
			if used[id] {
				continue
			}
			used[id] = true
			name := fmt.Sprintf("f%d", f)
			if id < 0 {
				name = fmt.Sprintf("m%d", -id)
			}
			fmt.Fprintf(&b, "  %d: %s %s,\n", id, genType(r, ns, 2), name)
		}
		b.WriteString("}\n")
	}
	return Source{fmt.Sprintf("rnd%d", n), b.String(), "S0"}
}

// SortedStructs is used for stable statistics.
func (d *Desc) SortedStructs() []string {
	out := append([]string(nil), d.Order...)
	sort.Strings(out)
	return out
}
