package main

// Verbs for property C10 (code generated with `thriftgo -g fastgo`): the generated
// BLength / FastAppend / FastWrite / FastRead methods are reached through interface assertions, so
// this file compiles into every driver; on types without these methods the verbs answer
// {"unsupported":true}.
//
//	fastwrite   <unit> <struct> <value JSON>
//	    {"blength":n, "append":hex, "panic":bool,
//	     "fw":{"n":n,"same":bool,"bytes":hex,"panic":bool},      FastWrite into a buffer of BLength() bytes
//	     "std":{"err":class,"bytes":hex},                         the standard Write of the same object
//	     "rs":{"err":class,"dump":value},                         standard Read (into NewX()) of the FastAppend bytes
//	     "rf":{"err":fclass,"off":n,"dump":value}}                FastRead (into NewX()) of the FastAppend bytes
//	fastread    <unit> <struct> <hex> <new|zero>
//	    {"fast":{"err":fclass,"off":n,"dump":value}, "std":{"err":class,"rest":n,"dump":value}}
//	fasttrunc   <unit> <struct> <hex>
//	    {"classes":"..."}    one letter per prefix length 0 .. len-1:  o ok, i invalid_data, p protocol, e error, P panic
//	fastcorrupt <unit> <struct> <hex> <positions: comma separated> <byte values: comma separated>
//	    {"base":{"err","off","dump"}, "runs":[[pos,value,letter,off,dump|null]...]}   dump null = same dump as base
//
// fclass (never message texts): ok | invalid_data (gopkg ProtocolException, TypeId INVALID_DATA — also
// "required field is not set") | protocol (another TypeId) | error | panic (recovered).

import (
	"bytes"
	"encoding/hex"
	"encoding/json"
	"fmt"
	"reflect"
	"strconv"
	"strings"
)

type fastCodec interface {
	BLength() int
	FastAppend([]byte) []byte
	FastWrite([]byte) int
	FastRead([]byte) (int, error)
}

// ClassifyFast maps an error returned by FastRead to a small enum.
func ClassifyFast(err error) string {
	if err == nil {
		return "ok"
	}
	if te, ok := err.(interface{ TypeId() int32 }); ok {
		if te.TypeId() == 1 {
			return "invalid_data"
		}
		return "protocol"
	}
	return "error"
}

func fastLetter(cls string) string {
	switch cls {
	case "ok":
		return "o"
	case "invalid_data":
		return "i"
	case "protocol":
		return "p"
	case "error":
		return "e"
	}
	return "P"
}

// exact returns a copy whose capacity equals its length.
func exact(bs []byte) []byte {
	c := make([]byte, len(bs))
	copy(c, bs)
	return c
}

// safeFastRead runs x.FastRead(bs) and recovers panics.
//
// FastRead (like the standard Read) allocates make(T, size) with the size it finds in the input before it
// looks at the bytes that follow: corrupted input produces multi-gigabyte slices. The harness (fastdrv) runs
// this driver with GOGC=off in short-lived processes, so that those slices are fresh, never touched address
// space instead of recycled memory that has to be zeroed.
func safeFastRead(x fastCodec, bs []byte) (cls string, off int, msg string) {
	defer func() {
		if r := recover(); r != nil {
			cls, off, msg = "panic", -1, fmt.Sprint(r)
		}
	}()
	n, err := x.FastRead(bs)
	return ClassifyFast(err), n, ""
}

func fastReadObs(unit, qname string, zero bool, bs []byte) (map[string]interface{}, string) {
	var o interface{}
	if zero {
		o = NewZero(unit, qname)
	} else {
		o = New(unit, qname)
	}
	x, ok := o.(fastCodec)
	if !ok {
		return map[string]interface{}{"err": "unsupported"}, ""
	}
	cls, off, msg := safeFastRead(x, exact(bs))
	res := map[string]interface{}{"err": cls, "off": off}
	if msg != "" {
		res["msg"] = msg
	}
	d := ""
	if cls == "ok" {
		d = Dump(reflect.ValueOf(o))
		res["dump"] = json.RawMessage(d)
	}
	return res, d
}

func stdReadObs(unit, qname string, zero bool, bs []byte) (res map[string]interface{}) {
	defer func() {
		if r := recover(); r != nil {
			res = map[string]interface{}{"err": "panic", "msg": fmt.Sprint(r)}
		}
	}()
	var o interface{}
	if zero {
		o = NewZero(unit, qname)
	} else {
		o = New(unit, qname)
	}
	cls, rest := ReadBinary(o, bs)
	res = map[string]interface{}{"err": cls, "rest": rest}
	if cls == "ok" {
		res["dump"] = json.RawMessage(Dump(reflect.ValueOf(o)))
	}
	return res
}

func parseInts(s string) []int {
	var out []int
	for _, p := range strings.Split(s, ",") {
		if p == "" {
			continue
		}
		n, err := strconv.Atoi(p)
		if err != nil {
			panic(err)
		}
		out = append(out, n)
	}
	return out
}

func init() {
	RegisterCommand("fastwrite", func(a []string) interface{} {
		o := NewZero(a[0], a[1])
		Fill(reflect.ValueOf(o).Elem(), ParseValue(a[2]))
		x, ok := o.(fastCodec)
		if !ok {
			return map[string]interface{}{"unsupported": true}
		}
		res := map[string]interface{}{}
		var app []byte
		blen := 0
		func() {
			defer func() {
				if r := recover(); r != nil {
					res["panic"] = true
					res["msg"] = fmt.Sprint(r)
				}
			}()
			blen = x.BLength()
			app = x.FastAppend(nil)
			if app == nil {
				app = []byte{}
			}
		}()
		res["std"] = observeWrite(o)
		if res["panic"] == true {
			return res
		}
		res["blength"] = blen
		res["append"] = hex.EncodeToString(app)
		fw := map[string]interface{}{}
		func() {
			defer func() {
				if r := recover(); r != nil {
					fw["panic"] = true
					fw["msg"] = fmt.Sprint(r)
				}
			}()
			n := blen
			if n < 0 {
				n = 0
			}
			buf := make([]byte, n)
			w := x.FastWrite(buf)
			fw["n"] = w
			if w >= 0 && w <= len(buf) && bytes.Equal(buf[:w], app) {
				fw["same"] = true
			} else if w >= 0 && w <= len(buf) {
				fw["bytes"] = hex.EncodeToString(buf[:w])
			} else {
				fw["bytes"] = ""
			}
		}()
		res["fw"] = fw
		res["rs"] = stdReadObs(a[0], a[1], false, app)
		rf, _ := fastReadObs(a[0], a[1], false, app)
		res["rf"] = rf
		return res
	})

	RegisterCommand("fastread", func(a []string) interface{} {
		bs, err := hex.DecodeString(a[2])
		if err != nil {
			panic(err)
		}
		zero := len(a) > 3 && a[3] == "zero"
		f, _ := fastReadObs(a[0], a[1], zero, bs)
		return map[string]interface{}{"fast": f, "std": stdReadObs(a[0], a[1], zero, bs)}
	})

	RegisterCommand("fasttrunc", func(a []string) interface{} {
		bs, err := hex.DecodeString(a[2])
		if err != nil {
			panic(err)
		}
		var sb strings.Builder
		for n := 0; n < len(bs); n++ {
			o := New(a[0], a[1])
			x, ok := o.(fastCodec)
			if !ok {
				return map[string]interface{}{"unsupported": true}
			}
			cls, _, _ := safeFastRead(x, exact(bs[:n]))
			sb.WriteString(fastLetter(cls))
		}
		return map[string]interface{}{"classes": sb.String()}
	})

	RegisterCommand("fastcorrupt", func(a []string) interface{} {
		bs, err := hex.DecodeString(a[2])
		if err != nil {
			panic(err)
		}
		base, baseDump := fastReadObs(a[0], a[1], false, bs)
		if base["err"] == "unsupported" {
			return map[string]interface{}{"unsupported": true}
		}
		var runs []interface{}
		for _, pos := range parseInts(a[3]) {
			for _, v := range parseInts(a[4]) {
				if pos < 0 || pos >= len(bs) || int(bs[pos]) == v {
					continue
				}
				c := exact(bs)
				c[pos] = byte(v)
				r, d := fastReadObs(a[0], a[1], false, c)
				cls := r["err"].(string)
				var dump interface{}
				if cls == "ok" && d != baseDump {
					dump = json.RawMessage(d)
				}
				off := r["off"].(int)
				if cls != "ok" {
					off = -1
				}
				runs = append(runs, []interface{}{pos, v, fastLetter(cls), off, dump})
			}
		}
		return map[string]interface{}{"base": base, "runs": runs}
	})
}
