(* Idl/AstUtil.v — lookups and folds over Idl/Ast.v (definitions only, no proofs).

   Lookups follow the Go helpers of parser/AST-extend.go (first match wins):
     find_typedef / find_constant / find_enum / find_struct / find_union /
     find_exception / find_service / find_struct_like / find_field
   Name helpers follow semantic/split.go: [idl_prefix] (IDLPrefix), [split_type]
   (SplitType), [split_value] (SplitValue).
   Folds:
     file_types       every Type occurrence of a file, sub-types included, in source
                      order per kind (typedefs, constants, structs, unions,
                      exceptions, services)
     file_const_values every ConstValue occurrence (constants, then field defaults),
                      nested values included
     file_fields      every Field (struct-likes, then arguments and throws)
     file_annotations every annotation list
     file_comments    every recorded comment
     file_def_names   the names RegisterNames adds to Name2Category, with category  *)
From Coq Require Import List Bool NArith ZArith.
From Coq.Strings Require Import Byte String.
From Verif Require Import Base.Bytes Idl.Ast.
Import ListNotations.

(* ---------------------------------------------------------------- generic *)

Fixpoint find_by {A} (key : A -> bytes) (k : bytes) (l : list A) : option A :=
  match l with
  | [] => None
  | x :: r => if beqb (key x) k then Some x else find_by key k r
  end.

Definition flat_map' {A B} (f : A -> list B) (l : list A) : list B := List.concat (map f l).

(* ---------------------------------------------------------------- lookups *)

Definition find_typedef (f : file) (alias : bytes) : option typedef := find_by td_alias alias (f_typedefs f).
Definition find_constant (f : file) (name : bytes) : option constant := find_by co_name name (f_constants f).
Definition find_enum (f : file) (name : bytes) : option enum := find_by en_name name (f_enums f).
Definition find_struct (f : file) (name : bytes) : option struct_like := find_by sl_name name (f_structs f).
Definition find_union (f : file) (name : bytes) : option struct_like := find_by sl_name name (f_unions f).
Definition find_exception (f : file) (name : bytes) : option struct_like := find_by sl_name name (f_exceptions f).
Definition find_service (f : file) (name : bytes) : option service := find_by sv_name name (f_services f).
Definition find_enum_value (e : enum) (name : bytes) : option enum_value := find_by ev_name name (en_values e).
Definition find_field (s : struct_like) (name : bytes) : option field := find_by fd_name name (sl_fields s).
Definition find_function (s : service) (name : bytes) : option function := find_by fn_name name (sv_functions s).

(* GetStructLikes: structs, then unions, then exceptions *)
Definition struct_likes (f : file) : list struct_like := f_structs f ++ f_unions f ++ f_exceptions f.
Definition find_struct_like (f : file) (name : bytes) : option struct_like := find_by sl_name name (struct_likes f).

(* the file an include statement refers to, inside a program *)
Definition include_target (p : program) (i : include) : option file :=
  match in_ref i with Some fn => prog_file p fn | None => None end.
Definition nth_include (f : file) (idx : Z) : option include :=
  if (idx <? 0)%Z then None else nth_error (f_includes f) (Z.to_nat idx).
(* the file a [reference] points into *)
Definition reference_target (p : program) (f : file) (r : reference) : option file :=
  match nth_include f (ref_index r) with Some i => include_target p i | None => None end.

(* ---------------------------------------------------------------- names *)

Definition dot : byte := x2e.
Definition slash : byte := x2f.

(* position-free helpers on byte strings *)
Fixpoint split_on (c : byte) (s : bytes) (cur : bytes) : list bytes :=
  match s with
  | [] => [rev cur]
  | b :: r => if Byte.eqb b c then rev cur :: split_on c r [] else split_on c r (b :: cur)
  end.
(* [last_index_split c s] = Some (before, after) around the LAST occurrence of c *)
Definition last_index_split (c : byte) (s : bytes) : option (bytes * bytes) :=
  let parts := split_on c s [] in
  match rev parts with
  | [] | [_] => None
  | last :: before_rev =>
    let before := rev before_rev in
    Some (List.concat (match before with
                        | [] => []
                        | x :: r => x :: map (fun p => c :: p) r
                        end), last)
  end.

(* filepath.Base for slash paths without trailing slash *)
Definition base_name (path : bytes) : bytes :=
  match last_index_split slash path with Some (_, b) => b | None => path end.
(* semantic.IDLPrefix: base name without its last extension (filepath.Ext: from the
   last dot of the base name; a base name without a dot is returned unchanged) *)
Definition idl_prefix (path : bytes) : bytes :=
  let b := base_name path in
  match last_index_split dot b with Some (stem, _) => stem | None => b end.

(* semantic.SplitType: [] for "", [id] without a dot, else [before last dot; after] *)
Definition split_type (id : bytes) : list bytes :=
  match id with
  | [] => []
  | _ => match last_index_split dot id with
         | None => [id]
         | Some (a, b) => [a; b]
         end
  end.

(* semantic.SplitValue: every way to read id as NAME, X.NAME or X.Y.NAME *)
Definition split_value (id : bytes) : list (list bytes) :=
  match id with
  | [] => []
  | _ => match last_index_split dot id with
         | None => [[id]]
         | Some (i, v) =>
           [i; v] :: match last_index_split dot i with
                     | None => []
                     | Some (i', e) => [[i'; e; v]]
                     end
         end
  end.

(* the includes of [f] whose IDLPrefix is [prefix], with their index *)
Definition includes_with_prefix (f : file) (prefix : bytes) : list (nat * include) :=
  filter (fun p => beqb (idl_prefix (in_path (snd p))) prefix)
         (combine (seq 0 (List.length (f_includes f))) (f_includes f)).

(* ---------------------------------------------------------------- base types *)

Definition base_type_names : list bytes :=
  map B ["bool"; "byte"; "i8"; "i16"; "i32"; "i64"; "double"; "string"; "binary"]%string.
Definition container_type_names : list bytes := map B ["map"; "set"; "list"]%string.

Definition is_base_type_name (n : bytes) : bool := existsb (beqb n) base_type_names.
Definition is_container_type_name (n : bytes) : bool := existsb (beqb n) container_type_names.

(* semantic.categoryMap *)
Definition builtin_category (n : bytes) : option category :=
  lookup n [(B "bool", CatBool); (B "byte", CatByte); (B "i8", CatByte); (B "i16", CatI16);
            (B "i32", CatI32); (B "i64", CatI64); (B "double", CatDouble); (B "string", CatString);
            (B "binary", CatBinary); (B "map", CatMap); (B "list", CatList); (B "set", CatSet)]%string.

Definition is_base_category (c : category) : bool :=
  (N.leb (category_code CatBool) (category_code c) && N.leb (category_code c) (category_code CatBinary))%bool.
Definition is_container_category (c : category) : bool :=
  match c with CatMap | CatList | CatSet => true | _ => false end.
Definition is_struct_like_category (c : category) : bool :=
  match c with CatStruct | CatUnion | CatException => true | _ => false end.

(* ---------------------------------------------------------------- folds *)

(* a type and all its sub-types, outermost first, key before value *)
Fixpoint ty_subtypes (t : ty) : list ty :=
  match t with
  | Ty _ k v _ _ _ _ _ =>
    t :: (match k with Some x => ty_subtypes x | None => [] end)
      ++ (match v with Some x => ty_subtypes x | None => [] end)
  end.

Fixpoint ty_depth (t : ty) : nat :=
  match t with
  | Ty _ k v _ _ _ _ _ =>
    S (Nat.max (match k with Some x => ty_depth x | None => 0 end)
               (match v with Some x => ty_depth x | None => 0 end))
  end.

(* a const value and all nested values, outermost first *)
Fixpoint cv_subvalues (c : const_value) : list const_value :=
  c :: match c with
       | CList l => List.concat (map cv_subvalues l)
       | CMap l => List.concat (map (fun kv => cv_subvalues (fst kv) ++ cv_subvalues (snd kv)) l)
       | _ => []
       end.

Fixpoint cv_depth (c : const_value) : nat :=
  match c with
  | CList l => S (fold_right (fun x acc => Nat.max (cv_depth x) acc) 0 l)
  | CMap l => S (fold_right (fun kv acc => Nat.max (Nat.max (cv_depth (fst kv)) (cv_depth (snd kv))) acc) 0 l)
  | _ => 1
  end.

Definition function_fields (fn : function) : list field := fn_args fn ++ fn_throws fn.
Definition service_fields (s : service) : list field := flat_map' function_fields (sv_functions s).

(* every Field of a file: struct, union, exception fields, then arguments and throws *)
Definition file_fields (f : file) : list field :=
  flat_map' sl_fields (struct_likes f) ++ flat_map' service_fields (f_services f).

(* top-level type occurrences (not descending into containers) *)
Definition file_top_types (f : file) : list ty :=
  map td_type (f_typedefs f) ++ map co_type (f_constants f) ++
  map fd_type (flat_map' sl_fields (struct_likes f)) ++
  flat_map' (fun s => flat_map' (fun fn => fn_type fn :: map fd_type (function_fields fn)) (sv_functions s))
            (f_services f).
(* every type occurrence, sub-types included *)
Definition file_types (f : file) : list ty := flat_map' ty_subtypes (file_top_types f).

(* top-level const values: constant values, then defaults of all fields *)
Definition file_top_const_values (f : file) : list const_value :=
  map co_value (f_constants f) ++
  flat_map' (fun fd => match fd_default fd with Some c => [c] | None => [] end) (file_fields f).
Definition file_const_values (f : file) : list const_value := flat_map' cv_subvalues (file_top_const_values f).

Definition field_annotations (fd : field) : list annotations :=
  fd_annos fd :: map ty_annos (ty_subtypes (fd_type fd)).

(* every annotation list of a file (types, namespaces, definitions, fields, values, functions) *)
Definition file_annotations (f : file) : list annotations :=
  map ns_annos (f_namespaces f) ++ map ty_annos (file_types f) ++
  map td_annos (f_typedefs f) ++ map co_annos (f_constants f) ++
  flat_map' (fun e => en_annos e :: map ev_annos (en_values e)) (f_enums f) ++
  map sl_annos (struct_likes f) ++ map fd_annos (file_fields f) ++
  flat_map' (fun s => sv_annos s :: map fn_annos (sv_functions s)) (f_services f).

(* every recorded comment *)
Definition file_comments (f : file) : list bytes :=
  map td_comments (f_typedefs f) ++ map co_comments (f_constants f) ++
  flat_map' (fun e => en_comments e :: map ev_comments (en_values e)) (f_enums f) ++
  map sl_comments (struct_likes f) ++ map fd_comments (file_fields f) ++
  flat_map' (fun s => sv_comments s :: map fn_comments (sv_functions s)) (f_services f).

(* the global names of a file with their direct category, in the order
   resolver.RegisterNames adds them: typedefs, constants, enums, structs, unions,
   exceptions (ForEachStructLike order), services *)
Definition sl_kind_category (k : sl_kind) : category :=
  match k with SKStruct => CatStruct | SKUnion => CatUnion | SKException => CatException end.
Definition file_def_names (f : file) : list (bytes * category) :=
  map (fun t => (td_alias t, CatTypedef)) (f_typedefs f) ++
  map (fun c => (co_name c, CatConstant)) (f_constants f) ++
  map (fun e => (en_name e, CatEnum)) (f_enums f) ++
  map (fun s => (sl_name s, sl_kind_category (sl_category s))) (struct_likes f) ++
  map (fun s => (sv_name s, CatService)) (f_services f).

(* number of definitions of each kind (handy for statistics and non-vacuity) *)
Definition file_def_count (f : file) : nat :=
  List.length (f_typedefs f) + List.length (f_constants f) + List.length (f_enums f) +
  List.length (struct_likes f) + List.length (f_services f).

(* all files of a program *)
Definition prog_files (p : program) : list file := map snd p.
