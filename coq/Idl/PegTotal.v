(* Idl/PegTotal.v — a well-formed parsing expression grammar terminates on every input
   (B. Ford, POPL 2004, section 3.6), for the syntax, the check [wf_peg] and the fuelled
   interpreter [run] of Idl/Peg.v:

     peg_total : wf_peg g = true -> forall s, exists n, run n g (PNT 0) s <> RFuel.

   Ingredients: the interpreter is monotone in its fuel; a successful run returns a suffix
   of its input; the behaviour table checked by [wf_peg] is a sound over-approximation of
   what expressions can do (succeed without consuming, succeed consuming, fail); then
   induction on the length of the input, on the round of the well-formedness iteration in
   which a rule was accepted (its rank: no left recursion), and on the expression. *)
From Coq Require Import List Bool NArith Arith Lia.
From Coq.Strings Require Import Byte.
From Verif Require Import Base.Bytes Idl.Peg.
Import ListNotations.

(* ---------------------------------------------------------------- the interpreter, unfolded *)

Lemma run_S f g e s :
  run (S f) g e s =
  match e with
  | PEps => ROk s
  | PAny => match s with _ :: r => ROk r | [] => RFail end
  | PChar c => match s with d :: r => if Byte.eqb c d then ROk r else RFail | [] => RFail end
  | PRange lo hi =>
    match s with
    | d :: r => if (N.leb (Byte.to_N lo) (Byte.to_N d) && N.leb (Byte.to_N d) (Byte.to_N hi))%bool then ROk r else RFail
    | [] => RFail
    end
  | PLit t => if is_prefix t s then ROk (skipn (List.length t) s) else RFail
  | PNT n => run f g (rule_body g n) s
  | PSeq a b => match run f g a s with ROk r => run f g b r | x => x end
  | PAlt a b => match run f g a s with RFail => run f g b s | x => x end
  | PStar a => match run f g a s with
               | ROk r => run f g (PStar a) r
               | RFail => ROk s
               | RFuel => RFuel
               end
  | PPlus a => match run f g a s with ROk r => run f g (PStar a) r | x => x end
  | POpt a => match run f g a s with RFail => ROk s | x => x end
  | PNot a => match run f g a s with ROk _ => RFail | RFail => ROk s | RFuel => RFuel end
  | PAnd a => match run f g a s with ROk _ => ROk s | x => x end
  | PCap a => run f g a s
  end.
Proof. destruct e; reflexivity. Qed.

(* ---------------------------------------------------------------- fuel monotonicity *)

Lemma run_mono g : forall n e s, run n g e s <> RFuel -> forall m, n <= m -> run m g e s = run n g e s.
Proof.
  induction n as [|n IH]; intros e s H m Hm; [exfalso; apply H; reflexivity|].
  destruct m as [|m]; [lia|]. assert (Hnm : n <= m) by lia.
  rewrite run_S in H. rewrite !run_S.
  destruct e; try reflexivity.
  - apply IH; assumption.
  - destruct (run n g e1 s) as [r| |] eqn:E1.
    + rewrite (IH e1 s) by (rewrite E1; [discriminate | exact Hnm] || (rewrite E1; discriminate) || exact Hnm).
      rewrite E1. apply IH; assumption.
    + rewrite (IH e1 s); [rewrite E1; reflexivity | rewrite E1; discriminate | exact Hnm].
    + exfalso. apply H. reflexivity.
  - destruct (run n g e1 s) as [r| |] eqn:E1.
    + rewrite (IH e1 s); [rewrite E1; reflexivity | rewrite E1; discriminate | exact Hnm].
    + rewrite (IH e1 s); [rewrite E1; apply IH; assumption | rewrite E1; discriminate | exact Hnm].
    + exfalso. apply H. reflexivity.
  - destruct (run n g e s) as [r| |] eqn:E1.
    + rewrite (IH e s); [rewrite E1; apply IH; assumption | rewrite E1; discriminate | exact Hnm].
    + rewrite (IH e s); [rewrite E1; reflexivity | rewrite E1; discriminate | exact Hnm].
    + exfalso. apply H. reflexivity.
  - destruct (run n g e s) as [r| |] eqn:E1.
    + rewrite (IH e s); [rewrite E1; apply IH; assumption | rewrite E1; discriminate | exact Hnm].
    + rewrite (IH e s); [rewrite E1; reflexivity | rewrite E1; discriminate | exact Hnm].
    + exfalso. apply H. reflexivity.
  - destruct (run n g e s) as [r| |] eqn:E1.
    + rewrite (IH e s); [rewrite E1; reflexivity | rewrite E1; discriminate | exact Hnm].
    + rewrite (IH e s); [rewrite E1; reflexivity | rewrite E1; discriminate | exact Hnm].
    + exfalso. apply H. reflexivity.
  - destruct (run n g e s) as [r| |] eqn:E1.
    + rewrite (IH e s); [rewrite E1; reflexivity | rewrite E1; discriminate | exact Hnm].
    + rewrite (IH e s); [rewrite E1; reflexivity | rewrite E1; discriminate | exact Hnm].
    + exfalso. apply H. reflexivity.
  - destruct (run n g e s) as [r| |] eqn:E1.
    + rewrite (IH e s); [rewrite E1; reflexivity | rewrite E1; discriminate | exact Hnm].
    + rewrite (IH e s); [rewrite E1; reflexivity | rewrite E1; discriminate | exact Hnm].
    + exfalso. apply H. reflexivity.
  - apply IH; assumption.
Qed.

(* ---------------------------------------------------------------- results are suffixes *)

Lemma skipn_suffix {A} n (s : list A) : exists p, s = p ++ skipn n s.
Proof. exists (firstn n s). symmetry. apply firstn_skipn. Qed.

Lemma run_suffix g : forall n e s r, run n g e s = ROk r -> exists p, s = p ++ r.
Proof.
  induction n as [|n IH]; intros e s r H; [discriminate|].
  rewrite run_S in H. destruct e.
  - injection H as <-. exists []. reflexivity.
  - destruct s as [|c s']; [discriminate|]. injection H as <-. exists [c]. reflexivity.
  - destruct s as [|d s']; [discriminate|]. destruct (Byte.eqb c d); [|discriminate]. injection H as <-. exists [d]. reflexivity.
  - destruct s as [|d s']; [discriminate|].
    destruct (N.leb (Byte.to_N lo) (Byte.to_N d) && N.leb (Byte.to_N d) (Byte.to_N hi))%bool; [|discriminate].
    injection H as <-. exists [d]. reflexivity.
  - destruct (is_prefix s0 s); [|discriminate]. injection H as <-. apply skipn_suffix.
  - apply (IH _ _ _ H).
  - destruct (run n g e1 s) as [r1| |] eqn:E1; try discriminate.
    destruct (IH _ _ _ E1) as (p1 & ->). destruct (IH _ _ _ H) as (p2 & ->).
    exists (p1 ++ p2). rewrite app_assoc. reflexivity.
  - destruct (run n g e1 s) as [r1| |] eqn:E1; try discriminate.
    + injection H as <-. apply (IH _ _ _ E1).
    + apply (IH _ _ _ H).
  - destruct (run n g e s) as [r1| |] eqn:E1; try discriminate.
    + destruct (IH _ _ _ E1) as (p1 & ->). destruct (IH _ _ _ H) as (p2 & ->).
      exists (p1 ++ p2). rewrite app_assoc. reflexivity.
    + injection H as <-. exists []. reflexivity.
  - destruct (run n g e s) as [r1| |] eqn:E1; try discriminate.
    destruct (IH _ _ _ E1) as (p1 & ->). destruct (IH _ _ _ H) as (p2 & ->).
    exists (p1 ++ p2). rewrite app_assoc. reflexivity.
  - destruct (run n g e s) as [r1| |] eqn:E1; try discriminate.
    + injection H as <-. apply (IH _ _ _ E1).
    + injection H as <-. exists []. reflexivity.
  - destruct (run n g e s) as [r1| |] eqn:E1; try discriminate. injection H as <-. exists []. reflexivity.
  - destruct (run n g e s) as [r1| |] eqn:E1; try discriminate. injection H as <-. exists []. reflexivity.
  - apply (IH _ _ _ H).
Qed.

Lemma run_length g n e s r : run n g e s = ROk r -> List.length r <= List.length s.
Proof. intro H. destruct (run_suffix g n e s r H) as (p & ->). rewrite app_length. lia. Qed.

(* ---------------------------------------------------------------- the behaviour table is sound *)

Section Sound.
  Variable g : grammar.
  Variable tbl : list behav.
  (* the table is a fixpoint of Ford's rules on the rules of g *)
  Hypothesis Htbl : forall k, k < List.length g -> nth k tbl behav_none = behav_of tbl (rule_body g k).
  Hypothesis Hrefs : forall k, k < List.length g -> refs_ok (List.length g) (rule_body g k) = true.

  Definition sound_res (e : pexp) (s : bytes) (x : res) : Prop :=
    match x with
    | ROk r => if List.length r =? List.length s then b0 (behav_of tbl e) = true else b1 (behav_of tbl e) = true
    | RFail => bf (behav_of tbl e) = true
    | RFuel => True
    end.

  Lemma len_eq_trans (a b c : bytes) :
    List.length c <= List.length b -> List.length b <= List.length a ->
    (List.length c =? List.length a) = ((List.length c =? List.length b) && (List.length b =? List.length a)).
  Proof.
    intros H1 H2. destruct (List.length c =? List.length a) eqn:E.
    - apply Nat.eqb_eq in E. symmetry. apply andb_true_iff. split; apply Nat.eqb_eq; lia.
    - apply Nat.eqb_neq in E. symmetry. apply andb_false_iff.
      destruct (List.length c =? List.length b) eqn:E1; [|left; reflexivity].
      right. apply Nat.eqb_eq in E1. apply Nat.eqb_neq. lia.
  Qed.

  Ltac bool_close :=
    cbn [andb orb negb];
    repeat match goal with
           | |- context [b0 ?x] => destruct (b0 x)
           | |- context [b1 ?x] => destruct (b1 x)
           | |- context [bf ?x] => destruct (bf x)
           end; try reflexivity; try discriminate.

  Lemma behav_sound : forall n e s, refs_ok (List.length g) e = true -> sound_res e s (run n g e s).
  Proof.
    induction n as [|n IH]; intros e s Hr; [exact I|].
    rewrite run_S. destruct e; cbn [refs_ok] in Hr.
    - cbn. rewrite Nat.eqb_refl. reflexivity.
    - destruct s as [|c s']; cbn; [reflexivity|].
      replace (List.length s' =? S (List.length s')) with false by (symmetry; apply Nat.eqb_neq; lia). reflexivity.
    - destruct s as [|d s']; cbn; [reflexivity|]. destruct (Byte.eqb c d); cbn; [|reflexivity].
      replace (List.length s' =? S (List.length s')) with false by (symmetry; apply Nat.eqb_neq; lia). reflexivity.
    - destruct s as [|d s']; cbn; [reflexivity|].
      destruct (N.leb (Byte.to_N lo) (Byte.to_N d) && N.leb (Byte.to_N d) (Byte.to_N hi))%bool; cbn; [|reflexivity].
      replace (List.length s' =? S (List.length s')) with false by (symmetry; apply Nat.eqb_neq; lia). reflexivity.
    - destruct (is_prefix s0 s) eqn:Ep.
      + unfold sound_res. cbn [behav_of]. destruct s0 as [|c0 s0'].
        * cbn. rewrite Nat.eqb_refl. reflexivity.
        * apply is_prefix_spec in Ep. destruct Ep as (r & ->).
          replace (skipn (List.length (c0 :: s0')) ((c0 :: s0') ++ r)) with r
            by (rewrite skipn_app, skipn_all, Nat.sub_diag; reflexivity).
          rewrite app_length. cbn [List.length b1].
          replace (List.length r =? S (List.length s0') + List.length r) with false
            by (symmetry; apply Nat.eqb_neq; lia). reflexivity.
      + unfold sound_res. cbn [behav_of]. destruct s0; [discriminate | reflexivity].
    - (* nonterminal *)
      apply Nat.ltb_lt in Hr. specialize (IH (rule_body g n0) s (Hrefs n0 Hr)).
      unfold sound_res in *. cbn [behav_of]. rewrite (Htbl n0 Hr). exact IH.
    - (* sequence *)
      apply andb_true_iff in Hr. destruct Hr as [Hr1 Hr2].
      assert (I1 := IH e1 s Hr1). destruct (run n g e1 s) as [r1| |] eqn:E1.
      + assert (I2 := IH e2 r1 Hr2). destruct (run n g e2 r1) as [r2| |] eqn:E2; [| |exact I].
        * unfold sound_res in *. cbn [behav_of b0 b1].
          assert (L1 := run_length _ _ _ _ _ E1). assert (L2 := run_length _ _ _ _ _ E2).
          rewrite (len_eq_trans s r1 r2 L2 L1).
          destruct (List.length r2 =? List.length r1); destruct (List.length r1 =? List.length s); cbn [andb];
            rewrite I1, I2; bool_close.
        * unfold sound_res in *. cbn [behav_of bf].
          destruct (List.length r1 =? List.length s); rewrite I1, I2; bool_close.
      + unfold sound_res in *. cbn [behav_of bf]. rewrite I1. reflexivity.
      + exact I.
    - (* choice *)
      apply andb_true_iff in Hr. destruct Hr as [Hr1 Hr2].
      assert (I1 := IH e1 s Hr1). destruct (run n g e1 s) as [r1| |] eqn:E1.
      + unfold sound_res in *. cbn [behav_of b0 b1].
        destruct (List.length r1 =? List.length s); rewrite I1; reflexivity.
      + assert (I2 := IH e2 s Hr2). destruct (run n g e2 s) as [r2| |] eqn:E2; [| |exact I].
        * unfold sound_res in *. cbn [behav_of b0 b1].
          destruct (List.length r2 =? List.length s); rewrite I1, I2; bool_close.
        * unfold sound_res in *. cbn [behav_of bf]. rewrite I1, I2. reflexivity.
      + exact I.
    - (* star *)
      assert (I1 := IH e s Hr). destruct (run n g e s) as [r1| |] eqn:E1.
      + assert (I2 := IH (PStar e) r1 Hr). destruct (run n g (PStar e) r1) as [r2| |] eqn:E2; [| |exact I].
        * unfold sound_res in *. cbn [behav_of b0 b1 bf] in *.
          assert (L1 := run_length _ _ _ _ _ E1). assert (L2 := run_length _ _ _ _ _ E2).
          rewrite (len_eq_trans s r1 r2 L2 L1).
          destruct (List.length r2 =? List.length r1); destruct (List.length r1 =? List.length s); cbn [andb].
          -- exact I2.
          -- rewrite I1, I2. reflexivity.
          -- exact I2.
          -- exact I2.
        * unfold sound_res in I2. cbn [behav_of bf] in I2. discriminate.
      + unfold sound_res in *. cbn [behav_of b0]. rewrite Nat.eqb_refl. exact I1.
      + exact I.
    - (* plus *)
      assert (I1 := IH e s Hr). destruct (run n g e s) as [r1| |] eqn:E1.
      + assert (I2 := IH (PStar e) r1 Hr). destruct (run n g (PStar e) r1) as [r2| |] eqn:E2; [| |exact I].
        * unfold sound_res in *. cbn [behav_of b0 b1 bf] in *.
          assert (L1 := run_length _ _ _ _ _ E1). assert (L2 := run_length _ _ _ _ _ E2).
          rewrite (len_eq_trans s r1 r2 L2 L1).
          destruct (List.length r2 =? List.length r1); destruct (List.length r1 =? List.length s); cbn [andb].
          -- exact I1.
          -- exact I1.
          -- apply andb_true_iff in I2. tauto.
          -- exact I1.
        * unfold sound_res in I2. cbn [behav_of bf] in I2. discriminate.
      + unfold sound_res in *. cbn [behav_of bf]. exact I1.
      + exact I.
    - (* option *)
      assert (I1 := IH e s Hr). destruct (run n g e s) as [r1| |] eqn:E1.
      + unfold sound_res in *. cbn [behav_of b0 b1].
        destruct (List.length r1 =? List.length s); rewrite I1; bool_close.
      + unfold sound_res in *. cbn [behav_of b0]. rewrite Nat.eqb_refl, I1. bool_close.
      + exact I.
    - (* not *)
      assert (I1 := IH e s Hr). destruct (run n g e s) as [r1| |] eqn:E1.
      + unfold sound_res in *. cbn [behav_of bf].
        destruct (List.length r1 =? List.length s); rewrite I1; bool_close.
      + unfold sound_res in *. cbn [behav_of b0]. rewrite Nat.eqb_refl. exact I1.
      + exact I.
    - (* and *)
      assert (I1 := IH e s Hr). destruct (run n g e s) as [r1| |] eqn:E1.
      + unfold sound_res in *. cbn [behav_of b0]. rewrite Nat.eqb_refl.
        destruct (List.length r1 =? List.length s); rewrite I1; bool_close.
      + unfold sound_res in *. cbn [behav_of bf]. exact I1.
      + exact I.
    - (* capture *)
      apply (IH e s Hr).
  Qed.

  (* what termination needs: an expression that cannot succeed without consuming does consume *)
  Lemma consumes_when_not_nullable n e s r :
    refs_ok (List.length g) e = true -> b0 (behav_of tbl e) = false -> run n g e s = ROk r ->
    List.length r < List.length s.
  Proof.
    intros Hr Hb E. assert (H := behav_sound n e s Hr). rewrite E in H. unfold sound_res in H.
    assert (L := run_length _ _ _ _ _ E).
    destruct (List.length r =? List.length s) eqn:El; [congruence|]. apply Nat.eqb_neq in El. lia.
  Qed.

  Lemma nullable_when_no_progress n e s r :
    refs_ok (List.length g) e = true -> run n g e s = ROk r -> List.length r = List.length s ->
    b0 (behav_of tbl e) = true.
  Proof.
    intros Hr E El. assert (H := behav_sound n e s Hr). rewrite E in H. unfold sound_res in H.
    rewrite El, Nat.eqb_refl in H. exact H.
  Qed.
End Sound.

(* ---------------------------------------------------------------- termination *)

Lemma iterate_S {A} (f : A -> A) : forall k x, iterate (S k) f x = f (iterate k f x).
Proof. induction k as [|k IH]; intro x; [reflexivity|]. cbn [iterate] in *. rewrite <- IH. reflexivity. Qed.

Lemma wf_deep_exp tbl W : forall e, wf_deep tbl W e = true -> wf_exp tbl W e = true.
Proof.
  induction e; cbn [wf_deep wf_exp]; intro H; try reflexivity; try assumption.
  - apply andb_true_iff in H. destruct H as [H1 H2]. rewrite (IHe1 H1). cbn.
    destruct (b0 (behav_of tbl e1)); [apply IHe2; exact H2 | reflexivity].
  - apply andb_true_iff in H. destruct H as [H1 H2]. rewrite (IHe1 H1), (IHe2 H2). reflexivity.
  - apply andb_true_iff in H. destruct H as [H1 H2]. rewrite (IHe H1), H2. reflexivity.
  - apply andb_true_iff in H. destruct H as [H1 H2]. rewrite (IHe H1), H2. reflexivity.
  - apply IHe. exact H.
  - apply IHe. exact H.
  - apply IHe. exact H.
  - apply IHe. exact H.
Qed.

Lemma nth_map_false {A} (l : list A) : forall k, nth k (map (fun _ => false) l) false = false.
Proof. induction l as [|x l IH]; intros [|k]; cbn; try reflexivity. apply IH. Qed.

Section Total.
  Variable g : grammar.
  Hypothesis Hwf : wf_peg g = true.

  Let len := List.length g.
  Let tbl := behav_table g.
  Let WK := wf_set g.
  Let W (k : nat) := iterate k (wf_step g tbl) (map (fun _ => false) g).
  Let d0 : bytes * pexp := ([], PEps).

  Lemma rule_body_nth k : k < len -> rule_body g k = snd (nth k g d0).
  Proof.
    intro Hk. unfold rule_body. destruct (nth_error g k) as [[nm e]|] eqn:E.
    - rewrite (nth_error_nth _ _ _ E). reflexivity.
    - apply nth_error_None in E. unfold len in Hk. lia.
  Qed.

  Lemma wf_parts :
    forallb (fun r => refs_ok len (snd r)) g = true /\ behav_table_stable g = true /\
    forallb (fun b => b) WK = true /\ forallb (fun r => wf_deep tbl WK (snd r)) g = true.
  Proof.
    unfold wf_peg in Hwf. apply andb_true_iff in Hwf. destruct Hwf as [H H4].
    apply andb_true_iff in H. destruct H as [H H3]. apply andb_true_iff in H. destruct H as [H1 H2].
    repeat split; assumption.
  Qed.

  Lemma Hrefs : forall k, k < len -> refs_ok len (rule_body g k) = true.
  Proof.
    intros k Hk. destruct wf_parts as (H1 & _). rewrite forallb_forall in H1.
    rewrite (rule_body_nth k Hk). apply H1. apply nth_In. exact Hk.
  Qed.

  Lemma Hdeep : forall k, k < len -> wf_deep tbl WK (rule_body g k) = true.
  Proof.
    intros k Hk. destruct wf_parts as (_ & _ & _ & H4). rewrite forallb_forall in H4.
    rewrite (rule_body_nth k Hk). apply H4. apply nth_In. exact Hk.
  Qed.

  Lemma behav_eqb_eq x y : behav_eqb x y = true -> x = y.
  Proof.
    destruct x as [a1 a2 a3], y as [c1 c2 c3]. unfold behav_eqb. cbn. intro H.
    apply andb_true_iff in H. destruct H as [H H3]. apply andb_true_iff in H. destruct H as [H1 H2].
    apply eqb_prop in H1, H2, H3. subst. reflexivity.
  Qed.

  Lemma Htbl : forall k, k < len -> nth k tbl behav_none = behav_of tbl (rule_body g k).
  Proof.
    intros k Hk. destruct wf_parts as (_ & H2 & _). unfold behav_table_stable in H2. fold tbl in H2.
    assert (E : tbl = behav_step g tbl).
    { revert H2. generalize (behav_step g tbl). generalize tbl.
      intro t1. induction t1 as [|x a IH]; intros [|y c] H; try discriminate; [reflexivity|].
      apply andb_true_iff in H. destruct H as [Hx Hr]. rewrite (behav_eqb_eq _ _ Hx), (IH c Hr). reflexivity. }
    rewrite E at 1. unfold behav_step.
    rewrite (nth_indep _ behav_none (behav_of tbl (snd d0))) by (rewrite map_length; exact Hk).
    rewrite (map_nth (fun r => behav_of tbl (snd r))). rewrite <- (rule_body_nth k Hk). reflexivity.
  Qed.

  Lemma WK_all : forall k, k < len -> nth k WK false = true.
  Proof.
    intros k Hk. destruct wf_parts as (_ & _ & H3 & _). rewrite forallb_forall in H3.
    apply H3. apply nth_In. unfold WK, wf_set.
    assert (Hl : forall n x, List.length x = len -> List.length (iterate n (wf_step g (behav_table g)) x) = len).
    { induction n as [|n IH]; intros x Hx; [exact Hx|]. cbn [iterate]. apply IH. unfold wf_step. rewrite map_length. reflexivity. }
    rewrite Hl; [exact Hk | rewrite map_length; reflexivity].
  Qed.

  Lemma W_0 k : nth k (W 0) false = false.
  Proof.
    unfold W. cbn [iterate]. apply nth_map_false.
  Qed.

  Lemma W_S k A : A < len -> nth A (W (S k)) false = wf_exp tbl (W k) (rule_body g A).
  Proof.
    intro HA. unfold W. rewrite iterate_S. fold (W k). unfold wf_step.
    rewrite (nth_indep _ false (wf_exp tbl (W k) (snd d0))) by (rewrite map_length; exact HA).
    rewrite (map_nth (fun r => wf_exp tbl (W k) (snd r))). rewrite <- (rule_body_nth A HA). reflexivity.
  Qed.

  Lemma WK_is_W : WK = W (len + 1).
  Proof. reflexivity. Qed.

  Definition term (e : pexp) (s : bytes) : Prop := exists n, run n g e s <> RFuel.

  (* combining fuels *)
  Lemma at_fuel n e s : run n g e s <> RFuel -> forall m, n <= m -> run m g e s = run n g e s.
  Proof. intros H m Hm. apply run_mono; assumption. Qed.

  Section OneInput.
    Variable s : bytes.
    (* all shorter inputs are fine, for every well-formed expression *)
    Hypothesis IHshort : forall r, List.length r < List.length s ->
      forall e, refs_ok len e = true -> wf_deep tbl WK e = true -> term e r.

    Lemma term_struct (W' : list bool) :
      (forall A, A < len -> nth A W' false = true -> term (rule_body g A) s) ->
      forall e, refs_ok len e = true -> wf_exp tbl W' e = true -> wf_deep tbl WK e = true -> term e s.
    Proof.
      intro Hnt. induction e; cbn [refs_ok wf_exp wf_deep]; intros Hr Hw Hd.
      - exists 1. discriminate.
      - exists 1. rewrite run_S. destruct s; discriminate.
      - exists 1. rewrite run_S. destruct s as [|d s']; [discriminate|]. destruct (Byte.eqb c d); discriminate.
      - exists 1. rewrite run_S. destruct s as [|d s']; [discriminate|].
        destruct (N.leb (Byte.to_N lo) (Byte.to_N d) && N.leb (Byte.to_N d) (Byte.to_N hi))%bool; discriminate.
      - exists 1. rewrite run_S. destruct (is_prefix s0 s); discriminate.
      - apply Nat.ltb_lt in Hr. destruct (Hnt n Hr Hw) as (m & Hm). exists (S m). rewrite run_S. exact Hm.
      - (* sequence *)
        apply andb_true_iff in Hr. destruct Hr as [Hr1 Hr2].
        apply andb_true_iff in Hw. destruct Hw as [Hw1 Hw2].
        apply andb_true_iff in Hd. destruct Hd as [Hd1 Hd2].
        destruct (IHe1 Hr1 Hw1 Hd1) as (n1 & H1).
        destruct (run n1 g e1 s) as [r1| |] eqn:E1; [| |contradiction].
        + assert (L1 := run_length _ _ _ _ _ E1).
          assert (T2 : term e2 r1).
          { destruct (Nat.eq_dec (List.length r1) (List.length s)) as [El|Hne].
            - (* no progress: e1 is nullable, so e2 is well formed at this rank, and r1 = s *)
              assert (Hb : b0 (behav_of tbl e1) = true)
                by (apply (nullable_when_no_progress g tbl Htbl Hrefs n1 e1 s r1 Hr1 E1 El)).
              rewrite Hb in Hw2.
              destruct (run_suffix _ _ _ _ _ E1) as (p & Ep).
              assert (p = []) by (destruct p; [reflexivity | rewrite Ep, app_length in El; cbn in El; lia]).
              subst p. cbn in Ep. subst r1. apply IHe2; assumption.
            - apply IHshort; [lia | exact Hr2 | exact Hd2]. }
          destruct T2 as (n2 & H2).
          exists (S (Nat.max n1 n2)). rewrite run_S.
          assert (H1' : run n1 g e1 s <> RFuel) by (rewrite E1; discriminate).
          rewrite (at_fuel n1 e1 s H1' (Nat.max n1 n2)) by lia.
          rewrite E1. rewrite (at_fuel n2 e2 r1 H2 (Nat.max n1 n2)) by lia. exact H2.
        + exists (S n1). rewrite run_S, E1. discriminate.
      - (* choice *)
        apply andb_true_iff in Hr. destruct Hr as [Hr1 Hr2].
        apply andb_true_iff in Hw. destruct Hw as [Hw1 Hw2].
        apply andb_true_iff in Hd. destruct Hd as [Hd1 Hd2].
        destruct (IHe1 Hr1 Hw1 Hd1) as (n1 & H1). destruct (IHe2 Hr2 Hw2 Hd2) as (n2 & H2).
        exists (S (Nat.max n1 n2)). rewrite run_S.
        rewrite (at_fuel n1 e1 s H1 (Nat.max n1 n2)) by lia.
        destruct (run n1 g e1 s) as [r1| |] eqn:E1; [discriminate | | contradiction].
        rewrite (at_fuel n2 e2 s H2 (Nat.max n1 n2)) by lia. exact H2.
      - (* star *)
        apply andb_true_iff in Hw. destruct Hw as [Hw1 Hnb]. apply negb_true_iff in Hnb.
        assert (Hd' := Hd). apply andb_true_iff in Hd'. destruct Hd' as [Hd1 _].
        destruct (IHe Hr Hw1 Hd1) as (n1 & H1).
        destruct (run n1 g e s) as [r1| |] eqn:E1; [| |contradiction].
        + assert (Hlt := consumes_when_not_nullable g tbl Htbl Hrefs n1 e s r1 Hr Hnb E1).
          destruct (IHshort r1 Hlt (PStar e) Hr Hd) as (n2 & H2).
          exists (S (Nat.max n1 n2)). rewrite run_S.
          assert (H1' : run n1 g e s <> RFuel) by (rewrite E1; discriminate).
          rewrite (at_fuel n1 e s H1' (Nat.max n1 n2)) by lia.
          rewrite E1. rewrite (at_fuel n2 (PStar e) r1 H2 (Nat.max n1 n2)) by lia. exact H2.
        + exists (S n1). rewrite run_S, E1. discriminate.
      - (* plus *)
        apply andb_true_iff in Hw. destruct Hw as [Hw1 Hnb]. apply negb_true_iff in Hnb.
        assert (Hd' := Hd). apply andb_true_iff in Hd'. destruct Hd' as [Hd1 _].
        destruct (IHe Hr Hw1 Hd1) as (n1 & H1).
        destruct (run n1 g e s) as [r1| |] eqn:E1; [| |contradiction].
        + assert (Hlt := consumes_when_not_nullable g tbl Htbl Hrefs n1 e s r1 Hr Hnb E1).
          destruct (IHshort r1 Hlt (PStar e) Hr Hd) as (n2 & H2).
          exists (S (Nat.max n1 n2)). rewrite run_S.
          assert (H1' : run n1 g e s <> RFuel) by (rewrite E1; discriminate).
          rewrite (at_fuel n1 e s H1' (Nat.max n1 n2)) by lia.
          rewrite E1. rewrite (at_fuel n2 (PStar e) r1 H2 (Nat.max n1 n2)) by lia. exact H2.
        + exists (S n1). rewrite run_S, E1. discriminate.
      - destruct (IHe Hr Hw Hd) as (n1 & H1). exists (S n1). rewrite run_S.
        destruct (run n1 g e s); [discriminate | discriminate | contradiction].
      - destruct (IHe Hr Hw Hd) as (n1 & H1). exists (S n1). rewrite run_S.
        destruct (run n1 g e s); [discriminate | discriminate | contradiction].
      - destruct (IHe Hr Hw Hd) as (n1 & H1). exists (S n1). rewrite run_S.
        destruct (run n1 g e s); [discriminate | discriminate | contradiction].
      - destruct (IHe Hr Hw Hd) as (n1 & H1). exists (S n1). rewrite run_S. exact H1.
    Qed.

    (* rules by rank: the round in which the well-formedness iteration accepted them *)
    Lemma term_rank : forall k A, A < len -> nth A (W k) false = true -> term (rule_body g A) s.
    Proof.
      induction k as [|k IH]; intros A HA Hn.
      - rewrite W_0 in Hn. discriminate.
      - rewrite (W_S k A HA) in Hn.
        apply (term_struct (W k) IH (rule_body g A) (Hrefs A HA) Hn (Hdeep A HA)).
    Qed.

    Lemma term_here e : refs_ok len e = true -> wf_deep tbl WK e = true -> term e s.
    Proof.
      intros Hr Hd. apply (term_struct WK); [| exact Hr | apply wf_deep_exp; exact Hd | exact Hd].
      intros A HA _. apply (term_rank (len + 1) A HA). rewrite <- WK_is_W. apply WK_all. exact HA.
    Qed.
  End OneInput.

  Lemma term_all : forall L s, List.length s <= L ->
    forall e, refs_ok len e = true -> wf_deep tbl WK e = true -> term e s.
  Proof.
    induction L as [L IHL] using lt_wf_ind. intros s Hs e Hr Hd.
    apply term_here; [|exact Hr | exact Hd].
    intros r Hlt e' Hr' Hd'. apply (IHL (List.length r)); [lia | lia | exact Hr' | exact Hd'].
  Qed.

  Theorem peg_total_start : forall s, exists n, run n g (PNT 0) s <> RFuel.
  Proof.
    intro s. destruct (Nat.eq_dec len 0) as [E|E].
    - exists 3. unfold len in E. destruct g; [|discriminate]. cbn. discriminate.
    - apply (term_all (List.length s) s (le_n _) (PNT 0)).
      + cbn [refs_ok]. apply Nat.ltb_lt. lia.
      + cbn [wf_deep]. apply WK_all. lia.
  Qed.
End Total.

(* peg_total: a grammar that passes Ford's well-formedness check never runs out of (enough)
   fuel: parsing terminates on every input *)
Theorem peg_total : forall g, wf_peg g = true -> forall s, exists n, run n g (PNT 0) s <> RFuel.
Proof. exact peg_total_start. Qed.
