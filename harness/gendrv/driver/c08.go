package main

// Verbs for property C08 (generated client and processor carry a call end to end).
//
//	rpcseq <unit> <client service> <processor service> <calls JSON>
//
// wires  generated Client of <client service>  ->  recording in-memory transport  ->  generated
// Processor of <processor service>  with a scripted, recording handler (source derived from the
// generated interface by gendrv.WriteServiceGlue) and performs the calls one after the other on
// that one connection.
//
//	calls JSON: [{"svc": "<service declaring the method>", "m": "<IDL method name>", "args": [value...],
//	              "out": {"k":"ret","v":value} | {"k":"void"} | {"k":"throw","t":"<file.Exception>","v":value}
//	                   | {"k":"err","text":"..."}}, ...]
//	answer: {"calls":[{"req":hex, "reply":hex (""=nothing written), "log":[{"svc","m","args":[dump...]}...],
//	                   "got":{"k":"ret","v":dump} | {"k":"void"} | {"k":"exc","t":qname,"v":dump}
//	                        | {"k":"appexc","tid":n} | {"k":"err","cls":class} | {"k":"panic","msg":...},
//	                   "unread": bytes of the request the processor left unread,
//	                   "left": bytes of the reply the client left unread}...]}
//
//	rpcraw <unit> <processor service> <request hex> <out JSON>
//
// feeds raw request bytes to the processor: {"reply":hex,"log":[...],"unread":n}

import (
	"bytes"
	"context"
	"encoding/hex"
	"encoding/json"
	"errors"
	"fmt"
	"reflect"
	"sort"
	"strings"

	"github.com/apache/thrift/lib/go/thrift"
)

type HandlerFunc = func(svc, method string, args []interface{}, ret reflect.Type) (interface{}, error)

type MethodGlue struct {
	IDL string
	Go  string
}

type ServiceGlue struct {
	Base         string // qualified name of the base service ("" = none)
	Methods      []MethodGlue
	NewClient    func(t thrift.TTransport, f thrift.TProtocolFactory) interface{}
	NewProcessor func(f HandlerFunc) thrift.TProcessor
}

var services = map[string]*ServiceGlue{}

// RegisterService is called by the generated c08_services.go.
func RegisterService(unit, qname string, g *ServiceGlue) { services[unit+"|"+qname] = g }

type logEntry struct {
	Svc  string            `json:"svc"`
	M    string            `json:"m"`
	Args []json.RawMessage `json:"args"`
}

type outSpec struct {
	K    string          `json:"k"`
	V    json.RawMessage `json:"v"`
	T    string          `json:"t"`
	Text string          `json:"text"`
}

type callSpec struct {
	Svc  string            `json:"svc"`
	M    string            `json:"m"`
	Args []json.RawMessage `json:"args"`
	Out  outSpec           `json:"out"`
}

type callRec struct {
	Req    string                 `json:"req"`
	Reply  string                 `json:"reply"`
	Log    []logEntry             `json:"log"`
	Got    map[string]interface{} `json:"got"`
	Unread int                    `json:"unread"`
	Left   int                    `json:"left"`
	PPanic string                 `json:"processor_panic,omitempty"`
}

// scripted, recording handler
type script struct {
	unit string
	out  outSpec
	rec  *callRec
}

func (s *script) handle(svc, method string, args []interface{}, ret reflect.Type) (interface{}, error) {
	e := logEntry{Svc: svc, M: method, Args: []json.RawMessage{}}
	for _, a := range args {
		e.Args = append(e.Args, json.RawMessage(Dump(reflect.ValueOf(a))))
	}
	s.rec.Log = append(s.rec.Log, e)
	switch s.out.K {
	case "ret":
		if ret == nil {
			return nil, nil
		}
		rv := reflect.New(ret).Elem()
		Fill(rv, ParseValue(string(s.out.V)))
		return rv.Interface(), nil
	case "void":
		return nil, nil
	case "throw":
		x := NewZero(s.unit, s.out.T)
		Fill(reflect.ValueOf(x).Elem(), ParseValue(string(s.out.V)))
		return nil, x.(error)
	case "err":
		return nil, errors.New(s.out.Text)
	}
	panic("driver: unknown scripted outcome " + s.out.K)
}

// loopTransport: what the client writes is handed to the processor on Flush; what the processor
// writes is what the client reads next. Everything is recorded.
type loopTransport struct {
	out  bytes.Buffer
	in   bytes.Buffer
	proc thrift.TProcessor
	rec  *callRec
}

func (t *loopTransport) Read(p []byte) (int, error)  { return t.in.Read(p) }
func (t *loopTransport) Write(p []byte) (int, error) { return t.out.Write(p) }
func (t *loopTransport) Close() error                { return nil }
func (t *loopTransport) Open() error                 { return nil }
func (t *loopTransport) IsOpen() bool                { return true }
func (t *loopTransport) RemainingBytes() uint64      { return uint64(t.in.Len()) }
func (t *loopTransport) Flush(ctx context.Context) error {
	req := append([]byte{}, t.out.Bytes()...)
	t.out.Reset()
	reply, unread, pp := runProcessor(ctx, t.proc, req)
	t.rec.Req = hex.EncodeToString(req)
	t.rec.Reply = hex.EncodeToString(reply)
	t.rec.Unread = unread
	t.rec.PPanic = pp
	t.in.Write(reply)
	return nil
}

func runProcessor(ctx context.Context, proc thrift.TProcessor, req []byte) (reply []byte, unread int, pp string) {
	ib := thrift.NewTMemoryBuffer()
	ib.Write(req)
	ob := thrift.NewTMemoryBuffer()
	func() {
		defer func() {
			if r := recover(); r != nil {
				pp = fmt.Sprint(r)
			}
		}()
		proc.Process(ctx, thrift.NewTBinaryProtocolTransport(ib), thrift.NewTBinaryProtocolTransport(ob))
	}()
	return append([]byte{}, ob.Bytes()...), ib.Len(), pp
}

var typeNames = map[string]map[reflect.Type]string{}

// typeName: the IDL name of a registered struct-like type of the unit
func typeName(unit string, t reflect.Type) (string, bool) {
	m, ok := typeNames[unit]
	if !ok {
		m = map[reflect.Type]string{}
		for k, ctor := range registry {
			if strings.HasPrefix(k, unit+"|") {
				m[reflect.TypeOf(ctor())] = k[len(unit)+1:]
			}
		}
		typeNames[unit] = m
	}
	n, ok := m[t]
	return n, ok
}

func goMethod(unit, svc, idl string) string {
	g, ok := services[unit+"|"+svc]
	if !ok {
		panic("driver: service not registered: " + unit + "|" + svc)
	}
	for _, m := range g.Methods {
		if m.IDL == idl {
			return m.Go
		}
	}
	panic("driver: no method " + idl + " in " + svc)
}

func describeResult(unit string, outs []reflect.Value) map[string]interface{} {
	errv := outs[len(outs)-1]
	if !errv.IsNil() {
		err := errv.Interface().(error)
		if ae, ok := err.(thrift.TApplicationException); ok {
			return map[string]interface{}{"k": "appexc", "tid": ae.TypeId()}
		}
		if n, ok := typeName(unit, reflect.TypeOf(err)); ok {
			return map[string]interface{}{"k": "exc", "t": n, "v": json.RawMessage(Dump(reflect.ValueOf(err)))}
		}
		return map[string]interface{}{"k": "err", "cls": Classify(err)}
	}
	if len(outs) == 2 {
		return map[string]interface{}{"k": "ret", "v": json.RawMessage(Dump(outs[0]))}
	}
	return map[string]interface{}{"k": "void"}
}

func init() {
	RegisterCommand("rpcseq", func(a []string) interface{} {
		unit, csvc, psvc := a[0], a[1], a[2]
		var calls []callSpec
		dec := json.NewDecoder(strings.NewReader(a[3]))
		dec.UseNumber()
		if err := dec.Decode(&calls); err != nil {
			panic(err)
		}
		cg, ok := services[unit+"|"+csvc]
		if !ok {
			panic("driver: service not registered: " + unit + "|" + csvc)
		}
		pg, ok := services[unit+"|"+psvc]
		if !ok {
			panic("driver: service not registered: " + unit + "|" + psvc)
		}
		sc := &script{unit: unit}
		tr := &loopTransport{proc: pg.NewProcessor(sc.handle)}
		client := reflect.ValueOf(cg.NewClient(tr, thrift.NewTBinaryProtocolFactoryDefault()))
		recs := []*callRec{}
		for _, c := range calls {
			rec := &callRec{Log: []logEntry{}}
			recs = append(recs, rec)
			sc.out, sc.rec, tr.rec = c.Out, rec, rec
			func() {
				defer func() {
					if r := recover(); r != nil {
						rec.Got = map[string]interface{}{"k": "panic", "msg": fmt.Sprint(r)}
					}
				}()
				m := client.MethodByName(goMethod(unit, c.Svc, c.M))
				if !m.IsValid() {
					panic("driver: client has no method for " + c.Svc + "." + c.M)
				}
				mt := m.Type()
				if mt.NumIn() != len(c.Args)+1 {
					panic(fmt.Sprintf("driver: %s.%s takes %d arguments, %d given", c.Svc, c.M, mt.NumIn()-1, len(c.Args)))
				}
				in := []reflect.Value{reflect.ValueOf(context.Background())}
				for i, raw := range c.Args {
					v := reflect.New(mt.In(i + 1)).Elem()
					Fill(v, ParseValue(string(raw)))
					in = append(in, v)
				}
				rec.Got = describeResult(unit, m.Call(in))
			}()
			rec.Left = tr.in.Len()
			tr.in.Reset()  // a reply the client did not consume must not reach the next call's observation
			tr.out.Reset() // likewise a request that was never flushed
		}
		return map[string]interface{}{"calls": recs}
	})

	// rpcnames <unit> <processor service>: the keys of the generated processor's map, sorted
	RegisterCommand("rpcnames", func(a []string) interface{} {
		pg, ok := services[a[0]+"|"+a[1]]
		if !ok {
			panic("driver: service not registered: " + a[0] + "|" + a[1])
		}
		sc := &script{unit: a[0], rec: &callRec{}}
		m := reflect.ValueOf(pg.NewProcessor(sc.handle)).MethodByName("ProcessorMap")
		if !m.IsValid() {
			panic("driver: the processor has no ProcessorMap method")
		}
		names := []string{}
		for _, k := range m.Call(nil)[0].MapKeys() {
			names = append(names, k.String())
		}
		sort.Strings(names)
		return map[string]interface{}{"names": names}
	})

	RegisterCommand("rpcraw", func(a []string) interface{} {
		unit, psvc := a[0], a[1]
		req, err := hex.DecodeString(a[2])
		if err != nil {
			panic(err)
		}
		pg, ok := services[unit+"|"+psvc]
		if !ok {
			panic("driver: service not registered: " + unit + "|" + psvc)
		}
		rec := &callRec{Log: []logEntry{}}
		sc := &script{unit: unit, rec: rec}
		dec := json.NewDecoder(strings.NewReader(a[3]))
		dec.UseNumber()
		if err := dec.Decode(&sc.out); err != nil {
			panic(err)
		}
		reply, unread, pp := runProcessor(context.Background(), pg.NewProcessor(sc.handle), req)
		rec.Req, rec.Reply, rec.Unread, rec.PPanic = a[2], hex.EncodeToString(reply), unread, pp
		return rec
	})
}
