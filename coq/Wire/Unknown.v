(* Wire/Unknown.v — schema evolution and the keep_unknown_fields extension (property C09).

   Mirrors
     generator/golang/extension/unknown/unknown.go   Fields.Append / read   -> append_field / append_val
                                                     Fields.Write / write   -> write_unknown / uwrite
     generator/golang/extension/unknown/binary.go    the Binary reader / writer the two functions use
     generator/golang/templates/struct.go            the default branch of the Read switch
                                                     (HandleUnknownFields), _unknownFields.Write after the
                                                     known fields, CarryingUnknownFields
   on top of the standard codec of Wire/Std.v.

   Representation.  An object of code generated with keep_unknown_fields is a [VStruct] whose FIRST
   slot is the pseudo-slot (unk_id, VBin buf): buf = the Go field _unknownFields (unknown.Fields, a
   byte buffer holding the binary-protocol encoding of every unrecognised field, in arrival order).
   unk_id = 32768 lies outside the 16-bit range of Thrift field ids, so it never clashes.  The
   remaining slots are the declared fields, exactly as in Wire/Value.v.

     append_val d w        unknown.read: re-encode a wire value into the buffer, nesting limit d
     append_field d f      Fields.Append: field header + append_val (limit = maxNestingDepth = 64)
     uwrite fuel t bs      unknown.write: parse one value of wire type t out of the buffer
     write_unknown fuel b  Fields.Write: parse the whole buffer into the fields it emits
     from_wk e t w         FieldRead / X.Read of code generated WITH keep_unknown_fields
     to_wk e t v           FieldWrite / X.Write of code generated WITH keep_unknown_fields
     from_wire_keep, read_new_keep, to_wire_keep   top level
     carrying x            CarryingUnknownFields()
     strip x               forget the pseudo-slots (the object the plain code would hold)
     adapt e t v           view a value of another version of the schema under schema e: slots of e in
                           declaration order, slots e does not have dropped, slots the value does not
                           have filled with what NewX() puts there (restrict / with_defaults)
     extendsb o n          decidable "n is o after compatible edits"
     opt_init_unset, keepable   the domain of the keep theorems (see UnknownFacts)
   No proofs in this file. *)
From Coq Require Import List ZArith Bool Lia.
From Coq.Strings Require Import Byte.
From Verif Require Import Base.Bytes Base.BE Wire.TType Wire.WVal Wire.Codec Wire.Schema Wire.Value Wire.GenTables Wire.Std.
Import ListNotations.
Open Scope Z_scope.

Definition limit : nat := 64.          (* unknown.maxNestingDepth *)
Definition unk_id : Z := 32768.        (* pseudo-slot of _unknownFields *)

(* ---- errors of the keep-aware code: those of the standard codec, the nesting limit of
        unknown.read (ErrExceedDepthLimit) and a kept buffer that does not parse (cannot happen for
        buffers Append produced; kept so that to_wk is total) ---- *)
Inductive kerr := KStd (e : err) | KDepth | KBuf.
Inductive kres (A : Type) := KOk (a : A) | KErr (e : kerr).
Arguments KOk {A} a.
Arguments KErr {A} e.

Definition kbind {A B} (r : kres A) (f : A -> kres B) : kres B :=
  match r with KOk a => f a | KErr e => KErr e end.
Definition lift {A} (r : result A) : kres A :=
  match r with Ok a => KOk a | Err e => KErr (KStd e) end.

Section KMapM.
  Context {A B : Type} (f : A -> kres B).
  Fixpoint kmapM (l : list A) : kres (list B) :=
    match l with
    | [] => KOk []
    | x :: r => match f x with
                | KErr e => KErr e
                | KOk y => match kmapM r with KErr e => KErr e | KOk ys => KOk (y :: ys) end
                end
    end.
End KMapM.

Section KFoldM.
  Context {A S : Type} (step : S -> A -> kres S).
  Fixpoint kfoldM (l : list A) (s : S) : kres S :=
    match l with
    | [] => KOk s
    | x :: r => match step s x with KErr e => KErr e | KOk s' => kfoldM r s' end
    end.
End KFoldM.

(* ------------------------------------------------------------------------------------------
   unknown.read: copy one value from the protocol into the buffer.  The protocol side is the wire
   value the trusted TBinaryProtocol model (Codec.dec) reads; the buffer side is binary.go's
   writer.  None = ErrExceedDepthLimit: read is entered with maxDepth, fails when maxDepth <= 0
   and recurses with maxDepth-1 into set / list elements, map keys and values, struct fields. *)
Fixpoint append_val (d : nat) (w : wval) {struct w} : option bytes :=
  match d with
  | O => None
  | S d' =>
    match w with
    | WBool b => Some [if b then x01 else x00]
    | WByte z => Some (put_be 1 z)
    | WDouble z => Some (put_be 8 z)
    | WI16 z => Some (put_be 2 z)
    | WI32 z => Some (put_be 4 z)
    | WI64 z => Some (put_be 8 z)
    | WStr s => Some (put_be 4 (Z.of_nat (length s)) ++ s)
    | WStruct fs =>
        (fix go (l : list (ttype * Z * wval)) : option bytes :=
           match l with
           | [] => Some [x00]
           | (t, id, x) :: r =>
               match append_val d' x with
               | None => None
               | Some b => match go r with
                           | None => None
                           | Some br => Some (put_be 1 (code t) ++ put_be 2 id ++ b ++ br) end
               end
           end) fs
    | WMap kt vt kvs =>
        match (fix go (l : list (wval * wval)) : option bytes :=
                 match l with
                 | [] => Some []
                 | (k, x) :: r =>
                     match append_val d' k with
                     | None => None
                     | Some bk => match append_val d' x with
                                  | None => None
                                  | Some bx => match go r with
                                               | None => None
                                               | Some br => Some (bk ++ bx ++ br) end end
                     end
                 end) kvs with
        | None => None
        | Some b => Some (put_be 1 (code kt) ++ put_be 1 (code vt) ++ put_be 4 (Z.of_nat (length kvs)) ++ b)
        end
    | WSet et l | WList et l =>
        match (fix go (l : list wval) : option bytes :=
                 match l with
                 | [] => Some []
                 | x :: r => match append_val d' x with
                             | None => None
                             | Some b => match go r with None => None | Some br => Some (b ++ br) end end
                 end) l with
        | None => None
        | Some b => Some (put_be 1 (code et) ++ put_be 4 (Z.of_nat (length l)) ++ b)
        end
    end
  end.

(* Fields.Append: Binary.WriteFieldBegin (type byte, i16 id; the name is not stored) then read *)
Definition append_field (d : nat) (f : wfield) : option bytes :=
  match append_val d (snd f) with
  | Some b => Some (put_be 1 (code (fst (fst f))) ++ put_be 2 (snd (fst f)) ++ b)
  | None => None
  end.

(* ------------------------------------------------------------------------------------------
   unknown.write: parse one value out of the buffer with binary.go's reader and hand it to the
   output protocol.  Same shape as Codec.dec except for binary.go's own string bound: ReadString
   rejects size < 0 and size > len(buf) (buf still including the 4 length bytes) and then slices
   buf[4:4+size], which panics when 4+size > len(buf); both are None here. *)
Fixpoint uwrite (fuel : nat) (t : ttype) (bs : bytes) {struct fuel} : option (wval * bytes) :=
  match fuel with
  | O => None
  | S f =>
    match t with
    | T_BOOL => match bs with b :: r => Some (WBool (Byte.eqb b x01), r) | [] => None end
    | T_BYTE => match get_s 1 bs with Some (z, r) => Some (WByte z, r) | None => None end
    | T_DOUBLE => match get_be 8 bs with Some (z, r) => Some (WDouble z, r) | None => None end
    | T_I16 => match get_s 2 bs with Some (z, r) => Some (WI16 z, r) | None => None end
    | T_I32 => match get_s 4 bs with Some (z, r) => Some (WI32 z, r) | None => None end
    | T_I64 => match get_s 8 bs with Some (z, r) => Some (WI64 z, r) | None => None end
    | T_STRING =>
        match get_s 4 bs with
        | Some (n, r) =>
            if (n <? 0) || (Z.of_nat (length bs) <? n) then None
            else if (length r <? Z.to_nat n)%nat then None
            else Some (WStr (firstn (Z.to_nat n) r), skipn (Z.to_nat n) r)
        | None => None end
    | T_LIST =>
        match get_be 1 bs with
        | Some (c, r) => match of_code c with
          | Some et => match get_count r with
             | Some (n, r1) => match rep (uwrite f et) n r1 with
                  | Some (xs, r2) => Some (WList et xs, r2) | None => None end
             | None => None end
          | None => None end
        | None => None end
    | T_SET =>
        match get_be 1 bs with
        | Some (c, r) => match of_code c with
          | Some et => match get_count r with
             | Some (n, r1) => match rep (uwrite f et) n r1 with
                  | Some (xs, r2) => Some (WSet et xs, r2) | None => None end
             | None => None end
          | None => None end
        | None => None end
    | T_MAP =>
        match get_be 1 bs with
        | Some (c, r) => match of_code c with
          | Some kt => match get_be 1 r with
            | Some (c2, r0) => match of_code c2 with
              | Some vt => match get_count r0 with
                 | Some (n, r1) => match rep (pairp (uwrite f kt) (uwrite f vt)) n r1 with
                      | Some (xs, r2) => Some (WMap kt vt xs, r2) | None => None end
                 | None => None end
              | None => None end
            | None => None end
          | None => None end
        | None => None end
    | T_STRUCT =>
        match fields (uwrite f) (S (length bs)) bs with
        | Some (fs, r) => Some (WStruct fs, r) | None => None end
    end
  end.

(* Fields.Write: for offset < len(buf) { ReadFieldBegin; WriteFieldBegin; write; ... }.
   A type byte 0 (STOP) or any other unknown code ends in ErrUnknownType. *)
Fixpoint write_unknown (fuel : nat) (bs : bytes) {struct fuel} : option (list wfield) :=
  match bs with
  | [] => Some []
  | _ :: _ =>
    match fuel with
    | O => None
    | S f =>
      match get_be 1 bs with
      | Some (c, r) => match of_code c with
         | Some ft => match get_s 2 r with
            | Some (id, r1) => match uwrite (S (length r1)) ft r1 with
               | Some (x, r2) => match write_unknown f r2 with
                                 | Some fs => Some ((ft, id, x) :: fs) | None => None end
               | None => None end
            | None => None end
         | None => None end
      | None => None end
    end
  end.

Definition unknown_fields (buf : bytes) : option (list wfield) := write_unknown (length buf) buf.

(* ------------------------------------------------------------------------------------------
   objects of keep-aware code *)

Definition keep_slots (buf : bytes) (slots : list (Z * value)) : value := VStruct ((unk_id, VBin buf) :: slots).
Definition new_struct_keep (s : sschema) : value := keep_slots [] (new_fields s).
Definition zero_struct_keep (s : sschema) : value := keep_slots [] (zero_fields s).

(* CarryingUnknownFields(): len(p._unknownFields) > 0 *)
Definition carrying (x : value) : bool :=
  match x with
  | VStruct ((_, VBin (_ :: _)) :: _) => true
  | _ => false
  end.

(* the kept buffer of an object *)
Definition unknown_of (x : value) : bytes :=
  match x with
  | VStruct ((_, VBin b) :: _) => b
  | _ => []
  end.

(* reader state: kept buffer, current slots, ids of required fields seen *)
Definition kstate := (bytes * list (Z * value) * list Z)%type.

(* ---- Read (templates/struct.go StructLikeRead with Features.KeepUnknownFields) ---- *)
Fixpoint from_wk (e : env) (t : ty) (w : wval) {struct w} : kres value :=
  match w with
  | WList et l =>
      match t with
      | TList a => if ttype_eqb et (ttype_of e a) || (length l =? 0)%nat
                   then kbind (kmapM (from_wk e a) l) (fun xs => KOk (VList xs)) else KErr (KStd EHeader)
      | _ => KErr (KStd EHeader) end
  | WSet et l =>
      match t with
      | TSet a => if ttype_eqb et (ttype_of e a) || (length l =? 0)%nat
                  then kbind (kmapM (from_wk e a) l) (fun xs => KOk (VList xs)) else KErr (KStd EHeader)
      | _ => KErr (KStd EHeader) end
  | WMap kt vt kvs =>
      match t with
      | TMap a b =>
          if (ttype_eqb kt (ttype_of e a) && ttype_eqb vt (ttype_of e b)) || (length kvs =? 0)%nat then
            kbind (kmapM (fun kv => kbind (from_wk e a (fst kv)) (fun k =>
                                    kbind (from_wk e b (snd kv)) (fun x => KOk (k, x)))) kvs)
                  (fun xs => KOk (VMap (map_build xs)))
          else KErr (KStd EHeader)
      | _ => KErr (KStd EHeader) end
  | WStruct wfs =>
      match t with
      | TRef n =>
        match find_struct e n with
        | Some s =>
            kbind (kfoldM (fun (st : kstate) (wf : ttype * Z * wval) =>
                             match find_field (snd (fst wf)) (s_fields s) with
                             | Some f =>
                                 if ttype_eqb (fst (fst wf)) (ttype_of e (f_ty f)) then
                                   kbind (from_wk e (f_ty f) (snd wf)) (fun v =>
                                     KOk (fst (fst st), set_field (f_id f) (wrap_slot f v) (snd (fst st)),
                                          if is_required f then f_id f :: snd st else snd st))
                                 else KOk st                      (* iprot.Skip(fieldTypeId) *)
                             | None =>                            (* default: _unknownFields.Append *)
                                 match append_field limit wf with
                                 | Some b => KOk (fst (fst st) ++ b, snd (fst st), snd st)
                                 | None => KErr KDepth end
                             end) wfs ([], new_fields s, []))
                  (fun st => match first_missing (s_fields s) (snd st) with
                             | Some id => KErr (KStd (ERequiredMissing id))
                             | None => KOk (keep_slots (fst (fst st)) (snd (fst st))) end)
        | None => KErr (KStd EUnknownStruct) end
      | _ => KErr (KStd EHeader) end
  | _ => lift (from_w e t w)
  end.

(* named versions of the struct loop (the fixpoint above unfolds to these, see UnknownFacts) *)
Definition kread_step (e : env) (s : sschema) (st : kstate) (wf : wfield) : kres kstate :=
  match find_field (snd (fst wf)) (s_fields s) with
  | Some f =>
      if ttype_eqb (fst (fst wf)) (ttype_of e (f_ty f)) then
        kbind (from_wk e (f_ty f) (snd wf)) (fun v =>
          KOk (fst (fst st), set_field (f_id f) (wrap_slot f v) (snd (fst st)),
               if is_required f then f_id f :: snd st else snd st))
      else KOk st
  | None =>
      match append_field limit wf with
      | Some b => KOk (fst (fst st) ++ b, snd (fst st), snd st)
      | None => KErr KDepth end
  end.

Definition kfinish_read (s : sschema) (st : kstate) : kres value :=
  match first_missing (s_fields s) (snd st) with
  | Some id => KErr (KStd (ERequiredMissing id))
  | None => KOk (keep_slots (fst (fst st)) (snd (fst st))) end.

(* X.Read into an existing object: nothing is reset, the buffer keeps growing *)
Definition from_wire_keep (e : env) (s : sschema) (init : value) (w : wval) : kres value :=
  match init, w with
  | VStruct ((uid, VBin buf) :: slots), WStruct wfs =>
      if uid =? unk_id then kbind (kfoldM (kread_step e s) wfs (buf, slots, [])) (kfinish_read s)
      else KErr (KStd EBadValue)
  | _, WStruct _ => KErr (KStd EBadValue)
  | _, _ => KErr (KStd EHeader)
  end.

Definition read_new_keep (e : env) (s : sschema) (w : wval) : kres value :=
  from_wire_keep e s (new_struct_keep s) w.

(* ---- Write (StructLikeWrite with Features.KeepUnknownFields): union count check (the buffer is
        not counted), known fields in declaration order, then _unknownFields.Write ---- *)
Fixpoint to_wk (e : env) (t : ty) (v : value) {struct v} : kres wval :=
  match v with
  | VList l =>
      match t with
      | TList et => kbind (kmapM (to_wk e et) l) (fun xs => KOk (WList (ttype_of e et) xs))
      | TSet et => if set_has_dup l then KErr (KStd ESetDup)
                   else kbind (kmapM (to_wk e et) l) (fun xs => KOk (WSet (ttype_of e et) xs))
      | _ => KErr (KStd EBadValue) end
  | VMap kvs =>
      match t with
      | TMap kt vt =>
          kbind (kmapM (fun kv => kbind (to_wk e kt (fst kv)) (fun k =>
                                  kbind (to_wk e vt (snd kv)) (fun x => KOk (k, x)))) kvs)
                (fun xs => KOk (WMap (ttype_of e kt) (ttype_of e vt) xs))
      | _ => KErr (KStd EBadValue) end
  | VStruct fs =>
      match t with
      | TRef n =>
        match find_struct e n with
        | Some s =>
          match fs with
          | (uid, VBin buf) :: slots =>
              if negb (uid =? unk_id) then KErr (KStd EBadValue) else
              let c := count_set (s_fields s) slots in
              if is_union s && negb (c =? 1)%nat then KErr (KStd (EUnionCount c)) else
              kbind (kmapM (fun p =>
                              match find_field (fst p) (s_fields s) with
                              | None => KErr (KStd EBadValue)
                              | Some f =>
                                  if present f (snd p) then
                                    if base_ptr f then
                                      match snd p with
                                      | VSome x => kbind (to_wk e (f_ty f) x)
                                                         (fun x => KOk (Some (ttype_of e (f_ty f), f_id f, x)))
                                      | _ => KErr (KStd EBadValue) end
                                    else kbind (to_wk e (f_ty f) (snd p))
                                               (fun x => KOk (Some (ttype_of e (f_ty f), f_id f, x)))
                                  else KOk None
                              end) slots)
                    (fun ofs => match unknown_fields buf with
                                | Some us => KOk (WStruct (cat_somes ofs ++ us))
                                | None => KErr KBuf end)
          | _ => KErr (KStd EBadValue)
          end
        | None => KErr (KStd EUnknownStruct) end
      | _ => KErr (KStd EBadValue) end
  | _ => lift (to_w e t v)
  end.

Definition kwfield_fn (e : env) (s : sschema) (p : Z * value) : kres (option wfield) :=
  match find_field (fst p) (s_fields s) with
  | None => KErr (KStd EBadValue)
  | Some f =>
      if present f (snd p) then
        if base_ptr f then
          match snd p with
          | VSome x => kbind (to_wk e (f_ty f) x) (fun x => KOk (Some (ttype_of e (f_ty f), f_id f, x)))
          | _ => KErr (KStd EBadValue) end
        else kbind (to_wk e (f_ty f) (snd p)) (fun x => KOk (Some (ttype_of e (f_ty f), f_id f, x)))
      else KOk None
  end.

Definition to_wire_keep (e : env) (s : sschema) (v : value) : kres wval := to_wk e (TRef (s_name s)) v.

(* through bytes *)
Definition write_bytes_keep (e : env) (s : sschema) (v : value) : kres bytes :=
  kbind (to_wire_keep e s v) (fun w => KOk (enc w)).
Definition read_bytes_keep (e : env) (s : sschema) (init : value) (bs : bytes) : kres value :=
  match dec_struct bs with
  | Some (w, _) => from_wire_keep e s init w
  | None => KErr (KStd EDecode)
  end.

(* ---- forgetting the pseudo-slots ---- *)
Fixpoint strip (v : value) : value :=
  match v with
  | VList l => VList (map strip l)
  | VMap kvs => VMap (map (fun kv => (strip (fst kv), strip (snd kv))) kvs)
  | VStruct fs => VStruct (filter (fun p => negb (fst p =? unk_id)) (map (fun p => (fst p, strip (snd p))) fs))
  | VSome x => VSome (strip x)
  | _ => v
  end.

(* ------------------------------------------------------------------------------------------
   one value seen under another version of the schema *)

Fixpoint assoc_slot (id : Z) (fs : list (Z * value)) : option value :=
  match fs with [] => None | (i, x) :: r => if i =? id then Some x else assoc_slot id r end.

(* the slots of s in declaration order: taken from fs where present, NewX()'s content otherwise *)
Definition arrange (s : sschema) (fs : list (Z * value)) : list (Z * value) :=
  map (fun f => (f_id f, match assoc_slot (f_id f) fs with Some x => x | None => init_slot f end)) (s_fields s).

Fixpoint adapt (e : env) (t : ty) (v : value) {struct v} : value :=
  match v with
  | VList l => match t with TList a | TSet a => VList (map (adapt e a) l) | _ => v end
  | VMap kvs => match t with
                | TMap a b => VMap (map (fun kv => (adapt e a (fst kv), adapt e b (snd kv))) kvs)
                | _ => v end
  | VStruct fs =>
      match t with
      | TRef n =>
        match find_struct e n with
        | Some s => VStruct (arrange s (map (fun p => match find_field (fst p) (s_fields s) with
                                                     | Some f => (fst p, adapt e (f_ty f) (snd p))
                                                     | None => p end) fs))
        | None => v end
      | _ => v end
  | VSome x => VSome (adapt e t x)
  | _ => v
  end.

Definition adapt_slot (e : env) (s : sschema) (p : Z * value) : Z * value :=
  match find_field (fst p) (s_fields s) with
  | Some f => (fst p, adapt e (f_ty f) (snd p))
  | None => p end.

Definition adapt_struct (e : env) (s : sschema) (v : value) : value := adapt e (TRef (s_name s)) v.

(* ------------------------------------------------------------------------------------------
   compatible schema edits, as a decidable relation *)

Fixpoint ty_eqb (a b : ty) : bool :=
  match a, b with
  | TBool, TBool | TByte, TByte | TI16, TI16 | TI32, TI32 | TI64, TI64 | TDouble, TDouble
  | TString, TString | TBinary, TBinary => true
  | TEnum x, TEnum y | TRef x, TRef y => beqb x y
  | TList x, TList y | TSet x, TSet y => ty_eqb x y
  | TMap k v, TMap k' v' => ty_eqb k k' && ty_eqb v v'
  | _, _ => false
  end.

Fixpoint lit_eqb (a b : lit) {struct a} : bool :=
  match a, b with
  | LBool x, LBool y => Bool.eqb x y
  | LInt x, LInt y | LDbl x, LDbl y => x =? y
  | LStr x, LStr y | LBin x, LBin y => beqb x y
  | LList la, LList lb =>
      (fix go (la lb : list lit) : bool :=
         match la, lb with
         | [], [] => true
         | x :: ra, y :: rb => lit_eqb x y && go ra rb
         | _, _ => false end) la lb
  | LMap la, LMap lb =>
      (fix go (la lb : list (lit * lit)) : bool :=
         match la, lb with
         | [], [] => true
         | (x, y) :: ra, (x', y') :: rb => lit_eqb x x' && lit_eqb y y' && go ra rb
         | _, _ => false end) la lb
  | _, _ => false
  end.

Definition skind_eqb (a b : skind) : bool :=
  match a, b with KStruct, KStruct | KUnion, KUnion | KException, KException => true | _, _ => false end.

Definition field_eqb (a b : field) : bool :=
  (f_id a =? f_id b) && beqb (f_name a) (f_name b) && req_eqb (f_req a) (f_req b) && ty_eqb (f_ty a) (f_ty b) &&
  match f_default a, f_default b with
  | Some x, Some y => lit_eqb x y
  | None, None => true
  | _, _ => false end &&
  Bool.eqb (f_typedef a) (f_typedef b).

(* sn has every field of so unchanged; what it adds is not required *)
Definition struct_extends (so sn : sschema) : bool :=
  beqb (s_name so) (s_name sn) && skind_eqb (s_kind so) (s_kind sn) &&
  forallb (fun fo => match find_field (f_id fo) (s_fields sn) with
                     | Some fn => field_eqb fo fn | None => false end) (s_fields so) &&
  forallb (fun fn => match find_field (f_id fn) (s_fields so) with
                     | Some _ => true | None => negb (is_required fn) end) (s_fields sn).

Definition enum_extends (eo en : eschema) : bool :=
  forallb (fun m => existsb (fun m' => beqb (fst m) (fst m') && (snd m =? snd m')) (e_values en)) (e_values eo).

(* every struct-like name a type mentions is defined in e *)
Fixpoint closed_ty (e : env) (t : ty) : bool :=
  match t with
  | TRef n => match find_struct e n with Some _ => true | None => false end
  | TList a | TSet a => closed_ty e a
  | TMap a b => closed_ty e a && closed_ty e b
  | _ => true
  end.
Definition closed_env (e : env) : bool :=
  forallb (fun s => forallb (fun f => closed_ty e (f_ty f)) (s_fields s)) (structs e).

(* n = o after a sequence of compatible edits: every struct-like of o is in n with its fields
   unchanged plus non-required fields under fresh ids (at any nesting depth: the relation is per
   definition, nested types are found by name); enums keep their members and may gain some; n may
   define new struct-likes and enums; the lookups are consistent (the definition found under a name
   is the one carrying it) *)
Definition extendsb (o n : env) : bool :=
  forallb (fun so => match find_struct n (s_name so) with
                     | Some sn => struct_extends so sn | None => false end) (structs o) &&
  forallb (fun eo => match find_enum n (e_name eo) with
                     | Some en => enum_extends eo en | None => false end) (enums o) &&
  closed_env o.

(* ------------------------------------------------------------------------------------------
   the domain of the keep theorems *)

(* schema side: an optional field that NewX() leaves "set" would be written by the old code although
   the new code never sent it (only optional fields with a container default, or a NaN default) *)
Definition opt_init_unset (e : env) : bool :=
  forallb (fun s => forallb (fun f => negb (is_optional f) || negb (isset f (init_slot f))) (s_fields s)) (structs e).

(* value side: no nil struct pointer where Thrift writes one anyway (a nil struct in a non-optional
   position is written as an empty struct and comes back as NewX(): the value is not a fixpoint of
   write/read even without schema evolution), and no two map keys that fall together when written
   (enum keys beyond int32) *)
Fixpoint keepable (e : env) (t : ty) (v : value) {struct v} : bool :=
  match v with
  | VNil => match t with TRef _ => false | _ => true end
  | VList l => match t with TList a | TSet a => forallb (keepable e a) l | _ => true end
  | VMap kvs =>
      match t with
      | TMap a b => forallb (fun kv => keepable e a (fst kv) && keepable e b (snd kv)) kvs &&
                    negb (has_dup go_key_eq (map (fun kv => norm e a (fst kv)) kvs))
      | _ => true end
  | VStruct fs =>
      match t with
      | TRef n =>
        match find_struct e n with
        | Some s => forallb (fun p => match find_field (fst p) (s_fields s) with
                                      | Some f => if is_optional f && is_nil (snd p) then true
                                                  else keepable e (f_ty f) (snd p)
                                      | None => true end) fs
        | None => true end
      | _ => true end
  | VSome x => keepable e t x
  | _ => true
  end.

(* ------------------------------------------------------------------------------------------
   chains: bytes written by new code pass through old code generated with keep_unknown_fields
   (read + re-write) and back to new code (read + re-write), any number of times *)

Definition hop_old (o : env) (so : sschema) (w : wval) : kres wval :=
  kbind (read_new_keep o so w) (to_wire_keep o so).

Definition round_trip (o n : env) (so sn : sschema) (v : value) : kres value :=
  kbind (lift (to_wire n sn v)) (fun w =>
  kbind (hop_old o so w) (fun w' => lift (read_new n sn w'))).

Fixpoint chain (o n : env) (so sn : sschema) (k : nat) (v : value) : kres value :=
  match k with
  | O => KOk v
  | S k' => kbind (round_trip o n so sn v) (chain o n so sn k')
  end.

Fixpoint iter_norm (n : env) (sn : sschema) (k : nat) (v : value) : value :=
  match k with O => v | S k' => iter_norm n sn k' (norm_struct n sn v) end.
