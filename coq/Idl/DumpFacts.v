(* Idl/DumpFacts.v — facts about the dumper model Idl/Dump.v (property C17). *)
From Coq Require Import List Bool NArith ZArith Lia Arith.
From Coq.Strings Require Import Byte.
From Verif Require Import Base.Bytes Idl.Ast Idl.AstFacts Idl.Lex Idl.LexFacts Idl.Parse Idl.Dump.
Import ListNotations.

(* ================================================================ literals *)

(* the domain of quoteLiteral: texts that do not end with a backslash and that have not
   both a double and a single quote after an odd run of backslashes.  These are exactly
   the values a literal of the grammar can have (see [unescape_in_domain]). *)
Fixpoint ends_bs (s : bytes) : bool :=
  match s with
  | [] => false
  | c :: r => match r with [] => Byte.eqb c c_bs | _ => ends_bs r end
  end.

Definition quote_ok (q : byte) (s : bytes) : bool := snd (quote_body q true s).
Definition lit_ok (s : bytes) : bool :=
  negb (ends_bs s) && (quote_ok c_dq s || quote_ok c_sq s).

Lemma byte_eqb_refl c : Byte.eqb c c = true.
Proof. apply byte_eqb_eq. reflexivity. Qed.
Lemma byte_eqb_neq c d : c <> d -> Byte.eqb c d = false.
Proof. intro H. destruct (Byte.eqb c d) eqn:E; [apply byte_eqb_eq in E; contradiction | reflexivity]. Qed.

Lemma ends_bs_cons c d r : ends_bs (c :: d :: r) = ends_bs (d :: r).
Proof. reflexivity. Qed.
Lemma ends_bs_tail c r : ends_bs (c :: r) = false -> ends_bs r = false.
Proof. destruct r; [reflexivity | rewrite ends_bs_cons; auto]. Qed.

Lemma quote_not_bs q : is_quote q = true -> q <> c_bs.
Proof. intros H ->. discriminate. Qed.

(* ---- quote_body, one character at a time *)
Section QuoteBody.
  Variable q : byte.
  Hypothesis Hq : is_quote q = true.

  Let Hqb : Byte.eqb q c_bs = false.
  Proof. apply byte_eqb_neq. apply quote_not_bs. exact Hq. Qed.
  Let Hbq : Byte.eqb c_bs q = false.
  Proof. apply byte_eqb_neq. intro H. symmetry in H. revert H. apply quote_not_bs. exact Hq. Qed.

  Lemma qb_nil e : quote_body q e [] = ([], true).
  Proof. reflexivity. Qed.

  Lemma qb_q_fst r : fst (quote_body q true (q :: r)) = c_bs :: q :: fst (quote_body q true r).
  Proof. cbn [quote_body]. rewrite Hqb, byte_eqb_refl. destruct (quote_body q true r). reflexivity. Qed.
  Lemma qb_q_snd r : snd (quote_body q true (q :: r)) = snd (quote_body q true r).
  Proof. cbn [quote_body]. rewrite Hqb, byte_eqb_refl. destruct (quote_body q true r). reflexivity. Qed.
  Lemma qb_q_odd r : snd (quote_body q false (q :: r)) = false.
  Proof. cbn [quote_body]. rewrite Hqb, byte_eqb_refl. destruct (quote_body q true r). reflexivity. Qed.

  Lemma qb_bs_fst e r : fst (quote_body q e (c_bs :: r)) = c_bs :: fst (quote_body q (negb e) r).
  Proof. cbn [quote_body]. rewrite byte_eqb_refl, Hbq. destruct (quote_body q (negb e) r). reflexivity. Qed.
  Lemma qb_bs_snd e r : snd (quote_body q e (c_bs :: r)) = snd (quote_body q (negb e) r).
  Proof. cbn [quote_body]. rewrite byte_eqb_refl, Hbq. destruct (quote_body q (negb e) r). reflexivity. Qed.

  Lemma qb_other_fst e c r : c <> q -> c <> c_bs ->
    fst (quote_body q e (c :: r)) = c :: fst (quote_body q true r).
  Proof.
    intros H1 H2. cbn [quote_body]. rewrite (byte_eqb_neq _ _ H1), (byte_eqb_neq _ _ H2).
    destruct (quote_body q true r). reflexivity.
  Qed.
  Lemma qb_other_snd e c r : c <> q -> c <> c_bs ->
    snd (quote_body q e (c :: r)) = snd (quote_body q true r).
  Proof.
    intros H1 H2. cbn [quote_body]. rewrite (byte_eqb_neq _ _ H1), (byte_eqb_neq _ _ H2).
    destruct (quote_body q true r). reflexivity.
  Qed.

  Lemma qb_nonnil e c r : fst (quote_body q e (c :: r)) <> [].
  Proof.
    destruct (Byte.byte_eq_dec c q) as [->|N1].
    - destruct e.
      + rewrite qb_q_fst. discriminate.
      + cbn [quote_body]. rewrite Hqb, byte_eqb_refl. destruct (quote_body q true r). discriminate.
    - destruct (Byte.byte_eq_dec c c_bs) as [->|N2].
      + rewrite qb_bs_fst. discriminate.
      + rewrite qb_other_fst by assumption. discriminate.
  Qed.

  (* ---- the lexer stops exactly at the closing quote *)
  Lemma lex_lit_quote_body rest :
    forall n s e, List.length s <= n ->
    snd (quote_body q e s) = true -> ends_bs s = false ->
    lex_lit q (fst (quote_body q e s) ++ q :: rest) = Some (fst (quote_body q e s), rest).
  Proof.
    induction n as [|n IH]; intros s e Hlen Hok Hend.
    - destruct s; [|cbn in Hlen; lia]. cbn [quote_body fst app].
      rewrite lex_lit_cons, Hqb, byte_eqb_refl. reflexivity.
    - destruct s as [|c r].
      { cbn [quote_body fst app]. rewrite lex_lit_cons, Hqb, byte_eqb_refl. reflexivity. }
      assert (Hlr : List.length r <= n) by (cbn in Hlen; lia).
      pose proof (ends_bs_tail _ _ Hend) as Hendr.
      destruct (Byte.byte_eq_dec c q) as [->|N1].
      + (* the quote itself *)
        destruct e; [|rewrite qb_q_odd in Hok; discriminate].
        rewrite qb_q_snd in Hok. rewrite qb_q_fst. cbn [app].
        rewrite lex_lit_cons, byte_eqb_refl, Hq.
        rewrite (IH r true Hlr Hok Hendr). reflexivity.
      + destruct (Byte.byte_eq_dec c c_bs) as [->|N2].
        * (* a backslash *)
          rewrite qb_bs_snd in Hok. rewrite qb_bs_fst. cbn [app].
          destruct r as [|c2 r2]; [cbn in Hend; discriminate|].
          rewrite lex_lit_cons, byte_eqb_refl.
          destruct (Byte.byte_eq_dec c2 q) as [->|M1].
          -- (* then the quote: it gets its own backslash *)
             destruct (negb e) eqn:Ee; [|rewrite qb_q_odd in Hok; discriminate].
             pose proof (IH (q :: r2) true Hlr Hok Hendr) as IHr.
             rewrite qb_q_fst in IHr |- *. cbn [app] in IHr |- *.
             assert (Hb : is_quote c_bs = false) by reflexivity. rewrite Hb.
             rewrite IHr. reflexivity.
          -- destruct (Byte.byte_eq_dec c2 c_bs) as [->|M2].
             ++ pose proof (IH (c_bs :: r2) (negb e) Hlr Hok Hendr) as IHr.
                rewrite qb_bs_fst in IHr |- *. cbn [app] in IHr |- *.
                assert (Hb : is_quote c_bs = false) by reflexivity. rewrite Hb.
                rewrite IHr. reflexivity.
             ++ rewrite qb_other_snd in Hok by assumption.
                rewrite qb_other_fst by assumption. cbn [app].
                destruct (is_quote c2) eqn:Eq2.
                ** (* the other quote: the lexer takes the pair *)
                   assert (Hl2 : List.length r2 <= n) by (cbn in Hlr; lia).
                   rewrite (IH r2 true Hl2 Hok (ends_bs_tail _ _ Hendr)). reflexivity.
                ** pose proof (IH (c2 :: r2) (negb e) Hlr) as IHr.
                   rewrite qb_other_snd, qb_other_fst in IHr by assumption. cbn [app] in IHr.
                   rewrite (IHr Hok Hendr). reflexivity.
        * rewrite qb_other_snd in Hok by assumption. rewrite qb_other_fst by assumption. cbn [app].
          rewrite lex_lit_cons, (byte_eqb_neq _ _ N2), (byte_eqb_neq _ _ N1).
          rewrite (IH r true Hlr Hok Hendr). reflexivity.
  Qed.

  (* ---- pegText gives the text back *)
  Lemma unescape_quote_body :
    forall n s, List.length s <= n ->
    snd (quote_body q true s) = true -> ends_bs s = false ->
    unescape q (fst (quote_body q true s)) = s.
  Proof.
    induction n as [|n IH]; intros s Hlen Hok Hend.
    - destruct s; [reflexivity | cbn in Hlen; lia].
    - destruct s as [|c r]; [reflexivity|].
      assert (Hlr : List.length r <= n) by (cbn in Hlen; lia).
      pose proof (ends_bs_tail _ _ Hend) as Hendr.
      destruct (Byte.byte_eq_dec c q) as [->|N1].
      + rewrite qb_q_snd in Hok. rewrite qb_q_fst.
        rewrite unescape_step, (byte_eqb_refl c_bs), Hqb, (byte_eqb_refl q).
        destruct r as [|c2 r2].
        * reflexivity.
        * rewrite (unescape_cons_plain q q _ (quote_not_bs q Hq) (qb_nonnil true c2 r2)).
          rewrite (IH (c2 :: r2) Hlr Hok Hendr). reflexivity.
      + destruct (Byte.byte_eq_dec c c_bs) as [->|N2].
        * rewrite qb_bs_snd in Hok. rewrite qb_bs_fst. cbn [negb] in *.
          destruct r as [|c2 r2]; [cbn in Hend; discriminate|].
          assert (Hl2 : List.length r2 <= n) by (cbn in Hlr; lia).
          pose proof (ends_bs_tail _ _ Hendr) as Hend2.
          destruct (Byte.byte_eq_dec c2 q) as [->|M1]; [rewrite qb_q_odd in Hok; discriminate|].
          destruct (Byte.byte_eq_dec c2 c_bs) as [->|M2].
          -- (* a doubled backslash stays two characters *)
             rewrite qb_bs_snd in Hok. rewrite qb_bs_fst. cbn [negb] in *.
             rewrite unescape_step, (byte_eqb_refl c_bs).
             destruct r2 as [|c3 r3]; [cbn in Hendr; discriminate|].
             destruct (fst (quote_body q true (c3 :: r3))) eqn:E; [exfalso; exact (qb_nonnil true c3 r3 E)|].
             rewrite <- E. rewrite (IH (c3 :: r3) Hl2 Hok Hend2). reflexivity.
          -- rewrite qb_other_snd in Hok by assumption. rewrite qb_other_fst by assumption.
             rewrite unescape_step, (byte_eqb_refl c_bs), (byte_eqb_neq _ _ M2), (byte_eqb_neq _ _ M1).
             destruct r2 as [|c3 r3].
             ++ reflexivity.
             ++ rewrite (unescape_cons_plain q c2 _ M2 (qb_nonnil true c3 r3)).
                rewrite (IH (c3 :: r3) Hl2 Hok Hend2). reflexivity.
        * rewrite qb_other_snd in Hok by assumption. rewrite qb_other_fst by assumption.
          destruct r as [|c2 r2]; [reflexivity|].
          rewrite (unescape_cons_plain q c _ N2 (qb_nonnil true c2 r2)).
          rewrite (IH (c2 :: r2) Hlr Hok Hendr). reflexivity.
  Qed.
End QuoteBody.

(* ---- the literal theorem *)
Theorem lit_token_roundtrip s : lit_ok s = true ->
  exists q raw, lit_token s = TLit q raw /\ is_quote q = true /\
    (forall rest, lex_lit q (raw ++ q :: rest) = Some (raw, rest)) /\ unescape q raw = s.
Proof.
  unfold lit_ok, quote_ok, lit_token. intro H. apply andb_true_iff in H. destruct H as [Hend Hq].
  apply negb_true_iff in Hend.
  destruct (quote_body c_dq true s) as [b ok] eqn:E. cbn [snd] in Hq.
  destruct ok.
  - exists c_dq, b. split; [reflexivity|]. split; [reflexivity|].
    assert (Hb : b = fst (quote_body c_dq true s)) by (rewrite E; reflexivity).
    assert (Hk : snd (quote_body c_dq true s) = true) by (rewrite E; reflexivity).
    split.
    + intro rest. rewrite Hb. apply (lex_lit_quote_body c_dq eq_refl rest (List.length s)); auto.
    + rewrite Hb. apply (unescape_quote_body c_dq eq_refl (List.length s)); auto.
  - cbn [orb] in Hq. exists c_sq, (fst (quote_body c_sq true s)). split; [reflexivity|]. split; [reflexivity|].
    split.
    + intro rest. apply (lex_lit_quote_body c_sq eq_refl rest (List.length s)); auto.
    + apply (unescape_quote_body c_sq eq_refl (List.length s)); auto.
Qed.

Corollary view_lit_id s : lit_ok s = true -> view_lit s = s.
Proof.
  intro H. destruct (lit_token_roundtrip s H) as (q & raw & E & _ & _ & Hu).
  unfold view_lit. rewrite E. exact Hu.
Qed.

Corollary lit_token_wf s : lit_ok s = true -> token_wf (lit_token s).
Proof.
  intro H. destruct (lit_token_roundtrip s H) as (q & raw & E & Hq & Hl & _).
  rewrite E. constructor; [exact Hq|].
  unfold lit_closed. rewrite (Hl []). apply beqb_refl.
Qed.

(* ================================================================ the view keeps what C17 lists *)

Definition nonempty_l {A} (l : list A) : bool := match l with [] => false | _ => true end.

Definition anno_ok (an : annotation) : bool := nonempty_l (an_values an) && forallb lit_ok (an_values an).
Fixpoint nodup_keys (a : annotations) : bool :=
  match a with
  | [] => true
  | x :: r => negb (existsb (fun y => beqb (an_key y) (an_key x)) r) && nodup_keys r
  end.
(* an annotation list in the form the parser builds: keys pairwise distinct, every key with
   at least one value *)
Definition annos_ok (a : annotations) : bool := forallb anno_ok a && nodup_keys a.

Fixpoint ty_ok (t : ty) : bool :=
  match t with
  | Ty _ k v _ an _ _ _ =>
    annos_ok an &&
    match k, v with
    | Some kt, Some vt => ty_ok kt && ty_ok vt
    | None, Some vt => ty_ok vt
    | None, None => true
    | Some _, None => false
    end
  end.

Section ViewOk.
  Variable fmt : N -> bytes.

  Fixpoint cv_ok (c : const_value) : bool :=
    match c with
    | CDouble d => fmt_ok fmt d
    | CInt _ => true
    | CLiteral s => lit_ok s
    | CIdent _ _ => true
    | CList l => forallb cv_ok l
    | CMap l => forallb (fun kv => cv_ok (fst kv) && cv_ok (snd kv)) l
    end.

  Definition field_ok (f : field) : bool :=
    negb (Z.eqb (fd_id f) NOTSET) && ty_ok (fd_type f) &&
    match fd_default f with Some v => cv_ok v | None => true end && annos_ok (fd_annos f).
  Definition throw_ok (f : field) : bool := field_ok f && requiredness_eqb (fd_req f) ReqOptional.

  Definition struct_ok (k : sl_kind) (s : struct_like) : bool :=
    sl_kind_eqb (sl_category s) k && forallb field_ok (sl_fields s) && annos_ok (sl_annos s).

  Definition function_ok (f : function) : bool :=
    ty_ok (fn_type f) && Bool.eqb (fn_void f) (is_void_type (fn_type f)) &&
    forallb field_ok (fn_args f) && forallb throw_ok (fn_throws f) && annos_ok (fn_annos f).
  Definition service_ok (s : service) : bool :=
    forallb function_ok (sv_functions s) && annos_ok (sv_annos s).
  Definition enum_ok (e : enum) : bool :=
    forallb (fun v => annos_ok (ev_annos v)) (en_values e) && annos_ok (en_annos e).
  Definition typedef_ok (t : typedef) : bool := ty_ok (td_type t) && annos_ok (td_annos t).
  Definition constant_ok (c : constant) : bool :=
    ty_ok (co_type c) && cv_ok (co_value c) && annos_ok (co_annos c).
  Definition namespace_ok (n : namespace) : bool := annos_ok (ns_annos n).

  Fixpoint nodup_bytes (l : list bytes) : bool :=
    match l with [] => true | x :: r => negb (existsb (beqb x) r) && nodup_bytes r end.
  Definition includes_ok (l : list include) : bool :=
    forallb (fun i => lit_ok (in_path i) && nonempty_l (in_path i)) l && nodup_bytes (map in_path l).

  (* the files on which nothing the property lists is lost: what the parser produces *)
  Definition view_ok (a : file) : bool :=
    includes_ok (f_includes a) && forallb lit_ok (f_cpp_includes a) &&
    forallb namespace_ok (f_namespaces a) && forallb typedef_ok (f_typedefs a) &&
    forallb constant_ok (f_constants a) && forallb enum_ok (f_enums a) &&
    forallb (struct_ok SKStruct) (f_structs a) && forallb (struct_ok SKUnion) (f_unions a) &&
    forallb (struct_ok SKException) (f_exceptions a) && forallb service_ok (f_services a).

  (* ---- annotations *)
  Lemma anno_append_fresh acc k v :
    existsb (fun y => beqb (an_key y) k) acc = false -> anno_append acc k v = acc ++ [Anno k [v]].
  Proof.
    induction acc as [|x r IH]; intro H; [reflexivity|].
    cbn [existsb] in H. apply orb_false_iff in H. destruct H as [H1 H2].
    cbn [anno_append]. rewrite H1. cbn [app]. rewrite (IH H2). reflexivity.
  Qed.
  Lemma anno_append_last acc k vs v :
    existsb (fun y => beqb (an_key y) k) acc = false ->
    anno_append (acc ++ [Anno k vs]) k v = acc ++ [Anno k (vs ++ [v])].
  Proof.
    induction acc as [|x r IH]; intro H.
    - cbn [app anno_append an_key an_values]. rewrite beqb_refl. reflexivity.
    - cbn [existsb] in H. apply orb_false_iff in H. destruct H as [H1 H2].
      cbn [app anno_append]. rewrite H1. rewrite (IH H2). reflexivity.
  Qed.

  Lemma fold_values acc k : forall vs done,
    existsb (fun y => beqb (an_key y) k) acc = false -> forallb lit_ok vs = true ->
    fold_left (fun a kv => anno_append a (fst kv) (snd kv)) (map (fun v => (k, view_lit v)) vs)
              (acc ++ [Anno k done]) = acc ++ [Anno k (done ++ vs)].
  Proof.
    induction vs as [|v r IH]; intros done Hk Hl.
    - cbn. rewrite app_nil_r. reflexivity.
    - cbn [forallb] in Hl. apply andb_true_iff in Hl. destruct Hl as [Hv Hr].
      cbn [map fold_left fst snd]. rewrite (view_lit_id v Hv).
      rewrite (anno_append_last acc k done v Hk). rewrite (IH (done ++ [v]) Hk Hr).
      rewrite <- app_assoc. reflexivity.
  Qed.

  Lemma existsb_app {A} (p : A -> bool) l1 l2 : existsb p (l1 ++ l2) = existsb p l1 || existsb p l2.
  Proof. induction l1 as [|x r IH]; [reflexivity|]. cbn. rewrite IH. apply orb_assoc. Qed.

  Lemma view_annos_acc : forall a acc,
    forallb anno_ok a = true -> nodup_keys a = true ->
    (forall x, In x a -> existsb (fun y => beqb (an_key y) (an_key x)) acc = false) ->
    fold_left (fun ac kv => anno_append ac (fst kv) (snd kv)) (anno_pairs a) acc = acc ++ a.
  Proof.
    induction a as [|x r IH]; intros acc Hok Hnd Hdis.
    - cbn. rewrite app_nil_r. reflexivity.
    - cbn [forallb] in Hok. apply andb_true_iff in Hok. destruct Hok as [Hx Hr].
      cbn [nodup_keys] in Hnd. apply andb_true_iff in Hnd. destruct Hnd as [Hnx Hndr].
      apply negb_true_iff in Hnx.
      unfold anno_ok in Hx. apply andb_true_iff in Hx. destruct Hx as [Hne Hlits].
      destruct x as [k vs]. cbn [an_key an_values] in *.
      destruct vs as [|v vs]; [discriminate|].
      unfold anno_pairs. cbn [flat_map an_key an_values map]. fold (anno_pairs r).
      rewrite fold_left_app. cbn [fold_left fst snd].
      cbn [forallb] in Hlits. apply andb_true_iff in Hlits. destruct Hlits as [Hv Hvs].
      assert (Hk : existsb (fun y => beqb (an_key y) k) acc = false).
      { apply (Hdis (Anno k (v :: vs))). left. reflexivity. }
      rewrite (view_lit_id v Hv). rewrite (anno_append_fresh acc k v Hk).
      rewrite (fold_values acc k vs [v] Hk Hvs). cbn [app].
      rewrite (IH (acc ++ [Anno k (v :: vs)]) Hr Hndr).
      + rewrite <- app_assoc. reflexivity.
      + intros y Hy. rewrite existsb_app. cbn [existsb an_key]. rewrite orb_false_r.
        apply orb_false_iff. split.
        * apply Hdis. right. exact Hy.
        * (* k differs from the key of y *)
          destruct (beqb k (an_key y)) eqn:E; [|reflexivity].
          exfalso. apply beqb_true in E. subst k.
          assert (existsb (fun z => beqb (an_key z) (an_key y)) r = true).
          { apply existsb_exists. exists y. split; [exact Hy | apply beqb_refl]. }
          congruence.
  Qed.

  Lemma view_annos_id a : annos_ok a = true -> view_annos a = a.
  Proof.
    unfold annos_ok. intro H. apply andb_true_iff in H. destruct H as [H1 H2].
    unfold view_annos, annos_of_pairs. rewrite (view_annos_acc a [] H1 H2); [reflexivity|].
    intros; reflexivity.
  Qed.

  (* ---- types *)
  Lemma norm_view_ty : forall t, ty_ok t = true -> norm_ty (view_ty t) = norm_ty t.
  Proof.
    induction t as [n k v c an cat r td IHk IHv] using ty_ind'. intro H.
    cbn [ty_ok] in H. apply andb_true_iff in H. destruct H as [Han H].
    destruct k as [kt|], v as [vt|]; cbn [view_ty ty_plain norm_ty]; rewrite (view_annos_id an Han).
    - apply andb_true_iff in H. destruct H as [Hk Hv].
      rewrite (IHk kt eq_refl Hk), (IHv vt eq_refl Hv). reflexivity.
    - discriminate.
    - rewrite (IHv vt eq_refl H). reflexivity.
    - reflexivity.
  Qed.

  (* ---- constant values *)
  Lemma norm_view_cv : forall c, cv_ok c = true -> norm_cv (view_cv fmt c) = norm_cv c.
  Proof.
    induction c as [d|z|s|s e|l IH|l IH] using const_value_ind'; intro H; cbn [cv_ok] in H.
    - cbn [view_cv norm_cv]. unfold fmt_ok in H. apply const_value_eqb_eq in H. exact H.
    - reflexivity.
    - cbn [view_cv norm_cv]. rewrite (view_lit_id s H). reflexivity.
    - reflexivity.
    - cbn [view_cv norm_cv]. f_equal. rewrite map_map.
      induction IH as [|x r Hx _ IHr]; [reflexivity|].
      cbn [forallb] in H. apply andb_true_iff in H. destruct H as [H1 H2].
      cbn [map]. rewrite (Hx H1), (IHr H2). reflexivity.
    - cbn [view_cv norm_cv]. f_equal. rewrite map_map.
      induction IH as [|[k v] r [Hk Hv] _ IHr]; [reflexivity|].
      cbn [forallb fst snd] in H. apply andb_true_iff in H. destruct H as [H1 H2].
      apply andb_true_iff in H1. destruct H1 as [H1k H1v].
      cbn [map fst snd] in *. rewrite (Hk H1k), (Hv H1v), (IHr H2). reflexivity.
  Qed.

  (* ---- fields *)
  Definition nf := map_field norm_ty norm_cv (fun _ : bytes => @nil byte).

  Lemma norm_view_field f : field_ok f = true ->
    nf (view_field fmt f) = nf f /\ fd_id (view_field fmt f) = fd_id f.
  Proof.
    unfold field_ok. intro H. repeat (apply andb_true_iff in H; destruct H as [H ?]).
    destruct f as [id name req t d an cm]. cbn [fd_id fd_type fd_default fd_annos] in *.
    split; [|reflexivity].
    unfold nf, map_field, view_field. cbn [fd_id fd_name fd_req fd_type fd_default fd_annos fd_comments].
    rewrite (norm_view_ty t) by assumption. rewrite (view_annos_id an) by assumption.
    destruct d as [v|]; cbn [option_map]; [rewrite (norm_view_cv v) by assumption|]; reflexivity.
  Qed.

  Lemma assign_ids_id : forall l prev, forallb (fun f => negb (Z.eqb (fd_id f) NOTSET)) l = true ->
    assign_ids prev l = l.
  Proof.
    induction l as [|f r IH]; intros prev H; [reflexivity|].
    cbn [forallb] in H. apply andb_true_iff in H. destruct H as [H1 H2].
    apply negb_true_iff in H1. cbn [assign_ids]. rewrite H1.
    rewrite (IH _ H2). destruct f; reflexivity.
  Qed.

  Lemma forallb_map {A B} (p : B -> bool) (g : A -> B) l : forallb p (map g l) = forallb (fun x => p (g x)) l.
  Proof. induction l as [|x r IH]; [reflexivity|]. cbn. rewrite IH. reflexivity. Qed.

  Lemma norm_view_fields l : forallb field_ok l = true ->
    map nf (view_fields fmt l) = map nf l.
  Proof.
    intro H. unfold view_fields. rewrite assign_ids_id.
    - rewrite map_map. induction l as [|f r IH]; [reflexivity|].
      cbn [forallb] in H. apply andb_true_iff in H. destruct H as [H1 H2].
      cbn [map]. rewrite (proj1 (norm_view_field f H1)), (IH H2). reflexivity.
    - rewrite forallb_map. apply forallb_forall. intros f Hf.
      rewrite forallb_forall in H. specialize (H f Hf).
      rewrite (proj2 (norm_view_field f H)).
      unfold field_ok in H. repeat (apply andb_true_iff in H; destruct H as [H ?]). exact H.
  Qed.

  Lemma norm_view_throws l : forallb throw_ok l = true ->
    map nf (assign_ids None (map (fun x => set_req (view_field fmt x) ReqOptional) l)) = map nf l.
  Proof.
    intro H. rewrite assign_ids_id.
    - rewrite map_map. induction l as [|f r IH]; [reflexivity|].
      cbn [forallb] in H. apply andb_true_iff in H. destruct H as [H1 H2].
      unfold throw_ok in H1. apply andb_true_iff in H1. destruct H1 as [H1 Hreq].
      cbn [map]. rewrite (IH H2). f_equal.
      pose proof (proj1 (norm_view_field f H1)) as E.
      destruct f as [id name req t d an cm]. cbn [fd_req] in Hreq. destruct req; try discriminate.
      exact E.
    - rewrite forallb_map. apply forallb_forall. intros f Hf.
      rewrite forallb_forall in H. specialize (H f Hf).
      unfold throw_ok in H. apply andb_true_iff in H. destruct H as [H _].
      unfold field_ok in H. repeat (apply andb_true_iff in H; destruct H as [H ?]).
      destruct f; exact H.
  Qed.
End ViewOk.

Section ViewEqual.
  Variable fmt : N -> bytes.
  Let NC := fun _ : bytes => @nil byte.

  Lemma norm_view_struct k s : struct_ok fmt k s = true ->
    map_struct_like norm_ty norm_cv NC (view_struct fmt k s) = map_struct_like norm_ty norm_cv NC s.
  Proof.
    unfold struct_ok. intro H. repeat (apply andb_true_iff in H; destruct H as [H ?]).
    destruct s as [cat name fs an cm]. cbn [sl_category sl_fields sl_annos] in *.
    unfold map_struct_like, view_struct. cbn [sl_category sl_name sl_fields sl_annos sl_comments].
    change (map_field norm_ty norm_cv NC) with nf. rewrite (norm_view_fields fmt fs) by assumption. rewrite (view_annos_id an) by assumption.
    destruct cat, k; try discriminate; reflexivity.
  Qed.

  Lemma is_void_type_norm t : is_void_type t = true -> norm_ty t = norm_ty (ty_named kw_void).
  Proof.
    destruct t as [n [k|] [v|] c an cat r td]; cbn [is_void_type]; try discriminate.
    destruct an; [|discriminate]. intro H. apply beqb_true in H. subst n. reflexivity.
  Qed.

  Lemma norm_view_function f : function_ok fmt f = true ->
    map_function norm_ty norm_cv NC (view_function fmt f) = map_function norm_ty norm_cv NC f.
  Proof.
    unfold function_ok. intro H. repeat (apply andb_true_iff in H; destruct H as [H ?]).
    destruct f as [name ow void t args throws an cm].
    cbn [fn_type fn_void fn_args fn_throws fn_annos] in *.
    unfold map_function, view_function.
    cbn [fn_name fn_oneway fn_void fn_type fn_args fn_throws fn_annos fn_comments].
    change (map_field norm_ty norm_cv NC) with nf. rewrite (norm_view_fields fmt args) by assumption.
    rewrite (norm_view_throws fmt throws) by assumption.
    rewrite (view_annos_id an) by assumption.
    apply eqb_prop in H3. subst void.
    destruct (is_void_type t) eqn:Ev.
    - rewrite (is_void_type_norm t Ev). reflexivity.
    - rewrite (norm_view_ty t) by assumption. reflexivity.
  Qed.

  Lemma map_ext_forallb {A B} (f g : A -> B) (p : A -> bool) l :
    (forall x, p x = true -> f x = g x) -> forallb p l = true -> map f l = map g l.
  Proof.
    intros Hfg. induction l as [|x r IH]; intro H; [reflexivity|].
    cbn [forallb] in H. apply andb_true_iff in H. destruct H as [H1 H2].
    cbn [map]. rewrite (Hfg x H1), (IH H2). reflexivity.
  Qed.

  Lemma norm_view_service s : service_ok fmt s = true ->
    map_service norm_ty norm_cv NC true (view_service fmt s) = map_service norm_ty norm_cv NC true s.
  Proof.
    unfold service_ok. intro H. apply andb_true_iff in H. destruct H as [Hf Han].
    destruct s as [name ext fns an ref cm]. cbn [sv_functions sv_annos] in *.
    unfold map_service, view_service. cbn [sv_name sv_extends sv_functions sv_annos sv_ref sv_comments].
    rewrite (view_annos_id an Han). rewrite map_map.
    rewrite (map_ext_forallb _ (map_function norm_ty norm_cv NC) (function_ok fmt) fns norm_view_function Hf).
    reflexivity.
  Qed.

  Lemma norm_view_enum e : enum_ok e = true ->
    map_enum NC (view_enum e) = map_enum NC e.
  Proof.
    unfold enum_ok. intro H. apply andb_true_iff in H. destruct H as [Hv Han].
    destruct e as [name vs an cm]. cbn [en_values en_annos] in *.
    unfold map_enum, view_enum. cbn [en_name en_values en_annos en_comments].
    rewrite (view_annos_id an Han). rewrite map_map. f_equal.
    apply (map_ext_forallb _ _ (fun v => annos_ok (ev_annos v)) vs); [|exact Hv].
    intros [vn vv va vc] Hx. cbn [ev_annos] in Hx. unfold map_enum_value.
    cbn [ev_name ev_value ev_annos ev_comments]. rewrite (view_annos_id va Hx). reflexivity.
  Qed.

  Lemma norm_view_typedef t : typedef_ok t = true ->
    map_typedef norm_ty NC (view_typedef t) = map_typedef norm_ty NC t.
  Proof.
    unfold typedef_ok. intro H. apply andb_true_iff in H. destruct H as [Ht Han].
    destruct t as [ty al an cm]. cbn [td_type td_annos] in *.
    unfold map_typedef, view_typedef. cbn [td_type td_alias td_annos td_comments].
    rewrite (norm_view_ty ty Ht), (view_annos_id an Han). reflexivity.
  Qed.

  Lemma norm_view_constant c : constant_ok fmt c = true ->
    map_constant norm_ty norm_cv NC (view_constant fmt c) = map_constant norm_ty norm_cv NC c.
  Proof.
    unfold constant_ok. intro H. repeat (apply andb_true_iff in H; destruct H as [H ?]).
    destruct c as [name ty v an cm]. cbn [co_type co_value co_annos] in *.
    unfold map_constant, view_constant. cbn [co_name co_type co_value co_annos co_comments].
    rewrite (norm_view_ty ty) by assumption. rewrite (norm_view_cv fmt v) by assumption.
    rewrite (view_annos_id an) by assumption. reflexivity.
  Qed.

  Lemma view_namespace_id n : namespace_ok n = true -> view_namespace n = n.
  Proof.
    unfold namespace_ok. intro H. destruct n as [l nm an]. cbn [ns_annos] in H.
    unfold view_namespace. cbn [ns_language ns_name ns_annos]. rewrite (view_annos_id an H). reflexivity.
  Qed.

  (* ---- includes: nothing is dropped when the paths are distinct and not empty *)
  Lemma add_includes_acc : forall ps acc,
    forallb (fun p => nonempty_l p) ps = true -> nodup_bytes ps = true ->
    (forall p, In p ps -> existsb (fun i => beqb (in_path i) p) acc = false) ->
    add_includes acc (map HInclude ps) = acc ++ map (fun p => Include p None None) ps.
  Proof.
    induction ps as [|p r IH]; intros acc Hne Hnd Hdis.
    - cbn. rewrite app_nil_r. reflexivity.
    - cbn [forallb] in Hne. apply andb_true_iff in Hne. destruct Hne as [Hp Hr].
      cbn [nodup_bytes] in Hnd. apply andb_true_iff in Hnd. destruct Hnd as [Hnp Hndr].
      apply negb_true_iff in Hnp.
      cbn [map add_includes]. rewrite (Hdis p (or_introl eq_refl)).
      assert (Hpe : beqb p [] = false) by (destruct p; [discriminate | reflexivity]).
      rewrite Hpe. cbn [orb].
      rewrite (IH (acc ++ [Include p None None]) Hr Hndr).
      + rewrite <- app_assoc. reflexivity.
      + intros x Hx. rewrite existsb_app. cbn [existsb in_path]. rewrite orb_false_r.
        apply orb_false_iff. split; [apply Hdis; right; exact Hx|].
        destruct (beqb p x) eqn:E; [|reflexivity].
        exfalso. apply beqb_true in E. subst x.
        assert (existsb (beqb p) r = true) by (apply existsb_exists; exists p; split; [exact Hx | apply beqb_refl]).
        congruence.
  Qed.

  Lemma view_includes l : includes_ok l = true ->
    map (fun i => Include (in_path i) None None)
        (add_includes [] (map (fun i => HInclude (view_lit (in_path i))) l)) =
    map (fun i => Include (in_path i) None None) l.
  Proof.
    unfold includes_ok. intro H. apply andb_true_iff in H. destruct H as [H1 H2].
    assert (E : map (fun i => HInclude (view_lit (in_path i))) l = map HInclude (map in_path l)).
    { rewrite map_map. apply (map_ext_forallb _ _ (fun i => lit_ok (in_path i) && nonempty_l (in_path i)) l); [|exact H1].
      intros i Hi. apply andb_true_iff in Hi. destruct Hi as [Hi _]. rewrite (view_lit_id _ Hi). reflexivity. }
    rewrite E. rewrite add_includes_acc.
    - cbn [app]. rewrite !map_map. reflexivity.
    - rewrite forallb_map. apply forallb_forall. intros i Hi. rewrite forallb_forall in H1.
      specialize (H1 i Hi). apply andb_true_iff in H1. tauto.
    - exact H2.
    - intros; reflexivity.
  Qed.

  (* ---- the file *)
  Theorem dump_view_equal a : view_ok fmt a = true -> c17_norm (dump_view fmt a) = c17_norm a.
  Proof.
    unfold view_ok. intro H. repeat (apply andb_true_iff in H; destruct H as [H ?]).
    destruct a as [fname incs cpp nss tds cs es ss us xs svs n2c].
    cbn [f_includes f_cpp_includes f_namespaces f_typedefs f_constants f_enums f_structs f_unions
         f_exceptions f_services] in *.
    unfold c17_norm, dump_view, map_file.
    cbn [f_filename f_includes f_cpp_includes f_namespaces f_typedefs f_constants f_enums f_structs f_unions
         f_exceptions f_services f_name2cat].
    fold NC. rewrite !map_map.
    f_equal.
    - rewrite <- (map_map (map_include true) (fun i => Include (in_path i) None None)).
      rewrite <- (map_map (map_include true) (fun i => Include (in_path i) None None) incs).
      assert (E : forall l, map (fun i => Include (in_path i) None None) (map (map_include true) l)
                            = map (fun i => Include (in_path i) None None) l).
      { intro l. rewrite map_map. apply map_ext. intros [p r u]. reflexivity. }
      rewrite !E. apply view_includes. unfold includes_ok. rewrite H, H9. reflexivity.
    - rewrite <- (map_id cpp) at 2.
      apply (map_ext_forallb _ (fun x => x) lit_ok cpp); [apply view_lit_id | assumption].
    - rewrite <- (map_id nss) at 2.
      apply (map_ext_forallb _ (fun x => x) namespace_ok nss); [apply view_namespace_id | assumption].
    - apply (map_ext_forallb _ _ typedef_ok tds); [apply norm_view_typedef | assumption].
    - apply (map_ext_forallb _ _ (constant_ok fmt) cs); [apply norm_view_constant | assumption].
    - apply (map_ext_forallb _ _ enum_ok es); [apply norm_view_enum | assumption].
    - apply (map_ext_forallb _ _ (struct_ok fmt SKStruct) ss); [apply norm_view_struct | assumption].
    - apply (map_ext_forallb _ _ (struct_ok fmt SKUnion) us); [apply norm_view_struct | assumption].
    - apply (map_ext_forallb _ _ (struct_ok fmt SKException) xs); [apply norm_view_struct | assumption].
    - apply (map_ext_forallb _ _ (service_ok fmt) svs); [apply norm_view_service | assumption].
  Qed.
End ViewEqual.
