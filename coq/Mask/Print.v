(* Mask/Print.v — the printer of thrift paths used by the harness (maskkit.Path.Render /
   QuoteKey and strconv.FormatInt), as a Coq function.  No proofs in this file. *)
From Coq Require Import List Bool ZArith NArith.
From Coq.Strings Require Import Byte.
From Verif Require Import Base.Bytes Mask.Path Mask.Desc Mask.Trie Mask.Spec.
Import ListNotations.

Definition digit_byte (d : Z) : byte :=
  match d with
  | 0 => x30 | 1 => x31 | 2 => x32 | 3 => x33 | 4 => x34
  | 5 => x35 | 6 => x36 | 7 => x37 | 8 => x38 | _ => x39
  end%Z.

(* decimal digits, least significant first; 20 digits are enough for an int *)
Fixpoint rdigits (fuel : nat) (n : Z) : bytes :=
  match fuel with
  | O => []
  | S f => digit_byte (n mod 10) :: (if (n <? 10)%Z then [] else rdigits f (n / 10))
  end.

(* strconv.FormatInt(n, 10) for 0 <= n *)
Definition print_int (n : Z) : bytes := rev (rdigits 20 n).

Definition hexc (n : N) : byte :=
  match n with
  | 0 => x30 | 1 => x31 | 2 => x32 | 3 => x33 | 4 => x34 | 5 => x35 | 6 => x36 | 7 => x37
  | 8 => x38 | 9 => x39 | 10 => x61 | 11 => x62 | 12 => x63 | 13 => x64 | 14 => x65 | _ => x66
  end%N.

(* maskkit.QuoteKey for one byte *)
Definition esc_byte (b : byte) : bytes :=
  match b with
  | x22 => [x5c; x22]
  | x5c => [x5c; x5c]
  | x0a => [x5c; x6e]
  | x09 => [x5c; x74]
  | x0d => [x5c; x72]
  | _ => let n := Byte.to_N b in
         if (n <? 32)%N || (126 <? n)%N then [x5c; x78; hexc (n / 16); hexc (n mod 16)] else [b]
  end.

Definition print_key (s : bytes) : bytes := x22 :: flat_map esc_byte s ++ [x22].

Fixpoint join_comma (l : list bytes) : bytes :=
  match l with
  | [] => []
  | [x] => x
  | x :: r => x ++ x2c :: join_comma r
  end.

Definition print_seg (s : pseg) : bytes :=
  match s with
  | PName n => x2e :: n
  | PId id => x2e :: print_int id
  | PStarF => [x2e; x2a]
  | PIdx ids => x5b :: join_comma (map print_int ids) ++ [x5d]
  | PIdxStar => [x5b; x2a; x5d]
  | PKeyI ids => x7b :: join_comma (map print_int ids) ++ [x7d]
  | PKeyS ss => x7b :: join_comma (map print_key ss) ++ [x7d]
  | PKeyStar => [x7b; x2a; x7d]
  end.

(* Path.Render *)
Definition print_path (p : list pseg) : bytes := x24 :: flat_map print_seg p.
