package main

// Hand-written scenarios: minimised inputs that once failed, that pin a repaired defect
// or a known finding, or that isolate one edge kind of the reachability closure.

type corpusEntry struct {
	name  string
	files map[string]string
	cfgs  []Config
}

func corpus() []corpusEntry {
	plain := []Config{{}, {Preserve: bp(false)}}
	return []corpusEntry{
		{
			// repaired (C16-1): the base service of an included service lives in the same included file
			name: "same-file-base-of-included-service",
			files: map[string]string{
				"main.thrift": "include \"a.thrift\"\nservice S extends a.Mid { void f() }\n",
				"a.thrift":    "struct BR {1: i32 x}\nstruct Unused {1: i32 x}\nservice Base { BR g() }\nservice Mid extends Base { void h() }\n",
			},
			cfgs: append(plain, Config{Methods: []string{"S.g"}}, Config{Methods: []string{"S.h"}}, Config{Methods: []string{"Base.g"}}),
		},
		{
			// repaired (C16-2): enums behind an include that has nothing else to keep
			name: "enum-behind-empty-include",
			files: map[string]string{
				"main.thrift": "include \"a.thrift\"\nservice S { void f() }\n",
				"a.thrift":    "include \"b.thrift\"\nstruct Unused {1: i32 x}\n",
				"b.thrift":    "enum E { A = 1 }\n",
			},
			cfgs: plain,
		},
		{
			// known finding: with -m the include of a base service stays although `extends` was cleared
			name: "include-kept-after-extends-cleared",
			files: map[string]string{
				"main.thrift": "include \"a.thrift\"\nservice S extends a.Base {\n void f()\n void fooBar()\n}\n",
				"a.thrift":    "struct BR {1: i32 x}\nservice Base { BR g() }\n",
			},
			cfgs: []Config{{Methods: []string{"S.f"}}, {Methods: []string{"S.fooBar"}}, {Methods: []string{"S.g"}}, {}},
		},
		{
			// -m details: prefix rule, unqualified names (last service), regexps, base methods by derived name
			name: "method-filters",
			files: map[string]string{
				"main.thrift": "include \"a.thrift\"\ninclude \"b.thrift\"\nservice S extends a.Base {\n void f()\n void fooBar()\n}\nservice T {\n void foo()\n void fooBar()\n b.BS tb()\n void get_user()\n}\n",
				"a.thrift":    "include \"b.thrift\"\nstruct BR {1: i32 x}\nservice Base { BR g() }\n",
				"b.thrift":    "struct BS {1: i32 x}\n",
			},
			cfgs: []Config{{Methods: []string{"S.f"}}, {Methods: []string{"foo"}}, {Methods: []string{"S.g"}}, {Methods: []string{`T\.t.*`}},
				{Methods: []string{"S.f", "Base.g"}}, {Methods: []string{"T.foo"}}, {Methods: []string{"T.GetUser"}, MatchGoName: bp(true)},
				{Methods: []string{"nothing"}}, {Methods: []string{"T.(bad"}}, {Methods: []string{".*"}}},
		},
		{
			// every edge kind on its own: typedef target, list element, map key, map value, set element,
			// throws, argument, result, field of a reached struct, included file, typedef in an included file
			name: "edge-kinds",
			files: map[string]string{
				"main.thrift": `include "a.thrift"
struct ViaTypedef {1: i32 x}
typedef ViaTypedef TD
struct ViaList {1: i32 x}
struct ViaMapKey {1: i32 x}
struct ViaMapVal {1: i32 x}
struct ViaSet {1: i32 x}
exception ViaThrows {1: string m}
struct ViaArg {1: ViaField f}
struct ViaField {1: i32 x}
struct ViaResult {1: a.ViaInclude i, 2: a.TDA t}
union ViaUnion {1: i32 a, 2: UnionMember m}
struct UnionMember {1: i32 x}
struct Unused1 {1: Unused2 u}
struct Unused2 {1: i32 x}
union UnusedU {1: i32 a}
exception UnusedX {1: i32 a}
enum UsedEnum { A = 1 }
enum UnusedEnum { A = 1 }
service S {
  ViaResult m1(1: ViaArg a, 2: list<ViaList> l, 3: map<ViaMapKey, ViaMapVal> m, 4: set<ViaSet> s) throws (1: ViaThrows e)
  ViaUnion m2(1: UsedEnum e)
  oneway void m3()
}
service UsesTypedef { TD m() }
`,
				"a.thrift": `struct ViaInclude {1: Deep d}
struct Deep {1: i32 x}
struct ViaTypedefInInclude {1: i32 x}
typedef ViaTypedefInInclude TDA
struct UnusedInInclude {1: i32 x}
`,
			},
			cfgs: append(plain, Config{Methods: []string{"S.m2"}}, Config{Methods: []string{"UsesTypedef.m"}}, Config{Methods: []string{"S.m3"}}),
		},
		{
			// the preserved struct is already marked when its file is pre-processed (diamond): the
			// direct include of b is dropped, b stays reachable through a
			name: "preserved-already-marked-diamond",
			files: map[string]string{
				"main.thrift": "include \"a.thrift\"\ninclude \"b.thrift\"\nconst a.S C = {}\nservice Svc { void f() }\n",
				"a.thrift":    "include \"b.thrift\"\nstruct S {1: b.P p}\n",
				"b.thrift":    "// @preserve\nstruct P {1: i32 x}\nstruct Q {1: i32 x}\n",
			},
			cfgs: append(plain, Config{NoComment: bp(true)}, Config{PreserveStructs: []string{"Q"}}, Config{PreservedFiles: []string{"b.thrift"}}),
		},
		{
			// preserved by comment / list / file, unions and exceptions, recursion
			name: "preserve-kinds",
			files: map[string]string{
				"main.thrift": `include "a.thrift"
// @preserve
struct P1 {1: Dep1 d}
struct Dep1 {1: i32 x}
# @Preserve
union P2 {1: i32 a}
//@preserve
exception P3 {1: i32 a}
// @preserved
struct NotP {1: i32 a}
struct user_info {1: i32 a}
struct Rec {1: optional Rec next, 2: list<Rec2> l}
struct Rec2 {1: optional Rec back}
service S { Rec f() }
`,
				"a.thrift": "struct A1 {1: i32 x}\nunion AU {1: i32 x}\nexception AX {1: i32 x}\n",
			},
			cfgs: append(plain, Config{NoComment: bp(true)}, Config{PreserveStructs: []string{"NotP", "A1"}},
				Config{PreserveStructs: []string{"UserInfo"}, MatchGoName: bp(true)}, Config{PreservedFiles: []string{"a.thrift"}},
				Config{PreservedFiles: []string{"a.thrift"}, Preserve: bp(false)}),
		},
		{
			// constants, typedefs and enums keep their files and the chain of includes leading to them
			name: "always-kept-categories",
			files: map[string]string{
				"main.thrift": "include \"a.thrift\"\ninclude \"e.thrift\"\nservice S { void f() }\n",
				"a.thrift":    "include \"b.thrift\"\ninclude \"c.thrift\"\ninclude \"d.thrift\"\nstruct Unused {1: i32 x}\n",
				"b.thrift":    "struct CT {1: i32 x}\nstruct NotUsed {1: i32 x}\nconst CT C = {}\n",
				"c.thrift":    "struct TT {1: i32 x}\ntypedef list<TT> L\n",
				"d.thrift":    "struct OnlyStruct {1: i32 x}\n",
				"e.thrift":    "struct OnlyStruct {1: i32 x}\nservice Lonely { OnlyStruct f() }\n",
			},
			cfgs: plain,
		},
		{
			// same definition names in several files, includes in an order that makes the kept ones move
			name: "renumbering",
			files: map[string]string{
				"main.thrift": "include \"x.thrift\"\ninclude \"a.thrift\"\ninclude \"y.thrift\"\ninclude \"b.thrift\"\nstruct S {1: b.S s, 2: a.S t}\nservice Svc extends b.Base { S f(1: a.E e = a.E.A) }\n",
				"x.thrift":    "struct S {1: i32 x}\n",
				"y.thrift":    "struct S {1: i32 x}\nservice Base { void g() }\n",
				"a.thrift":    "struct S {1: i32 x}\nenum E { A = 1 }\n",
				"b.thrift":    "struct S {1: i32 x}\nstruct T {1: i32 x}\nservice Base { T g() }\n",
			},
			cfgs: append(plain, Config{Methods: []string{"Svc.f"}}, Config{Methods: []string{"Svc.g"}}),
		},
		{
			// a struct-only file (no constant, enum or typedef keeps its include) used from TWO kept files:
			// every file that refers to it must keep its own include, not only the first that reaches it
			name: "shared-struct-only-include",
			files: map[string]string{
				"main.thrift": `include "user.thrift"
include "common.thrift"
struct Req {1: common.Pagination p, 2: user.User u}
service Api { user.UserList list(1: Req r) throws (1: common.Failure f) }
`,
				"user.thrift": `include "common.thrift"
struct User {1: i32 id}
struct UserList {1: list<User> users, 2: common.Pagination page, 3: map<string, common.Tag> tags, 4: optional common.Choice c}
service Users { User get(1: i32 id) throws (1: common.Failure f) }
`,
				"common.thrift": "struct Pagination {1: i32 page}\nstruct Tag {1: string t}\nunion Choice {1: i32 a}\nexception Failure {1: string m}\nstruct Unused {1: i32 x}\n",
			},
			cfgs: append(plain, Config{Methods: []string{"Api.list"}}),
		},
		{
			// the same through three levels, and with the typedef / container positions reached first by
			// preProcess (the file with the typedef marks its include before the main file gets there)
			name: "shared-struct-only-include-transitive",
			files: map[string]string{
				"main.thrift": `include "mid.thrift"
include "leaf.thrift"
include "common.thrift"
struct Top {1: common.Base b, 2: leaf.Leaf l, 3: mid.Mid m}
service S { Top get(1: mid.BaseList l, 2: set<i32> s) }
`,
				"mid.thrift": `include "leaf.thrift"
include "common.thrift"
typedef list<common.Base> BaseList
struct Mid {1: leaf.Leaf l, 2: map<i32, common.Base> m}
`,
				"leaf.thrift":   "include \"common.thrift\"\nstruct Leaf {1: common.Base b, 2: list<list<common.Other>> o}\n",
				"common.thrift": "struct Base {1: i32 x}\nstruct Other {1: i32 x}\nstruct Unused {1: i32 x}\n",
			},
			cfgs: append(plain, Config{PreserveStructs: []string{"Leaf"}}, Config{Methods: []string{"S.get"}}),
		},
		{
			// shared struct-only include reached from a base service in another file and from a preserved struct
			name: "shared-struct-only-include-base-service",
			files: map[string]string{
				"main.thrift":   "include \"base.thrift\"\ninclude \"common.thrift\"\nservice S extends base.Base { common.R f() }\n// @preserve\nstruct Keep {1: common.R r}\n",
				"base.thrift":   "include \"common.thrift\"\nservice Base { common.R g(1: common.A a) }\n// @preserve\nstruct KeepToo {1: set<common.A> s}\n",
				"common.thrift": "struct R {1: i32 x}\nstruct A {1: i32 x}\n",
			},
			cfgs: append(plain, Config{Methods: []string{"S.g"}}, Config{Methods: []string{"S.f", "S.g"}}),
		},
		{
			// a main file without services; services only in includes
			name: "no-main-service",
			files: map[string]string{
				"main.thrift": "include \"a.thrift\"\nstruct M {1: i32 x}\nconst i32 C = 1\n",
				"a.thrift":    "struct A {1: i32 x}\nservice Base { A g() }\n",
			},
			cfgs: append(plain, Config{Methods: []string{"Base.g"}}, Config{Methods: []string{"(bad"}}),
		},
	}
}
