package main

import (
	"encoding/hex"
	"encoding/json"
	"reflect"

	"github.com/cloudwego/thriftgo/fieldmask"
	"github.com/cloudwego/thriftgo/thrift_reflection"
)

// Field-mask verbs (property C13). The code of the unit must be generated with
// with_field_mask,with_reflection.
//
//	mwrite <unit> <struct> <value JSON> <black 0|1> <paths JSON array>
//	    -> {"maskerr":bool,"err":class,"bytes":hex,"again":{"err","bytes"}}
//	       object = zero value + the given slots; mask = Options{BlackListMode}.NewFieldMask(
//	       x.GetTypeDescriptor(), paths...); Set_FieldMask; Write.  "again": the SAME object written once
//	       more after Set_FieldMask(nil) (what a nil mask does to an object that was written under a mask).
//	       paths = null: no NewFieldMask call at all, the mask is the nil pointer.
//	mread  <unit> <struct> <hex> <new|zero> <black 0|1> <paths JSON array>
//	    -> {"maskerr":bool,"err":class,"rest":n,"dump":value}
type maskable interface {
	Set_FieldMask(*fieldmask.FieldMask)
	GetTypeDescriptor() *thrift_reflection.TypeDescriptor
}

// buildMask returns (mask, ok); paths == nil gives the nil mask.
func buildMask(x interface{}, black string, pathsJSON string) (fm *fieldmask.FieldMask, ok bool) {
	var paths []string
	if err := json.Unmarshal([]byte(pathsJSON), &paths); err != nil {
		panic(err)
	}
	if paths == nil {
		return nil, true
	}
	m, isM := x.(maskable)
	if !isM {
		panic("driver: type has no field-mask support")
	}
	fm, err := fieldmask.Options{BlackListMode: black == "1"}.NewFieldMask(m.GetTypeDescriptor(), paths...)
	if err != nil {
		return nil, false
	}
	return fm, true
}

func init() {
	RegisterCommand("mwrite", func(a []string) interface{} {
		x := NewZero(a[0], a[1])
		Fill(reflect.ValueOf(x).Elem(), ParseValue(a[2]))
		fm, ok := buildMask(x, a[3], a[4])
		if !ok {
			return map[string]interface{}{"maskerr": true}
		}
		x.(maskable).Set_FieldMask(fm)
		res := observeWrite(x)
		res["maskerr"] = false
		x.(maskable).Set_FieldMask(nil)
		res["again"] = observeWrite(x)
		return res
	})

	RegisterCommand("mread", func(a []string) interface{} {
		var x interface{}
		if a[3] == "zero" {
			x = NewZero(a[0], a[1])
		} else {
			x = New(a[0], a[1])
		}
		bs, err := hex.DecodeString(a[2])
		if err != nil {
			panic(err)
		}
		fm, ok := buildMask(x, a[4], a[5])
		if !ok {
			return map[string]interface{}{"maskerr": true}
		}
		x.(maskable).Set_FieldMask(fm)
		cls, rest := ReadBinary(x, bs)
		res := map[string]interface{}{"maskerr": false, "err": cls, "rest": rest}
		if cls == "ok" {
			res["dump"] = json.RawMessage(Dump(reflect.ValueOf(x)))
		}
		return res
	})
}
