(* Gen/Scope.v — executable model of the NAME TABLES of the Go backend
   (/repo/generator/golang/scope_internal.go: installNames, buildService, buildFunction,
   buildStructLike, buildEnum, buildTypedef, buildConstant).  Model only, no proofs.

   The code builds, for one resolved IDL file, a family of pkg/namespace tables (all with the
   UnderscoreSuffix rename function):
     TGlobals            Scope.globals          type names, New<T>, fieldIDToName_<T>, <Svc>Client,
                                                <Svc>Processor, <Svc><Func>Args/Result, enums,
                                                typedefs (+ New<Alias> for struct-like targets), constants
     TService i          Service.scope          method names of the i-th service
     TFunction i j       Function.scope         p, err, ctx, r, _result, then parameters and throws
     TSynth i j res      StructLike.scope       members of the synthesized <Svc><Func>Args / Result struct
     TStruct k           StructLike.scope       members of the k-th struct-like (structs ++ unions ++ exceptions)
     TEnum k             Enum.scope             values of the k-th enum (<Enum>_<Value>)
   and performs Add / MustReserve on them in a fixed order; later operations use names RETURNED
   by earlier ones (New<sn>, <sn>Client, <en>_<value>), so the sequence is produced by running
   it: the state of the model is the list of operations performed so far (newest first), each
   with its table, a tag saying what the name is for, and the name that came back.  A table is
   never stored: its content is recomputed from the operations recorded for it ([ns_of]), with
   the step function of Gen/Namespace.v.

   The naming style is not modelled: [identify] (styles.Naming.Identify of the selected style)
   and [lower_first] (common.LowerFirstRune) are Section variables; the correspondence harness
   supplies their real values for every string the model asks about.
   MustReserve on an occupied name = [SErr EReserve] (the Go code panics, Scope.init recovers,
   thriftgo exits non-zero). *)
From Coq Require Import List Arith Bool ZArith NArith.
From Coq.Strings Require Import Byte String.
From Verif Require Import Base.Bytes Gen.Namespace Idl.Ast Idl.AstUtil.
Import ListNotations.

(* ------------------------------------------------------------------ constants *)
Definition s_New := B "New".
Definition s_Args := B "Args".
Definition s_Result := B "Result".
Definition s_Client := B "Client".
Definition s_Processor := B "Processor".
Definition s_ids := B "fieldIDToName_".
Definition s_Get := B "Get".
Definition s_Set := B "Set".
Definition s_IsSet := B "IsSet".
Definition s_ReadField := B "ReadField".
Definition s_writeField := B "writeField".
Definition s_Field := B "Field".
Definition s_DeepEqual := B "DeepEqual".
Definition s_Read := B "Read".
Definition s_Write := B "Write".
Definition s_String := B "String".
Definition s_InitDefault := B "InitDefault".
Definition s_CountSetFields := B "CountSetFields".
Definition s_Error := B "Error".
Definition s_Carrying := B "CarryingUnknownFields".
Definition s_args_suffix := B "_args".
Definition s_result_suffix := B "_result".
Definition s_success := B "success".
Definition s_p := B "p".
Definition s_err := B "err".
Definition s_ctx := B "ctx".
Definition s_r := B "r".
Definition s__result := B "_result".
Definition s_true := B "true".
Definition s_nested := B "thrift.nested".
(* ids of synthesized entries: "$" ++ tag ++ key *)
Definition i_new := B "$new:".
Definition i_ids := B "$ids:".
Definition i_client := B "$client:".
Definition i_processor := B "$processor:".
Definition i_get := B "$get:".
Definition i_set := B "$set:".
Definition i_isset := B "$isset:".
Definition i_read := B "$read:".
Definition i_write := B "$write:".
Definition i_deepequal := B "$deepequal:".

(* generator/golang/types.go: isKeywords (the 25 keywords of Go) *)
Definition go_keywords : list bytes :=
  [B "break"; B "default"; B "func"; B "interface"; B "select"; B "case"; B "defer"; B "go";
   B "map"; B "struct"; B "chan"; B "else"; B "goto"; B "package"; B "switch"; B "const";
   B "fallthrough"; B "if"; B "range"; B "type"; B "continue"; B "for"; B "import"; B "return";
   B "var"].
Definition is_keyword (n : bytes) : bool := existsb (beqb n) go_keywords.

(* ------------------------------------------------------------------ features, tables, tags *)
(* the Features / options that the table-building code reads *)
Record features := Features {
  ft_keep_unknown : bool;   (* keep_unknown_fields *)
  ft_deep_equal : bool;     (* gen_deep_equal *)
  ft_setter : bool;         (* gen_setter *)
  ft_nested : bool;         (* enable_nested_struct *)
  ft_compat : bool }.       (* compatible_names *)

Inductive table :=
| TGlobals
| TService (i : nat)
| TFunction (i j : nat)
| TSynth (i j : nat) (res : bool)
| TStruct (k : nat)
| TEnum (k : nat).

Definition table_eqb (a b : table) : bool :=
  match a, b with
  | TGlobals, TGlobals => true
  | TService i, TService i' => Nat.eqb i i'
  | TFunction i j, TFunction i' j' => Nat.eqb i i' && Nat.eqb j j'
  | TSynth i j r, TSynth i' j' r' => Nat.eqb i i' && Nat.eqb j j' && Bool.eqb r r'
  | TStruct k, TStruct k' => Nat.eqb k k'
  | TEnum k, TEnum k' => Nat.eqb k k'
  | _, _ => false
  end.

(* what a name is for *)
Inductive kind :=
| KService | KStructType | KNew | KIds | KClient | KProcessor | KEnum | KTypedef | KTypedefNew | KConstant
| KFunction
| KEnumValue
| KBuiltin | KGetter | KSetter | KIsSet | KReadField | KWriteField | KFieldDeepEqual | KField
| KLocal | KParam | KThrow.

Definition kind_code (k : kind) : N :=
  match k with
  | KService => 1 | KStructType => 2 | KNew => 3 | KIds => 4 | KClient => 5 | KProcessor => 6 | KEnum => 7
  | KTypedef => 8 | KTypedefNew => 9 | KConstant => 10 | KFunction => 11 | KEnumValue => 12 | KBuiltin => 13
  | KGetter => 14 | KSetter => 15 | KIsSet => 16 | KReadField => 17 | KWriteField => 18 | KFieldDeepEqual => 19
  | KField => 20 | KLocal => 21 | KParam => 22 | KThrow => 23
  end%N.
Definition kind_eqb (a b : kind) : bool := N.eqb (kind_code a) (kind_code b).

(* one performed operation: [e_op] is OAdd or OReserve; [e_name] the name Add returned, or the
   reserved name; [e_owner] the table of the definition the name belongs to (the member table of
   a struct-like for its type name / New / fieldIDToName entries, TService i for a service and
   its client / processor, TFunction i j for a method name, TEnum k for an enum) *)
Record entry := Entry { e_table : table; e_owner : table; e_kind : kind; e_op : op; e_name : bytes }.

Definition op_id (o : op) : bytes :=
  match o with OAdd _ id => id | OReserve _ id => id | OGet id => id | OID _ => [] end.
Definition e_id (e : entry) : bytes := op_id (e_op e).
Definition is_add (o : op) : bool := match o with OAdd _ _ => true | _ => false end.

(* the content of table [t] after the operations in [tr] (newest first) *)
Fixpoint ns_of (t : table) (tr : list entry) : ns :=
  match tr with
  | [] => ns0
  | e :: r => if table_eqb (e_table e) t then fst (step underscore_suffix (ns_of t r) (e_op e)) else ns_of t r
  end.

(* ------------------------------------------------------------------ the state/error monad *)
Inductive scope_error := EReserve | EFuel.
Inductive sresult (A : Type) := SOk (a : A) | SErr (e : scope_error).
Arguments SOk {A} a.
Arguments SErr {A} e.

Definition M (A : Type) := list entry -> sresult (A * list entry).
Definition ret {A} (a : A) : M A := fun tr => SOk (a, tr).
Definition bind {A B} (m : M A) (f : A -> M B) : M B :=
  fun tr => match m tr with SOk (a, tr') => f a tr' | SErr e => SErr e end.
Definition seq {A} (m : M unit) (k : M A) : M A := bind m (fun _ => k).
Definition when (b : bool) (m : M unit) : M unit := if b then m else ret tt.

(* for idx, x := range l { f idx x } *)
Fixpoint for_idx {A} (f : nat -> A -> M unit) (i : nat) (l : list A) : M unit :=
  match l with
  | [] => ret tt
  | x :: r => seq (f i x) (for_idx f (S i) r)
  end.
Definition for_each {A} (f : A -> M unit) (l : list A) : M unit := for_idx (fun _ => f) 0 l.

(* ns.Add(name, id) on table t *)
Definition m_add (t ow : table) (k : kind) (name id : bytes) : M bytes :=
  fun tr => match add underscore_suffix (ns_of t tr) name id with
            | Some (_, r) => SOk (r, Entry t ow k (OAdd name id) r :: tr)
            | None => SErr EFuel
            end.
Definition m_add_ (t : table) (k : kind) (name id : bytes) : M unit := bind (m_add t t k name id) (fun _ => ret tt).

(* ns.MustReserve(name, id) on table t: a panic when the name is occupied *)
Definition m_reserve (t ow : table) (k : kind) (name id : bytes) : M unit :=
  fun tr => if snd (reserve (ns_of t tr) name id)
            then SOk (tt, Entry t ow k (OReserve name id) name :: tr)
            else SErr EReserve.

(* ------------------------------------------------------------------ small string helpers *)
Definition has_dollar (raw : bytes) : bool := match raw with b :: _ => Byte.eqb b x24 | [] => false end.
Definition trim_dollar (raw : bytes) : bytes := if has_dollar raw then tl raw else raw.
Definition is_suffix (p s : bytes) : bool := is_prefix (rev p) (rev s).
Definition dollar (s : bytes) : bytes := x24 :: s.

(* strconv.Itoa with "_" for the minus sign (id2str in buildStructLike) *)
Definition id2str (z : Z) : bytes :=
  if (z <? 0)%Z then x5f :: digits (Z.to_nat (- z)) else digits (Z.to_nat z).

(* the text after the last "." *)
Fixpoint after_last_dot_go (s acc : bytes) : bytes :=
  match s with
  | [] => acc
  | b :: r => if Byte.eqb b x2e then after_last_dot_go r r else after_last_dot_go r acc
  end.
Definition after_last_dot (s : bytes) : bytes := after_last_dot_go s s.
Definition contains_dot (s : bytes) : bool := existsb (Byte.eqb x2e) s.

(* strings.EqualFold(v, "true") for ASCII *)
Definition lower_ascii (b : byte) : byte :=
  let n := Byte.to_N b in
  if (N.leb 65 n && N.leb n 90)%bool then match Byte.of_N (n + 32) with Some c => c | None => b end else b.
Definition equal_fold_true (v : bytes) : bool := beqb (map lower_ascii v) s_true.

(* annotationContainsTrue(annos, key): the values of the FIRST annotation with that key are exactly one "true" *)
Fixpoint annos_get (key : bytes) (a : annotations) : list bytes :=
  match a with
  | [] => []
  | x :: r => if beqb (an_key x) key then an_values x else annos_get key r
  end.
Definition annotation_contains_true (a : annotations) (key : bytes) : bool :=
  match annos_get key a with
  | [v] => equal_fold_true v
  | _ => false
  end.
Definition is_nested_field (f : field) : bool := annotation_contains_true (fd_annos f) s_nested.

(* thrift.go SupportIsSet *)
Definition support_isset (f : field) : bool :=
  is_struct_like_category (ty_category (fd_type f)) || requiredness_eqb (fd_req f) ReqOptional.

Section Scope.
Variable identify : bytes -> bytes.      (* styles.Naming.Identify of the selected naming style *)
Variable lower_first : bytes -> bytes.   (* common.LowerFirstRune *)

(* CodeUtils.Identify: strip the "$" of synthesized identifiers, then the naming style *)
Definition cu_identify (raw : bytes) : bytes := identify (trim_dollar raw).

(* Scope.identify: compatible_names appends "_" to New*, *Args, *Result of user names *)
Definition s_identify (ft : features) (raw : bytes) : bytes :=
  let name := cu_identify raw in
  if negb (has_dollar raw) && ft_compat ft &&
     (is_prefix s_New name || is_suffix s_Args name || is_suffix s_Result name)
  then name ++ [x5f] else name.

(* the name used for Get/Set/IsSet of a field *)
Definition accessor_ident (ft : features) (f : field) : bytes :=
  if ft_nested ft && is_nested_field f then
    let fn := s_identify ft (ty_name (fd_type f)) in
    if contains_dot fn then s_identify ft (after_last_dot fn) else fn
  else s_identify ft (fd_name f).

(* buildStructLike(v, usedName...): [vname] = v.Name, [nn] = usedName or v.Name; returns the Go type name *)
Definition builtin_methods (ft : features) (vname : bytes) (cat : sl_kind) : list bytes :=
  [s_Read; s_Write; s_String; s_InitDefault] ++
  (if has_dollar vname then [] else
     (match cat with SKUnion => [s_CountSetFields] | _ => [] end) ++
     (match cat with SKException => [s_Error] | _ => [] end) ++
     (if ft_keep_unknown ft then [s_Carrying] else []) ++
     (if ft_deep_equal ft then [s_DeepEqual] else [])).

Definition build_struct_like (ft : features) (t : table) (vname : bytes) (cat : sl_kind)
           (fields : list field) (nn : bytes) : M unit :=
  bind (m_add TGlobals t KStructType (s_identify ft nn) vname) (fun sn =>
  seq (m_reserve TGlobals t KNew (s_New ++ sn) (i_new ++ nn))
  (seq (m_reserve TGlobals t KIds (s_ids ++ sn) (i_ids ++ nn))
  (seq (for_each (fun fn => m_reserve t t KBuiltin fn (dollar fn)) (builtin_methods ft vname cat))
  (seq (for_each (fun f =>
          let fn := accessor_ident ft f in
          let id := id2str (fd_id f) in
          seq (m_add_ t KGetter (s_Get ++ fn) (i_get ++ fd_name f))
          (seq (when (ft_setter ft) (m_add_ t KSetter (s_Set ++ fn) (i_set ++ fd_name f)))
          (seq (when (support_isset f) (m_add_ t KIsSet (s_IsSet ++ fn) (i_isset ++ fd_name f)))
          (seq (m_add_ t KReadField (s_ReadField ++ id) (i_read ++ id))
          (seq (m_add_ t KWriteField (s_writeField ++ id) (i_write ++ id))
               (when (ft_deep_equal ft) (m_add_ t KFieldDeepEqual (s_Field ++ id ++ s_DeepEqual) (i_deepequal ++ id))))))))
        fields)
       (for_each (fun f => m_add_ t KField (s_identify ft (fd_name f)) (fd_name f)) fields))))).

(* buildFunction *)
Definition param_name (ft : features) (raw : bytes) : bytes :=
  let name := lower_first (s_identify ft raw) in
  if is_keyword name then x5f :: name else name.

Definition build_function (ft : features) (t : table) (v : function) : M unit :=
  seq (m_reserve t t KLocal s_p (dollar s_p))
  (seq (m_reserve t t KLocal s_err (dollar s_err))
  (seq (m_reserve t t KLocal s_ctx (dollar s_ctx))
  (seq (when (negb (fn_void v))
         (seq (m_reserve t t KLocal s_r (dollar s_r)) (m_reserve t t KLocal s__result (dollar s__result))))
  (seq (for_each (fun a => m_add_ t KParam (param_name ft (fd_name a)) (fd_name a)) (fn_args v))
       (for_each (fun a => m_add_ t KThrow (param_name ft (fd_name a)) (fd_name a)) (fn_throws v)))))).

(* scope.go buildSynthesized: the fields of <Svc><Func>Result *)
Definition success_field (v : function) : field :=
  Field 0%Z s_success ReqOptional (fn_type v) None [] [].
Definition result_fields (v : function) : list field :=
  (if fn_void v then [] else [success_field v]) ++ fn_throws v.

(* buildService *)
Definition build_service (ft : features) (i : nat) (v : service) : M unit :=
  bind (m_add TGlobals (TService i) KService (s_identify ft (sv_name v)) (sv_name v)) (fun sn =>
  seq (for_idx (fun j f => bind (m_add (TService i) (TFunction i j) KFunction (s_identify ft (fn_name f)) (fn_name f)) (fun _ => ret tt)) 0 (sv_functions v))
  (seq (for_idx (fun j f =>
          let an := sv_name v ++ s_identify ft (dollar (fn_name f ++ s_args_suffix)) in
          let rn := sv_name v ++ s_identify ft (dollar (fn_name f ++ s_result_suffix)) in
          seq (build_struct_like ft (TSynth i j false) (fn_name f ++ s_args_suffix) SKStruct (fn_args f) (dollar an))
          (seq (when (negb (fn_oneway f))
                 (build_struct_like ft (TSynth i j true) (fn_name f ++ s_result_suffix) SKStruct (result_fields f) (dollar rn)))
               (build_function ft (TFunction i j) f)))
        0 (sv_functions v))
  (seq (m_reserve TGlobals (TService i) KClient (sn ++ s_Client) (i_client ++ sv_name v))
       (m_reserve TGlobals (TService i) KProcessor (sn ++ s_Processor) (i_processor ++ sv_name v))))).

Definition build_enum (ft : features) (k : nat) (e : enum) : M unit :=
  bind (m_add TGlobals (TEnum k) KEnum (s_identify ft (en_name e)) (en_name e)) (fun en =>
  for_each (fun v => m_add_ (TEnum k) KEnumValue (en ++ [x5f] ++ ev_name v) (ev_name v)) (en_values e)).

Definition build_typedef (ft : features) (t : typedef) : M unit :=
  bind (m_add TGlobals TGlobals KTypedef (s_identify ft (td_alias t)) (td_alias t)) (fun tn =>
  when (is_struct_like_category (ty_category (td_type t)))
       (m_reserve TGlobals TGlobals KTypedefNew (s_New ++ tn) (i_new ++ td_alias t))).

Definition build_constant (ft : features) (c : constant) : M unit :=
  m_add_ TGlobals KConstant (s_identify ft (co_name c)) (co_name c).

(* installNames *)
Definition install_names (ft : features) (f : file) : M unit :=
  seq (for_idx (build_service ft) 0 (f_services f))
  (seq (for_idx (fun k v => build_struct_like ft (TStruct k) (sl_name v) (sl_category v) (sl_fields v) (sl_name v))
                0 (struct_likes f))
  (seq (for_idx (build_enum ft) 0 (f_enums f))
  (seq (for_each (build_typedef ft) (f_typedefs f))
       (for_each (build_constant ft) (f_constants f))))).

(* every operation performed for one file, oldest first, or the error *)
Definition scope_run (ft : features) (f : file) : sresult (list entry) :=
  match install_names ft f [] with
  | SOk (_, tr) => SOk (rev tr)
  | SErr e => SErr e
  end.

Definition scope_ops (ft : features) (f : file) : sresult (list (table * op)) :=
  match scope_run ft f with
  | SOk es => SOk (map (fun e => (e_table e, e_op e)) es)
  | SErr e => SErr e
  end.
End Scope.

(* the operations of one table, in order; and the table they build *)
Definition ops_of (t : table) (l : list (table * op)) : list op :=
  map snd (filter (fun p => table_eqb (fst p) t) l).
Definition table_after (t : table) (l : list (table * op)) : ns :=
  fst (run_ops underscore_suffix ns0 (ops_of t l)).
Definition entries_of (t : table) (es : list entry) : list entry :=
  filter (fun e => table_eqb (e_table e) t) es.
