package main

import "verif/harness/resgen"

type corpusEntry struct {
	name   string
	main   string
	files  map[string]string
	expect int // 0 = resolution must succeed, else the error class it must report
}

// corpus: minimised shapes, each one aimed at one rule of the resolver (and at one of
// the seeded mutants of notes/C05.md), plus the triggers of former findings.
func corpus() []corpusEntry {
	return []corpusEntry{
		{"typedef chain of 3 written backwards (needs 2 rounds)", "main.thrift", map[string]string{
			"main.thrift": "typedef B A\ntypedef C B\ntypedef D C\ntypedef i32 D\nstruct S { 1: A a, 2: list<B> b, 3: map<C, A> m }\nconst A k = 1\n",
		}, 0},
		{"typedef chains through containers and a self-containing typedef", "main.thrift", map[string]string{
			"main.thrift": "typedef list<L> L\ntypedef L M\ntypedef map<string, M> N\nstruct S { 1: N n, 2: set<M> s }\n",
		}, 0},
		{"diamond", "main.thrift", map[string]string{
			"main.thrift":   "include \"a.thrift\"\ninclude \"b.thrift\"\ninclude \"common.thrift\"\nstruct S { 1: a.A x, 2: b.B y, 3: common.Id z, 4: a.AId w }\n",
			"a.thrift":      "include \"common.thrift\"\nstruct A { 1: common.Id id }\ntypedef common.Id AId\n",
			"b.thrift":      "include \"common.thrift\"\nstruct B { 1: common.Kind k = common.Kind.ONE }\n",
			"common.thrift": "typedef i64 Id\nenum Kind { ZERO, ONE }\n",
		}, 0},
		{"same base name in two directories: first include that DEFINES the name", "main.thrift", map[string]string{
			"main.thrift": "include \"a/x.thrift\"\ninclude \"b/x.thrift\"\nstruct S { 1: x.OnlyA a, 2: x.OnlyB b, 3: x.Both c, 4: x.TdB d }\nconst i32 k = x.KA\nconst i32 l = x.KB\nconst x.E e = x.E.V\nservice Z extends x.SvcB {}\n",
			"a/x.thrift":  "struct OnlyA {}\nstruct Both {}\nconst i32 KA = 1\nconst i32 OnlyB2 = 2\nservice SvcA {}\nconst i32 SvcB = 3\n",
			"b/x.thrift":  "struct OnlyB {}\nunion Both {}\nconst i32 KB = 2\ntypedef OnlyB TdB\nenum E { V }\nservice SvcB {}\n",
		}, 0},
		{"a name of the first include that is not a type does not stop the search", "main.thrift", map[string]string{
			"main.thrift": "include \"a/x.thrift\"\ninclude \"b/x.thrift\"\nstruct S { 1: x.N a }\n",
			"a/x.thrift":  "const i32 N = 1\n",
			"b/x.thrift":  "exception N {}\n",
		}, 0},
		{"enum values through typedefs, local and included, three files deep", "main.thrift", map[string]string{
			"main.thrift": "include \"mid.thrift\"\ntypedef mid.TE LE\ntypedef LE LE2\nenum Own { P, Q }\ntypedef Own TOwn\nconst LE a = LE.A\nconst LE2 b = LE2.B\nconst mid.TE c = mid.TE.A\nconst mid.TE2 d = mid.TE2.B\nconst TOwn e = TOwn.Q\nconst Own f = Own.P\nstruct S { 1: LE2 x = LE2.A, 2: list<mid.TE> y = [mid.TE.A, mid.TE2.B] }\n",
			"mid.thrift":  "include \"deep.thrift\"\ntypedef deep.E TE\ntypedef TE TE2\n",
			"deep.thrift": "enum E { A, B }\n",
		}, 0},
		{"global names that are also include prefixes", "main.thrift", map[string]string{
			"main.thrift": "include \"x.thrift\"\ninclude \"y.thrift\"\nenum x { J }\nconst i32 y = 3\nstruct S { 1: x a = x.J, 2: x.T b, 3: i32 c = x.K, 4: i32 d = y, 5: i32 e = y.K }\n",
			"x.thrift":    "struct T {}\nconst i32 K = 1\n",
			"y.thrift":    "const i32 K = 2\n",
		}, 0},
		{"identifier defaults of arguments and throws (former finding C05-argument-default-unbound)", "main.thrift", map[string]string{
			"main.thrift": "include \"x.thrift\"\nconst i32 C = 5\nenum E { X, Y }\nexception Ex { 1: i32 code }\nservice Svc { void f(1: i32 a = C, 2: E e = E.Y, 3: i32 k = x.K, 4: x.E2 z = x.E2.M) throws (1: Ex ex = {\"code\": C}) }\n",
			"x.thrift":    "const i32 K = 1\nenum E2 { M }\n",
		}, 0},
		{"identifiers inside list and map constants, booleans stay unbound", "main.thrift", map[string]string{
			"main.thrift": "include \"x.thrift\"\nconst i32 A = 1\nconst list<i32> L = [A, x.K, 3]\nconst map<i32, x.E2> M = {A: x.E2.M, x.K: 0}\nconst bool t = true\nconst list<bool> bs = [true, false]\n",
			"x.thrift":    "const i32 K = 1\nenum E2 { M }\n",
		}, 0},
		{"dotted base name", "main.thrift", map[string]string{
			"main.thrift":       "include \"pkg/v1.api.thrift\"\nstruct S { 1: v1.api.Foo f, 2: v1.api.E e = v1.api.E.A }\nconst i32 k = v1.api.K\nservice Z extends v1.api.Base {}\n",
			"pkg/v1.api.thrift": "struct Foo {}\nenum E { A }\nconst i32 K = 1\nservice Base {}\n",
		}, 0},
		{"union fields become optional; unused include stays unmarked", "main.thrift", map[string]string{
			"main.thrift": "include \"x.thrift\"\ninclude \"y.thrift\"\nunion U { 1: i32 a, 2: required string b, 3: optional x.T c }\n",
			"x.thrift":    "struct T {}\n",
			"y.thrift":    "struct T {}\n",
		}, 0},
		{"include used only by a constant / only by a base service", "main.thrift", map[string]string{
			"main.thrift": "include \"x.thrift\"\ninclude \"y.thrift\"\ninclude \"z.thrift\"\nconst i32 a = x.K\nservice S extends y.B {}\n",
			"x.thrift":    "const i32 K = 1\n",
			"y.thrift":    "service B {}\n",
			"z.thrift":    "service B {}\nconst i32 K = 1\n",
		}, 0},
		{"typedef of an included typedef'd container and of an included struct", "main.thrift", map[string]string{
			"main.thrift": "include \"x.thrift\"\ntypedef x.L ML\ntypedef x.TS MS\ntypedef ML ML2\nstruct S { 1: ML2 a, 2: MS b, 3: map<x.TS, ML> c }\n",
			"x.thrift":    "typedef list<S0> L\nstruct S0 {}\ntypedef S0 TS\n",
		}, 0},
		// ---- programs resolution must reject
		{"undefined local type", "main.thrift", map[string]string{"main.thrift": "struct S { 1: Nope a }\n"}, resgen.ClassUndefinedType},
		{"undefined type in an included file", "main.thrift", map[string]string{
			"main.thrift": "include \"x.thrift\"\nstruct S { 1: x.T a }\n", "x.thrift": "struct T { 1: list<Nope> a }\n"}, resgen.ClassUndefinedType},
		{"qualified name defined by no include with the prefix", "main.thrift", map[string]string{
			"main.thrift": "include \"a/x.thrift\"\ninclude \"b/x.thrift\"\nstruct S { 1: x.Nope a }\n", "a/x.thrift": "struct T {}\n", "b/x.thrift": "const i32 Nope = 1\n"}, resgen.ClassUndefinedType},
		{"constant used as a type", "main.thrift", map[string]string{"main.thrift": "const i32 K = 1\nstruct S { 1: K a }\n"}, resgen.ClassNotAType},
		{"service used as a type", "main.thrift", map[string]string{"main.thrift": "service Sv {}\ntypedef Sv T\n"}, resgen.ClassNotAType},
		{"typedef cycle of length 1", "main.thrift", map[string]string{"main.thrift": "typedef A A\n"}, resgen.ClassTypedefCycle},
		{"typedef cycle of length 2 with a chain into it", "main.thrift", map[string]string{"main.thrift": "typedef i32 Good\ntypedef In0 In1\ntypedef A In0\ntypedef B A\ntypedef A B\nstruct S { 1: Good g, 2: list<In1> x }\n"}, resgen.ClassTypedefCycle},
		{"undefined value", "main.thrift", map[string]string{"main.thrift": "const i32 K = Nope\n"}, resgen.ClassUndefinedValue},
		{"undefined enum value through a typedef", "main.thrift", map[string]string{"main.thrift": "enum E { A }\ntypedef E T\nconst T K = T.B\n"}, resgen.ClassUndefinedValue},
		{"ambiguous: two includes with one prefix define the constant", "main.thrift", map[string]string{
			"main.thrift": "include \"a/x.thrift\"\ninclude \"b/x.thrift\"\nconst i32 k = x.K\n", "a/x.thrift": "const i32 K = 1\n", "b/x.thrift": "const i32 K = 2\n"}, resgen.ClassAmbiguousValue},
		{"ambiguous: enum value or include constant", "main.thrift", map[string]string{
			"main.thrift": "include \"x.thrift\"\nenum x { K }\nconst i32 k = x.K\n", "x.thrift": "const i32 K = 1\n"}, resgen.ClassAmbiguousValue},
		{"ambiguous: include.enum.value through two includes", "main.thrift", map[string]string{
			"main.thrift": "include \"a/x.thrift\"\ninclude \"b/x.thrift\"\nstruct S { 1: i32 a = x.E.V }\n", "a/x.thrift": "enum E { V }\n", "b/x.thrift": "enum E0 { V }\ntypedef E0 E\n"}, resgen.ClassAmbiguousValue},
		{"unknown base service", "main.thrift", map[string]string{"main.thrift": "struct B {}\nservice S extends B {}\n"}, resgen.ClassBaseService},
		{"unknown included base service", "main.thrift", map[string]string{
			"main.thrift": "include \"x.thrift\"\nservice S extends x.B {}\n", "x.thrift": "struct B {}\n"}, resgen.ClassBaseService},
		// known finding C05-accepted-enum-named-like-a-base-type: T is a typedef of the base type i32,
		// T.A names nothing; getEnum looks "i32" up as a local name and finds the enum
		{"enum named like a base type", "main.thrift", map[string]string{"main.thrift": "enum i32 { A }\ntypedef i32 T\nconst T c = T.A\n"}, resgen.ClassUndefinedValue},
		{"enum named like a struct", "main.thrift", map[string]string{"main.thrift": "struct N {}\nenum N { A }\n"}, resgen.ClassDupName},
	}
}
