"""C03 — the parser is total and the AST is faithful to the source text (parser/thrift.peg, parser.go)."""
import json
import vlib


class S(vlib.Spec):
    prop = "C03"
    design_ref = "DESIGN.md section 3 / C03"
    coq_targets = ["Props/C03.vo", "Corr/C03.vo"]
    props_file = "Props/C03.v"
    harness_pkg = "./cmd/c03"
    harness_name = "c03"
    corr_codes = {1, 7, 9}
    code_names = {1: "model and implementation disagree on a source text",
                  2: "AST of the implementation differs from the intended AST (other than recorded comments)",
                  3: "the parser panicked", 4: "the parser did not return within the time limit",
                  6: "a grammatical document rendered from a model was rejected",
                  7: "generated parser and PEG interpreter on the translated grammar disagree on accepting a text",
                  9: "PEG interpreter out of fuel"}
    modelled = ("parser/thrift.peg (every production, as tokens + recursive descent), parser/parser.go: parse, pegText, "
                "parseHeader/Include/CppInclude/Namespace, parseDefinition, parseConst, parseFieldType, parseContainerType, "
                "parseConstValue, parseTypedef, parseEnum, parseUnion/Struct/Exception, parseField, parseFieldID, "
                "parseAnnotations, parseService, parseFunction, parseThrows, parseReservedComments/EndLineComments; "
                "parser/util.go addField; parser/AST-extend.go Annotations.Append; strconv.ParseInt / ParseFloat as used "
                "-> coq/Idl/Lex.v + coq/Idl/Parse.v; hand-written, tied by correspondence on every run (every .thrift file "
                "of /repo, a corpus, and documents rendered from random IDL programs under random layouts)")
    trusted_base = [
        "hand-written model coq/Idl/Lex.v (tokens, unescape = pegText, int_value = strconv.ParseInt, double_value = strconv.ParseFloat correctly rounded) and coq/Idl/Parse.v (recursive descent for thrift.peg building the AST as parser.go does)",
        "the scannerless PEG is modelled as lexer + token parser; the two agree on grammatical documents (checked by correspondence), they are not claimed to agree on which malformed inputs are rejected",
        "totality / no panic / bounded time of the generated Go parser (thrift.peg.go) and of the Go runtime is observed (random bytes, token soup, mutated documents, deep nesting, 64 KiB inputs; recover + 30 s limit), not proved",
        "translator T-peg harness/cmd/translate-peg (thrift.peg -> Idl/PegGrammar.v, re-run on every check); Ford's theorem (well-formed PEGs terminate) is cited, not mechanised",
        "harness/cmd/c03 (drives parser.ParseString in-process), harness/idlgen (random IDL programs, renderer, intended AST), harness/astdump + harness/idlast (real AST -> Coq term), harness/coqfmt, lib/vlib.py",
    ]
    assumptions = ["source bytes are valid UTF-8 wherever the model is compared (the implementation converts the source to runes; invalid bytes become U+FFFD)",
                   "exponents of doubles are written without blanks, comments or 0x/0o prefixes inside"]

    def translators(self, ctx):
        """T-peg: regenerate coq/Idl/PegGrammar.v from the working tree's parser/thrift.peg."""
        import os
        out = os.path.join(vlib.COQ, "Idl", "PegGrammar.v")
        ok, log, binp = vlib.go_build("./cmd/translate-peg", "translate-peg")
        rc, msg = (1, log)
        if ok:
            rc, msg = vlib.sh([binp, "-in", os.path.join(vlib.REPO, "parser", "thrift.peg"), "-out", out])
        if rc != 0:
            # make the failure visible as a broken proof (wf_peg of this grammar is false)
            vlib.write_if_changed(out, "(* translate-peg FAILED: %s *)\nFrom Coq Require Import List String.\nFrom Verif Require Import Base.Bytes Idl.Peg.\nImport ListNotations.\nLocal Open Scope string_scope.\nDefinition thrift_rule_count : nat := 0.\nDefinition thrift_grammar : grammar := [(B \"TRANSLATION-FAILED\", PNT 99)].\n" % " ".join(msg.split())[:300].replace("*)", "* )"))
            return ["T-peg FAILED: " + msg[-300:]]
        return ["T-peg: parser/thrift.peg -> coq/Idl/PegGrammar.v (harness/cmd/translate-peg)"]

    def classify(self, code, case):
        stream = (case or {}).get("stream", "")
        sub = (case or {}).get("sub", "")
        if code in (2, 6) and sub in ("req-prefixed-type", "rendered-req-prefixed"):
            # the one known finding: FieldReq splits a type name that starts with required/optional
            # (the AST differs, or the rest of the word is no identifier and the document is rejected)
            return "C03-req-prefixed-type-split"
        return {2: "C03-ast-differs-from-intended", 3: "C03-parser-panic", 4: "C03-parser-timeout",
                6: "C03-grammatical-document-rejected"}.get(code, "C03-code-%d" % code) + ("" if not stream else ":" + stream)

    def search(self, ctx):
        return None


def run(tier):
    return vlib.standard_run(S(), tier)


def replay(path):
    obj = json.load(open(path))
    print(json.dumps(obj, indent=1)[:6000])
    return 0
