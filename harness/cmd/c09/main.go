// Command c09: case producer for property C09 (schema evolution: unknown fields are tolerated, and
// preserved when asked).
//
// Per run: (old, new) pairs of schema programs — the corpus pair and seeded pairs produced by
// schemaevo.Evolve — are compiled four times each (old / new x with / without keep_unknown_fields)
// into ONE driver binary. Values of the new version flow new -> old -> new -> old ... through chains
// of length 1 to 3 (and values of the old version old -> new -> old); every hop is a fresh NewX()
// object that Reads the previous bytes and Writes again. Every intermediate byte string, the dump of
// every object and what CarryingUnknownFields() returned on every struct in it are written as Coq
// cases (Corr/C09.v), one set of shards per pair (the shard preamble defines EO and EN).
package main

import (
	"crypto/sha256"
	"encoding/hex"
	"encoding/json"
	"flag"
	"fmt"
	"os"
	"path/filepath"
	"sort"
	"strings"

	"verif/harness/casefile"
	"verif/harness/coqfmt"
	"verif/harness/gendrv"
	"verif/harness/rng"
	"verif/harness/schemaevo"
	"verif/harness/schemagen"
	"verif/harness/valgen"
)

const unkSlot = 32768
const issetSlot = 32769

type pair struct {
	Key      string
	Old, New *schemagen.Program
	Edits    []schemaevo.Edit
	units    map[string]*gendrv.Unit // ok op nk np
	rejected bool
}

type hopSpec struct {
	Old  bool
	Keep bool
}

func (h hopSpec) unit() string {
	k := "n"
	if h.Old {
		k = "o"
	}
	if h.Keep {
		return k + "k"
	}
	return k + "p"
}

func (h hopSpec) String() string { return h.unit() }

type rwObs struct {
	Err   string `json:"err"`
	Bytes string `json:"bytes"`
}

type hopObs struct {
	Err     string        `json:"err"`
	Errs    []string      `json:"errs"`
	Carry   *bool         `json:"carry"`
	Dump    *valgen.Value `json:"dump"`
	Rewrite *rwObs        `json:"rewrite"`
	Panic   bool          `json:"panic"`
}

type chainObs struct {
	Write rwObs    `json:"write"`
	Hops  []hopObs `json:"hops"`
	Panic bool     `json:"panic"`
	Msg   string   `json:"msg"`
}

type pending struct {
	kind     string // chain hopb
	pair     *pair
	startOld bool
	s        *schemagen.Struct
	v        *valgen.Value
	hops     []hopSpec
	inputs   [][]byte
	what     string // for hopb: reread truncate insert deep
	cmd      int
	corpus   bool
}

type stats struct {
	Pairs          int               `json:"pairs"`
	RejectedByImpl int               `json:"rejected_by_impl"`
	RejectedSample []string          `json:"rejected_sample,omitempty"`
	Units          int               `json:"units"`
	Edits          map[string]int    `json:"edits"`
	Schema         map[string]int    `json:"schema_new"`
	Structs        int               `json:"structs_in_both_versions"`
	Values         int               `json:"values"`
	Chains         map[string]int    `json:"chains"`
	HopB           map[string]int    `json:"raw_input_hops"`
	Outcomes       map[string]int    `json:"observed"`
	Carrying       map[string]int    `json:"carrying_flags"`
	UnknownKinds   map[string]int    `json:"unknown_field_wire_types"`
	Evaluations    int               `json:"evaluations"`
	Distinct       int               `json:"distinct_nontrivial"`
	Rule           string            `json:"rule"`
	Samples        []interface{}     `json:"samples"`
	OptionSets     map[string]string `json:"option_sets"`
}

func obsErr(s string) string {
	switch s {
	case "ok":
		return "OOk"
	case "invalid_data":
		return "OInvalidData"
	case "protocol":
		return "OProtocol"
	case "transport":
		return "OTransport"
	case "error":
		return "OError"
	}
	return "OPanic"
}

// retypeK: driver dump -> Value guided by the schema; the CarryingUnknownFields pseudo-slot stays in
// front, the declared fields follow in schema order.
func retypeK(p *schemagen.Program, t *schemagen.Type, v *valgen.Value) *valgen.Value {
	switch v.K {
	case "some":
		return valgen.Some(retypeK(p, t, v.P))
	case "list":
		if t.Kind != "list" && t.Kind != "set" {
			return valgen.Bad()
		}
		out := make([]*valgen.Value, len(v.L))
		for i, x := range v.L {
			out[i] = retypeK(p, t.Elem, x)
		}
		return valgen.List(out)
	case "map":
		if t.Kind != "map" {
			return valgen.Bad()
		}
		out := make([][2]*valgen.Value, len(v.M))
		for i, kv := range v.M {
			out[i] = [2]*valgen.Value{retypeK(p, t.Key, kv[0]), retypeK(p, t.Elem, kv[1])}
		}
		return valgen.Map(out)
	case "struct":
		if t.Kind != "struct" {
			return valgen.Bad()
		}
		s := p.Struct(t.Name)
		if s == nil {
			return valgen.Bad()
		}
		var out []valgen.FieldVal
		for _, fv := range v.F {
			if fv.ID == unkSlot {
				out = append(out, fv)
			}
		}
		for _, fv := range v.F {
			if fv.ID == issetSlot && fv.V.K == "struct" {
				// IsSet answers, put into schema order
				var is []valgen.FieldVal
				for _, f := range s.Fields {
					for _, x := range fv.V.F {
						if x.ID == f.ID {
							is = append(is, x)
						}
					}
				}
				out = append(out, valgen.FieldVal{ID: issetSlot, V: valgen.Struct(is)})
			}
		}
		seen := map[int]bool{}
		for _, f := range s.Fields {
			for _, fv := range v.F {
				if fv.ID == f.ID && !seen[f.ID] {
					seen[f.ID] = true
					out = append(out, valgen.FieldVal{ID: f.ID, V: retypeK(p, f.Type, fv.V)})
				}
			}
		}
		for _, fv := range v.F {
			if fv.ID != unkSlot && fv.ID != issetSlot && !seen[fv.ID] {
				out = append(out, valgen.FieldVal{ID: fv.ID, V: valgen.Bad()})
			}
		}
		return valgen.Struct(out)
	}
	return valgen.Retype(p, t, v)
}

// unionUnknownMember: the value (of the new program) contains a non-nil union one of whose set
// members the old program does not declare.
func unionUnknownMember(o, n *schemagen.Program, t *schemagen.Type, v *valgen.Value) bool {
	switch v.K {
	case "some":
		return unionUnknownMember(o, n, t, v.P)
	case "list":
		for _, x := range v.L {
			if unionUnknownMember(o, n, t.Elem, x) {
				return true
			}
		}
	case "map":
		for _, kv := range v.M {
			if unionUnknownMember(o, n, t.Key, kv[0]) || unionUnknownMember(o, n, t.Elem, kv[1]) {
				return true
			}
		}
	case "struct":
		sn := n.Struct(t.Name)
		if sn == nil {
			return false
		}
		added := schemaevo.AddedIDs(o, n, t.Name)
		for i, f := range sn.Fields {
			if i >= len(v.F) {
				break
			}
			slot := v.F[i].V
			if sn.Kind == "union" && added[f.ID] && valgen.IsSet(f, slot) {
				return true
			}
			if added[f.ID] && o.Struct(t.Name) != nil {
				continue // not visible to old code: whatever is inside stays opaque
			}
			if unionUnknownMember(o, n, f.Type, slot) {
				return true
			}
		}
	}
	return false
}

func countCarry(v *valgen.Value, st *stats) {
	switch v.K {
	case "some":
		countCarry(v.P, st)
	case "list":
		for _, x := range v.L {
			countCarry(x, st)
		}
	case "map":
		for _, kv := range v.M {
			countCarry(kv[0], st)
			countCarry(kv[1], st)
		}
	case "struct":
		for _, f := range v.F {
			if f.ID == unkSlot {
				st.Carrying[fmt.Sprint(f.V.B)]++
			} else if f.ID != issetSlot {
				countCarry(f.V, st)
			}
		}
	}
}

// dropNilStructKeys removes map entries whose key is a nil struct pointer: Go collapses them (nil == nil)
// while the value-level model treats every struct key as a distinct pointer, so a value with two of
// them does not exist on the Go side.
func dropNilStructKeys(p *schemagen.Program, t *schemagen.Type, v *valgen.Value) {
	switch v.K {
	case "some":
		dropNilStructKeys(p, t, v.P)
	case "list":
		if t.Elem != nil {
			for _, x := range v.L {
				dropNilStructKeys(p, t.Elem, x)
			}
		}
	case "map":
		if t.Key == nil {
			return
		}
		var out [][2]*valgen.Value
		for _, kv := range v.M {
			if t.Key.Kind == "struct" && kv[0].K == "nil" {
				continue
			}
			dropNilStructKeys(p, t.Key, kv[0])
			dropNilStructKeys(p, t.Elem, kv[1])
			out = append(out, kv)
		}
		if out == nil {
			out = [][2]*valgen.Value{}
		}
		v.M = out
	case "struct":
		s := p.Struct(t.Name)
		if s == nil {
			return
		}
		for i, f := range s.Fields {
			if i < len(v.F) {
				dropNilStructKeys(p, f.Type, v.F[i].V)
			}
		}
	}
}

var ttNames = map[byte]string{2: "bool", 3: "byte", 4: "double", 6: "i16", 8: "i32", 10: "i64", 11: "string", 12: "struct", 13: "map", 14: "set", 15: "list"}

// nest builds a wire value of the given nesting depth (Wire/WVal.depth) out of one container kind.
func nest(kind byte, depth int) *valgen.W {
	w := &valgen.W{T: valgen.TBool, B: true}
	for d := 1; d < depth; d++ {
		switch kind {
		case valgen.TList:
			w = &valgen.W{T: valgen.TList, ET: w.T, L: []*valgen.W{w}}
		case valgen.TSet:
			w = &valgen.W{T: valgen.TSet, ET: w.T, L: []*valgen.W{w}}
		case valgen.TMap:
			w = &valgen.W{T: valgen.TMap, KT: valgen.TI32, ET: w.T, M: [][2]*valgen.W{{{T: valgen.TI32, I: int64(d)}, w}}}
		default:
			w = &valgen.W{T: valgen.TStruct, Fields: []valgen.WField{{T: w.T, ID: int16(d % 7), V: w}}}
		}
	}
	return w
}

func freshWireID(s *schemagen.Struct, r *rng.R) int16 {
	used := map[int]bool{}
	for _, f := range s.Fields {
		used[f.ID] = true
	}
	for {
		id := r.Range(-2000, 32000)
		if !used[id] {
			return int16(id)
		}
	}
}

func main() {
	seed := flag.Uint64("seed", 1, "")
	tier := flag.String("tier", "quick", "")
	out := flag.String("out", "", "")
	tg := flag.String("thriftgo", "", "thriftgo binary built from VERIF_REPO")
	scratch := flag.String("scratch", "", "scratch directory for the generated module")
	flag.Parse()
	repo := os.Getenv("VERIF_REPO")
	if repo == "" {
		repo = "/repo"
	}
	if *out == "" || *tg == "" || *scratch == "" {
		fmt.Fprintln(os.Stderr, "usage: c09 -seed N -tier quick|thorough -out DIR -thriftgo BIN -scratch DIR")
		os.Exit(2)
	}
	r := rng.New(*seed)
	nPairs, nVal := 2, 4
	if *tier == "thorough" {
		nPairs, nVal = 14, 7
	}
	optSets := map[string]string{"ok": "keep_unknown_fields", "op": "", "nk": "keep_unknown_fields", "np": ""}
	st := &stats{Edits: map[string]int{}, Schema: map[string]int{}, Chains: map[string]int{}, HopB: map[string]int{},
		Outcomes: map[string]int{}, Carrying: map[string]int{}, UnknownKinds: map[string]int{}, OptionSets: optSets,
		Rule: "a case is non-trivial when its value has at least 2 fields or its input at least 9 bytes; distinct = distinct (pair, struct, chain shape, value or input bytes)"}

	// 1. pairs
	pairs := []*pair{{Key: "cp", Old: corpusOld(), New: corpusNew(), Edits: []schemaevo.Edit{{Kind: "corpus", Target: "hand-written pair"}}}}
	for i := 0; i < nPairs; i++ {
		pp := schemagen.DefaultParams()
		if i%2 == 1 {
			pp.StructKeys = false
		}
		if i%3 == 2 {
			pp.MaxFiles, pp.MaxStructs, pp.MaxFields = 1, 3, 6
		}
		old := schemagen.Generate(r.Fork(), pp, fmt.Sprintf("q%d", i))
		ep := schemaevo.DefaultParams()
		if i%4 == 3 {
			ep.MinEdits, ep.MaxEdits = 8, 16
		}
		nw, edits := schemaevo.Evolve(r.Fork(), old, ep)
		pairs = append(pairs, &pair{Key: old.Key, Old: old, New: nw, Edits: edits})
	}
	b := gendrv.New(*scratch, *tg, repo)
	for _, p := range pairs {
		p.units = map[string]*gendrv.Unit{}
		for k, opts := range optSets {
			prog := p.New
			if k[0] == 'o' {
				prog = p.Old
			}
			u := &gendrv.Unit{Key: k + "/" + p.Key, Prog: prog, Options: opts}
			p.units[k] = u
		}
		for _, k := range []string{"ok", "op", "nk", "np"} {
			b.Add(p.units[k])
		}
	}
	if err := b.Generate(); err != nil {
		fmt.Fprintln(os.Stderr, "generate:", err)
		os.Exit(1)
	}
	for _, rj := range b.Rejected {
		key := strings.SplitN(rj.Unit.Key, "/", 2)[1]
		for _, p := range pairs {
			if p.Key == key && !p.rejected {
				p.rejected = true
				st.RejectedByImpl++
				if len(st.RejectedSample) < 3 {
					st.RejectedSample = append(st.RejectedSample, rj.Unit.Key+": "+firstLine(rj.Output))
				}
			}
		}
	}
	// a pair is used only when all four of its units were generated
	var keptUnits []*gendrv.Unit
	for _, u := range b.Units {
		key := strings.SplitN(u.Key, "/", 2)[1]
		for _, p := range pairs {
			if p.Key == key && !p.rejected {
				keptUnits = append(keptUnits, u)
			}
		}
	}
	b.Units = keptUnits
	if err := b.Build(); err != nil {
		fmt.Fprintln(os.Stderr, "build:", err)
		os.Exit(1)
	}
	st.Units = len(b.Units)

	// 2. commands
	var cmds []gendrv.Cmd
	var pend []*pending
	add := func(pd *pending, verb string, args ...string) {
		pd.cmd = len(cmds)
		cmds = append(cmds, gendrv.Cmd{Verb: verb, Args: args})
		pend = append(pend, pd)
	}
	H := func(spec string) []hopSpec {
		var out []hopSpec
		for _, x := range strings.Fields(spec) {
			out = append(out, hopSpec{Old: x[0] == 'o', Keep: x[1] == 'k'})
		}
		return out
	}
	addChain := func(p *pair, startOld bool, s *schemagen.Struct, v *valgen.Value, hops []hopSpec, corpus bool) {
		wunit := "np"
		if startOld {
			wunit = "op"
		}
		args := []string{p.units[wunit].Key, s.QName(), v.JSON()}
		var names []string
		for _, h := range hops {
			args = append(args, p.units[h.unit()].Key, s.QName())
			names = append(names, h.unit())
		}
		add(&pending{kind: "chain", pair: p, startOld: startOld, s: s, v: v, hops: hops, corpus: corpus}, "kchain", args...)
		start := "new:"
		if startOld {
			start = "old:"
		}
		st.Chains[start+strings.Join(names, ">")]++
	}
	addHopB := func(p *pair, h hopSpec, s *schemagen.Struct, what string, inputs ...[]byte) {
		args := []string{p.units[h.unit()].Key, s.QName()}
		for _, in := range inputs {
			args = append(args, hex.EncodeToString(in))
		}
		add(&pending{kind: "hopb", pair: p, s: s, hops: []hopSpec{h}, inputs: inputs, what: what}, "khop", args...)
		st.HopB[what+":"+h.unit()]++
	}
	for _, p := range pairs {
		if p.rejected {
			continue
		}
		st.Pairs++
		for _, e := range p.Edits {
			st.Edits[e.Kind]++
		}
		p.New.Stats(st.Schema)
		gn := &valgen.G{R: r.Fork(), Prog: p.New, P: valgen.DefaultParams()}
		gO := &valgen.G{R: r.Fork(), Prog: p.Old, P: valgen.DefaultParams()}
		rr := rng.New(*seed ^ hashStr(p.Key))
		if p.Key == "cp" {
			cv := corpusValues()
			names := make([]string, 0, len(cv))
			for k := range cv {
				names = append(names, k)
			}
			sort.Strings(names)
			for _, name := range names {
				s := p.New.Struct(name)
				for _, v := range cv[name] {
					st.Values++
					addChain(p, false, s, v, H("ok np ok"), true)
					addChain(p, false, s, v, H("ok"), true)
					addChain(p, false, s, v, H("op np"), true)
				}
			}
		}
		if p.Key == "cp" {
			// old corpus data read by new code: added default-carrying fields at every position
			cv := corpusOldValues()
			names := make([]string, 0, len(cv))
			for k := range cv {
				names = append(names, k)
			}
			sort.Strings(names)
			for _, name := range names {
				s := p.Old.Struct(name)
				for _, v := range cv[name] {
					st.Values++
					addChain(p, true, s, v, H("np ok np"), true)
					addChain(p, true, s, v, H("nk op"), true)
					addChain(p, true, s, v, H("np"), true)
				}
			}
		}
		for _, sn := range p.New.Structs() {
			so := p.Old.Struct(sn.QName())
			if so == nil {
				continue
			}
			st.Structs++
			// rich / bare / rich neighbouring elements in every container of struct-likes, both directions
			if valgen.StructHasStructContainer(so) {
				vo := gO.Neighbours(so, 2)
				dropNilStructKeys(p.Old, &schemagen.Type{Kind: "struct", Name: so.QName()}, vo)
				st.Values++
				addChain(p, true, so, vo, H("np ok np"), false)
				addChain(p, true, so, vo, H("nk"), false)
			}
			if valgen.StructHasStructContainer(sn) {
				vn := gn.Neighbours(sn, 2)
				dropNilStructKeys(p.New, &schemagen.Type{Kind: "struct", Name: sn.QName()}, vn)
				st.Values++
				addChain(p, false, sn, vn, H("ok np ok"), false)
				addChain(p, false, sn, vn, H("op"), false)
			}
			for k := 0; k < nVal; k++ {
				v := gn.Struct(sn, rr.Range(0, 3))
				dropNilStructKeys(p.New, &schemagen.Type{Kind: "struct", Name: sn.QName()}, v)
				st.Values++
				addChain(p, false, sn, v, H("ok np ok"), false)
				switch k % 4 {
				case 0:
					addChain(p, false, sn, v, H("ok"), false)
					addChain(p, false, sn, v, H("op np op"), false)
				case 1:
					addChain(p, false, sn, v, H("ok nk"), false)
				case 2:
					addChain(p, false, sn, v, H("op"), false)
					addChain(p, false, sn, v, H("nk ok"), false)
				default:
					addChain(p, false, sn, v, H("ok nk ok"), false)
				}
				// raw inputs derived from the harness-side encoding of the value
				w, err := valgen.ToWire(p.New, sn, v)
				if err != nil {
					continue
				}
				enc := w.Enc()
				if k%3 == 0 {
					// Read twice into one object
					v2 := gn.Struct(sn, rr.Range(0, 2))
					dropNilStructKeys(p.New, &schemagen.Type{Kind: "struct", Name: sn.QName()}, v2)
					if w2, err := valgen.ToWire(p.New, sn, v2); err == nil {
						addHopB(p, hopSpec{Old: true, Keep: true}, so, "reread", enc, w2.Enc())
						addHopB(p, hopSpec{Old: true, Keep: false}, so, "reread", enc, w2.Enc())
					}
				}
				if k%3 == 1 && len(enc) > 1 {
					addHopB(p, hopSpec{Old: true, Keep: true}, so, "truncate", enc[:rr.Intn(len(enc))])
					addHopB(p, hopSpec{Old: true, Keep: true}, so, "truncate", enc[:rr.Intn(len(enc))])
				}
				if k%3 == 2 {
					// unknown fields of every wire type, random content, inserted at random positions
					ins := valgen.AllInsertions(rr, sn, w)
					for j := 0; j < 3 && len(ins) > 0; j++ {
						x := ins[rr.Intn(len(ins))]
						addHopB(p, hopSpec{Old: true, Keep: true}, so, "insert", x.Enc())
					}
					if x := valgen.NestedUnknown(rr, p.New, sn, w); x != nil {
						addHopB(p, hopSpec{Old: true, Keep: true}, so, "nested_insert", x.Enc())
					}
				}
			}
			// the nesting limit of the re-encoder: an unknown field whose payload has depth 63..66
			if len(so.Fields) < 40 {
				for _, kind := range []byte{valgen.TList, valgen.TStruct, valgen.TMap, valgen.TSet} {
					for _, d := range []int{63, 64, 65, 66} {
						if *tier != "thorough" && p.Key != "cp" && (d == 63 || d == 66) {
							continue
						}
						payload := nest(kind, d)
						w := &valgen.W{T: valgen.TStruct, Fields: []valgen.WField{{T: payload.T, ID: freshWireID(sn, rr), V: payload}}}
						// the old struct may have required fields: put the deep field in front of a valid encoding
						base, err := valgen.ToWire(p.Old, so, gO.Struct(so, 1))
						if err == nil {
							w.Fields = append(w.Fields, base.Fields...)
						}
						addHopB(p, hopSpec{Old: true, Keep: true}, so, fmt.Sprintf("deep%d", d), w.Enc())
					}
				}
			}
			// old data read by new code
			for k := 0; k < (nVal+1)/2; k++ {
				v := gO.Struct(so, rr.Range(1, 3))
				dropNilStructKeys(p.Old, &schemagen.Type{Kind: "struct", Name: so.QName()}, v)
				st.Values++
				if k%2 == 0 {
					addChain(p, true, so, v, H("np ok np"), false)
				} else {
					addChain(p, true, so, v, H("nk op"), false)
				}
			}
		}
	}

	// 3. run
	results, err := b.Run(cmds)
	if err != nil {
		fmt.Fprintln(os.Stderr, "run:", err)
		os.Exit(1)
	}

	// 4. cases, one writer per pair
	writers := map[string]*casefile.Writer{}
	var order []string
	getW := func(p *pair) *casefile.Writer {
		if w, ok := writers[p.Key]; ok {
			return w
		}
		dir := filepath.Join(*out, p.Key)
		os.MkdirAll(dir, 0o755)
		pre := "From Verif Require Import Base.Bytes Base.BE Wire.TType Wire.WVal Wire.Codec Wire.Schema Wire.Value Wire.Std Wire.Unknown Corr.C02 Corr.C09.\n" +
			"From Coq Require Import List NArith ZArith String.\nImport ListNotations.\nOpen Scope string_scope.\n" +
			coqfmt.FastPreamble +
			"Definition EO : env := " + p.Old.Coq() + ".\n" +
			"Definition EN : env := " + p.New.Coq() + ".\n" +
			"Definition mismatches := mismatches_from EO EN N0.\n"
		w := casefile.New(dir, pre, 90)
		writers[p.Key] = w
		order = append(order, p.Key)
		w.Add("CPair", map[string]interface{}{"kind": "pair", "pair": p.Key, "edits": p.Edits, "old": p.Old, "new": p.New,
			"old_idl": p.Old.Render(), "new_idl": p.New.Render(), "go_extends": schemaevo.Extends(p.Old, p.New)})
		return w
	}
	distinct := map[[32]byte]bool{}
	hopTerm := func(p *pair, s *schemagen.Struct, h hopSpec, o *hopObs) string {
		side, prog := "SNew", p.New
		if h.Old {
			side, prog = "SOld", p.Old
		}
		errc := o.Err
		if o.Panic || errc == "" {
			errc = "panic"
		}
		dump, werr, wb := "VNil", "OOk", ""
		if errc == "ok" && o.Dump != nil {
			d := retypeK(prog, &schemagen.Type{Kind: "struct", Name: s.QName()}, o.Dump)
			countCarry(d, st)
			dump = d.Coq()
			if o.Rewrite != nil {
				werr = obsErr(o.Rewrite.Err)
				bs, _ := hex.DecodeString(o.Rewrite.Bytes)
				wb = string(bs)
			} else {
				werr = "OPanic"
			}
		}
		st.Outcomes["read:"+h.unit()+":"+errc]++
		if errc == "ok" {
			st.Outcomes["rewrite:"+h.unit()+":"+strings.TrimPrefix(werr, "O")]++
		}
		return fmt.Sprintf("(mkhop %s %s %s %s %s %s)", side, coqfmt.Bool(h.Keep), obsErr(errc), dump, werr, coqfmt.BytesF(wb))
	}
	for _, pd := range pend {
		p := pd.pair
		w := getW(p)
		res := results[pd.cmd]
		desc := map[string]interface{}{"kind": pd.kind, "pair": p.Key, "struct": pd.s.QName(), "edits": p.Edits,
			"old_idl": p.Old.Render(), "new_idl": p.New.Render(), "observed": json.RawMessage(res)}
		switch pd.kind {
		case "chain":
			var o chainObs
			if err := json.Unmarshal(res, &o); err != nil {
				desc["parse_error"] = err.Error()
			}
			werr := o.Write.Err
			if o.Panic || werr == "" {
				werr = "panic"
			}
			wb, _ := hex.DecodeString(o.Write.Bytes)
			var hs []string
			for i := range o.Hops {
				if i < len(pd.hops) {
					hs = append(hs, hopTerm(p, pd.s, pd.hops[i], &o.Hops[i]))
				}
			}
			start := "SNew"
			if pd.startOld {
				start = "SOld"
			}
			var names []string
			for _, h := range pd.hops {
				names = append(names, h.unit())
			}
			desc["start"] = start
			desc["chain"] = strings.Join(names, ">")
			desc["value"] = pd.v
			desc["corpus"] = pd.corpus
			if !pd.startOld {
				desc["union_unknown_member"] = unionUnknownMember(p.Old, p.New, &schemagen.Type{Kind: "struct", Name: pd.s.QName()}, pd.v)
			}
			term := fmt.Sprintf("(CChain %s %s %s %s %s %s)", start, coqfmt.BytesF(pd.s.QName()), pd.v.Coq(), obsErr(werr),
				coqfmt.BytesF(string(wb)), coqfmt.List(hs))
			w.Add(term, desc)
			distinct[sha256.Sum256([]byte("c"+p.Key+pd.s.QName()+start+strings.Join(names, ">")+pd.v.JSON()))] = len(pd.v.F) >= 2
		case "hopb":
			var o hopObs
			if err := json.Unmarshal(res, &o); err != nil {
				desc["parse_error"] = err.Error()
			}
			var ins, hexes []string
			for _, in := range pd.inputs {
				ins = append(ins, coqfmt.BytesF(string(in)))
				hexes = append(hexes, hex.EncodeToString(in))
			}
			desc["inputs"] = hexes
			desc["what"] = pd.what
			desc["unit"] = pd.hops[0].unit()
			term := fmt.Sprintf("(CHopB %s %s %s)", coqfmt.BytesF(pd.s.QName()), coqfmt.List(ins), hopTerm(p, pd.s, pd.hops[0], &o))
			w.Add(term, desc)
			distinct[sha256.Sum256([]byte("h"+p.Key+pd.s.QName()+pd.hops[0].unit()+strings.Join(hexes, "|")))] = len(pd.inputs[0]) >= 9
			if pd.what == "insert" || pd.what == "nested_insert" {
				st.UnknownKinds["inserted"]++
			}
		}
	}
	// wire types of the unknown fields the chains exercised: added fields per type kind
	for _, p := range pairs {
		if p.rejected {
			continue
		}
		for _, sn := range p.New.Structs() {
			if p.Old.Struct(sn.QName()) == nil {
				continue
			}
			added := schemaevo.AddedIDs(p.Old, p.New, sn.QName())
			for _, f := range sn.Fields {
				if added[f.ID] {
					st.UnknownKinds[ttNames[valgen.TTypeOf(f.Type)]]++
				}
			}
		}
	}
	total := 0
	var shards []string
	for _, key := range order {
		w := writers[key]
		if err := w.Close(); err != nil {
			fmt.Fprintln(os.Stderr, err)
			os.Exit(1)
		}
		for _, sh := range w.Shards {
			shards = append(shards, key+"/"+sh)
		}
		total += w.Total()
	}
	st.Evaluations = total
	for _, nt := range distinct {
		if nt {
			st.Distinct++
		}
	}
	for i, p := range pairs {
		if i < 2 && !p.rejected {
			st.Samples = append(st.Samples, map[string]interface{}{"pair": p.Key, "edits": p.Edits, "old_idl": p.Old.Render(), "new_idl": p.New.Render()})
		}
	}
	if err := casefile.WriteMeta(*out, map[string]interface{}{"stats": st, "shards": shards, "total": total}); err != nil {
		fmt.Fprintln(os.Stderr, err)
		os.Exit(1)
	}
}

func firstLine(s string) string {
	s = strings.TrimSpace(s)
	if i := strings.IndexByte(s, '\n'); i >= 0 {
		s = s[:i]
	}
	if len(s) > 300 {
		s = s[:300]
	}
	return s
}

func hashStr(s string) uint64 {
	h := sha256.Sum256([]byte(s))
	var x uint64
	for i := 0; i < 8; i++ {
		x = x<<8 | uint64(h[i])
	}
	return x
}
