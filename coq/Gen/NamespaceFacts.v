(* Gen/NamespaceFacts.v — proofs about the model of pkg/namespace. *)
From Coq Require Import List Arith Bool Lia.
From Coq.Strings Require Import Byte.
From Verif Require Import Base.Bytes Gen.Namespace.
Import ListNotations.

(* the invariant: the name an id currently has is owned by that id *)
Definition NsInv (s : ns) : Prop :=
  forall id n, lookup id (id2name s) = Some n -> lookup n (name2id s) = Some id.

Lemma NsInv_0 : NsInv ns0.
Proof. intros id n H. discriminate. Qed.

(* giving [name] to [id] is safe when the name is free or already owned by [id] *)
Lemma NsInv_set s name id :
  NsInv s -> (lookup name (name2id s) = None \/ lookup name (name2id s) = Some id) ->
  NsInv (ns_set s name id).
Proof.
  intros HI Hfree i n. cbn.
  destruct (list_eq_dec Byte.byte_eq_dec id i) as [->|Hne].
  - rewrite lookup_update_same. intros [= <-]. apply lookup_update_same.
  - rewrite (lookup_update_other id i) by assumption. intro H.
    pose proof (HI i n H) as Hn.
    destruct (list_eq_dec Byte.byte_eq_dec name n) as [->|Hnn].
    + destruct Hfree as [Hf|Hf]; rewrite Hf in Hn; congruence.
    + rewrite lookup_update_other by assumption. exact Hn.
Qed.

Lemma add_loop_free rename fuel : forall s name id res cnt r,
  add_loop rename fuel s name id res cnt = Some r ->
  lookup r (name2id s) = None \/ lookup r (name2id s) = Some id.
Proof.
  induction fuel as [|f IH]; intros s name id res cnt r; cbn [add_loop].
  - destruct (lookup res (name2id s)) as [cur|] eqn:E.
    + destruct (beqb cur id) eqn:Eb; [|discriminate].
      apply beqb_true in Eb. subst. intros [= <-]. right; exact E.
    + intros [= <-]. left; exact E.
  - destruct (lookup res (name2id s)) as [cur|] eqn:E.
    + destruct (beqb cur id) eqn:Eb.
      * apply beqb_true in Eb. subst. intros [= <-]. right; exact E.
      * apply IH.
    + intros [= <-]. left; exact E.
Qed.

Lemma step_inv rename s o s' v : NsInv s -> step rename s o = (s', v) -> NsInv s'.
Proof.
  intros HI. destruct o as [name id|name id|id|name]; cbn [step].
  - unfold add. destruct (add_loop _ _ s name id name 0) as [res|] eqn:E.
    + intros [= <- _]. apply NsInv_set; [assumption | eapply add_loop_free; eassumption].
    + intros [= <- _]. assumption.
  - unfold reserve. destruct (lookup name (name2id s)) eqn:E.
    + intros [= <- _]. assumption.
    + intros [= <- _]. apply NsInv_set; [assumption | left; assumption].
  - intros [= <- _]. assumption.
  - intros [= <- _]. assumption.
Qed.

Lemma run_ops_inv rename ops : forall s s' vs, NsInv s -> run_ops rename s ops = (s', vs) -> NsInv s'.
Proof.
  induction ops as [|o ops IH]; intros s s' vs HI; cbn [run_ops].
  - intros [= <- _]. assumption.
  - destruct (step rename s o) as [s1 v] eqn:E1. destruct (run_ops rename s1 ops) as [s2 vs2] eqn:E2.
    intros [= <- _]. eapply IH; [eapply step_inv; eassumption | eassumption].
Qed.

(* Two different ids never have the same (non-empty, i.e. present) name — after ANY sequence of
   Add / Reserve / Get / ID operations, whatever the rename function is. *)
Theorem ns_injective rename ops s vs i j n :
  run_ops rename ns0 ops = (s, vs) ->
  lookup i (id2name s) = Some n -> lookup j (id2name s) = Some n -> i = j.
Proof.
  intros Hr Hi Hj. apply run_ops_inv in Hr; [|apply NsInv_0].
  pose proof (Hr i n Hi) as H1. pose proof (Hr j n Hj) as H2. congruence.
Qed.

(* A reserved name is never handed to another id later: name2id entries are never overwritten
   by a different owner. *)
Definition owners_kept (s s' : ns) : Prop :=
  forall n id, lookup n (name2id s) = Some id -> lookup n (name2id s') = Some id.

Lemma step_owners rename s o s' v : step rename s o = (s', v) -> owners_kept s s'.
Proof.
  destruct o as [name id|name id|id|name]; cbn [step].
  - unfold add. destruct (add_loop _ _ s name id name 0) as [res|] eqn:E.
    + intros [= <- _] n i Hn. cbn.
      destruct (list_eq_dec Byte.byte_eq_dec res n) as [->|Hne].
      * apply add_loop_free in E. destruct E as [E|E]; rewrite E in Hn; [discriminate|].
        injection Hn as <-. apply lookup_update_same.
      * rewrite lookup_update_other by assumption. exact Hn.
    + intros [= <- _] n i Hn. exact Hn.
  - unfold reserve. destruct (lookup name (name2id s)) eqn:E.
    + intros [= <- _] n i Hn. exact Hn.
    + intros [= <- _] n i Hn. cbn.
      destruct (list_eq_dec Byte.byte_eq_dec name n) as [->|Hne]; [congruence|].
      rewrite lookup_update_other by assumption. exact Hn.
  - intros [= <- _] n i Hn. exact Hn.
  - intros [= <- _] n i Hn. exact Hn.
Qed.

Theorem ns_owner_stable rename ops : forall s s' vs,
  run_ops rename s ops = (s', vs) -> owners_kept s s'.
Proof.
  induction ops as [|o ops IH]; intros s s' vs; cbn [run_ops].
  - intros [= <- _] n i H. exact H.
  - destruct (step rename s o) as [s1 v] eqn:E1. destruct (run_ops rename s1 ops) as [s2 vs2] eqn:E2.
    intros [= <- _] n i H. eapply IH; [eassumption|]. eapply step_owners; eassumption.
Qed.

(* Reserve succeeds exactly when the name is free, and then binds it *)
Theorem reserve_spec s name id :
  (lookup name (name2id s) = None -> exists s', reserve s name id = (s', true) /\ get s' id = name /\ get_id s' name = id) /\
  (lookup name (name2id s) <> None -> reserve s name id = (s, false)).
Proof.
  unfold reserve, get, get_id. split.
  - intros ->. eexists. split; [reflexivity|]. cbn. rewrite !lookup_update_same. split; reflexivity.
  - destruct (lookup name (name2id s)); [reflexivity | congruence].
Qed.

(* Add returns the preferred name when it is free or already owned by this id, and the id can
   then be looked up under the returned name *)
Theorem add_spec rename s name id s' r :
  add rename s name id = Some (s', r) ->
  get s' id = r /\ get_id s' r = id /\
  ((lookup name (name2id s) = None \/ lookup name (name2id s) = Some id) -> r = name).
Proof.
  unfold add. destruct (add_loop _ _ s name id name 0) as [res|] eqn:E; [|discriminate].
  intros [= <- <-]. unfold get, get_id. cbn. rewrite !lookup_update_same.
  split; [reflexivity|]. split; [reflexivity|].
  intros Hfree. cbn [add_loop] in E.
  destruct Hfree as [Hf|Hf]; rewrite Hf in E.
  - congruence.
  - rewrite beqb_refl in E. congruence.
Qed.
