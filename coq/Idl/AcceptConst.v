(* Idl/AcceptFacts.v, part 2 (property C04): identifiers used as values.
     - the executable enumeration [Rules.explanations] lists exactly the explanations
       of the declarative relation ResolveSpec.const_denotes whenever it answers;
     - a file that went through resolve_file_in has, for every identifier, exactly one
       candidate, which by the theorems of C05 ([all_cands_spec]) is the one thing
       the identifier denotes: no identifier is undefined, none is ambiguous.
   As in C05 this needs [plain_names]: no definition is called like a builtin type or
   has a dot in its name. *)
From Coq Require Import List Bool Arith Lia NArith ZArith.
From Coq.Strings Require Import Byte.
From Verif Require Import Base.Bytes Idl.Ast Idl.AstUtil Idl.AstFacts Idl.Resolve Idl.ResolveSpec Idl.ResolveTd
     Idl.ResolveLemmas Idl.ResolveInv Idl.ResolveConst Idl.ResolveProg
     Idl.Check Idl.Rules Idl.CheckFacts Idl.Accept Idl.AcceptFacts.
Import ListNotations.
Local Open Scope resolve_scope.

(* ---------------------------------------------------------------- spec_enum against enum_denotes *)

Lemma spec_enum_spec p : forall fuel fn n res, spec_enum fuel p fn n = Some res ->
  match res with
  | Some (efn, vs, i) => enum_denotes p fn n efn vs i
  | None => forall efn vs i, ~ enum_denotes p fn n efn vs i
  end.
Proof.
  induction fuel as [|k IH]; intros fn n res H; cbn [spec_enum] in H; [discriminate|].
  destruct (def_of p fn n) as [kd|] eqn:Dn.
  2:{ injection H as <-. intros efn vs i Hd. destruct (enum_denotes_def _ _ _ _ _ _ Hd) as [(? & E)|(? & E)]; congruence. }
  destruct kd as [tgt| |vs|s|].
  - (* typedef *)
    destruct (builtin_category tgt) as [c|] eqn:Bt.
    { injection H as <-. intros efn vs i Hd. destruct (enum_denotes_typedef_inv _ _ _ _ _ _ _ Dn Hd) as (Hb & _). congruence. }
    destruct (split_type tgt) as [|a [|m [|? ?]]] eqn:St.
    + injection H as <-. intros efn vs i Hd. destruct (enum_denotes_typedef_inv _ _ _ _ _ _ _ Dn Hd) as (_ & [(a & E & _)|(f & pre & m & j & hn & j' & E & _)]); congruence.
    + specialize (IH fn a res H). destruct res as [[[efn vs] i]|].
      * eapply ed_local; eauto.
      * intros efn vs i Hd. destruct (enum_denotes_typedef_inv _ _ _ _ _ _ _ Dn Hd) as (_ & [(a' & E & Hd')|(f & pre & m & j & hn & j' & E & _)]); [|congruence].
        assert (a' = a) by congruence. subst a'. exact (IH _ _ _ Hd').
    + destruct (prog_file p fn) as [f|] eqn:Pf.
      2:{ injection H as <-. intros efn vs i Hd. destruct (enum_denotes_typedef_inv _ _ _ _ _ _ _ Dn Hd) as (_ & [(a' & E & _)|(f & pre & m' & j & hn & j' & E & Pf' & _)]); congruence. }
      destruct (spec_include p is_type_kind a m (file_incs f) 0) as [[i gn]|] eqn:Si.
      2:{ injection H as <-. intros efn vs i Hd. destruct (enum_denotes_typedef_inv _ _ _ _ _ _ _ Dn Hd) as (_ & [(a' & E & _)|(f' & pre & m' & j & hn & j' & E & Pf' & Si' & _)]); [congruence|].
          assert (f' = f) by congruence. subst f'. assert (pre = a /\ m' = m) as (-> & ->) by (split; congruence). congruence. }
      destruct (spec_enum k p gn m) as [r|] eqn:Se; [|discriminate]. specialize (IH gn m r Se).
      destruct r as [[[efn vs] j]|]; injection H as <-.
      * eapply ed_qualified; eauto.
      * intros efn vs i' Hd. destruct (enum_denotes_typedef_inv _ _ _ _ _ _ _ Dn Hd) as (_ & [(a' & E & _)|(f' & pre & m' & j & hn & j' & E & Pf' & Si' & Hd')]); [congruence|].
        assert (f' = f) by congruence. subst f'. assert (pre = a /\ m' = m) as (-> & ->) by (split; congruence).
        assert (hn = gn) by congruence. subst hn. exact (IH _ _ _ Hd').
    + injection H as <-. intros efn vs i Hd. destruct (enum_denotes_typedef_inv _ _ _ _ _ _ _ Dn Hd) as (_ & [(a' & E & _)|(f & pre & m' & j & hn & j' & E & _)]); congruence.
  - injection H as <-. intros efn vs i Hd. destruct (enum_denotes_def _ _ _ _ _ _ Hd) as [(? & E)|(? & E)]; congruence.
  - injection H as <-. apply ed_enum. exact Dn.
  - injection H as <-. intros efn vs i Hd. destruct (enum_denotes_def _ _ _ _ _ _ Hd) as [(? & E)|(? & E)]; congruence.
  - injection H as <-. intros efn vs i Hd. destruct (enum_denotes_def _ _ _ _ _ _ Hd) as [(? & E)|(? & E)]; congruence.
Qed.

Lemma mem_bytes_true x l : mem_bytes x l = true <-> In x l.
Proof. exact (memb_true x l). Qed.

(* ---------------------------------------------------------------- inc_expl *)

Lemma inc_expl_spec h pre : forall incs idx l, inc_expl h pre incs idx = Some l ->
  forall x, In x l <->
    exists i gn li, idx <= i /\ nth_error incs (i - idx) = Some (pre, Some gn) /\ h i gn = Some li /\ In x li.
Proof.
  induction incs as [|[pre' ref] incs IH]; intros idx l H x; cbn [inc_expl] in H.
  - injection H as <-. split; [intros []|]. intros (i & gn & li & _ & Hn & _). destruct (i - idx); discriminate.
  - destruct (if beqb pre' pre then match ref with Some gn => h idx gn | None => Some [] end else Some []) as [a|] eqn:Ha; [|discriminate].
    destruct (inc_expl h pre incs (S idx)) as [b|] eqn:Hb; [|discriminate]. injection H as <-.
    rewrite in_app_iff, (IH _ _ Hb x). split.
    + intros [Hx|(i & gn & li & Hle & Hn & Hh & Hx)].
      * destruct (beqb pre' pre) eqn:Ep; [|injection Ha as <-; destruct Hx]. apply beqb_true in Ep. subst pre'.
        destruct ref as [gn|]; [|injection Ha as <-; destruct Hx].
        exists idx, gn, a. rewrite Nat.sub_diag. cbn. auto.
      * exists i, gn, li. split; [lia|]. replace (i - idx) with (S (i - S idx)) by lia. cbn. auto.
    + intros (i & gn & li & Hle & Hn & Hh & Hx). destruct (Nat.eq_dec i idx) as [->|Hne].
      * left. rewrite Nat.sub_diag in Hn. cbn in Hn. injection Hn as -> ->. rewrite beqb_refl, Hh in Ha. injection Ha as <-. exact Hx.
      * right. exists i, gn, li. split; [lia|]. replace (i - idx) with (S (i - S idx)) in Hn by lia. cbn in Hn. auto.
Qed.

(* every include with the prefix is asked *)
Lemma inc_expl_call h pre : forall incs idx l i gn, inc_expl h pre incs idx = Some l ->
  nth_error incs i = Some (pre, Some gn) -> exists li, h (idx + i) gn = Some li.
Proof.
  induction incs as [|[pre' ref] incs IH]; intros idx l i gn H Hn; [destruct i; discriminate|].
  cbn [inc_expl] in H.
  destruct (if beqb pre' pre then match ref with Some g => h idx g | None => Some [] end else Some []) as [a|] eqn:Ha; [|discriminate].
  destruct (inc_expl h pre incs (S idx)) as [b|] eqn:Hb; [|discriminate].
  destruct i as [|i]; cbn [nth_error] in Hn.
  - injection Hn as -> ->. rewrite beqb_refl in Ha. rewrite Nat.add_0_r. eauto.
  - destruct (IH _ _ _ _ Hb Hn) as (li & Hl). exists li. replace (idx + S i) with (S idx + i) by lia. exact Hl.
Qed.

(* ---------------------------------------------------------------- alt_expl against alt_denotes *)

Lemma alt_expl_spec p fuel fn f ss l : prog_file p fn = Some f ->
  alt_expl fuel p fn f ss = Some l -> forall x, In x l <-> alt_denotes p fn ss x.
Proof.
  intros Pf H x. destruct ss as [|a [|b [|c [|? ?]]]]; cbn [alt_expl] in H; cbn [alt_denotes].
  - injection H as <-. split; [intros [] | tauto].
  - injection H as <-. destruct (def_of p fn a) as [k|] eqn:Da.
    + destruct k; split; try (intros []; fail); try (intros (E & _); discriminate).
      * intros [<-|[]]. auto.
      * intros (_ & ->). left. reflexivity.
    + split; [intros [] | intros (E & _); discriminate].
  - destruct (spec_enum fuel p fn a) as [r|] eqn:Se; [|discriminate].
    match type of H with match ?ie with _ => _ end = _ => destruct ie as [c2|] eqn:Hc2; [|discriminate] end.
    injection H as <-. pose proof (spec_enum_spec p _ _ _ _ Se) as Hse.
    rewrite in_app_iff, (inc_expl_spec _ _ _ _ _ Hc2 x). split.
    + intros [H1|(i & gn & li & _ & Hn & Hh & Hx)].
      * left. destruct r as [[[efn vs] i]|]; [|destruct H1]. destruct (mem_bytes b vs) eqn:M; [|destruct H1].
        destruct H1 as [<-|[]]. apply mem_bytes_true in M. eauto 6.
      * right. rewrite Nat.sub_0_r in Hn. injection Hh as <-. destruct (def_of p gn b) as [k|] eqn:Db; [|destruct Hx].
        destruct k; try (destruct Hx; fail). destruct Hx as [<-|[]]. exists f, i, gn. auto.
    + intros [(efn & vs & i & Hd & Hv & ->)|(f0 & i & gn & Pf0 & Hn & Hd & ->)].
      * left. destruct r as [[[efn' vs'] i']|]; [|exfalso; eapply Hse; eauto].
        destruct (enum_denotes_fun _ _ _ _ _ _ Hse _ _ _ Hd) as (_ & -> & ->).
        apply mem_bytes_true in Hv. rewrite Hv. left. reflexivity.
      * right. assert (f0 = f) by congruence. subst f0. exists i, gn, [Extra false (Z.of_nat i) b a].
        split; [lia|]. rewrite Nat.sub_0_r. split; [exact Hn|]. rewrite Hd. split; [reflexivity | left; reflexivity].
  - rewrite (inc_expl_spec _ _ _ _ _ H x). split.
    + intros (i & gn & li & _ & Hn & Hh & Hx). rewrite Nat.sub_0_r in Hn.
      destruct (spec_enum fuel p gn b) as [r|] eqn:Se; [|discriminate]. pose proof (spec_enum_spec p _ _ _ _ Se) as Hse.
      destruct r as [[[efn vs] j]|]; injection Hh as <-; [|destruct Hx].
      destruct (mem_bytes c vs) eqn:M; [|destruct Hx]. destruct Hx as [<-|[]]. apply mem_bytes_true in M.
      exists f, i, gn, efn, vs, j. auto.
    + intros (f0 & i & gn & efn & vs & j & Pf0 & Hn & Hd & Hv & ->). assert (f0 = f) by congruence. subst f0.
      destruct (inc_expl_call _ _ _ _ _ _ _ H Hn) as (li & Hl). cbn [plus] in Hl.
      exists i, gn, li. split; [lia|]. rewrite Nat.sub_0_r. split; [exact Hn|]. split; [exact Hl|].
      destruct (spec_enum fuel p gn b) as [r|] eqn:Se; [|discriminate]. pose proof (spec_enum_spec p _ _ _ _ Se) as Hse.
      destruct r as [[[efn' vs'] j']|]; [|exfalso; eapply Hse; eauto].
      destruct (enum_denotes_fun _ _ _ _ _ _ Hse _ _ _ Hd) as (_ & -> & _). injection Hl as <-.
      apply mem_bytes_true in Hv. rewrite Hv. left. reflexivity.
  - injection H as <-. split; [intros [] | tauto].
Qed.

Lemma all_expl_spec p fuel fn f : prog_file p fn = Some f -> forall sss l,
  all_expl fuel p fn f sss = Some l ->
  forall x, In x l <-> exists ss, In ss sss /\ alt_denotes p fn ss x.
Proof.
  intros Pf. induction sss as [|ss sss IH]; intros l H x; cbn [all_expl] in H.
  - injection H as <-. split; [intros [] | intros (? & [] & _)].
  - destruct (alt_expl fuel p fn f ss) as [a|] eqn:Ha; [|discriminate].
    destruct (all_expl fuel p fn f sss) as [b|] eqn:Hb; [|discriminate]. injection H as <-.
    rewrite in_app_iff, (alt_expl_spec p _ _ _ _ _ Pf Ha x), (IH _ eq_refl x). split.
    + intros [Hx|(ss' & Hin & Hx)]; [exists ss; cbn; auto | exists ss'; cbn; auto].
    + intros (ss' & [<-|Hin] & Hx); [left; exact Hx | right; eauto].
Qed.

(* when the enumeration answers, it lists exactly the explanations of the relation *)
Theorem explanations_spec p fn f s l : prog_file p fn = Some f -> explanations p fn f s = Some l ->
  forall x, In x l <-> const_denotes p fn s x.
Proof.
  intros Pf H x. unfold explanations in H. rewrite (all_expl_spec p _ _ _ Pf _ _ H x).
  symmetry. apply const_denotes_alt.
Qed.

(* ---------------------------------------------------------------- the model binds every identifier *)

(* the identifiers ResolveConstValue must bind *)
Definition cv_idents (c : const_value) : list bytes :=
  flat_map (fun c => match c with
                     | CIdent s _ => if ident_is_bool s then [] else [s]
                     | _ => []
                     end) (cv_subvalues c).

Lemma resolve_cv_idents fuel done g : forall c c', resolve_cv fuel done g c = Ok c' ->
  forall s, In s (cv_idents c) -> exists e, resolve_ident fuel done g s = Ok (Some e).
Proof.
  unfold cv_idents.
  induction c as [b|z|s0|s0 e0|l IHl|l IHl] using const_value_ind'; intros c' H s Hs; cbn [cv_subvalues flat_map app] in Hs.
  - destruct Hs.
  - destruct Hs.
  - destruct Hs.
  - rewrite app_nil_r in Hs. destruct (ident_is_bool s0) eqn:Bs; [destruct Hs|]. destruct Hs as [<-|[]].
    cbn [resolve_cv] in H. inv_bind H. destruct x as [e1|]; [eauto|]. exfalso.
    unfold resolve_ident in E. rewrite Bs in E. inv_bind E. destruct x as [|e1 [|? ?]]; discriminate.
  - cbn [resolve_cv] in H. inv_bind H. clear H. rename x into l'. revert l' E Hs.
    induction IHl as [|y l Hy _ IH2]; intros l' E Hs; cbn [map concat flat_map] in Hs; [destruct Hs|].
    inv_bind E. rewrite flat_map_app in Hs. apply in_app_or in Hs. destruct Hs as [Hs|Hs].
    + eapply Hy; eauto.
    + eapply IH2; eauto.
  - cbn [resolve_cv] in H. inv_bind H. clear H. rename x into l'. revert l' E Hs.
    induction IHl as [|[k v] l (Hk & Hv) _ IH2]; intros l' E Hs; cbn [map concat flat_map fst snd] in Hs; [destruct Hs|].
    inv_bind E. rewrite !flat_map_app in Hs. apply in_app_or in Hs. destruct Hs as [Hs|Hs].
    + apply in_app_or in Hs. destruct Hs as [Hs|Hs]; [eapply Hk; eauto | eapply Hv; eauto].
    + eapply IH2; eauto.
Qed.

Lemma file_idents_in f s : In s (file_idents f) ->
  exists c, In c (file_top_const_values f) /\ In s (cv_idents c).
Proof.
  unfold file_idents, file_const_values, cv_idents. intros H. apply in_flat_map in H.
  destruct H as (c0 & Hc0 & Hs). apply in_flat_map'_iff in Hc0. destruct Hc0 as (c & Hc & Hsub).
  exists c. split; [exact Hc|]. apply in_flat_map. eauto.
Qed.

Section OneFileConst.
  Variables (p d1 : program) (fn : bytes) (f f' : file).
  Hypothesis Hinv : inv p d1.
  Hypothesis Hplain : plain_names p = true.
  Hypothesis Hf : prog_file p fn = Some f.
  Hypothesis Htg : forall i, In i (f_includes f) -> exists hn, in_ref i = Some hn /\ lookup hn d1 <> None.
  Hypothesis Hres : resolve_file_in d1 f = Ok f'.

  Lemma field_default_idents g fuel b fd fd' : resolve_field fuel d1 g b fd = Ok fd' ->
    forall c s, fd_default fd = Some c -> In s (cv_idents c) -> exists e, resolve_ident fuel d1 g s = Ok (Some e).
  Proof.
    intros H c s Hd Hs. unfold resolve_field in H. apply bind_ok in H. destruct H as (t1 & _ & H).
    apply bind_ok in H. destruct H as (d & Hdv & _). rewrite Hd in Hdv. apply bind_ok in Hdv.
    destruct Hdv as (c' & Hc' & _). eapply resolve_cv_idents; eauto.
  Qed.

  (* every identifier of the parsed file has exactly one explanation *)
  Lemma file_idents_bound : forall s, In s (file_idents f) ->
    exists e, forall x, const_denotes p fn s x <-> x = e.
  Proof.
    pose proof Hres as H. unfold resolve_file_in in H. inv_bind H. clear H.
    rename x into n2c, x0 into tds1, x1 into cs1, x2 into ss1, x3 into us1, x4 into es1, x5 into sv1.
    set (f0 := with_name2cat f (Some n2c)) in *. set (f1 := with_typedefs f0 tds1) in *.
    set (fuel := enum_fuel d1 f1) in *.
    pose proof (cur_ectx p d1 fn f n2c tds1 Hinv Hf Htg E E0) as Hctx.
    assert (Hone : forall s e, resolve_ident fuel d1 f1 s = Ok (Some e) -> forall x, const_denotes p fn s x <-> x = e).
    { intros s e Hr x. destruct (resolve_ident_good p d1 Hinv Hplain fn f f1 Hctx eq_refl Htg fuel s e Hr) as (Hd & Hu).
      split; [apply Hu | intros ->; exact Hd]. }
    assert (Hsl : forall l l1 s, mapM (resolve_struct_like fuel d1 f1) l = Ok l1 -> In s l ->
              forall fd c id, In fd (sl_fields s) -> fd_default fd = Some c -> In id (cv_idents c) ->
              exists e, resolve_ident fuel d1 f1 id = Ok (Some e)).
    { intros l l1 s Hm Hs fd c id Hfd Hd Hid. destruct (mapM_In _ _ _ _ Hm Hs) as (s1 & H1).
      unfold resolve_struct_like in H1. apply bind_ok in H1. destruct H1 as (fs1 & Hfs & _).
      destruct (mapM_In _ _ _ _ Hfs Hfd) as (fd1 & H2). exact (field_default_idents f1 _ _ _ _ H2 c id Hd Hid). }
    intros s Hs. destruct (file_idents_in f s Hs) as (c & Hc & Hid).
    assert (Hb : exists e, resolve_ident fuel d1 f1 s = Ok (Some e)).
    { unfold file_top_const_values in Hc. apply in_app_or in Hc. destruct Hc as [Hc|Hc].
      - apply in_map_iff in Hc. destruct Hc as (co & <- & Hco). destruct (mapM_In _ _ _ _ E1 Hco) as (co1 & H1).
        unfold resolve_constant in H1. apply bind_ok in H1. destruct H1 as (t1 & _ & H1).
        apply bind_ok in H1. destruct H1 as (v1 & Hv1 & _). eapply resolve_cv_idents; eauto.
      - apply in_flat_map'_iff in Hc. destruct Hc as (fd & Hfd & Hc).
        destruct (fd_default fd) as [c0|] eqn:Hd; [|destruct Hc]. destruct Hc as [<-|[]].
        unfold file_fields in Hfd. apply in_app_or in Hfd. destruct Hfd as [Hfd|Hfd].
        + apply in_flat_map'_iff in Hfd. destruct Hfd as (sl & Hsl0 & Hfd). unfold struct_likes in Hsl0.
          apply in_app_or in Hsl0. destruct Hsl0 as [Hs0|Hs0]; [exact (Hsl _ _ sl E2 Hs0 fd c0 s Hfd Hd Hid)|].
          apply in_app_or in Hs0. destruct Hs0 as [Hs0|Hs0]; [exact (Hsl _ _ sl E3 Hs0 fd c0 s Hfd Hd Hid) | exact (Hsl _ _ sl E4 Hs0 fd c0 s Hfd Hd Hid)].
        + apply in_flat_map'_iff in Hfd. destruct Hfd as (sv & Hsv & Hfd). unfold service_fields in Hfd.
          apply in_flat_map'_iff in Hfd. destruct Hfd as (fu & Hfu & Hfd).
          destruct (mapM_In _ _ _ _ E5 Hsv) as (sv' & H1). unfold resolve_service in H1.
          apply bind_ok in H1. destruct H1 as (fns1 & Hfns & _). destruct (mapM_In _ _ _ _ Hfns Hfu) as (fu' & H2).
          unfold resolve_function in H2. apply bind_ok in H2. destruct H2 as (rt & _ & H2).
          apply bind_ok in H2. destruct H2 as (args1 & Hargs & H2). apply bind_ok in H2. destruct H2 as (thr1 & Hthr & _).
          unfold function_fields in Hfd. apply in_app_or in Hfd. destruct Hfd as [Hfd|Hfd].
          * destruct (mapM_In _ _ _ _ Hargs Hfd) as (fd1 & H3). exact (field_default_idents f1 _ _ _ _ H3 c0 s Hd Hid).
          * destruct (mapM_In _ _ _ _ Hthr Hfd) as (fd1 & H3). exact (field_default_idents f1 _ _ _ _ H3 c0 s Hd Hid). }
    destruct Hb as (e & He). exists e. exact (Hone s e He).
  Qed.

  Lemma file_consts_ok : undefined_const p fn f = false /\ ambiguous_const p fn f = false.
  Proof.
    split.
    - unfold undefined_const. apply existsb_false. intros s Hs. destruct (file_idents_bound s Hs) as (e & He).
      destruct (explanations p fn f s) as [l|] eqn:Ex; [|reflexivity]. destruct l as [|x l]; [|reflexivity].
      exfalso. exact (proj2 (explanations_spec p fn f s [] Hf Ex e) (proj2 (He e) eq_refl)).
    - unfold ambiguous_const. apply existsb_false. intros s Hs. destruct (file_idents_bound s Hs) as (e & He).
      destruct (explanations p fn f s) as [l|] eqn:Ex; [|reflexivity].
      unfold two_distinct. apply existsb_false. intros x Hx. apply existsb_false. intros y Hy.
      apply (explanations_spec p fn f s l Hf Ex) in Hx, Hy. apply He in Hx, Hy. subst x y.
      rewrite (proj2 (const_extra_eqb_eq e e) eq_refl). reflexivity.
  Qed.
End OneFileConst.
