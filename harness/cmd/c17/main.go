// c17 produces correspondence cases for property C17 (dump / parse round trip):
// the real dump.DumpIDL of /repo is run on parsed IDL files, the text is re-read by
// parser.ParseString and, as a whole program, by the semantic pass; thorough tier
// also runs the trimmer binary with -r and re-reads the tree it wrote.
//
//	c17 -seed N -tier quick|thorough -out DIR [-trimmer BIN]
//	c17 -probe 'IDL text'          debugging aid
package main

import (
	"flag"
	"fmt"
	"html"
	"math"
	"os"
	"os/exec"
	"path/filepath"
	"sort"
	"strconv"
	"strings"
	"time"

	"github.com/cloudwego/thriftgo/parser"
	"github.com/cloudwego/thriftgo/semantic"
	"github.com/cloudwego/thriftgo/tool/trimmer/dump"
	"github.com/cloudwego/thriftgo/tool/trimmer/trim"

	"verif/harness/astdump"
	"verif/harness/casefile"
	"verif/harness/coqfmt"
	"verif/harness/idlast"
	"verif/harness/idlgen"
	"verif/harness/rng"
)

// Case is one file handed to DumpIDL (JSON form, used in replay files).
type Case struct {
	Kind     string       `json:"kind"`
	Program  string       `json:"program,omitempty"` // generator seed / corpus name
	File     *idlast.File `json:"file"`
	Fmt      [][2]string  `json:"fmt,omitempty"` // double bits, text
	Text     *string      `json:"text"`
	DumpErr  string       `json:"dump_error,omitempty"`
	Reparse  *idlast.File `json:"reparse"`
	ParseErr string       `json:"parse_error,omitempty"`
	SemOrig  bool         `json:"sem_orig"`
	SemDump  bool         `json:"sem_dump"`
	SemErr   string       `json:"sem_error,omitempty"`
	Reread   *idlast.File `json:"reread,omitempty"` // the file as the recursive parser returns it for the dumped tree
	EmptyTxt bool         `json:"empty_text_in_program,omitempty"` // some file of the program was dumped as the empty text
	Source   string       `json:"source,omitempty"` // the IDL text the file was parsed from (corpus only)
}

type fmtEntry struct {
	bits uint64
	text string
}

func (c *Case) coq(fm []fmtEntry) string {
	var tbl []string
	for _, e := range fm {
		tbl = append(tbl, fmt.Sprintf("(%s, %s)", coqfmt.N(e.bits), coqfmt.Bytes(e.text)))
	}
	text := "None"
	if c.Text != nil {
		text = "(Some " + coqfmt.Bytes(*c.Text) + ")"
	}
	re := "None"
	if c.Reparse != nil {
		re = "(Some " + c.Reparse.Coq() + ")"
	}
	rr := "None"
	if c.Reread != nil {
		rr = "(Some " + c.Reread.Coq() + ")"
	}
	return fmt.Sprintf("mkcase %s %s %s %s %s %s %s", c.File.Coq(), coqfmt.List(tbl), text, re,
		coqfmt.Bool(c.SemOrig), coqfmt.Bool(c.SemDump), rr)
}

// ---------------------------------------------------------------- walking the real AST

func eachConst(t *parser.Thrift, f func(*parser.ConstValue)) {
	var walk func(c *parser.ConstValue)
	walk = func(c *parser.ConstValue) {
		if c == nil || c.TypedValue == nil {
			return
		}
		f(c)
		for _, x := range c.TypedValue.List {
			walk(x)
		}
		for _, m := range c.TypedValue.Map {
			walk(m.Key)
			walk(m.Value)
		}
	}
	fields := func(fs []*parser.Field) {
		for _, fd := range fs {
			walk(fd.Default)
		}
	}
	for _, c := range t.Constants {
		walk(c.Value)
	}
	for _, s := range t.GetStructLikes() {
		fields(s.Fields)
	}
	for _, s := range t.Services {
		for _, fn := range s.Functions {
			fields(fn.Arguments)
			fields(fn.Throws)
		}
	}
}

func eachAnnotations(t *parser.Thrift, f func(parser.Annotations)) {
	var ty func(x *parser.Type)
	ty = func(x *parser.Type) {
		if x == nil {
			return
		}
		f(x.Annotations)
		ty(x.KeyType)
		ty(x.ValueType)
	}
	fields := func(fs []*parser.Field) {
		for _, fd := range fs {
			f(fd.Annotations)
			ty(fd.Type)
		}
	}
	for _, n := range t.Namespaces {
		f(n.Annotations)
	}
	for _, d := range t.Typedefs {
		f(d.Annotations)
		ty(d.Type)
	}
	for _, c := range t.Constants {
		f(c.Annotations)
		ty(c.Type)
	}
	for _, e := range t.Enums {
		f(e.Annotations)
		for _, v := range e.Values {
			f(v.Annotations)
		}
	}
	for _, s := range t.GetStructLikes() {
		f(s.Annotations)
		fields(s.Fields)
	}
	for _, s := range t.Services {
		f(s.Annotations)
		for _, fn := range s.Functions {
			f(fn.Annotations)
			ty(fn.FunctionType)
			fields(fn.Arguments)
			fields(fn.Throws)
		}
	}
}

func fmtTable(t *parser.Thrift) []fmtEntry {
	seen := map[uint64]bool{}
	var out []fmtEntry
	eachConst(t, func(c *parser.ConstValue) {
		if c.TypedValue.Double != nil {
			b := math.Float64bits(*c.TypedValue.Double)
			if !seen[b] {
				seen[b] = true
				out = append(out, fmtEntry{b, strconv.FormatFloat(*c.TypedValue.Double, 'g', -1, 64)})
			}
		}
	})
	return out
}

func files(main *parser.Thrift) []*parser.Thrift {
	seen := map[*parser.Thrift]bool{}
	var out []*parser.Thrift
	var walk func(t *parser.Thrift)
	walk = func(t *parser.Thrift) {
		if t == nil || seen[t] {
			return
		}
		seen[t] = true
		out = append(out, t)
		for _, i := range t.Includes {
			walk(i.Reference)
		}
	}
	walk(main)
	return out
}

// stripComments removes every recorded comment: the AST of the same text without comments.
func stripComments(t *parser.Thrift) {
	fields := func(fs []*parser.Field) {
		for _, f := range fs {
			f.ReservedComments = ""
		}
	}
	for _, d := range t.Typedefs {
		d.ReservedComments = ""
	}
	for _, c := range t.Constants {
		c.ReservedComments = ""
	}
	for _, e := range t.Enums {
		e.ReservedComments = ""
		for _, v := range e.Values {
			v.ReservedComments = ""
		}
	}
	for _, s := range t.GetStructLikes() {
		s.ReservedComments = ""
		fields(s.Fields)
	}
	for _, s := range t.Services {
		s.ReservedComments = ""
		for _, fn := range s.Functions {
			fn.ReservedComments = ""
			fields(fn.Arguments)
			fields(fn.Throws)
		}
	}
}

// ---------------------------------------------------------------- hostile literal texts

// literal texts the parser can produce: no backslash at the end, and not both a double
// and a single quote after an odd run of backslashes
var litPieces = []string{
	`\"`, `\'`, `\\`, `\\\"`, `\\\\"`, `"`, `'`, `""`, `'"`, `&`, `&amp;`, `&lt;`, `&#34;`, `<`, `>`, `#`, `#OUTQUOTES`,
	`##34;`, `##`, `\n`, `\t`, `\`, ` `, `a`, `Z`, `0`, `é`, `世`, `//`, `/*`, `*/`, `{`, `)`, `,`, `;`, `=`, "\t", "\n",
	// an ampersand in front of a legacy HTML entity name written without semicolon (query strings)
	`?a=1&region=eu`, `&copy=1`, `&section=3`, `size&lt=100`, `&amp`, `&quot`, `&gt5`, `&notify`, `&para=`, `&times`, `&reg`,
	`&deg;`, `&#38`, `&#x26;`, `&AMP;`, `x&y`,
}

// doubles whose shortest round-tripping spelling needs 17 significant digits, at small and huge
// magnitudes, powers of two and their neighbours, the extremes of the format
var hostileDoubles = []float64{
	1.1920928955078125e-07, 1.1754943508222875e-38, 1.1102230246251565e-16, 2.2250738585072014e-308,
	1.7976931348623157e308, 5e-324, 8.98846567431158e307, 2.2204460492503131e-16, 9.313225746154785e-10,
	0.30000000000000004, 1.0000000000000002, 9007199254740993, 123456789012345680000, 1e23, 8.5e-320,
	6.103515625e-05, 3.0517578125e-05, 1.4012984643248171e-45, 3.4028234663852886e38,
}

func hostileDouble(r *rng.R) float64 {
	switch r.Intn(4) {
	case 0:
		return rng.Pick(r, hostileDoubles)
	case 1: // a power of two, or a neighbour of one
		v := math.Ldexp(1, r.Range(-1074, 1023))
		switch r.Intn(3) {
		case 0:
			v = math.Nextafter(v, math.Inf(1))
		case 1:
			v = math.Nextafter(v, 0)
		}
		if v == 0 || math.IsInf(v, 0) {
			v = 1.1920928955078125e-07
		}
		if r.Bool() {
			v = -v
		}
		return v
	default: // random finite bit pattern (random magnitude, almost always 17 digits)
		for {
			v := math.Float64frombits(r.U64())
			if !math.IsNaN(v) && !math.IsInf(v, 0) && v != 0 {
				return v
			}
		}
	}
}

func oddBefore(s string, q byte) bool {
	run := 0
	for i := 0; i < len(s); i++ {
		if s[i] == q && run%2 == 1 {
			return true
		}
		if s[i] == '\\' {
			run++
		} else {
			run = 0
		}
	}
	return false
}

func producible(s string) bool {
	if strings.HasSuffix(s, `\`) {
		return false
	}
	return !(oddBefore(s, '"') && oddBefore(s, '\''))
}

func hostileText(r *rng.R) string {
	for {
		var sb strings.Builder
		for i, n := 0, r.Range(1, 6); i < n; i++ {
			sb.WriteString(rng.Pick(r, litPieces))
		}
		if s := sb.String(); producible(s) {
			return s
		}
	}
}

// mutate rewrites some literal constants and annotation values in place.  The result is
// an AST the parser can produce (every text is the value of some literal).
func mutate(r *rng.R, t *parser.Thrift, num, den int) int {
	n := 0
	eachConst(t, func(c *parser.ConstValue) {
		if c.TypedValue.Literal != nil && r.Chance(num, den) {
			s := hostileText(r)
			c.TypedValue.Literal = &s
			n++
		}
		if c.TypedValue.Double != nil && r.Chance(num, den) {
			v := hostileDouble(r)
			c.TypedValue.Double = &v
			n++
		}
	})
	eachAnnotations(t, func(a parser.Annotations) {
		for _, an := range a {
			for i := range an.Values {
				if r.Chance(num, den) {
					an.Values[i] = hostileText(r)
					n++
				}
			}
		}
	})
	return n
}

// ---------------------------------------------------------------- running the implementation

func safeDump(t *parser.Thrift) (out string, err error) {
	defer func() {
		if r := recover(); r != nil {
			err = fmt.Errorf("panic: %v", r)
		}
	}()
	return dump.DumpIDL(t)
}

func safeParseString(name, text string) (t *parser.Thrift, err error) {
	defer func() {
		if r := recover(); r != nil {
			err = fmt.Errorf("panic: %v", r)
		}
	}()
	return parser.ParseString(name, text)
}

func safeAstdump(t *parser.Thrift) (f *idlast.File, err error) {
	defer func() {
		if r := recover(); r != nil {
			err = fmt.Errorf("panic: %v", r)
		}
	}()
	return astdump.FileChecked(t)
}

// semantic pass as the trimmer runs it
func semOK(main *parser.Thrift) (err error) {
	defer func() {
		if r := recover(); r != nil {
			err = fmt.Errorf("panic: %v", r)
		}
	}()
	if path := parser.CircleDetect(main); len(path) > 0 {
		return fmt.Errorf("include circle")
	}
	checker := semantic.NewChecker(semantic.Options{FixWarnings: true})
	if _, err := checker.CheckAll(main); err != nil {
		return err
	}
	return semantic.ResolveSymbols(main)
}

func parseTree(root, mainRel string) (t *parser.Thrift, err error) {
	defer func() {
		if r := recover(); r != nil {
			err = fmt.Errorf("panic: %v", r)
		}
	}()
	wd, _ := os.Getwd()
	defer os.Chdir(wd)
	if err := os.Chdir(root); err != nil {
		return nil, err
	}
	return parser.ParseFile(mainRel, nil, true)
}

// oneFile dumps t and re-reads the text.
func oneFile(kind, prog string, t *parser.Thrift) (*Case, []fmtEntry) {
	c := &Case{Kind: kind, Program: prog, SemOrig: true, SemDump: true}
	f, err := safeAstdump(t)
	if err != nil {
		panic(err) // the parser produced a shape Idl/Ast.v cannot express: a harness bug
	}
	c.File = f
	fm := fmtTable(t)
	for _, e := range fm {
		c.Fmt = append(c.Fmt, [2]string{strconv.FormatUint(e.bits, 10), e.text})
	}
	text, err := safeDump(t)
	if err != nil {
		c.DumpErr = err.Error()
		return c, fm
	}
	c.Text = &text
	t2, err := safeParseString(t.Filename, text)
	if err != nil {
		c.ParseErr = strings.TrimSpace(err.Error())
		if len(c.ParseErr) > 300 {
			c.ParseErr = c.ParseErr[:300]
		}
		return c, fm
	}
	c.Reparse, err = safeAstdump(t2)
	if err != nil {
		panic(err)
	}
	return c, fm
}

type stats struct {
	Evaluations        int            `json:"evaluations"`
	DistinctNontrivial int            `json:"distinct_nontrivial"`
	Rule               string         `json:"rule"`
	Kinds              map[string]int `json:"kinds"`
	Features           map[string]int `json:"features"`
	Generator          map[string]int `json:"generator"`
	ParseErrors        int            `json:"reparse_errors"`
	DumpErrors         int            `json:"dump_errors"`
	SemRejectOrig      int            `json:"programs_rejected_by_semantic_pass"`
	SemRejectDump      int            `json:"dumped_programs_rejected_by_semantic_pass"`
	Programs           int            `json:"programs"`
	Mutated            int            `json:"literals_rewritten"`
	Reread             int            `json:"files_with_reread_tree_observation"`
	GeneratorHung      int            `json:"generator_did_not_return"`
	TrimmerRuns        int            `json:"trimmer_runs"`
	TrimmerFailed      int            `json:"trimmer_failed"`
	Bytes              int            `json:"dumped_bytes"`
	Samples            []string       `json:"samples"`
}

type producer struct {
	w    *casefile.Writer
	st   *stats
	seen map[string]bool
	tmp  string
}

func (p *producer) feature(k string, n int) {
	if n > 0 {
		p.st.Features[k] += n
	}
}

func (p *producer) measure(t *parser.Thrift) {
	f := p.feature
	f("includes", len(t.Includes))
	f("cpp_include", len(t.CppIncludes))
	f("namespaces", len(t.Namespaces))
	for _, n := range t.Namespaces {
		if len(n.Annotations) > 0 {
			f("annotations.on_namespace", 1)
		}
	}
	var ty func(x *parser.Type)
	ty = func(x *parser.Type) {
		if x == nil {
			return
		}
		if len(x.Annotations) > 0 {
			f("annotations.on_type", 1)
		}
		if x.CppType != "" {
			f("cpp_type", 1)
		}
		ty(x.KeyType)
		ty(x.ValueType)
	}
	flds := func(where string, fs []*parser.Field) {
		for _, fd := range fs {
			ty(fd.Type)
			if fd.ID < 0 {
				f("negative_id", 1)
			}
			if fd.Default != nil {
				f(where+".default", 1)
			}
			if len(fd.Annotations) > 0 {
				f("annotations.on_"+where, 1)
			}
		}
	}
	for _, d := range t.Typedefs {
		ty(d.Type)
	}
	for _, c := range t.Constants {
		ty(c.Type)
	}
	for _, s := range t.GetStructLikes() {
		if len(s.Fields) == 0 {
			f("empty_struct_like", 1)
		}
		flds("field", s.Fields)
	}
	for _, e := range t.Enums {
		if len(e.Values) == 0 {
			f("empty_enum", 1)
		}
		for _, v := range e.Values {
			if v.Value < 0 {
				f("negative_enum_value", 1)
			}
		}
	}
	for _, s := range t.Services {
		if len(s.Functions) == 0 {
			f("empty_service", 1)
		}
		for _, fn := range s.Functions {
			ty(fn.FunctionType)
			flds("argument", fn.Arguments)
			flds("throws", fn.Throws)
			if fn.Oneway {
				f("oneway", 1)
			}
		}
	}
	lits := func(s string) {
		f("literal", 1)
		if strings.Contains(s, `"`) && strings.Contains(s, `'`) {
			f("literal.both_quotes", 1)
		}
		if oddBefore(s, '"') {
			f("literal.backslash_dquote", 1)
		}
		if oddBefore(s, '\'') {
			f("literal.backslash_squote", 1)
		}
		if strings.Contains(s, `\`) {
			f("literal.backslash", 1)
		}
		if strings.ContainsAny(s, "&<#") {
			f("literal.amp_lt_hash", 1)
		}
		if html.UnescapeString(s) != s {
			f("literal.html_unescape_would_change_it", 1)
		}
	}
	eachConst(t, func(c *parser.ConstValue) {
		tv := c.TypedValue
		switch {
		case tv.Double != nil:
			f("double", 1)
			if len(strconv.FormatFloat(*tv.Double, 'g', 16, 64)) < len(strconv.FormatFloat(*tv.Double, 'g', -1, 64)) {
				f("double.needs_17_digits", 1)
			}
			if a := math.Abs(*tv.Double); a != 0 && (a < 1e-30 || a > 1e30) {
				f("double.extreme_magnitude", 1)
			}
		case tv.Literal != nil:
			lits(*tv.Literal)
		case tv.List != nil && len(tv.List) > 0 && (tv.List[0].TypedValue.List != nil || tv.List[0].TypedValue.Map != nil):
			f("nested_constant", 1)
		case tv.Map != nil && len(tv.Map) > 0 && (tv.Map[0].Value.TypedValue.List != nil || tv.Map[0].Value.TypedValue.Map != nil):
			f("nested_constant", 1)
		}
	})
	eachAnnotations(t, func(a parser.Annotations) {
		for _, an := range a {
			if len(an.Values) > 1 {
				f("annotations.repeated_key", 1)
			}
			for _, v := range an.Values {
				lits(v)
			}
		}
	})
}

func (p *producer) add(c *Case, fm []fmtEntry) {
	p.st.Evaluations++
	p.st.Kinds[c.Kind]++
	if c.Text == nil {
		p.st.DumpErrors++
	} else {
		p.st.Bytes += len(*c.Text)
		if c.Reparse == nil {
			p.st.ParseErrors++
		}
		defs := len(c.File.Typedefs) + len(c.File.Constants) + len(c.File.Enums) + len(c.File.Structs) +
			len(c.File.Unions) + len(c.File.Exceptions) + len(c.File.Services)
		if defs > 0 && !p.seen[*c.Text] {
			p.seen[*c.Text] = true
			p.st.DistinctNontrivial++
			if len(p.st.Samples) < 6 && defs >= 3 && p.st.Evaluations%7 == 0 {
				s := *c.Text
				if len(s) > 600 {
					s = s[:600] + "…"
				}
				p.st.Samples = append(p.st.Samples, s)
			}
		}
	}
	if err := p.w.Add(c.coq(fm), c); err != nil {
		fmt.Fprintln(os.Stderr, err)
		os.Exit(2)
	}
}

// program runs one multi-file program through every in-process variant.
// root: directory holding the tree, mainRel: root-relative main file.
func (p *producer) program(name, root, mainRel string, r *rng.R, mutateNum int) {
	p.st.Programs++
	noComments := (p.st.Programs/2)%2 == 0
	fresh := func(mseed uint64) *parser.Thrift {
		t, err := parseTree(root, mainRel)
		if err != nil {
			fmt.Fprintf(os.Stderr, "c17: program %s does not parse: %v\n", name, err)
			os.Exit(2)
		}
		if mutateNum > 0 {
			mr := rng.New(mseed)
			for _, f := range files(t) {
				p.st.Mutated += mutate(mr, f, mutateNum, 6)
			}
		}
		if noComments {
			for _, f := range files(t) {
				stripComments(f)
			}
		}
		return t
	}
	mseed := r.U64()
	// the semantic pass on the original (it rewrites the AST: on its own copy)
	semOrig := semOK(fresh(mseed)) == nil
	if !semOrig {
		p.st.SemRejectOrig++
	}

	// variant 1: the AST as parsed
	t := fresh(mseed)
	kind := "parsed"
	if mutateNum > 0 {
		kind = "parsed+hostile-literals"
	}
	if noComments {
		kind += "+no-comments"
	}
	var cases []*Case
	var fms [][]fmtEntry
	outRoot, _ := os.MkdirTemp(p.tmp, "dumped")
	allText := true
	for _, f := range files(t) {
		p.measure(f)
		c, fm := oneFile(kind, name, f)
		cases = append(cases, c)
		fms = append(fms, fm)
		if c.Text == nil {
			allText = false
			continue
		}
		full := filepath.Join(outRoot, filepath.FromSlash(f.Filename))
		os.MkdirAll(filepath.Dir(full), 0o755)
		os.WriteFile(full, []byte(*c.Text), 0o644)
	}
	// the dumped program as a whole through the semantic pass
	semDump := false
	semErr := ""
	if allText {
		if t2, err := parseTree(outRoot, mainRel); err != nil {
			semErr = "parse: " + err.Error()
		} else if func() bool {
			// the re-read tree, file by file, before the semantic pass rewrites it
			byName := map[string]*parser.Thrift{}
			for _, f2 := range files(t2) {
				byName[f2.Filename] = f2
			}
			for i, f := range files(t) {
				if f2 := byName[f.Filename]; f2 != nil {
					if rr, err := safeAstdump(f2); err == nil {
						cases[i].Reread = rr
						p.st.Reread++
					}
				}
			}
			return false
		}() {
		} else if err := semOK(t2); err != nil {
			semErr = err.Error()
		} else {
			semDump = true
		}
	}
	if semOrig && !semDump {
		p.st.SemRejectDump++
	}
	os.RemoveAll(outRoot)
	cases[0].SemOrig, cases[0].SemDump = semOrig, semDump
	for _, c := range cases {
		if c.Text != nil && *c.Text == "" {
			cases[0].EmptyTxt = true
		}
	}
	if len(semErr) > 300 {
		semErr = semErr[:300]
	}
	cases[0].SemErr = semErr
	for i, c := range cases {
		p.add(c, fms[i])
	}

	// variant 2: the AST after the semantic pass (what the trimmer dumps)
	if semOrig {
		t := fresh(mseed)
		if err := semOK(t); err == nil {
			for _, f := range files(t) {
				c, fm := oneFile("resolved", name, f)
				p.add(c, fm)
			}
		}
	}
}

func (p *producer) generated(i int, r *rng.R, opt idlgen.Options, mutateNum int) (root, mainRel string) {
	// watchdog: a generator that does not come back is skipped (and counted), not waited for
	done := make(chan *idlgen.Program, 1)
	go func() { done <- idlgen.Generate(r, opt) }()
	var prog *idlgen.Program
	select {
	case prog = <-done:
	case <-time.After(10 * time.Second):
		p.st.GeneratorHung++
		return "", ""
	}
	for k, v := range prog.Stats() {
		p.st.Generator[k] += v
	}
	root, _ = os.MkdirTemp(p.tmp, "prog")
	lay := idlgen.RandomLayout(r)
	if _, err := prog.WriteTree(root, lay); err != nil {
		fmt.Fprintln(os.Stderr, err)
		os.Exit(2)
	}
	return root, prog.Main()
}

// trimmerRun: the trimmer binary with -r on a generated tree; every file it wrote becomes
// a case whose AST is the in-process result of the same steps (parse, check, resolve, trim).
func (p *producer) trimmerRun(bin, name, root, mainRel string) {
	p.st.TrimmerRuns++
	out, _ := os.MkdirTemp(p.tmp, "trimmed")
	defer os.RemoveAll(out)
	cmd := exec.Command(bin, "-r", root, "-o", out, mainRel)
	cmd.Dir = root
	if b, err := cmd.CombinedOutput(); err != nil {
		// the trimmer refuses programs the semantic pass rejects: not a finding of C17
		p.st.TrimmerFailed++
		_ = b
		return
	}
	t, err := parseTree(root, mainRel)
	if err != nil {
		return
	}
	if semOK(t) != nil {
		return
	}
	wd, _ := os.Getwd()
	os.Chdir(root) // TrimAST looks for trim_config.yaml in the working directory
	_, err = trim.TrimAST(&trim.TrimASTArg{Ast: t})
	os.Chdir(wd)
	if err != nil {
		return
	}
	for _, f := range files(t) {
		c := &Case{Kind: "trimmer-binary", Program: name, SemOrig: true, SemDump: true}
		c.File, _ = safeAstdump(f)
		fm := fmtTable(f)
		for _, e := range fm {
			c.Fmt = append(c.Fmt, [2]string{strconv.FormatUint(e.bits, 10), e.text})
		}
		b, err := os.ReadFile(filepath.Join(out, filepath.FromSlash(f.Filename)))
		if err != nil {
			c.DumpErr = "file not written: " + f.Filename
			p.add(c, fm)
			continue
		}
		text := string(b)
		c.Text = &text
		if t2, err := safeParseString(f.Filename, text); err != nil {
			c.ParseErr = strings.TrimSpace(err.Error())
		} else {
			c.Reparse, _ = safeAstdump(t2)
		}
		p.add(c, fm)
	}
	// the written tree as a program
	if t2, err := parseTree(out, mainRel); err == nil {
		if err := semOK(t2); err != nil {
			c := &Case{Kind: "trimmer-binary-tree", Program: name, SemOrig: true, SemDump: false, SemErr: err.Error()}
			c.File, _ = safeAstdump(t)
			s := ""
			c.Text = &s
			c.Reparse = &idlast.File{Filename: c.File.Filename}
			p.add(c, nil)
		}
	}
}

func main() {
	seed := flag.Uint64("seed", 1, "seed")
	tier := flag.String("tier", "quick", "quick|thorough")
	out := flag.String("out", ".", "output directory")
	trimmer := flag.String("trimmer", "", "path of the trimmer binary built from /repo (process-level cases)")
	pr := flag.String("probe", "", "IDL text: dump and re-parse it, print everything")
	flag.Parse()
	if *pr != "" {
		probe(*pr)
		return
	}
	absOut, _ := filepath.Abs(*out)
	tmp, err := os.MkdirTemp("", "c17-harness-")
	if err != nil {
		fmt.Fprintln(os.Stderr, err)
		os.Exit(2)
	}
	defer os.RemoveAll(tmp)
	p := &producer{
		w:    casefile.New(absOut, "From Verif Require Import Base.Bytes Idl.Ast Corr.C17.", 10),
		st:   &stats{Kinds: map[string]int{}, Features: map[string]int{}, Generator: map[string]int{}},
		seen: map[string]bool{},
		tmp:  tmp,
	}

	// ---- corpus: minimised inputs that once failed or that pin a known finding
	r := rng.New(*seed)
	for _, e := range corpus {
		root, _ := os.MkdirTemp(tmp, "corpus")
		for name, text := range e.files {
			full := filepath.Join(root, filepath.FromSlash(name))
			os.MkdirAll(filepath.Dir(full), 0o755)
			os.WriteFile(full, []byte(text), 0o644)
		}
		p.program("corpus:"+e.name, root, e.main, r.Fork(), 0)
		os.RemoveAll(root)
	}

	// ---- generated programs
	nprog, ntrim := 10, 0
	if *tier == "thorough" {
		nprog, ntrim = 230, 40
	}
	for i := 0; i < nprog; i++ {
		pr := r.Fork()
		opt := idlgen.Options{MaxFiles: 1 + i%4, Size: 3 + i%7}
		if i%5 == 4 {
			opt.Envelope = idlgen.Syntactic
		}
		if i%3 == 2 {
			opt.RawLiterals = true
		}
		mutateNum := 0
		if i%2 == 1 {
			mutateNum = 1 + i%3
		}
		root, mainRel := p.generated(i, pr, opt, mutateNum)
		if root == "" {
			continue
		}
		name := fmt.Sprintf("idlgen:seed=%d:program=%d:envelope=%s", *seed, i, opt.Envelope)
		p.program(name, root, mainRel, pr, mutateNum)
		if *trimmer != "" && i < ntrim && opt.Envelope == idlgen.Valid {
			p.trimmerRun(*trimmer, name, root, mainRel)
		}
		os.RemoveAll(root)
	}

	if err := p.w.Close(); err != nil {
		fmt.Fprintln(os.Stderr, err)
		os.Exit(2)
	}
	p.st.Rule = "a case is one IDL file given to DumpIDL; non-trivial = the file has at least one definition; distinct = distinct dumped text"
	keys := make([]string, 0, len(p.st.Features))
	for k := range p.st.Features {
		keys = append(keys, k)
	}
	sort.Strings(keys)
	if err := casefile.WriteMeta(absOut, map[string]interface{}{"stats": p.st, "shards": p.w.Shards, "total": p.w.Total()}); err != nil {
		fmt.Fprintln(os.Stderr, err)
		os.Exit(2)
	}
}
