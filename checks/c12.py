"""C12 — output assembly loses nothing (generator/file_manager.go)."""
import json
import vlib


class S(vlib.Spec):
    prop = "C12"
    design_ref = "DESIGN.md section 3 / C12"
    coq_targets = ["Props/C12.vo", "Corr/C12.vo"]
    props_file = "Props/C12.v"
    harness_pkg = "./cmd/c12"
    harness_name = "c12"
    corr_codes = {1, 9}
    code_names = {1: "model and implementation disagree", 2: "two output files share a name",
                  3: "named patch without target accepted", 4: "unnamed first item accepted", 5: "a file that must be kept is missing / dropped wrongly / misnamed", 6: "markers not removed or text changed (no patches)", 9: "model out of fuel"}
    modelled = ("generator/file_manager.go: FileManager.Feed (incl. the rename walk), insertReg.FindAllString, "
                "insertionPointReplacer.Add/Replace (strings.NewReplacer generic algorithm), FileManager.BuildResponse "
                "-> coq/Gen/FileManager.v; hand-written, tied by correspondence on every run")
    trusted_base = [
        "hand-written model coq/Gen/FileManager.v (mirrors file_manager.go statement by statement)",
        "Go regexp (leftmost-first FindAllString) and strings.NewReplacer semantics as modelled by find_markers / replace; Go map iteration order is irrelevant for the replacer only when no key is a prefix of another (theorem hypothesis keys_prefix_free, generated inputs never put ')' inside an insertion-point name)",
        "harness/cmd/c12 (drives the real FileManager in-process), harness/coqfmt (Go value -> Coq term printer), lib/vlib.py",
    ]
    assumptions = ["filepath.Ext / fmt.Sprintf(%d) behave as split_ext / digits", "log output is not part of the observable"]

    def classify(self, code, case):
        return {2: "C12-duplicate-output-name", 3: "C12-named-patch-no-target", 4: "C12-unnamed-first-accepted", 5: "C12-kept-files-bookkeeping", 6: "C12-text-or-markers-changed"}.get(code, "C12-code-%d" % code)

    def search(self, ctx):
        return None


def run(tier):
    return vlib.standard_run(S(), tier)


def replay(path):
    obj = json.load(open(path))
    print(json.dumps(obj, indent=1)[:4000])
    return 0
