// Package casefile writes correspondence cases as Coq source shards
// (cases_NNN.v) with a parallel JSON-lines file (cases_NNN.jsonl) used for replays.
package casefile

import (
	"bufio"
	"encoding/json"
	"fmt"
	"os"
	"path/filepath"
)

type Writer struct {
	dir      string
	imports  string // e.g. "From Verif Require Import Base.Bytes Gen.FileManager Corr.C12."
	perShard int
	shard    int
	n        int
	total    int
	v        *bufio.Writer
	vf       *os.File
	j        *bufio.Writer
	jf       *os.File
	Shards   []string
}

func New(dir, imports string, perShard int) *Writer {
	return &Writer{dir: dir, imports: imports, perShard: perShard}
}

func (w *Writer) open() error {
	name := fmt.Sprintf("cases_%03d", w.shard)
	vf, err := os.Create(filepath.Join(w.dir, name+".v"))
	if err != nil {
		return err
	}
	jf, err := os.Create(filepath.Join(w.dir, name+".jsonl"))
	if err != nil {
		return err
	}
	w.vf, w.jf = vf, jf
	w.v, w.j = bufio.NewWriterSize(vf, 1<<20), bufio.NewWriterSize(jf, 1<<20)
	fmt.Fprintf(w.v, "%s\nFrom Coq Require Import List NArith ZArith String.\nImport ListNotations.\nOpen Scope string_scope.\nDefinition cases : list case := [\n", w.imports)
	w.Shards = append(w.Shards, name)
	w.n = 0
	return nil
}

func (w *Writer) closeShard() error {
	if w.v == nil {
		return nil
	}
	fmt.Fprintf(w.v, "\n].\nSet Printing Depth 10000000.\nSet Printing Width 2000.\nDefinition R := Eval vm_compute in (mismatches cases).\nPrint R.\n")
	if err := w.v.Flush(); err != nil {
		return err
	}
	if err := w.j.Flush(); err != nil {
		return err
	}
	w.vf.Close()
	w.jf.Close()
	w.v, w.j = nil, nil
	w.shard++
	return nil
}

// Add appends one case: its Coq term and a JSON description used for replay files.
func (w *Writer) Add(coqTerm string, desc interface{}) error {
	if w.v == nil {
		if err := w.open(); err != nil {
			return err
		}
	}
	if w.n > 0 {
		w.v.WriteString(";\n")
	}
	w.v.WriteString(" ")
	w.v.WriteString(coqTerm)
	b, err := json.Marshal(desc)
	if err != nil {
		return err
	}
	w.j.Write(b)
	w.j.WriteByte('\n')
	w.n++
	w.total++
	if w.n >= w.perShard {
		return w.closeShard()
	}
	return nil
}

func (w *Writer) Total() int { return w.total }

func (w *Writer) Close() error { return w.closeShard() }

// WriteMeta writes meta.json (statistics gathered by the producer).
func WriteMeta(dir string, meta interface{}) error {
	b, err := json.MarshalIndent(meta, "", " ")
	if err != nil {
		return err
	}
	return os.WriteFile(filepath.Join(dir, "meta.json"), b, 0o644)
}
