(* Idl/DumpLexFacts.v — property C17, part 2: the text DumpIDL writes lexes into exactly the
   dumper's tokens (built on lex_ltoks_bytes of Idl/LexFacts.v). *)
From Coq Require Import List Bool NArith ZArith Lia Arith.
From Coq.Strings Require Import Byte.
From Verif Require Import Base.Bytes Idl.Ast Idl.AstFacts Idl.Lex Idl.LexFacts Idl.Parse Idl.Dump Idl.DumpFacts.
Import ListNotations.

(* ================================================================ pieces -> tokens with trivia *)

Definition ws_trivia (ws : bytes) : trivia := map TrSp ws.

(* a recorded comment, read back as trivia *)
Definition tr_of (c : bytes) : trivia :=
  match lex_trivia (S (List.length c)) c with Some (tr, []) => tr | _ => [] end.
(* the comment text is a run of comments and white space that the lexer reads back as it is
   written (what parseReservedComments records: comments joined by line feeds) *)
Definition comment_ok (c : bytes) : bool :=
  match lex_trivia (S (List.length c)) c with
  | Some (tr, []) => beqb (trivia_bytes tr) c && trivia_ok true tr
  | _ => false
  end.
(* the run ends with a line comment, which needs a line break after it *)
Fixpoint ends_lc (tr : trivia) : bool :=
  match tr with
  | [] => false
  | i :: r => match r with [] => is_line_comment i | _ => ends_lc r end
  end.

(* leading-trivia form: white space and comments accumulate in front of the next token *)
Fixpoint group (pending : trivia) (ps : list piece) : list ltok * trivia :=
  match ps with
  | [] => ([], pending)
  | PT t :: r => let (l, fin) := group [] r in ((pending, t) :: l, fin)
  | PN text :: r => let (l, fin) := group [] r in ((pending, num_token text) :: l, fin)
  | PW ws :: r => group (pending ++ ws_trivia ws) r
  | PC c :: r => group (pending ++ tr_of c) r
  end.

Definition piece_wf (p : piece) : Prop :=
  match p with
  | PT t => token_wf t
  | PN text => token_wf (num_token text) /\ token_bytes (num_token text) = text
  | PW ws => forallb is_space ws = true
  | PC c => comment_ok c = true
  end.

Lemma trivia_bytes_app a b : trivia_bytes (a ++ b) = trivia_bytes a ++ trivia_bytes b.
Proof. unfold trivia_bytes. rewrite map_app, concat_app. reflexivity. Qed.
Lemma trivia_bytes_ws ws : trivia_bytes (ws_trivia ws) = ws.
Proof. induction ws as [|c r IH]; [reflexivity|]. cbn [ws_trivia map]. rewrite trivia_bytes_cons. cbn [tritem_bytes app]. fold (ws_trivia r). rewrite IH. reflexivity. Qed.

Lemma comment_ok_spec c : comment_ok c = true -> trivia_bytes (tr_of c) = c /\ trivia_ok true (tr_of c) = true.
Proof.
  unfold comment_ok, tr_of. destruct (lex_trivia (S (List.length c)) c) as [[tr [|x r]]|]; try discriminate.
  intro H. apply andb_true_iff in H. destruct H as [H1 H2]. apply beqb_true in H1. auto.
Qed.
Lemma tr_of_nonnil c : comment_ok c = true -> c <> [] -> tr_of c <> [].
Proof. intros H Hc E. destruct (comment_ok_spec c H) as [Hb _]. rewrite E in Hb. cbn in Hb. congruence. Qed.

(* ---- composing trivia runs *)
Lemma ends_lc_cons i j r : ends_lc (i :: j :: r) = ends_lc (j :: r).
Proof. reflexivity. Qed.
Lemma ends_lc_app a b : b <> [] -> ends_lc (a ++ b) = ends_lc b.
Proof.
  intro Hb. induction a as [|i r IH]; [reflexivity|].
  cbn [app]. destruct (r ++ b) as [|j t] eqn:E.
  - destruct r; [cbn in E; congruence | discriminate].
  - rewrite ends_lc_cons. exact IH.
Qed.
Lemma ends_lc_ws c ws : ends_lc (ws_trivia (c :: ws)) = false.
Proof. revert c. induction ws as [|d r IH]; intro c; [reflexivity|]. cbn [ws_trivia map]. rewrite ends_lc_cons. apply IH. Qed.

Lemma trivia_ok_ws last ws : forallb is_space ws = true -> trivia_ok last (ws_trivia ws) = true.
Proof.
  induction ws as [|c r IH]; intro H; [reflexivity|].
  cbn [forallb] in H. apply andb_true_iff in H. destruct H as [H1 H2].
  cbn [ws_trivia map trivia_ok tritem_ok is_line_comment]. rewrite H1. cbn [andb]. apply IH. exact H2.
Qed.

Lemma trivia_ok_cons last i r :
  trivia_ok last (i :: r) =
  tritem_ok i && (if is_line_comment i then match r with [] => last | j :: _ => tr_is_nl j end else true) && trivia_ok last r.
Proof. reflexivity. Qed.

Lemma trivia_ok_app last : forall a b,
  trivia_ok true a = true -> trivia_ok last b = true ->
  (ends_lc a = true -> match b with j :: _ => tr_is_nl j = true | [] => last = true end) ->
  trivia_ok last (a ++ b) = true.
Proof.
  induction a as [|i r IH]; intros b Ha Hb Hl; [exact Hb|].
  rewrite trivia_ok_cons in Ha. apply andb_true_iff in Ha. destruct Ha as [Ha Hr]. apply andb_true_iff in Ha. destruct Ha as [Hi Hc].
  cbn [app]. rewrite trivia_ok_cons, Hi. cbn [andb].
  destruct r as [|j t].
  - cbn [app]. cbn [ends_lc] in Hl. rewrite Hb, andb_true_r.
    destruct (is_line_comment i); [|reflexivity]. specialize (Hl eq_refl). destruct b; exact Hl.
  - cbn [app]. rewrite Hc. cbn [andb]. apply IH; [exact Hr | exact Hb|].
    rewrite ends_lc_cons in Hl. exact Hl.
Qed.

Lemma trivia_ok_closed : forall tr, trivia_ok true tr = true -> ends_lc tr = false -> trivia_ok false tr = true.
Proof.
  induction tr as [|i r IH]; intros H He; [reflexivity|].
  rewrite trivia_ok_cons in H |- *. apply andb_true_iff in H. destruct H as [H Hr]. apply andb_true_iff in H. destruct H as [Hi Hc].
  rewrite Hi. cbn [andb]. destruct r as [|j t].
  - cbn [ends_lc] in He. rewrite He. reflexivity.
  - rewrite Hc. cbn [andb]. apply IH; [exact Hr|]. rewrite ends_lc_cons in He. exact He.
Qed.

Lemma group_bytes ps : Forall piece_wf ps -> forall pending,
  ltoks_bytes (fst (group pending ps)) (snd (group pending ps)) = trivia_bytes pending ++ pieces_text ps.
Proof.
  induction 1 as [|p r Hp _ IH]; intro pending.
  - cbn. unfold ltoks_bytes. cbn. rewrite app_nil_r. reflexivity.
  - destruct p as [t|text|ws|c]; cbn [group piece_wf] in *.
    + specialize (IH []). destruct (group [] r) as [l fin]. cbn [fst snd] in *.
      rewrite ltoks_bytes_cons, IH. reflexivity.
    + specialize (IH []). destruct (group [] r) as [l fin]. cbn [fst snd] in *.
      rewrite ltoks_bytes_cons, IH. destruct Hp as [_ ->]. reflexivity.
    + rewrite IH, trivia_bytes_app, trivia_bytes_ws. unfold pieces_text. cbn [map List.concat piece_text].
      rewrite <- app_assoc. reflexivity.
    + rewrite IH, trivia_bytes_app. rewrite (proj1 (comment_ok_spec c Hp)).
      unfold pieces_text. cbn [map List.concat piece_text]. rewrite <- app_assoc. reflexivity.
Qed.

(* ---- no two word-like tokens touch, and a comment that ends with a line comment is followed
   by a line break.  [prev]: the previous piece was a word-like token *)
Definition starts_nl (ps : list piece) : bool :=
  match ps with PW (d :: _) :: _ => is_nl d | _ => false end.

Fixpoint sepb (prev : bool) (ps : list piece) : bool :=
  match ps with
  | [] => true
  | PT t :: r => negb (prev && wordlike t) && sepb (wordlike t) r
  | PN _ :: r => negb prev && sepb true r
  | PW [] :: r => sepb prev r
  | PW (_ :: _) :: r => sepb false r
  | PC c :: r =>
    (if ends_lc (tr_of c) then starts_nl r else true) &&
    match c with [] => sepb prev r | _ :: _ => sepb false r end
  end.

Lemma sepb_mono r : sepb true r = true -> sepb false r = true.
Proof.
  induction r as [|p r IH]; [reflexivity|].
  destruct p as [t|text|[|c ws]|c]; cbn [sepb andb negb]; auto.
  - intro H. apply andb_true_iff in H. destruct H as [_ H]. exact H.
  - discriminate.
  - intro H. apply andb_true_iff in H. destruct H as [H1 H2]. rewrite H1. cbn [andb].
    destruct c; [apply IH; exact H2 | exact H2].
Qed.

Lemma group_head_pending : forall r pending,
  match fst (group pending r) with
  | (tr', _) :: _ => exists more, tr' = pending ++ more
  | [] => True
  end.
Proof.
  induction r as [|p r IH]; intro pending; [exact I|].
  destruct p as [t|text|ws|c]; cbn [group].
  - destruct (group [] r). cbn. exists []. rewrite app_nil_r. reflexivity.
  - destruct (group [] r). cbn. exists []. rewrite app_nil_r. reflexivity.
  - specialize (IH (pending ++ ws_trivia ws)). destruct (fst (group (pending ++ ws_trivia ws) r)) as [|[tr' t'] l]; [exact I|].
    destruct IH as [more ->]. exists (ws_trivia ws ++ more). rewrite app_assoc. reflexivity.
  - specialize (IH (pending ++ tr_of c)). destruct (fst (group (pending ++ tr_of c) r)) as [|[tr' t'] l]; [exact I|].
    destruct IH as [more ->]. exists (tr_of c ++ more). rewrite app_assoc. reflexivity.
Qed.

Lemma head_sep : forall r, Forall piece_wf r -> forall pending, sepb true r = true ->
  match fst (group pending r) with
  | (tr', t') :: _ => tr' <> [] \/ wordlike t' = false
  | [] => True
  end.
Proof.
  induction 1 as [|p r Hp Hr IH]; intros pending H; [exact I|].
  destruct p as [t|text|[|c ws]|c]; cbn [sepb andb negb] in H; cbn [group].
  - apply andb_true_iff in H. destruct H as [H _]. apply negb_true_iff in H.
    destruct (group [] r). cbn. right. exact H.
  - discriminate.
  - cbn [ws_trivia map]. rewrite app_nil_r. apply IH. exact H.
  - pose proof (group_head_pending r (pending ++ ws_trivia (c :: ws))) as G.
    destruct (fst (group (pending ++ ws_trivia (c :: ws)) r)) as [|[tr' t'] l]; [exact I|].
    destruct G as [more ->]. left. destruct pending; discriminate.
  - apply andb_true_iff in H. destruct H as [_ H]. cbn [piece_wf] in Hp.
    destruct c as [|c0 c'].
    + assert (E : tr_of [] = []) by reflexivity. rewrite E, app_nil_r. apply IH. exact H.
    + pose proof (tr_of_nonnil (c0 :: c') Hp ltac:(discriminate)) as Hne.
      pose proof (group_head_pending r (pending ++ tr_of (c0 :: c'))) as G.
      destruct (fst (group (pending ++ tr_of (c0 :: c')) r)) as [|[tr' t'] l]; [exact I|].
      destruct G as [more ->]. left. intro E. apply app_eq_nil in E. destruct E as [E _].
      apply app_eq_nil in E. destruct E as [_ E]. contradiction.
Qed.

(* what follows a pending run that ends with a line comment starts with a line break *)
Definition open_ok (pending : trivia) (ps : list piece) : Prop :=
  ends_lc pending = true -> match ps with [] => True | _ => starts_nl ps = true end.

Lemma group_wf ps : Forall piece_wf ps -> forall pending,
  sepb false ps = true -> trivia_ok true pending = true -> open_ok pending ps ->
  lts_wf (fst (group pending ps)) (snd (group pending ps)).
Proof.
  induction 1 as [|p r Hp Hr IH]; intros pending Hs Hb Ho.
  - cbn. exact Hb.
  - assert (Hclosed : forall t, p = PT t \/ (exists x, p = PN x) -> trivia_ok false pending = true).
    { intros t Hpt. apply trivia_ok_closed; [exact Hb|].
      destruct (ends_lc pending) eqn:E; [|reflexivity]. specialize (Ho E).
      destruct Hpt as [->|[x ->]]; cbn in Ho; discriminate. }
    destruct p as [t|text|ws|c]; cbn [group piece_wf] in *.
    + cbn [sepb andb negb] in Hs.
      pose proof (head_sep r Hr []) as Hh.
      assert (Hr' : sepb false r = true).
      { destruct (wordlike t); [apply sepb_mono|]; exact Hs. }
      specialize (IH [] Hr' eq_refl (fun E => ltac:(discriminate))).
      destruct (group [] r) as [l fin]. cbn [fst snd] in *. cbn [lts_wf].
      split; [apply (Hclosed t); left; reflexivity|]. split; [exact Hp|]. split; [|exact IH].
      intro Hw. rewrite Hw in Hs. specialize (Hh Hs).
      destruct l as [|[tr' t'] l']; [exact I | exact Hh].
    + cbn [sepb andb negb] in Hs.
      pose proof (head_sep r Hr [] Hs) as Hh.
      specialize (IH [] (sepb_mono r Hs) eq_refl (fun E => ltac:(discriminate))).
      destruct (group [] r) as [l fin]. cbn [fst snd] in *. cbn [lts_wf].
      destruct Hp as [Hp _].
      split; [apply (Hclosed (TInt [])); right; eauto|]. split; [exact Hp|]. split; [|exact IH].
      intros _. destruct l as [|[tr' t'] l']; [exact I | exact Hh].
    + destruct ws as [|d ws'].
      * cbn [ws_trivia map]. rewrite app_nil_r. apply IH; [exact Hs | exact Hb|].
        intro E. specialize (Ho E). cbn in Ho. discriminate.
      * apply IH; [exact Hs| |].
        -- apply trivia_ok_app; [exact Hb | apply trivia_ok_ws; exact Hp|].
           intro E. specialize (Ho E). cbn in Ho. exact Ho.
        -- intro E. rewrite ends_lc_app in E by discriminate. rewrite ends_lc_ws in E. discriminate.
    + cbn [sepb] in Hs. apply andb_true_iff in Hs. destruct Hs as [Hla Hs].
      destruct (comment_ok_spec c Hp) as [_ Hok].
      assert (Hnot : ends_lc pending = false).
      { destruct (ends_lc pending) eqn:E; [|reflexivity]. specialize (Ho E). cbn in Ho. discriminate. }
      apply IH.
      * destruct c; exact Hs.
      * apply trivia_ok_app; [exact Hb | exact Hok|]. rewrite Hnot. discriminate.
      * intro E. destruct (tr_of c) as [|i0 t0] eqn:Et.
        -- rewrite app_nil_r in E. congruence.
        -- rewrite ends_lc_app in E by discriminate. rewrite E in Hla.
           destruct r; [exact I | exact Hla].
Qed.

Definition pieces_ok (ps : list piece) : Prop := Forall piece_wf ps /\ sepb false ps = true.

(* the text of admissible pieces lexes into exactly their tokens, white space and comments as
   trivia *)
Theorem lex_pieces ps : pieces_ok ps -> lex (pieces_text ps) = Some (group [] ps).
Proof.
  intros [Hwf Hs].
  pose proof (group_bytes ps Hwf []) as Hb. cbn [trivia_bytes map List.concat app] in Hb.
  pose proof (group_wf ps Hwf [] Hs eq_refl (fun E => ltac:(discriminate))) as Hl.
  rewrite <- Hb. rewrite (lex_ltoks_bytes _ _ Hl). destruct (group [] ps); reflexivity.
Qed.

Lemma group_toks : forall ps pending, map snd (fst (group pending ps)) = piece_toks ps.
Proof.
  induction ps as [|p r IH]; intro pending; [reflexivity|].
  destruct p as [t|text|ws|c]; cbn [group piece_toks flat_map app].
  - specialize (IH []). destruct (group [] r). cbn [fst map snd] in *. rewrite IH. reflexivity.
  - specialize (IH []). destruct (group [] r). cbn [fst map snd] in *. rewrite IH. reflexivity.
  - apply IH.
  - apply IH.
Qed.

(* ================================================================ numbers *)

Lemma span_spec (p : byte -> bool) : forall s a b, span p s = (a, b) -> s = a ++ b /\ forallb p a = true.
Proof.
  induction s as [|c r IH]; intros a b H.
  - cbn in H. injection H as <- <-. split; reflexivity.
  - cbn [span] in H. destruct (p c) eqn:Ec.
    + destruct (span p r) as [a' b'] eqn:E. injection H as <- <-.
      destruct (IH a' b' eq_refl) as [-> Hf]. split; [reflexivity|]. cbn [forallb]. rewrite Ec, Hf. reflexivity.
    + injection H as <- <-. split; reflexivity.
Qed.

Definition split_sign (s : bytes) : bytes * bytes :=
  match s with
  | c :: r => if is_sign c then ([c], r) else ([], s)
  | [] => ([], s)
  end.

(* the texts strconv writes for finite doubles with format g: an integer, or digits with a
   fraction and / or an exponent *)
Definition num_shape_b (text : bytes) : bool :=
  let (sg, r0) := split_sign text in
  let (d1, r1) := span is_digit r0 in
  match r1 with
  | c :: r2 =>
    if Byte.eqb c c_dot then
      let (d2, ex) := span is_digit r2 in nonempty d2 && exp_ok ex
    else nonempty d1 && exp_ok r1
  | [] => nonempty d1
  end.

Lemma split_sign_spec s sg r : split_sign s = (sg, r) -> s = sg ++ r /\ sign_ok sg = true.
Proof.
  destruct s as [|c s']; cbn [split_sign].
  - intros [= <- <-]. split; reflexivity.
  - destruct (is_sign c) eqn:E; intros [= <- <-]; split; try reflexivity. cbn. exact E.
Qed.

Lemma num_shape_cases text : num_shape_b text = true -> int_shape text \/ double_shape text.
Proof.
  unfold num_shape_b. destruct (split_sign text) as [sg r0] eqn:Es.
  destruct (split_sign_spec _ _ _ Es) as [-> Hsg].
  destruct (span is_digit r0) as [d1 r1] eqn:E1. destruct (span_spec _ _ _ _ E1) as [-> Hd1].
  destruct r1 as [|c r2].
  - intro H. left. rewrite app_nil_r. constructor; assumption.
  - destruct (Byte.eqb c c_dot) eqn:Ec.
    + apply byte_eqb_eq in Ec. subst c.
      destruct (span is_digit r2) as [d2 ex] eqn:E2. destruct (span_spec _ _ _ _ E2) as [-> Hd2].
      intro H. apply andb_true_iff in H. destruct H as [Hn Hex]. right.
      apply dbl_frac; assumption.
    + intro H. apply andb_true_iff in H. destruct H as [Hn Hex]. right.
      apply dbl_exp; try assumption. reflexivity.
Qed.

Lemma num_shape_wf text : num_shape_b text = true ->
  token_wf (num_token text) /\ token_bytes (num_token text) = text.
Proof.
  intro H. unfold num_token. destruct (num_shape_cases text H) as [Hi|Hd].
  - pose proof (lex_number_int text [] Hi I) as E. rewrite app_nil_r in E. rewrite E.
    split; [constructor; exact Hi | reflexivity].
  - pose proof (lex_number_double text [] Hd I) as E. rewrite app_nil_r in E. rewrite E.
    split; [constructor; exact Hd | reflexivity].
Qed.

(* ---- %d *)
Lemma digit_byte k : (k < 10)%N ->
  is_digit (match Byte.of_N (48 + k)%N with Some b => b | None => x30 end) = true.
Proof.
  intro H.
  assert (k = 0 \/ k = 1 \/ k = 2 \/ k = 3 \/ k = 4 \/ k = 5 \/ k = 6 \/ k = 7 \/ k = 8 \/ k = 9)%N as C by lia.
  repeat (destruct C as [->|C]; [reflexivity|]). subst k. reflexivity.
Qed.

Lemma digits_pos_ok : forall fuel n acc, forallb is_digit acc = true ->
  forallb is_digit (digits_pos fuel n acc) = true /\ (fuel <> 0 -> digits_pos fuel n acc <> []).
Proof.
  induction fuel as [|f IH]; intros n acc Ha.
  - cbn. split; [exact Ha | congruence].
  - cbn [digits_pos].
    assert (Hd : is_digit (match Byte.of_N (48 + n mod 10)%N with Some b => b | None => x30 end) = true).
    { apply digit_byte. apply N.mod_lt. discriminate. }
    destruct (n <? 10)%N.
    + split; [cbn [forallb]; rewrite Hd, Ha; reflexivity | intros _; discriminate].
    + destruct (IH (n / 10)%N (match Byte.of_N (48 + n mod 10)%N with Some b => b | None => x30 end :: acc)) as [H1 H2].
      { cbn [forallb]. rewrite Hd, Ha. reflexivity. }
      split; [exact H1|]. intros _.
      destruct f; [cbn; discriminate | apply H2; discriminate].
Qed.

Lemma digitsN_shape n : forallb is_digit (digitsN n) = true /\ nonempty (digitsN n) = true.
Proof.
  unfold digitsN. destruct (digits_pos_ok (S (N.to_nat (N.log2 n))) n [] eq_refl) as [H1 H2].
  split; [exact H1|]. destruct (digits_pos _ n []); [exfalso; apply H2; [discriminate | reflexivity] | reflexivity].
Qed.

Lemma print_Z_shape z : int_shape (print_Z z).
Proof.
  destruct z as [|p|p]; cbn [print_Z].
  - apply (int_dec [] [x30]); reflexivity.
  - destruct (digitsN_shape (Npos p)) as [H1 H2]. apply (int_dec [] (digitsN (Npos p))); auto.
  - destruct (digitsN_shape (Npos p)) as [H1 H2]. apply (int_dec [c_minus] (digitsN (Npos p))); auto.
Qed.

(* ================================================================ the dumper's pieces are admissible *)

Definition annos_lex (a : annotations) : bool :=
  forallb (fun x => word_ok (an_key x) && forallb lit_ok (an_values x)) a.

Fixpoint ty_lex (t : ty) : bool :=
  match t with
  | Ty n k v _ an _ _ _ =>
    word_ok n && annos_lex an &&
    match k with Some x => ty_lex x | None => true end &&
    match v with Some x => ty_lex x | None => true end
  end.

(* a recorded comment is blank (then it is not written) or reads back as trivia *)
Definition cmt_lex (c : bytes) : bool := forallb go_space c || comment_ok c.

Section LexOk.
  Variable fmt : N -> bytes.

  Fixpoint cv_lex (c : const_value) : bool :=
    match c with
    | CDouble d => num_shape_b (fmt d)
    | CInt _ => true
    | CLiteral s => lit_ok s
    | CIdent s _ => word_ok s
    | CList l => forallb cv_lex l
    | CMap l => forallb (fun kv => cv_lex (fst kv) && cv_lex (snd kv)) l
    end.

  Definition field_lex (f : field) : bool :=
    word_ok (fd_name f) && ty_lex (fd_type f) &&
    match fd_default f with Some v => cv_lex v | None => true end &&
    annos_lex (fd_annos f) && cmt_lex (fd_comments f).
  Definition struct_lex (s : struct_like) : bool :=
    word_ok (sl_name s) && forallb field_lex (sl_fields s) && annos_lex (sl_annos s) && cmt_lex (sl_comments s).
  Definition function_lex (f : function) : bool :=
    word_ok (fn_name f) && ty_lex (fn_type f) && forallb field_lex (fn_args f) && forallb field_lex (fn_throws f) &&
    annos_lex (fn_annos f) && cmt_lex (fn_comments f).
  Definition service_lex (s : service) : bool :=
    word_ok (sv_name s) && (match sv_extends s with [] => true | e => word_ok e end) &&
    forallb function_lex (sv_functions s) && annos_lex (sv_annos s) && cmt_lex (sv_comments s).
  Definition enum_lex (e : enum) : bool :=
    word_ok (en_name e) &&
    forallb (fun v => word_ok (ev_name v) && annos_lex (ev_annos v) && cmt_lex (ev_comments v)) (en_values e) &&
    annos_lex (en_annos e) && cmt_lex (en_comments e).
  Definition typedef_lex (t : typedef) : bool :=
    ty_lex (td_type t) && word_ok (td_alias t) && annos_lex (td_annos t) && cmt_lex (td_comments t).
  Definition constant_lex (c : constant) : bool :=
    ty_lex (co_type c) && word_ok (co_name c) && cv_lex (co_value c) && annos_lex (co_annos c) &&
    cmt_lex (co_comments c).
  Definition namespace_lex (n : namespace) : bool :=
    (beqb (ns_language n) [p_star] || word_ok (ns_language n)) && word_ok (ns_name n) && annos_lex (ns_annos n).

  (* names are words of the grammar, literal values are in the domain of quoteLiteral,
     double texts have a number shape, recorded comments read back as trivia *)
  Definition lex_ok (a : file) : bool :=
    forallb (fun i => lit_ok (in_path i)) (f_includes a) && forallb lit_ok (f_cpp_includes a) &&
    forallb namespace_lex (f_namespaces a) && forallb typedef_lex (f_typedefs a) &&
    forallb constant_lex (f_constants a) && forallb enum_lex (f_enums a) &&
    forallb struct_lex (f_structs a) && forallb struct_lex (f_unions a) &&
    forallb struct_lex (f_exceptions a) && forallb service_lex (f_services a).

  (* ---- both facts at once, in continuation style:
     [adm x ps]: every piece of ps is well formed, and for every continuation [rest] that
     tolerates a word-like predecessor, ps ++ rest can follow a piece of kind x *)
  Definition adm (x : bool) (ps : list piece) : Prop :=
    Forall piece_wf ps /\ forall rest, sepb true rest = true -> sepb x (ps ++ rest) = true.

  Lemma adm_nil_true : adm true [].
  Proof. split; [constructor | intros rest H; exact H]. Qed.
  Lemma adm_nil_false : adm false [].
  Proof. split; [constructor | intros rest H; apply sepb_mono; exact H]. Qed.
  Lemma adm_weaken ps : adm true ps -> adm false ps.
  Proof. intros [H1 H2]. split; [exact H1|]. intros rest Hr. apply sepb_mono. apply H2. exact Hr. Qed.

  (* a non-word token in front *)
  Lemma adm_punct x c ps : is_punct c = true -> adm false ps -> adm x (punct c :: ps).
  Proof.
    intros Hc [H1 H2]. split; [constructor; [constructor; exact Hc | exact H1]|].
    intros rest Hr. cbn [app sepb punct wordlike]. rewrite andb_false_r. cbn [negb andb]. apply H2. exact Hr.
  Qed.
  Lemma adm_lit x s ps : lit_ok s = true -> adm false ps -> adm x (lit s :: ps).
  Proof.
    intros Hs [H1 H2]. pose proof (lit_token_wf s Hs) as Hw.
    split; [constructor; [exact Hw | exact H1]|].
    intros rest Hr. cbn [app sepb lit].
    assert (E : wordlike (lit_token s) = false) by (inversion Hw; reflexivity || (exfalso; destruct (lit_token_roundtrip s Hs) as (q & raw & E & _); congruence)).
    rewrite E, andb_false_r. cbn [negb andb]. apply H2. exact Hr.
  Qed.
  (* white space in front *)
  Lemma adm_ws x c ws ps : forallb is_space (c :: ws) = true -> adm false ps -> adm x (PW (c :: ws) :: ps).
  Proof.
    intros Hc [H1 H2]. split; [constructor; [exact Hc | exact H1]|].
    intros rest Hr. cbn [app sepb]. apply H2. exact Hr.
  Qed.
  (* a word-like token in front: only after a piece that is not word-like *)
  Lemma adm_word w ps : word_ok w = true -> adm true ps -> adm false (word w :: ps).
  Proof.
    intros Hw [H1 H2]. split; [constructor; [constructor; exact Hw | exact H1]|].
    intros rest Hr. cbn [app sepb word wordlike andb negb]. apply H2. exact Hr.
  Qed.
  Lemma adm_int z ps : adm true ps -> adm false (int_piece z :: ps).
  Proof.
    intros [H1 H2]. split; [constructor; [constructor; apply print_Z_shape | exact H1]|].
    intros rest Hr. cbn [app sepb int_piece wordlike andb negb]. apply H2. exact Hr.
  Qed.
  Lemma adm_num text ps : num_shape_b text = true -> adm true ps -> adm false (PN text :: ps).
  Proof.
    intros Hn [H1 H2]. split; [constructor; [exact (num_shape_wf text Hn) | exact H1]|].
    intros rest Hr. cbn [app sepb negb andb]. apply H2. exact Hr.
  Qed.

  Lemma adm_app x y ps qs :
    Forall piece_wf ps -> (forall rest, sepb y rest = true -> sepb x (ps ++ rest) = true) ->
    adm y qs -> adm x (ps ++ qs).
  Proof.
    intros Hp Hs [Hq Hsq]. split; [apply Forall_app; split; assumption|].
    intros rest Hr. rewrite <- app_assoc. apply Hs. apply Hsq. exact Hr.
  Qed.
  (* sequencing two admissible lists *)
  Lemma adm_seq x ps qs : adm x ps -> adm true qs -> adm x (ps ++ qs).
  Proof.
    intros [Hp Hs] Hq. apply (adm_app x true); [exact Hp | exact Hs | exact Hq].
  Qed.
End LexOk.

Section Admissible.
  Variable fmt : N -> bytes.

  Lemma adm_comment x c qs : comment_ok c = true -> adm false qs -> adm x (PC c :: nl :: qs).
  Proof.
    intros Hc [H1 H2]. split; [constructor; [exact Hc | constructor; [reflexivity | exact H1]]|].
    intros rest Hr. cbn [app sepb nl starts_nl].
    assert (E : is_nl x0a = true) by reflexivity. rewrite E.
    destruct (ends_lc (tr_of c)); cbn [andb]; (destruct c; apply H2; exact Hr).
  Qed.

  Lemma comment_then prefix c : cmt_lex c = true -> (prefix = [] \/ prefix = [indent4]) ->
    forall qs, adm false qs -> adm false (comment_pieces prefix c ++ qs).
  Proof.
    unfold cmt_lex, comment_pieces. intros H Hp qs Hq.
    destruct (forallb go_space c); [exact Hq|]. cbn [orb] in H.
    destruct Hp as [-> | ->]; cbn [app].
    - apply adm_comment; assumption.
    - apply adm_ws; [reflexivity|]. apply adm_comment; assumption.
  Qed.

  Ltac norm := repeat rewrite <- app_assoc; cbn [app].
  Ltac sp1 := apply adm_ws; [reflexivity|]; norm.
  Ltac blk := repeat rewrite <- app_assoc; cbn [app];
    match goal with Hb : cmt_lex ?c = true |- adm false (comment_pieces _ ?c ++ _) =>
      apply (comment_then _ c Hb); [first [left; reflexivity | right; reflexivity]|] end.
  Ltac pu := apply adm_punct; [reflexivity|]; norm.

  Lemma adm_true_of_false_start c ws ps : forallb is_space (c :: ws) = true -> adm false ps -> adm true (PW (c :: ws) :: ps).
  Proof. apply adm_ws. Qed.

  Lemma anno_values_then k : word_ok k = true -> forall vs last qs,
    forallb lit_ok vs = true -> adm false qs -> adm false (anno_values_pieces k vs last ++ qs).
  Proof.
    intros Hk. induction vs as [|v r IH]; intros last qs Hl Hq; [exact Hq|].
    cbn [forallb] in Hl. apply andb_true_iff in Hl. destruct Hl as [Hv Hr].
    cbn [anno_values_pieces]. norm.
    apply adm_word; [exact Hk|]. sp1. pu. sp1. apply adm_lit; [exact Hv|].
    destruct (last && match r with [] => true | _ :: _ => false end).
    - cbn [app]. apply IH; assumption.
    - unfold comma_sp. cbn [app]. pu. sp1. apply IH; assumption.
  Qed.

  Lemma anno_list_then : forall a qs, annos_lex a = true -> adm false qs -> adm false (anno_list_pieces a ++ qs).
  Proof.
    induction a as [|x r IH]; intros qs Ha Hq; [exact Hq|].
    cbn [annos_lex forallb] in Ha. apply andb_true_iff in Ha. destruct Ha as [Hx Hr].
    apply andb_true_iff in Hx. destruct Hx as [Hk Hv].
    cbn [anno_list_pieces]. norm. norm; apply anno_values_then; [exact Hk | exact Hv|].
    apply IH; assumption.
  Qed.

  Lemma annos_then a : annos_lex a = true -> forall x qs, adm true qs -> adm x (annos_pieces a ++ qs).
  Proof.
    intros Ha x qs Hq. destruct a as [|y r].
    - cbn [annos_pieces app]. destruct x; [exact Hq | apply adm_weaken; exact Hq].
    - unfold annos_pieces. norm. pu. norm; apply anno_list_then; [exact Ha|]. pu. apply adm_weaken. exact Hq.
  Qed.

  Lemma type_then : forall t, ty_lex t = true -> forall qs, adm true qs -> adm false (type_pieces t ++ qs).
  Proof.
    induction t as [n k v c an cat r td IHk IHv] using ty_ind'. intros H qs Hq.
    cbn [ty_lex] in H. repeat (apply andb_true_iff in H; destruct H as [H ?]).
    cbn [type_pieces].
    destruct k as [kt|], v as [vt|]; norm.
    - apply adm_word; [assumption|]. pu. apply (IHk kt eq_refl); [assumption|].
      pu. apply (IHv vt eq_refl); [assumption|]. pu. norm; apply annos_then; assumption.
    - apply adm_word; [assumption|]. norm; apply annos_then; assumption.
    - apply adm_word; [assumption|]. pu. apply (IHv vt eq_refl); [assumption|]. pu. norm; apply annos_then; assumption.
    - apply adm_word; [assumption|]. norm; apply annos_then; assumption.
  Qed.

  Lemma cv_then : forall c, cv_lex fmt c = true -> forall qs, adm true qs -> adm false (cv_pieces fmt c ++ qs).
  Proof.
    induction c as [d|z|s|s e|l IH|l IH] using const_value_ind'; intros H qs Hq; cbn [cv_lex] in H; cbn [cv_pieces]; norm.
    - apply adm_num; assumption.
    - apply adm_int; assumption.
    - apply adm_lit; [assumption | apply adm_weaken; assumption].
    - apply adm_word; assumption.
    - pu.
      induction IH as [|x r Hx _ IHr]; cbn [app].
      + pu. apply adm_weaken. exact Hq.
      + cbn [forallb] in H. apply andb_true_iff in H. destruct H as [H1 H2]. norm.
        apply Hx; [exact H1|]. destruct r as [|y r'].
        * cbn [app]. pu. apply adm_weaken. exact Hq.
        * unfold comma_sp. cbn [app]. pu. sp1. specialize (IHr H2). repeat rewrite <- app_assoc in IHr. cbn [app] in IHr. exact IHr.
    - pu.
      induction IH as [|[k v] r [Hk Hv] _ IHr]; cbn [app].
      + sp1. pu. apply adm_weaken. exact Hq.
      + cbn [forallb fst snd] in H. apply andb_true_iff in H. destruct H as [H1 H2].
        apply andb_true_iff in H1. destruct H1 as [H1k H1v]. cbn [fst snd] in Hk, Hv. norm.
        apply adm_ws; [reflexivity|]. apply Hk; [exact H1k|]. pu. sp1. norm. apply Hv; [exact H1v|].
        destruct r as [|y r'].
        * cbn [app]. sp1. pu. apply adm_weaken. exact Hq.
        * unfold comma_sp. cbn [app]. pu. sp1. specialize (IHr H2). repeat rewrite <- app_assoc in IHr. cbn [app] in IHr. exact IHr.
  Qed.


  Lemma req_then r qs : adm false qs -> adm false (req_pieces r ++ qs).
  Proof.
    intro Hq. destruct r; cbn [req_pieces app]; [exact Hq | |]; (apply adm_word; [reflexivity|]; sp1; exact Hq).
  Qed.

  Lemma field_then f : field_lex fmt f = true -> forall qs, adm true qs -> adm false (field_pieces fmt f ++ qs).
  Proof.
    unfold field_lex. intros H qs Hq. repeat (apply andb_true_iff in H; destruct H as [H ?]).
    unfold field_pieces. norm. apply adm_int. pu. sp1. norm; apply req_then.
    norm; apply type_then; [assumption|]. sp1. apply adm_word; [assumption|].
    destruct (fd_default f) as [v|]; norm.
    - sp1. pu. sp1. norm; apply cv_then; [assumption|]. norm; apply annos_then; assumption.
    - norm; apply annos_then; assumption.
  Qed.

  Lemma sep_fields_then : forall l qs, forallb (field_lex fmt) l = true -> adm true qs ->
    adm false (sep_fields fmt l ++ qs).
  Proof.
    induction l as [|f r IH]; intros qs H Hq; [cbn [sep_fields app]; apply adm_weaken; exact Hq|].
    cbn [forallb] in H. apply andb_true_iff in H. destruct H as [H1 H2].
    cbn [sep_fields]. norm. norm; apply field_then; [exact H1|].
    destruct r as [|g r'].
    - cbn [sep_fields app]. exact Hq.
    - unfold comma_sp. cbn [app]. pu. sp1. apply IH; assumption.
  Qed.

  Lemma flat_map_then {A} (f : A -> list piece) (p : A -> bool) l :
    (forall x qs, p x = true -> adm false qs -> adm false (f x ++ qs)) ->
    forall qs, forallb p l = true -> adm false qs -> adm false (flat_map f l ++ qs).
  Proof.
    intro Hf. induction l as [|x r IH]; intros qs H Hq; [exact Hq|].
    cbn [forallb] in H. apply andb_true_iff in H. destruct H as [H1 H2].
    cbn [flat_map]. norm. apply Hf; [exact H1|]. apply IH; assumption.
  Qed.

  Lemma struct_then kw s : word_ok kw = true -> struct_lex fmt s = true ->
    forall qs, adm false qs -> adm false (struct_pieces fmt kw s ++ qs).
  Proof.
    unfold struct_lex. intros Hkw H qs Hq. repeat (apply andb_true_iff in H; destruct H as [H ?]).
    unfold struct_pieces. blk. norm.
    apply adm_word; [exact Hkw|]. sp1. apply adm_word; [assumption|]. sp1. pu. sp1.
    apply (flat_map_then _ (field_lex fmt)); [|assumption|].
    - intros f qs' Hf Hq'. unfold field_lex in Hf. pose proof Hf as Hf'.
      repeat (apply andb_true_iff in Hf; destruct Hf as [Hf ?]).
      blk.
      norm. sp1. norm. norm; apply field_then; [exact Hf'|]. sp1. exact Hq'.
    - pu. sp1. norm; apply annos_then; [assumption|]. sp1. sp1. exact Hq.
  Qed.

  Lemma function_then f : function_lex fmt f = true ->
    forall qs, adm false qs -> adm false (function_pieces fmt f ++ qs).
  Proof.
    unfold function_lex. intros H qs Hq. repeat (apply andb_true_iff in H; destruct H as [H ?]).
    unfold function_pieces. blk. norm. sp1.
    assert (Hrest : adm false (type_pieces (fn_type f) ++ [sp; word (fn_name f); punct p_lpar] ++ sep_fields fmt (fn_args f) ++
              [punct p_rpar] ++ match fn_throws f with
                                | [] => []
                                | _ :: _ => [word kw_throws; sp; punct p_lpar] ++ sep_fields fmt (fn_throws f) ++ [punct p_rpar]
                                end ++ annos_pieces (fn_annos f) ++ [nl] ++ qs)).
    { norm; apply type_then; [assumption|]. cbn [app]. sp1. apply adm_word; [assumption|]. pu.
      norm; apply sep_fields_then; [assumption|]. cbn [app]. pu.
      destruct (fn_throws f) as [|t ts] eqn:Et.
      - cbn [app]. norm; apply annos_then; [assumption|]. sp1. exact Hq.
      - norm. apply adm_word; [reflexivity|]. sp1. pu. norm; apply sep_fields_then; [assumption|]. cbn [app]. pu.
        norm; apply annos_then; [assumption|]. sp1. exact Hq. }
    destruct (fn_oneway f); cbn [app].
    - apply adm_word; [reflexivity|]. sp1. exact Hrest.
    - exact Hrest.
  Qed.

  Lemma service_then s : service_lex fmt s = true ->
    forall qs, adm false qs -> adm false (service_pieces fmt s ++ qs).
  Proof.
    unfold service_lex. intros H qs Hq. repeat (apply andb_true_iff in H; destruct H as [H ?]).
    unfold service_pieces. blk. norm.
    apply adm_word; [reflexivity|]. sp1. apply adm_word; [assumption|]. sp1.
    assert (Hbody : adm false ([punct p_lwing; nl] ++ flat_map (function_pieces fmt) (sv_functions s) ++
                     [punct p_rwing; sp] ++ annos_pieces (sv_annos s) ++ [nl; nl] ++ qs)).
    { cbn [app]. pu. sp1. apply (flat_map_then _ (function_lex fmt)); [|assumption|].
      - intros f qs' Hf Hq'. norm; apply function_then; assumption.
      - cbn [app]. pu. sp1. norm; apply annos_then; [assumption|]. sp1. sp1. exact Hq. }
    destruct (sv_extends s) as [|e0 e]; cbn [app].
    - exact Hbody.
    - apply adm_word; [reflexivity|]. sp1. apply adm_word; [assumption|]. sp1. exact Hbody.
  Qed.

  Lemma enum_values_then : forall l qs,
    forallb (fun v => word_ok (ev_name v) && annos_lex (ev_annos v) && cmt_lex (ev_comments v)) l = true ->
    adm false qs -> adm false (enum_values_pieces l ++ qs).
  Proof.
    induction l as [|v r IH]; intros qs H Hq; [exact Hq|].
    cbn [forallb] in H. apply andb_true_iff in H. destruct H as [H1 H2].
    repeat (apply andb_true_iff in H1; destruct H1 as [H1 ?]).
    cbn [enum_values_pieces]. blk. norm.
    sp1. apply adm_word; [assumption|]. sp1. pu. sp1. apply adm_int. sp1.
    norm; apply annos_then; [assumption|]. sp1.
    destruct r as [|w r'].
    - cbn [app enum_values_pieces]. exact Hq.
    - cbn [app]. sp1. apply IH; assumption.
  Qed.

  Lemma enum_then e : enum_lex e = true -> forall qs, adm false qs -> adm false (enum_pieces e ++ qs).
  Proof.
    unfold enum_lex. intros H qs Hq. repeat (apply andb_true_iff in H; destruct H as [H ?]).
    unfold enum_pieces. blk. norm.
    apply adm_word; [reflexivity|]. sp1. apply adm_word; [assumption|]. sp1. pu. sp1.
    norm; apply enum_values_then; [assumption|]. cbn [app]. pu. sp1. norm; apply annos_then; [assumption|]. sp1. sp1. exact Hq.
  Qed.

  Lemma typedef_then t : typedef_lex t = true -> forall qs, adm false qs -> adm false (typedef_pieces t ++ qs).
  Proof.
    unfold typedef_lex. intros H qs Hq. repeat (apply andb_true_iff in H; destruct H as [H ?]).
    unfold typedef_pieces. blk. norm.
    apply adm_word; [reflexivity|]. sp1. norm; apply type_then; [assumption|]. sp1. apply adm_word; [assumption|]. sp1.
    norm; apply annos_then; [assumption|]. sp1. exact Hq.
  Qed.

  Lemma constant_then c : constant_lex fmt c = true -> forall qs, adm false qs -> adm false (constant_pieces fmt c ++ qs).
  Proof.
    unfold constant_lex. intros H qs Hq. repeat (apply andb_true_iff in H; destruct H as [H ?]).
    unfold constant_pieces. blk. norm.
    apply adm_word; [reflexivity|]. sp1. norm; apply type_then; [assumption|]. sp1. apply adm_word; [assumption|]. sp1. pu. sp1.
    norm; apply cv_then; [assumption|]. norm; apply annos_then; [assumption|]. sp1. exact Hq.
  Qed.

  Lemma namespace_then n : namespace_lex n = true -> forall qs, adm false qs -> adm false (namespace_pieces n ++ qs).
  Proof.
    unfold namespace_lex. intros H qs Hq. repeat (apply andb_true_iff in H; destruct H as [H ?]).
    unfold namespace_pieces, scope_piece. norm. apply adm_word; [reflexivity|]. sp1.
    destruct (beqb (ns_language n) [p_star]) eqn:E.
    - pu. sp1. apply adm_word; [assumption|]. norm; apply annos_then; [assumption|]. sp1. exact Hq.
    - cbn [orb] in H. apply adm_word; [assumption|]. sp1. apply adm_word; [assumption|].
      norm; apply annos_then; [assumption|]. sp1. exact Hq.
  Qed.

  Lemma section_then {A} (f : A -> list piece) (p : A -> bool) l :
    (forall x qs, p x = true -> adm false qs -> adm false (f x ++ qs)) ->
    forall qs, forallb p l = true -> adm false qs -> adm false (section f l ++ qs).
  Proof.
    intros Hf qs H Hq. unfold section. norm. apply (flat_map_then f p l Hf); [exact H|].
    destruct l; cbn [app]; [exact Hq | sp1; exact Hq].
  Qed.

  Theorem dump_pieces_ok a : lex_ok fmt a = true -> pieces_ok (dump_pieces fmt a).
  Proof.
    unfold lex_ok. intro H. repeat (apply andb_true_iff in H; destruct H as [H ?]).
    assert (Hadm : adm false (dump_pieces fmt a ++ [])).
    { unfold dump_pieces. norm.
      apply (section_then _ (fun i => lit_ok (in_path i))); [|assumption|].
      { intros i qs Hi Hq. cbn [app]. apply adm_word; [reflexivity|]. sp1. apply adm_lit; [exact Hi|]. sp1. exact Hq. }
      apply (section_then _ namespace_lex); [intros; apply namespace_then; assumption|assumption|].
      apply (section_then _ lit_ok); [|assumption|].
      { intros i qs Hi Hq. cbn [app]. apply adm_word; [reflexivity|]. sp1. apply adm_lit; [exact Hi|]. sp1. exact Hq. }
      apply (section_then _ typedef_lex); [intros; apply typedef_then; assumption|assumption|].
      apply (section_then _ (constant_lex fmt)); [intros; apply constant_then; assumption|assumption|].
      apply (section_then _ enum_lex); [intros; apply enum_then; assumption|assumption|].
      apply (section_then _ (struct_lex fmt)); [intros; norm; apply struct_then; [reflexivity | assumption | assumption]|assumption|].
      apply (section_then _ (struct_lex fmt)); [intros; norm; apply struct_then; [reflexivity | assumption | assumption]|assumption|].
      apply (section_then _ (struct_lex fmt)); [intros; norm; apply struct_then; [reflexivity | assumption | assumption]|assumption|].
      apply (flat_map_then _ (service_lex fmt)); [intros; apply service_then; assumption|assumption|].
      apply adm_nil_false. }
    rewrite app_nil_r in Hadm. destruct Hadm as [Hwf Hs]. split; [exact Hwf|].
    specialize (Hs [] eq_refl). rewrite app_nil_r in Hs. exact Hs.
  Qed.

  (* the dumped text lexes into exactly the dumper's tokens *)
  Theorem lex_dump a : lex_ok fmt a = true ->
    lex (dump fmt a) = Some (group [] (dump_pieces fmt a)).
  Proof. intro H. unfold dump. apply lex_pieces. apply dump_pieces_ok. exact H. Qed.
End Admissible.
