(* Mask/C14Facts.v — the theorems of property C14 about the model: masks built from
   well-typed, conflict-free path lists answer every query walk as the path set prescribes
   (white and black lists), building is total there, the order and grouping of the paths
   do not matter, each listed error is an error, and witnesses of what goes wrong outside
   the domain. *)
From Coq Require Import List Bool ZArith Lia Permutation.
From Coq.Strings Require Import Byte String.
From Verif Require Import Base.Bytes Mask.Path Mask.Desc Mask.Trie Mask.Json Mask.Spec
     Mask.TrieFacts Mask.SemFacts Mask.FrameFacts Mask.RefineFacts.
Import ListNotations.

(* ------------------------------------------------------------------ typed paths are acceptable to a new node *)

Lemma existsb_map_KI x r : existsb (key_eqb (KI x)) (map KI r) = existsb (Z.eqb x) r.
Proof. induction r as [|y r IH]; [reflexivity|]. cbn. rewrite IH. reflexivity. Qed.
Lemma existsb_map_KS x r : existsb (key_eqb (KS x)) (map KS r) = existsb (beqb x) r.
Proof. induction r as [|y r IH]; [reflexivity|]. cbn. rewrite IH. reflexivity. Qed.

Lemma nodupb_KI ids : nodupb key_eqb (map KI ids) = nodupb Z.eqb ids.
Proof. induction ids as [|x r IH]; [reflexivity|]. cbn [nodupb map]. rewrite IH, existsb_map_KI. reflexivity. Qed.
Lemma nodupb_KS ss : nodupb key_eqb (map KS ss) = nodupb beqb ss.
Proof. induction ss as [|x r IH]; [reflexivity|]. cbn [nodupb map]. rewrite IH, existsb_map_KS. reflexivity. Qed.

Lemma sub_ok_fresh k t P t0 b : sub_ok k t P (fresh t0 b) = P (fresh t b).
Proof. reflexivity. Qed.

Lemma forallb_const {A} (l : list A) : forallb (fun _ => true) l = true.
Proof. induction l; auto. Qed.

Theorem compat_fresh_elab : forall env p d g,
  elab env d p = Some g -> wf_path p = true -> forall t b, compat g (fresh t b) = true.
Proof.
  intros env. induction p as [|s p IH]; intros d g He Hwf t b.
  - cbn in He. injection He as <-. reflexivity.
  - cbn [wf_path forallb] in Hwf. rewrite andb_true_iff in Hwf. destruct Hwf as [Hws Hwf].
    assert (forall g' d' t', elab env d' p = Some g' -> forall ks, forallb (fun k => sub_ok k t' (compat g') (fresh t b)) ks = true) as Hsub.
    { intros g' d' t' Hg ks. rewrite forallb_forall. intros k _. rewrite sub_ok_fresh. eapply IH; eauto. }
    destruct s as [n|id| |ids| |ids|ss| ]; cbn [elab] in He.
    + destruct (struct_fields env d) as [fs|]; [|discriminate].
      destruct (field_by_name fs n) as [x|]; [|discriminate].
      destruct (ok_ft (switch_ft env (f_ty x))) eqn:Eok; [|discriminate].
      destruct (elab env (f_ty x) p) as [g'|] eqn:Eg; [|discriminate]. injection He as <-.
      cbn [compat gft gkeys]. rewrite Eok, (Hsub _ _ _ Eg). reflexivity.
    + destruct (struct_fields env d) as [fs|]; [|discriminate].
      destruct (field_by_id fs id) as [x|]; [|discriminate].
      destruct (ok_ft (switch_ft env (f_ty x))) eqn:Eok; [|discriminate].
      destruct (elab env (f_ty x) p) as [g'|] eqn:Eg; [|discriminate]. injection He as <-.
      cbn [compat gft gkeys]. rewrite Eok, (Hsub _ _ _ Eg). reflexivity.
    + destruct (struct_fields env d) as [[|f0 fs]|]; try discriminate.
      destruct p; [|discriminate].
      destruct (ok_ft (switch_ft env (f_ty f0))) eqn:Eok; [|discriminate]. injection He as <-.
      cbn [compat gft gkeys]. rewrite Eok. reflexivity.
    + destruct (list_elem d) as [e|]; [|discriminate].
      destruct (ok_ft (switch_ft env e)) eqn:Eok; [|discriminate].
      destruct (elab env e p) as [g'|] eqn:Eg; [|discriminate]. injection He as <-.
      cbn [wf_pseg] in Hws. destruct ids as [|x ids]; [discriminate|]. rewrite andb_true_iff in Hws. destruct Hws as [_ Hnd].
      cbn [compat gft gkeys]. rewrite Eok, (Hsub _ _ _ Eg), nodupb_KI, Hnd. reflexivity.
    + destruct (list_elem d) as [e|]; [|discriminate].
      destruct (ok_ft (switch_ft env e)) eqn:Eok; [|discriminate].
      destruct (elab env e p) as [g'|] eqn:Eg; [|discriminate]. injection He as <-.
      cbn [compat gft gkeys]. rewrite Eok, (Hsub _ _ _ Eg). reflexivity.
    + destruct (map_kv d) as [[k v]|]; [|discriminate].
      destruct (ft_eqb (key_ft k) FtIntMap && ok_ft (switch_ft env v)) eqn:E; [|discriminate].
      rewrite andb_true_iff in E. destruct E as [_ Eok].
      destruct (elab env v p) as [g'|] eqn:Eg; [|discriminate]. injection He as <-.
      cbn [wf_pseg] in Hws. destruct ids as [|x ids]; [discriminate|]. rewrite andb_true_iff in Hws. destruct Hws as [_ Hnd].
      cbn [compat gft gkeys]. rewrite Eok, (Hsub _ _ _ Eg), nodupb_KI, Hnd. reflexivity.
    + destruct (map_kv d) as [[k v]|]; [|discriminate].
      destruct (ft_eqb (key_ft k) FtStrMap && ok_ft (switch_ft env v)) eqn:E; [|discriminate].
      rewrite andb_true_iff in E. destruct E as [_ Eok].
      destruct (elab env v p) as [g'|] eqn:Eg; [|discriminate]. injection He as <-.
      cbn [wf_pseg] in Hws. destruct ss as [|x ss]; [discriminate|].
      cbn [compat gft gkeys]. rewrite Eok, (Hsub _ _ _ Eg), nodupb_KS, Hws. reflexivity.
    + destruct (map_kv d) as [[k v]|]; [|discriminate].
      destruct (ok_ft (switch_ft env v)) eqn:Eok; [|discriminate].
      destruct (elab env v p) as [g'|] eqn:Eg; [|discriminate]. injection He as <-.
      cbn [compat gft gkeys]. rewrite Eok, (Hsub _ _ _ Eg). reflexivity.
Qed.

(* ------------------------------------------------------------------ a whole list *)

Lemma elab_all_cons env d p ps gs :
  elab_all env d (p :: ps) = Some gs ->
  exists g gs', gs = g :: gs' /\ elab env d p = Some g /\ elab_all env d ps = Some gs'.
Proof.
  cbn. destruct (elab env d p) as [g|]; [|discriminate]. destruct (elab_all env d ps) as [gs'|]; [|discriminate].
  intros [= <-]. eauto.
Qed.

Lemma add_path_root env d p g cur :
  elab env d p = Some g -> wf_path p = true -> compat g (set_typ cur (switch_ft env d)) = true ->
  add_path (path_fuel (tokens_of p)) env (tokens_of p) d cur = Ok (ins g (set_typ cur (switch_ft env d))).
Proof.
  intros He Hwf Hc. unfold path_fuel, tokens_of.
  change (add_path (S (List.length (TRoot :: flat_map seg_tokens p))) env (TRoot :: flat_map seg_tokens p) d cur)
    with (add_path (List.length (TRoot :: flat_map seg_tokens p)) env (flat_map seg_tokens p) d (set_typ cur (switch_ft env d))).
  apply add_path_ins; auto; cbn [List.length]; lia.
Qed.

Lemma add_tok_paths_ins env d : forall ps gs,
  elab_all env d ps = Some gs -> forallb wf_path ps = true -> no_conflict gs = true ->
  forall cur, m_typ cur = switch_ft env d -> forallb (fun g => compat g cur) gs = true ->
  add_tok_paths env d (map tokens_of ps) cur = Ok (ins_all gs cur).
Proof.
  induction ps as [|p ps IH]; intros gs He Hwf Hnc cur Hty Hall.
  - cbn in He. injection He as <-. reflexivity.
  - destruct (elab_all_cons _ _ _ _ _ He) as [g [gs' [-> [Hg Hgs]]]].
    cbn [forallb] in Hwf, Hall. rewrite andb_true_iff in Hwf, Hall. destruct Hwf as [Hwp Hwf]. destruct Hall as [Hcg Hall].
    cbn [no_conflict] in Hnc. rewrite andb_true_iff in Hnc. destruct Hnc as [Hg2 Hnc].
    cbn [map add_tok_paths].
    rewrite (add_path_root env d p g cur Hg Hwp); rewrite <- Hty, set_typ_same; [|exact Hcg].
    change (ins_all (g :: gs') cur) with (ins_all gs' (ins g cur)).
    apply IH; auto.
    + rewrite ins_typ. exact Hty.
    + rewrite forallb_forall in *. intros g' Hin. apply compat_frame; auto.
Qed.

Definition built (env : senv) (d : ty) (black : bool) (gs : list gpath) : mask :=
  match gs with
  | [] => empty_mask black
  | _ => ins_all gs (fresh (switch_ft env d) black)
  end.

Lemma elab_all_compat_fresh env d : forall ps gs,
  elab_all env d ps = Some gs -> forallb wf_path ps = true ->
  forall t b, forallb (fun g => compat g (fresh t b)) gs = true.
Proof.
  induction ps as [|p ps IH]; intros gs He Hwf t b.
  - cbn in He. injection He as <-. reflexivity.
  - destruct (elab_all_cons _ _ _ _ _ He) as [g [gs' [-> [Hg Hgs]]]].
    cbn [forallb] in *. rewrite andb_true_iff in Hwf. destruct Hwf as [Hwp Hwf].
    rewrite (compat_fresh_elab _ _ _ _ Hg Hwp), (IH _ Hgs Hwf). reflexivity.
Qed.

(* the model builds exactly the clean trie of the typed paths *)
Theorem new_mask_built env d black strs ps gs :
  map tokenize strs = map tokens_of ps ->
  elab_all env d ps = Some gs -> forallb wf_path ps = true -> no_conflict gs = true ->
  new_mask env d black strs = Ok (built env d black gs).
Proof.
  intros Htok He Hwf Hnc. unfold new_mask. rewrite Htok.
  destruct ps as [|p ps].
  - cbn in He. injection He as <-. reflexivity.
  - destruct (elab_all_cons _ _ _ _ _ He) as [g [gs' [-> [Hg Hgs]]]].
    pose proof (elab_all_compat_fresh _ _ _ _ He Hwf (switch_ft env d) black) as Hall.
    cbn [forallb] in Hwf, Hall. rewrite andb_true_iff in Hwf, Hall. destruct Hwf as [Hwp Hwf]. destruct Hall as [Hcg Hall].
    cbn [no_conflict] in Hnc. rewrite andb_true_iff in Hnc. destruct Hnc as [Hg2 Hnc].
    cbn [map add_tok_paths built].
    assert (set_typ (empty_mask black) (switch_ft env d) = fresh (switch_ft env d) black) as Hroot by reflexivity.
    rewrite (add_path_root env d p g (empty_mask black) Hg Hwp); rewrite Hroot; [|exact Hcg].
    change (ins_all (g :: gs') (fresh (switch_ft env d) black)) with (ins_all gs' (ins g (fresh (switch_ft env d) black))).
    apply (add_tok_paths_ins env d ps gs' Hgs Hwf Hnc).
    + rewrite ins_typ. reflexivity.
    + rewrite forallb_forall in *. intros g' Hin. apply compat_frame; auto.
Qed.

(* ------------------------------------------------------------------ typed selection = path-set selection *)

Lemma existsb_orb {A} (f g : A -> bool) l : existsb (fun x => f x || g x) l = existsb f l || existsb g l.
Proof.
  induction l as [|x l IH]; [reflexivity|]. cbn. rewrite IH.
  destruct (f x), (g x), (existsb f l), (existsb g l); reflexivity.
Qed.

Lemma existsb_flat_map {A B} (f : B -> bool) (h : A -> list B) l :
  existsb f (flat_map h l) = existsb (fun a => existsb f (h a)) l.
Proof. induction l as [|x l IH]; [reflexivity|]. cbn. rewrite existsb_app, IH. reflexivity. Qed.

Lemma existsb_map {A B} (f : B -> bool) (h : A -> B) l : existsb f (map h l) = existsb (fun a => f (h a)) l.
Proof. induction l as [|x l IH]; [reflexivity|]. cbn. rewrite IH. reflexivity. Qed.

Lemma existsb_and_const {A} (f : A -> bool) c l : existsb (fun x => f x && c) l = existsb f l && c.
Proof.
  induction l as [|x l IH]; [reflexivity|]. cbn. rewrite IH. destruct (f x), c, (existsb f l); reflexivity.
Qed.

Definition sel (q : list qkey) (p : spath) : bool := covers p q || touches p q.

Lemma sel_nil_q p : sel [] p = true.
Proof. unfold sel. destruct p; reflexivity. Qed.

Lemma sel_cons s p k q : sel (k :: q) (s :: p) = seg_matches s k && sel q p.
Proof. unfold sel. cbn. destruct (seg_matches s k); reflexivity. Qed.

Lemma key_eqb_KF k i : key_eqb (key_of k) (KF i) = seg_matches (SFld i) k.
Proof. destruct k; cbn; try reflexivity. apply Z.eqb_sym. Qed.
Lemma key_eqb_KI k i : key_eqb (key_of k) (KI i) = seg_matches (SInt i) k.
Proof. destruct k; cbn; try reflexivity. apply Z.eqb_sym. Qed.
Lemma key_eqb_KS k s : key_eqb (key_of k) (KS s) = seg_matches (SStr s) k.
Proof. destruct k; cbn; try reflexivity. apply beqb_sym. Qed.


Lemma existsb_ext {A} (f g : A -> bool) l : (forall x, f x = g x) -> existsb f l = existsb g l.
Proof. intro H. induction l as [|x l IH]; [reflexivity|]. cbn. rewrite H, IH. reflexivity. Qed.

(* one lemma for the relations sel q and covers . q: they share the rule for the head segment *)
Lemma existsb_const_and {A} (f : A -> bool) c l : existsb (fun x => c && f x) l = c && existsb f l.
Proof.
  induction l as [|x l IH]; [cbn; rewrite andb_false_r; reflexivity|]. cbn. rewrite IH. destruct c, (f x), (existsb f l); reflexivity.
Qed.

Lemma expand_head (F : list qkey -> spath -> bool) (s : gseg) (r : gpath) k q :
  (forall sg p, F (k :: q) (sg :: p) = seg_matches sg k && F q p) ->
  existsb (F (k :: q)) (expand (s :: r)) = gmatch s k && existsb (F q) (expand r).
Proof.
  intro HF. unfold gmatch. destruct s as [i t|ids t|ss t|t|t]; cbn [expand is_gstar gkeys orb].
  - rewrite existsb_map. cbn [existsb]. rewrite orb_false_r, key_eqb_KF.
    rewrite (existsb_ext _ (fun p => seg_matches (SFld i) k && F q p)) by (intro; apply HF).
    apply existsb_const_and.
  - rewrite existsb_flat_map.
    rewrite (existsb_ext _ (fun i => seg_matches (SInt i) k && existsb (F q) (expand r))).
    + rewrite existsb_and_const, existsb_map. f_equal. apply existsb_ext. intro i. symmetry. apply key_eqb_KI.
    + intro i. rewrite existsb_map.
      rewrite (existsb_ext _ (fun p => seg_matches (SInt i) k && F q p)) by (intro; apply HF).
      apply existsb_const_and.
  - rewrite existsb_flat_map.
    rewrite (existsb_ext _ (fun i => seg_matches (SStr i) k && existsb (F q) (expand r))).
    + rewrite existsb_and_const, existsb_map. f_equal. apply existsb_ext. intro i. symmetry. apply key_eqb_KS.
    + intro i. rewrite existsb_map.
      rewrite (existsb_ext _ (fun p => seg_matches (SStr i) k && F q p)) by (intro; apply HF).
      apply existsb_const_and.
  - rewrite existsb_map.
    rewrite (existsb_ext _ (fun p => seg_matches SStar k && F q p)) by (intro; apply HF).
    rewrite existsb_const_and. reflexivity.
  - rewrite existsb_map.
    rewrite (existsb_ext _ (fun p => seg_matches SStarF k && F q p)) by (intro; apply HF).
    rewrite existsb_const_and. reflexivity.
Qed.

Lemma expand_nonempty_nil_q (F : spath -> bool) g :
  (forall p, F p = true) -> expand g <> [] -> existsb F (expand g) = true.
Proof. intros HF Hne. destruct (expand g) as [|p l]; [congruence|]. cbn. rewrite HF. reflexivity. Qed.

(* every key group is non-empty *)
Fixpoint groups_nonempty (g : gpath) : bool :=
  match g with
  | [] => true
  | s :: r => nonempty (gkeys s) && groups_nonempty r
  end.

Lemma expand_nonempty g : groups_nonempty g = true -> expand g <> [].
Proof.
  induction g as [|s r IH]; [discriminate|]. cbn [groups_nonempty]. rewrite andb_true_iff. intros [Hs Hr].
  specialize (IH Hr). destruct (expand r) as [|p l] eqn:E; [congruence|].
  destruct s as [i t|ids t|ss t|t|t]; cbn [expand gkeys] in *; rewrite ?E; try discriminate.
  - destruct ids; [discriminate|]. cbn. discriminate.
  - destruct ss; [discriminate|]. cbn. discriminate.
Qed.

Lemma selg_expand : forall g q, groups_nonempty g = true -> selg g q = existsb (sel q) (expand g).
Proof.
  induction g as [|s r IH]; intros q Hne.
  - destruct q; reflexivity.
  - destruct q as [|k q].
    + cbn [selg]. symmetry. apply expand_nonempty_nil_q; [apply sel_nil_q | apply expand_nonempty; exact Hne].
    + cbn [groups_nonempty] in Hne. rewrite andb_true_iff in Hne. destruct Hne as [_ Hr].
      cbn [selg]. rewrite (expand_head sel s r k q (fun sg p => sel_cons sg p k q)), IH by exact Hr. reflexivity.
Qed.

Lemma rejg_expand : forall g q, rejg g q = existsb (fun p => covers p q) (expand g).
Proof.
  induction g as [|s r IH]; intros q.
  - reflexivity.
  - destruct q as [|k q].
    + cbn [rejg]. symmetry. destruct (existsb (fun p => covers p []) (expand (s :: r))) eqn:E; [|reflexivity].
      exfalso. apply existsb_exists in E. destruct E as [p [Hin Hp]].
      assert (p <> []) as Hp'.
      { clear Hp. destruct s; cbn [expand] in Hin.
        - apply in_map_iff in Hin. destruct Hin as [x [<- _]]. discriminate.
        - apply in_flat_map in Hin. destruct Hin as [i [_ Hin]]. apply in_map_iff in Hin. destruct Hin as [x [<- _]]. discriminate.
        - apply in_flat_map in Hin. destruct Hin as [i [_ Hin]]. apply in_map_iff in Hin. destruct Hin as [x [<- _]]. discriminate.
        - apply in_map_iff in Hin. destruct Hin as [x [<- _]]. discriminate.
        - apply in_map_iff in Hin. destruct Hin as [x [<- _]]. discriminate. }
      destruct p; [congruence | discriminate].
    + cbn [rejg]. rewrite (expand_head (fun q p => covers p q) s r k q (fun sg p => eq_refl)), IH. reflexivity.
Qed.

Lemma compat_groups_nonempty : forall g cur, compat g cur = true -> groups_nonempty g = true.
Proof.
  induction g as [|s r IH]; intros cur Hc; [reflexivity|].
  pose proof (compat_keys_nonempty _ _ _ Hc) as Hne. cbn [groups_nonempty]. rewrite Hne. cbn [andb].
  cbn [compat] in Hc. rewrite !andb_true_iff in Hc. destruct Hc as [[Ht _] Hall].
  destruct (gkeys s) as [|k ks]; [discriminate|]. cbn [forallb] in Hall. rewrite andb_true_iff in Hall.
  destruct Hall as [Hk _]. destruct (sub_ok_slot _ _ _ _ Hk Ht) as [HP _]. eapply IH; eauto.
Qed.

(* ------------------------------------------------------------------ the empty mask and new nodes *)

Lemma walk_empty black q : walk (Some (empty_mask black)) q = true.
Proof. destruct q as [|k q]; [reflexivity|]. rewrite walk_cons. cbn. apply walk_none. Qed.

(* ------------------------------------------------------------------ build_sound *)

Lemma nil_in_no_conflict gs : no_conflict gs = true -> In [] gs -> forall g, In g gs -> g = [].
Proof.
  intros Hnc Hin g Hg. rewrite no_conflict_forall in Hnc.
  destruct g as [|s r]; [reflexivity|]. exfalso.
  apply in_split in Hin. destruct Hin as [l1 [l2 ->]].
  apply in_app_or in Hg. destruct Hg as [Hg|[Hg|Hg]]; [| discriminate |].
  - apply in_split in Hg. destruct Hg as [a [b ->]].
    specialize (Hnc a (s :: r) b [] l2). rewrite <- app_assoc in Hnc. specialize (Hnc eq_refl).
    destruct s; cbn in Hnc; discriminate.
  - apply in_split in Hg. destruct Hg as [a [b ->]].
    specialize (Hnc l1 [] a (s :: r) b eq_refl). cbn in Hnc. discriminate.
Qed.

Lemma ins_all_nils gs cur : (forall g, In g gs -> g = []) -> gs <> [] -> ins_all gs cur = set_isall cur true.
Proof.
  revert cur. induction gs as [|g gs IH]; intros cur H Hne; [congruence|].
  assert (g = []) as -> by (apply H; left; reflexivity).
  change (ins_all ([] :: gs) cur) with (ins_all gs (set_isall cur true)).
  destruct gs as [|g2 gs]; [reflexivity|]. rewrite IH; [reflexivity | intros; apply H; right; assumption | discriminate].
Qed.

Theorem built_sound env d black gs :
  ok_ft (switch_ft env d) = true ->
  forallb (fun g => compat g (fresh (switch_ft env d) black)) gs = true ->
  in_domain black gs = true ->
  forall q, walk (Some (built env d black gs)) q = spec_pass black (path_set gs) q.
Proof.
  intros Hok Hall Hdom q. unfold in_domain in Hdom. rewrite andb_true_iff in Hdom. destruct Hdom as [Hnc Hts].
  destruct q as [|k q]; [reflexivity|].
  destruct gs as [|g0 gs0] eqn:Egs.
  - cbn [built path_set flat_map spec_pass]. rewrite walk_empty. destruct black; reflexivity.
  - rewrite <- Egs in *. assert (gs <> []) as Hgne by (rewrite Egs; discriminate).
    assert (built env d black gs = ins_all gs (fresh (switch_ft env d) black)) as -> by (rewrite Egs; reflexivity).
    pose proof (inv_fresh black _ Hok) as Hi.
    destruct (ins_all_step black gs _ Hnc Hall Hi) as [_ [W B]].
    assert (forall g, In g gs -> groups_nonempty g = true) as Hgn.
    { intros g Hg. rewrite forallb_forall in Hall. eapply compat_groups_nonempty. apply Hall. exact Hg. }
    unfold path_set. cbn [spec_pass]. destruct black.
    + (* black list *)
      unfold complete. rewrite existsb_flat_map.
      destruct (existsb (fun g => match g with [] => true | _ => false end) gs) eqn:Enil.
      * (* the root path is among them: then all of them are *)
        apply existsb_exists in Enil. destruct Enil as [g [Hin Hg]]. destruct g; [|discriminate].
        pose proof (nil_in_no_conflict gs Hnc Hin) as Hall_nil.
        rewrite (ins_all_nils gs _ Hall_nil Hgne), walk_cons, query_black; [|exact Hok|reflexivity].
        cbn [set_isall m_isall fresh m_kids klookup fst snd]. unfold has_child.
        cbn [m_kids set_isall fresh]. rewrite andb_false_r. cbn [andb].
        symmetry. rewrite negb_false_iff. apply existsb_exists. exists []. split; [exact Hin | reflexivity].
      * assert (forallb (fun g => nonempty g && negb (ends_with_star g)) gs = true) as Hne.
        { rewrite forallb_forall. intros g Hg. rewrite andb_true_iff. split.
          - destruct g; [|reflexivity]. exfalso. assert (existsb (fun g => match g with [] => true | _ => false end) gs = true) as X
              by (apply existsb_exists; exists []; auto). congruence.
          - unfold no_tail_star in Hts. rewrite forallb_forall in Hts. apply Hts. exact Hg. }
        rewrite (B eq_refl Hne), walk_fresh_black by exact Hok. cbn [andb]. f_equal.
        apply existsb_ext. intro g. apply rejg_expand.
    + (* white list *)
      rewrite (W eq_refl), walk_fresh_white by exact Hok. cbn [orb].
      assert (flat_map expand gs <> []) as Hps.
      { rewrite Egs. cbn [flat_map]. intro E. apply app_eq_nil in E. destruct E as [E _].
        revert E. apply expand_nonempty. apply Hgn. rewrite Egs. left; reflexivity. }
      destruct (flat_map expand gs) as [|p0 l0] eqn:Eps; [congruence|]. rewrite <- Eps.
      unfold complete, touched. rewrite <- existsb_orb, existsb_flat_map.
      clear Eps. revert Hgn. clear. induction gs as [|g gs IH]; intros Hgn; [reflexivity|].
      cbn [existsb]. rewrite IH by (intros; apply Hgn; right; assumption).
      rewrite (selg_expand g (k :: q)) by (apply Hgn; left; reflexivity). reflexivity.
Qed.

(* ------------------------------------------------------------------ the theorems on path strings *)

Lemma well_typed_parts env d ps :
  well_typed env d ps = true ->
  ok_ft (switch_ft env d) = true /\ forallb wf_path ps = true /\ exists gs, elab_all env d ps = Some gs.
Proof.
  unfold well_typed. rewrite !andb_true_iff. intros [[H1 H2] H3].
  destruct (elab_all env d ps) as [gs|]; [eauto | discriminate].
Qed.

Theorem build_total_on_D env d black strs ps gs :
  map tokenize strs = map tokens_of ps ->
  well_typed env d ps = true -> elab_all env d ps = Some gs -> no_conflict gs = true ->
  new_mask env d black strs = Ok (built env d black gs).
Proof.
  intros Htok Hwt He Hnc. destruct (well_typed_parts _ _ _ Hwt) as [_ [Hwf _]].
  eapply new_mask_built; eauto.
Qed.

Theorem build_sound env d black strs ps gs m :
  map tokenize strs = map tokens_of ps ->
  well_typed env d ps = true -> elab_all env d ps = Some gs -> in_domain black gs = true ->
  new_mask env d black strs = Ok m ->
  forall q, walk (Some m) q = spec_pass black (path_set gs) q.
Proof.
  intros Htok Hwt He Hdom Hm q. destruct (well_typed_parts _ _ _ Hwt) as [Hok [Hwf _]].
  assert (no_conflict gs = true) as Hnc by (unfold in_domain in Hdom; rewrite andb_true_iff in Hdom; tauto).
  rewrite (build_total_on_D env d black strs ps gs Htok Hwt He Hnc) in Hm. injection Hm as <-.
  apply built_sound; auto. eapply elab_all_compat_fresh; eauto.
Qed.

(* ---- the answers depend on the path SET only *)

Lemma existsb_same_elements {A} (f : A -> bool) l l' :
  (forall x, In x l <-> In x l') -> existsb f l = existsb f l'.
Proof.
  intro H. destruct (existsb f l) eqn:E1, (existsb f l') eqn:E2; try reflexivity.
  - apply existsb_exists in E1. destruct E1 as [x [Hin Hx]].
    assert (existsb f l' = true) by (apply existsb_exists; exists x; split; [apply H; exact Hin | exact Hx]). congruence.
  - apply existsb_exists in E2. destruct E2 as [x [Hin Hx]].
    assert (existsb f l = true) by (apply existsb_exists; exists x; split; [apply H; exact Hin | exact Hx]). congruence.
Qed.

Theorem spec_pass_set black ps ps' q :
  (forall p, In p ps <-> In p ps') -> spec_pass black ps q = spec_pass black ps' q.
Proof.
  intro H. unfold spec_pass. destruct q as [|k q]; [reflexivity|].
  unfold complete, touched. rewrite (existsb_same_elements (fun p => covers p (k :: q)) ps ps' H), (existsb_same_elements (fun p => touches p (k :: q)) ps ps' H).
  destruct black; [reflexivity|].
  destruct ps as [|a l], ps' as [|b l']; try reflexivity.
  - exfalso. apply (H b). left; reflexivity.
  - exfalso. apply (H a). left; reflexivity.
Qed.

Theorem spec_all_set black ps ps' q :
  (forall p, In p ps <-> In p ps') -> spec_all black ps q = spec_all black ps' q.
Proof.
  intro H. unfold spec_all, complete, touched, starred.
  rewrite (existsb_same_elements (fun p => covers p q) ps ps' H), (existsb_same_elements (fun p => touches p q) ps ps' H),
          (existsb_same_elements (fun p => star_at p q) ps ps' H).
  destruct black; [reflexivity|].
  destruct ps as [|a l], ps' as [|b l']; try reflexivity.
  - exfalso. apply (H b). left; reflexivity.
  - exfalso. apply (H a). left; reflexivity.
Qed.

Lemma seg_eqb_eq x y : seg_eqb x y = true -> x = y.
Proof.
  destruct x, y; cbn; try discriminate; try reflexivity.
  - rewrite Z.eqb_eq. congruence.
  - rewrite Z.eqb_eq. congruence.
  - rewrite beqb_true. congruence.
Qed.

Lemma spath_eqb_eq : forall a b, spath_eqb a b = true -> a = b.
Proof.
  induction a as [|x a IH]; intros [|y b]; cbn; try discriminate; [reflexivity|].
  rewrite andb_true_iff. intros [H1 H2]. apply seg_eqb_eq in H1. apply IH in H2. congruence.
Qed.

Lemma same_set_in a b : same_set a b = true -> forall p, In p a <-> In p b.
Proof.
  unfold same_set. rewrite andb_true_iff, !forallb_forall. intros [H1 H2] p. split; intro Hin.
  - specialize (H1 p Hin). apply existsb_exists in H1. destruct H1 as [p' [Hp' E]]. apply spath_eqb_eq in E. subst. exact Hp'.
  - specialize (H2 p Hin). apply existsb_exists in H2. destruct H2 as [p' [Hp' E]]. apply spath_eqb_eq in E. subst. exact Hp'.
Qed.

(* two lists of paths (any order, any grouping) that denote the same path set *)
Theorem order_irrelevant env d black strs ps gs m strs' ps' gs' :
  map tokenize strs = map tokens_of ps -> map tokenize strs' = map tokens_of ps' ->
  well_typed env d ps = true -> well_typed env d ps' = true ->
  elab_all env d ps = Some gs -> elab_all env d ps' = Some gs' ->
  in_domain black gs = true -> in_domain black gs' = true ->
  (forall p, In p (path_set gs) <-> In p (path_set gs')) ->
  new_mask env d black strs = Ok m ->
  exists m', new_mask env d black strs' = Ok m' /\ forall q, walk (Some m) q = walk (Some m') q.
Proof.
  intros Ht Ht' Hw Hw' He He' Hd Hd' Hset Hm.
  assert (no_conflict gs' = true) as Hnc' by (unfold in_domain in Hd'; rewrite andb_true_iff in Hd'; tauto).
  exists (built env d black gs'). split; [eapply build_total_on_D; eauto|].
  intro q. rewrite (build_sound env d black strs ps gs m Ht Hw He Hd Hm q).
  rewrite (build_sound env d black strs' ps' gs' _ Ht' Hw' He' Hd' (build_total_on_D _ _ _ _ _ _ Ht' Hw' He' Hnc') q).
  apply spec_pass_set. exact Hset.
Qed.

Lemma elab_all_perm env d ps ps' : Permutation ps ps' -> forall gs, elab_all env d ps = Some gs ->
  exists gs', elab_all env d ps' = Some gs' /\ Permutation gs gs'.
Proof.
  induction 1 as [|x l l' HP IH|x y l|l l' l'' _ IH1 _ IH2]; intros gs He.
  - exists gs. split; [exact He | apply Permutation_refl].
  - destruct (elab_all_cons _ _ _ _ _ He) as [g [gs1 [-> [Hg Hgs]]]].
    destruct (IH _ Hgs) as [gs2 [H1 H2]]. exists (g :: gs2). cbn. rewrite Hg, H1. split; [reflexivity | constructor; exact H2].
  - destruct (elab_all_cons _ _ _ _ _ He) as [g1 [gs1 [-> [Hg1 Hgs1]]]].
    destruct (elab_all_cons _ _ _ _ _ Hgs1) as [g2 [gs2 [-> [Hg2 Hgs2]]]].
    exists (g2 :: g1 :: gs2). cbn. rewrite Hg1, Hg2, Hgs2. split; [reflexivity | constructor].
  - destruct (IH1 _ He) as [g1 [H1 P1]]. destruct (IH2 _ H1) as [g2 [H2 P2]].
    exists g2. split; [exact H2 | eapply Permutation_trans; eauto].
Qed.

Lemma forallb_perm {A} (f : A -> bool) l l' : Permutation l l' -> forallb f l = true -> forallb f l' = true.
Proof.
  intros HP H. rewrite forallb_forall in *. intros x Hx. apply H. eapply Permutation_in; [apply Permutation_sym; exact HP | exact Hx].
Qed.

Lemma in_domain_perm black gs gs' : Permutation gs gs' -> in_domain black gs = true -> in_domain black gs' = true.
Proof.
  intros HP. unfold in_domain. rewrite !andb_true_iff. intros [H1 H2]. split; [eapply no_conflict_perm; eauto|].
  destruct black; [|reflexivity]. unfold no_tail_star in *. eapply forallb_perm; eauto.
Qed.

Lemma path_set_perm gs gs' : Permutation gs gs' -> forall p, In p (path_set gs) <-> In p (path_set gs').
Proof.
  intros HP p. unfold path_set. rewrite !in_flat_map. split; intros [g [H1 H2]]; exists g; split; auto.
  - eapply Permutation_in; eauto.
  - eapply Permutation_in; [apply Permutation_sym; exact HP | exact H1].
Qed.

Theorem order_irrelevant_perm env d black strs ps gs m strs' ps' :
  map tokenize strs = map tokens_of ps -> map tokenize strs' = map tokens_of ps' ->
  Permutation ps ps' ->
  well_typed env d ps = true -> elab_all env d ps = Some gs -> in_domain black gs = true ->
  new_mask env d black strs = Ok m ->
  exists m', new_mask env d black strs' = Ok m' /\ forall q, walk (Some m) q = walk (Some m') q.
Proof.
  intros Ht Ht' HP Hw He Hd Hm.
  destruct (elab_all_perm env d ps ps' HP gs He) as [gs' [He' HPg]].
  assert (well_typed env d ps' = true) as Hw'.
  { destruct (well_typed_parts _ _ _ Hw) as [Hok [Hwf _]]. unfold well_typed. rewrite Hok, He', (forallb_perm _ _ _ HP Hwf). reflexivity. }
  eapply (order_irrelevant env d black strs ps gs m strs' ps' gs'); eauto.
  - eapply in_domain_perm; eauto.
  - apply path_set_perm. exact HPg.
Qed.

(* ------------------------------------------------------------------ every listed error is an error *)

Lemma err_propagates env d p r cur e :
  add_path (path_fuel p) env p d cur = Err e -> add_tok_paths env d (p :: r) cur = Err e.
Proof. intro H. cbn [add_tok_paths]. rewrite H. reflexivity. Qed.

Definition stray_token (t : token) : bool :=
  match t with TRoot | TField | TIndexL | TMapL => false | _ => true end.

(* malformed path *)
Lemma err_malformed_stray f env t r d cur : stray_token t = true -> add_path (S f) env (t :: r) d cur = Err EMalformed.
Proof. destruct t; cbn; try discriminate; reflexivity. Qed.

Lemma err_malformed_dot_at_end f env d cur fs :
  struct_fields env d = Some fs -> m_typ cur = FtStruct -> add_path (S f) env [TField] d cur = Err EMalformed.
Proof. intros H1 H2. cbn [add_path]. rewrite H1, H2. reflexivity. Qed.

Lemma err_malformed_field_token f env t r d cur fs :
  struct_fields env d = Some fs -> m_typ cur = FtStruct -> all_of cur = false ->
  match t with TLitStr _ | TLitInt _ | TAny => false | _ => true end = true ->
  add_path (S f) env (TField :: t :: r) d cur = Err EMalformed.
Proof. intros H1 H2 H3 H4. cbn [add_path]. rewrite H1, H2, H3. destruct t; try discriminate; reflexivity. Qed.

Lemma err_malformed_empty_index f env r d cur e :
  list_elem d = Some e -> m_typ cur = FtList -> ok_ft (switch_ft env e) = true ->
  add_path (S f) env (TIndexL :: TIndexR :: r) d cur = Err EMalformed.
Proof.
  intros H1 H2 H3. cbn [add_path]. rewrite H1, H2. unfold ok_ft in H3. rewrite negb_true_iff in H3. rewrite H3. reflexivity.
Qed.

Lemma err_malformed_empty_keys f env r d cur k v :
  map_kv d = Some (k, v) -> (m_typ cur = FtIntMap \/ m_typ cur = FtStrMap \/ m_typ cur = FtScalar) ->
  ok_ft (switch_ft env v) = true ->
  add_path (S f) env (TMapL :: TMapR :: r) d cur = Err EMalformed.
Proof.
  intros H1 H2 H3. cbn [add_path]. rewrite H1. unfold ok_ft in H3. rewrite negb_true_iff in H3.
  destruct H2 as [H2|[H2|H2]]; rewrite H2; cbn [ft_eqb orb negb]; rewrite H3; reflexivity.
Qed.

Lemma err_malformed_field_id_range f env n r d cur fs :
  struct_fields env d = Some fs -> m_typ cur = FtStruct -> all_of cur = false -> (max_int32 < n)%Z ->
  add_path (S f) env (TField :: TLitInt n :: r) d cur = Err EMalformed.
Proof.
  intros H1 H2 H3 H4. cbn [add_path]. rewrite H1, H2, H3. cbn [ft_eqb negb].
  assert ((n <=? max_int32)%Z = false) as -> by (apply Z.leb_gt; exact H4). reflexivity.
Qed.

(* unknown field *)
Lemma err_unknown_field_name f env n r d cur fs :
  struct_fields env d = Some fs -> m_typ cur = FtStruct -> all_of cur = false -> field_by_name fs n = None ->
  add_path (S f) env (TField :: TLitStr n :: r) d cur = Err ENoField.
Proof. intros H1 H2 H3 H4. cbn [add_path]. rewrite H1, H2, H3, H4. reflexivity. Qed.

Lemma err_unknown_field_id f env n r d cur fs :
  struct_fields env d = Some fs -> m_typ cur = FtStruct -> all_of cur = false -> field_by_id fs n = None ->
  add_path (S f) env (TField :: TLitInt n :: r) d cur = Err ENoField \/
  add_path (S f) env (TField :: TLitInt n :: r) d cur = Err EMalformed.
Proof.
  intros H1 H2 H3 H4. cbn [add_path]. rewrite H1, H2, H3, H4. cbn [ft_eqb negb].
  destruct (n <=? max_int32)%Z; auto.
Qed.

(* wrong container kind *)
Lemma err_kind_not_struct f env r d cur : struct_fields env d = None -> add_path (S f) env (TField :: r) d cur = Err EKind.
Proof. intros H. cbn [add_path]. rewrite H. reflexivity. Qed.
Lemma err_kind_not_list f env r d cur : list_elem d = None -> add_path (S f) env (TIndexL :: r) d cur = Err EKind.
Proof. intros H. cbn [add_path]. rewrite H. reflexivity. Qed.
Lemma err_kind_not_map f env r d cur : map_kv d = None -> add_path (S f) env (TMapL :: r) d cur = Err EKind.
Proof. intros H. cbn [add_path]. rewrite H. reflexivity. Qed.

(* key kind mismatch *)
Lemma err_key_kind_int_on_string_map f env n r d cur k v :
  map_kv d = Some (k, v) -> m_typ cur = FtStrMap -> m_isall cur = false -> ok_ft (switch_ft env v) = true ->
  add_path (S f) env (TMapL :: TLitInt n :: r) d cur = Err EKeyKind.
Proof.
  intros H1 H2 H3 H4. cbn [add_path]. rewrite H1, H2. cbn [ft_eqb orb negb].
  unfold ok_ft in H4. rewrite negb_true_iff in H4. rewrite H4. unfold all_of. rewrite H2, H3. reflexivity.
Qed.

Lemma err_key_kind_string_on_int_map f env s r d cur k v :
  map_kv d = Some (k, v) -> m_typ cur = FtIntMap -> m_isall cur = false -> ok_ft (switch_ft env v) = true ->
  add_path (S f) env (TMapL :: TStr s :: r) d cur = Err EKeyKind.
Proof.
  intros H1 H2 H3 H4. cbn [add_path]. rewrite H1, H2. cbn [ft_eqb orb negb].
  unfold ok_ft in H4. rewrite negb_true_iff in H4. rewrite H4. unfold all_of. rewrite H2, H3. reflexivity.
Qed.

(* conflict with a star (or a complete path) settled before *)
Lemma err_conflict_field f env t r d cur fs :
  struct_fields env d = Some fs -> m_typ cur = FtStruct -> m_isall cur = true ->
  add_path (S f) env (TField :: t :: r) d cur = Err EConflict.
Proof. intros H1 H2 H3. cbn [add_path]. rewrite H1, H2. unfold all_of. rewrite H2, H3. reflexivity. Qed.

Lemma err_conflict_index f env n r d cur e :
  list_elem d = Some e -> m_typ cur = FtList -> m_isall cur = true -> ok_ft (switch_ft env e) = true ->
  add_path (S f) env (TIndexL :: TLitInt n :: r) d cur = Err EConflict.
Proof.
  intros H1 H2 H3 H4. cbn [add_path]. rewrite H1, H2. cbn [ft_eqb negb].
  unfold ok_ft in H4. rewrite negb_true_iff in H4. rewrite H4. unfold all_of. rewrite H2, H3. reflexivity.
Qed.

Lemma err_conflict_index_after_star_inside f env n r d cur e :
  list_elem d = Some e -> m_typ cur = FtList -> ok_ft (switch_ft env e) = true ->
  add_path (S f) env (TIndexL :: TAny :: TElem :: TLitInt n :: r) d cur = Err EConflict.
Proof.
  intros H1 H2 H4. cbn [add_path]. rewrite H1, H2. cbn [ft_eqb negb].
  unfold ok_ft in H4. rewrite negb_true_iff in H4. rewrite H4. reflexivity.
Qed.

Lemma err_conflict_key f env t r d cur k v :
  map_kv d = Some (k, v) -> (m_typ cur = FtIntMap \/ m_typ cur = FtStrMap) -> m_isall cur = true ->
  ok_ft (switch_ft env v) = true -> match t with TLitInt _ | TStr _ => true | _ => false end = true ->
  add_path (S f) env (TMapL :: t :: r) d cur = Err EConflict.
Proof.
  intros H1 H2 H3 H4 H5. cbn [add_path]. rewrite H1. unfold ok_ft in H4. rewrite negb_true_iff in H4.
  destruct H2 as [H2|H2]; rewrite H2; cbn [ft_eqb orb negb]; rewrite H4; unfold all_of; rewrite H2, H3;
  destruct t; try discriminate; reflexivity.
Qed.

(* a map whose key is neither integer nor string takes only the star *)
Lemma err_conflict_other_keyed_map f env t r d cur k v :
  map_kv d = Some (k, v) -> m_typ cur = FtScalar -> ok_ft (switch_ft env v) = true ->
  match t with TLitInt _ | TStr _ => true | _ => false end = true ->
  add_path (S f) env (TMapL :: t :: r) d cur = Err EConflict.
Proof.
  intros H1 H2 H4 H5. cbn [add_path]. rewrite H1, H2. cbn [ft_eqb orb negb].
  unfold ok_ft in H4. rewrite negb_true_iff in H4. rewrite H4. unfold all_of. rewrite H2.
  destruct t; try discriminate; reflexivity.
Qed.

(* ------------------------------------------------------------------ witnesses outside the domain *)

Definition wenv : senv :=
  [(B "S", [mkfield 1 (B "a") (TyBase (B "i32"));
            mkfield 2 (B "in") (TyStruct (B "In"));
            mkfield 3 (B "li") (TyList (TyStruct (B "In")));
            mkfield 4 (B "ls") (TyList (TyBase (B "string")));
            mkfield 5 (B "mi") (TyMap (TyBase (B "i32")) (TyStruct (B "In")));
            mkfield 6 (B "ms") (TyMap (TyBase (B "string")) (TyStruct (B "In")));
            mkfield 7 (B "u") TyOther;
            mkfield (-1) (B "neg") (TyBase (B "i32"));
            mkfield 64 (B "big") (TyStruct (B "In"))]);
   (B "In", [mkfield 1 (B "x") (TyBase (B "i32")); mkfield 2 (B "y") (TyBase (B "i32")); mkfield 3 (B "self") (TyStruct (B "In"))]);
   (B "F", [mkfield 1 (B "first") (TyStruct (B "In")); mkfield 2 (B "b") (TyBase (B "i32"))])].
Definition wroot : ty := TyStruct (B "S").

Definition w_gs (d : ty) (ps : list (list pseg)) : list gpath :=
  match elab_all wenv d ps with Some g => g | None => [] end.
Definition w_mask (d : ty) (black : bool) (strs : list bytes) : mask :=
  match new_mask wenv d black strs with Ok m => m | _ => empty_mask black end.

(* a later star drops what explicit keys selected; the other order is an error *)
Definition w1_strs := [B "$.li[1].x"; B "$.li[*].y"].
Definition w1_ps := [[PName (B "li"); PIdx [1%Z]; PName (B "x")]; [PName (B "li"); PIdxStar; PName (B "y")]].
Definition w1_q := [QF 3; QI 1; QF 1].

Lemma star_resets_keys_witness :
  map tokenize w1_strs = map tokens_of w1_ps /\ well_typed wenv wroot w1_ps = true /\
  elab_all wenv wroot w1_ps = Some (w_gs wroot w1_ps) /\ no_conflict (w_gs wroot w1_ps) = false /\
  new_mask wenv wroot false w1_strs = Ok (w_mask wroot false w1_strs) /\
  walk (Some (w_mask wroot false w1_strs)) w1_q = false /\
  spec_pass false (path_set (w_gs wroot w1_ps)) w1_q = true /\
  new_mask wenv wroot false (rev w1_strs) = Err EConflict.
Proof. repeat split; vm_compute; reflexivity. Qed.

(* black list: a path ending with a star passes its elements *)
Definition w2_strs := [B "$.ls[*]"].
Definition w2_ps := [[PName (B "ls"); PIdxStar]].
Definition w2_q := [QF 4; QI 0].

Lemma black_tail_star_witness :
  map tokenize w2_strs = map tokens_of w2_ps /\ well_typed wenv wroot w2_ps = true /\
  elab_all wenv wroot w2_ps = Some (w_gs wroot w2_ps) /\ no_conflict (w_gs wroot w2_ps) = true /\
  no_tail_star (w_gs wroot w2_ps) = false /\
  new_mask wenv wroot true w2_strs = Ok (w_mask wroot true w2_strs) /\
  walk (Some (w_mask wroot true w2_strs)) w2_q = true /\
  spec_pass true (path_set (w_gs wroot w2_ps)) w2_q = false.
Proof. repeat split; vm_compute; reflexivity. Qed.

(* black list: a path and its proper prefix (prefix last) reject nothing; prefix first is an error *)
Definition w3_strs := [B "$.in.x"; B "$.in"].
Definition w3_ps := [[PName (B "in"); PName (B "x")]; [PName (B "in")]].
Definition w3_q := [QF 2; QF 1].

Lemma black_prefix_witness :
  map tokenize w3_strs = map tokens_of w3_ps /\ well_typed wenv wroot w3_ps = true /\
  elab_all wenv wroot w3_ps = Some (w_gs wroot w3_ps) /\ no_conflict (w_gs wroot w3_ps) = false /\
  new_mask wenv wroot true w3_strs = Ok (w_mask wroot true w3_strs) /\
  walk (Some (w_mask wroot true w3_strs)) w3_q = true /\
  spec_pass true (path_set (w_gs wroot w3_ps)) w3_q = false /\
  new_mask wenv wroot true (rev w3_strs) = Err EConflict.
Proof. repeat split; vm_compute; reflexivity. Qed.

(* paths outside the grammar are accepted *)
Lemma malformed_accepted_witness :
  grammatical (tokenize (B "$.li[1")) = false /\ grammatical (tokenize (B "$.li[,]")) = false /\
  grammatical (tokenize []) = false /\
  (exists m, new_mask wenv wroot false [B "$.li[1"] = Ok m) /\
  (exists m, new_mask wenv wroot false [B "$.li[,]"] = Ok m) /\
  (exists m, new_mask wenv wroot false [[]] = Ok m).
Proof. repeat split; try (eexists; vm_compute; reflexivity); vm_compute; reflexivity. Qed.

(* a field whose type has no mask type is accepted but cannot be selected *)
Lemma untyped_field_witness :
  well_typed wenv wroot [[PName (B "u")]] = false /\
  new_mask wenv wroot false [B "$.u"] = Ok (w_mask wroot false [B "$.u"]) /\
  walk (Some (w_mask wroot false [B "$.u"])) [QF 7] = false.
Proof. repeat split; vm_compute; reflexivity. Qed.

(* below a struct star: typed by the first field, looked up in the enclosing struct *)
Lemma struct_star_continuation_witness :
  let d := TyStruct (B "F") in
  well_typed wenv d [[PStarF; PName (B "b")]] = false /\
  new_mask wenv d false [B "$.*.b"] = Ok (w_mask d false [B "$.*.b"]) /\
  walk (Some (w_mask d false [B "$.*.b"])) [QF 1; QF 2] = true /\
  walk (Some (w_mask d false [B "$.*.b"])) [QF 1; QF 1] = false.
Proof. repeat split; vm_compute; reflexivity. Qed.

(* a struct star given twice is an error although the path set is the same *)
Lemma struct_star_twice_witness :
  (exists m, new_mask wenv wroot false [B "$.*"] = Ok m) /\ new_mask wenv wroot false [B "$.*"; B "$.*"] = Err EConflict.
Proof. split; [eexists|]; vm_compute; reflexivity. Qed.

(* JSON: a string key "*" comes back as the any-star; the empty mask does not come back *)
Definition w4_strs := [B "$.ms{""*""}.x"; B "$.ms{""b""}"].
Lemma json_star_key_witness :
  exists m m', new_mask wenv wroot false w4_strs = Ok m /\ of_json (to_json m) = Ok m' /\
  walk (Some m) [QF 6; QS (B "zz")] = false /\ walk (Some m') [QF 6; QS (B "zz")] = true.
Proof.
  exists (w_mask wroot false w4_strs).
  exists (match of_json (to_json (w_mask wroot false w4_strs)) with Ok x => x | _ => zero_mask end).
  repeat split; vm_compute; reflexivity.
Qed.

Lemma json_empty_mask_witness : forall black, of_json (to_json (empty_mask black)) = Err EKind.
Proof. intros []; reflexivity. Qed.

(* ------------------------------------------------------------------ members of the domain *)

Definition ex_strs :=
  [B "$.a"; B "$.in.x"; B "$.li[1,2].x"; B "$.li[3].self.y"; B "$.mi{7}"; B "$.ms{*}.y"; B "$.64.3.1"; B "$.neg"].
Definition ex_ps :=
  [[PName (B "a")]; [PName (B "in"); PName (B "x")];
   [PName (B "li"); PIdx [1; 2]%Z; PName (B "x")]; [PName (B "li"); PIdx [3%Z]; PName (B "self"); PName (B "y")];
   [PName (B "mi"); PKeyI [7%Z]]; [PName (B "ms"); PKeyStar; PName (B "y")];
   [PId 64; PId 3; PId 1]; [PName (B "neg")]].

Lemma domain_example :
  map tokenize ex_strs = map tokens_of ex_ps /\ well_typed wenv wroot ex_ps = true /\
  elab_all wenv wroot ex_ps = Some (w_gs wroot ex_ps) /\
  in_domain false (w_gs wroot ex_ps) = true /\ in_domain true (w_gs wroot ex_ps) = true /\
  List.length (path_set (w_gs wroot ex_ps)) = 9.
Proof. repeat split; vm_compute; reflexivity. Qed.

(* the same set, regrouped and reordered *)
Definition ex_strs' :=
  [B "$.neg"; B "$.li[2].x"; B "$.64.self.x"; B "$.ms{*}.2"; B "$.li[1].x"; B "$.5{7}"; B "$.li[3].3.y"; B "$.2.1"; B "$.1"].
Definition ex_ps' :=
  [[PName (B "neg")]; [PName (B "li"); PIdx [2%Z]; PName (B "x")]; [PId 64; PName (B "self"); PName (B "x")];
   [PName (B "ms"); PKeyStar; PId 2]; [PName (B "li"); PIdx [1%Z]; PName (B "x")]; [PId 5; PKeyI [7%Z]];
   [PName (B "li"); PIdx [3%Z]; PId 3; PName (B "y")]; [PId 2; PId 1]; [PId 1]].

Lemma regroup_example :
  map tokenize ex_strs' = map tokens_of ex_ps' /\ well_typed wenv wroot ex_ps' = true /\
  elab_all wenv wroot ex_ps' = Some (w_gs wroot ex_ps') /\ in_domain true (w_gs wroot ex_ps') = true /\
  same_set (path_set (w_gs wroot ex_ps)) (path_set (w_gs wroot ex_ps')) = true.
Proof. repeat split; vm_compute; reflexivity. Qed.
