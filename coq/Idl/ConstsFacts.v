(* Idl/ConstsFacts.v — proofs about Idl/Consts.v (property C06).  Statements are collected
   in Props/C06.v. *)
From Coq.Strings Require Import String.
From Coq Require Import List Bool ZArith NArith Lia Arith.
From Coq.Strings Require Import Byte.
From Verif Require Import Base.Bytes Idl.Ast Idl.AstUtil Idl.Consts.
From Verif Require Idl.Resolve Idl.Lex.
Import ListNotations.
Local Open Scope Z_scope.
Local Open Scope consts_scope.

(* ---------------------------------------------------------------- small tools *)

Lemma bind_ok {A B} (r : result A) (k : A -> result B) b :
  bind r k = Ok b -> exists a, r = Ok a /\ k a = Ok b.
Proof. destruct r as [a|e]; cbn; [eauto | discriminate]. Qed.

Lemma mapM_ok {A B} (f : A -> result B) l vs :
  mapM f l = Ok vs <-> Forall2 (fun x y => f x = Ok y) l vs.
Proof.
  revert vs. induction l as [|x l IH]; intros vs; cbn.
  - split; [intros [= <-]; constructor | intros H; inversion H; reflexivity].
  - split.
    + intros H. apply bind_ok in H as (y & Hy & H). apply bind_ok in H as (ys & Hys & H).
      injection H as <-. constructor; [exact Hy | apply IH; exact Hys].
    + intros H. inversion H as [|? y ? ys Hy Hys]; subst. rewrite Hy. cbn.
      apply IH in Hys. rewrite Hys. reflexivity.
Qed.

Lemma Forall2_impl {A B} (P Q : A -> B -> Prop) la lb :
  (forall a b, P a b -> Q a b) -> Forall2 P la lb -> Forall2 Q la lb.
Proof. intros H F. induction F; constructor; auto. Qed.

Lemma mapM_length {A B} (f : A -> result B) l vs : mapM f l = Ok vs -> length vs = length l.
Proof. intros H. apply mapM_ok in H. induction H; cbn; congruence. Qed.

Lemma mapM_ext {A B} (f g : A -> result B) l : (forall x, In x l -> f x = g x) -> mapM f l = mapM g l.
Proof.
  induction l as [|x l IH]; intros H; cbn; [reflexivity|].
  rewrite (H x (or_introl eq_refl)). rewrite IH; [reflexivity | intros; apply H; right; assumption].
Qed.

(* ---------------------------------------------------------------- string literals *)

(* a byte the literal rule copies unchanged: not a backslash, not a control byte other
   than tab; the double quote is allowed: it is re-escaped and read back *)
Definition plain_byte (c : byte) : bool :=
  negb (Byte.eqb c c_bs) && negb ((Z.of_N (Byte.to_N c) <? 32) && negb (Byte.eqb c x09)).

Lemma byte_eqb_refl c : Byte.eqb c c = true.
Proof. apply byte_eqb_eq. reflexivity. Qed.

Lemma go_string_plain s : forallb plain_byte s = true -> go_string s = Ok s.
Proof.
  unfold go_string. induction s as [|c s IH]; intros H; [reflexivity|].
  cbn [forallb] in H. apply andb_true_iff in H as [Hc Hs]. specialize (IH Hs).
  unfold plain_byte in Hc. apply andb_true_iff in Hc as [Hbs Hctl].
  apply negb_true_iff in Hbs. apply negb_true_iff in Hctl.
  cbn [go_escape_dq]. destruct (Byte.eqb c c_dq) eqn:Hq.
  - apply byte_eqb_eq in Hq. subst c.
    cbn [go_unquote]. change (Byte.eqb c_bs c_dq) with false. change (Byte.eqb c_bs c_bs) with true.
    cbn match. change (Byte.eqb c_dq c_bs) with false. change (Byte.eqb c_dq c_dq) with true. cbn match.
    rewrite IH. reflexivity.
  - cbn [go_unquote]. rewrite Hq, Hbs, Hctl. rewrite IH. reflexivity.
Qed.

(* the escapes, one equation each: [bs e] in front of the rest *)
Lemma go_unquote_bs r : go_unquote (c_bs :: c_bs :: r) = (t <- go_unquote r ;; Ok (c_bs :: t)).
Proof. reflexivity. Qed.
Lemma go_unquote_dq r : go_unquote (c_bs :: c_dq :: r) = (t <- go_unquote r ;; Ok (c_dq :: t)).
Proof. reflexivity. Qed.
Lemma go_unquote_n r : go_unquote (c_bs :: x6e :: r) = (t <- go_unquote r ;; Ok (x0a :: t)).
Proof. reflexivity. Qed.
Lemma go_unquote_t r : go_unquote (c_bs :: x74 :: r) = (t <- go_unquote r ;; Ok (x09 :: t)).
Proof. reflexivity. Qed.
Lemma go_unquote_r r : go_unquote (c_bs :: x72 :: r) = (t <- go_unquote r ;; Ok (x0d :: t)).
Proof. reflexivity. Qed.
Lemma go_unquote_x h1 h2 a b r :
  hexv h1 = Some a -> hexv h2 = Some b ->
  go_unquote (c_bs :: x78 :: h1 :: h2 :: r) = (t <- go_unquote r ;; Ok (byte_of_Z (a * 16 + b) :: t)).
Proof. intros H1 H2. cbn [go_unquote]. change (Byte.eqb c_bs c_dq) with false. change (Byte.eqb c_bs c_bs) with true.
  cbn match. change (Byte.eqb x78 c_bs) with false. change (Byte.eqb x78 c_dq) with false.
  change (Byte.eqb x78 x6e) with false. change (Byte.eqb x78 x74) with false. change (Byte.eqb x78 x72) with false.
  change (Byte.eqb x78 x78) with true. cbn match. rewrite H1, H2. reflexivity. Qed.
Lemma go_unquote_u h1 h2 h3 h4 a b c d enc r :
  hexv h1 = Some a -> hexv h2 = Some b -> hexv h3 = Some c -> hexv h4 = Some d ->
  utf8 (((a * 16 + b) * 16 + c) * 16 + d) = Some enc ->
  go_unquote (c_bs :: x75 :: h1 :: h2 :: h3 :: h4 :: r) = (t <- go_unquote r ;; Ok (enc ++ t)).
Proof. intros H1 H2 H3 H4 Hu. cbn [go_unquote]. change (Byte.eqb c_bs c_dq) with false. change (Byte.eqb c_bs c_bs) with true.
  cbn match. change (Byte.eqb x75 c_bs) with false. change (Byte.eqb x75 c_dq) with false.
  change (Byte.eqb x75 x6e) with false. change (Byte.eqb x75 x74) with false. change (Byte.eqb x75 x72) with false.
  change (Byte.eqb x75 x78) with false. change (Byte.eqb x75 x75) with true. cbn match.
  rewrite H1, H2, H3, H4, Hu. reflexivity. Qed.

(* a bare double quote or a newline never occurs inside a Go literal; an escape outside the
   set is refused *)
Lemma go_unquote_bare_quote r : go_unquote (c_dq :: r) = Error ELiteral.
Proof. reflexivity. Qed.
Lemma go_unquote_newline r : go_unquote (x0a :: r) = Error ELiteral.
Proof. reflexivity. Qed.
Definition known_escape (e : byte) : bool :=
  Byte.eqb e c_bs || Byte.eqb e c_dq || Byte.eqb e x6e || Byte.eqb e x74 || Byte.eqb e x72 || Byte.eqb e x78 || Byte.eqb e x75.
Lemma go_unquote_unsupported e r : known_escape e = false -> go_unquote (c_bs :: e :: r) = Error EUnsupportedEscape.
Proof.
  unfold known_escape. intros H. repeat (apply orb_false_iff in H as [H ?]).
  cbn [go_unquote]. change (Byte.eqb c_bs c_dq) with false. change (Byte.eqb c_bs c_bs) with true. cbn match.
  repeat match goal with H : Byte.eqb e _ = false |- _ => rewrite H; clear H end. reflexivity.
Qed.
(* the single quote is such an escape: Go accepts it in rune literals only *)
Lemma go_unquote_single_quote r : go_unquote (c_bs :: x27 :: r) = Error EUnsupportedEscape.
Proof. apply go_unquote_unsupported. reflexivity. Qed.

(* ---------------------------------------------------------------- ways of writing a value *)

Definition int_category (c : category) : bool :=
  match c with CatByte | CatI16 | CatI32 | CatI64 => true | _ => false end.

Lemma int_category_value c : int_category c = true -> value_category c = true.
Proof. destruct c; cbn; congruence. Qed.

Section Literals.
  Context (q : quirks) (n : nat) (p : program) (vf tf : file) (t : ty).

  (* number *)
  Lemma eval_int_literal z :
    int_category (ty_category t) = true -> in_int_range (ty_category t) z = true ->
    eval q (S n) p vf tf t (CInt z) = Ok (VInt z).
  Proof. cbn [eval]. destruct (ty_category t); intros Hc Hr; cbn in Hc; try discriminate; cbn - [in_int_range]; rewrite Hr; reflexivity. Qed.

  Lemma eval_int_out_of_range z :
    int_category (ty_category t) = true -> in_int_range (ty_category t) z = false ->
    eval q (S n) p vf tf t (CInt z) = Error ERange.
  Proof. cbn [eval]. destruct (ty_category t); intros Hc Hr; cbn in Hc; try discriminate; cbn - [in_int_range]; rewrite Hr; reflexivity. Qed.

  (* true / false for an integer *)
  Lemma eval_int_true_false s ex :
    int_category (ty_category t) = true -> is_true s || is_false s = true ->
    eval q (S n) p vf tf t (CIdent s ex) = Ok (VInt (if is_true s then 1 else 0)).
  Proof. cbn [eval]. unfold bool_word. destruct (ty_category t); intros Hc Hs; rewrite Hs; cbn in Hc; try discriminate; reflexivity. Qed.

  (* string: the literal rule *)
  Lemma eval_string_literal s :
    ty_category t = CatString -> eval q (S n) p vf tf t (CLiteral s) = (b <- go_string s ;; Ok (VStr b)).
  Proof. intros Hc. cbn [eval]. rewrite Hc. reflexivity. Qed.
  Lemma eval_binary_literal s :
    ty_category t = CatBinary -> eval q (S n) p vf tf t (CLiteral s) = (b <- go_string s ;; Ok (VBin b)).
  Proof. intros Hc. cbn [eval]. rewrite Hc. reflexivity. Qed.
  Lemma eval_string_plain s :
    ty_category t = CatString -> forallb plain_byte s = true -> eval q (S n) p vf tf t (CLiteral s) = Ok (VStr s).
  Proof. intros Hc Hs. rewrite eval_string_literal by assumption. rewrite go_string_plain by assumption. reflexivity. Qed.

  (* boolean: true / false and 0 / 1 (any integer: positive means true) *)
  Lemma eval_bool_word s ex :
    ty_category t = CatBool -> is_true s || is_false s = true ->
    eval q (S n) p vf tf t (CIdent s ex) = Ok (VBool (is_true s)).
  Proof. intros Hc Hs. cbn [eval]. unfold bool_word. rewrite Hc, Hs. reflexivity. Qed.
  Lemma eval_bool_int z :
    ty_category t = CatBool -> eval q (S n) p vf tf t (CInt z) = Ok (VBool (0 <? z)).
  Proof. intros Hc. cbn [eval]. rewrite Hc. reflexivity. Qed.
  Lemma eval_bool_0 : ty_category t = CatBool -> eval q (S n) p vf tf t (CInt 0) = Ok (VBool false).
  Proof. apply eval_bool_int. Qed.
  Lemma eval_bool_1 : ty_category t = CatBool -> eval q (S n) p vf tf t (CInt 1) = Ok (VBool true).
  Proof. apply eval_bool_int. Qed.

  (* enum member by number: copied *)
  Lemma eval_enum_by_number z :
    ty_category t = CatEnum -> eval q (S n) p vf tf t (CInt z) = Ok (VInt z).
  Proof. intros Hc. cbn [eval]. rewrite Hc. reflexivity. Qed.

  (* enum member by name, local or through an include: its declared number *)
  Lemma eval_enum_by_name s ex g en ev :
    ty_category t = CatEnum -> ex_is_enum ex = true ->
    hop p vf (ex_index ex) = Ok g -> find_enum g (ex_sel ex) = Some en -> find_enum_value en (ex_name ex) = Some ev ->
    eval q (S n) p vf tf t (CIdent s (Some ex)) = Ok (VInt (ev_value ev)).
  Proof.
    intros Hc He Hh Hen Hev. cbn [eval]. rewrite Hc. cbn [value_category is_base_category is_container_category is_struct_like_category negb orb category_code].
    replace (bool_word CatEnum s) with (@None (result cval)) by (unfold bool_word; destruct (is_true s || is_false s); reflexivity).
    unfold denotes. rewrite Hh. cbn [bind]. rewrite He, Hen, Hev. cbn [bind]. unfold expect. rewrite Hc. reflexivity.
  Qed.

  (* int for double *)
  Lemma eval_int_for_double z :
    ty_category t = CatDouble -> eval q (S n) p vf tf t (CInt z) = Ok (VDbl (z_to_double z)).
  Proof. intros Hc. cbn [eval]. rewrite Hc. reflexivity. Qed.

  (* double *)
  Lemma eval_double_literal b :
    ty_category t = CatDouble -> dbl_finite (Z.of_N b) = true ->
    (q_negzero_lost q && dbl_is_zero (Z.of_N b) = false) ->
    eval q (S n) p vf tf t (CDouble b) = Ok (VDbl (Z.of_N b)).
  Proof. intros Hc Hf Hz. cbn [eval]. rewrite Hc. cbn. unfold go_double. rewrite Hf, Hz. reflexivity. Qed.
  Lemma eval_double_true_false s ex :
    ty_category t = CatDouble -> is_true s || is_false s = true ->
    eval q (S n) p vf tf t (CIdent s ex) = Ok (VDbl (if is_true s then z_to_double 1 else z_to_double 0)).
  Proof. intros Hc Hs. cbn [eval]. unfold bool_word. rewrite Hc, Hs. cbn. destruct (is_true s); reflexivity. Qed.
End Literals.

(* the float64 of a small integer is exact: mantissa * 2^(e - 52) = z *)
Lemma z_to_double_exact z :
  0 < z < 2 ^ 53 ->
  let b := z_to_double z in
  let e := b / two52 - 1023 in
  0 <= e <= 52 /\ (two52 + b mod two52) * 2 ^ e = z * two52.
Proof.
  intros [Hpos Hlt]. cbn zeta. unfold z_to_double.
  replace (z =? 0) with false by (symmetry; apply Z.eqb_neq; lia).
  replace (0 <? z) with true by (symmetry; apply Z.ltb_lt; lia).
  unfold Lex.round_binary64.
  assert (Hl := Z.log2_spec z Hpos). set (e0 := Z.log2 z) in *.
  assert (He0 : 0 <= e0) by apply Z.log2_nonneg.
  assert (He52 : e0 <= 52).
  { destruct (Z_le_gt_dec e0 52) as [?|Hg]; [assumption|].
    assert (2 ^ 53 <= 2 ^ e0) by (apply Z.pow_le_mono_r; lia). lia. }
  change (Z.log2 1) with 0. rewrite Z.sub_0_r.
  replace (0 <=? e0) with true by (symmetry; apply Z.leb_le; lia).
  replace (1 * 2 ^ e0 <=? z) with true by (symmetry; apply Z.leb_le; lia).
  replace (0 <=? e0 + 1) with true by (symmetry; apply Z.leb_le; lia).
  replace (1 * 2 ^ (e0 + 1) <=? z) with false.
  2:{ symmetry. apply Z.leb_gt. replace (e0 + 1) with (Z.succ e0) by lia. lia. }
  replace (e0 <? -1022) with false by (symmetry; apply Z.ltb_ge; lia).
  replace (0 <=? 52 - e0) with true by (symmetry; apply Z.leb_le; lia).
  unfold Lex.div_rne. rewrite Z.div_1_r, Z.mod_1_r. cbn [Z.mul Z.compare].
  set (m := z * 2 ^ (52 - e0)).
  assert (Hm1 : 2 ^ 52 <= m).
  { unfold m. replace (2 ^ 52) with (2 ^ e0 * 2 ^ (52 - e0)) by (rewrite <- Z.pow_add_r by lia; f_equal; lia).
    apply Z.mul_le_mono_nonneg_r; [apply Z.pow_nonneg; lia | lia]. }
  assert (Hm2 : m < 2 ^ 53).
  { unfold m. replace (2 ^ 53) with (2 ^ Z.succ e0 * 2 ^ (52 - e0)) by (rewrite <- Z.pow_add_r by lia; f_equal; lia).
    apply Z.mul_lt_mono_pos_r; [apply Z.pow_pos_nonneg; lia | lia]. }
  replace (m =? 2 ^ 53) with false by (symmetry; apply Z.eqb_neq; lia).
  replace (e0 >? 1023) with false by (symmetry; rewrite Z.gtb_ltb; apply Z.ltb_ge; lia).
  change (2 ^ 52) with two52 in *. change (2 ^ 53) with (2 * two52) in *.
  assert (Hq : ((e0 + 1023) * two52 + (m - two52)) / two52 = e0 + 1023).
  { rewrite Z.add_comm, Z.div_add by (unfold two52; lia). rewrite Z.div_small by lia. lia. }
  assert (Hr : ((e0 + 1023) * two52 + (m - two52)) mod two52 = m - two52).
  { rewrite Z.add_comm, Z.mod_add by (unfold two52; lia). apply Z.mod_small. lia. }
  rewrite Hq, Hr. split; [lia|].
  replace (e0 + 1023 - 1023) with e0 by lia. replace (two52 + (m - two52)) with m by lia.
  unfold m. rewrite <- Z.mul_assoc, <- Z.pow_add_r by lia. replace (52 - e0 + e0) with 52 by lia. reflexivity.
Qed.

(* ---------------------------------------------------------------- references *)

(* what an identifier denotes, local and across an include *)
Lemma denotes_local_const p vf ex co :
  ex_index ex = -1 -> ex_is_enum ex = false -> find_constant vf (ex_name ex) = Some co ->
  denotes p vf ex = Ok (DConst vf co).
Proof. intros Hi He Hc. unfold denotes, hop. rewrite Hi. cbn. rewrite He, Hc. reflexivity. Qed.

Lemma denotes_included_const p vf ex inc g co :
  ex_index ex <> -1 -> nth_include vf (ex_index ex) = Some inc -> include_target p inc = Some g ->
  ex_is_enum ex = false -> find_constant g (ex_name ex) = Some co ->
  denotes p vf ex = Ok (DConst g co).
Proof.
  intros Hi Hn Ht He Hc. unfold denotes, hop.
  replace (ex_index ex =? -1) with false by (symmetry; apply Z.eqb_neq; assumption).
  rewrite Hn, Ht. cbn. rewrite He, Hc. reflexivity.
Qed.

(* an identifier evaluates to what the constant it denotes evaluates to (in that
   constant's own file, at its own type), provided the value fits the position *)
Lemma eval_ref_transparent q n p vf tf t s ex g co :
  value_category (ty_category t) = true -> bool_word (ty_category t) s = None ->
  denotes p vf ex = Ok (DConst g co) ->
  eval q (S n) p vf tf t (CIdent s (Some ex)) =
  (v <- eval_top q n p g (co_type co) (co_value co) ;; expect n p tf t v).
Proof. intros Hv Hb Hd. cbn [eval]. rewrite Hv, Hb, Hd. reflexivity. Qed.

(* same kind of scalar on both sides: the very same value *)
Lemma expect_scalar_id k p tf t v :
  match ty_category t, v with
  | CatBool, VBool _ | CatDouble, VDbl _ | CatString, VStr _ | CatBinary, VBin _ | CatEnum, VInt _ => True
  | (CatByte | CatI16 | CatI32 | CatI64), VInt z => in_int_range (ty_category t) z = true
  | _, _ => False
  end -> expect k p tf t v = Ok v.
Proof.
  unfold expect. destruct (ty_category t), v; try contradiction; try reflexivity; intros H; rewrite H; reflexivity.
Qed.

(* ---------------------------------------------------------------- containers *)

Lemma eval_list_pointwise q n p vf tf t et l :
  (ty_category t = CatList \/ ty_category t = CatSet) -> ty_value t = Some et -> l <> [] ->
  eval q (S n) p vf tf t (CList l) = (vs <- mapM (eval q n p vf tf et) l ;; Ok (VList vs)).
Proof.
  intros Hc Ht Hl. cbn [eval]. destruct l as [|c l]; [congruence|]. rewrite Ht.
  destruct Hc as [-> | ->]; reflexivity.
Qed.

Lemma eval_list_forall2 q n p vf tf t et l vs :
  (ty_category t = CatList \/ ty_category t = CatSet) -> ty_value t = Some et -> l <> [] ->
  (eval q (S n) p vf tf t (CList l) = Ok (VList vs) <->
   Forall2 (fun c v => eval q n p vf tf et c = Ok v) l vs).
Proof.
  intros Hc Ht Hl. rewrite (eval_list_pointwise q n p vf tf t et l Hc Ht Hl). rewrite <- mapM_ok.
  destruct (mapM (eval q n p vf tf et) l) as [ws|e]; cbn; split; intros H; try discriminate; congruence.
Qed.

Lemma eval_list_empty q n p vf tf t :
  (ty_category t = CatList \/ ty_category t = CatSet) -> eval q (S n) p vf tf t (CList []) = Ok (VList []).
Proof. intros [Hc|Hc]; cbn [eval]; rewrite Hc; reflexivity. Qed.

Lemma eval_map_pointwise q n p vf tf t kt vt l :
  ty_category t = CatMap -> ty_key t = Some kt -> ty_value t = Some vt -> l <> [] ->
  eval q (S n) p vf tf t (CMap l) =
  (kvs <- mapM (fun kv => a <- eval q n p vf tf (bin2str kt) (fst kv) ;;
                          b <- eval q n p vf tf vt (snd kv) ;; Ok (a, b)) l ;;
   Ok (VMap (collapse_empty kvs))).
Proof. intros Hc Hk Hv Hl. cbn [eval]. rewrite Hc. destruct l; [congruence|]. rewrite Hk, Hv. reflexivity. Qed.

Lemma eval_map_forall2 q n p vf tf t kt vt l kvs :
  ty_category t = CatMap -> ty_key t = Some kt -> ty_value t = Some vt -> l <> [] ->
  Forall2 (fun kv ab => eval q n p vf tf (bin2str kt) (fst kv) = Ok (fst ab) /\
                        eval q n p vf tf vt (snd kv) = Ok (snd ab)) l kvs ->
  eval q (S n) p vf tf t (CMap l) = Ok (VMap (collapse_empty kvs)).
Proof.
  intros Hc Hk Hv Hl H. rewrite (eval_map_pointwise q n p vf tf t kt vt l Hc Hk Hv Hl).
  assert (Hm : mapM (fun kv => a <- eval q n p vf tf (bin2str kt) (fst kv) ;;
                               b <- eval q n p vf tf vt (snd kv) ;; Ok (a, b)) l = Ok kvs).
  { apply mapM_ok. clear Hl. induction H as [|kv ab l kvs [Ha Hb] _ IH]; constructor; [|exact IH].
    rewrite Ha, Hb. cbn. destruct ab; reflexivity. }
  rewrite Hm. reflexivity.
Qed.

(* keys that are not pointers to field-less structs are kept as written *)
Lemma collapse_empty_id kvs : forallb (fun kv => negb (is_empty_struct (fst kv))) kvs = true -> collapse_empty kvs = kvs.
Proof.
  induction kvs as [|kv r IH]; intros H; [reflexivity|]. cbn in H. apply andb_true_iff in H as [H1 H2].
  cbn [collapse_empty]. apply negb_true_iff in H1. rewrite H1. cbn. rewrite IH by assumption. reflexivity.
Qed.

(* a container written with a value of another kind: tolerated by the generator, an error by
   the IDL's rules *)
Definition container_kind_ok (cat : category) (c : const_value) : bool :=
  match c with
  | CIdent _ _ => true
  | CList _ => match cat with CatList | CatSet => true | _ => false end
  | CMap _ => true     (* a map literal, or "{}" for an empty list in the C++ tradition *)
  | _ => false
  end.

Lemma container_kind_mismatch q n p vf tf t c :
  is_container_category (ty_category t) = true ->
  match c with CInt _ | CDouble _ | CLiteral _ => True | CList _ => ty_category t = CatMap | _ => False end ->
  eval q (S n) p vf tf t c =
  if q_fault_tolerant q then Ok (empty_container (ty_category t)) else Error EKind.
Proof.
  intros Hc Hk. cbn [eval]. destruct (ty_category t) eqn:E; cbn in Hc; try discriminate;
    destruct c; try contradiction; try discriminate; reflexivity.
Qed.

(* ---------------------------------------------------------------- struct literals *)

Lemma eval_struct_literal q n p vf tf t l :
  is_struct_like_category (ty_category t) = true ->
  eval q (S n) p vf tf t (CMap l) =
  (gs <- get_struct_like p tf t ;;
   fs <- struct_slots q (eval q n p vf (fst gs)) (snd gs) l ;; Ok (VStruct fs)).
Proof. intros Hc. cbn [eval]. destruct (ty_category t); cbn in Hc; try discriminate; reflexivity. Qed.

Lemma mapM_In {A B} (f : A -> result B) l vs x :
  mapM f l = Ok vs -> In x l -> exists y, f x = Ok y /\ In y vs.
Proof.
  intros H. apply mapM_ok in H. induction H as [|a b l vs Hab _ IH]; intros Hin; [contradiction|].
  destruct Hin as [<-|Hin]; [exists b; split; [assumption | left; reflexivity]|].
  destruct (IH Hin) as (y & Hy & Hiy). exists y. split; [assumption | right; assumption].
Qed.

(* each field the literal mentions (once) holds the value of what was written for it, at the
   field's type — types read in the file of the struct, identifiers in the file of the
   literal — stored the way the Go field stores it; every other field is Go zero *)
Lemma eval_struct_literal_fields q n p vf tf t l g s fs fd :
  is_struct_like_category (ty_category t) = true ->
  get_struct_like p tf t = Ok (g, s) ->
  eval q (S n) p vf tf t (CMap l) = Ok (VStruct fs) ->
  In fd (sl_fields s) ->
  (forall kv, filter (key_names fd) l = [kv] ->
     exists v sl, eval q n p vf g (fd_type fd) (snd kv) = Ok v /\ mention_slot fd (snd kv) v = Ok sl /\
                  In (fd_id fd, sl) fs) /\
  (filter (key_names fd) l = [] ->
     In (fd_id fd, if q_unmentioned_any q then VAny else zero_slot fd) fs).
Proof.
  intros Hc Hg He Hin. rewrite eval_struct_literal in He by assumption. rewrite Hg in He. cbn [bind fst snd] in He.
  apply bind_ok in He as (fs' & Hs & He). injection He as <-.
  unfold struct_slots in Hs. destruct (negb (keys_ok s l)); [discriminate|].
  destruct (mapM_In _ _ _ fd Hs Hin) as (y & Hy & Hiy). split.
  - intros kv Hf. rewrite Hf in Hy. apply bind_ok in Hy as (v & Hv & Hy). apply bind_ok in Hy as (sl & Hsl & Hy).
    injection Hy as <-. exists v, sl. auto.
  - intros Hf. rewrite Hf in Hy. injection Hy as <-. exact Hiy.
Qed.

Lemma eval_struct_literal_shape q n p vf tf t l g s fs :
  is_struct_like_category (ty_category t) = true ->
  get_struct_like p tf t = Ok (g, s) ->
  eval q (S n) p vf tf t (CMap l) = Ok (VStruct fs) ->
  map fst fs = map fd_id (sl_fields s).
Proof.
  intros Hc Hg He. rewrite eval_struct_literal in He by assumption. rewrite Hg in He. cbn [bind fst snd] in He.
  apply bind_ok in He as (fs' & Hs & He). injection He as <-.
  unfold struct_slots in Hs. destruct (negb (keys_ok s l)); [discriminate|].
  apply mapM_ok in Hs. induction Hs as [|fd e fds fs' He _ IH]; [reflexivity|]. cbn [map]. f_equal; [|exact IH].
  destruct (filter (key_names fd) l) as [|kv [|? ?]]; try discriminate.
  - injection He as <-. reflexivity.
  - apply bind_ok in He as (v & _ & He). apply bind_ok in He as (sl & _ & He). injection He as <-. reflexivity.
Qed.

(* ---------------------------------------------------------------- NewX, InitDefault *)

Lemma new_struct_shape q n p f s fs :
  new_struct q n p f s = Ok (VStruct fs) -> map fst fs = map fd_id (sl_fields s).
Proof.
  unfold new_struct. intros H. apply bind_ok in H as (fs' & Hm & H). injection H as <-.
  apply mapM_ok in Hm. induction Hm as [|fd e fds fs' He _ IH]; [reflexivity|]. cbn [map]. f_equal; [|exact IH].
  apply bind_ok in He as (v & _ & He). injection He as <-. reflexivity.
Qed.

Lemma find_slot_In (fs : list (Z * cval)) id v :
  NoDup (map fst fs) -> In (id, v) fs ->
  find (fun e => fst e =? id) fs = Some (id, v).
Proof.
  induction fs as [|[i w] fs IH]; intros Hnd Hin; [contradiction|]. cbn [find fst].
  inversion Hnd as [|? ? Hni Hnd']; subst. destruct Hin as [Heq|Hin].
  - injection Heq as -> ->. rewrite Z.eqb_refl. reflexivity.
  - destruct (i =? id) eqn:E.
    + apply Z.eqb_eq in E. subst i. exfalso. apply Hni. change id with (fst (id, v)). apply in_map. exact Hin.
    + apply IH; assumption.
Qed.

(* a freshly constructed struct: a field with a declared default holds the value of that
   default, every other field is zero / nil *)
Lemma new_struct_defaults q n p f s x fd :
  new_struct q n p f s = Ok x -> NoDup (map fd_id (sl_fields s)) -> In fd (sl_fields s) ->
  (forall c, fd_default fd = Some c ->
     exists v, eval_top q n p f (fd_type fd) c = Ok v /\ get_slot x (fd_id fd) = Some v) /\
  (fd_default fd = None -> get_slot x (fd_id fd) = Some (zero_slot fd)).
Proof.
  intros Hn Hnd Hin. assert (Hn' := Hn). unfold new_struct in Hn. apply bind_ok in Hn as (fs & Hm & Hn). injection Hn as <-.
  assert (Hsh := new_struct_shape _ _ _ _ _ _ Hn'). rewrite <- Hsh in Hnd.
  destruct (mapM_In _ _ _ fd Hm Hin) as (e & He & Hie).
  apply bind_ok in He as (v & Hv & He). injection He as <-.
  unfold init_slot, default_value in Hv. cbn [get_slot]. split.
  - intros c Hc. rewrite Hc in Hv. apply bind_ok in Hv as (d & Hd & Hv). apply bind_ok in Hd as (w & Hw & Hd).
    injection Hd as <-. injection Hv as <-. exists w. split; [exact Hw|].
    rewrite (find_slot_In fs (fd_id fd) w Hnd Hie). reflexivity.
  - intros Hc. rewrite Hc in Hv. cbn in Hv. injection Hv as <-.
    rewrite (find_slot_In fs (fd_id fd) (zero_slot fd) Hnd Hie). reflexivity.
Qed.

(* InitDefault() on the zero object gives exactly what NewX() gives *)
Lemma init_fields_zero q n p f fds :
  init_fields q n p f fds (map (fun fd => (fd_id fd, zero_slot fd)) fds) =
  mapM (fun fd => v <- init_slot q n p f fd ;; Ok (fd_id fd, v)) fds.
Proof.
  induction fds as [|fd fds IH]; [reflexivity|]. cbn [map init_fields mapM]. rewrite IH. unfold init_slot.
  destruct (default_value q n p f fd) as [[v|]|e]; cbn [bind]; try reflexivity;
    destruct (mapM _ fds); reflexivity.
Qed.

Lemma init_default_on_zero q n p f s :
  init_default q n p f s (zero_struct s) = new_struct q n p f s.
Proof. unfold init_default, zero_struct, new_struct. rewrite init_fields_zero. reflexivity. Qed.

(* InitDefault() on any object: defaults are (re)assigned, nothing else is touched *)
Lemma init_default_slots q n p f fds slots fs :
  init_fields q n p f fds slots = Ok fs ->
  Forall2 (fun fd_slot e =>
             match fd_default (fst fd_slot) with
             | Some c => exists v, eval_top q n p f (fd_type (fst fd_slot)) c = Ok v /\ e = (fd_id (fst fd_slot), v)
             | None => e = snd fd_slot
             end) (combine fds slots) fs.
Proof.
  revert slots fs. induction fds as [|fd fds IH]; intros [|sl slots] fs H; cbn in H; try discriminate.
  - injection H as <-. constructor.
  - apply bind_ok in H as (d & Hd & H). apply bind_ok in H as (rest & Hr & H). injection H as <-.
    cbn [combine]. constructor; [|apply IH; exact Hr]. cbn [fst snd]. unfold default_value in Hd.
    destruct (fd_default fd) as [c|].
    + apply bind_ok in Hd as (v & Hv & Hd). injection Hd as <-. exists v. auto.
    + injection Hd as <-. reflexivity.
Qed.

(* ---------------------------------------------------------------- getters, IsSet *)

Lemma getter_unset_is_default fd dv slot :
  support_isset fd = true -> is_set fd dv slot = false -> getter fd dv slot = default_var fd dv.
Proof. intros Hs Hi. unfold getter. rewrite Hs, Hi. reflexivity. Qed.

Lemma getter_set_is_value fd dv slot :
  support_isset fd = true -> is_set fd dv slot = true ->
  getter fd dv slot = if need_redirect fd && is_base_or_enum (fd_cat fd) then unsome slot else slot.
Proof. intros Hs Hi. unfold getter. rewrite Hs, Hi. reflexivity. Qed.

Lemma getter_plain_field fd dv slot : support_isset fd = false -> getter fd dv slot = slot.
Proof. intros Hs. unfold getter. rewrite Hs. reflexivity. Qed.

(* a value Go compares equal to itself: everything except NaN *)
Definition self_equal (v : cval) : bool :=
  match v with VDbl b => negb (dbl_is_nan b) | VBool _ | VInt _ | VStr _ => true | _ => false end.

Lemma feq_refl b : dbl_is_nan b = false -> feq b b = true.
Proof. intros H. unfold feq. rewrite H. cbn. rewrite Z.eqb_refl. reflexivity. Qed.

Lemma is_set_default_itself fd d :
  is_base_or_enum (fd_cat fd) = true -> self_equal d = true -> is_set fd (Some d) d = false.
Proof.
  intros Hb Hs. unfold is_set. rewrite Hb. destruct (is_binary (fd_cat fd)).
  - rewrite beqb_refl. reflexivity.
  - destruct d; cbn in Hs; try discriminate; cbn [go_neq].
    + rewrite Bool.eqb_reflx. reflexivity.
    + rewrite Z.eqb_refl. reflexivity.
    + apply negb_true_iff in Hs. rewrite feq_refl by assumption. reflexivity.
    + rewrite beqb_refl. reflexivity.
Qed.

Lemma is_set_default_itself_binary fd d :
  is_binary (fd_cat fd) = true -> is_set fd (Some d) d = false.
Proof.
  intros Hb. unfold is_set. replace (is_base_or_enum (fd_cat fd)) with true by (destruct (fd_cat fd); cbn in Hb; try discriminate; reflexivity).
  rewrite Hb, beqb_refl. reflexivity.
Qed.

(* ---------------------------------------------------------------- typing *)

Lemma forallb_impl {A} (f g : A -> bool) l :
  (forall x, In x l -> f x = true -> g x = true) -> forallb f l = true -> forallb g l = true.
Proof.
  induction l as [|x l IH]; intros H Hf; [reflexivity|]. cbn in *. apply andb_true_iff in Hf as [H1 H2].
  rewrite (H x (or_introl eq_refl) H1). cbn. apply IH; [intros; apply H; [right|]; assumption | assumption].
Qed.

Lemma forall2b_impl {A B} (f g : A -> B -> bool) la lb :
  (forall a b, f a b = true -> g a b = true) -> forall2b f la lb = true -> forall2b g la lb = true.
Proof.
  intros H. revert lb. induction la as [|a la IH]; intros [|b lb] Hf; cbn in *; try discriminate; [reflexivity|].
  apply andb_true_iff in Hf as [H1 H2]. rewrite (H _ _ H1). cbn. apply IH. assumption.
Qed.

Lemma slot_ok_mono (ht ht' : ty -> cval -> bool) fd sl :
  (forall t v, ht t v = true -> ht' t v = true) -> slot_ok ht fd sl = true -> slot_ok ht' fd sl = true.
Proof.
  intros H. unfold slot_ok. destruct sl as [b|z|b|s|s|l|kvs|fs| |x]; try (intros Hs; apply andb_true_iff in Hs as [H1 H2];
    rewrite H1; cbn [andb]; apply H; exact H2); try (intros Hs; exact Hs).
  destruct x as [b|z|b|s|s|l|kvs|fs| |y]; try (intros Hs; apply andb_true_iff in Hs as [H1 H2];
    rewrite H1; cbn [andb]; apply H; exact H2).
  destruct y; try (intros Hs; apply andb_true_iff in Hs as [H1 H2]; rewrite H1; cbn [andb]; apply H; exact H2).
  intros _. reflexivity.
Qed.

Lemma has_type_S k : forall p tf t v, has_type k p tf t v = true -> has_type (S k) p tf t v = true.
Proof.
  induction k as [|k IH]; intros p tf t v H; [discriminate|].
  remember (S k) as k1 eqn:Ek. cbn [has_type]. rewrite Ek in H. cbn [has_type] in H.
  destruct (ty_category t); try exact H.
  - (* map *)
    destruct v; try discriminate. destruct kvs as [|kv kvs]; [reflexivity|].
    destruct (ty_key t) as [kt|]; [|discriminate]. destruct (ty_value t) as [vt|]; [|discriminate].
    revert H. apply forallb_impl. intros x _ Hx. apply andb_true_iff in Hx as [H1 H2].
    rewrite (IH _ _ _ _ H1), (IH _ _ _ _ H2). reflexivity.
  - (* list *)
    destruct v; try discriminate. destruct l as [|x l]; [reflexivity|].
    destruct (ty_value t) as [et|]; [|discriminate].
    revert H. apply forallb_impl. intros y _ Hy. apply IH. exact Hy.
  - (* set *)
    destruct v; try discriminate. destruct l as [|x l]; [reflexivity|].
    destruct (ty_value t) as [et|]; [|discriminate].
    revert H. apply forallb_impl. intros y _ Hy. apply IH. exact Hy.
  - destruct v; try discriminate. destruct (get_struct_like p tf t) as [[g s]|]; [|discriminate].
    revert H. apply forall2b_impl. intros fd e He. apply andb_true_iff in He as [H1 H2]. rewrite H1. cbn [andb].
    revert H2. apply slot_ok_mono. intros t' v' Hv. apply IH. exact Hv.
  - destruct v; try discriminate. destruct (get_struct_like p tf t) as [[g s]|]; [|discriminate].
    revert H. apply forall2b_impl. intros fd e He. apply andb_true_iff in He as [H1 H2]. rewrite H1. cbn [andb].
    revert H2. apply slot_ok_mono. intros t' v' Hv. apply IH. exact Hv.
  - destruct v; try discriminate. destruct (get_struct_like p tf t) as [[g s]|]; [|discriminate].
    revert H. apply forall2b_impl. intros fd e He. apply andb_true_iff in He as [H1 H2]. rewrite H1. cbn [andb].
    revert H2. apply slot_ok_mono. intros t' v' Hv. apply IH. exact Hv.
Qed.

Lemma has_type_le k m p tf t v : (k <= m)%nat -> has_type k p tf t v = true -> has_type m p tf t v = true.
Proof. induction 1 as [|m _ IH]; intros H; [exact H | apply has_type_S, IH, H]. Qed.

(* a typed value is a proper Go value: never nil, never a pointer to a base value *)
Definition proper (v : cval) : bool := match v with VNil | VSome _ => false | _ => true end.
Lemma has_type_proper k p tf t v : has_type k p tf t v = true -> proper v = true.
Proof.
  destruct k as [|k]; [discriminate|]. cbn [has_type]. destruct (ty_category t), v; try discriminate; reflexivity.
Qed.

Lemma slot_ok_proper ht fd v :
  proper v = true -> slot_ok ht fd v = negb (need_redirect fd && is_base_or_enum (fd_cat fd)) && ht (fd_type fd) v.
Proof. destruct v; cbn; try discriminate; reflexivity. Qed.

(* a common fuel for finitely many typed values *)
Lemma Forall2_common_fuel {A} (P : A -> cval -> Prop) (ht : nat -> A -> cval -> bool) l vs :
  (forall k a v, ht k a v = true -> ht (S k) a v = true) ->
  Forall2 (fun a v => exists m, ht m a v = true) l vs ->
  exists m, Forall2 (fun a v => ht m a v = true) l vs.
Proof.
  intros Hmono H. induction H as [|a v l vs [m Hm] _ [m' IH]]; [exists O; constructor|].
  assert (Hle : forall k j a v, (k <= j)%nat -> ht k a v = true -> ht j a v = true).
  { intros k j a0 v0 Hkj. induction Hkj; [auto | intros; apply Hmono; auto]. }
  exists (Nat.max m m'). constructor.
  - apply (Hle m); [apply Nat.le_max_l | exact Hm].
  - revert IH. apply Forall2_impl. intros a0 v0 H0. apply (Hle m'); [apply Nat.le_max_r | exact H0].
Qed.

Lemma zero_slot_ok ht fd :
  (forall t, ht t (zero_plain (ty_category t)) = true \/ zero_plain (ty_category t) = VNil) ->
  slot_ok ht fd (zero_slot fd) = true.
Proof.
  intros H. unfold zero_slot. destruct (need_redirect fd) eqn:Hn; [cbn; rewrite Hn; reflexivity|].
  destruct (H (fd_type fd)) as [Hz|Hz].
  - unfold fd_cat. destruct (zero_plain (ty_category (fd_type fd))) eqn:E; cbn; rewrite ?Hn; cbn; try exact Hz.
    + (* VNil *) unfold fd_cat. destruct (ty_category (fd_type fd)); cbn in E; try discriminate; reflexivity.
    + destruct (ty_category (fd_type fd)); cbn in E; discriminate.
  - unfold fd_cat. rewrite Hz. cbn. rewrite Hn. cbn.
    unfold fd_cat. destruct (ty_category (fd_type fd)); cbn in Hz; try discriminate; reflexivity.
Qed.

Lemma has_type_zero_plain k p tf t :
  has_type (S k) p tf t (zero_plain (ty_category t)) = true \/ zero_plain (ty_category t) = VNil.
Proof. cbn [has_type]. destruct (ty_category t); cbn; auto. Qed.

Lemma collapse_empty_forallb (f : cval * cval -> bool) kvs :
  forallb f kvs = true -> forallb f (collapse_empty kvs) = true.
Proof.
  induction kvs as [|kv r IH]; intros H; [reflexivity|]. cbn in H. apply andb_true_iff in H as [H1 H2].
  cbn [collapse_empty]. destruct (is_empty_struct (fst kv) && existsb _ r); [auto|]. cbn. rewrite H1. auto.
Qed.

Lemma expect_typed k p tf t v w :
  value_category (ty_category t) = true -> expect k p tf t v = Ok w -> exists m, has_type m p tf t w = true.
Proof.
  intros Hv. unfold expect.
  destruct (ty_category t) eqn:E; cbn in Hv; try discriminate;
    try (destruct (has_type k p tf t v) eqn:Hh; [intros [= <-]; exists k; exact Hh | discriminate]);
    destruct v; try discriminate.
  all: try (intros [= <-]; exists 1%nat; cbn [has_type]; rewrite E; reflexivity).
  all: destruct (in_int_range _ z) eqn:Hr; try discriminate; intros [= <-]; exists 1%nat; cbn [has_type]; rewrite E; exact Hr.
Qed.

Lemma empty_container_typed p tf t :
  is_container_category (ty_category t) = true -> has_type 1 p tf t (empty_container (ty_category t)) = true.
Proof. cbn [has_type]. destruct (ty_category t); cbn; try discriminate; reflexivity. Qed.

Lemma mention_slot_ok ht fd c v sl :
  mention_slot fd c v = Ok sl -> proper v = true -> ht (fd_type fd) v = true -> slot_ok ht fd sl = true.
Proof.
  unfold mention_slot. intros H Hp Hv. destruct (need_redirect fd) eqn:Hn.
  - destruct (is_base_category (fd_cat fd)) eqn:Hb.
    + injection H as <-. cbn [slot_ok]. rewrite Hn.
      replace (is_base_or_enum (fd_cat fd)) with true by (unfold is_base_or_enum; rewrite Hb; reflexivity).
      destruct v; cbn in Hp; try discriminate; cbn; exact Hv.
    + destruct (is_struct_like_category (fd_cat fd)) eqn:Hs; [|discriminate].
      destruct c; try discriminate. injection H as <-. rewrite slot_ok_proper by assumption. rewrite Hv.
      replace (is_base_or_enum (fd_cat fd)) with false; [rewrite andb_false_r; reflexivity|].
      destruct (fd_cat fd); cbn in Hs; try discriminate; reflexivity.
  - injection H as <-. rewrite slot_ok_proper by assumption. rewrite Hn, Hv. reflexivity.
Qed.

Lemma struct_slots_typed q k p vf g s l fs :
  (forall t c v, eval q k p vf g t c = Ok v -> exists m, has_type m p g t v = true) ->
  struct_slots q (eval q k p vf g) s l = Ok fs ->
  exists m, forall2b (fun fd e => (fst e =? fd_id fd) && slot_ok (has_type m p g) fd (snd e)) (sl_fields s) fs = true.
Proof.
  intros IH H. unfold struct_slots in H. destruct (negb (keys_ok s l)); [discriminate|]. apply mapM_ok in H.
  assert (Hex : Forall2 (fun fd e => exists m, (fun m fd e => (fst e =? fd_id fd) && slot_ok (has_type m p g) fd (snd e)) m fd e = true)
                        (sl_fields s) fs).
  { revert H. apply Forall2_impl. intros fd e He. destruct (filter (key_names fd) l) as [|kv [|? ?]]; try discriminate.
    - injection He as <-. cbn [fst snd]. rewrite Z.eqb_refl. cbn [andb]. destruct (q_unmentioned_any q).
      + exists O. reflexivity.
      + exists 1%nat. apply zero_slot_ok. intros t. apply has_type_zero_plain.
    - apply bind_ok in He as (v & Hv & He). apply bind_ok in He as (sl & Hsl & He). injection He as <-. cbn [fst snd].
      rewrite Z.eqb_refl. cbn [andb]. destruct (IH _ _ _ Hv) as [m Hm]. exists m.
      eapply mention_slot_ok; [exact Hsl | eapply has_type_proper; exact Hm | exact Hm]. }
  clear H. induction Hex as [|fd e fds fs [m Hm] _ [m' IH']]; [exists O; reflexivity|].
  exists (Nat.max m m'). cbn [forall2b].
  assert (Hmono : forall a b fd e, (a <= b)%nat -> (fst e =? fd_id fd) && slot_ok (has_type a p g) fd (snd e) = true ->
                                   (fst e =? fd_id fd) && slot_ok (has_type b p g) fd (snd e) = true).
  { intros a b fd0 e0 Hab H0. apply andb_true_iff in H0 as [H1 H2]. rewrite H1. cbn [andb]. revert H2. apply slot_ok_mono.
    intros t v. apply has_type_le. exact Hab. }
  rewrite (Hmono m _ fd e (Nat.le_max_l _ _) Hm). cbn [andb].
  revert IH'. apply forall2b_impl. intros fd0 e0. apply Hmono. apply Nat.le_max_r.
Qed.

(* every value the evaluator produces is a Go value of the declared type *)
Lemma eval_typed q n : forall p vf tf t c v,
  eval q n p vf tf t c = Ok v -> exists m, has_type m p tf t v = true.
Proof.
  induction n as [|k IH]; intros p vf tf t c v H; [discriminate|].
  cbn [eval] in H. destruct (value_category (ty_category t)) eqn:Hvc; [|discriminate]. cbn [negb] in H.
  destruct c as [b|z|s|s extra|l|l].
  - (* double *)
    destruct (ty_category t) eqn:E; try discriminate.
    + injection H as <-. exists 1%nat. cbn [has_type]. rewrite E. reflexivity.
    + unfold go_double in H. destruct (negb (dbl_finite (Z.of_N b))); [discriminate|].
      exists 1%nat. cbn [has_type]. rewrite E. destruct (q_negzero_lost q && dbl_is_zero (Z.of_N b)); injection H as <-; reflexivity.
    + destruct (q_fault_tolerant q); [|discriminate]. injection H as <-. exists 1%nat. cbn [has_type]. rewrite E. reflexivity.
    + destruct (q_fault_tolerant q); [|discriminate]. injection H as <-. exists 1%nat. cbn [has_type]. rewrite E. reflexivity.
    + destruct (q_fault_tolerant q); [|discriminate]. injection H as <-. exists 1%nat. cbn [has_type]. rewrite E. reflexivity.
  - (* int *)
    destruct (ty_category t) eqn:E; try discriminate;
      try (injection H as <-; exists 1%nat; cbn [has_type]; rewrite E; reflexivity);
      try (destruct (in_int_range _ z) eqn:Hr; [|discriminate]; injection H as <-; exists 1%nat; cbn [has_type]; rewrite E; exact Hr);
      try (destruct (q_fault_tolerant q); [|discriminate]; injection H as <-; exists 1%nat; cbn [has_type]; rewrite E; reflexivity).
  - (* literal *)
    destruct (ty_category t) eqn:E; try discriminate;
      try (apply bind_ok in H as (b & _ & H); injection H as <-; exists 1%nat; cbn [has_type]; rewrite E; reflexivity);
      try (destruct (q_fault_tolerant q); [|discriminate]; injection H as <-; exists 1%nat; cbn [has_type]; rewrite E; reflexivity).
  - (* identifier *)
    destruct (bool_word (ty_category t) s) as [r|] eqn:Hb.
    + subst r. unfold bool_word in Hb. destruct (is_true s || is_false s); [|discriminate].
      exists 1%nat. cbn [has_type]. destruct (ty_category t); try discriminate; injection Hb as <-; try reflexivity;
        destruct (is_true s); reflexivity.
    + destruct extra as [ex|]; [|discriminate]. destruct (denotes p vf ex) as [d|e] eqn:Hd.
      * apply bind_ok in H as (w & _ & H). eapply expect_typed; eassumption.
      * destruct e; try discriminate. destruct (is_container_category (ty_category t)) eqn:Hc; [|discriminate].
        destruct (q_fault_tolerant q); [|discriminate]. injection H as <-. exists 1%nat. apply empty_container_typed. exact Hc.
  - (* list literal *)
    assert (Hlist : (ty_category t = CatList \/ ty_category t = CatSet) ->
              match l with [] => Ok (VList []) | _ => match ty_value t with Some et => vs <- mapM (eval q k p vf tf et) l ;; Ok (VList vs) | None => Error EInternal end end = Ok v ->
              exists m, has_type m p tf t v = true).
    { intros Hcat Hl. destruct l as [|c0 l0].
      - injection Hl as <-. exists 1%nat. cbn [has_type]. destruct Hcat as [-> | ->]; reflexivity.
      - destruct (ty_value t) as [et|] eqn:Hev; [|discriminate]. apply bind_ok in Hl as (vs & Hm & Hl). injection Hl as <-.
        apply mapM_ok in Hm.
        assert (Hex : Forall2 (fun (c : const_value) v => exists m, has_type m p tf et v = true) (c0 :: l0) vs).
        { revert Hm. apply Forall2_impl. intros c1 v1 H1. eapply IH. exact H1. }
        apply (Forall2_common_fuel (fun _ _ => True) (fun m (_ : const_value) v => has_type m p tf et v)) in Hex;
          [|intros; apply has_type_S; assumption].
        destruct Hex as [m Hm']. exists (S m). cbn [has_type].
        assert (Hall : forallb (has_type m p tf et) vs = true).
        { clear -Hm'. induction Hm'; [reflexivity|]. cbn. rewrite H. exact IHHm'. }
        destruct vs as [|v0 vs]; [destruct Hcat as [-> | ->]; reflexivity|]. rewrite Hev.
        destruct Hcat as [-> | ->]; exact Hall. }
    destruct (ty_category t) eqn:E; try discriminate.
    + destruct (q_fault_tolerant q); [|discriminate]. injection H as <-. exists 1%nat. cbn [has_type]. rewrite E. reflexivity.
    + apply Hlist; auto.
    + apply Hlist; auto.
  - (* map literal: a map or a struct-like *)
    destruct (ty_category t) eqn:E; try discriminate.
    + (* map *)
      destruct l as [|kv0 l0]; [injection H as <-; exists 1%nat; cbn [has_type]; rewrite E; reflexivity|].
      destruct (ty_key t) as [kt|] eqn:Hk; [|discriminate]. destruct (ty_value t) as [vt|] eqn:Hv; [|discriminate].
      apply bind_ok in H as (kvs & Hm & H). injection H as <-. apply mapM_ok in Hm.
      assert (Hex : Forall2 (fun (_ : const_value * const_value) ab =>
                     exists m, (fun m ab => has_type m p tf (bin2str kt) (fst ab) && has_type m p tf vt (snd ab)) m ab = true) (kv0 :: l0) kvs).
      { revert Hm. apply Forall2_impl. intros kv ab Hab. apply bind_ok in Hab as (a & Ha & Hab). apply bind_ok in Hab as (b & Hb & Hab).
        injection Hab as <-. cbn [fst snd]. destruct (IH _ _ _ _ _ _ Ha) as [m1 H1]. destruct (IH _ _ _ _ _ _ Hb) as [m2 H2].
        exists (Nat.max m1 m2). rewrite (has_type_le m1 _ _ _ _ _ (Nat.le_max_l _ _) H1), (has_type_le m2 _ _ _ _ _ (Nat.le_max_r _ _) H2). reflexivity. }
      assert (Hc : exists m, forallb (fun ab => has_type m p tf (bin2str kt) (fst ab) && has_type m p tf vt (snd ab)) kvs = true).
      { clear -Hex. induction Hex as [|x ab l kvs [m Hm] _ [m' IH]]; [exists O; reflexivity|].
        exists (Nat.max m m'). cbn [forallb]. apply andb_true_iff in Hm as [H1 H2].
        rewrite (has_type_le m _ _ _ _ _ (Nat.le_max_l _ _) H1), (has_type_le m _ _ _ _ _ (Nat.le_max_l _ _) H2). cbn [andb].
        revert IH. apply forallb_impl. intros y _ Hy. apply andb_true_iff in Hy as [H3 H4].
        rewrite (has_type_le m' _ _ _ _ _ (Nat.le_max_r _ _) H3), (has_type_le m' _ _ _ _ _ (Nat.le_max_r _ _) H4). reflexivity. }
      destruct Hc as [m Hc]. exists (S m). cbn [has_type]. rewrite E.
      apply collapse_empty_forallb in Hc. destruct (collapse_empty kvs) as [|x r]; [reflexivity|]. rewrite Hk, Hv. exact Hc.
    + destruct (q_fault_tolerant q); [|discriminate]. injection H as <-. exists 1%nat. cbn [has_type]. rewrite E. reflexivity.
    + destruct (q_fault_tolerant q); [|discriminate]. injection H as <-. exists 1%nat. cbn [has_type]. rewrite E. reflexivity.
    + apply bind_ok in H as ([g sl] & Hg & H). cbn [fst snd] in H. apply bind_ok in H as (fs & Hs & H). injection H as <-.
      destruct (struct_slots_typed q k p vf g sl l fs (fun t0 c0 v0 H0 => IH p vf g t0 c0 v0 H0) Hs) as [m Hm].
      exists (S m). cbn [has_type]. rewrite E, Hg. exact Hm.
    + apply bind_ok in H as ([g sl] & Hg & H). cbn [fst snd] in H. apply bind_ok in H as (fs & Hs & H). injection H as <-.
      destruct (struct_slots_typed q k p vf g sl l fs (fun t0 c0 v0 H0 => IH p vf g t0 c0 v0 H0) Hs) as [m Hm].
      exists (S m). cbn [has_type]. rewrite E, Hg. exact Hm.
    + apply bind_ok in H as ([g sl] & Hg & H). cbn [fst snd] in H. apply bind_ok in H as (fs & Hs & H). injection H as <-.
      destruct (struct_slots_typed q k p vf g sl l fs (fun t0 c0 v0 H0 => IH p vf g t0 c0 v0 H0) Hs) as [m Hm].
      exists (S m). cbn [has_type]. rewrite E, Hg. exact Hm.
Qed.

(* ---------------------------------------------------------------- IsSet of a field that differs *)

Definition base_scalar (c : category) : bool := is_base_or_enum c && negb (is_binary c).

(* an optional scalar field with a declared default d that holds a value Go's "!=" tells
   apart from d reports itself as set *)
Lemma isset_when_differs fd d v :
  base_scalar (fd_cat fd) = true -> go_neq v d = true -> is_set fd (Some d) v = true.
Proof.
  unfold base_scalar. intros Hb Hn. apply andb_true_iff in Hb as [Hb Hnb]. apply negb_true_iff in Hnb.
  unfold is_set. rewrite Hb, Hnb. exact Hn.
Qed.

Lemma isset_when_differs_binary fd d v :
  is_binary (fd_cat fd) = true -> bin_bytes v <> bin_bytes d -> is_set fd (Some d) v = true.
Proof.
  intros Hb Hn. unfold is_set.
  replace (is_base_or_enum (fd_cat fd)) with true by (destruct (fd_cat fd); cbn in Hb; try discriminate; reflexivity).
  rewrite Hb. apply negb_true_iff. apply beqb_false. exact Hn.
Qed.

(* containers, struct-likes, and every optional field without a default: set = not nil *)
Lemma isset_pointer fd dv v :
  (dv = None \/ is_base_or_enum (fd_cat fd) = false) -> is_set fd dv v = negb (is_nil v).
Proof. intros [-> | H]; unfold is_set; [reflexivity|]. destruct dv; [rewrite H|]; reflexivity. Qed.

(* go_neq is what it says for the scalar representations *)
Lemma go_neq_int a b : go_neq (VInt a) (VInt b) = true <-> a <> b.
Proof. cbn. rewrite negb_true_iff. apply Z.eqb_neq. Qed.
Lemma go_neq_bool a b : go_neq (VBool a) (VBool b) = true <-> a <> b.
Proof. cbn. rewrite negb_true_iff. destruct a, b; cbn; split; congruence. Qed.
Lemma go_neq_str a b : go_neq (VStr a) (VStr b) = true <-> a <> b.
Proof. cbn. rewrite negb_true_iff. apply beqb_false. Qed.

(* storing into a slot *)
Lemma get_set_slot fs id v :
  In id (map fst fs) -> get_slot (set_slot (VStruct fs) id v) id = Some v.
Proof.
  cbn [set_slot get_slot]. induction fs as [|[i w] fs IH]; intros Hin; [contradiction|]. cbn [set_slot_in fst].
  destruct (i =? id) eqn:E.
  - cbn [find fst]. rewrite Z.eqb_refl. reflexivity.
  - cbn [find fst]. rewrite E. apply IH. destruct Hin as [Heq|Hin]; [cbn in Heq; apply Z.eqb_neq in E; congruence | exact Hin].
Qed.

(* the property's sentence, on an object: store a value that differs from the declared
   default into an optional scalar field; the field then reports itself as set and its getter
   returns the stored value *)
Lemma isset_after_set fs fd d v slot :
  is_optional fd = true -> base_scalar (fd_cat fd) = true -> fd_default fd <> None ->
  In (fd_id fd) (map fst fs) -> go_neq v d = true ->
  get_slot (set_slot (VStruct fs) (fd_id fd) v) (fd_id fd) = Some slot ->
  is_set fd (Some d) slot = true /\ getter fd (Some d) slot = v.
Proof.
  intros Ho Hb Hd Hin Hn Hg. rewrite get_set_slot in Hg by assumption. injection Hg as <-.
  assert (Hs := isset_when_differs fd d v Hb Hn). split; [exact Hs|].
  unfold getter, support_isset. rewrite Ho, orb_true_r, Hs.
  replace (need_redirect fd) with false; [reflexivity|].
  unfold need_redirect. unfold base_scalar in Hb. apply andb_true_iff in Hb as [Hb _].
  replace (is_struct_like_category (fd_cat fd)) with false by (destruct (fd_cat fd); cbn in Hb; try discriminate; reflexivity).
  replace (has_default fd) with true by (unfold has_default; destruct (fd_default fd); congruence).
  rewrite Ho. reflexivity.
Qed.

(* the getter of an optional field of a freshly constructed struct returns the declared default *)
Lemma getter_new_struct_default q n p f s x fd c :
  new_struct q n p f s = Ok x -> NoDup (map fd_id (sl_fields s)) -> In fd (sl_fields s) ->
  is_optional fd = true -> fd_default fd = Some c ->
  exists v, eval_top q n p f (fd_type fd) c = Ok v /\ get_slot x (fd_id fd) = Some v /\
            (base_scalar (fd_cat fd) = true -> self_equal v = true -> getter fd (Some v) v = v).
Proof.
  intros Hn Hnd Hin Ho Hc. destruct (new_struct_defaults q n p f s x fd Hn Hnd Hin) as [H1 _].
  destruct (H1 c Hc) as (v & Hv & Hg). exists v. split; [exact Hv|]. split; [exact Hg|].
  intros Hb Hs. unfold base_scalar in Hb. apply andb_true_iff in Hb as [Hb _].
  rewrite getter_unset_is_default; [reflexivity | unfold support_isset; rewrite Ho; apply orb_true_r |].
  apply is_set_default_itself; assumption.
Qed.

(* ---------------------------------------------------------------- kind mismatches *)

(* which kinds of initializer a scalar or struct-like position admits *)
Definition kind_ok (cat : category) (c : const_value) : bool :=
  match c with
  | CInt _ => match cat with CatBool | CatByte | CatI16 | CatI32 | CatI64 | CatDouble | CatEnum => true | _ => false end
  | CDouble _ => match cat with CatBool | CatDouble => true | _ => false end
  | CLiteral _ => match cat with CatString | CatBinary => true | _ => false end
  | CIdent s _ => negb ((is_true s || is_false s) && match cat with CatString | CatBinary => true | _ => false end)
  | CList _ => false
  | CMap _ => is_struct_like_category cat
  end.

Definition scalar_or_struct (c : category) : bool :=
  is_base_category c || is_struct_like_category c || match c with CatEnum => true | _ => false end.

Lemma kind_mismatch_is_error q n p vf tf t c :
  scalar_or_struct (ty_category t) = true -> kind_ok (ty_category t) c = false ->
  eval q (S n) p vf tf t c = Error EKind.
Proof.
  intros Hs Hk. cbn [eval].
  destruct (ty_category t) eqn:E; cbn in Hs; try discriminate; destruct c; cbn in Hk; try discriminate; try reflexivity.
  all: try (rewrite andb_false_r in Hk; discriminate).
  all: unfold bool_word; cbn [negb value_category is_base_category is_container_category is_struct_like_category category_code orb andb N.leb];
    apply negb_false_iff in Hk; try rewrite andb_true_r in Hk; rewrite Hk; reflexivity.
Qed.

(* a struct literal must name fields, each at most once, with literal keys *)
Lemma struct_literal_bad_key q n p vf tf t l g s :
  is_struct_like_category (ty_category t) = true -> get_struct_like p tf t = Ok (g, s) ->
  keys_ok s l = false -> eval q (S n) p vf tf t (CMap l) = Error EField.
Proof.
  intros Hc Hg Hk. rewrite eval_struct_literal by assumption. rewrite Hg. cbn [bind fst snd].
  unfold struct_slots. rewrite Hk. reflexivity.
Qed.

(* a field that the Go struct stores by pointer cannot be given by an identifier (struct-like)
   or at all (optional enum without default): the emitted address-of does not compile *)
Lemma mention_slot_addr fd c v :
  need_redirect fd = true -> is_base_category (fd_cat fd) = false ->
  match c with CMap _ => is_struct_like_category (fd_cat fd) = false | _ => True end ->
  mention_slot fd c v = Error EAddr.
Proof.
  intros Hn Hb Hc. unfold mention_slot. rewrite Hn, Hb. destruct (is_struct_like_category (fd_cat fd)); [|reflexivity].
  destruct c; try reflexivity. discriminate.
Qed.

(* an enum member written through a typedef of the enum is refused (the semantic pass accepts
   it): the selector is not an enum of the scope *)
Lemma enum_via_typedef_is_error q n p vf tf t s ex g :
  ty_category t = CatEnum -> ex_is_enum ex = true -> hop p vf (ex_index ex) = Ok g ->
  find_enum g (ex_sel ex) = None ->
  eval q (S n) p vf tf t (CIdent s (Some ex)) = Error EUndefined.
Proof.
  intros Hc He Hh Hf. cbn [eval]. rewrite Hc.
  cbn [negb value_category is_base_category is_container_category is_struct_like_category category_code orb andb N.leb].
  replace (bool_word CatEnum s) with (@None (result cval)) by (unfold bool_word; destruct (is_true s || is_false s); reflexivity).
  unfold denotes. rewrite Hh. cbn [bind]. rewrite He, Hf. reflexivity.
Qed.

(* a non-empty literal for a typedef'd container: the backend dereferences the missing element type *)
Lemma typedef_container_is_error q n p vf tf t c l :
  (ty_category t = CatList \/ ty_category t = CatSet) -> ty_value t = None ->
  eval q (S n) p vf tf t (CList (c :: l)) = Error EInternal.
Proof. intros [Hc|Hc] Hv; cbn [eval]; rewrite Hc, Hv; reflexivity. Qed.

(* ---------------------------------------------------------------- the two readings *)

(* the generator's reading and the IDL's reading of a double differ exactly on -0.0 *)
Definition neg_zero : N := 9223372036854775808.
Definition double_ty : ty := Ty (B "double") None None [] [] CatDouble None None.

Lemma eval_negative_zero_refuted :
  exists f c, eval_top go_rules 1 [] f double_ty c = Ok (VDbl 0) /\
              eval_top idl_rules 1 [] f double_ty c = Ok (VDbl two63) /\ two63 <> 0.
Proof. exists (empty_file []), (CDouble neg_zero). split; [vm_compute; reflexivity|]. split; [vm_compute; reflexivity | discriminate]. Qed.

(* everywhere else the two readings of a scalar initializer coincide *)
Lemma go_double_agree b : dbl_is_zero b = false -> go_double go_rules b = go_double idl_rules b.
Proof. intros H. unfold go_double, go_rules, idl_rules. cbn [q_negzero_lost andb]. rewrite H. destruct (negb (dbl_finite b)); reflexivity. Qed.

(* fields a struct literal does not mention are Go zero, NOT the field's declared default *)
Definition lit_field (d : option const_value) : field := Field 1 (B "a") ReqDefault (Ty (B "i32") None None [] [] CatI32 None None) d [] [].
Definition lit_file : file :=
  File (B "m.thrift") [] [] [] [] [] [] [StructLike SKStruct (B "S") [lit_field (Some (CInt 7))] [] []] [] [] []
       (Some [(B "S", CatStruct)]).
Definition lit_ty : ty := Ty (B "S") None None [] [] CatStruct None None.

Lemma struct_literal_unmentioned_is_zero_not_default :
  eval_top go_rules 3 [(B "m.thrift", lit_file)] lit_file lit_ty (CMap []) = Ok (VStruct [(1, VInt 0)]) /\
  new_struct go_rules 3 [(B "m.thrift", lit_file)] lit_file (StructLike SKStruct (B "S") [lit_field (Some (CInt 7))] [] [])
  = Ok (VStruct [(1, VInt 7)]).
Proof. split; vm_compute; reflexivity. Qed.
