(* Wire/UnknownFacts.v — the keep_unknown_fields theorems (Wire/Unknown.v: from_wk, to_wk, chain).

     keep_roundtrip_w      new writes, old (keep) reads and re-writes, new reads: the value comes back
                           (for a value of any type, by induction on the value)
     keep_roundtrip        the same at top level, with NewX() objects
     keep_rewrite_errors   the only errors the old code's Write can end in
     chain_any_length      any number of rounds new -> old(keep) -> new
     carrying_after_read   CarryingUnknownFields() after Read = the input had a field the schema
                           does not declare                                                      *)
From Coq Require Import List ZArith Bool Lia.
From Coq.Strings Require Import Byte.
From Verif Require Import Base.Bytes Base.BE Wire.TType Wire.WVal Wire.Codec Wire.CodecFacts Wire.Schema Wire.Value
  Wire.GenTables Wire.Std Wire.StdFacts Wire.Unknown Wire.UnknownDomain Wire.UnknownCodecFacts Wire.UnknownEvoFacts Wire.UnknownReadFacts.
Import ListNotations.
Open Scope Z_scope.

(* ------------------------------------------------------------------ generic list facts *)

Lemma Forall2_chain3 {A B C D} (R1 : A -> B -> Prop) (R2 : B -> C -> Prop) (R3 : C -> D -> Prop) (S : A -> D -> Prop)
  (P : A -> Prop) l ws xs ys :
  Forall P l -> Forall2 R1 l ws -> Forall2 R2 ws xs -> Forall2 R3 xs ys ->
  (forall a b c d, P a -> R1 a b -> R2 b c -> R3 c d -> S a d) -> Forall2 S l ys.
Proof.
  intros HP H1. revert HP xs ys. induction H1 as [|a b l ws Hab H1 IH]; intros HP xs ys H2 H3 H.
  - inversion H2; subst. inversion H3; subst. constructor.
  - inversion H2 as [|? c ? xs' Hbc H2']; subst. inversion H3 as [|? d ? ys' Hcd H3']; subst.
    inversion HP as [|? ? Pa HP']; subst.
    constructor; [eapply H; eauto | eapply IH; eauto].
Qed.

Lemma Forall2_mapM {A B C} (g : B -> result C) (h : A -> C) l ys :
  Forall2 (fun v y => g y = Ok (h v)) l ys -> mapM g ys = Ok (map h l).
Proof. induction 1 as [|v y l ys Hvy _ IH]; cbn; [reflexivity|]. rewrite Hvy, IH. reflexivity. Qed.

Lemma Forall2_map_l {A B C} (f : A -> B) (R : B -> C -> Prop) l ys :
  Forall2 (fun a c => R (f a) c) l ys -> Forall2 R (map f l) ys.
Proof. induction 1; cbn; constructor; assumption. Qed.

(* ------------------------------------------------------------------ map keys without collisions *)

Lemma feq_sym a b : feq a b = feq b a.
Proof. unfold feq. rewrite (orb_comm (dbl_is_nan a)), (Z.eqb_sym a b), (andb_comm (dbl_is_zero a)). reflexivity. Qed.

Lemma go_key_eq_sym a b : go_key_eq a b = go_key_eq b a.
Proof.
  destruct a, b; cbn [go_key_eq]; try reflexivity.
  - destruct b, b0; reflexivity.
  - apply Z.eqb_sym.
  - apply feq_sym.
  - apply beqb_sym.
  - apply beqb_sym.
Qed.

Lemma map_insert_fresh k v m :
  existsb (fun kv => go_key_eq k (fst kv)) m = false -> map_insert k v m = m ++ [(k, v)].
Proof.
  induction m as [|[k' v'] m IH]; cbn [existsb map_insert fst app]; [reflexivity|].
  intro H. apply orb_false_iff in H. destruct H as [H1 H2]. rewrite H1, IH by assumption. reflexivity.
Qed.

Lemma map_build_nodup l : has_dup go_key_eq (map fst l) = false -> map_build l = l.
Proof.
  unfold map_build. intro H.
  assert (G : forall m, has_dup go_key_eq (map fst (m ++ l)) = false ->
                        fold_left (fun m kv => map_insert (fst kv) (snd kv) m) l m = m ++ l).
  { clear H. induction l as [|[k v] l IH]; intros m H; cbn [fold_left fst snd]; [rewrite app_nil_r; reflexivity|].
    rewrite map_insert_fresh.
    - rewrite IH; rewrite <- app_assoc; [reflexivity | exact H].
    - (* k is later than every key of m *)
      clear IH. induction m as [|[k' v'] m IHm]; [reflexivity|]. cbn [existsb fst].
      cbn [app map has_dup fst] in H. apply orb_false_iff in H. destruct H as [H1 H2].
      rewrite IHm by assumption. rewrite orb_false_r.
      rewrite go_key_eq_sym. rewrite map_app in H1. rewrite existsb_app in H1. apply orb_false_iff in H1.
      destruct H1 as [_ H1]. cbn [map existsb fst] in H1. apply orb_false_iff in H1. apply H1. }
  apply (G []). exact H.
Qed.

Lemma has_dup_keyrep (l l' : list value) :
  Forall2 (fun a b => keyrep a = keyrep b) l l' -> has_dup go_key_eq l = has_dup go_key_eq l'.
Proof.
  induction 1 as [|a b l l' Hab Hl IH]; [reflexivity|]. cbn [has_dup]. rewrite IH. f_equal.
  clear IH. induction Hl as [|c d l l' Hcd _ IH2]; [reflexivity|]. cbn [existsb]. rewrite IH2. f_equal.
  rewrite (go_key_eq_keyrep a c), (go_key_eq_keyrep b d), Hab, Hcd. reflexivity.
Qed.

(* ------------------------------------------------------------------ what a reader returns is never nil *)

Lemma from_wk_is_nil e t w x : from_wk e t w = KOk x -> is_nil x = false.
Proof.
  destruct w.
  - cbn [from_wk]. destruct t; try discriminate. cbn. intros [= <-]. reflexivity.
  - cbn [from_wk]. destruct t; try discriminate. cbn. intros [= <-]. reflexivity.
  - cbn [from_wk]. destruct t; try discriminate. cbn. intros [= <-]. reflexivity.
  - cbn [from_wk]. destruct t; try discriminate. cbn. intros [= <-]. reflexivity.
  - cbn [from_wk]. destruct t; try discriminate; cbn; intros [= <-]; reflexivity.
  - cbn [from_wk]. destruct t; try discriminate. cbn. intros [= <-]. reflexivity.
  - cbn [from_wk]. destruct t; try discriminate; cbn; intros [= <-]; reflexivity.
  - destruct t; try discriminate. rewrite from_wk_struct. destruct (find_struct e name); [|discriminate].
    intro H. apply kbind_ok in H. destruct H as (st & _ & H). unfold kfinish_read in H.
    destruct (first_missing (s_fields s) (snd st)); [discriminate|]. injection H as <-. reflexivity.
  - cbn [from_wk]. destruct t; try discriminate.
    destruct ((ttype_eqb kt (ttype_of e t1) && ttype_eqb vt (ttype_of e t2)) || (length kvs =? 0)%nat); [|discriminate].
    intro H. apply kbind_ok in H. destruct H as (xs & _ & H). injection H as <-. reflexivity.
  - cbn [from_wk]. destruct t; try discriminate.
    destruct (ttype_eqb et (ttype_of e t) || (length l =? 0)%nat); [|discriminate].
    intro H. apply kbind_ok in H. destruct H as (xs & _ & H). injection H as <-. reflexivity.
  - cbn [from_wk]. destruct t; try discriminate.
    destruct (ttype_eqb et (ttype_of e t) || (length l =? 0)%nat); [|discriminate].
    intro H. apply kbind_ok in H. destruct H as (xs & _ & H). injection H as <-. reflexivity.
Qed.

(* ------------------------------------------------------------------ what a slot emits *)

Lemma wfield_fn_id e s p wf : wfield_fn e s p = Ok (Some wf) -> wid wf = fst p.
Proof.
  unfold wfield_fn. destruct (find_field (fst p) (s_fields s)) as [f|] eqn:Ef; [|discriminate].
  destruct (find_field_In _ _ _ Ef) as [_ Hid].
  destruct (present f (snd p)); [|discriminate].
  destruct (base_ptr f).
  - destruct (snd p); try discriminate. destruct (to_w e (f_ty f) v); [|discriminate]. cbn. intros [= <-]. exact Hid.
  - destruct (to_w e (f_ty f) (snd p)); [|discriminate]. cbn. intros [= <-]. exact Hid.
Qed.

Lemma kwfield_fn_id e s p wf : kwfield_fn e s p = KOk (Some wf) -> wid wf = fst p.
Proof.
  unfold kwfield_fn. destruct (find_field (fst p) (s_fields s)) as [f|] eqn:Ef; [|discriminate].
  destruct (find_field_In _ _ _ Ef) as [_ Hid].
  destruct (present f (snd p)); [|discriminate].
  destruct (base_ptr f).
  - destruct (snd p); try discriminate. destruct (to_wk e (f_ty f) v); [|discriminate]. cbn. intros [= <-]. exact Hid.
  - destruct (to_wk e (f_ty f) (snd p)); [|discriminate]. cbn. intros [= <-]. exact Hid.
Qed.

(* an emitted field: its payload is the encoding of the slot's content, which is well typed *)
Lemma emitted_payload e s p f wf :
  find_field (fst p) (s_fields s) = Some f -> slot_ok e s p = true -> wfield_fn e s p = Ok (Some wf) ->
  exists sv, snd p = wrap_slot f sv /\
             wt_val e false (f_ty f) sv = true /\
             to_w e (f_ty f) sv = Ok (snd wf) /\
             fst (fst wf) = ttype_of e (f_ty f) /\
             present f (snd p) = true /\
             norm_fn e s p = (fst p, wrap_slot f (norm e (f_ty f) sv)).
Proof.
  intros Ef Hok Hw. unfold wfield_fn in Hw. unfold slot_ok in Hok. unfold norm_fn. rewrite Ef in *.
  destruct (present f (snd p)) eqn:Hp; [|discriminate]. unfold wrap_slot.
  destruct (base_ptr f) eqn:Hb.
  - destruct (snd p) as [| | | | | | | | |sv] eqn:Es; try discriminate.
    destruct (to_w e (f_ty f) sv) as [wx|] eqn:E1; [|discriminate]. injection Hw as <-.
    exists sv. cbn [fst snd]. auto 10.
  - destruct (to_w e (f_ty f) (snd p)) as [wx|] eqn:E1; [|discriminate]. injection Hw as <-.
    exists (snd p). cbn [fst snd]. split; [reflexivity|]. split; [|auto 10].
    destruct (is_optional f && is_nil (snd p)) eqn:Eon; [|exact Hok].
    (* optional, nil, yet present: a binary field with a default *)
    apply andb_true_iff in Eon. destruct Eon as [Ho Hn]. destruct (snd p); try discriminate.
    unfold present, isset in Hp. rewrite Ho in Hp. cbn [negb orb] in Hp.
    destruct (f_default f) as [l|]; [|discriminate].
    destruct (is_base (f_ty f)) eqn:Eb; [|discriminate].
    cbn [negb orb] in Hok. destruct (f_ty f); try discriminate. reflexivity.
Qed.

Lemma not_emitted e s p f :
  find_field (fst p) (s_fields s) = Some f -> wfield_fn e s p = Ok None ->
  present f (snd p) = false /\ is_optional f = true /\ norm_fn e s p = (fst p, init_slot f).
Proof.
  intros Ef Hw. unfold wfield_fn in Hw. unfold norm_fn. rewrite Ef in *.
  destruct (present f (snd p)) eqn:Hp.
  - destruct (base_ptr f).
    + destruct (snd p); try discriminate. destruct (to_w e (f_ty f) v); discriminate.
    + destruct (to_w e (f_ty f) (snd p)); discriminate.
  - split; [reflexivity|]. split; [|reflexivity].
    unfold present in Hp. apply orb_false_iff in Hp. destruct Hp as [Hp _]. apply negb_false_iff in Hp. exact Hp.
Qed.

(* values of base type *)
Definition is_base_value (v : value) : bool :=
  match v with VBool _ | VInt _ | VDbl _ | VStr _ | VBin _ => true | _ => false end.

Lemma wt_base_value e key t v : is_base t = true -> wt_val e key t v = true -> v <> VNil -> is_base_value v = true.
Proof.
  intros Hb Hwt Hn. destruct v; try reflexivity; try (destruct t; discriminate); try congruence.
Qed.

Lemma keyrep_base a b : is_base_value a = true -> is_base_value b = true -> keyrep a = keyrep b -> a = b.
Proof. destruct a, b; cbn; congruence. Qed.

Lemma norm_base_value e t v : is_base_value v = true -> is_base_value (norm e t v) = true.
Proof. destruct v; try discriminate; try reflexivity. cbn [norm]. destruct t; reflexivity. Qed.

Lemma Forall2_comp {A B C} (R1 : A -> B -> Prop) (R2 : B -> C -> Prop) (S : A -> C -> Prop) l ws xs :
  Forall2 R1 l ws -> Forall2 R2 ws xs ->
  (forall a b c, In a l -> R1 a b -> R2 b c -> S a c) -> Forall2 S l xs.
Proof.
  intro H1. revert xs. induction H1 as [|a b l ws Hab H1 IH]; intros xs H2 H.
  - inversion H2; subst. constructor.
  - inversion H2 as [|? c ? xs' Hbc H2']; subst.
    constructor; [apply (H a b c); [left; reflexivity | assumption | assumption]|].
    apply IH; [assumption|]. intros a' b' c' Hin. apply H. right. assumption.
Qed.

(* ------------------------------------------------------------------ exact value equality is sound *)

Lemma value_eqb_eq : forall a b, value_eqb a b = true -> a = b.
Proof.
  fix ind 1. intros a b H. destruct a, b; simpl in H; try discriminate.
  - apply eqb_prop in H. subst. reflexivity.
  - apply Z.eqb_eq in H. subst. reflexivity.
  - apply Z.eqb_eq in H. subst. reflexivity.
  - apply beqb_true in H. subst. reflexivity.
  - apply beqb_true in H. subst. reflexivity.
  - f_equal. revert l0 H. induction l as [|x l IHl]; intros [|y l0] H; try discriminate; [reflexivity|].
    apply andb_true_iff in H. destruct H as [H1 H2]. f_equal; [apply ind; exact H1 | apply IHl; exact H2].
  - f_equal. revert kvs0 H. induction kvs as [|[k x] kvs IHl]; intros [|[k' y] kvs0] H; try discriminate; [reflexivity|].
    apply andb_true_iff in H. destruct H as [H1 H2]. apply andb_true_iff in H1. destruct H1 as [Hk Hx].
    f_equal; [f_equal; apply ind; assumption | apply IHl; exact H2].
  - f_equal. revert fs0 H. induction fs as [|[i x] fs IHl]; intros [|[j y] fs0] H; try discriminate; [reflexivity|].
    apply andb_true_iff in H. destruct H as [H1 H2]. apply andb_true_iff in H1. destruct H1 as [Hi Hx].
    apply Z.eqb_eq in Hi. subst. f_equal; [f_equal; apply ind; assumption | apply IHl; exact H2].
  - reflexivity.
  - f_equal. apply ind. exact H.
Qed.

(* the earlier, stronger schema condition implies the one the theorems use *)
Lemma opt_init_unset_defaults_ok o n : opt_init_unset o = true -> opt_defaults_ok o n = true.
Proof.
  unfold opt_init_unset, opt_defaults_ok. intro H. rewrite forallb_forall in *. intros s Hs.
  specialize (H s Hs). rewrite forallb_forall in *. intros f Hf. unfold default_ok. rewrite (H f Hf). reflexivity.
Qed.

(* ------------------------------------------------------------------ new -> old (keep) -> new *)

Section Keep.
  Variables o n : env.
  Hypothesis Hext : extendsb o n = true.
  Hypothesis Hwfo : wf_env o = true.
  Hypothesis Hwfn : wf_env n = true.
  Hypothesis Hopt : opt_defaults_ok o n = true.

  (* v written by the new code, read by the old code into x: x shows the same map-key behaviour as the
     value the new code would read back, and whatever the old code writes for x, the new code reads as
     that value *)
  Definition K (v : value) : Prop := forall t key w x,
    wt_val n key t v = true -> keepable n t v = true -> closed_ty o t = true ->
    to_w n t v = Ok w -> from_wk o t w = KOk x ->
    keyrep x = keyrep (norm n t v) /\
    forall w', to_wk o t x = KOk w' -> from_w n t w' = Ok (norm n t v).

  Lemma K_base v : is_base_value v = true -> K v.
  Proof.
    intros Hb t key w x Hwt _ _ Hw Hx. destruct v; try discriminate.
    - destruct t; try discriminate. cbn [to_w] in Hw. injection Hw as <-.
      cbn [from_wk lift from_w] in Hx. injection Hx as <-. split; [reflexivity|].
      intros w' Hw'. cbn [to_wk lift to_w] in Hw'. injection Hw' as <-. reflexivity.
    - destruct t; try discriminate; cbn [to_w] in Hw; injection Hw as <-;
        cbn [from_wk lift from_w] in Hx; injection Hx as <-; (split; [reflexivity|]);
        intros w' Hw'; cbn [to_wk lift to_w] in Hw'; injection Hw' as <-; cbn [from_w norm]; try reflexivity.
      unfold wrap32. rewrite wrap_idem by lia. reflexivity.
    - destruct t; try discriminate. cbn [to_w] in Hw. injection Hw as <-.
      cbn [from_wk lift from_w] in Hx. injection Hx as <-. split; [reflexivity|].
      intros w' Hw'. cbn [to_wk lift to_w] in Hw'. injection Hw' as <-. reflexivity.
    - destruct t; try discriminate. cbn [to_w] in Hw. injection Hw as <-.
      cbn [from_wk lift from_w] in Hx. injection Hx as <-. split; [reflexivity|].
      intros w' Hw'. cbn [to_wk lift to_w] in Hw'. injection Hw' as <-. reflexivity.
    - destruct t; try discriminate. cbn [to_w] in Hw. injection Hw as <-.
      cbn [from_wk lift from_w] in Hx. injection Hx as <-. split; [reflexivity|].
      intros w' Hw'. cbn [to_wk lift to_w] in Hw'. injection Hw' as <-. reflexivity.
  Qed.

  Lemma K_nil : K VNil.
  Proof.
    intros t key w x Hwt Hkp Hc Hw Hx. destruct t; try discriminate.
    - (* binary *)
      cbn [to_w] in Hw. injection Hw as <-. cbn [from_wk lift from_w] in Hx. injection Hx as <-.
      split; [reflexivity|]. intros w' Hw'. cbn [to_wk lift to_w] in Hw'. injection Hw' as <-. reflexivity.
    - (* list *)
      cbn [to_w] in Hw. injection Hw as <-. cbn [from_wk length Nat.eqb] in Hx. rewrite orb_true_r in Hx.
      cbn [kmapM kbind] in Hx. injection Hx as <-. split; [reflexivity|].
      intros w' Hw'. cbn [to_wk kmapM kbind] in Hw'. injection Hw' as <-.
      cbn [from_w length Nat.eqb norm]. rewrite orb_true_r. reflexivity.
    - (* set *)
      cbn [to_w] in Hw. injection Hw as <-. cbn [from_wk length Nat.eqb] in Hx. rewrite orb_true_r in Hx.
      cbn [kmapM kbind] in Hx. injection Hx as <-. split; [reflexivity|].
      intros w' Hw'. cbn [to_wk] in Hw'. unfold set_has_dup in Hw'. cbn [has_dup kmapM kbind] in Hw'. injection Hw' as <-.
      cbn [from_w length Nat.eqb norm]. rewrite orb_true_r. reflexivity.
    - (* map *)
      cbn [to_w] in Hw. injection Hw as <-. cbn [from_wk length Nat.eqb] in Hx. rewrite orb_true_r in Hx.
      cbn [kmapM kbind] in Hx. injection Hx as <-. split; [reflexivity|].
      intros w' Hw'. cbn [to_wk map_build fold_left kmapM kbind] in Hw'. injection Hw' as <-.
      cbn [from_w length Nat.eqb norm]. rewrite orb_true_r. reflexivity.
  Qed.

  Lemma K_list l : Forall K l -> K (VList l).
  Proof.
    intros HK t key w x Hwt Hkp Hc Hw Hx. destruct t; try discriminate.
    - (* list *)
      cbn [wt_val] in Hwt. apply andb_true_iff in Hwt. destruct Hwt as [_ Hall].
      rewrite forallb_forall in Hall. cbn [keepable] in Hkp. rewrite forallb_forall in Hkp. cbn [closed_ty] in Hc.
      rewrite Forall_forall in HK.
      cbn [to_w] in Hw. apply bind_ok in Hw. destruct Hw as (ws & Hm & Hw). injection Hw as <-.
      cbn [from_wk] in Hx. rewrite !ttype_of_spec, ttype_eqb_refl in Hx. cbn [orb] in Hx.
      apply kbind_ok in Hx. destruct Hx as (xs & Hmx & Hx). injection Hx as <-.
      split; [reflexivity|]. intros w' Hw'.
      cbn [to_wk] in Hw'. apply kbind_ok in Hw'. destruct Hw' as (ys & Hmy & Hw'). injection Hw' as <-.
      cbn [from_w norm]. rewrite !ttype_of_spec, ttype_eqb_refl. cbn [orb].
      rewrite (Forall2_mapM (from_w n t) (norm n t) l ys); [reflexivity|].
      apply mapM_Forall2 in Hm. apply kmapM_Forall2 in Hmx. apply kmapM_Forall2 in Hmy.
      assert (H1 : Forall2 (fun v c => forall d, to_wk o t c = KOk d -> from_w n t d = Ok (norm n t v)) l xs).
      { apply (Forall2_comp _ _ _ _ _ _ Hm Hmx). intros a b c Hin Hab Hbc.
        apply (HK a Hin t false b c (Hall a Hin) (Hkp a Hin) Hc Hab Hbc). }
      apply (Forall2_comp _ _ _ _ _ _ H1 Hmy). intros a c d _ Hac Hcd. apply Hac. exact Hcd.
    - (* set *)
      cbn [wt_val] in Hwt. apply andb_true_iff in Hwt. destruct Hwt as [Hwt _].
      apply andb_true_iff in Hwt. destruct Hwt as [_ Hall].
      rewrite forallb_forall in Hall. cbn [keepable] in Hkp. rewrite forallb_forall in Hkp. cbn [closed_ty] in Hc.
      rewrite Forall_forall in HK.
      cbn [to_w] in Hw. destruct (set_has_dup l); [discriminate|].
      apply bind_ok in Hw. destruct Hw as (ws & Hm & Hw). injection Hw as <-.
      cbn [from_wk] in Hx. rewrite !ttype_of_spec, ttype_eqb_refl in Hx. cbn [orb] in Hx.
      apply kbind_ok in Hx. destruct Hx as (xs & Hmx & Hx). injection Hx as <-.
      split; [reflexivity|]. intros w' Hw'.
      cbn [to_wk] in Hw'. destruct (set_has_dup xs); [discriminate|].
      apply kbind_ok in Hw'. destruct Hw' as (ys & Hmy & Hw'). injection Hw' as <-.
      cbn [from_w norm]. rewrite !ttype_of_spec, ttype_eqb_refl. cbn [orb].
      rewrite (Forall2_mapM (from_w n t) (norm n t) l ys); [reflexivity|].
      apply mapM_Forall2 in Hm. apply kmapM_Forall2 in Hmx. apply kmapM_Forall2 in Hmy.
      assert (H1 : Forall2 (fun v c => forall d, to_wk o t c = KOk d -> from_w n t d = Ok (norm n t v)) l xs).
      { apply (Forall2_comp _ _ _ _ _ _ Hm Hmx). intros a b c Hin Hab Hbc.
        apply (HK a Hin t false b c (Hall a Hin) (Hkp a Hin) Hc Hab Hbc). }
      apply (Forall2_comp _ _ _ _ _ _ H1 Hmy). intros a c d _ Hac Hcd. apply Hac. exact Hcd.
  Qed.

  Lemma K_map kvs : Forall (fun kv => K (fst kv) /\ K (snd kv)) kvs -> K (VMap kvs).
  Proof.
    intros HK t key w x Hwt Hkp Hc Hw Hx. destruct t as [| | | | | | | | | | | |a b]; try discriminate.
    cbn [wt_val] in Hwt. apply andb_true_iff in Hwt. destruct Hwt as [Hwt _].
    apply andb_true_iff in Hwt. destruct Hwt as [_ Hall]. rewrite forallb_forall in Hall.
    cbn [keepable] in Hkp. apply andb_true_iff in Hkp. destruct Hkp as [Hkp Hkeys].
    rewrite forallb_forall in Hkp. apply negb_true_iff in Hkeys.
    cbn [closed_ty] in Hc. apply andb_true_iff in Hc. destruct Hc as [Hca Hcb].
    rewrite Forall_forall in HK.
    cbn [to_w] in Hw. apply bind_ok in Hw. destruct Hw as (ws & Hm & Hw). injection Hw as <-.
    cbn [from_wk] in Hx. rewrite !ttype_of_spec, !ttype_eqb_refl in Hx. cbn [andb orb] in Hx.
    apply kbind_ok in Hx. destruct Hx as (xs & Hmx & Hx). injection Hx as <-.
    split; [reflexivity|]. intros w' Hw'.
    apply mapM_Forall2 in Hm. apply kmapM_Forall2 in Hmx.
    assert (H1 : Forall2 (fun kv c => keyrep (fst c) = keyrep (norm n a (fst kv)) /\
                    (forall d, to_wk o a (fst c) = KOk d -> from_w n a d = Ok (norm n a (fst kv))) /\
                    (forall d, to_wk o b (snd c) = KOk d -> from_w n b d = Ok (norm n b (snd kv)))) kvs xs).
    { apply (Forall2_comp _ _ _ _ _ _ Hm Hmx). intros kv wkv c Hin Hab Hbc.
      destruct (HK kv Hin) as [Kk Kv]. specialize (Hall kv Hin). apply andb_true_iff in Hall. destruct Hall as [Hwk Hwv].
      specialize (Hkp kv Hin). apply andb_true_iff in Hkp. destruct Hkp as [Hkk Hkv].
      apply bind_ok in Hab. destruct Hab as (wk & Hwk1 & Hab). apply bind_ok in Hab. destruct Hab as (wv & Hwv1 & Hab).
      injection Hab as <-. cbn [fst snd] in Hbc.
      apply kbind_ok in Hbc. destruct Hbc as (xk & Hxk & Hbc). apply kbind_ok in Hbc. destruct Hbc as (xv & Hxv & Hbc).
      injection Hbc as <-. cbn [fst snd].
      destruct (Kk a true wk xk Hwk Hkk Hca Hwk1 Hxk) as [Hrep Hk2].
      destruct (Kv b false wv xv Hwv Hkv Hcb Hwv1 Hxv) as [_ Hv2]. auto. }
    (* no two keys fall together on the old side either *)
    assert (Hnd : map_build xs = xs).
    { apply map_build_nodup. rewrite <- Hkeys. apply has_dup_keyrep.
      clear - H1. induction H1 as [|kv c kvs xs Hc _ IH]; cbn [map]; constructor; [apply Hc | exact IH]. }
    rewrite Hnd in Hw'. cbn [to_wk] in Hw'. apply kbind_ok in Hw'. destruct Hw' as (ys & Hmy & Hw'). injection Hw' as <-.
    apply kmapM_Forall2 in Hmy.
    cbn [from_w norm]. rewrite !ttype_of_spec, !ttype_eqb_refl. cbn [andb orb].
    rewrite (Forall2_mapM (fun kv => bind (from_w n a (fst kv)) (fun k => bind (from_w n b (snd kv)) (fun x => Ok (k, x))))
               (fun kv => (norm n a (fst kv), norm n b (snd kv))) kvs ys); [reflexivity|].
    apply (Forall2_comp _ _ _ _ _ _ H1 Hmy). intros kv c d _ (_ & Hk2 & Hv2) Hcd.
    apply kbind_ok in Hcd. destruct Hcd as (dk & Hdk & Hcd). apply kbind_ok in Hcd. destruct Hcd as (dv & Hdv & Hcd).
    injection Hcd as <-. cbn [fst snd]. rewrite (Hk2 _ Hdk), (Hv2 _ Hdv). reflexivity.
  Qed.

  (* ---- the struct case ---- *)

  Lemma optional_not_required f : is_optional f = true -> is_required f = false.
  Proof. unfold is_optional, is_required. destruct (f_req f); cbn; congruence. Qed.

  Lemma opt_default so nm f : find_struct o nm = Some so -> In f (s_fields so) -> default_ok o n f = true.
  Proof.
    intros Hs Hf. destruct (find_struct_In _ _ _ Hs) as [Hin _].
    unfold opt_defaults_ok in Hopt. rewrite forallb_forall in Hopt. specialize (Hopt so Hin).
    rewrite forallb_forall in Hopt. apply Hopt. exact Hf.
  Qed.

  (* an optional field the new code did not send: either the old code does not write it either, or it
     writes the declared default, which the new code reads back as that default *)
  Lemma opt_default_cases so nm f : find_struct o nm = Some so -> In f (s_fields so) -> is_optional f = true ->
    present f (init_slot f) = false \/
    (present f (init_slot f) = true /\ base_ptr f = false /\
     exists wd, to_wk o (f_ty f) (init_slot f) = KOk wd /\ from_w n (f_ty f) wd = Ok (init_slot f)).
  Proof.
    intros Hs Hf Ho. pose proof (opt_default so nm f Hs Hf) as Hd. unfold default_ok in Hd.
    unfold present. rewrite Ho in *. cbn [negb orb] in *.
    destruct (isset f (init_slot f)) eqn:Ei; [|left; reflexivity]. right. cbn [negb orb] in Hd.
    split; [reflexivity|]. split.
    - destruct (f_default f) as [l|] eqn:Ed.
      + unfold base_ptr, has_default. rewrite Ed, Ho. reflexivity.
      + destruct (base_ptr f) eqn:Eb; [|reflexivity]. exfalso.
        unfold isset, init_slot, zero_slot in Ei. rewrite Ed, Eb in Ei. discriminate.
    - destruct (to_wk o (f_ty f) (init_slot f)) as [wd|]; [|discriminate].
      destruct (from_w n (f_ty f) wd) as [vd|] eqn:Er; [|discriminate]. apply value_eqb_eq in Hd. subst vd.
      exists wd. split; [reflexivity | exact Er].
  Qed.

  Lemma keyrep_eq_base b x : is_base_value b = true -> keyrep x = b -> x = b.
  Proof. intros Hb H. destruct x; cbn [keyrep] in H; subst; try reflexivity; discriminate. Qed.

  Lemma Forall_filter {A} (P : A -> Prop) q l : Forall P l -> Forall P (filter q l).
  Proof. rewrite !Forall_forall. intros H x Hx. apply filter_In in Hx. apply H. apply Hx. Qed.

  Lemma NoDup_app_disjoint {A} (a b : list A) :
    NoDup a -> NoDup b -> (forall x, In x a -> ~ In x b) -> NoDup (a ++ b).
  Proof.
    induction a as [|x a IH]; intros Ha Hb Hd; [exact Hb|]. inversion Ha as [|? ? Hx Ha']; subst.
    cbn [app]. constructor.
    - intro H. apply in_app_or in H. destruct H as [H|H]; [contradiction | apply (Hd x); [left; reflexivity | assumption]].
    - apply IH; [assumption | assumption |]. intros y Hy. apply Hd. right. assumption.
  Qed.

  (* the default of an optional base field: when the old reading no longer differs from it, it IS it *)
  Lemma unset_after_read fn sv xf :
    is_optional fn = true ->
    wt_val n false (f_ty fn) sv = true ->
    keyrep xf = keyrep (norm n (f_ty fn) sv) ->
    is_nil xf = false ->
    present fn (wrap_slot fn sv) = true ->
    present fn (wrap_slot fn xf) = false ->
    init_slot fn = wrap_slot fn (norm n (f_ty fn) sv).
  Proof.
    intros Ho Hwt Hrep Hnil Hpn Hpo. unfold present in *. rewrite Ho in *. cbn [negb orb] in *.
    unfold isset, wrap_slot, init_slot in *. unfold base_ptr in *. rewrite Ho in *. unfold has_default in *.
    destruct (f_default fn) as [l|] eqn:Ed; cbn [negb andb] in *.
    - destruct (is_base (f_ty fn)) eqn:Eb.
      + (* base type with a default *)
        assert (Hx : xf = norm n (f_ty fn) sv).
        { assert (Hbv : is_base_value (norm n (f_ty fn) sv) = true).
          { destruct sv; try (destruct (f_ty fn); discriminate); try reflexivity.
            - cbn [norm]. destruct (f_ty fn); reflexivity.
            - destruct (f_ty fn); try discriminate. reflexivity. }
          apply keyrep_eq_base; [exact Hbv|]. rewrite Hrep.
          destruct (norm n (f_ty fn) sv); try discriminate; reflexivity. }
        subst xf. destruct (f_ty fn) eqn:Ety; try discriminate Eb;
          destruct sv; try discriminate Hwt; cbn [norm base_neq bin_bytes] in *; try congruence.
        (* enum *)
        apply negb_false_iff in Hpo.
        destruct (value_of_lit l); cbn [go_key_eq] in Hpo; try discriminate.
        apply Z.eqb_eq in Hpo. subst. reflexivity.
      + apply negb_false_iff in Hpo. congruence.
    - destruct (is_base (f_ty fn) && negb (is_binary (f_ty fn))).
      + discriminate.
      + apply negb_false_iff in Hpo. congruence.
  Qed.

  (* an optional nil slot that is written all the same is a binary field with a default *)
  Lemma keepable_nil_present f e v :
    is_nil v = true -> present f v = true -> is_optional f = true -> keepable e (f_ty f) v = true.
  Proof.
    intros Hn Hp Ho. destruct v; try discriminate. unfold present, isset in Hp. rewrite Ho in Hp.
    cbn [negb orb is_nil] in Hp.
    destruct (f_default f); [|discriminate]. destruct (f_ty f); try reflexivity. discriminate.
  Qed.

  Lemma K_struct fs : Forall (fun p => K (snd p)) fs -> K (VStruct fs).
  Proof.
    intros HK t key w x Hwt Hkp Hc Hw Hx.
    destruct t as [| | | | | | | | |nm| | |]; try discriminate.
    pose proof Hwt as Hwt0. pose proof Hw as Hw0.
    rewrite wt_struct_eq in Hwt. destruct (find_struct n nm) as [sn|] eqn:Esn; [|discriminate].
    apply andb_true_iff in Hwt. destruct Hwt as [Hwt _]. apply andb_true_iff in Hwt.
    destruct Hwt as [Hids Hslots]. apply list_eqbZ_eq in Hids. rewrite forallb_forall in Hslots.
    cbn [closed_ty] in Hc. destruct (find_struct o nm) as [so|] eqn:Eso; [|discriminate]. clear Hc.
    destruct (ext_struct o n Hext nm so Eso) as (sn' & Esn' & He). rewrite Esn in Esn'. injection Esn' as <-.
    cbn [keepable] in Hkp. rewrite Esn in Hkp. rewrite forallb_forall in Hkp.
    rewrite to_w_struct, Esn in Hw. cbn zeta in Hw.
    destruct (is_union sn && negb (count_set (s_fields sn) fs =? 1)%nat); [discriminate|].
    apply bind_ok in Hw. destruct Hw as (ofs & Hm & Hw). injection Hw as <-.
    rewrite to_w_struct, Esn in Hw0. cbn zeta in Hw0.
    rewrite from_wk_struct, Eso in Hx. apply kbind_ok in Hx. destruct Hx as (st & Hfold & Hfin).
    unfold kfinish_read in Hfin. destruct (first_missing (s_fields so) (snd st)) eqn:Emo; [discriminate|].
    injection Hfin as <-.
    split; [rewrite norm_struct_eq, Esn; reflexivity|]. intros w' Hw'.
    pose proof (wf_struct_nodup _ (wf_env_struct _ _ _ Hwfn Esn)) as Hndn.
    pose proof (wf_struct_nodup _ (wf_env_struct _ _ _ Hwfo Eso)) as Hndo.
    rewrite Forall_forall in HK.
    (* what the new code emitted *)
    set (emit_n := fun p => match wfield_fn n sn p with Ok ow => ow | Err _ => None end).
    assert (Hofs : ofs = map emit_n fs) by (apply (mapM_map _ None _ _ Hm)).
    assert (Hemit_n : forall p wf, emit_n p = Some wf -> wid wf = fst p).
    { intros p wf H. unfold emit_n in H. destruct (wfield_fn n sn p) as [ow|] eqn:E; [|discriminate].
      subst ow. apply (wfield_fn_id _ _ _ _ E). }
    assert (Hfs_nd : NoDup (map fst fs)) by (rewrite Hids; exact Hndn).
    subst ofs. set (wfs := cat_somes (map emit_n fs)) in *.
    assert (Hwfs_nd : NoDup (map wid wfs)) by (apply emit_nodup; assumption).
    assert (Hwfs_wf : Forall wf_field wfs).
    { destruct (to_w_wf n Hwfn (VStruct fs) (TRef nm) key (WStruct wfs) Hwt0) as [Hwfw _].
      - rewrite to_w_struct, Esn. cbn zeta. exact Hw0.
      - apply wf_struct_iff in Hwfw. exact Hwfw. }
    (* what the old code holds *)
    destruct (kread_spec o so wfs [] (new_fields so) [] st Hwfs_nd Hfold) as (Hbuf & Hslo & _ & Hkrd & _).
    cbn [app] in Hbuf. set (U := filter (unknown_to so) wfs) in *.
    rewrite Forall_forall in Hkrd.
    (* what the old code writes *)
    unfold keep_slots in Hw'. rewrite to_wk_struct, Eso in Hw'. rewrite Z.eqb_refl in Hw'. cbn [negb] in Hw'. cbn zeta in Hw'.
    destruct (is_union so && negb (count_set (s_fields so) (snd (fst st)) =? 1)%nat); [discriminate|].
    apply kbind_ok in Hw'. destruct Hw' as (ofs_o & Hmo & Hw').
    rewrite Hbuf in Hw'. rewrite (unknown_fields_enc U (Forall_filter _ _ _ Hwfs_wf)) in Hw'. injection Hw' as <-.
    set (emit_o := fun p => match kwfield_fn o so p with KOk ow => ow | KErr _ => None end).
    assert (Hofs_o : ofs_o = map emit_o (snd (fst st))) by (apply (kmapM_map _ None _ _ Hmo)).
    assert (Hemit_o : forall p wf, emit_o p = Some wf -> wid wf = fst p).
    { intros p wf H. unfold emit_o in H. destruct (kwfield_fn o so p) as [ow|] eqn:E; [|discriminate].
      subst ow. apply (kwfield_fn_id _ _ _ _ E). }
    set (slots_o := snd (fst st)) in *.
    assert (Hslo_ids : map fst slots_o = map f_id (s_fields so)).
    { rewrite Hslo, map_map. unfold new_fields. rewrite map_map. apply map_ext. intro f.
      unfold kupd. cbn [fst].
      destruct (wire_find (f_id f) wfs) as [wf|]; [|reflexivity].
      destruct (find_field (f_id f) (s_fields so)) as [f'|]; [|reflexivity].
      destruct (ttype_eqb (fst (fst wf)) (ttype_of o (f_ty f'))); [|reflexivity].
      destruct (from_wk o (f_ty f') (snd wf)); reflexivity. }
    assert (Hslo_nd : NoDup (map fst slots_o)) by (rewrite Hslo_ids; exact Hndo).
    subst ofs_o. set (wfs' := cat_somes (map emit_o slots_o) ++ U).
    (* every field of the new schema: what the new code finds for it in what the old code wrote *)
    assert (PF : forall fn, In fn (s_fields sn) ->
              match wire_find (f_id fn) wfs' with
              | Some wf => fst (fst wf) = ttype_of n (f_ty fn) /\
                           exists v, from_w n (f_ty fn) (snd wf) = Ok v /\
                                     norm_fn n sn (f_id fn, match assoc_slot (f_id fn) fs with Some y => y | None => VNil end)
                                     = (f_id fn, wrap_slot fn v)
              | None => norm_fn n sn (f_id fn, match assoc_slot (f_id fn) fs with Some y => y | None => VNil end)
                        = (f_id fn, init_slot fn) /\ is_required fn = false
              end).
    { intros fn Hfn. set (id := f_id fn). set (sv := match assoc_slot id fs with Some y => y | None => VNil end).
      set (p := (id, sv)).
      assert (Hp : In p fs).
      { rewrite (slots_as_map (s_fields sn) fs Hids Hndn). apply in_map_iff. exists fn. split; [reflexivity | assumption]. }
      assert (Efn : find_field id (s_fields sn) = Some fn) by (apply find_field_Some_iff; auto).
      pose proof (Hslots p Hp) as Hok. pose proof (Hkp p Hp) as Hkpp. unfold p in Hkpp. cbn [fst snd] in Hkpp. rewrite Efn in Hkpp.
      destruct (mapM_In _ _ _ p Hm Hp) as (ow & How).
      assert (Hen : emit_n p = ow) by (unfold emit_n; rewrite How; reflexivity).
      assert (Hwf_id : wire_find id wfs = ow).
      { rewrite <- Hen. apply (wire_find_emit emit_n Hemit_n fs Hfs_nd p Hp). }
      unfold wfs'. rewrite wire_find_app.
      destruct (find_field id (s_fields so)) as [fo|] eqn:Efo.
      - (* a field the old schema has *)
        pose proof (ext_field_old so sn id fo He Efo) as E. rewrite Efn in E. injection E as <-.
        destruct (find_field_In _ _ _ Efo) as [Hfo_in _].
        set (p' := kupd o so wfs (id, init_slot fn)).
        assert (Hp' : In p' slots_o).
        { rewrite Hslo. apply in_map. unfold new_fields. apply in_map_iff. exists fn. split; [reflexivity | assumption]. }
        assert (Hp'id : fst p' = id).
        { assert (H : In (fst p') (map fst slots_o)) by (apply in_map; exact Hp').
          unfold p', kupd. cbn [fst].
          destruct (wire_find id wfs) as [wf|]; [|reflexivity].
          rewrite Efo. destruct (ttype_eqb (fst (fst wf)) (ttype_of o (f_ty fn))); [|reflexivity].
          destruct (from_wk o (f_ty fn) (snd wf)); reflexivity. }
        assert (Hfind_o : wire_find id (cat_somes (map emit_o slots_o)) = emit_o p').
        { rewrite <- Hp'id. apply (wire_find_emit emit_o Hemit_o slots_o Hslo_nd p' Hp'). }
        rewrite Hfind_o.
        assert (HU : wire_find id U = None).
        { unfold U. rewrite (wire_find_filter _ _ _ (unknown_to_wid so)). rewrite Hwf_id.
          destruct ow as [wf0|]; [|reflexivity].
          assert (Hw0id : wid wf0 = id) by (rewrite <- Hen in *; apply (Hemit_n p wf0 Hen)).
          unfold unknown_to. rewrite Hw0id, Efo. reflexivity. }
        destruct (kmapM_In _ _ _ p' Hmo Hp') as (ow' & How').
        assert (Heo : emit_o p' = ow') by (unfold emit_o; rewrite How'; reflexivity).
        rewrite Heo. rewrite HU.
        destruct ow as [wf0|].
        + (* the new code sent the field *)
          destruct (emitted_payload n sn p fn wf0 Efn Hok How) as (sv' & Hsv & Hwt' & Htow & Hty & Hpres & Hnorm).
          unfold p in Hsv, Hpres. cbn [snd] in Hsv, Hpres.
          assert (Hw0in : In wf0 wfs).
          { apply wire_find_Some in Hwf_id. apply Hwf_id. }
          assert (Hw0id : wid wf0 = id) by (apply (Hemit_n p wf0 Hen)).
          assert (Htyo : ttype_eqb (fst (fst wf0)) (ttype_of o (f_ty fn)) = true).
          { rewrite Hty, !ttype_of_spec. apply ttype_eqb_refl. }
          destruct (Hkrd wf0 Hw0in fn) as (xf & Hxf); [rewrite Hw0id; exact Efo | exact Htyo |].
          assert (Ep' : p' = (id, wrap_slot fn xf)).
          { unfold p', kupd. cbn [fst snd]. rewrite Hwf_id, Efo, Htyo, Hxf. reflexivity. }
          (* the induction hypothesis for the content of the slot *)
          assert (KS : K sv').
          { unfold wrap_slot in Hsv. destruct (base_ptr fn) eqn:Ebp.
            - apply K_base. unfold base_ptr in Ebp. rewrite !andb_true_iff in Ebp.
              destruct Ebp as [[_ Hb] Hnb]. apply negb_true_iff in Hnb.
              apply (wt_base_value n false (f_ty fn) sv' Hb Hwt').
              intro Hn. subst sv'. destruct (f_ty fn); discriminate.
            - rewrite <- Hsv. apply (HK p Hp). }
          assert (Hkp' : keepable n (f_ty fn) sv' = true).
          { unfold wrap_slot in Hsv. destruct (base_ptr fn) eqn:Ebp.
            - rewrite Hsv in Hkpp. cbn [is_nil] in Hkpp. rewrite andb_false_r in Hkpp. exact Hkpp.
            - subst sv'. destruct (is_optional fn && is_nil sv) eqn:Eon; [|exact Hkpp].
              apply andb_true_iff in Eon. destruct Eon as [Ho Hn].
              apply (keepable_nil_present fn n sv Hn Hpres Ho). }
          assert (Hcl : closed_ty o (f_ty fn) = true) by (apply (closed_field o n Hext nm so fn Eso Hfo_in)).
          destruct (KS (f_ty fn) false (snd wf0) xf Hwt' Hkp' Hcl Htow Hxf) as (Hrep & Hback).
          rewrite Ep' in How'. unfold kwfield_fn in How'. cbn [fst snd] in How'. rewrite Efo in How'.
          destruct (present fn (wrap_slot fn xf)) eqn:Hpo.
          * (* the old code writes it back *)
            assert (Hw'f : exists w'f, to_wk o (f_ty fn) xf = KOk w'f /\ ow' = Some (ttype_of o (f_ty fn), f_id fn, w'f)).
            { unfold wrap_slot in How'. destruct (base_ptr fn).
              - apply kbind_ok in How'. destruct How' as (w'f & H1 & H2). injection H2 as <-. eauto.
              - apply kbind_ok in How'. destruct How' as (w'f & H1 & H2). injection H2 as <-. eauto. }
            destruct Hw'f as (w'f & Hw'f & ->). cbn [fst snd]. split; [rewrite !ttype_of_spec; reflexivity|].
            exists (norm n (f_ty fn) sv'). split; [apply Hback; exact Hw'f | exact Hnorm].
          * (* the old code sees the field at its default and does not write it *)
            injection How' as <-.
            assert (Hopt_fn : is_optional fn = true).
            { unfold present in Hpo. apply orb_false_iff in Hpo. destruct Hpo as [Hpo _]. apply negb_false_iff in Hpo. exact Hpo. }
            split; [|apply optional_not_required; exact Hopt_fn].
            rewrite Hnorm. cbn [fst]. f_equal.
            rewrite Hsv in Hpres.
            symmetry. apply (unset_after_read fn sv' xf Hopt_fn Hwt' Hrep (from_wk_is_nil _ _ _ _ Hxf) Hpres Hpo).
        + (* the new code did not send it *)
          destruct (not_emitted n sn p fn Efn How) as (Hnp & Hopt_fn & Hnorm).
          assert (Ep' : p' = (id, init_slot fn)).
          { unfold p', kupd. cbn [fst]. rewrite Hwf_id. reflexivity. }
          rewrite Ep' in How'. unfold kwfield_fn in How'. cbn [fst snd] in How'. rewrite Efo in How'.
          destruct (opt_default_cases so nm fn Eso Hfo_in Hopt_fn) as [Hpi|(Hpi & Hbp & wd & Hwd & Hrd)]; rewrite Hpi in How'.
          * injection How' as <-. split; [exact Hnorm | apply optional_not_required; exact Hopt_fn].
          * rewrite Hbp, Hwd in How'. cbn [kbind] in How'. injection How' as <-. cbn [fst snd].
            split; [rewrite !ttype_of_spec; reflexivity|]. exists (init_slot fn). split; [exact Hrd|].
            rewrite Hnorm. unfold wrap_slot. rewrite Hbp. reflexivity.
      - (* a field the old schema does not have: its bytes were kept *)
        assert (Hnone : wire_find id (cat_somes (map emit_o slots_o)) = None).
        { apply (wire_find_emit_absent emit_o Hemit_o). rewrite Hslo_ids. apply find_field_None. exact Efo. }
        rewrite Hnone. unfold U. rewrite (wire_find_filter _ _ _ (unknown_to_wid so)). rewrite Hwf_id.
        destruct ow as [wf0|].
        + assert (Hw0id : wid wf0 = id) by (apply (Hemit_n p wf0 Hen)).
          assert (Hunk : unknown_to so wf0 = true) by (unfold unknown_to; rewrite Hw0id, Efo; reflexivity).
          rewrite Hunk.
          destruct (emitted_payload n sn p fn wf0 Efn Hok How) as (sv' & Hsv & Hwt' & Htow & Hty & Hpres & Hnorm).
          split; [exact Hty|]. exists (norm n (f_ty fn) sv'). split; [|exact Hnorm].
          destruct (to_from n Hwfn sv' (f_ty fn) false Hwt') as (w1 & Hw1 & Hr1).
          rewrite Htow in Hw1. injection Hw1 as <-. exact Hr1.
        + destruct (not_emitted n sn p fn Efn How) as (Hnp & Hopt_fn & Hnorm).
          split; [exact Hnorm | apply optional_not_required; exact Hopt_fn]. }
    (* the new code reads what the old code wrote *)
    assert (Hnd' : NoDup (map wid wfs')).
    { unfold wfs'. rewrite map_app. apply NoDup_app_disjoint.
      - apply emit_nodup; assumption.
      - apply filter_ids. exact Hwfs_nd.
      - intros i Hi Hi2. apply (emit_ids emit_o Hemit_o) in Hi. rewrite Hslo_ids in Hi.
        apply in_map_iff in Hi2. destruct Hi2 as (wf & Hwi & Hwf). apply filter_In in Hwf. destruct Hwf as [_ Hunk].
        unfold unknown_to in Hunk. rewrite Hwi in Hunk.
        destruct (find_field i (s_fields so)) eqn:E; [discriminate|]. apply find_field_None in E. contradiction. }
    assert (Hrd' : Forall (readable n sn) wfs').
    { apply Forall_forall. intros wf Hwf f Hf Ht. destruct (find_field_In _ _ _ Hf) as [Hfin Hfid].
      specialize (PF f Hfin). rewrite Hfid in PF. rewrite (wire_find_In wfs' wf Hnd' Hwf) in PF.
      destruct PF as (_ & v & Hv & _). exists v. exact Hv. }
    destruct (read_spec n sn wfs' (new_fields sn) [] Hnd' Hrd') as (seen' & Hfold' & Hseen').
    rewrite from_w_struct, Esn, Hfold'. cbn [bind]. unfold finish_read. cbn [fst snd].
    rewrite first_missing_none.
    - rewrite norm_struct_eq, Esn. f_equal. f_equal.
      rewrite (slots_as_map (s_fields sn) fs Hids Hndn) at 1. unfold new_fields. rewrite !map_map.
      apply map_ext_in. intros fn Hfn. specialize (PF fn Hfn).
      assert (Efn : find_field (f_id fn) (s_fields sn) = Some fn) by (apply find_field_Some_iff; auto).
      unfold upd. cbn [fst snd].
      destruct (wire_find (f_id fn) wfs') as [wf|].
      + destruct PF as (Hty & v & Hv & Hn). rewrite Efn, Hty, ttype_eqb_refl, Hv. symmetry. exact Hn.
      + destruct PF as (Hn & _). symmetry. exact Hn.
    - intros fn Hfn Hreq. apply Hseen'. right. specialize (PF fn Hfn).
      assert (Efn : find_field (f_id fn) (s_fields sn) = Some fn) by (apply find_field_Some_iff; auto).
      destruct (wire_find (f_id fn) wfs') as [wf|] eqn:Ewf.
      + destruct PF as (Hty & _). apply wire_find_Some in Ewf. destruct Ewf as [Hin Hid].
        exists wf. split; [exact Hin|]. split; [exact Hid|].
        unfold matched_req. rewrite Hid, Efn, Hty, ttype_eqb_refl, Hreq. reflexivity.
      + destruct PF as (_ & Hnr). congruence.
  Qed.

  (* ---- every value ---- *)

  Theorem keep_roundtrip_w : forall v, K v.
  Proof.
    intro v. induction v using value_ind2.
    - apply K_base. reflexivity.
    - apply K_base. reflexivity.
    - apply K_base. reflexivity.
    - apply K_base. reflexivity.
    - apply K_base. reflexivity.
    - apply K_list. assumption.
    - apply K_map. assumption.
    - apply K_struct. assumption.
    - apply K_nil.
    - intros t key w x Hwt. discriminate.
  Qed.
End Keep.

(* ------------------------------------------------------------------ top level *)

Lemma from_wk_struct_shape e nm wfs x : from_wk e (TRef nm) (WStruct wfs) = KOk x -> exists buf slots, x = keep_slots buf slots.
Proof.
  rewrite from_wk_struct. destruct (find_struct e nm); [|discriminate]. intro H.
  apply kbind_ok in H. destruct H as (st & _ & H). unfold kfinish_read in H.
  destruct (first_missing (s_fields s) (snd st)); [discriminate|]. injection H as <-. eauto.
Qed.

Lemma to_wk_struct_shape e nm buf slots w' : to_wk e (TRef nm) (keep_slots buf slots) = KOk w' -> exists wfs', w' = WStruct wfs'.
Proof.
  unfold keep_slots. rewrite to_wk_struct. destruct (find_struct e nm); [|discriminate].
  destruct (negb (unk_id =? unk_id)); [discriminate|]. cbn zeta.
  destruct (is_union s && negb (count_set (s_fields s) slots =? 1)%nat); [discriminate|].
  intro H. apply kbind_ok in H. destruct H as (ofs & _ & H).
  destruct (unknown_fields buf); [|discriminate]. injection H as <-. eauto.
Qed.

(* new writes v; old code generated with keep_unknown_fields reads it into a fresh object and writes
   that object; whenever this Write does not refuse, the new code reads the bytes as the value it would
   have read from the original bytes: nothing dropped, duplicated or reordered inside a field *)
Theorem keep_roundtrip o n so sn v w x w' :
  extendsb o n = true -> wf_env o = true -> wf_env n = true -> opt_defaults_ok o n = true ->
  find_struct o (s_name sn) = Some so -> find_struct n (s_name sn) = Some sn ->
  wt n sn v = true -> keepable n (TRef (s_name sn)) v = true ->
  to_wire n sn v = Ok w -> read_new_keep o so w = KOk x -> to_wire_keep o so x = KOk w' ->
  read_new n sn w' = Ok (norm_struct n sn v).
Proof.
  intros Hext Hwfo Hwfn Hopt Hso Hsn Hwt Hkp Hw Hx Hw'.
  destruct (write_read n sn v Hwfn Hsn Hwt) as (wfs & Hw2 & _). rewrite Hw in Hw2. injection Hw2 as ->.
  destruct (find_struct_In _ _ _ Hso) as [_ Hname].
  rewrite read_new_keep_from_wk in Hx by (rewrite Hname; exact Hso). rewrite Hname in Hx.
  unfold to_wire_keep in Hw'. rewrite Hname in Hw'.
  destruct (from_wk_struct_shape _ _ _ _ Hx) as (buf & slots & ->).
  destruct (to_wk_struct_shape _ _ _ _ _ Hw') as (wfs' & ->).
  rewrite (read_new_from_w n sn wfs' Hsn). unfold norm_struct.
  assert (Hc : closed_ty o (TRef (s_name sn)) = true) by (cbn [closed_ty]; rewrite Hso; reflexivity).
  destruct (keep_roundtrip_w o n Hext Hwfo Hwfn Hopt v (TRef (s_name sn)) false (WStruct wfs) (keep_slots buf slots)
              (wt_wt_val _ _ _ Hwt) Hkp Hc Hw Hx) as [_ H].
  apply H. exact Hw'.
Qed.

(* ---- chains of any length ---- *)

Fixpoint chain_dom (n : env) (sn : sschema) (k : nat) (v : value) : Prop :=
  match k with
  | O => True
  | S k' => wt n sn v = true /\ keepable n (TRef (s_name sn)) v = true /\ chain_dom n sn k' (norm_struct n sn v)
  end.

Theorem chain_any_length o n so sn :
  extendsb o n = true -> wf_env o = true -> wf_env n = true -> opt_defaults_ok o n = true ->
  find_struct o (s_name sn) = Some so -> find_struct n (s_name sn) = Some sn ->
  forall k v x, chain_dom n sn k v -> chain o n so sn k v = KOk x -> x = iter_norm n sn k v.
Proof.
  intros Hext Hwfo Hwfn Hopt Hso Hsn. induction k as [|k IH]; intros v x Hd Hc; cbn [chain iter_norm] in *.
  - injection Hc as <-. reflexivity.
  - destruct Hd as (Hwt & Hkp & Hd).
    apply kbind_ok in Hc. destruct Hc as (v1 & Hr & Hc).
    unfold round_trip in Hr. apply kbind_ok in Hr. destruct Hr as (w & Hw & Hr). apply lift_ok in Hw.
    apply kbind_ok in Hr. destruct Hr as (w' & Hh & Hr). apply lift_ok in Hr.
    unfold hop_old in Hh. apply kbind_ok in Hh. destruct Hh as (x0 & Hx0 & Hw').
    rewrite (keep_roundtrip o n so sn v w x0 w' Hext Hwfo Hwfn Hopt Hso Hsn Hwt Hkp Hw Hx0 Hw') in Hr.
    injection Hr as <-. apply IH; assumption.
Qed.

(* ---- CarryingUnknownFields after Read ---- *)

Lemma kfold_buf e s wfs : forall buf slots seen st',
  kfoldM (kread_step e s) wfs (buf, slots, seen) = KOk st' ->
  fst (fst st') = buf ++ flat_map enc_field (filter (unknown_to s) wfs).
Proof.
  induction wfs as [|wf wfs IH]; intros buf slots seen st' H; cbn [kfoldM] in H.
  - injection H as <-. cbn. rewrite app_nil_r. reflexivity.
  - destruct (kread_step e s (buf, slots, seen) wf) as [[[b1 s1] n1]|] eqn:E; [|discriminate].
    rewrite (IH _ _ _ _ H). unfold kread_step in E. cbn [fst snd] in E. cbn [filter]. unfold unknown_to at 2. unfold wid.
    destruct (find_field (snd (fst wf)) (s_fields s)) as [f|].
    + destruct (ttype_eqb (fst (fst wf)) (ttype_of e (f_ty f))).
      * apply kbind_ok in E. destruct E as (v & _ & E). injection E as <- _ _. reflexivity.
      * injection E as <- _ _. reflexivity.
    + destruct (append_field limit wf) as [b|] eqn:Ea; [|discriminate]. injection E as <- _ _.
      destruct (append_field_some _ _ _ Ea) as [-> _]. cbn [flat_map]. rewrite <- app_assoc. reflexivity.
Qed.

(* after Read into a fresh object the method reports unknown fields exactly when the input had a
   field whose id the schema does not declare *)
Theorem carrying_after_read e s wfs x :
  read_new_keep e s (WStruct wfs) = KOk x -> carrying x = existsb (unknown_to s) wfs.
Proof.
  unfold read_new_keep, from_wire_keep, new_struct_keep, keep_slots. rewrite Z.eqb_refl.
  intro H. apply kbind_ok in H. destruct H as (st & Hf & Hfin).
  unfold kfinish_read in Hfin. destruct (first_missing (s_fields s) (snd st)); [discriminate|].
  injection Hfin as <-. rewrite (kfold_buf _ _ _ _ _ _ _ Hf). cbn [app]. clear Hf.
  generalize (snd (fst st)). intro slots.
  induction wfs as [|wf wfs IH]; [reflexivity|]. cbn [filter existsb].
  destruct (unknown_to s wf); [|exact IH].
  cbn [flat_map orb]. destruct wf as [[t id] y]. reflexivity.
Qed.

(* ------------------------------------------------------------------ Read of keep-aware code succeeds within the nesting limit *)

Lemma kmapM_total {A B C} (f : A -> result B) (g : A -> kres C) l ys :
  mapM f l = Ok ys -> Forall (fun x => forall y, f x = Ok y -> exists z, g x = KOk z) l -> exists zs, kmapM g l = KOk zs.
Proof.
  revert ys. induction l as [|a l IH]; intros ys Hm HF; cbn [mapM kmapM] in *; [eauto|].
  destruct (f a) as [y|] eqn:E; [|discriminate]. destruct (mapM f l) as [ys'|] eqn:E2; [|discriminate].
  inversion HF as [|? ? Ha Hl]; subst. destruct (Ha _ E) as (z & ->). destruct (IH _ eq_refl Hl) as (zs & ->). eauto.
Qed.

Section Total.
  Variable e : env.

  Lemma kfold_total s wfs : forall slots seen st' buf kslots,
    foldM (read_step e s) wfs (slots, seen) = Ok st' ->
    Forall (fun wf : wfield => (depth (snd wf) <= limit)%nat /\
                     forall t y, from_w e t (snd wf) = Ok y -> exists x, from_wk e t (snd wf) = KOk x) wfs ->
    exists buf' kslots', kfoldM (kread_step e s) wfs (buf, kslots, seen) = KOk (buf', kslots', snd st').
  Proof.
    induction wfs as [|wf wfs IH]; intros slots seen st' buf kslots Hf HF; cbn [foldM kfoldM] in *.
    - injection Hf as <-. eauto.
    - inversion HF as [|? ? [Hd Hx] Hrest]; subst.
      destruct (read_step e s (slots, seen) wf) as [[slots1 seen1]|] eqn:E1; [|discriminate].
      unfold read_step in E1. unfold kread_step. cbn [fst snd] in *.
      destruct (find_field (snd (fst wf)) (s_fields s)) as [f|].
      + destruct (ttype_eqb (fst (fst wf)) (ttype_of e (f_ty f))).
        * apply bind_ok in E1. destruct E1 as (v & Hv & E1). injection E1 as <- <-.
          destruct (Hx _ _ Hv) as (xv & ->). cbn [kbind]. apply (IH _ _ _ _ _ Hf Hrest).
        * injection E1 as <- <-. apply (IH _ _ _ _ _ Hf Hrest).
      + injection E1 as <- <-. rewrite append_field_spec.
        destruct (Nat.leb_spec (depth (snd wf)) limit) as [_|Hgt]; [|lia]. apply (IH _ _ _ _ _ Hf Hrest).
  Qed.

  Theorem keep_read_total : forall w t y,
    from_w e t w = Ok y -> (depth w <= limit)%nat -> exists x, from_wk e t w = KOk x.
  Proof.
    intro w. induction w using wval_ind2; intros t y Hr Hd.
    - exists y. cbn [from_wk]. rewrite Hr. reflexivity.
    - exists y. cbn [from_wk]. rewrite Hr. reflexivity.
    - exists y. cbn [from_wk]. rewrite Hr. reflexivity.
    - exists y. cbn [from_wk]. rewrite Hr. reflexivity.
    - exists y. cbn [from_wk]. rewrite Hr. reflexivity.
    - exists y. cbn [from_wk]. rewrite Hr. reflexivity.
    - exists y. cbn [from_wk]. rewrite Hr. reflexivity.
    - (* struct *)
      destruct t as [| | | | | | | | |nm| | |]; try discriminate.
      rewrite from_w_struct in Hr. rewrite from_wk_struct. destruct (find_struct e nm) as [s|]; [|discriminate].
      apply bind_ok in Hr. destruct Hr as (st & Hf & Hfin).
      change (depth (WStruct fs)) with (S (depth_struct_go fs)) in Hd.
      destruct (kfold_total s fs (new_fields s) [] st [] (new_fields s) Hf) as (buf' & ks' & Hk).
      + rewrite Forall_forall in *. intros wf Hin. pose proof (depth_struct_le fs wf Hin) as Hle. split; [lia|].
        intros t y0 Hy0. apply (H wf Hin t y0 Hy0). lia.
      + unfold finish_read in Hfin. destruct (first_missing (s_fields s) (snd st)) eqn:Em; [discriminate|].
        eexists. unfold kbind.
        match goal with |- match ?t with KOk _ => _ | KErr _ => _ end = _ =>
          replace t with (@KOk kstate (buf', ks', snd st)) by (symmetry; exact Hk) end.
        unfold kfinish_read. cbn [fst snd]. rewrite Em. reflexivity.
    - (* map *)
      destruct t as [| | | | | | | | | | | |a b]; try discriminate. cbn [from_w from_wk] in *.
      destruct ((ttype_eqb kt (ttype_of e a) && ttype_eqb vt (ttype_of e b)) || (length kvs =? 0)%nat); [|discriminate].
      apply bind_ok in Hr. destruct Hr as (xs & Hm & _).
      change (depth (WMap kt vt kvs)) with (S (depth_map_go kvs)) in Hd.
      destruct (kmapM_total _ (fun kv => kbind (from_wk e a (fst kv)) (fun k => kbind (from_wk e b (snd kv)) (fun x => KOk (k, x)))) kvs xs Hm)
        as (zs & Hz); [|eexists; rewrite Hz; reflexivity].
      rewrite Forall_forall in *. intros kv Hin [k x] Hkx. destruct (H kv Hin) as [IHk IHx].
      pose proof (depth_map_le kvs kv Hin) as Hle.
      apply bind_ok in Hkx. destruct Hkx as (k' & Hk & Hkx). apply bind_ok in Hkx. destruct Hkx as (x' & Hx & _).
      destruct (IHk _ _ Hk) as (zk & ->); [lia|]. destruct (IHx _ _ Hx) as (zx & ->); [lia|]. cbn [kbind]. eauto.
    - (* set *)
      destruct t as [| | | | | | | | | | |a|]; try discriminate. cbn [from_w from_wk] in *.
      destruct (ttype_eqb et (ttype_of e a) || (length l =? 0)%nat); [|discriminate].
      apply bind_ok in Hr. destruct Hr as (xs & Hm & _).
      change (depth (WSet et l)) with (S (depth_list_go l)) in Hd.
      destruct (kmapM_total _ (from_wk e a) l xs Hm) as (zs & Hz); [|eexists; rewrite Hz; reflexivity].
      rewrite Forall_forall in *. intros x Hin y0 Hy0. pose proof (depth_list_le l x Hin). apply (H x Hin a y0 Hy0). lia.
    - (* list *)
      destruct t as [| | | | | | | | | |a| |]; try discriminate. cbn [from_w from_wk] in *.
      destruct (ttype_eqb et (ttype_of e a) || (length l =? 0)%nat); [|discriminate].
      apply bind_ok in Hr. destruct Hr as (xs & Hm & _).
      change (depth (WList et l)) with (S (depth_list_go l)) in Hd.
      destruct (kmapM_total _ (from_wk e a) l xs Hm) as (zs & Hz); [|eexists; rewrite Hz; reflexivity].
      rewrite Forall_forall in *. intros x Hin y0 Hy0. pose proof (depth_list_le l x Hin). apply (H x Hin a y0 Hy0). lia.
  Qed.
End Total.

(* old keep-aware code reads what new code wrote whenever the nesting stays within the limit *)
Theorem keep_reads_new o n so sn v :
  extendsb o n = true -> wf_env o = true -> wf_env n = true ->
  find_struct o (s_name sn) = Some so -> find_struct n (s_name sn) = Some sn -> wt n sn v = true ->
  exists wfs, to_wire n sn v = Ok (WStruct wfs) /\
              ((depth (WStruct wfs) <= limit)%nat -> exists x, read_new_keep o so (WStruct wfs) = KOk x).
Proof.
  intros Hext Hwfo Hwfn Hso Hsn Hwt.
  destruct (old_reads_new o n Hext Hwfo Hwfn so sn v Hso Hsn Hwt) as (wfs & Hw & Hr).
  exists wfs. split; [exact Hw|]. intro Hd.
  destruct (find_struct_In _ _ _ Hso) as [_ Hname].
  rewrite read_new_from_w in Hr by (rewrite Hname; exact Hso).
  rewrite read_new_keep_from_wk by (rewrite Hname; exact Hso).
  apply (keep_read_total o _ _ _ Hr Hd).
Qed.

(* ------------------------------------------------------------------ where the unchanged code does not keep the promise *)

(* old:  union U {1: i32 a}             struct S {1: optional U u}
   new:  union U {1: i32 a, 2: string b}   (S unchanged)                                    *)
Definition ex_fa : field := mkfield 1 [x61] Optional TI32 None false.
Definition ex_fb : field := mkfield 2 [x62] Optional TString None false.
Definition ex_fu : field := mkfield 1 [x75] Optional (TRef [x55]) None false.
Definition ex_old : env := mkenv [mkstruct [x55] KUnion [ex_fa]; mkstruct [x53] KStruct [ex_fu]] [].
Definition ex_new : env := mkenv [mkstruct [x55] KUnion [ex_fa; ex_fb]; mkstruct [x53] KStruct [ex_fu]] [].
Definition ex_s : sschema := mkstruct [x53] KStruct [ex_fu].
(* S{u: U{b: "x"}} *)
Definition ex_v : value := VStruct [(1, VStruct [(1, VNil); (2, VSome (VStr [x78]))])].

(* the member the old code does not know is read without error and kept (the union object reports
   that it carries unknown fields), yet the old code cannot write the object again *)
Theorem keep_union_refuted :
  exists o n so sn v w x,
    extendsb o n = true /\ wf_env o = true /\ wf_env n = true /\ opt_defaults_ok o n = true /\
    find_struct o (s_name sn) = Some so /\ find_struct n (s_name sn) = Some sn /\
    wt n sn v = true /\ keepable n (TRef (s_name sn)) v = true /\
    to_wire n sn v = Ok w /\ read_new_keep o so w = KOk x /\
    (exists u, assoc_slot 1 (match x with VStruct (_ :: slots) => slots | _ => [] end) = Some u /\ carrying u = true) /\
    to_wire_keep o so x = KErr (KStd (EUnionCount 0)).
Proof.
  exists ex_old, ex_new, ex_s, ex_s, ex_v.
  eexists. eexists. repeat split; try (vm_compute; reflexivity).
  eexists. split; vm_compute; reflexivity.
Qed.

(* the hypotheses of keep_roundtrip / chain_any_length are satisfiable: a pair with added fields at
   two nesting depths, an added union member that is NOT the one set, containers of structs *)
Definition ex2_in_o : sschema := mkstruct [x49] KStruct [mkfield 1 [x78] Default TI32 None false].
Definition ex2_in_n : sschema := mkstruct [x49] KStruct [mkfield 1 [x78] Default TI32 None false;
                                                          mkfield 2 [x64] Optional TDouble None false;
                                                          mkfield 3 [x6c] Default (TList TString) None false].
Definition ex2_s_fields_o : list field :=
  [mkfield 1 [x61] Required TI64 None false; mkfield 2 [x75] Optional (TRef [x55]) None false;
   mkfield 3 [x69] Default (TRef [x49]) None false; mkfield 4 [x6d] Default (TMap TString (TRef [x49])) None false].
Definition ex2_old : env := mkenv [mkstruct [x55] KUnion [ex_fa]; ex2_in_o; mkstruct [x53] KStruct ex2_s_fields_o] [].
Definition ex2_sn : sschema :=
  mkstruct [x53] KStruct (ex2_s_fields_o ++ [mkfield 9 [x73] Optional (TSet TI32) None false;
                                             mkfield (-3) [x7a] Default TBinary None false]).
Definition ex2_new : env := mkenv [mkstruct [x55] KUnion [ex_fa; ex_fb]; ex2_in_n; ex2_sn] [].
Definition ex2_so : sschema := mkstruct [x53] KStruct ex2_s_fields_o.
Definition ex2_in_v (x : Z) (d : Z) : value := VStruct [(1, VInt x); (2, VSome (VDbl d)); (3, VList [VStr [x68; x69]])].
Definition ex2_v : value :=
  VStruct [(1, VInt 1099511627776); (2, VStruct [(1, VSome (VInt 5)); (2, VNil)]); (3, ex2_in_v 7 4609434218613702656);
           (4, VMap [(VStr [x6b], ex2_in_v 8 0)]); (9, VList [VInt 3; VInt 4]); (-3, VBin [x00; xff])].

Lemma keep_example_domain :
  extendsb ex2_old ex2_new = true /\ wf_env ex2_old = true /\ wf_env ex2_new = true /\ opt_defaults_ok ex2_old ex2_new = true /\
  find_struct ex2_old (s_name ex2_sn) = Some ex2_so /\ find_struct ex2_new (s_name ex2_sn) = Some ex2_sn /\
  chain_dom ex2_new ex2_sn 3 ex2_v.
Proof. repeat split; vm_compute; reflexivity. Qed.

Lemma keep_example_chain :
  chain ex2_old ex2_new ex2_so ex2_sn 3 ex2_v = KOk (iter_norm ex2_new ex2_sn 3 ex2_v) /\
  (exists w x, to_wire ex2_new ex2_sn ex2_v = Ok w /\ read_new_keep ex2_old ex2_so w = KOk x /\ carrying x = true).
Proof. split; [vm_compute; reflexivity|]. eexists. eexists. repeat split; vm_compute; reflexivity. Qed.
