// recplugin is a thriftgo plugin used by the harness: it records what it was sent on stdin
// (sha256 of the raw bytes and of a canonical JSON rendering of the decoded request, which
// sorts map keys) into the file named by $VERIF_REC_OUT and answers with an empty response.
package main

import (
	"crypto/sha256"
	"encoding/hex"
	"encoding/json"
	"fmt"
	"io"
	"os"

	"github.com/cloudwego/thriftgo/plugin"
)

func main() {
	data, err := io.ReadAll(os.Stdin)
	if err != nil {
		os.Exit(3)
	}
	raw := sha256.Sum256(data)
	canon := "undecodable"
	if req, err := plugin.UnmarshalRequest(data); err == nil {
		req.OutputPath = "" // the output directory's own name may differ between runs
		if js, err := json.Marshal(req); err == nil {
			c := sha256.Sum256(js)
			canon = hex.EncodeToString(c[:])
		}
	}
	if p := os.Getenv("VERIF_REC_OUT"); p != "" {
		f, err := os.OpenFile(p, os.O_APPEND|os.O_CREATE|os.O_WRONLY, 0o644)
		if err == nil {
			fmt.Fprintf(f, "%s %s %d\n", hex.EncodeToString(raw[:]), canon, len(data))
			f.Close()
		}
	}
	out, err := plugin.MarshalResponse(&plugin.Response{})
	if err != nil {
		os.Exit(4)
	}
	os.Stdout.Write(out)
}
