package idlgen

import (
	"strconv"
	"strings"

	"verif/harness/rng"
)

// thriftKeywords are the words the grammar (thrift.peg) treats specially; no
// generated name equals one of them. "required" / "optional" are handled apart
// (ReqPrefixedTypeNames).
var thriftKeywords = map[string]bool{
	"bool": true, "byte": true, "i8": true, "i16": true, "i32": true, "i64": true, "double": true, "string": true,
	"binary": true, "const": true, "oneway": true, "typedef": true, "map": true, "set": true, "list": true, "void": true,
	"throws": true, "exception": true, "extends": true, "service": true, "struct": true, "union": true, "enum": true,
	"include": true, "cpp_include": true, "namespace": true, "cpp_type": true, "required": true, "optional": true,
	"true": true, "false": true,
}

var goKeywords = []string{"break", "case", "chan", "continue", "default", "defer", "else", "fallthrough", "for", "func",
	"go", "goto", "if", "import", "interface", "package", "range", "return", "select", "switch", "type", "var"}

var typeWords = []string{"User", "Order", "Item", "Point", "Shape", "Node", "Tree", "Account", "Message", "Event", "Config",
	"Record", "Entry", "Pair", "Address", "Profile", "Product", "Invoice", "Token", "Session", "Frame", "Packet", "Vector",
	"Matrix", "Route", "Ticket", "Payload", "Header", "Bucket", "Cursor"}

var enumWords = []string{"Color", "Status", "Kind", "Mode", "Level", "Phase", "Role", "Weekday", "Suit", "Tier", "Stage", "Flavor"}

var enumValueWords = []string{"RED", "GREEN", "BLUE", "ACTIVE", "INACTIVE", "UNKNOWN", "LOW", "MID", "HIGH", "OPEN", "CLOSED",
	"PENDING", "DONE", "FIRST", "SECOND", "THIRD", "NONE", "SOME", "ALL", "ALPHA", "BETA", "GAMMA"}

var fieldWords = []string{"name", "value", "count", "flag", "data", "items", "size", "kind", "owner", "price", "score", "tags",
	"note", "label", "level", "parent", "child", "next", "prev", "left", "right", "key", "payload", "created_at", "user_id",
	"total", "ratio", "enabled", "title", "body", "index", "weight", "height", "width", "code", "message", "detail", "extra",
	"first_name", "lastName", "zipCode", "http_url", "raw", "blob", "when", "who", "attrs", "links"}

var constWords = []string{"MAX", "MIN", "DEFAULT", "LIMIT", "TIMEOUT", "VERSION", "PREFIX", "SUFFIX", "ORIGIN", "EPSILON",
	"GREETING", "TABLE", "PRIMES", "NAMES", "WEIGHTS", "LOOKUP", "SEED", "FACTOR", "BANNER", "MAGIC"}

var typedefWords = []string{"Id", "Name", "Text", "Amount", "Timestamp", "Score", "Blob", "Flags", "Index", "Labels",
	"Lookup", "Matrix2", "Alias", "Handle", "Ref", "Bag", "Dict", "Seq"}

var serviceWords = []string{"Store", "Calculator", "Echo", "Directory", "Catalog", "Gateway", "Registry", "Scheduler", "Mailer", "Auditor"}

var funcWords = []string{"get", "put", "ping", "add", "remove", "list_items", "fetch", "update", "lookup", "compute", "notify",
	"reset", "describe", "search", "count_all", "uploadBlob", "check", "merge", "split", "touch"}

var exceptionWords = []string{"NotFound", "Invalid", "Denied", "Timeout", "Conflict", "Failure", "Overflow", "Broken"}

var baseNameWords = []string{"base", "common", "shared", "types", "model", "defs", "core", "util", "extra", "errors", "api", "data"}

var dirWords = []string{"a", "b", "idl", "lib", "pkg", "v1", "v2", "deep/er", "x/y"}

var annoKeys = []string{"a", "k", "tag", "api.path", "api.get", "doc", "since", "owner", "x.y.z", "_p", "K2", "json_name", "deprecated"}

var nsLanguages = []string{"java", "py", "cpp", "rs", "js", "php", "csharp", "swift", "lua", "py.twisted", "c_glib"}

// Names that stress the Go naming styles (NamingStress). Each entry is a
// complete identifier; a numeric suffix keeps them distinct.
var stressTypeNames = []string{"NewUser", "NewItem", "UserArgs", "GetResult", "FooResult", "BarArgs", "type", "func", "range",
	"_hidden", "_Under", "__dunder", "http_server", "HTTPServer", "HttpServer", "user_id", "UserId", "UserID", "url", "Url",
	"URL", "api_v2", "ApiV2", "xml_http_request", "XMLHTTPRequest", "a", "A", "a_", "A_b_C", "lowercase", "UPPERCASE",
	"snake_case_name", "camelCaseName", "Trailing_", "x1y2", "Client", "Processor", "String", "Error", "Read", "Write"}

var stressFieldNames = []string{"type", "func", "range", "go", "select", "New", "newField", "Args", "Result", "args", "result",
	"_under", "__double", "id", "ID", "Id", "user_id", "userId", "UserID", "url", "URL", "http_url", "HTTPUrl", "read", "write",
	"string", "String", "error", "Error", "get_x", "GetX", "x", "X", "is_set_x", "IsSetX", "set_x", "p", "err", "ctx", "r",
	"_result", "DeepEqual", "deep_equal", "count_set_fields", "a_b", "aB", "A_B", "trailing_", "field1", "Field1", "json", "self"}

var stressFuncNames = []string{"New", "newThing", "Args", "getArgs", "Result", "get_result", "type", "func", "go", "Client",
	"Processor", "process", "Process", "read", "Write", "String", "get_id", "getId", "GetID", "ping", "Ping", "PING", "_call", "a"}

var stressConstNames = []string{"type", "var", "New", "Args", "Result", "MAX_ID", "MaxId", "max_id", "_PRIVATE", "url", "URL",
	"nil", "iota", "true_", "len", "string_", "int32_", "x", "X"}

var stressEnumValues = []string{"type", "func", "New", "Args", "Result", "a", "A", "_a", "A_", "id", "ID", "Id", "String", "value", "Value"}

// canonKey folds a name the way Go name conversion may: case and underscores
// are ignored. Two names with one key may collide after conversion.
func canonKey(s string) string {
	return strings.ToLower(strings.ReplaceAll(s, "_", ""))
}

// nameSet hands out names that are distinct within one scope.
type nameSet struct {
	used   map[string]bool // exact names
	keys   map[string]bool // canonKey of the names (only consulted when strict)
	strict bool            // true: also keep canonKeys distinct
	n      int
	list   []string // names handed out by fresh, in order
	// noNewPairs: never both X and NewX (up to case and underscores)
	noNewPairs bool
}

func newNameSet(strict bool) *nameSet {
	return &nameSet{used: map[string]bool{}, keys: map[string]bool{}, strict: strict}
}

func (s *nameSet) free(name string) bool {
	if name == "" || thriftKeywords[name] || s.used[name] {
		return false
	}
	if s.strict && s.keys[canonKey(name)] {
		return false
	}
	if s.noNewPairs {
		// the Go backend reserves "New"+X for every struct-like X (and typedef of
		// one) with MustReserve: a definition named NewX that is installed earlier
		// makes thriftgo fail ("failed to reserve NewX"), depending on definition
		// order and kind. Keep X / NewX pairs out of one scope altogether.
		k := canonKey(name)
		if s.keys["new"+k] || (strings.HasPrefix(k, "new") && s.keys[k[3:]]) {
			return false
		}
	}
	return true
}

func (s *nameSet) take(name string) {
	s.used[name] = true
	s.keys[canonKey(name)] = true
}

// fresh returns base if it is free, else base with a numeric suffix.
func (s *nameSet) fresh(base string) string {
	c := base
	for !s.free(c) {
		s.n++
		c = base + strconv.Itoa(s.n)
	}
	s.take(c)
	s.list = append(s.list, c)
	return c
}

func hasReqPrefix(s string) bool {
	return strings.HasPrefix(s, "required") || strings.HasPrefix(s, "optional")
}

func pickWord(r *rng.R, words []string) string { return rng.Pick(r, words) }
