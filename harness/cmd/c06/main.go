// Command c06: case producer for property C06 (constants and default values in Go equal the
// values written in the IDL).
//
// Per run: the hand-written corpus (corpus.go) and seeded idlgen programs (Valid envelope, rich in
// constants and defaults) are written as IDL trees; the REAL thriftgo binary generates Go for every
// (program, option set); a fresh "c06 -names" process per unit runs the real front end and the
// backend's own scope builder to obtain the resolved AST (astdump) and the Go identifiers; the
// generated packages are compiled once together with the reflection driver (gendrv) and a generated
// registry; the driver dumps every constant / variable, NewX(), InitDefault() and getters / IsSet on
// scripted objects. Observations go into Coq cases (Corr/C06.v), one set of shards per program whose
// preamble defines the resolved program P; the Coq side recomputes everything with Idl/Consts.v.
package main

import (
	"bytes"
	"encoding/hex"
	"encoding/json"
	"flag"
	"fmt"
	"math"
	"os"
	"os/exec"
	"path/filepath"
	"regexp"
	"sort"
	"strings"
	"sync"
	"time"

	"verif/harness/casefile"
	"verif/harness/coqfmt"
	"verif/harness/gendrv"
	"verif/harness/idlast"
	"verif/harness/idlgen"
	"verif/harness/rng"
	"verif/harness/valgen"
)

type optSet struct {
	Key     string
	Options string
}

var quickSets = []optSet{
	{"o0", ""},
	{"o1", "naming_style=golint,enum_as_int_32"},
	{"o2", "naming_style=apache,value_type_in_container"},
}

var thoroughSets = []optSet{
	{"o0", ""},
	{"o1", "naming_style=golint,enum_as_int_32"},
	{"o2", "naming_style=apache,value_type_in_container"},
	{"o3", "enum_as_int_32,value_type_in_container"},
	{"o4", "naming_style=golint"},
	{"o5", "naming_style=apache"},
}

type prog struct {
	Key    string
	Main   string
	Files  map[string]string
	Corpus bool
	Reject bool
	Gen    map[string]int // idlgen statistics

	front *NamesOut            // front end only
	units map[string]*unitInfo // option set key -> unit
}

type unitInfo struct {
	Key      string
	Opt      optSet
	Options  string // effective options (without package_prefix)
	Accepted bool
	Output   string
	Names    *NamesOut
	Dropped  bool // generated code did not compile
}

type stats struct {
	Programs         int               `json:"programs"`
	CorpusPrograms   int               `json:"corpus_programs"`
	GeneratedProgs   int               `json:"generated_programs"`
	RejectedByImpl   int               `json:"rejected_by_impl"`
	RejectedExpected int               `json:"rejected_corpus_programs"`
	FrontEndRejected int               `json:"rejected_before_resolution"`
	RejectedSample   []string          `json:"rejected_sample,omitempty"`
	Units            int               `json:"units"`
	UnitsNotCompiled int               `json:"units_not_compiling"`
	NotCompiledNote  []string          `json:"units_not_compiling_sample,omitempty"`
	OptionSets       map[string]string `json:"option_sets"`
	CaseKinds        map[string]int    `json:"case_kinds"`
	Ways             map[string]int    `json:"ways_of_writing"`
	GoKinds          map[string]int    `json:"go_kinds_of_constants"`
	FieldShapes      map[string]int    `json:"field_shapes"`
	Idlgen           map[string]int    `json:"idlgen"`
	UntypedIntDouble int               `json:"double_constants_that_are_untyped_go_ints"`
	HistoriesWithoutEdit int           `json:"histories_without_anything_to_edit"`
	DecodesSkipped   int               `json:"decode_histories_skipped"`
	Evaluations      int               `json:"evaluations"`
	Distinct         int               `json:"distinct_nontrivial"`
	Rule             string            `json:"rule"`
	Samples          []interface{}     `json:"samples"`
}

func goEnv() []string {
	return append(os.Environ(), "GOFLAGS=-mod=mod", "GOPROXY=off", "GOSUMDB=off", "GOTOOLCHAIN=local")
}

func lastLine(s string) string {
	ls := strings.Split(strings.TrimSpace(s), "\n")
	l := ls[len(ls)-1]
	if len(l) > 300 {
		l = l[:300]
	}
	return l
}

func writeTree(dir string, files map[string]string) error {
	for name, text := range files {
		full := filepath.Join(dir, filepath.FromSlash(name))
		if err := os.MkdirAll(filepath.Dir(full), 0o755); err != nil {
			return err
		}
		if err := os.WriteFile(full, []byte(text), 0o644); err != nil {
			return err
		}
	}
	return nil
}

func runNames(self, dir, mainFile, options string) (*NamesOut, error) {
	cmd := exec.Command(self, "-names", "-main", mainFile, "-options", options)
	cmd.Dir = dir
	cmd.Env = goEnv()
	var stdout, stderr bytes.Buffer
	cmd.Stdout, cmd.Stderr = &stdout, &stderr
	err := cmd.Run()
	var out NamesOut
	if jerr := json.Unmarshal(stdout.Bytes(), &out); jerr != nil {
		if err != nil {
			return nil, fmt.Errorf("names process: %v: %s", err, lastLine(stderr.String()))
		}
		return nil, fmt.Errorf("names process output: %v", jerr)
	}
	return &out, nil
}

// hasStructKey: some map type of the program is keyed by a struct-like
func hasStructKey(p idlast.Program) bool {
	found := false
	var walk func(t *idlast.Type)
	walk = func(t *idlast.Type) {
		if t == nil {
			return
		}
		if string(t.Name) == "map" && t.KeyType != nil {
			switch t.KeyType.Category {
			case idlast.CatStruct, idlast.CatUnion, idlast.CatException:
				found = true
			}
		}
		walk(t.KeyType)
		walk(t.ValueType)
	}
	for _, e := range p {
		f := e.File
		for _, td := range f.Typedefs {
			walk(td.Type)
		}
		for _, c := range f.Constants {
			walk(c.Type)
		}
		for _, ss := range [][]*idlast.StructLike{f.Structs, f.Unions, f.Exceptions} {
			for _, s := range ss {
				for _, fd := range s.Fields {
					walk(fd.Type)
				}
			}
		}
		for _, sv := range f.Services {
			for _, fn := range sv.Functions {
				walk(fn.FunctionType)
				for _, a := range fn.Arguments {
					walk(a.Type)
				}
				for _, a := range fn.Throws {
					walk(a.Type)
				}
			}
		}
	}
	return found
}

func dropOption(opts, name string) string {
	var keep []string
	for _, o := range strings.Split(opts, ",") {
		if o != "" && o != name {
			keep = append(keep, o)
		}
	}
	return strings.Join(keep, ",")
}

func structLikes(f *idlast.File) []*idlast.StructLike {
	var out []*idlast.StructLike
	out = append(out, f.Structs...)
	out = append(out, f.Unions...)
	out = append(out, f.Exceptions...)
	return out
}

// resolveStruct finds the struct-like a (possibly typedef'd, possibly included) type stands for: index of
// its file in the program and its index in structs ++ unions ++ exceptions; -1 when it is none.
func resolveStruct(prog idlast.Program, fi int, t *idlast.Type, depth int) (int, int) {
	if depth > 8 || t == nil || fi < 0 || fi >= len(prog) {
		return -1, -1
	}
	f := prog[fi].File
	name := string(t.Name)
	if t.Reference != nil {
		idx := int(t.Reference.Index)
		if idx < 0 || idx >= len(f.Includes) || f.Includes[idx].Ref == nil {
			return -1, -1
		}
		fi = -1
		for k, e := range prog {
			if string(e.Filename) == string(*f.Includes[idx].Ref) {
				fi = k
			}
		}
		if fi < 0 {
			return -1, -1
		}
		f = prog[fi].File
		name = string(t.Reference.Name)
	}
	for _, td := range f.Typedefs {
		if string(td.Alias) == name {
			return resolveStruct(prog, fi, td.Type, depth+1)
		}
	}
	for k, s := range structLikes(f) {
		if string(s.Name) == name {
			return fi, k
		}
	}
	return -1, -1
}

func isBaseCat(c idlast.Category) bool { return c >= idlast.CatBool && c <= idlast.CatBinary }
func isStructCat(c idlast.Category) bool {
	return c == idlast.CatStruct || c == idlast.CatUnion || c == idlast.CatException
}

// needRedirect mirrors nothing: it only steers which scripted value the harness writes into a slot
// (the Coq side never sees it). A wrong guess makes Fill panic, which is reported.
func pointerBase(fd *idlast.Field) bool {
	c := fd.Type.Category
	return fd.Requiredness == idlast.ReqOptional && fd.Default == nil && c != idlast.CatBinary && (isBaseCat(c) || c == idlast.CatEnum)
}

func dblJSON(f float64) string { return fmt.Sprintf(`{"d":"%016x"}`, math.Float64bits(f)) }

// scripted slot values, derived from what NewX() put into the slot (cur) and the field's category.
// variant 0: a value different from the current one; variant 1: a value that is Go-equal to the
// current one but not identical (sign of zero, empty vs nil), or NaN.
func scripted(fd *idlast.Field, cur *valgen.Value, variant int) (string, bool) {
	c := fd.Type.Category
	base := func(cur *valgen.Value) (string, bool) {
		switch c {
		case idlast.CatBool:
			if cur != nil && cur.K == "bool" {
				if variant == 1 {
					return fmt.Sprint(cur.B), true
				}
				return fmt.Sprint(!cur.B), true
			}
			return "true", true
		case idlast.CatByte, idlast.CatI16, idlast.CatI32, idlast.CatI64, idlast.CatEnum:
			if cur != nil && cur.K == "int" {
				if variant == 1 {
					return fmt.Sprint(cur.I), true
				}
				if cur.I != 1 {
					return "1", true
				}
				return "2", true
			}
			return "1", true
		case idlast.CatDouble:
			if cur != nil && cur.K == "dbl" {
				f := math.Float64frombits(cur.D)
				if variant == 1 {
					if f == 0 {
						return fmt.Sprintf(`{"d":"%016x"}`, cur.D^(1<<63)), true // the other zero
					}
					return dblJSON(math.NaN()), true
				}
				if f != 1.5 {
					return dblJSON(1.5), true
				}
				return dblJSON(2.5), true
			}
			return dblJSON(1.5), true
		case idlast.CatString:
			s := ""
			if cur != nil && cur.K == "str" {
				s = string(cur.S)
			}
			if variant == 1 {
				return fmt.Sprintf(`{"x":"%s"}`, hex.EncodeToString([]byte(s))), true
			}
			return fmt.Sprintf(`{"x":"%s"}`, hex.EncodeToString([]byte(s+"x"))), true
		}
		return "", false
	}
	if pointerBase(fd) {
		if variant == 1 {
			return "", false
		}
		v, ok := base(nil)
		return `{"p":` + v + `}`, ok
	}
	switch {
	case c == idlast.CatBinary:
		s := ""
		if cur != nil && cur.K == "bin" {
			s = string(cur.S)
		}
		if variant == 1 {
			return fmt.Sprintf(`{"b":"%s"}`, hex.EncodeToString([]byte(s))), true // equal bytes; non-nil even when the default is nil
		}
		return fmt.Sprintf(`{"b":"%s"}`, hex.EncodeToString([]byte(s+"x"))), true
	case c == idlast.CatList || c == idlast.CatSet:
		if variant == 1 {
			return "", false
		}
		return "[]", true
	case c == idlast.CatMap:
		if variant == 1 {
			return "", false
		}
		return `{"m":[]}`, true
	case isStructCat(c):
		if variant == 1 {
			return "", false
		}
		return `{"s":[]}`, true
	}
	return base(cur)
}

func constKind(c *idlast.ConstValue) string {
	switch c.Kind {
	case idlast.ConstInt:
		return "int"
	case idlast.ConstDouble:
		return "double"
	case idlast.ConstLiteral:
		return "literal"
	case idlast.ConstList:
		return "list"
	case idlast.ConstMap:
		return "map"
	case idlast.ConstIdentifier:
		id := string(c.Identifier)
		if id == "true" || id == "false" {
			return "true_false"
		}
		if c.Extra == nil {
			return "ident_unresolved"
		}
		k := "ident_const"
		if c.Extra.IsEnum {
			k = "ident_enum"
		}
		if c.Extra.Index >= 0 {
			return k + "_qualified"
		}
		return k + "_local"
	}
	return "?"
}

// ways: histogram (category of the position / way of writing) over every value node whose type is
// known without dereferencing (values inside struct literals are counted under "in_struct_literal")
func ways(h map[string]int, t *idlast.Type, c *idlast.ConstValue) {
	if c == nil {
		return
	}
	cat := "in_struct_literal"
	if t != nil {
		cat = t.Category.String()
	}
	h[cat+"/"+constKind(c)]++
	switch c.Kind {
	case idlast.ConstList:
		var et *idlast.Type
		if t != nil && !isStructCat(t.Category) {
			et = t.ValueType
		}
		for _, x := range c.List {
			ways(h, et, x)
		}
	case idlast.ConstMap:
		var kt, vt *idlast.Type
		if t != nil && t.Category == idlast.CatMap {
			kt, vt = t.KeyType, t.ValueType
		}
		for _, e := range c.Map {
			if t != nil && isStructCat(t.Category) {
				ways(h, nil, e.Value)
			} else {
				ways(h, kt, e.Key)
				ways(h, vt, e.Value)
			}
		}
	}
}

func trivialConst(c *idlast.ConstValue) bool {
	return c.Kind == idlast.ConstInt
}

var errLineRE = regexp.MustCompile(`(?m)^(?:\./)?gen/([^:\s]+\.go):\d+`)

func main() {
	names := flag.Bool("names", false, "sub-command: print resolved AST and Go names (cwd = IDL root)")
	mainFile := flag.String("main", "", "")
	options := flag.String("options", "", "")
	seed := flag.Uint64("seed", 1, "")
	tier := flag.String("tier", "quick", "")
	out := flag.String("out", "", "")
	tg := flag.String("thriftgo", "", "thriftgo binary built from VERIF_REPO")
	scratch := flag.String("scratch", "", "scratch directory for the generated module")
	nprog := flag.Int("programs", 0, "override the number of generated programs")
	flag.Parse()
	if *names {
		os.Exit(namesMain(*mainFile, *options))
	}
	repo := os.Getenv("VERIF_REPO")
	if repo == "" {
		repo = "/repo"
	}
	if *out == "" || *tg == "" || *scratch == "" {
		fmt.Fprintln(os.Stderr, "usage: c06 -seed N -tier quick|thorough -out DIR -thriftgo BIN -scratch DIR")
		os.Exit(2)
	}
	self, err := os.Executable()
	if err != nil {
		fmt.Fprintln(os.Stderr, err)
		os.Exit(1)
	}
	t0 := time.Now()
	phase := map[string]float64{}
	mark := func(name string) {
		phase[name] = time.Since(t0).Seconds()
		t0 = time.Now()
	}
	r := rng.New(*seed)
	nGen, sets, perShard := 5, quickSets, 400
	if *tier == "thorough" {
		nGen, sets = 36, thoroughSets
	}
	if *nprog > 0 {
		nGen = *nprog
	}
	st := &stats{OptionSets: map[string]string{}, CaseKinds: map[string]int{}, Ways: map[string]int{}, GoKinds: map[string]int{},
		FieldShapes: map[string]int{}, Idlgen: map[string]int{},
		Rule: "a case is non-trivial when it is a constant whose initializer is not a plain integer literal, a struct-like with at least one declared default, or a getter/IsSet/InitDefault run on an object with scripted fields; distinct = distinct (program, option set, file, definition, case kind, scripted object)"}
	for _, o := range sets {
		st.OptionSets[o.Key] = o.Options
	}

	// 1. programs
	var progs []*prog
	for _, c := range corpus(*tier) {
		progs = append(progs, &prog{Key: c.Key, Main: c.Main, Files: c.Files, Corpus: true, Reject: c.Reject})
	}
	st.CorpusPrograms = len(progs)
	for i := 0; i < nGen; i++ {
		opt := idlgen.Options{Envelope: idlgen.Valid, MaxFiles: 3, Size: 9, IdentInForeignStructLiteral: true}
		if i%4 == 3 {
			opt.MaxFiles, opt.Size = 1, 14
		}
		g := idlgen.Generate(r.Fork(), opt)
		progs = append(progs, &prog{Key: fmt.Sprintf("p%d", i), Main: g.Main(), Files: g.Render(nil), Gen: g.Stats()})
	}
	st.GeneratedProgs = nGen
	st.Programs = len(progs)

	// 2. IDL trees, thriftgo, names
	b := gendrv.New(*scratch, *tg, repo)
	if err := os.MkdirAll(*scratch, 0o755); err != nil {
		fmt.Fprintln(os.Stderr, err)
		os.Exit(1)
	}
	type job struct {
		p *prog
		o optSet
	}
	var jobs []job
	for _, p := range progs {
		p.units = map[string]*unitInfo{}
		if err := writeTree(filepath.Join(*scratch, "idl", p.Key), p.Files); err != nil {
			fmt.Fprintln(os.Stderr, err)
			os.Exit(1)
		}
		gi := -1
		if !p.Corpus {
			fmt.Sscanf(p.Key, "p%d", &gi)
		}
		for k, o := range sets {
			if p.Reject && o.Key != "o0" {
				continue
			}
			// thorough: the corpus runs under every option set, a generated program under the default set and
			// two others in rotation (one go build of everything is the dominating cost)
			if gi >= 0 && len(sets) > 3 && k != 0 && k != 1+gi%(len(sets)-1) && k != 1+(gi+2)%(len(sets)-1) {
				continue
			}
			jobs = append(jobs, job{p, o})
		}
	}
	// front end first (one per program): the resolved AST decides which options are usable
	var wg sync.WaitGroup
	sem := make(chan struct{}, 4)
	var mu sync.Mutex
	for _, p := range progs {
		wg.Add(1)
		go func(p *prog) {
			defer wg.Done()
			sem <- struct{}{}
			defer func() { <-sem }()
			no, err := runNames(self, filepath.Join(*scratch, "idl", p.Key), p.Main, "-")
			if err != nil {
				no = &NamesOut{Error: err.Error()}
			}
			mu.Lock()
			p.front = no
			mu.Unlock()
		}(p)
	}
	wg.Wait()
	for _, j := range jobs {
		wg.Add(1)
		go func(j job) {
			defer wg.Done()
			sem <- struct{}{}
			defer func() { <-sem }()
			u := &unitInfo{Key: j.o.Key + "/" + j.p.Key, Opt: j.o, Options: j.o.Options}
			if j.p.front != nil && j.p.front.Error == "" && hasStructKey(j.p.front.Program) {
				// struct values as map keys do not compile (C01 / C02 note): keep pointers
				u.Options = dropOption(u.Options, "value_type_in_container")
			}
			idlDir := filepath.Join(*scratch, "idl", j.p.Key)
			outDir := filepath.Join(*scratch, "gen", u.Key)
			full := "package_prefix=drv/gen/" + u.Key
			if u.Options != "" {
				full = u.Options + "," + full
			}
			cmd := exec.Command(*tg, "-r", "-g", "go:"+full, "-o", outDir, j.p.Main)
			cmd.Dir = idlDir
			cmd.Env = goEnv()
			o, err := cmd.CombinedOutput()
			u.Output = string(o)
			if err == nil {
				if _, serr := os.Stat(outDir); serr != nil {
					err = fmt.Errorf("thriftgo exited 0 but wrote nothing")
					u.Output += "\n" + err.Error()
				}
			}
			u.Accepted = err == nil
			if u.Accepted {
				no, nerr := runNames(self, idlDir, j.p.Main, full)
				if nerr != nil || no.Error != "" {
					msg := ""
					if nerr != nil {
						msg = nerr.Error()
					} else {
						msg = no.Error
					}
					fmt.Fprintf(os.Stderr, "c06: names failed for %s: %s\n", u.Key, msg)
					os.Exit(1)
				}
				u.Names = no
			} else {
				os.RemoveAll(outDir)
			}
			mu.Lock()
			j.p.units[j.o.Key] = u
			mu.Unlock()
		}(j)
	}
	wg.Wait()

	mark("generate+names")
	// 3. registry + build (a unit whose generated code does not compile is dropped and reported)
	writeRegistry := func() error {
		var imp, body bytes.Buffer
		n := 0
		for _, p := range progs {
			for _, o := range sets {
				u := p.units[o.Key]
				if u == nil || !u.Accepted || u.Dropped {
					continue
				}
				for _, f := range u.Names.Files {
					if len(f.Consts) == 0 && len(f.Structs) == 0 {
						continue
					}
					alias := fmt.Sprintf("c%d", n)
					n++
					fmt.Fprintf(&imp, "\t%s %q\n", alias, f.Import)
					for _, c := range f.Consts {
						fmt.Fprintf(&body, "\tRegisterC06Const(%q, %q, %q, func() interface{} { return %s.%s })\n", u.Key, f.Filename, c.IDL, alias, c.Go)
					}
					for _, s := range f.Structs {
						fmt.Fprintf(&body, "\tRegisterC06Ctor(%q, %q, %q, func() interface{} { return %s.%s() })\n", u.Key, f.Filename, s.IDL, alias, s.Ctor)
					}
				}
			}
		}
		src := "// generated by cmd/c06\npackage main\n\nimport (\n" + imp.String() + ")\n\nfunc init() {\n" + body.String() + "}\n"
		return os.WriteFile(filepath.Join(*scratch, "c06_registry.go"), []byte(src), 0o644)
	}
	for attempt := 0; ; attempt++ {
		if err := writeRegistry(); err != nil {
			fmt.Fprintln(os.Stderr, err)
			os.Exit(1)
		}
		err := b.Build()
		if err == nil {
			break
		}
		if attempt >= 2 {
			fmt.Fprintln(os.Stderr, "build:", err)
			os.Exit(1)
		}
		// find the units whose packages have errors
		bad := map[string]bool{}
		for _, m := range errLineRE.FindAllStringSubmatch(err.Error(), -1) {
			parts := strings.SplitN(m[1], "/", 3)
			if len(parts) >= 2 {
				bad[parts[0]+"/"+parts[1]] = true
			}
		}
		if len(bad) == 0 {
			fmt.Fprintln(os.Stderr, "build:", err)
			os.Exit(1)
		}
		for _, p := range progs {
			for _, u := range p.units {
				if bad[u.Key] && !u.Dropped {
					u.Dropped = true
					u.Output = ""
					for _, l := range strings.Split(err.Error(), "\n") {
						if strings.Contains(l, "gen/"+u.Key+"/") && len(u.Output) < 1500 {
							u.Output += strings.TrimSpace(l) + "\n"
						}
					}
					st.UnitsNotCompiled++
					if len(st.NotCompiledNote) < 4 {
						for _, l := range strings.Split(err.Error(), "\n") {
							if strings.Contains(l, "gen/"+u.Key+"/") {
								st.NotCompiledNote = append(st.NotCompiledNote, strings.TrimSpace(l))
								break
							}
						}
					}
					os.RemoveAll(filepath.Join(*scratch, "gen", u.Key))
				}
			}
		}
	}

	mark("go build")
	// 4. first round of commands: constants and NewX / InitDefault
	type pend struct {
		kind string
		p    *prog
		u    *unitInfo
		fi   int
		f    *FileNames
		af   *idlast.File
		ci   int
		s    *StructName
		as   *idlast.StructLike
		tag  string
	}
	var cmds []gendrv.Cmd
	var pends []pend
	for _, p := range progs {
		for _, o := range sets {
			u := p.units[o.Key]
			if u == nil || !u.Accepted || u.Dropped {
				continue
			}
			st.Units++
			for i := range u.Names.Files {
				f := &u.Names.Files[i]
				fi := -1
				for k, e := range u.Names.Program {
					if string(e.Filename) == f.Filename {
						fi = k
					}
				}
				if fi < 0 {
					fmt.Fprintf(os.Stderr, "c06: file %q of unit %s is not in the dumped program\n", f.Filename, u.Key)
					os.Exit(1)
				}
				af := u.Names.Program[fi].File
				for _, c := range f.Consts {
					cmds = append(cmds, gendrv.Cmd{Verb: "c06const", Args: []string{u.Key, f.Filename, c.IDL}})
					pends = append(pends, pend{kind: "const", p: p, u: u, fi: fi, f: f, af: af, ci: c.Index})
				}
				sls := structLikes(af)
				for k := range f.Structs {
					s := &f.Structs[k]
					cmds = append(cmds, gendrv.Cmd{Verb: "c06new", Args: []string{u.Key, f.Filename, s.IDL}})
					pends = append(pends, pend{kind: "new", p: p, u: u, fi: fi, f: f, af: af, s: s, as: sls[s.Index]})
				}
			}
		}
	}
	outs, err := b.Run(cmds)
	if err != nil {
		fmt.Fprintln(os.Stderr, "run:", err)
		os.Exit(1)
	}

	// 5. second round: scripted objects derived from what NewX() returned
	var cmds2 []gendrv.Cmd
	var pends2 []pend
	for i, pd := range pends {
		if pd.kind != "new" {
			continue
		}
		var o struct {
			New   json.RawMessage `json:"new"`
			Panic bool            `json:"panic"`
		}
		if err := json.Unmarshal(outs[i], &o); err != nil || o.Panic || o.New == nil {
			continue
		}
		nv, err := valgen.ParseJSON(string(o.New))
		if err != nil || nv.K != "struct" {
			continue
		}
		var nm [][]interface{}
		for _, f := range pd.s.Fields {
			nm = append(nm, []interface{}{f.ID, f.Getter, f.IsSet})
		}
		nmj, _ := json.Marshal(nm)
		slots := func(variant int) (string, int) {
			var parts []string
			for _, fd := range pd.as.Fields {
				cur := nv.Field(int(fd.ID))
				if v, ok := scripted(fd, cur, variant); ok {
					parts = append(parts, fmt.Sprintf("[%d,%s]", fd.ID, v))
				}
			}
			return `{"s":[` + strings.Join(parts, ",") + `]}`, len(parts)
		}
		add := func(verb, tag string, args ...string) {
			cmds2 = append(cmds2, gendrv.Cmd{Verb: verb, Args: append([]string{pd.u.Key, pd.f.Filename, pd.s.IDL}, args...)})
			q := pd
			q.kind, q.tag = verb, tag
			pends2 = append(pends2, q)
		}
		add("c06get", "new", "new", `{"s":[]}`, string(nmj))
		add("c06get", "zero", "zero", `{"s":[]}`, string(nmj))
		if s0, n0 := slots(0); n0 > 0 {
			add("c06get", "zero+different", "zero", s0, string(nmj))
			add("c06init", "different", s0)
		}
		if s1, n1 := slots(1); n1 > 0 {
			add("c06get", "new+equal", "new", s1, string(nmj))
		}
	}
	outs2, err := b.Run(cmds2)
	if err != nil {
		fmt.Fprintln(os.Stderr, "run:", err)
		os.Exit(1)
	}

	// 5b. third round, in its own driver process: histories (in-place edits of one instance, then a fresh one)
	var cmds3 []gendrv.Cmd
	var pends3 []pend
	for _, pd := range pends {
		if pd.kind != "new" {
			continue
		}
		shareable := false
		for _, fd := range pd.as.Fields {
			c := fd.Type.Category
			if fd.Default != nil && (c == idlast.CatList || c == idlast.CatSet || c == idlast.CatMap || c == idlast.CatBinary || isStructCat(c)) {
				shareable = true
			}
		}
		if shareable {
			var nm [][]interface{}
			for _, f := range pd.s.Fields {
				nm = append(nm, []interface{}{f.ID, f.Getter, f.IsSet})
			}
			nmj, _ := json.Marshal(nm)
			for _, mode := range []string{"init", "new"} {
				cmds3 = append(cmds3, gendrv.Cmd{Verb: "c06hist", Args: []string{pd.u.Key, pd.f.Filename, pd.s.IDL, mode, string(nmj)}})
				q := pd
				q.kind, q.tag = "c06hist", "history-"+mode
				pends3 = append(pends3, q)
			}
		}
		// decode a list of two elements that carry no fields, edit the first, look at the second
		for _, fd := range pd.as.Fields {
			if fd.Type.Category != idlast.CatList || fd.Type.ValueType == nil || !isStructCat(fd.Type.ValueType.Category) {
				continue
			}
			xf, xs := resolveStruct(pd.u.Names.Program, pd.fi, fd.Type.ValueType, 0)
			if xf < 0 {
				continue
			}
			bs := []byte{0x0f, byte(uint16(fd.ID) >> 8), byte(uint16(fd.ID)), 0x0c, 0, 0, 0, 2, 0, 0, 0}
			cmds3 = append(cmds3, gendrv.Cmd{Verb: "c06decode", Args: []string{pd.u.Key, pd.f.Filename, pd.s.IDL, fmt.Sprint(fd.ID), hex.EncodeToString(bs)}})
			q := pd
			q.kind, q.tag = "c06decode", "history-decode"
			q.fi, q.ci = xf, xs // the ELEMENT struct: file index, struct-like index
			pends3 = append(pends3, q)
		}
	}
	outs3, err := b.Run(cmds3)
	if err != nil {
		fmt.Fprintln(os.Stderr, "run:", err)
		os.Exit(1)
	}
	mark("driver runs")
	// 6. cases, one writer per program
	meta := struct {
		Total  int      `json:"total"`
		Shards []string `json:"shards"`
		Stats  *stats   `json:"stats"`
	}{Stats: st}
	distinct := map[string]bool{}
	writers := map[string]*casefile.Writer{}
	writerFor := func(p *prog, program idlast.Program) *casefile.Writer {
		if w, ok := writers[p.Key]; ok {
			return w
		}
		dir := filepath.Join(*out, p.Key)
		if err := os.MkdirAll(dir, 0o755); err != nil {
			fmt.Fprintln(os.Stderr, err)
			os.Exit(1)
		}
		imports := "From Verif Require Import Base.Bytes Idl.Ast Idl.Consts Corr.C06.\n" +
			"From Coq Require Import List NArith ZArith String.\nImport ListNotations.\nOpen Scope string_scope.\n" +
			"Definition P : program := " + program.Coq() + ".\n"
		if p.Key != "rejects" {
			imports += coqfmt.FastPreamble
		}
		imports += "Definition mismatches := mismatches_for P."
		w := casefile.New(dir, imports, perShard)
		writers[p.Key] = w
		return w
	}
	fileText := func(p *prog, fn string) string {
		t := p.Files[fn]
		if len(t) > 3000 {
			t = t[:3000] + "\n...(truncated)"
		}
		return t
	}
	addCase := func(p *prog, program idlast.Program, term string, desc map[string]interface{}, nontrivial bool, dkey string) {
		w := writerFor(p, p.front.Program)
		_ = program
		desc["program"] = p.Key
		if err := w.Add(term, desc); err != nil {
			fmt.Fprintln(os.Stderr, err)
			os.Exit(1)
		}
		st.CaseKinds[desc["kind"].(string)]++
		st.Evaluations++
		if nontrivial && !distinct[dkey] {
			distinct[dkey] = true
			st.Distinct++
		}
		if len(st.Samples) < 6 && nontrivial && (st.Evaluations%37 == 1) {
			st.Samples = append(st.Samples, desc)
		}
	}
	parseVal := func(raw json.RawMessage) *valgen.Value {
		if raw == nil {
			return valgen.Bad()
		}
		v, err := valgen.ParseJSON(string(raw))
		if err != nil {
			return valgen.Bad()
		}
		return v
	}

	rejects := &prog{Key: "rejects", front: &NamesOut{Program: idlast.Program{}}}
	// outcome cases + statistics per program
	for _, p := range progs {
		u0 := p.units["o0"]
		accepted := u0 != nil && u0.Accepted && !u0.Dropped
		if p.front == nil || p.front.Error != "" {
			st.FrontEndRejected++
			if !p.Reject && len(st.RejectedSample) < 4 {
				msg := "?"
				if p.front != nil {
					msg = p.front.Error
				}
				st.RejectedSample = append(st.RejectedSample, p.Key+": "+lastLine(msg))
			}
			if !p.Reject {
				st.RejectedByImpl++
			} else {
				st.RejectedExpected++
			}
			continue
		}
		if !accepted {
			if p.Reject {
				st.RejectedExpected++
			} else {
				st.RejectedByImpl++
				if len(st.RejectedSample) < 4 && u0 != nil {
					st.RejectedSample = append(st.RejectedSample, p.Key+": "+lastLine(u0.Output))
				}
			}
		}
		for _, e := range p.front.Program {
			for _, c := range e.File.Constants {
				ways(st.Ways, c.Type, c.Value)
			}
			for _, s := range structLikes(e.File) {
				for _, fd := range s.Fields {
					ways(st.Ways, fd.Type, fd.Default)
					k := fmt.Sprintf("%s/req=%d/default=%v", fd.Type.Category.String(), fd.Requiredness, fd.Default != nil)
					st.FieldShapes[k]++
				}
			}
		}
		for k, v := range p.Gen {
			if strings.HasPrefix(k, "const.") || strings.HasPrefix(k, "field.") {
				st.Idlgen[k] += v
			}
		}
		desc := map[string]interface{}{"kind": "outcome", "accepted": accepted, "main": p.Main, "files": p.Files}
		if u0 != nil && !accepted {
			desc["thriftgo_output"] = lastLine(u0.Output)
		}
		if p.Reject && !accepted {
			// small programs meant to be refused: one shard for all of them, the program travels in the case
			desc["corpus_key"] = p.Key
			addCase(rejects, nil, "(KProg "+p.front.Program.Coq()+" "+coqfmt.Bool(accepted)+")", desc, true, p.Key+"|outcome")
			continue
		}
		addCase(p, p.front.Program, "(KOutcome "+coqfmt.Bool(accepted)+")", desc, true, p.Key+"|outcome")
		for _, o := range sets {
			if u := p.units[o.Key]; u != nil && u.Accepted && u.Dropped {
				d := map[string]interface{}{"kind": "compiled", "ok": false, "unit": u.Key, "options": u.Options, "main": p.Main,
					"files": p.Files, "compiler": u.Output}
				addCase(p, p.front.Program, "(KCompiled false)", d, true, u.Key+"|compiled")
			}
		}
	}

	for i, pd := range pends {
		prog := pd.u.Names.Program
		switch pd.kind {
		case "const":
			var o struct {
				V     json.RawMessage `json:"v"`
				K     string          `json:"k"`
				Panic bool            `json:"panic"`
				Msg   string          `json:"msg"`
			}
			json.Unmarshal(outs[i], &o)
			ac := pd.af.Constants[pd.ci]
			v := parseVal(o.V)
			if o.Panic {
				v = valgen.Bad()
			}
			st.GoKinds[ac.Type.Category.String()+"->"+o.K]++
			if ac.Type.Category == idlast.CatDouble && v.K == "int" {
				// an untyped integer constant in a float64 position: Go converts it exactly as float64(int) does
				v = valgen.Dbl(math.Float64bits(float64(v.I)))
				st.UntypedIntDouble++
			}
			term := fmt.Sprintf("(KConst %s %s %s)", coqfmt.ZF(int64(pd.fi)), coqfmt.ZF(int64(pd.ci)), v.Coq())
			desc := map[string]interface{}{"kind": "const", "unit": pd.u.Key, "options": pd.u.Options, "file": pd.f.Filename,
				"name": string(ac.Name), "type_category": ac.Type.Category.String(), "way": constKind(ac.Value),
				"observed": json.RawMessage(outs[i]), "file_text": fileText(pd.p, pd.f.Filename)}
			addCase(pd.p, prog, term, desc, !trivialConst(ac.Value), pd.u.Key+"|"+pd.f.Filename+"|c|"+string(ac.Name))
		case "new":
			var o struct {
				New   json.RawMessage `json:"new"`
				Init  json.RawMessage `json:"init"`
				Panic bool            `json:"panic"`
			}
			json.Unmarshal(outs[i], &o)
			vn, vi := parseVal(o.New), parseVal(o.Init)
			if o.Panic {
				vn, vi = valgen.Bad(), valgen.Bad()
			}
			nd := 0
			for _, fd := range pd.as.Fields {
				if fd.Default != nil {
					nd++
				}
			}
			term := fmt.Sprintf("(KNew %s %s %s %s)", coqfmt.ZF(int64(pd.fi)), coqfmt.ZF(int64(pd.s.Index)), vn.Coq(), vi.Coq())
			desc := map[string]interface{}{"kind": "new", "unit": pd.u.Key, "options": pd.u.Options, "file": pd.f.Filename,
				"name": pd.s.IDL, "defaults": nd, "observed": json.RawMessage(outs[i]), "file_text": fileText(pd.p, pd.f.Filename)}
			addCase(pd.p, prog, term, desc, nd > 0, pd.u.Key+"|"+pd.f.Filename+"|n|"+pd.s.IDL)
		}
	}
	for i, pd := range pends2 {
		prog := pd.u.Names.Program
		switch pd.kind {
		case "c06get":
			var o struct {
				Obj     json.RawMessage   `json:"obj"`
				Getters []json.RawMessage `json:"getters"`
				IsSet   []json.RawMessage `json:"isset"`
				Panic   bool              `json:"panic"`
				Msg     string            `json:"msg"`
			}
			json.Unmarshal(outs2[i], &o)
			obj := parseVal(o.Obj)
			var gs, is []string
			for _, g := range o.Getters {
				var pair []json.RawMessage
				json.Unmarshal(g, &pair)
				var id int64
				json.Unmarshal(pair[0], &id)
				gs = append(gs, "("+coqfmt.ZF(id)+", "+parseVal(pair[1]).Coq()+")")
			}
			for _, g := range o.IsSet {
				var pair []json.RawMessage
				json.Unmarshal(g, &pair)
				var id int64
				var bb bool
				json.Unmarshal(pair[0], &id)
				json.Unmarshal(pair[1], &bb)
				is = append(is, "("+coqfmt.ZF(id)+", "+coqfmt.Bool(bb)+")")
			}
			if o.Panic {
				obj = valgen.Bad()
			}
			term := fmt.Sprintf("(KGet %s %s %s %s %s)", coqfmt.ZF(int64(pd.fi)), coqfmt.ZF(int64(pd.s.Index)), obj.Coq(), coqfmt.List(gs), coqfmt.List(is))
			desc := map[string]interface{}{"kind": "get", "script": pd.tag, "unit": pd.u.Key, "options": pd.u.Options, "file": pd.f.Filename,
				"name": pd.s.IDL, "observed": json.RawMessage(outs2[i]), "file_text": fileText(pd.p, pd.f.Filename)}
			addCase(pd.p, prog, term, desc, true, pd.u.Key+"|"+pd.f.Filename+"|g|"+pd.s.IDL+"|"+pd.tag)
		case "c06init":
			var o struct {
				Before json.RawMessage `json:"before"`
				After  json.RawMessage `json:"after"`
				Panic  bool            `json:"panic"`
			}
			json.Unmarshal(outs2[i], &o)
			x, y := parseVal(o.Before), parseVal(o.After)
			if o.Panic {
				x, y = valgen.Bad(), valgen.Bad()
			}
			term := fmt.Sprintf("(KInit %s %s %s %s)", coqfmt.ZF(int64(pd.fi)), coqfmt.ZF(int64(pd.s.Index)), x.Coq(), y.Coq())
			desc := map[string]interface{}{"kind": "init", "script": pd.tag, "unit": pd.u.Key, "options": pd.u.Options, "file": pd.f.Filename,
				"name": pd.s.IDL, "observed": json.RawMessage(outs2[i]), "file_text": fileText(pd.p, pd.f.Filename)}
			addCase(pd.p, prog, term, desc, true, pd.u.Key+"|"+pd.f.Filename+"|i|"+pd.s.IDL+"|"+pd.tag)
		}
	}

	for i, pd := range pends3 {
		prog := pd.u.Names.Program
		switch pd.kind {
		case "c06hist":
			var o struct {
				A       json.RawMessage   `json:"a"`
				BInit   json.RawMessage   `json:"b_init"`
				BNew    json.RawMessage   `json:"b_new"`
				Obj     json.RawMessage   `json:"obj"`
				Mutated []int             `json:"mutated"`
				Getters []json.RawMessage `json:"getters"`
				IsSet   []json.RawMessage `json:"isset"`
				Panic   bool              `json:"panic"`
			}
			json.Unmarshal(outs3[i], &o)
			if len(o.Mutated) == 0 && !o.Panic {
				st.HistoriesWithoutEdit++
				continue
			}
			vn, vi, obj := parseVal(o.BNew), parseVal(o.BInit), parseVal(o.Obj)
			if o.Panic {
				vn, vi, obj = valgen.Bad(), valgen.Bad(), valgen.Bad()
			}
			term := fmt.Sprintf("(KHist %s %s %s %s)", coqfmt.ZF(int64(pd.fi)), coqfmt.ZF(int64(pd.s.Index)), vn.Coq(), vi.Coq())
			desc := map[string]interface{}{"kind": "hist", "script": pd.tag, "unit": pd.u.Key, "options": pd.u.Options, "file": pd.f.Filename,
				"name": pd.s.IDL, "observed": json.RawMessage(outs3[i]), "file_text": fileText(pd.p, pd.f.Filename)}
			addCase(pd.p, prog, term, desc, true, pd.u.Key+"|"+pd.f.Filename+"|h|"+pd.s.IDL+"|"+pd.tag)
			var gs, is []string
			for _, g := range o.Getters {
				var pair []json.RawMessage
				json.Unmarshal(g, &pair)
				var id int64
				json.Unmarshal(pair[0], &id)
				gs = append(gs, "("+coqfmt.ZF(id)+", "+parseVal(pair[1]).Coq()+")")
			}
			for _, g := range o.IsSet {
				var pair []json.RawMessage
				json.Unmarshal(g, &pair)
				var id int64
				var bb bool
				json.Unmarshal(pair[0], &id)
				json.Unmarshal(pair[1], &bb)
				is = append(is, "("+coqfmt.ZF(id)+", "+coqfmt.Bool(bb)+")")
			}
			term = fmt.Sprintf("(KHistGet %s %s %s %s %s)", coqfmt.ZF(int64(pd.fi)), coqfmt.ZF(int64(pd.s.Index)), obj.Coq(), coqfmt.List(gs), coqfmt.List(is))
			desc2 := map[string]interface{}{"kind": "hist-get", "script": pd.tag, "unit": pd.u.Key, "options": pd.u.Options, "file": pd.f.Filename,
				"name": pd.s.IDL, "observed": json.RawMessage(outs3[i]), "file_text": fileText(pd.p, pd.f.Filename)}
			addCase(pd.p, prog, term, desc2, true, pd.u.Key+"|"+pd.f.Filename+"|hg|"+pd.s.IDL+"|"+pd.tag)
		case "c06decode":
			var o struct {
				Err     string          `json:"err"`
				N       int             `json:"n"`
				Mutated []int           `json:"mutated"`
				E1      json.RawMessage `json:"e1"`
				Panic   bool            `json:"panic"`
			}
			json.Unmarshal(outs3[i], &o)
			if !o.Panic && (o.Err != "ok" || o.N != 2 || len(o.Mutated) == 0) {
				st.DecodesSkipped++ // the element has required fields (Read refuses) or nothing to edit
				continue
			}
			e1 := parseVal(o.E1)
			if o.Panic {
				e1 = valgen.Bad()
			}
			term := fmt.Sprintf("(KHist %s %s %s %s)", coqfmt.ZF(int64(pd.fi)), coqfmt.ZF(int64(pd.ci)), e1.Coq(), e1.Coq())
			desc := map[string]interface{}{"kind": "hist", "script": pd.tag, "unit": pd.u.Key, "options": pd.u.Options, "file": pd.f.Filename,
				"name": pd.s.IDL, "observed": json.RawMessage(outs3[i]), "file_text": fileText(pd.p, pd.f.Filename)}
			addCase(pd.p, prog, term, desc, true, pd.u.Key+"|"+pd.f.Filename+"|hd|"+pd.s.IDL+"|"+fmt.Sprint(i))
		}
	}

	keys := make([]string, 0, len(writers))
	for k := range writers {
		keys = append(keys, k)
	}
	sort.Strings(keys)
	for _, k := range keys {
		w := writers[k]
		if err := w.Close(); err != nil {
			fmt.Fprintln(os.Stderr, err)
			os.Exit(1)
		}
		for _, s := range w.Shards {
			meta.Shards = append(meta.Shards, k+"/"+s)
		}
		meta.Total += w.Total()
	}
	if err := casefile.WriteMeta(*out, meta); err != nil {
		fmt.Fprintln(os.Stderr, err)
		os.Exit(1)
	}
	mark("write cases")
	fmt.Printf("c06: phases (s): %v\n", phase)
	fmt.Printf("c06: %d programs (%d corpus, %d generated), %d units, %d cases, %d rejected by the implementation, %d units not compiling\n",
		st.Programs, st.CorpusPrograms, st.GeneratedProgs, st.Units, meta.Total, st.RejectedByImpl, st.UnitsNotCompiled)
}
