"""C16 — trimming keeps exactly what kept services need; meaning is unchanged (tool/trimmer/trim)."""
import json
import os
import vlib


class S(vlib.Spec):
    prop = "C16"
    design_ref = "DESIGN.md section 3 / C16"
    coq_targets = ["Props/C16.vo", "Corr/C16.vo"]
    props_file = "Props/C16.v"
    harness_pkg = "./cmd/c16"
    harness_name = "c16"
    corr_codes = {1, 9}
    code_names = {
        1: "model and implementation disagree",
        9: "model or specification closure out of fuel",
        2: "a definition or include the specification needs is missing from the trimmed program",
        3: "the trimmed program contains a struct-like nothing needs",
        4: "the trimmed program contains an include nothing needs",
        5: "the trimmed program does not pass semantic analysis (or a reference dangles)",
        6: "trimming the trimmed program again changed it",
        7: "with a method filter a function remained that matches no pattern",
        8: "a kept definition differs from the original",
        10: "a constant, typedef or enum of the input is missing from the trimmed program",
        11: "input case is not a well-formed resolved program",
        12: "TrimAST panicked",
        13: "input outside the domain of C16_trim_resolves_all (not resolvable / lists not by kind / base-service reference not the chosen include)",
    }
    modelled = ("tool/trimmer/trim: doTrimAST (pattern qualification, regexp compilation), markAST, preProcess, markKeptPart, "
                "markService, traceExtendMethod, markFunction, markType, markStructLike, markTypeDef, markEnum, markInclude, "
                "cleanServiceExtends, checkPreserve, loadPreserveFiles, traversal, and the effect of the final CheckAll + "
                "ResolveSymbols on an already resolved AST (include renumbering, Include.Used, Name2Category) -> coq/Idl/Trim.v; "
                "hand-written, tied by correspondence on every run (full structural equality of the resulting AST)")
    trusted_base = [
        "hand-written model coq/Idl/Trim.v (mirrors mark.go / pre-process.go / traversal.go / doTrimAST statement by statement; pointer identity of AST nodes = Filename + position)",
        "the regexp engines are Section variables of the model: regexp2 MatchString / Compile for -m patterns and Go regexp for the @preserve comment; the harness evaluates them with the same engines for every question the model can ask",
        "harness/astdump + harness/idlast (real *parser.Thrift -> Coq term, shared IDL core), harness/cmd/c16 (program generator, drives trim.TrimAST in-process, the trimmer binary and thriftgo -g go:trim_idl), harness/idlgen RenderFile (re-parsing the observed output), lib/vlib.py",
        "Idl/Resolve*.v, Idl/Resolvable*.v (C05): their definitions of resolvable / occ_good are used in the statement of C16_trim_resolves, and resolve_complete in its proof",
        "preserved_files are compared as recorded Filenames (the Go code compares absolute paths); identifiers are ASCII (toGoName)",
    ]
    assumptions = ["programs are accepted by parser + checker + resolver (rejected ones are counted and skipped)",
                   "no circular `extends` (the semantic pass accepts them; traceExtendMethod does not terminate on them)"]

    def translators(self, ctx):
        """Idl/TrimWitness.v = the real resolved AST of the known-finding trigger (parser + semantic pass of /repo)."""
        ok, log, binp = vlib.go_build(self.harness_pkg, self.harness_name)
        if not ok:
            return ["witness not regenerated: harness build failed"]
        tmp = os.path.join(ctx.scratch, "TrimWitness.v")
        rc, out = vlib.sh([binp, "-witness", tmp], cwd=ctx.scratch, timeout=120)
        if rc != 0 or not os.path.exists(tmp):
            return ["witness not regenerated: %s" % out[-300:]]
        changed = vlib.write_if_changed(os.path.join(vlib.COQ, "Idl", "TrimWitness.v"), open(tmp).read())
        return ["c16 -witness -> coq/Idl/TrimWitness.v (%s)" % ("changed" if changed else "unchanged")]

    def producer_args(self, ctx):
        args = ["-seed", str(ctx.seed), "-tier", ctx.tier, "-out", ctx.out, "-repo", vlib.REPO]
        if ctx.tier == "thorough":
            okb, logb, tg = vlib.build_thriftgo()
            if not okb:
                raise RuntimeError("thriftgo build failed: " + logb[-2000:])
            trimmer = os.path.join(vlib.BIN, "trimmer")
            with vlib.Lock("go"):
                rc, out = vlib.sh(["go", "build", "-tags", "verif", "-o", trimmer, "./tool/trimmer"], cwd=vlib.REPO, timeout=900)
            if rc != 0:
                raise RuntimeError("trimmer build failed: " + out[-2000:])
            args += ["-thriftgo", tg, "-trimmer", trimmer]
        return args

    def classify(self, code, case):
        cfg = (case or {}).get("config", {})
        filt = bool(cfg.get("methods"))
        has_extends = any(" extends " in t for t in (case or {}).get("files", {}).values())
        if code == 4 and filt and has_extends:
            return "C16-method-filter-include-kept-after-extends-cleared"
        if code == 6 and filt and has_extends:
            return "C16-method-filter-second-trim-differs"
        names = {2: "needed-definition-missing", 3: "unneeded-struct-like-kept", 4: "unneeded-include-kept",
                 5: "trimmed-program-invalid", 6: "second-trim-differs", 7: "non-matching-method-kept",
                 8: "kept-definition-changed", 10: "always-kept-definition-missing", 11: "input-not-well-formed",
                 12: "trimast-panic", 13: "input-outside-resolves-domain"}
        return "C16-%s" % names.get(code, "code-%d" % code)

    def extra_checks(self, ctx):
        out = []
        st = ctx.meta.get("stats", {})
        for r in st.get("process_checks") or []:
            if not r.get("ok"):
                out.append(("C16-process-%s" % r.get("kind"), "%s: %s" % (r.get("kind"), r.get("name")), r))
        if ctx.tier == "thorough" and not (st.get("process_checks") or []):
            out.append(("C16-process-checks-missing", "the thorough tier produced no process-level results", {}))
        return out

    def search(self, ctx):
        return None


def run(tier):
    return vlib.standard_run(S(), tier)


def replay(path):
    obj = json.load(open(path))
    print(json.dumps(obj, indent=1)[:6000])
    return 0
