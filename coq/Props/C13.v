(* Props/C13.v — property C13: field-mask filtered serialization emits exactly the selected data.
   Statements only; models in Wire/Masked.v (on Wire/Std.v and the field-mask library model
   Mask/Trie.v of property C14), proofs in Wire/MaskedFacts.v.

   cfg : mcfg             generator options field_mask_halfway / field_mask_zero_required (and
                          [pinned]: the list/set pre-count loop of the pinned source, kept only for
                          the witness list_hdr_count_refuted)
   m : option mask        p._fieldmask; None is the nil mask
   to_wire_masked         X.Write under the mask: a raw wire tree whose container headers carry the
                          count computed by the generated pre-count loop
   restrict_mask rq       the value a peer ends up with, defined from the answers of
                          Field / Int / Str alone; restrict_ps black rq the same from a path SET
   The theorems hold for EVERY mask (any tree of the library's FieldMask type, whether or not
   NewFieldMask can build it), every schema, every well-typed value. *)
From Coq Require Import List ZArith Bool Lia.
From Verif Require Import Base.Bytes Base.BE Wire.TType Wire.WVal Wire.Codec Wire.CodecFacts
  Wire.Schema Wire.Value Wire.Std Wire.StdFacts Wire.Masked Wire.MaskedFacts.
From Verif Require Mask.Path Mask.Desc Mask.Trie Mask.Spec.
Import ListNotations.
Open Scope Z_scope.

(* ---- well-formed encoding ---- *)

(* the generated pre-count loop gives the number of elements the filtering loop writes: every
   mask, every key function (list index, int key, string key), every list *)
Theorem C13_hdr_count_eq_written : forall A (key : nat -> A -> qkey) (m : option mask) (l : list A),
  hdr_count (option mask) mquery mlive key m l = count_sel (option mask) mquery key m 0 l.
Proof. exact @hdr_count_eq_written_mask. Qed.
Print Assumptions C13_hdr_count_eq_written.

(* every list / set / map header count of what Write emits under a mask equals the number of
   elements that follow, so the bytes are the standard encoding of a generic wire value *)
Theorem C13_masked_well_formed : forall cfg m e s v r,
  pinned cfg = false -> to_wire_masked cfg m e s v = Ok r ->
  counts_ok r = true /\ enc_r r = enc (cook r).
Proof. exact masked_counts. Qed.
Print Assumptions C13_masked_well_formed.

(* ... and it decodes: at byte level, for a well-typed value *)
Theorem C13_masked_bytes_decode : forall cfg m e s v,
  pinned cfg = false -> wf_env e = true -> find_struct e (s_name s) = Some s -> wt e s v = true ->
  (zero_required cfg = true -> zero_okb e = true) ->
  exists bs, write_bytes_masked cfg m e s v = Ok bs /\
    forall rest, read_bytes e s (new_struct e s) (bs ++ rest)
                 = Ok (restrict_mask (wmode cfg) e m (TRef (s_name s)) v).
Proof. exact masked_write_bytes. Qed.
Print Assumptions C13_masked_bytes_decode.

(* historical witness: the pre-count loop of the pinned source (bound = the counter it decrements)
   writes header 2 followed by one element for $.l[3] over four elements; the bytes do not decode *)
From Coq Require Import String.
Local Open Scope string_scope.
Definition w_S : sschema := mkstruct (B "a.S") KStruct [mkfield 1 (B "l") Default (TList TI32) None false].
Definition w_E : env := mkenv [w_S] [].
Definition w_v : value := VStruct [(1, VList [VInt 40; VInt 41; VInt 42; VInt 43])].
Definition w_pinned : mcfg := mkcfg false false true.

Theorem C13_list_hdr_count_refuted :
  exists m r, mask_for w_E w_S false [B "$.l[3]"] = Mask.Trie.Ok m /\
    to_wire_masked w_pinned (Some m) w_E w_S w_v = Ok r /\
    r = RStruct [(T_LIST, 1, RList T_I32 2 [RV (WI32 43)])] /\
    counts_ok r = false /\ dec_struct (enc_r r) = None.
Proof.
  eexists. eexists. split; [vm_compute; reflexivity|]. split; [vm_compute; reflexivity|].
  split; [reflexivity|]. split; vm_compute; reflexivity.
Qed.
Print Assumptions C13_list_hdr_count_refuted.

(* the same input with the loop as generated now: count 1, one element, decodes *)
Example C13_list_hdr_count_now :
  exists m r, mask_for w_E w_S false [B "$.l[3]"] = Mask.Trie.Ok m /\
    to_wire_masked (mkcfg false false false) (Some m) w_E w_S w_v = Ok r /\
    counts_ok r = true /\ dec_struct (enc_r r) = Some (WStruct [(T_LIST, 1, WList T_I32 [WI32 43])], []).
Proof.
  eexists. eexists. split; [vm_compute; reflexivity|]. split; [vm_compute; reflexivity|]. split; vm_compute; reflexivity.
Qed.

(* ---- exactly the selected data ---- *)

(* Write under a mask, decoded by a plain peer into a fresh object, is the restriction of the value *)
Theorem C13_masked_write_spec : forall cfg m e s v,
  wf_env e = true -> find_struct e (s_name s) = Some s -> wt e s v = true ->
  (zero_required cfg = true -> zero_okb e = true) ->
  exists r, to_wire_masked cfg m e s v = Ok r /\
            read_new e s (cook r) = Ok (restrict_mask (wmode cfg) e m (TRef (s_name s)) v).
Proof. exact masked_write_value. Qed.
Print Assumptions C13_masked_write_spec.

(* plain Write, Read under a mask into a fresh object: exactly the selected part is stored, the
   rest is skipped without error (filtered required fields do not count as missing) *)
Theorem C13_masked_read_spec : forall cfg m e s v,
  wf_env e = true -> find_struct e (s_name s) = Some s -> wt e s v = true ->
  exists wfs, to_wire e s v = Ok (WStruct wfs) /\
              read_new_masked cfg m e s (WStruct wfs) = Ok (restrict_mask RqDrop e m (TRef (s_name s)) v).
Proof. exact masked_read_value. Qed.
Print Assumptions C13_masked_read_spec.

(* the restriction in terms of a path SET: whenever the mask answers along every position as the
   path-set semantics of C14 does (C14's build_sound: every mask NewFieldMask builds from a
   conflict-free, well-typed path list; black lists without a trailing star), restrict_mask is
   restrict_ps: white list - present iff a path covers the position or runs through it; black
   list - iff no path ends at it or above it; required fields kept / zeroed / dropped *)
Theorem C13_restrict_mask_pathset : forall black ps m rq e t v,
  (forall q, Mask.Trie.walk m q = Mask.Spec.spec_pass black ps q) ->
  restrict_mask rq e m t v = restrict_ps black rq e ps t v.
Proof. exact restrict_mask_pathset. Qed.
Print Assumptions C13_restrict_mask_pathset.

Theorem C13_masked_write_pathset : forall cfg black ps m e s v,
  wf_env e = true -> find_struct e (s_name s) = Some s -> wt e s v = true ->
  (zero_required cfg = true -> zero_okb e = true) ->
  (forall q, Mask.Trie.walk m q = Mask.Spec.spec_pass black ps q) ->
  exists r, to_wire_masked cfg m e s v = Ok r /\
            read_new e s (cook r) = Ok (restrict_ps black (wmode cfg) e ps (TRef (s_name s)) v).
Proof. exact masked_write_pathset. Qed.
Print Assumptions C13_masked_write_pathset.

Theorem C13_masked_read_pathset : forall cfg black ps m e s v,
  wf_env e = true -> find_struct e (s_name s) = Some s -> wt e s v = true ->
  (forall q, Mask.Trie.walk m q = Mask.Spec.spec_pass black ps q) ->
  exists wfs, to_wire e s v = Ok (WStruct wfs) /\
              read_new_masked cfg m e s (WStruct wfs) = Ok (restrict_ps black RqDrop e ps (TRef (s_name s)) v).
Proof. exact masked_read_pathset. Qed.
Print Assumptions C13_masked_read_pathset.

(* the residual path sets of the specification answer, along every position, as Mask.Spec.spec_pass *)
Theorem C13_ps_walk_spec : forall black ps q, ps_walk black ps q = Mask.Spec.spec_pass black ps q.
Proof. exact ps_walk_spec. Qed.
Print Assumptions C13_ps_walk_spec.

(* ---- the nil mask ---- *)

(* a nil mask behaves exactly like code generated without the option: same wire value or same
   error, same bytes; same result of Read for every start object and every input *)
Theorem C13_nil_mask_identity_write : forall cfg e s v,
  map_res cook (to_wire_masked cfg None e s v) = to_wire e s v.
Proof. exact nil_mask_write. Qed.
Print Assumptions C13_nil_mask_identity_write.

Theorem C13_nil_mask_identity_bytes : forall cfg e s v, pinned cfg = false ->
  write_bytes_masked cfg None e s v = write_bytes e s v.
Proof. exact nil_mask_write_bytes. Qed.
Print Assumptions C13_nil_mask_identity_bytes.

Theorem C13_nil_mask_identity_read : forall cfg e s init w,
  from_wire_masked cfg None e s init w = from_wire e s init w.
Proof. exact nil_mask_read. Qed.
Print Assumptions C13_nil_mask_identity_read.

Theorem C13_nil_mask_identity_read_bytes : forall cfg e s init bs,
  read_bytes_masked cfg None e s init bs = read_bytes e s init bs.
Proof. exact nil_mask_read_bytes. Qed.
Print Assumptions C13_nil_mask_identity_read_bytes.

(* '*'-like selection: the nil mask restricts to the plain round trip of property C02 *)
Theorem C13_restrict_nil_mask : forall rq e t v, restrict_mask rq e None t v = norm e t v.
Proof. exact restrict_nil_mask. Qed.
Print Assumptions C13_restrict_nil_mask.

(* ---- sub masks apply recursively ---- *)

Theorem C13_submask_recursive : forall rq e m n s fs,
  find_struct e n = Some s ->
  restrict_mask rq e m (TRef n) (VStruct fs) =
  VStruct (map (fun p =>
     match find_field (fst p) (s_fields s) with
     | Some f =>
         if present f (snd p) && snd (mquery m (QF (f_id f))) then
           (fst p, if base_ptr f
                   then match snd p with VSome x => VSome (restrict_mask rq e (fst (mquery m (QF (f_id f)))) (f_ty f) x) | o => o end
                   else restrict_mask rq e (fst (mquery m (QF (f_id f)))) (f_ty f) (snd p))
         else restrict_fn (option mask) mquery None e rq m s p
     | None => p end) fs).
Proof. exact submask_recursive. Qed.
Print Assumptions C13_submask_recursive.

(* the code: the payload of a selected field is written under the sub mask Field(id) returned
   (Set_FieldMask / Pass_FieldMask), list elements under the sub mask Int(i) returned *)
Theorem C13_submask_field : forall cfg e m s f x,
  find_field (f_id f) (s_fields s) = Some f -> present f x = true -> base_ptr f = false ->
  snd (mquery m (QF (f_id f))) = true ->
  wfield_m (option mask) mquery mlive None mall cfg e m s (f_id f, x) =
  bind (to_wm_mask cfg e (fst (mquery m (QF (f_id f)))) (f_ty f) x)
       (fun r => Ok (Some (ttype_of e (f_ty f), f_id f, r))).
Proof. exact submask_field. Qed.
Print Assumptions C13_submask_field.

(* ---- the hypotheses are satisfiable ---- *)

Example C13_domain_inhabited :
  wf_env w_E = true /\ find_struct w_E (s_name w_S) = Some w_S /\ wt w_E w_S w_v = true /\ zero_okb w_E = true.
Proof. vm_compute. repeat split; reflexivity. Qed.
