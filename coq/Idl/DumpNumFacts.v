(* Idl/DumpNumFacts.v — property C17, part 6: what fmt.Sprintf("%d") writes is read back by
   strconv.ParseInt as the same number (constants and enum values: base 0, 64 bits; field ids:
   base 10 unless prefixed, 32 bits). *)
From Coq Require Import List Bool NArith ZArith Lia Arith.
From Coq.Strings Require Import Byte.
From Verif Require Import Base.Bytes Idl.Lex Idl.Dump Idl.DumpFacts.
Import ListNotations.

Definition digit_of (k : N) : byte := match Byte.of_N (48 + k)%N with Some b => b | None => x30 end.

Lemma ten_cases (k : N) : (k < 10)%N ->
  (k = 0 \/ k = 1 \/ k = 2 \/ k = 3 \/ k = 4 \/ k = 5 \/ k = 6 \/ k = 7 \/ k = 8 \/ k = 9)%N.
Proof. lia. Qed.

Lemma hex_val_digit k : (k < 10)%N -> hex_val (digit_of k) = Some (Z.of_N k).
Proof.
  intro H. destruct (ten_cases k H) as [->|[->|[->|[->|[->|[->|[->|[->|[->| ->]]]]]]]]]; reflexivity.
Qed.

(* a leading digit 1..9 is neither a sign nor a zero *)
Lemma lead_digit k : (1 <= k)%N -> (k < 10)%N ->
  Byte.eqb (digit_of k) c_minus = false /\ Byte.eqb (digit_of k) c_plus = false /\ Byte.eqb (digit_of k) c_0 = false.
Proof.
  intros H1 H. destruct (ten_cases k H) as [->|[->|[->|[->|[->|[->|[->|[->|[->| ->]]]]]]]]];
    try lia; repeat split; reflexivity.
Qed.

Lemma magnitude_digit a k rest : (k < 10)%N ->
  magnitude 10 a (digit_of k :: rest) = magnitude 10 (a * 10 + Z.of_N k) rest.
Proof.
  intro H. cbn [magnitude]. rewrite (hex_val_digit k H).
  assert (E : (Z.of_N k <? 10)%Z = true) by (apply Z.ltb_lt; lia). rewrite E. reflexivity.
Qed.

(* the digits of n > 0: a leading digit 1..9, and their value in base 10 is n *)
Lemma digits_pos_spec : forall f n acc, (0 < n)%N -> (n < 2 ^ N.of_nat f)%N ->
  exists k0 t kk,
    digits_pos f n acc = (digit_of k0 :: t) ++ acc /\ (1 <= k0)%N /\ (k0 < 10)%N /\
    forall a rest, magnitude 10 a ((digit_of k0 :: t) ++ rest) = magnitude 10 (a * kk + Z.of_N n) rest.
Proof.
  induction f as [|f IH]; intros n acc Hpos Hlt.
  - cbn in Hlt. lia.
  - cbn [digits_pos]. fold (digit_of (n mod 10)).
    assert (Hm : (n mod 10 < 10)%N) by (apply N.mod_lt; discriminate).
    destruct (n <? 10)%N eqn:E.
    + apply N.ltb_lt in E. rewrite (N.mod_small n 10 E). exists n, [], 10%Z.
      split; [reflexivity|]. split; [lia|]. split; [exact E|].
      intros a rest. cbn [app]. apply magnitude_digit. exact E.
    + apply N.ltb_ge in E.
      assert (Hq : (0 < n / 10)%N) by (apply N.div_str_pos; lia).
      assert (Hql : (n / 10 < 2 ^ N.of_nat f)%N).
      { apply N.div_lt_upper_bound; [discriminate|].
        rewrite Nat2N.inj_succ, N.pow_succ_r' in Hlt. lia. }
      destruct (IH (n / 10)%N (digit_of (n mod 10) :: acc) Hq Hql) as (k0 & t & kk & Ed & H1 & H2 & Hmag).
      exists k0, (t ++ [digit_of (n mod 10)]), (kk * 10)%Z.
      split.
      { rewrite Ed. cbn [app]. rewrite <- app_assoc. reflexivity. }
      split; [exact H1|]. split; [exact H2|].
      intros a rest.
      replace ((digit_of k0 :: t ++ [digit_of (n mod 10)]) ++ rest)
        with ((digit_of k0 :: t) ++ (digit_of (n mod 10) :: rest)) by (cbn [app]; rewrite <- app_assoc; reflexivity).
      rewrite Hmag, (magnitude_digit _ _ _ Hm). f_equal.
      assert (En : n = (10 * (n / 10) + n mod 10)%N) by (apply N.div_mod'; discriminate).
      rewrite En at 3. lia.
Qed.

Lemma digitsN_spec n : (0 < n)%N ->
  exists k0 t, digitsN n = digit_of k0 :: t /\ (1 <= k0)%N /\ (k0 < 10)%N /\
               magnitude 10 0 (digit_of k0 :: t) = Some (Z.of_N n).
Proof.
  intro Hpos. unfold digitsN.
  assert (Hlt : (n < 2 ^ N.of_nat (S (N.to_nat (N.log2 n))))%N).
  { rewrite Nat2N.inj_succ, N2Nat.id. apply N.log2_spec. exact Hpos. }
  destruct (digits_pos_spec _ n [] Hpos Hlt) as (k0 & t & kk & Ed & H1 & H2 & Hmag).
  exists k0, t. rewrite Ed, app_nil_r. repeat split; try assumption.
  specialize (Hmag 0%Z []). rewrite app_nil_r in Hmag. rewrite Hmag. reflexivity.
Qed.

(* strconv.ParseInt on the decimal spelling of a non-zero number: the radix rules never see a
   prefix, the magnitude is the number *)
Lemma go_parse_int_digits rule bits (neg : bool) n :
  (0 < n)%N ->
  let v := if neg then (- Z.of_N n)%Z else Z.of_N n in
  (- 2 ^ (bits - 1) <= v <= 2 ^ (bits - 1) - 1)%Z ->
  go_parse_int rule bits ((if neg then [c_minus] else []) ++ digitsN n) = (v, true).
Proof.
  intros Hpos v Hr.
  destruct (digitsN_spec n Hpos) as (k0 & t & Ed & H1 & H2 & Hmag).
  destruct (lead_digit k0 H1 H2) as (Em & Ep & E0).
  rewrite Ed. unfold go_parse_int.
  assert (Hbody : (let '(base, ds) :=
            match digit_of k0 :: t with
            | z :: p :: r =>
              if Byte.eqb z c_0 && Byte.eqb p c_x then (16%Z, r)
              else if Byte.eqb z c_0 && Byte.eqb p c_o then (8%Z, r)
              else match rule with
                   | Base0 => if Byte.eqb z c_0 then (8%Z, p :: r) else (10%Z, digit_of k0 :: t)
                   | Base10Prefixed => (10%Z, digit_of k0 :: t)
                   end
            | _ => (10%Z, digit_of k0 :: t)
            end in (base, ds)) = (10%Z, digit_of k0 :: t)).
  { destruct t as [|p r]; [reflexivity|]. rewrite E0. cbn [andb]. destruct rule; reflexivity. }
  destruct neg; cbn [app].
  - assert (Eh : Byte.eqb c_minus c_minus = true) by reflexivity. rewrite Eh.
    destruct t as [|p r].
    + rewrite Hmag. subst v.
      destruct (- Z.of_N n >? 2 ^ (bits - 1) - 1)%Z eqn:G1; [apply Z.gtb_lt in G1; lia|].
      destruct (- Z.of_N n <? - 2 ^ (bits - 1))%Z eqn:G2; [apply Z.ltb_lt in G2; lia|]. reflexivity.
    + rewrite E0. cbn [andb]. destruct rule; rewrite Hmag; subst v;
      (destruct (- Z.of_N n >? 2 ^ (bits - 1) - 1)%Z eqn:G1; [apply Z.gtb_lt in G1; lia|];
       destruct (- Z.of_N n <? - 2 ^ (bits - 1))%Z eqn:G2; [apply Z.ltb_lt in G2; lia|]; reflexivity).
  - rewrite Em, Ep.
    destruct t as [|p r].
    + rewrite Hmag. subst v.
      destruct (Z.of_N n >? 2 ^ (bits - 1) - 1)%Z eqn:G1; [apply Z.gtb_lt in G1; lia|].
      destruct (Z.of_N n <? - 2 ^ (bits - 1))%Z eqn:G2; [apply Z.ltb_lt in G2; lia|]. reflexivity.
    + rewrite E0. cbn [andb]. destruct rule; rewrite Hmag; subst v;
      (destruct (Z.of_N n >? 2 ^ (bits - 1) - 1)%Z eqn:G1; [apply Z.gtb_lt in G1; lia|];
       destruct (Z.of_N n <? - 2 ^ (bits - 1))%Z eqn:G2; [apply Z.ltb_lt in G2; lia|]; reflexivity).
Qed.

Lemma go_parse_int_print_Z rule bits z :
  (- 2 ^ (bits - 1) <= z <= 2 ^ (bits - 1) - 1)%Z -> (1 < bits)%Z ->
  go_parse_int rule bits (print_Z z) = (z, true).
Proof.
  intros Hr Hb. destruct z as [|p|p]; cbn [print_Z].
  - unfold go_parse_int. cbn.
    assert (0 < 2 ^ (bits - 1))%Z by (apply Z.pow_pos_nonneg; lia).
    destruct (0 >? 2 ^ (bits - 1) - 1)%Z eqn:G1; [apply Z.gtb_lt in G1; lia|].
    destruct (0 <? - 2 ^ (bits - 1))%Z eqn:G2; [apply Z.ltb_lt in G2; lia|]. reflexivity.
  - apply (go_parse_int_digits rule bits false (Npos p)); [reflexivity | exact Hr].
  - apply (go_parse_int_digits rule bits true (Npos p)); [reflexivity | exact Hr].
Qed.

(* ---- the two instances used by the parser *)
Theorem int_value_print_Z z : in_i64 z = true -> int_value (print_Z z) = Some z.
Proof.
  unfold in_i64. intro H. apply andb_true_iff in H. destruct H as [H1 H2].
  apply Z.leb_le in H1. apply Z.leb_le in H2.
  unfold int_value. rewrite (go_parse_int_print_Z Base0 64 z); [reflexivity | | lia].
  change (2 ^ (64 - 1))%Z with 9223372036854775808%Z. lia.
Qed.

Theorem field_id_value_print_Z z : in_i32 z = true -> field_id_value (print_Z z) = z.
Proof.
  unfold in_i32. intro H. apply andb_true_iff in H. destruct H as [H1 H2].
  apply Z.leb_le in H1. apply Z.leb_le in H2.
  unfold field_id_value. rewrite (go_parse_int_print_Z Base10Prefixed 32 z); [reflexivity | | lia].
  change (2 ^ (32 - 1))%Z with 2147483648%Z. lia.
Qed.

Corollary enum_int_value_print_Z z : in_i64 z = true -> enum_int_value (print_Z z) = z.
Proof.
  unfold in_i64. intro H. apply andb_true_iff in H. destruct H as [H1 H2].
  apply Z.leb_le in H1. apply Z.leb_le in H2.
  unfold enum_int_value. rewrite (go_parse_int_print_Z Base0 64 z); [reflexivity | | lia].
  change (2 ^ (64 - 1))%Z with 9223372036854775808%Z. lia.
Qed.
