// Command c08: case producer for property C08 (generated client and processor carry a call end
// to end).
//
// Per run: seeded schema programs with services (schemagen.AddServices) x option sets are compiled
// once together with the reflection driver and the service glue (gendrv.WriteServiceGlue); for every
// service, sequences of calls are made through the generated client against the generated processor
// on one recording connection (driver verb rpcseq) with scripted handler outcomes; a second pass
// feeds perturbed copies of observed requests straight to the processor (rpcraw). Inputs and
// observations become Coq cases (Corr/C08.v), one set of shards per program; the shard preamble
// defines the program's env E0 and services SS.
package main

import (
	"crypto/sha256"
	"encoding/binary"
	"encoding/hex"
	"encoding/json"
	"flag"
	"fmt"
	"os"
	"path/filepath"
	"sort"
	"strings"

	"verif/harness/casefile"
	"verif/harness/coqfmt"
	"verif/harness/gendrv"
	"verif/harness/rng"
	"verif/harness/schemagen"
	"verif/harness/valgen"
)

type optSet struct {
	Key     string
	Options string
}

var quickSets = []optSet{
	{Key: "o0", Options: ""},
	{Key: "o1", Options: "naming_style=apache,compatible_names,gen_setter,nil_safe,frugal_tag,json_enum_as_text"},
}

var thoroughSets = append(append([]optSet{}, quickSets...), []optSet{
	{Key: "o2", Options: "naming_style=golint,json_stringer,reserve_comments"},
	{Key: "o3", Options: "compatible_names"},
}...)

type stats struct {
	Programs       int               `json:"programs"`
	RejectedByImpl int               `json:"rejected_by_impl"`
	RejectedSample []string          `json:"rejected_sample,omitempty"`
	Units          int               `json:"units"`
	Sequences      int               `json:"sequences"`
	Calls          int               `json:"calls"`
	RawCases       int               `json:"raw_cases"`
	Schema         map[string]int    `json:"schema"`
	Services       map[string]int    `json:"services"`
	Outcomes       map[string]int    `json:"scripted_outcomes"`
	Got            map[string]int    `json:"caller_got"`
	SeqKinds       map[string]int    `json:"sequence_kinds"`
	RawKinds       map[string]int    `json:"raw_kinds"`
	SeqLen         map[string]int    `json:"sequence_length"`
	NameClasses    map[string]int    `json:"method_name_classes"`
	OptionSets     map[string]string `json:"option_sets"`
	Evaluations    int               `json:"evaluations"`
	Distinct       int               `json:"distinct_nontrivial"`
	Rule           string            `json:"rule"`
	Samples        []interface{}     `json:"samples"`
}

type outcome struct {
	K    string        `json:"k"`
	V    *valgen.Value `json:"v,omitempty"`
	T    string        `json:"t,omitempty"`
	Text string        `json:"text,omitempty"`
}

func (o outcome) coq() string {
	switch o.K {
	case "ret":
		return "(Ret " + o.V.Coq() + ")"
	case "void":
		return "Void"
	case "throw":
		return "(Throw " + coqfmt.BytesF(o.T) + " " + o.V.Coq() + ")"
	case "err":
		return "(OtherError " + coqfmt.BytesF(o.Text) + ")"
	}
	return "Void"
}

type callIn struct {
	Svc  string          `json:"svc"`
	M    string          `json:"m"`
	Args []*valgen.Value `json:"args"`
	Out  outcome         `json:"out"`
	fn   *schemagen.Function
}

type seqCase struct {
	prog  int
	unit  *gendrv.Unit
	csvc  string
	psvc  string
	kind  string
	calls []*callIn
	cmd   int
}

type rawCase struct {
	prog int
	unit *gendrv.Unit
	psvc string
	kind string
	req  []byte
	out  outcome
	cmd  int
}

type logEntry struct {
	Svc  string          `json:"svc"`
	M    string          `json:"m"`
	Args []*valgen.Value `json:"args"`
}

type callRec struct {
	Req    string                     `json:"req"`
	Reply  string                     `json:"reply"`
	Log    []logEntry                 `json:"log"`
	Got    map[string]json.RawMessage `json:"got"`
	Unread int                        `json:"unread"`
	Left   int                        `json:"left"`
	PPanic string                     `json:"processor_panic"`
}

// orderFields puts the fields of an observed struct dump into schema order (Go field order is not an observable).
func orderFields(p *schemagen.Program, t *schemagen.Type, v *valgen.Value) {
	switch v.K {
	case "struct":
		if t.Kind != "struct" {
			return
		}
		s := p.Struct(t.Name)
		if s == nil {
			return
		}
		pos := map[int]int{}
		for i, f := range s.Fields {
			pos[f.ID] = i
		}
		sort.SliceStable(v.F, func(a, b int) bool {
			pa, oka := pos[v.F[a].ID]
			pb, okb := pos[v.F[b].ID]
			if !oka {
				pa = 1 << 20
			}
			if !okb {
				pb = 1 << 20
			}
			return pa < pb
		})
		for _, fv := range v.F {
			for _, f := range s.Fields {
				if f.ID == fv.ID {
					orderFields(p, f.Type, fv.V)
				}
			}
		}
	case "some":
		orderFields(p, t, v.P)
	case "list":
		if t.Elem != nil {
			for _, x := range v.L {
				orderFields(p, t.Elem, x)
			}
		}
	case "map":
		if t.Key != nil {
			for _, kv := range v.M {
				orderFields(p, t.Key, kv[0])
				orderFields(p, t.Elem, kv[1])
			}
		}
	}
}

func retyped(p *schemagen.Program, t *schemagen.Type, v *valgen.Value) *valgen.Value {
	if v == nil {
		return valgen.Bad()
	}
	x := valgen.Retype(p, t, v)
	orderFields(p, t, x)
	return x
}

// uncollide removes map entries whose enum-typed key equals an earlier key after the int32 truncation
// of the wire (enums are int64 in Go, i32 on the wire). Two such entries are both written, in Go's
// random map iteration order, and the reader keeps whichever comes last: the value the peer sees is
// not a function of the value passed (the model fixes the list order). Everything else about wide
// enum values (truncation of values, of set / list elements, of keys that do not collide) stays in.
func uncollide(p *schemagen.Program, t *schemagen.Type, v *valgen.Value) *valgen.Value {
	if v == nil || t == nil {
		return v
	}
	switch v.K {
	case "some":
		v.P = uncollide(p, t, v.P)
	case "list":
		for i, x := range v.L {
			v.L[i] = uncollide(p, t.Elem, x)
		}
	case "map":
		seen := map[int32]bool{}
		var out [][2]*valgen.Value
		for _, kv := range v.M {
			if t.Key != nil && t.Key.Kind == "enum" && kv[0].K == "int" {
				k := int32(kv[0].I)
				if seen[k] {
					continue
				}
				seen[k] = true
			}
			out = append(out, [2]*valgen.Value{uncollide(p, t.Key, kv[0]), uncollide(p, t.Elem, kv[1])})
		}
		if out == nil {
			out = [][2]*valgen.Value{}
		}
		v.M = out
	case "struct":
		if t.Kind == "struct" {
			if s := p.Struct(t.Name); s != nil {
				for i := range v.F {
					for _, f := range s.Fields {
						if f.ID == v.F[i].ID {
							v.F[i].V = uncollide(p, f.Type, v.F[i].V)
						}
					}
				}
			}
		}
	}
	return v
}

func nameClass(n string) string {
	for _, x := range plainNames {
		if x == n {
			return "plain"
		}
	}
	return "colliding"
}

var plainNames = []string{"ping", "get", "put", "add", "list_items", "fetchAll", "do_it", "compute", "lookup", "store",
	"query", "send", "update", "remove", "count", "echo", "sum", "find", "check", "notify"}

func main() {
	seed := flag.Uint64("seed", 1, "")
	tier := flag.String("tier", "quick", "")
	out := flag.String("out", "", "")
	tg := flag.String("thriftgo", "", "thriftgo binary built from VERIF_REPO")
	scratch := flag.String("scratch", "", "scratch directory for the generated module")
	flag.Parse()
	repo := os.Getenv("VERIF_REPO")
	if repo == "" {
		repo = "/repo"
	}
	if *out == "" || *tg == "" || *scratch == "" {
		fmt.Fprintln(os.Stderr, "usage: c08 -seed N -tier quick|thorough -out DIR -thriftgo BIN -scratch DIR")
		os.Exit(2)
	}
	r := rng.New(*seed)
	nProg, nSeq, sets := 5, 6, quickSets
	if *tier == "thorough" {
		nProg, nSeq, sets = 20, 12, thoroughSets
	}
	st := &stats{Schema: map[string]int{}, Services: map[string]int{}, Outcomes: map[string]int{}, Got: map[string]int{},
		SeqKinds: map[string]int{}, RawKinds: map[string]int{}, SeqLen: map[string]int{}, NameClasses: map[string]int{},
		OptionSets: map[string]string{},
		Rule:       "a sequence is non-trivial when it has at least 2 calls or a call with at least 2 arguments; distinct = distinct (program, option set, client, processor, calls with values and scripted outcomes); raw cases: distinct request bytes"}
	for _, o := range sets {
		st.OptionSets[o.Key] = o.Options
	}

	// 1. programs and units
	b := gendrv.New(*scratch, *tg, repo)
	var progs []*schemagen.Program
	for i := 0; i < nProg; i++ {
		pp := schemagen.DefaultParams()
		pp.MaxStructs, pp.MaxFields, pp.MaxDepth = 3, 6, 3
		pp.StructKeys = i%3 == 0
		pp.BaseTypedefs = i%4 != 2
		if i%5 == 4 {
			pp.MaxFiles = 1
		}
		if i%5 == 1 {
			pp.MaxFiles = 3
		}
		// programs 1 and 3 of every five carry same-named services in different files (3 files: the
		// homonym included earlier and later; 2 files: a local service with the name of the qualified base)
		wantFiles := 0
		if i%5 == 1 {
			wantFiles = 3
		}
		if i%5 == 3 {
			wantFiles, pp.MaxFiles = 2, 2
		}
		p := schemagen.Generate(r.Fork(), pp, fmt.Sprintf("p%d", i))
		for tries := 0; wantFiles > 0 && len(p.Files) != wantFiles && tries < 40; tries++ {
			p = schemagen.Generate(r.Fork(), pp, fmt.Sprintf("p%d", i))
		}
		sp := schemagen.DefaultServiceParams()
		sp.Collide = i%4 != 3
		sp.Homonyms = wantFiles > 0 && len(p.Files) == wantFiles
		schemagen.AddServices(r.Fork(), p, sp)
		schemagen.AddStreaming(r.Fork(), p)
		progs = append(progs, p)
		for oi, o := range sets {
			if *tier != "thorough" && oi > 0 && i%2 == 0 {
				continue // quick: the second option set on every other program only
			}
			if *tier == "thorough" && oi > 0 && oi != 1+i%(len(sets)-1) {
				continue // thorough: the default set plus one other set per program, rotating
			}
			b.Add(&gendrv.Unit{Key: o.Key + "/" + p.Key, Prog: p, Options: o.Options})
		}
	}
	st.Programs = len(progs)
	if err := b.GenerateWith(func(u *gendrv.Unit) map[string]string { return u.Prog.RenderS() }); err != nil {
		fmt.Fprintln(os.Stderr, "generate:", err)
		os.Exit(1)
	}
	rejectedProg := map[string]bool{}
	for _, rj := range b.Rejected {
		rejectedProg[rj.Unit.Prog.Key] = true
		if len(st.RejectedSample) < 3 {
			st.RejectedSample = append(st.RejectedSample, rj.Unit.Key+": "+firstLine(rj.Output))
		}
	}
	st.RejectedByImpl = len(rejectedProg)
	if len(b.Rejected) > 0 {
		// every generated program is inside what thriftgo accepts; a rejection means the compiler changed
		fmt.Fprintln(os.Stderr, "thriftgo rejected a program of the valid envelope:", b.Rejected[0].Unit.Key, firstLine(b.Rejected[0].Output))
		fmt.Fprintln(os.Stderr, b.Rejected[0].Output)
		os.Exit(1)
	}
	if err := b.WriteServiceGlue(); err != nil {
		fmt.Fprintln(os.Stderr, "service glue:", err)
		os.Exit(1)
	}
	if err := b.Build(); err != nil {
		fmt.Fprintln(os.Stderr, "build:", err)
		os.Exit(1)
	}
	st.Units = len(b.Units)
	progIndex := map[string]int{}
	for i, p := range progs {
		progIndex[p.Key] = i
		if !rejectedProg[p.Key] {
			p.Stats(st.Schema)
			p.ServiceStats(st.Services)
			for _, s := range p.Services() {
				for _, fn := range s.Functions {
					st.NameClasses[nameClass(fn.Name)]++
				}
			}
		}
	}

	// 2. call sequences
	var seqs []*seqCase
	var cmds []gendrv.Cmd
	for _, u := range b.Units {
		p := u.Prog
		pi := progIndex[p.Key]
		rr := rng.New(*seed ^ uint64(pi+1)*104729 ^ hashStr(u.Key))
		g := &valgen.G{R: rr.Fork(), Prog: p, P: valgen.DefaultParams()}
		g.P.MaxStr, g.P.MaxElems = 24, 3
		excs := []*schemagen.Struct{}
		for _, s := range p.Structs() {
			if s.Kind == "exception" {
				excs = append(excs, s)
			}
		}
		mkCall := func(m schemagen.Method) *callIn {
			fn := m.Fn
			c := &callIn{Svc: m.Owner.QName(), M: fn.Name, fn: fn, Args: []*valgen.Value{}}
			for _, a := range fn.Args {
				c.Args = append(c.Args, uncollide(p, a.Type, g.Val(a.Type, rr.Range(0, 2), false)))
			}
			// scripted outcome
			roll := rr.Intn(100)
			switch {
			case roll < 8:
				c.Out = outcome{K: "err", Text: rng.Pick(rr, []string{"boom", "x", "handler failed: 42", "\xe4\xb8\x96 error"})}
			case roll < 12 && len(excs) > 0:
				// an exception type that may or may not be declared by this function
				e := rng.Pick(rr, excs)
				c.Out = outcome{K: "throw", T: e.QName(), V: uncollide(p, &schemagen.Type{Kind: "struct", Name: e.QName()}, g.Struct(e, rr.Range(0, 2)))}
			case roll < 40 && len(fn.Throws) > 0:
				t := rng.Pick(rr, fn.Throws)
				c.Out = outcome{K: "throw", T: t.Type.Name, V: uncollide(p, &schemagen.Type{Kind: "struct", Name: t.Type.Name}, g.Struct(p.Struct(t.Type.Name), rr.Range(0, 2)))}
			case fn.Ret != nil:
				v := g.Val(fn.Ret, rr.Range(0, 2), false)
				if !valgen.IsBase(fn.Ret) && rr.Chance(1, 8) {
					v = valgen.Nil()
				}
				c.Out = outcome{K: "ret", V: uncollide(p, fn.Ret, v)}
			default:
				c.Out = outcome{K: "void"}
			}
			return c
		}
		addSeq := func(kind string, csvc, psvc *schemagen.Service, calls []*callIn) {
			sc := &seqCase{prog: pi, unit: u, csvc: csvc.QName(), psvc: psvc.QName(), kind: kind, calls: calls, cmd: len(cmds)}
			js, _ := json.Marshal(calls)
			cmds = append(cmds, gendrv.Cmd{Verb: "rpcseq", Args: []string{u.Key, sc.csvc, sc.psvc, string(js)}})
			seqs = append(seqs, sc)
		}
		for _, sv := range p.Services() {
			ms := p.Methods(sv)
			if len(ms) == 0 {
				continue
			}
			// every method once, in table order, on one connection
			var all []*callIn
			for _, m := range ms {
				all = append(all, mkCall(m))
			}
			addSeq("every_method", sv, sv, all)
			// every declared exception of every method (own and inherited) once: (method, exception) pairs
			var exs []*callIn
			for _, m := range ms {
				for _, t := range m.Fn.Throws {
					c := mkCall(m)
					c.Out = outcome{K: "throw", T: t.Type.Name, V: uncollide(p, &schemagen.Type{Kind: "struct", Name: t.Type.Name},
						g.Struct(p.Struct(t.Type.Name), rr.Range(0, 2)))}
					exs = append(exs, c)
				}
			}
			if len(exs) > 0 {
				addSeq("every_exception", sv, sv, exs)
			}
			n := nSeq
			if u.Key[:2] != "o0" {
				n = (nSeq + 2) / 3
			}
			for k := 0; k < n; k++ {
				l := rr.Range(1, 8)
				var calls []*callIn
				for j := 0; j < l; j++ {
					calls = append(calls, mkCall(rng.Pick(rr, ms)))
				}
				addSeq("random", sv, sv, calls)
			}
			if sv.Extends != "" {
				base := p.Service(sv.Extends)
				// a client of the base service against the processor of sv: every inherited method of the
				// base the IDL names must be dispatched
				var inh []*callIn
				for _, m := range p.Methods(base) {
					inh = append(inh, mkCall(m))
				}
				addSeq("base_client_derived_processor", base, sv, inh)
				// a newer client against an older processor: the client of sv talks to the processor of its base
				for k := 0; k < 2; k++ {
					l := rr.Range(1, 6)
					var calls []*callIn
					for j := 0; j < l; j++ {
						calls = append(calls, mkCall(rng.Pick(rr, ms)))
					}
					addSeq("derived_client_base_processor", sv, base, calls)
				}
			}
		}
	}
	type namesCase struct {
		prog int
		unit *gendrv.Unit
		svc  string
		cmd  int
	}
	var namesCases []*namesCase
	for _, u := range b.Units {
		for _, sv := range u.Prog.Services() {
			namesCases = append(namesCases, &namesCase{prog: progIndex[u.Prog.Key], unit: u, svc: sv.QName(), cmd: len(cmds)})
			cmds = append(cmds, gendrv.Cmd{Verb: "rpcnames", Args: []string{u.Key, sv.QName()}})
		}
	}
	results, err := b.Run(cmds)
	if err != nil {
		fmt.Fprintln(os.Stderr, "run:", err)
		os.Exit(1)
	}

	// 3. raw requests derived from observed ones
	var raws []*rawCase
	var rcmds []gendrv.Cmd
	seenRaw := map[string]bool{}
	for si, sc := range seqs {
		if sc.kind != "every_method" && si%3 != 0 {
			continue
		}
		var res struct {
			Calls []callRec `json:"calls"`
		}
		json.Unmarshal(results[sc.cmd], &res)
		rr := rng.New(*seed ^ uint64(si+1)*7919)
		for ci, cr := range res.Calls {
			if ci >= len(sc.calls) {
				break
			}
			req, _ := hex.DecodeString(cr.Req)
			name := sc.calls[ci].M
			hl := 4 + 4 + len(name) + 4
			if len(req) < hl+1 {
				continue
			}
			body := req[hl:]
			seq := req[hl-4 : hl]
			add := func(kind string, bs []byte) {
				k := sc.unit.Key + sc.psvc + string(bs)
				if seenRaw[k] {
					return
				}
				seenRaw[k] = true
				rc := &rawCase{prog: sc.prog, unit: sc.unit, psvc: sc.psvc, kind: kind, req: bs, out: sc.calls[ci].Out, cmd: len(rcmds)}
				js, _ := json.Marshal(rc.out)
				rcmds = append(rcmds, gendrv.Cmd{Verb: "rpcraw", Args: []string{sc.unit.Key, sc.psvc, hex.EncodeToString(bs), string(js)}})
				raws = append(raws, rc)
			}
			old := func(ty byte) []byte {
				var bs []byte
				var l [4]byte
				binary.BigEndian.PutUint32(l[:], uint32(len(name)))
				bs = append(bs, l[:]...)
				bs = append(bs, name...)
				bs = append(bs, ty)
				bs = append(bs, seq...)
				return append(bs, body...)
			}
			strict := func(ty byte, nm string) []byte {
				bs := []byte{0x80, 0x01, 0x00, ty}
				var l [4]byte
				binary.BigEndian.PutUint32(l[:], uint32(len(nm)))
				bs = append(bs, l[:]...)
				bs = append(bs, nm...)
				bs = append(bs, seq...)
				return append(bs, body...)
			}
			switch rr.Intn(7) {
			case 0:
				add("old_form_header", old(1))
			case 1:
				add("message_type_oneway", strict(4, name))
			case 2:
				add("message_type_other", strict(byte(rr.Range(5, 255)), name))
			case 3:
				if len(body) > 1 {
					add("truncated_body", req[:hl+rr.Intn(len(body)-1)])
				}
			case 4:
				bad := append([]byte{}, req...)
				bad[1] = 0x02
				add("bad_version", bad)
			case 5:
				add("unknown_name", strict(1, name+"_x"))
			default:
				add("truncated_header", req[:rr.Intn(hl)])
			}
			// a required argument missing: drop the whole body (only STOP)
			for _, a := range sc.calls[ci].fn.Args {
				if a.Req == "required" {
					add("required_argument_missing", append(append([]byte{}, req[:hl]...), 0))
					break
				}
			}
		}
	}
	var rresults []json.RawMessage
	if len(rcmds) > 0 {
		rresults, err = b.Run(rcmds)
		if err != nil {
			fmt.Fprintln(os.Stderr, "run raw:", err)
			os.Exit(1)
		}
	}

	// 4. cases, one writer per program
	writers := make([]*casefile.Writer, len(progs))
	var shards []string
	distinct := map[[32]byte]bool{}
	getW := func(pi int) *casefile.Writer {
		if writers[pi] == nil {
			p := progs[pi]
			dir := filepath.Join(*out, p.Key)
			os.MkdirAll(dir, 0o755)
			pre := "From Verif Require Import Base.Bytes Base.BE Wire.TType Wire.WVal Wire.Codec Wire.Schema Wire.Value Wire.Std Wire.Rpc Corr.C08.\n" +
				"From Coq Require Import List NArith ZArith String.\nImport ListNotations.\nOpen Scope string_scope.\n" +
				coqfmt.FastPreamble +
				"Definition E0 : env := " + p.Coq() + ".\n" +
				"Definition SRC : list service_src := " + p.CoqServicesSrc() + ".\n" +
				"Definition SS : list service := Eval vm_compute in map effective SRC.\n" +
				"Definition mismatches := mismatches_top E0 SS.\n"
			writers[pi] = casefile.New(dir, pre, 90)
		}
		return writers[pi]
	}
	logCoq := func(p *schemagen.Program, log []logEntry) string {
		var ls []string
		for _, le := range log {
			var as []string
			var fn *schemagen.Function
			if sv := p.Service(le.Svc); sv != nil {
				for _, f := range sv.Functions {
					if f.Name == le.M {
						fn = f
					}
				}
			}
			for i, a := range le.Args {
				if fn != nil && i < len(fn.Args) {
					as = append(as, retyped(p, fn.Args[i].Type, a).Coq())
				} else {
					as = append(as, valgen.Bad().Coq())
				}
			}
			ls = append(ls, fmt.Sprintf("(%s, %s, %s)", coqfmt.BytesF(le.Svc), coqfmt.BytesF(le.M), coqfmt.List(as)))
		}
		return coqfmt.List(ls)
	}
	for _, sc := range seqs {
		p := progs[sc.prog]
		w := getW(sc.prog)
		var res struct {
			Calls []callRec `json:"calls"`
			Panic bool      `json:"panic"`
			Msg   string    `json:"msg"`
		}
		perr := json.Unmarshal(results[sc.cmd], &res)
		desc := map[string]interface{}{"kind": "seq", "seq_kind": sc.kind, "unit": sc.unit.Key, "options": sc.unit.Options, "client": sc.csvc,
			"processor": sc.psvc, "calls": sc.calls, "program": p, "observed": json.RawMessage(results[sc.cmd])}
		if perr != nil {
			desc["parse_error"] = perr.Error()
		}
		var ins, outs []string
		nontrivial := len(sc.calls) >= 2
		for _, c := range sc.calls {
			var as []string
			for _, a := range c.Args {
				as = append(as, a.Coq())
			}
			if len(c.Args) >= 2 {
				nontrivial = true
			}
			ins = append(ins, fmt.Sprintf("(mkci %s %s %s %s)", coqfmt.BytesF(c.Svc), coqfmt.BytesF(c.M), coqfmt.List(as), c.Out.coq()))
			k := c.Out.K
			if k == "throw" {
				declared := false
				for _, t := range c.fn.Throws {
					if t.Type.Name == c.Out.T {
						declared = true
					}
				}
				if !declared {
					k = "throw_undeclared"
				}
			}
			if c.fn.Oneway {
				k = "oneway:" + k
			}
			st.Outcomes[k]++
		}
		for ci, cr := range res.Calls {
			got := "CFail"
			var gk string
			json.Unmarshal(cr.Got["k"], &gk)
			st.Got[gk]++
			var fn *schemagen.Function
			if ci < len(sc.calls) {
				fn = sc.calls[ci].fn
			}
			switch gk {
			case "ret":
				v, perr := valgen.ParseJSON(string(cr.Got["v"]))
				if perr == nil && fn != nil && fn.Ret != nil {
					got = "(CRet " + retyped(p, fn.Ret, v).Coq() + ")"
				} else {
					got = "(CRet " + valgen.Bad().Coq() + ")"
				}
			case "void":
				got = "CVoid"
			case "exc":
				var tn string
				json.Unmarshal(cr.Got["t"], &tn)
				v, perr := valgen.ParseJSON(string(cr.Got["v"]))
				if perr == nil && p.Struct(tn) != nil {
					got = "(CExc " + coqfmt.BytesF(tn) + " " + retyped(p, &schemagen.Type{Kind: "struct", Name: tn}, v).Coq() + ")"
				} else {
					got = "(CExc " + coqfmt.BytesF(tn) + " " + valgen.Bad().Coq() + ")"
				}
			case "appexc":
				var tid int64
				json.Unmarshal(cr.Got["tid"], &tid)
				got = "(CAppExc " + coqfmt.ZF(tid) + ")"
			}
			req, _ := hex.DecodeString(cr.Req)
			rep, _ := hex.DecodeString(cr.Reply)
			outs = append(outs, fmt.Sprintf("(mkco %s %s %s %s %s %s)", coqfmt.BytesF(string(req)), coqfmt.BytesF(string(rep)),
				logCoq(p, cr.Log), got, coqfmt.ZF(int64(cr.Unread)), coqfmt.ZF(int64(cr.Left))))
		}
		term := fmt.Sprintf("(CSeq %s %s %s %s)", coqfmt.BytesF(sc.csvc), coqfmt.BytesF(sc.psvc), coqfmt.List(ins), coqfmt.List(outs))
		w.Add(term, desc)
		st.Sequences++
		st.Calls += len(sc.calls)
		st.SeqKinds[sc.kind]++
		st.SeqLen[fmt.Sprint(len(sc.calls))]++
		js, _ := json.Marshal(sc.calls)
		distinct[sha256.Sum256([]byte(sc.unit.Key+sc.csvc+sc.psvc+string(js)))] = nontrivial
	}
	for _, nc := range namesCases {
		p := progs[nc.prog]
		w := getW(nc.prog)
		var o struct {
			Names []string `json:"names"`
		}
		json.Unmarshal(results[nc.cmd], &o)
		var ns []string
		for _, n := range o.Names {
			ns = append(ns, coqfmt.BytesF(n))
		}
		w.Add(fmt.Sprintf("(CNames %s %s)", coqfmt.BytesF(nc.svc), coqfmt.List(ns)),
			map[string]interface{}{"kind": "names", "seq_kind": "processor_map", "unit": nc.unit.Key, "options": nc.unit.Options, "processor": nc.svc,
				"program": p, "idl": p.RenderS(), "observed": json.RawMessage(results[nc.cmd])})
		st.SeqKinds["processor_map"]++
		distinct[sha256.Sum256([]byte("names"+nc.unit.Key+nc.svc))] = len(o.Names) >= 2
	}
	for _, rc := range raws {
		p := progs[rc.prog]
		w := getW(rc.prog)
		var cr callRec
		perr := json.Unmarshal(rresults[rc.cmd], &cr)
		desc := map[string]interface{}{"kind": "raw", "raw_kind": rc.kind, "unit": rc.unit.Key, "options": rc.unit.Options, "processor": rc.psvc,
			"request": hex.EncodeToString(rc.req), "scripted": rc.out, "program": p, "observed": json.RawMessage(rresults[rc.cmd])}
		if perr != nil {
			desc["parse_error"] = perr.Error()
		}
		rep, _ := hex.DecodeString(cr.Reply)
		term := fmt.Sprintf("(CRaw %s %s %s %s %s)", coqfmt.BytesF(rc.psvc), coqfmt.BytesF(string(rc.req)), rc.out.coq(),
			coqfmt.BytesF(string(rep)), logCoq(p, cr.Log))
		w.Add(term, desc)
		st.RawCases++
		st.RawKinds[rc.kind]++
		distinct[sha256.Sum256([]byte("raw"+rc.unit.Key+rc.psvc+string(rc.req)))] = len(rc.req) > 12
	}
	total := 0
	for pi, w := range writers {
		if w == nil {
			continue
		}
		if err := w.Close(); err != nil {
			fmt.Fprintln(os.Stderr, err)
			os.Exit(1)
		}
		for _, sh := range w.Shards {
			shards = append(shards, progs[pi].Key+"/"+sh)
		}
		total += w.Total()
	}
	st.Evaluations = total
	for _, nt := range distinct {
		if nt {
			st.Distinct++
		}
	}
	for i, p := range progs {
		if i < 2 {
			st.Samples = append(st.Samples, map[string]interface{}{"program": p.Key, "idl": p.RenderS()})
		}
	}
	for _, sc := range seqs {
		if len(st.Samples) < 4 && len(sc.calls) >= 2 {
			st.Samples = append(st.Samples, map[string]interface{}{"client": sc.csvc, "processor": sc.psvc, "calls": sc.calls})
		}
	}
	if err := casefile.WriteMeta(*out, map[string]interface{}{"stats": st, "shards": shards, "total": total}); err != nil {
		fmt.Fprintln(os.Stderr, err)
		os.Exit(1)
	}
}

func firstLine(s string) string {
	s = strings.TrimSpace(s)
	if i := strings.IndexByte(s, '\n'); i >= 0 {
		s = s[:i]
	}
	if len(s) > 300 {
		s = s[:300]
	}
	return s
}

func hashStr(s string) uint64 {
	h := sha256.Sum256([]byte(s))
	var x uint64
	for i := 0; i < 8; i++ {
		x = x<<8 | uint64(h[i])
	}
	return x
}
