package main

// Sub-command "c06 -names": run in a fresh process with the working directory set to the root of
// an IDL tree. It runs the real front end (parser.ParseFile recursive, CircleDetect, CheckAll,
// ResolveSymbols — as sdk/invoke.go does), dumps the resolved program (astdump) and asks the Go
// backend's own scope builder (golang.BuildScope under the unit's options) for the Go names of
// every constant, struct-like, getter and IsSet method. The producer never computes a Go
// identifier itself. A fresh process per unit keeps the process-global naming styles apart and
// survives the os.Exit(2) of the backend's error paths.

import (
	"encoding/json"
	"fmt"
	"os"
	"strings"

	"github.com/cloudwego/thriftgo/generator/backend"
	"github.com/cloudwego/thriftgo/generator/golang"
	"github.com/cloudwego/thriftgo/parser"
	"github.com/cloudwego/thriftgo/semantic"

	"verif/harness/astdump"
	"verif/harness/idlast"
)

type FieldName struct {
	ID     int32  `json:"id"`
	Name   string `json:"name"`
	Getter string `json:"getter"`
	IsSet  string `json:"isset"` // "" when the field has no IsSet method (SupportIsSet)
}

type StructName struct {
	IDL    string      `json:"idl"`
	Ctor   string      `json:"ctor"`
	Index  int         `json:"index"` // position in structs ++ unions ++ exceptions of the file
	Fields []FieldName `json:"fields"`
}

type ConstName struct {
	IDL   string `json:"idl"`
	Go    string `json:"go"`
	Index int    `json:"index"`
}

type FileNames struct {
	Filename string       `json:"filename"`
	Import   string       `json:"import"`
	Consts   []ConstName  `json:"consts"`
	Structs  []StructName `json:"structs"`
}

type NamesOut struct {
	Error   string         `json:"error,omitempty"`
	Program idlast.Program `json:"program"`
	Files   []FileNames    `json:"files"`
}

func namesMain(mainFile, options string) int {
	out := NamesOut{}
	emit := func() int {
		b, _ := json.Marshal(out)
		os.Stdout.Write(b)
		return 0
	}
	ast, err := parser.ParseFile(mainFile, nil, true)
	if err != nil {
		out.Error = "parse: " + err.Error()
		return emit()
	}
	if path := parser.CircleDetect(ast); len(path) > 0 {
		out.Error = "include cycle"
		return emit()
	}
	if _, err := semantic.NewChecker(semantic.Options{FixWarnings: true}).CheckAll(ast); err != nil {
		out.Error = "check: " + err.Error()
		return emit()
	}
	if err := semantic.ResolveSymbols(ast); err != nil {
		out.Error = "resolve: " + err.Error()
		return emit()
	}
	prog, err := astdump.ProgramChecked(ast)
	if err != nil {
		out.Error = err.Error()
		return emit()
	}
	out.Program = prog
	if options == "-" {
		return emit() // front end only
	}
	cu := golang.NewCodeUtils(backend.DummyLogFunc())
	var opts []string
	for _, o := range strings.Split(options, ",") {
		if o != "" {
			opts = append(opts, o)
		}
	}
	if err := cu.HandleOptions(opts); err != nil {
		out.Error = "options: " + err.Error()
		return emit()
	}
	seen := map[*parser.Thrift]bool{}
	for t := range ast.DepthFirstSearch() {
		if seen[t] {
			continue
		}
		seen[t] = true
		scope, err := golang.BuildScope(cu, t)
		if err != nil {
			out.Error = "scope: " + err.Error()
			return emit()
		}
		_, imp := cu.Import(t)
		fn := FileNames{Filename: t.Filename, Import: imp}
		for i, c := range scope.Constants() {
			fn.Consts = append(fn.Consts, ConstName{IDL: c.Name, Go: c.GoName().String(), Index: i})
		}
		for i, s := range scope.StructLikes() {
			sn := StructName{IDL: s.Name, Ctor: golang.TypeName(s.GoName()).NewFunc().String(), Index: i}
			for _, f := range s.Fields() {
				x := FieldName{ID: f.ID, Name: f.Name, Getter: f.Getter().String()}
				if golang.SupportIsSet(f.Field) {
					x.IsSet = f.IsSetter().String()
				}
				sn.Fields = append(sn.Fields, x)
			}
			fn.Structs = append(fn.Structs, sn)
		}
		out.Files = append(out.Files, fn)
	}
	return emit()
}

func init() {
	_ = fmt.Sprint
}
