package idlgen

import "verif/harness/rng"

// Every layout knob is a small enumeration whose zero value is the canonical
// spelling and whose last value means "choose at random at every occurrence"
// (driven by Layout.Seed, never by the program's generator).

// Spacing selects what is written at token boundaries.
type Spacing int

const (
	SpacingPretty  Spacing = iota // one definition / field per line, two-space indent, single blanks
	SpacingMinimal                // nothing at all, except one blank between two word-like tokens
	SpacingRandom                 // a random run of ' ', '\t', '\v', '\n', '\r', "\r\n" at EVERY boundary
)

// Comments selects whether comments are mixed into the blank runs.
type Comments int

const (
	CommentsNone   Comments = iota
	CommentsRandom          // "// …", "# …", "/* … */" (also multi-line) at random boundaries
)

// Sep selects the optional list separator written after fields, enum values,
// functions, elements of constant lists and maps, annotations, and constant
// definitions.
type Sep int

const (
	SepConventional Sep = iota // ',' after fields, enum values, list/map elements, annotations; none after functions and constants
	SepNone
	SepComma
	SepSemicolon
	SepRandom
)

// Quote selects the quote character of a literal.
type Quote int

const (
	QuoteDouble Quote = iota
	QuoteSingle
	QuoteRandom
)

// IntSpelling selects how an integer is written. Negative numbers are always
// decimal (the grammar has no signed hex / octal).
type IntSpelling int

const (
	IntDecimal IntSpelling = iota // 12, -12
	IntPlus                       // +12
	IntHex                        // 0xc / 0xC
	IntOctal                      // 0o14
	IntRandom
)

// DoubleSpelling selects how a double is written; every spelling reads back to
// the same float64.
type DoubleSpelling int

const (
	DoublePlain    DoubleSpelling = iota // digits '.' digits, never an exponent ("1.0", "-0.25", ".5" is DoubleRandom only)
	DoubleExponent                       // d.ddde±dd  /  dE±dd (needs the pegText repair, DESIGN.md section 5 #19)
	DoubleShortest                       // strconv 'g' (exponent only for very large / small magnitudes)
	DoubleRandom                         // any of the above, plus "+" sign, ".5", capital E
)

// Form selects whether a number that equals the implicit one is written.
type Form int

const (
	FormExplicit Form = iota // always written
	FormImplicit             // omitted whenever the value equals the implicit one
	FormRandom
)

// ThrowsReq selects the requiredness keyword written on fields of a throws
// list whose AST requiredness is Optional (the parser forces Optional).
type ThrowsReq int

const (
	ThrowsBare ThrowsReq = iota
	ThrowsOptional
	ThrowsRequired
	ThrowsRandom
)

// Tri is never / always / random.
type Tri int

const (
	Never Tri = iota
	Always
	Random
)

// Order selects the relative order of things whose AST lists are independent.
type Order int

const (
	OrderGrouped     Order = iota // canonical
	OrderInterleaved              // a random merge that keeps every AST list in order
)

// Layout says how an AST is spelled as text. The zero value is the canonical
// plain layout. A Layout is a value: Render / RenderFile are pure functions of
// (AST, Layout); all per-occurrence random choices are drawn from a generator
// seeded with Seed (mixed with the file name), so two layouts of one program
// differ only in layout and a (program, layout) pair always renders to the
// same bytes.
type Layout struct {
	Seed uint64

	Spacing    Spacing
	Comments   Comments
	Separators Sep
	Quotes     Quote

	Ints     IntSpelling // integer constants and enum values
	FieldIDs IntSpelling // field ids (hex / octal need the parseFieldID repair, DESIGN.md section 5 #1)
	Doubles  DoubleSpelling

	FieldIDForm   Form // omit a field id equal to previous+1 (1 for the first field)
	EnumValueForm Form // omit an enum value equal to previous+1 (0 for the first value)

	ThrowsReq        ThrowsReq
	EmptyAnnotations Tri // write "()" where a node that may carry annotations has none
	EmptyThrows      Tri // write "throws ()" on a function without exceptions (never on oneway: the checker only counts fields, but keep it tidy)

	AnnotationOrder Order // OrderInterleaved spreads repeated keys out (first occurrences stay in key order, values of one key stay in order)
	HeaderOrder     Order // OrderInterleaved merges include / cpp_include / namespace lines
	DefinitionOrder Order // OrderInterleaved merges the seven definition lists
}

// RandomLayout draws every knob: each is, independently, one of its fixed
// values or "random per occurrence".
func RandomLayout(r *rng.R) *Layout {
	l := &Layout{Seed: r.U64()}
	l.Spacing = Spacing(r.Intn(3))
	if l.Spacing == SpacingPretty && r.Bool() {
		l.Spacing = SpacingRandom
	}
	l.Comments = Comments(r.Intn(2))
	l.Separators = Sep(r.Intn(5))
	l.Quotes = Quote(r.Intn(3))
	l.Ints = IntSpelling(r.Intn(5))
	l.FieldIDs = IntSpelling(r.Intn(5))
	l.Doubles = DoubleSpelling(r.Intn(4))
	l.FieldIDForm = Form(r.Intn(3))
	l.EnumValueForm = Form(r.Intn(3))
	l.ThrowsReq = ThrowsReq(r.Intn(4))
	l.EmptyAnnotations = Tri(r.Intn(3))
	l.EmptyThrows = Tri(r.Intn(3))
	l.AnnotationOrder = Order(r.Intn(2))
	l.HeaderOrder = Order(r.Intn(2))
	l.DefinitionOrder = Order(r.Intn(2))
	return l
}

// Unrepaired returns a copy of l restricted to spellings that the parser of
// the pinned, unrepaired tree reads correctly: decimal field ids and doubles
// without exponent.
func (l *Layout) Unrepaired() *Layout {
	c := *l
	if c.FieldIDs == IntHex || c.FieldIDs == IntOctal || c.FieldIDs == IntRandom {
		c.FieldIDs = IntDecimal
	}
	c.Doubles = DoublePlain
	return &c
}
