// idlprobe parses IDL with the real parser of /repo and prints the AST in the shared
// forms (debugging aid for every IDL-side property).
//
//	idlprobe [-resolve] [-json] [-recursive] file.thrift     parse a file
//	idlprobe [-json] -e 'struct S { 1: i32 a }'              parse a string (ParseString)
//	idlprobe -x 636f6e7374...                                parse hex-encoded bytes; -x - is the empty document
package main

import (
	"encoding/hex"
	"flag"
	"fmt"
	"os"

	"github.com/cloudwego/thriftgo/parser"
	"github.com/cloudwego/thriftgo/semantic"

	"verif/harness/astdump"
)

func main() {
	resolve := flag.Bool("resolve", false, "run semantic.ResolveSymbols before dumping")
	asJSON := flag.Bool("json", false, "print JSON instead of a Coq term")
	recursive := flag.Bool("recursive", true, "parse includes recursively (file mode)")
	expr := flag.String("e", "", "IDL text to parse with parser.ParseString")
	hexIn := flag.String("x", "", "hex-encoded IDL bytes to parse with parser.ParseString (\"-\" = the empty document)")
	flag.Parse()
	useExpr := *expr != ""
	if *hexIn != "" {
		useExpr = true
		if *hexIn == "-" {
			*expr = ""
		} else {
			raw, herr := hex.DecodeString(*hexIn)
			if herr != nil {
				fmt.Println(herr)
				os.Exit(2)
			}
			*expr = string(raw)
		}
	}
	var t *parser.Thrift
	var err error
	func() {
		defer func() {
			if r := recover(); r != nil {
				fmt.Println("PANIC:", r)
				os.Exit(3)
			}
		}()
		if useExpr {
			t, err = parser.ParseString("main.thrift", *expr)
		} else if flag.NArg() == 1 {
			t, err = parser.ParseFile(flag.Arg(0), nil, *recursive)
		} else {
			flag.Usage()
			os.Exit(2)
		}
	}()
	if err != nil {
		fmt.Println("ERROR:", err)
		os.Exit(1)
	}
	if *resolve {
		if err := semantic.ResolveSymbols(t); err != nil {
			fmt.Println("RESOLVE-ERROR:", err)
			os.Exit(1)
		}
	}
	p, err := astdump.ProgramChecked(t)
	if err != nil {
		fmt.Println(err)
		os.Exit(1)
	}
	if *asJSON {
		fmt.Println(string(p.JSON()))
	} else {
		fmt.Println(p.Coq())
	}
}
