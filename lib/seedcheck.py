#!/usr/bin/env python3
"""seedcheck.py <seed-dir> <PROPERTY> <name> [--tier quick|thorough]

Validates one seeded change (written by an independent sub-agent) and runs the property's check
against it.  <seed-dir> contains patch.diff, demo/run.sh, meta.json.

Steps (all in a scratch git worktree of /repo's HEAD, removed afterwards):
  1. demo on the clean tree must pass (exit 0);
  2. patch applies, `go build ./...` succeeds, the pinned test suite passes;
  3. demo on the patched tree must fail (exit != 0);
  4. `VERIF_REPO=<worktree> ./check <PROPERTY> <tier>` must exit 1 with a VIOLATION line.
The seed is then kept as /verif/seeded/<name>/ (patch.diff, demo/, meta.json with the results)."""
import json
import os
import shutil
import subprocess
import sys
import time

VERIF = os.path.dirname(os.path.dirname(os.path.abspath(__file__)))
ENV = dict(os.environ, GOFLAGS="-mod=mod", GOPROXY="off", GOSUMDB="off", GOTOOLCHAIN="local")


def sh(cmd, cwd=None, timeout=3600, env=None):
    p = subprocess.run(cmd, cwd=cwd, shell=True, env=env or ENV, stdout=subprocess.PIPE, stderr=subprocess.STDOUT,
                       text=True, errors="replace", timeout=timeout)
    return p.returncode, p.stdout


def main():
    seed, prop, name = sys.argv[1], sys.argv[2].upper(), sys.argv[3]
    tier = "quick"
    if "--tier" in sys.argv:
        tier = sys.argv[sys.argv.index("--tier") + 1]
    wt = "/tmp/seedchk-%s-%d" % (name, os.getpid())
    res = dict(property=prop, name=name, tier=tier)
    rc, out = sh("git -C /repo worktree add -q --detach %s HEAD" % wt)
    if rc != 0:
        print(out)
        return 2
    try:
        demo = os.path.join(seed, "demo", "run.sh")
        rc, out = sh("sh %s %s" % (demo, wt), timeout=1800)
        res["demo_clean_rc"] = rc
        res["demo_clean_tail"] = out[-600:]
        rc, out = sh("git apply %s" % os.path.join(seed, "patch.diff"), cwd=wt)
        if rc != 0:
            # HEAD moved since the seed was written (fix / hook commits): retry with fuzz
            rc, out2 = sh("patch -p1 -F3 --no-backup-if-mismatch < %s" % os.path.join(seed, "patch.diff"), cwd=wt)
            out += out2
            res["applied_with_fuzz"] = (rc == 0)
        res["apply_rc"] = rc
        if rc != 0:
            res["apply_out"] = out[-800:]
        rc, out = sh("go build ./... 2>&1 | tail -20", cwd=wt)
        res["build_out"] = out.strip()[-800:]
        t = []
        for m in (".",):  # the nested modules have no checked-in generated code and no baseline tests
            rc, out = sh("go test -vet=off -count=1 ./... 2>&1 | grep -v '^ok\\|no test files' | tail -15", cwd=os.path.join(wt, m))
            t.append(out.strip())
        res["tests_fail_output"] = [x for x in t if x]
        rc, out = sh("sh %s %s" % (demo, wt), timeout=1800)
        res["demo_patched_rc"] = rc
        res["demo_patched_tail"] = out[-600:]
        t0 = time.time()
        env = dict(ENV, VERIF_REPO=wt)
        # the evidence file must keep describing the run on the real tree: save and restore it
        evp = os.path.join(VERIF, "evidence", prop + ".json")
        saved = open(evp).read() if os.path.exists(evp) else None
        try:
            rc, out = sh("./check %s %s" % (prop, tier), cwd=VERIF, env=env, timeout=7200)
        finally:
            if saved is not None:
                open(evp, "w").write(saved)
        res["check_rc"] = rc
        res["check_wall_s"] = round(time.time() - t0, 1)
        lines = out.splitlines()
        res["check_lines"] = [l for l in lines if l.startswith(("VIOLATION", "OK "))][:6] + [l[:160] for l in lines if l.startswith("KNOWN-FINDING")][:3]
        res["caught"] = (rc == 1 and any(l.startswith("VIOLATION") for l in res["check_lines"]))
        res["valid_seed"] = (res["demo_clean_rc"] == 0 and res["apply_rc"] == 0 and not res["tests_fail_output"]
                             and res["demo_patched_rc"] != 0 and "error" not in res["build_out"].lower())
    finally:
        sh("git -C /repo worktree remove --force %s" % wt)
        shutil.rmtree(wt, ignore_errors=True)
    dst = os.path.join(VERIF, "seeded", name)
    os.makedirs(dst, exist_ok=True)
    shutil.copy(os.path.join(seed, "patch.diff"), os.path.join(dst, "patch.diff"))
    if os.path.isdir(os.path.join(dst, "demo")):
        shutil.rmtree(os.path.join(dst, "demo"))
    shutil.copytree(os.path.join(seed, "demo"), os.path.join(dst, "demo"))
    meta = {}
    try:
        meta = json.load(open(os.path.join(seed, "meta.json")))
    except Exception as e:  # noqa
        meta = {"note": "agent meta.json unreadable: %s" % e}
    meta["breaks_property"] = prop
    meta["verified_by_coordinator"] = res
    json.dump(meta, open(os.path.join(dst, "meta.json"), "w"), indent=1)
    print(json.dumps({k: res.get(k) for k in ("valid_seed", "caught", "demo_clean_rc", "demo_patched_rc", "check_rc", "check_lines", "tests_fail_output", "apply_rc")}, indent=1))
    return 0


if __name__ == "__main__":
    sys.exit(main())
