(* Idl/ReflectFacts.v — proofs about the model of the reflection descriptors (Idl/Reflect.v).
   Parts: 1 helpers   2 wire round trip   3 descriptor_of states the IDL   4 lookups   5 Go types *)
From Coq Require Import List Bool NArith ZArith Lia Permutation.
From Coq.Strings Require Import Byte String.
From Verif Require Import Base.Bytes Base.BE Wire.TType Wire.WVal Wire.Codec Wire.CodecFacts Wire.Schema Wire.SchemaDescriptor
  Idl.Ast Idl.AstUtil Idl.AstFacts Idl.Reflect.
Import ListNotations.
Local Open Scope Z_scope.
Local Open Scope list_scope.

(* ================================================================ 1. helpers *)

Lemma existsb_beqb_In x l : existsb (beqb x) l = true <-> In x l.
Proof.
  rewrite existsb_exists. split.
  - intros [y [Hy He]]. apply beqb_true in He. subst. exact Hy.
  - intro H. exists x. split; [exact H|apply beqb_refl].
Qed.

Lemma nodupb_NoDup l : nodupb l = true <-> NoDup l.
Proof.
  induction l as [|x l IH]; cbn [nodupb].
  - split; [constructor|reflexivity].
  - rewrite andb_true_iff, negb_true_iff, IH. split.
    + intros [Hx Hl]. constructor; [|exact Hl]. intro Hin. apply existsb_beqb_In in Hin. congruence.
    + intro H. inversion H as [|? ? Hx Hl]; subst. split; [|exact Hl].
      destruct (existsb (beqb x) l) eqn:E; [|reflexivity]. apply existsb_beqb_In in E. contradiction.
Qed.

(* Go map assignment on an association list *)
Lemma update_notin {A} k (v : A) m : ~ In k (map fst m) -> update k v m = m ++ [(k, v)].
Proof.
  induction m as [|[k' v'] m IH]; cbn [update map fst In app]; intro H; [reflexivity|].
  destruct (beqb k k') eqn:E; [apply beqb_true in E; subst; exfalso; apply H; left; reflexivity|].
  rewrite IH by tauto. reflexivity.
Qed.

Lemma fold_update_app {A B} (key : A -> bytes) (val : A -> B) (l : list A) : forall acc,
  NoDup (map fst acc ++ map key l) ->
  fold_left (fun m x => update (key x) (val x) m) l acc = acc ++ map (fun x => (key x, val x)) l.
Proof.
  induction l as [|x l IH]; intros acc H; cbn [fold_left map]; [rewrite app_nil_r; reflexivity|].
  cbn [map] in H.
  assert (Hx : ~ In (key x) (map fst acc)).
  { intro Hin. apply NoDup_remove_2 in H. apply H. apply in_or_app. left. exact Hin. }
  rewrite update_notin by exact Hx. rewrite IH.
  - rewrite <- app_assoc. reflexivity.
  - rewrite map_app. cbn [map fst]. rewrite <- app_assoc. cbn [app].
    apply NoDup_remove_1 in H as H1. apply NoDup_remove_2 in H as H2.
    apply (Permutation_NoDup (l := key x :: map fst acc ++ map key l)).
    + apply Permutation_middle.
    + constructor; assumption.
Qed.

Lemma fold_update_map {A B} (key : A -> bytes) (val : A -> B) (l : list A) :
  NoDup (map key l) ->
  fold_left (fun m x => update (key x) (val x) m) l [] = map (fun x => (key x, val x)) l.
Proof. intro H. rewrite fold_update_app by exact H. reflexivity. Qed.

Lemma build_smap_id {A} (m : smap A) : smap_ok m = true -> build_smap m = m.
Proof.
  intro H. apply nodupb_NoDup in H. unfold build_smap.
  rewrite (fold_update_map fst snd m H). rewrite <- (map_id m) at 2. apply map_ext. intros [k v]. reflexivity.
Qed.

Lemma wfb_sound : forall v, wfb v = true -> wf v.
Proof.
  fix IH 1. intros [b|z|z|z|z|z|s|fs|kt vt kvs|et l|et l]; cbn [wfb wf]; intro H.
  - exact I.
  - apply in_srangeb_spec. exact H.
  - apply andb_true_iff in H as [H1 H2]. unfold in_range. change (256 ^ Z.of_nat 8) with 18446744073709551616. lia.
  - apply in_srangeb_spec. exact H.
  - apply in_srangeb_spec. exact H.
  - apply in_srangeb_spec. exact H.
  - apply in_srangeb_spec. exact H.
  - induction fs as [|[[t id] x] r IHr]; [exact I|].
    apply andb_true_iff in H as [H Hr]. apply andb_true_iff in H as [H Hx]. apply andb_true_iff in H as [Ht Hid].
    split; [|exact (IHr Hr)]. split; [apply ttype_eqb_eq; exact Ht|]. split; [apply in_srangeb_spec; exact Hid|apply IH; exact Hx].
  - apply andb_true_iff in H as [Hn H]. split; [apply in_srangeb_spec; exact Hn|]. clear Hn.
    induction kvs as [|[k x] r IHr]; [exact I|].
    apply andb_true_iff in H as [H Hr]. apply andb_true_iff in H as [H Hx]. apply andb_true_iff in H as [H Hk].
    apply andb_true_iff in H as [Hkt Hvt].
    split; [|exact (IHr Hr)]. repeat split; [apply ttype_eqb_eq; exact Hkt|apply ttype_eqb_eq; exact Hvt|apply IH; exact Hk|apply IH; exact Hx].
  - apply andb_true_iff in H as [Hn H]. split; [apply in_srangeb_spec; exact Hn|]. clear Hn.
    induction l as [|x r IHr]; [exact I|].
    apply andb_true_iff in H as [H Hr]. apply andb_true_iff in H as [Ht Hx].
    split; [|exact (IHr Hr)]. split; [apply ttype_eqb_eq; exact Ht|apply IH; exact Hx].
  - apply andb_true_iff in H as [Hn H]. split; [apply in_srangeb_spec; exact Hn|]. clear Hn.
    induction l as [|x r IHr]; [exact I|].
    apply andb_true_iff in H as [H Hr]. apply andb_true_iff in H as [Ht Hx].
    split; [|exact (IHr Hr)]. split; [apply ttype_eqb_eq; exact Ht|apply IH; exact Hx].
Qed.

(* induction principles for the two recursive descriptors *)
Lemma tdesc_ind' (P : tdesc -> Prop) :
  (forall p n k v ex, (forall x, k = Some x -> P x) -> (forall x, v = Some x -> P x) -> P (TDesc p n k v ex)) ->
  forall t, P t.
Proof.
  intro H. fix IH 1. intros [p n k v ex]. apply H.
  - destruct k as [y|]; intros x E; [injection E as <-; apply IH|discriminate].
  - destruct v as [y|]; intros x E; [injection E as <-; apply IH|discriminate].
Qed.

Lemma cvdesc_ind' (P : cvdesc -> Prop) :
  (forall ty dbl int str b l m id ex,
      (forall l', l = Some l' -> Forall P l') ->
      (forall m', m = Some m' -> Forall (fun kv => P (fst kv) /\ P (snd kv)) m') ->
      P (CVD ty dbl int str b l m id ex)) ->
  forall c, P c.
Proof.
  intro H. fix IH 1. intros [ty dbl int str b l m id ex]. apply H.
  - destruct l as [l0|]; intros l' E; [injection E as <-|discriminate].
    induction l0 as [|x r IHr]; constructor; [apply IH|exact IHr].
  - destruct m as [m0|]; intros m' E; [injection E as <-|discriminate].
    induction m0 as [|[k v] r IHr]; constructor; [split; apply IH|exact IHr].
Qed.

(* ================================================================ 2. wire round trip *)

(* ---- the schema of descriptor.thrift: what the hand-written decoders rely on ---- *)

(* field ids are pairwise distinct in every struct of the regenerated schema *)
Definition lay_ids (lay : list (ttype * Z * req)) : list Z := map (fun x => snd (fst x)) lay.
Definition all_layouts := [lay_type; lay_const; lay_cv; lay_typedef; lay_enum; lay_enumvalue; lay_field;
                           lay_struct; lay_method; lay_service; lay_file].
Lemma layouts_nodup : forallb (fun lay => nodupZ (lay_ids lay)) all_layouts = true.
Proof. vm_compute. reflexivity. Qed.

(* the requiredness the decoders assume (need = required, opt / dflt = optional), field by field *)
Definition lay_reqs (lay : list (ttype * Z * req)) : list req := map snd lay.
Lemma layouts_reqs :
  lay_reqs lay_type = [Required; Required; Optional; Optional; Optional] /\
  lay_reqs lay_const = [Required; Required; Required; Required; Required; Required; Optional] /\
  lay_reqs lay_cv = [Required; Required; Required; Required; Required; Optional; Optional; Required; Optional] /\
  lay_reqs lay_typedef = [Required; Required; Required; Required; Required; Optional] /\
  lay_reqs lay_enum = [Required; Required; Required; Required; Required; Optional] /\
  lay_reqs lay_enumvalue = [Required; Required; Required; Required; Required; Optional] /\
  lay_reqs lay_field = [Required; Required; Required; Required; Required; Optional; Required; Required; Optional] /\
  lay_reqs lay_struct = [Required; Required; Required; Required; Required; Optional] /\
  lay_reqs lay_method = [Required; Required; Optional; Required; Required; Required; Required; Required; Optional] /\
  lay_reqs lay_service = [Required; Required; Required; Required; Required; Optional; Optional] /\
  lay_reqs lay_file = [Required; Required; Required; Required; Required; Required; Required; Required; Required; Required; Optional].
Proof. vm_compute. repeat split. Qed.

(* the wire types the encoders assume *)
Definition lay_types (lay : list (ttype * Z * req)) : list ttype := map (fun x => fst (fst x)) lay.
Lemma layouts_types :
  lay_types lay_type = [T_STRING; T_STRING; T_STRUCT; T_STRUCT; T_MAP] /\
  lay_types lay_const = [T_STRING; T_STRING; T_STRUCT; T_STRUCT; T_MAP; T_STRING; T_MAP] /\
  lay_types lay_cv = [T_I32; T_DOUBLE; T_I64; T_STRING; T_BOOL; T_LIST; T_MAP; T_STRING; T_MAP] /\
  lay_types lay_typedef = [T_STRING; T_STRUCT; T_STRING; T_MAP; T_STRING; T_MAP] /\
  lay_types lay_enum = [T_STRING; T_STRING; T_LIST; T_MAP; T_STRING; T_MAP] /\
  lay_types lay_enumvalue = [T_STRING; T_STRING; T_I64; T_MAP; T_STRING; T_MAP] /\
  lay_types lay_field = [T_STRING; T_STRING; T_STRUCT; T_STRING; T_I32; T_STRUCT; T_MAP; T_STRING; T_MAP] /\
  lay_types lay_struct = [T_STRING; T_STRING; T_LIST; T_MAP; T_STRING; T_MAP] /\
  lay_types lay_method = [T_STRING; T_STRING; T_STRUCT; T_LIST; T_MAP; T_STRING; T_LIST; T_BOOL; T_MAP] /\
  lay_types lay_service = [T_STRING; T_STRING; T_LIST; T_MAP; T_STRING; T_MAP; T_STRING] /\
  lay_types lay_file = [T_STRING; T_MAP; T_MAP; T_LIST; T_LIST; T_LIST; T_LIST; T_LIST; T_LIST; T_LIST; T_MAP].
Proof. vm_compute. repeat split. Qed.

(* the ConstValueType numbers *)
Lemma cvt_numbers :
  omap e_values (Schema.find_enum schema_descriptor (B "descriptor.ConstValueType")) =
  Some [(B "DOUBLE", CVT_DOUBLE); (B "INT", CVT_INT); (B "STRING", CVT_STRING); (B "BOOL", CVT_BOOL);
        (B "LIST", CVT_LIST); (B "MAP", CVT_MAP); (B "IDENTIFIER", CVT_IDENTIFIER)].
Proof. vm_compute. reflexivity. Qed.

(* ---- the generic layer ---- *)

Lemma wfind_emit_notin {A} (d : wval -> option A) key lay : forall sl,
  ~ In (snd key) (lay_ids lay) -> wfind d key (emit lay sl) = None.
Proof.
  induction lay as [|[[t id] r] lay IH]; intros sl Hn; [destruct sl; reflexivity|].
  cbn [lay_ids map snd fst In] in Hn. destruct sl as [|[w z] sl]; cbn [emit]; [reflexivity|].
  destruct (req_eqb r Optional && z).
  - apply IH. unfold lay_ids. tauto.
  - cbn [wfind]. rewrite IH by (unfold lay_ids; tauto).
    destruct (Z.eqb_spec (snd key) id) as [E|E]; [exfalso; apply Hn; left; congruence|reflexivity].
Qed.

Lemma wfind_emit {A} (d : wval -> option A) : forall lay sl i t id r,
  NoDup (lay_ids lay) -> List.length sl = List.length lay -> nth_error lay i = Some (t, id, r) ->
  wfind d (t, id) (emit lay sl) =
  match nth_error sl i with
  | Some (w, z) => if req_eqb r Optional && z then None else Some (d w)
  | None => None
  end.
Proof.
  induction lay as [|[[t0 id0] r0] lay IH]; intros sl i t id r Hnd Hlen Hk; [destruct i; discriminate|].
  destruct sl as [|[w z] sl]; [discriminate|]. cbn [List.length] in Hlen. injection Hlen as Hlen.
  cbn [lay_ids map snd fst] in Hnd. inversion Hnd as [|? ? Hnotin Hnd']; subst.
  destruct i as [|i]; cbn [nth_error] in *.
  - injection Hk as -> -> ->. cbn [emit]. destruct (req_eqb r Optional && z).
    + apply wfind_emit_notin. exact Hnotin.
    + cbn [wfind]. rewrite wfind_emit_notin by exact Hnotin. cbn [fst snd].
      rewrite Z.eqb_refl, ttype_eqb_refl. reflexivity.
  - assert (Hne : id <> id0).
    { intro E. apply Hnotin. subst id0. apply (in_map (fun x : ttype * Z * req => snd (fst x)) lay (t, id, r)). eapply nth_error_In. exact Hk. }
    cbn [emit]. destruct (req_eqb r0 Optional && z); [apply IH; assumption|].
    cbn [wfind]. rewrite (IH sl i t id r Hnd' Hlen Hk). cbn [fst snd].
    destruct (nth_error sl i) as [[w' z']|]; [destruct (req_eqb r Optional && z')|]; try reflexivity;
      (destruct (Z.eqb_spec id id0); [contradiction|reflexivity]).
Qed.

Lemma nodupZ_NoDup l : nodupZ l = true -> NoDup l.
Proof.
  induction l as [|x l IH]; cbn [nodupZ]; intro H; constructor.
  - apply andb_true_iff in H as [H _]. intro Hin. apply negb_true_iff in H.
    assert (existsb (Z.eqb x) l = true) by (apply existsb_exists; exists x; split; [assumption|apply Z.eqb_refl]).
    congruence.
  - apply andb_true_iff in H as [_ H]. auto.
Qed.

Definition noslot : slot := (WBool false, true).

Lemma get_emit {A} (d : wval -> option A) lay sl i :
  nodupZ (lay_ids lay) = true -> List.length sl = List.length lay -> (i <? List.length lay)%nat = true ->
  get d lay i (emit lay sl) =
  (if req_eqb (snd (nth i lay nokey)) Optional && snd (nth i sl noslot) then None else Some (d (fst (nth i sl noslot)))).
Proof.
  intros Hnd Hlen Hi. apply Nat.ltb_lt in Hi. unfold get.
  destruct (nth_error lay i) as [[[t id] r]|] eqn:Ek; [|apply nth_error_None in Ek; lia].
  rewrite (nth_error_nth _ _ nokey Ek). cbn [fst snd].
  rewrite (wfind_emit d lay sl i t id r (nodupZ_NoDup _ Hnd) Hlen Ek).
  destruct (nth_error sl i) as [[w z]|] eqn:Es.
  - rewrite (nth_error_nth _ _ noslot Es). reflexivity.
  - apply nth_error_None in Es. lia.
Qed.

Lemma mapo_map {A} (d : wval -> option A) (e : A -> wval) l :
  Forall (fun x => d (e x) = Some x) l -> mapo d (map e l) = Some l.
Proof.
  induction 1 as [|x l Hx _ IH]; [reflexivity|]. cbn [map mapo]. rewrite Hx, IH. reflexivity.
Qed.

Lemma d_list_structs_in {A} (d : wval -> option A) (e : A -> wval) l :
  Forall (fun x => d (e x) = Some x) l -> d_list d (w_structs e l) = Some l.
Proof. intro H. unfold d_list, w_structs. apply mapo_map. exact H. Qed.

Lemma d_list_strs l : d_list d_str (w_strs l) = Some l.
Proof. unfold d_list, w_strs. apply mapo_map. apply Forall_forall. reflexivity. Qed.

Lemma d_pairs_map {A} (d : wval -> option A) (e : A -> wval) (m : smap A) :
  Forall (fun kv => d (e (snd kv)) = Some (snd kv)) m ->
  d_pairs d (map (fun kv => (WStr (fst kv), e (snd kv))) m) = Some m.
Proof.
  induction 1 as [|[k v] m Hx _ IH]; [reflexivity|]. cbn [map d_pairs fst snd d_str] in *. rewrite Hx, IH. reflexivity.
Qed.

Lemma d_smap_w_smap {A} (d : wval -> option A) (e : A -> wval) vt (m : smap A) :
  smap_ok m = true -> Forall (fun kv => d (e (snd kv)) = Some (snd kv)) m ->
  d_smap d (w_smap vt e m) = Some m.
Proof.
  intros Hok H. unfold d_smap, w_smap. rewrite (d_pairs_map d e m H). cbn [omap]. rewrite build_smap_id by exact Hok. reflexivity.
Qed.

Lemma d_strmap m : smap_ok m = true -> d_extra (w_smap T_STRING WStr m) = Some m.
Proof. intro H. apply d_smap_w_smap; [exact H|]. apply Forall_forall. reflexivity. Qed.

Lemma d_annos_rt a : smap_ok a = true -> d_annos (w_smap T_LIST w_strs a) = Some a.
Proof. intro H. apply d_smap_w_smap; [exact H|]. apply Forall_forall. intros x _. apply d_list_strs. Qed.

Ltac gets1 := match goal with |- context[@get ?A ?d ?l ?i (emit ?l ?sl)] => rewrite (get_emit d l sl i) by reflexivity end.
Ltac gets := repeat gets1;
  cbn [nth fst snd req_eqb andb nz s_annos s_strmap need opt dflt d_str d_bool d_i32 d_i64 d_dbl
       lay_type lay_const lay_cv lay_typedef lay_enum lay_enumvalue lay_field lay_struct lay_method lay_service lay_file].

(* the Extra slot: nil is not written and comes back as nil *)
Lemma extra_slot_rt ex :
  extra_ok ex = true ->
  opt (if snd (s_extra ex) then None else Some (d_extra (fst (s_extra ex)))) = Some ex.
Proof.
  destruct ex as [m|]; cbn [s_extra snd fst extra_ok]; intro H; [|reflexivity].
  rewrite d_strmap by exact H. reflexivity.
Qed.

(* ---- the eleven structs ---- *)

Lemma tdesc_rt : forall t, tdesc_ok t = true -> dec_tdesc (enc_tdesc t) = Some t.
Proof.
  induction t as [p n k v ex IHk IHv] using tdesc_ind'. cbn [tdesc_ok]. intro H.
  apply andb_true_iff in H as [H Hex]. apply andb_true_iff in H as [Hk Hv].
  cbn [enc_tdesc]. unfold wstruct. cbn [dec_tdesc]. gets.
  assert (Ek : opt (if snd (match k with Some x => (enc_tdesc x, false) | None => (WStruct [], true) end)
                    then None else Some (dec_tdesc (fst (match k with Some x => (enc_tdesc x, false) | None => (WStruct [], true) end)))) = Some k).
  { destruct k as [x|]; cbn [fst snd opt]; [rewrite (IHk x eq_refl Hk)|]; reflexivity. }
  assert (Ev : opt (if snd (match v with Some x => (enc_tdesc x, false) | None => (WStruct [], true) end)
                    then None else Some (dec_tdesc (fst (match v with Some x => (enc_tdesc x, false) | None => (WStruct [], true) end)))) = Some v).
  { destruct v as [x|]; cbn [fst snd opt]; [rewrite (IHv x eq_refl Hv)|]; reflexivity. }
  rewrite Ek, Ev, (extra_slot_rt ex Hex). reflexivity.
Qed.

Lemma enc_cv_list_eq l :
  (fix go (l : list cvdesc) : list wval := match l with [] => [] | x :: r => enc_cvdesc x :: go r end) l = map enc_cvdesc l.
Proof. induction l as [|x r IH]; [reflexivity|]. cbn [map]. rewrite <- IH. reflexivity. Qed.

Lemma enc_cv_map_eq m :
  (fix go (l : list (cvdesc * cvdesc)) : list (wval * wval) :=
     match l with [] => [] | (k, v) :: r => (enc_cvdesc k, enc_cvdesc v) :: go r end) m =
  map (fun kv => (enc_cvdesc (fst kv), enc_cvdesc (snd kv))) m.
Proof. induction m as [|[k v] r IH]; [reflexivity|]. cbn [map fst snd]. rewrite <- IH. reflexivity. Qed.

Lemma cv_list_ok l :
  (fix go (l0 : list cvdesc) : bool := match l0 with [] => true | x :: r => cvdesc_ok x && go r end) l = true ->
  Forall (fun c => cvdesc_ok c = true) l.
Proof.
  induction l as [|x r IH]; intro H; constructor; apply andb_true_iff in H as [Hx Hr]; [exact Hx|exact (IH Hr)].
Qed.

Lemma cv_map_ok m :
  (fix go (l : list (cvdesc * cvdesc)) : bool :=
     match l with [] => true | (k, v) :: r => cvdesc_ok k && cvdesc_ok v && go r end) m = true ->
  Forall (fun kv => cvdesc_ok (fst kv) = true /\ cvdesc_ok (snd kv) = true) m.
Proof.
  induction m as [|[k v] r IH]; intro H; constructor.
  - apply andb_true_iff in H as [H _]. apply andb_true_iff in H as [Hk Hv]. split; assumption.
  - apply andb_true_iff in H as [_ Hr]. exact (IH Hr).
Qed.

Lemma dec_cv_pairs_rt m :
  Forall (fun kv : cvdesc * cvdesc => dec_cvdesc (enc_cvdesc (fst kv)) = Some (fst kv) /\
                                      dec_cvdesc (enc_cvdesc (snd kv)) = Some (snd kv)) m ->
  (fix go (l1 : list (wval * wval)) : option (list (cvdesc * cvdesc)) :=
     match l1 with
     | [] => Some []
     | (k, v) :: r =>
         match dec_cvdesc k with
         | Some a => match dec_cvdesc v with
                     | Some b0 => match go r with Some rs => Some ((a, b0) :: rs) | None => None end
                     | None => None end
         | None => None end
     end) (map (fun kv => (enc_cvdesc (fst kv), enc_cvdesc (snd kv))) m) = Some m.
Proof.
  induction 1 as [|[k v] r [Hk Hv] _ IH]; [reflexivity|]. cbn [map fst snd] in *. rewrite Hk, Hv, IH. reflexivity.
Qed.

Lemma cvdesc_rt : forall c, cvdesc_ok c = true -> dec_cvdesc (enc_cvdesc c) = Some c.
Proof.
  induction c as [ty dbl int str b l m id ex IHl IHm] using cvdesc_ind'. cbn [cvdesc_ok]. intro H.
  apply andb_true_iff in H as [H Hex]. apply andb_true_iff in H as [H Hm]. apply andb_true_iff in H as [Hty Hl].
  cbn [enc_cvdesc]. unfold wstruct. cbn [dec_cvdesc]. gets.
  rewrite (wrap32_small ty) by (apply in_srangeb_spec; exact Hty).
  assert (El : match l with
               | Some l0 => d_list dec_cvdesc (WList T_STRUCT (map enc_cvdesc l0)) = Some l0
               | None => True end).
  { destruct l as [l0|]; [|exact I]. unfold d_list. apply mapo_map.
    pose proof (IHl l0 eq_refl) as F. pose proof (cv_list_ok l0 Hl) as G.
    clear - F G. induction F as [|x r Hx _ IH]; constructor; inversion G; subst; auto. }
  assert (Em : match m with
               | Some m0 => Forall (fun kv : cvdesc * cvdesc => dec_cvdesc (enc_cvdesc (fst kv)) = Some (fst kv) /\
                                                                  dec_cvdesc (enc_cvdesc (snd kv)) = Some (snd kv)) m0
               | None => True end).
  { destruct m as [m0|]; [|exact I].
    pose proof (IHm m0 eq_refl) as F. pose proof (cv_map_ok m0 Hm) as G.
    clear - F G. induction F as [|x r Hx _ IH]; constructor; inversion G; subst; [tauto|auto]. }
  destruct l as [l0|]; destruct m as [m0|]; cbn [fst snd opt];
    rewrite ?enc_cv_list_eq, ?enc_cv_map_eq, ?El, ?(dec_cv_pairs_rt _ Em), (extra_slot_rt ex Hex); reflexivity.
Qed.

Ltac bsplit := repeat match goal with H : _ && _ = true |- _ => apply andb_true_iff in H; destruct H end.

Lemma d_list_ok {A} (d : wval -> option A) (e : A -> wval) (ok : A -> bool) l :
  (forall x, ok x = true -> d (e x) = Some x) -> forallb ok l = true -> d_list d (w_structs e l) = Some l.
Proof.
  intros H Hl. apply d_list_structs_in. apply Forall_forall. intros x Hx. apply H.
  rewrite forallb_forall in Hl. apply Hl. exact Hx.
Qed.

Lemma opt_slot_rt {A} (d : wval -> option A) (e : A -> wval) (ok : A -> bool) (o : option A) :
  (forall x, ok x = true -> d (e x) = Some x) ->
  match o with Some x => ok x | None => true end = true ->
  opt (if snd (s_opt e o) then None else Some (d (fst (s_opt e o)))) = Some o.
Proof.
  intros H Ho. destruct o as [x|]; cbn [s_opt fst snd opt]; [rewrite (H x Ho)|]; reflexivity.
Qed.

Lemma constdesc_rt c : constdesc_ok c = true -> dec_constdesc (enc_constdesc c) = Some c.
Proof.
  destruct c as [p n t v an cm ex]. unfold constdesc_ok. cbn [cd_type cd_value cd_annos cd_extra]. intro H. bsplit.
  unfold dec_constdesc, enc_constdesc, wstruct. gets. cbn [cd_filepath cd_name cd_type cd_value cd_annos cd_comments cd_extra].
  rewrite tdesc_rt, cvdesc_rt, d_annos_rt, extra_slot_rt by assumption. reflexivity.
Qed.

Lemma typedefdesc_rt t : typedefdesc_ok t = true -> dec_typedefdesc (enc_typedefdesc t) = Some t.
Proof.
  destruct t as [p ty a an cm ex]. unfold typedefdesc_ok. cbn [tdd_type tdd_annos tdd_extra]. intro H. bsplit.
  unfold dec_typedefdesc, enc_typedefdesc, wstruct. gets. cbn [tdd_filepath tdd_type tdd_alias tdd_annos tdd_comments tdd_extra].
  rewrite tdesc_rt, d_annos_rt, extra_slot_rt by assumption. reflexivity.
Qed.

Lemma enumvaluedesc_rt v : enumvaluedesc_ok v = true -> dec_enumvaluedesc (enc_enumvaluedesc v) = Some v.
Proof.
  destruct v as [p n z an cm ex]. unfold enumvaluedesc_ok. cbn [evd_annos evd_extra]. intro H. bsplit.
  unfold dec_enumvaluedesc, enc_enumvaluedesc, wstruct. gets. cbn [evd_filepath evd_name evd_value evd_annos evd_comments evd_extra].
  rewrite d_annos_rt, extra_slot_rt by assumption. reflexivity.
Qed.

Lemma enumdesc_rt e : enumdesc_ok e = true -> dec_enumdesc (enc_enumdesc e) = Some e.
Proof.
  destruct e as [p n vs an cm ex]. unfold enumdesc_ok. cbn [ed_values ed_annos ed_extra]. intro H. bsplit.
  unfold dec_enumdesc, enc_enumdesc, wstruct. gets. cbn [ed_filepath ed_name ed_values ed_annos ed_comments ed_extra].
  rewrite (d_list_ok _ _ enumvaluedesc_ok vs enumvaluedesc_rt), d_annos_rt, extra_slot_rt by assumption. reflexivity.
Qed.

Lemma fielddesc_rt f : fielddesc_ok f = true -> dec_fielddesc (enc_fielddesc f) = Some f.
Proof.
  destruct f as [p n t r i d an cm ex]. unfold fielddesc_ok. cbn [fld_type fld_default fld_annos fld_extra]. intro H. bsplit.
  unfold dec_fielddesc, enc_fielddesc, wstruct. gets.
  cbn [fld_filepath fld_name fld_type fld_req fld_id fld_default fld_annos fld_comments fld_extra].
  rewrite tdesc_rt, (opt_slot_rt dec_cvdesc enc_cvdesc cvdesc_ok d cvdesc_rt), d_annos_rt, extra_slot_rt by assumption. reflexivity.
Qed.

Lemma fielddescs_rt l : forallb fielddesc_ok l = true -> dec_fielddescs (enc_fielddescs l) = Some l.
Proof. apply d_list_ok. exact fielddesc_rt. Qed.

Lemma structdesc_rt s : structdesc_ok s = true -> dec_structdesc (enc_structdesc s) = Some s.
Proof.
  destruct s as [p n fs an cm ex]. unfold structdesc_ok. cbn [sd_fields sd_annos sd_extra]. intro H. bsplit.
  unfold dec_structdesc, enc_structdesc, wstruct. gets. cbn [sd_filepath sd_name sd_fields sd_annos sd_comments sd_extra].
  rewrite fielddescs_rt, d_annos_rt, extra_slot_rt by assumption. reflexivity.
Qed.

Lemma methoddesc_rt m : methoddesc_ok m = true -> dec_methoddesc (enc_methoddesc m) = Some m.
Proof.
  destruct m as [p n r a an cm t o ex]. unfold methoddesc_ok. cbn [md_response md_args md_annos md_throws md_extra]. intro H. bsplit.
  unfold dec_methoddesc, enc_methoddesc, wstruct. gets.
  cbn [md_filepath md_name md_response md_args md_annos md_comments md_throws md_oneway md_extra].
  rewrite (opt_slot_rt dec_tdesc enc_tdesc tdesc_ok r tdesc_rt), !fielddescs_rt, d_annos_rt, extra_slot_rt by assumption. reflexivity.
Qed.

Lemma servicedesc_rt s : servicedesc_ok s = true -> dec_servicedesc (enc_servicedesc s) = Some s.
Proof.
  destruct s as [p n ms an cm ex b]. unfold servicedesc_ok. cbn [svd_methods svd_annos svd_extra]. intro H. bsplit.
  unfold dec_servicedesc, enc_servicedesc, wstruct. gets.
  cbn [svd_filepath svd_name svd_methods svd_annos svd_comments svd_extra svd_base].
  rewrite (d_list_ok _ _ methoddesc_ok ms methoddesc_rt), d_annos_rt, extra_slot_rt by assumption.
  destruct b; reflexivity.
Qed.

Theorem fdesc_rt d : fdesc_ok d = true -> dec_fdesc (enc_fdesc d) = Some d.
Proof.
  destruct d as [p inc ns sv st xs en td un cs ex]. unfold fdesc_ok.
  cbn [fdc_includes fdc_namespaces fdc_services fdc_structs fdc_exceptions fdc_enums fdc_typedefs fdc_unions fdc_consts fdc_extra].
  intro H. bsplit.
  unfold dec_fdesc, enc_fdesc, wstruct. gets.
  cbn [fdc_filepath fdc_includes fdc_namespaces fdc_services fdc_structs fdc_exceptions fdc_enums fdc_typedefs fdc_unions fdc_consts fdc_extra].
  rewrite !d_strmap by assumption.
  rewrite (d_list_ok _ _ servicedesc_ok sv servicedesc_rt), !(d_list_ok _ _ structdesc_ok _ structdesc_rt),
    (d_list_ok _ _ enumdesc_ok en enumdesc_rt), (d_list_ok _ _ typedefdesc_ok td typedefdesc_rt),
    (d_list_ok _ _ constdesc_ok cs constdesc_rt), extra_slot_rt by assumption.
  reflexivity.
Qed.

Lemma weq_mod_refl : forall v, weq_mod false v v = true.
Proof.
  fix IH 1. intros [b|z|z|z|z|z|s|fs|kt vt kvs|et l|et l]; cbn [weq_mod].
  - destruct b; reflexivity.
  - apply Z.eqb_refl.
  - apply Z.eqb_refl.
  - apply Z.eqb_refl.
  - apply Z.eqb_refl.
  - apply Z.eqb_refl.
  - apply beqb_refl.
  - induction fs as [|[[t i] x] r IHr]; [reflexivity|].
    rewrite ttype_eqb_refl, Z.eqb_refl, IH, IHr. reflexivity.
  - rewrite !ttype_eqb_refl. cbn [andb].
    induction kvs as [|[k x] r IHr]; [reflexivity|].
    rewrite !IH. cbn [andb]. exact IHr.
  - rewrite ttype_eqb_refl. cbn [andb]. induction l as [|x r IHr]; [reflexivity|]. rewrite IH, IHr. reflexivity.
  - rewrite ttype_eqb_refl. cbn [andb]. induction l as [|x r IHr]; [reflexivity|]. rewrite IH, IHr. reflexivity.
Qed.

Lemma fdesc_equivb_refl d : fdesc_equivb d d = true.
Proof. apply weq_mod_refl. Qed.

(* ---- through bytes and gzip ---- *)

Lemma enc_fdesc_struct d : exists fs, enc_fdesc d = WStruct fs.
Proof. unfold enc_fdesc, wstruct. eexists. reflexivity. Qed.

(* the bytes of meta.Marshal, followed by anything, read back to the descriptor *)
Theorem meta_roundtrip d rest :
  fdesc_ok d = true -> wfb (enc_fdesc d) = true -> meta_unmarshal (meta_marshal d ++ rest) = Some d.
Proof.
  intros Hok Hwf. unfold meta_unmarshal, meta_marshal.
  destruct (enc_fdesc_struct d) as [fs Hfs]. rewrite Hfs.
  rewrite dec_struct_enc by (rewrite <- Hfs; apply wfb_sound; exact Hwf).
  rewrite <- Hfs. apply fdesc_rt. exact Hok.
Qed.

Section Gzip.
  Variable zip : bytes -> bytes.
  Variable unzip : bytes -> option bytes.
  Hypothesis unzip_zip : forall x, unzip (zip x) = Some x.

  Theorem marshal_roundtrip d :
    fdesc_ok d = true -> wfb (enc_fdesc d) = true -> unmarshal unzip (marshal zip d) = Some d.
  Proof.
    intros Hok Hwf. unfold unmarshal, marshal. rewrite unzip_zip.
    rewrite <- (app_nil_r (meta_marshal d)). apply meta_roundtrip; assumption.
  Qed.

End Gzip.

(* ---- what GetFileDescriptor builds is such a descriptor ---- *)

Lemma update_keys {A} k (v : A) m :
  map fst (update k v m) = if existsb (beqb k) (map fst m) then map fst m else map fst m ++ [k].
Proof.
  induction m as [|[k' v'] m IH]; cbn [update map fst existsb]; [reflexivity|].
  destruct (beqb k k') eqn:E; cbn [orb map fst]; [apply beqb_true in E; subst; reflexivity|].
  rewrite IH. destruct (existsb (beqb k) (map fst m)); reflexivity.
Qed.

Lemma update_nodup {A} k (v : A) m : NoDup (map fst m) -> NoDup (map fst (update k v m)).
Proof.
  intro H. rewrite update_keys. destruct (existsb (beqb k) (map fst m)) eqn:E; [exact H|].
  apply (Permutation_NoDup (l := k :: map fst m)).
  - apply Permutation_cons_append.
  - constructor; [|exact H]. intro Hin. apply existsb_beqb_In in Hin. congruence.
Qed.

Lemma fold_update_nodup {A B} (step : smap B -> A -> smap B) (l : list A) :
  (forall m x, NoDup (map fst m) -> NoDup (map fst (step m x))) ->
  forall acc, NoDup (map fst acc) -> NoDup (map fst (fold_left step l acc)).
Proof. intro H. induction l as [|x l IH]; intros acc Ha; cbn [fold_left]; [exact Ha|]. apply IH. apply H. exact Ha. Qed.

Lemma annos_map_ok a : smap_ok (annos_map a) = true.
Proof.
  apply nodupb_NoDup. unfold annos_map. apply fold_update_nodup; [|constructor].
  intros m x Hm. apply update_nodup. exact Hm.
Qed.

Lemma includes_map_ok f : smap_ok (includes_map f) = true.
Proof.
  apply nodupb_NoDup. unfold includes_map. apply fold_update_nodup; [|constructor].
  intros m x Hm. apply update_nodup. exact Hm.
Qed.

Lemma namespaces_map_ok f : smap_ok (namespaces_map f) = true.
Proof.
  apply nodupb_NoDup. unfold namespaces_map. apply fold_update_nodup; [|constructor].
  intros m x Hm. destruct (lookup (ns_language x) m); [destruct (beqb (ns_language x) s_star)|];
    try apply update_nodup; exact Hm.
Qed.

Lemma type_desc_ok p : forall t, tdesc_ok (type_desc p t) = true.
Proof.
  induction t as [n k v c an cat r td IHk IHv] using ty_ind'. cbn [type_desc tdesc_ok extra_ok].
  destruct k as [x|]; destruct v as [y|]; rewrite ?IHk, ?IHv by reflexivity; reflexivity.
Qed.

Lemma cv_desc_list_eq l :
  (fix go (l : list const_value) : list cvdesc := match l with [] => [] | x :: r => cv_desc x :: go r end) l = map cv_desc l.
Proof. induction l as [|x r IH]; [reflexivity|]. cbn [map]. rewrite <- IH. reflexivity. Qed.
Lemma cv_desc_map_eq l :
  (fix go (l : list (const_value * const_value)) : list (cvdesc * cvdesc) :=
     match l with [] => [] | (k, v) :: r => (cv_desc k, cv_desc v) :: go r end) l =
  map (fun kv => (cv_desc (fst kv), cv_desc (snd kv))) l.
Proof. induction l as [|[k v] r IH]; [reflexivity|]. cbn [map fst snd]. rewrite <- IH. reflexivity. Qed.

Lemma cv_desc_ok : forall c, cvdesc_ok (cv_desc c) = true.
Proof.
  induction c as [b|z|s|s e|l IH|l IH] using const_value_ind'; cbn [cv_desc]; try reflexivity.
  - destruct (beqb s s_false); [reflexivity|]. destruct (beqb s s_true); reflexivity.
  - rewrite cv_desc_list_eq. cbn [cvdesc_ok extra_ok]. rewrite andb_true_r.
    change (in_srangeb 4 CVT_LIST) with true. cbn [andb].
    induction IH as [|x r Hx _ IHr]; [reflexivity|]. cbn [map]. rewrite Hx. exact IHr.
  - rewrite cv_desc_map_eq. cbn [cvdesc_ok extra_ok]. rewrite andb_true_r.
    change (in_srangeb 4 CVT_MAP) with true. cbn [andb].
    induction IH as [|[k v] r [Hk Hv] _ IHr]; [reflexivity|]. cbn [map fst snd] in *. rewrite Hk, Hv. exact IHr.
Qed.

Lemma forallb_map_true {A B} (f : A -> B) (ok : B -> bool) l : (forall x, ok (f x) = true) -> forallb ok (map f l) = true.
Proof. intro H. induction l as [|x l IH]; [reflexivity|]. cbn [map forallb]. rewrite H, IH. reflexivity. Qed.

Lemma field_desc_ok p f : fielddesc_ok (field_desc p f) = true.
Proof.
  unfold fielddesc_ok, field_desc. cbn [fld_type fld_default fld_annos fld_extra extra_ok].
  rewrite type_desc_ok, annos_map_ok. destruct (fd_default f); cbn [omap]; [rewrite cv_desc_ok|]; reflexivity.
Qed.
Lemma struct_desc_ok p s : structdesc_ok (struct_desc p s) = true.
Proof.
  unfold structdesc_ok, struct_desc. cbn [sd_fields sd_annos sd_extra extra_ok].
  rewrite annos_map_ok, forallb_map_true by (apply field_desc_ok). reflexivity.
Qed.
Lemma enum_desc_ok p e : enumdesc_ok (enum_desc p e) = true.
Proof.
  unfold enumdesc_ok, enum_desc. cbn [ed_values ed_annos ed_extra extra_ok].
  rewrite annos_map_ok, forallb_map_true; [reflexivity|].
  intro v. unfold enumvaluedesc_ok, enum_value_desc. cbn [evd_annos evd_extra extra_ok]. rewrite annos_map_ok. reflexivity.
Qed.
Lemma typedef_desc_ok p t : typedefdesc_ok (typedef_desc p t) = true.
Proof. unfold typedefdesc_ok, typedef_desc. cbn [tdd_type tdd_annos tdd_extra extra_ok]. rewrite type_desc_ok, annos_map_ok. reflexivity. Qed.
Lemma method_desc_ok p fn : methoddesc_ok (method_desc p fn) = true.
Proof.
  unfold methoddesc_ok, method_desc. cbn [md_response md_args md_annos md_throws md_extra extra_ok].
  rewrite type_desc_ok, annos_map_ok, !forallb_map_true by (apply field_desc_ok). reflexivity.
Qed.
Lemma service_desc_ok p s : servicedesc_ok (service_desc p s) = true.
Proof.
  unfold servicedesc_ok, service_desc. cbn [svd_methods svd_annos svd_extra extra_ok].
  rewrite annos_map_ok, forallb_map_true by (apply method_desc_ok). reflexivity.
Qed.
Lemma const_desc_ok p c : constdesc_ok (const_desc p c) = true.
Proof. unfold constdesc_ok, const_desc. cbn [cd_type cd_value cd_annos cd_extra extra_ok]. rewrite type_desc_ok, cv_desc_ok, annos_map_ok. reflexivity. Qed.

(* every descriptor GetFileDescriptor builds is in the domain of the round trip *)
Theorem descriptor_of_ok f : fdesc_ok (descriptor_of f) = true.
Proof.
  unfold fdesc_ok, descriptor_of.
  cbn [fdc_includes fdc_namespaces fdc_services fdc_structs fdc_exceptions fdc_enums fdc_typedefs fdc_unions fdc_consts fdc_extra extra_ok].
  rewrite includes_map_ok, namespaces_map_ok.
  rewrite (forallb_map_true _ servicedesc_ok) by (apply service_desc_ok).
  rewrite !(forallb_map_true _ structdesc_ok) by (apply struct_desc_ok).
  rewrite (forallb_map_true _ enumdesc_ok) by (apply enum_desc_ok).
  rewrite (forallb_map_true _ typedefdesc_ok) by (apply typedef_desc_ok).
  rewrite (forallb_map_true _ constdesc_ok) by (apply const_desc_ok).
  reflexivity.
Qed.

(* ================================================================ 3. descriptor_of states the IDL *)

Lemma annos_map_faithful a : annos_ok a = true -> annos_map a = annx_of_annos a.
Proof.
  intro H. apply nodupb_NoDup in H. unfold annos_map, annx_of_annos. apply fold_update_map. exact H.
Qed.

Lemma tyx_type_desc p : forall t, tyx_of_tdesc (type_desc p t) = tyx_of_ty t.
Proof.
  induction t as [n k v c an cat r td IHk IHv] using ty_ind'. cbn [type_desc tyx_of_tdesc tyx_of_ty].
  destruct k as [x|]; destruct v as [y|]; rewrite ?(IHk _ eq_refl), ?(IHv _ eq_refl); reflexivity.
Qed.

Lemma cvx_of_cv_list_eq l :
  (fix go (l : list const_value) : list cvx := match l with [] => [] | x :: r => cvx_of_cv x :: go r end) l = map cvx_of_cv l.
Proof. induction l as [|x r IH]; [reflexivity|]. cbn [map]. rewrite <- IH. reflexivity. Qed.
Lemma cvx_of_cv_map_eq l :
  (fix go (l : list (const_value * const_value)) : list (cvx * cvx) :=
     match l with [] => [] | (k, v) :: r => (cvx_of_cv k, cvx_of_cv v) :: go r end) l =
  map (fun kv => (cvx_of_cv (fst kv), cvx_of_cv (snd kv))) l.
Proof. induction l as [|[k v] r IH]; [reflexivity|]. cbn [map fst snd]. rewrite <- IH. reflexivity. Qed.
Lemma cvx_of_cvdesc_list_eq l :
  (fix go (l : list cvdesc) : list cvx := match l with [] => [] | x :: r => cvx_of_cvdesc x :: go r end) l = map cvx_of_cvdesc l.
Proof. induction l as [|x r IH]; [reflexivity|]. cbn [map]. rewrite <- IH. reflexivity. Qed.
Lemma cvx_of_cvdesc_map_eq l :
  (fix go (l : list (cvdesc * cvdesc)) : list (cvx * cvx) :=
     match l with [] => [] | (k, v) :: r => (cvx_of_cvdesc k, cvx_of_cvdesc v) :: go r end) l =
  map (fun kv => (cvx_of_cvdesc (fst kv), cvx_of_cvdesc (snd kv))) l.
Proof. induction l as [|[k v] r IH]; [reflexivity|]. cbn [map fst snd]. rewrite <- IH. reflexivity. Qed.

Lemma cvx_cv_desc : forall c, cvx_of_cvdesc (cv_desc c) = cvx_of_cv c.
Proof.
  induction c as [b|z|s|s e|l IH|l IH] using const_value_ind'; cbn [cv_desc cvx_of_cv]; try reflexivity.
  - destruct (beqb s s_false); [reflexivity|]. destruct (beqb s s_true); reflexivity.
  - rewrite cv_desc_list_eq, cvx_of_cv_list_eq. cbn [cvx_of_cvdesc]. change (CVT_LIST =? CVT_DOUBLE) with false.
    cbn [Z.eqb CVT_LIST CVT_INT CVT_STRING CVT_BOOL Pos.eqb]. rewrite cvx_of_cvdesc_list_eq, map_map. f_equal.
    induction IH as [|x r Hx _ IHr]; [reflexivity|]. cbn [map]. rewrite Hx, IHr. reflexivity.
  - rewrite cv_desc_map_eq, cvx_of_cv_map_eq. cbn [cvx_of_cvdesc].
    cbn [Z.eqb CVT_MAP CVT_DOUBLE CVT_LIST CVT_INT CVT_STRING CVT_BOOL Pos.eqb]. rewrite cvx_of_cvdesc_map_eq, map_map. f_equal.
    induction IH as [|[k v] r [Hk Hv] _ IHr]; [reflexivity|]. cbn [map fst snd] in *. rewrite Hk, Hv, IHr. reflexivity.
Qed.

Lemma req_roundtrip r : req_of_string (req_string r) = Some r.
Proof. destruct r; vm_compute; reflexivity. Qed.

Lemma fieldx_field_desc p f : field_annos_ok f = true -> fieldx_of_desc (field_desc p f) = fieldx_of f.
Proof.
  unfold field_annos_ok. intro H. unfold fieldx_of_desc, field_desc, fieldx_of.
  cbn [fld_name fld_id fld_req fld_type fld_default fld_annos fld_comments].
  rewrite req_roundtrip, tyx_type_desc, annos_map_faithful by exact H.
  destruct (fd_default f); cbn [omap]; [rewrite cvx_cv_desc|]; reflexivity.
Qed.

Lemma map_map_in {A B C} (f : A -> B) (g : B -> C) (h : A -> C) l :
  (forall x, In x l -> g (f x) = h x) -> map g (map f l) = map h l.
Proof. intro H. rewrite map_map. apply map_ext_in. exact H. Qed.

Lemma fieldsx p l : forallb field_annos_ok l = true -> map fieldx_of_desc (map (field_desc p) l) = map fieldx_of l.
Proof.
  intro H. apply map_map_in. intros x Hx. apply fieldx_field_desc. rewrite forallb_forall in H. apply H. exact Hx.
Qed.

Lemma structx_struct_desc p s :
  annos_ok (sl_annos s) && forallb field_annos_ok (sl_fields s) = true -> structx_of_desc (struct_desc p s) = structx_of s.
Proof.
  intro H. apply andb_true_iff in H as [Ha Hf]. unfold structx_of_desc, struct_desc, structx_of.
  cbn [sd_name sd_fields sd_annos sd_comments]. rewrite fieldsx, annos_map_faithful by assumption. reflexivity.
Qed.

Lemma enumx_enum_desc p e :
  annos_ok (en_annos e) && forallb (fun v => annos_ok (ev_annos v)) (en_values e) = true -> enumx_of_desc (enum_desc p e) = enumx_of e.
Proof.
  intro H. apply andb_true_iff in H as [Ha Hv]. unfold enumx_of_desc, enum_desc, enumx_of.
  cbn [ed_name ed_values ed_annos ed_comments]. rewrite annos_map_faithful by exact Ha. f_equal.
  apply map_map_in. intros v Hin. unfold enumvaluex_of_desc, enum_value_desc, enumvaluex_of.
  cbn [evd_name evd_value evd_annos evd_comments]. rewrite annos_map_faithful; [reflexivity|].
  rewrite forallb_forall in Hv. apply Hv. exact Hin.
Qed.

Lemma typedefx_typedef_desc p t : annos_ok (td_annos t) = true -> typedefx_of_desc (typedef_desc p t) = typedefx_of t.
Proof.
  intro H. unfold typedefx_of_desc, typedef_desc, typedefx_of. cbn [tdd_alias tdd_type tdd_annos tdd_comments].
  rewrite tyx_type_desc, annos_map_faithful by exact H. reflexivity.
Qed.

Lemma methodx_method_desc p fn :
  annos_ok (fn_annos fn) && forallb field_annos_ok (fn_args fn) && forallb field_annos_ok (fn_throws fn) = true ->
  methodx_of_desc (method_desc p fn) = methodx_of fn.
Proof.
  intro H. apply andb_true_iff in H as [H Ht]. apply andb_true_iff in H as [Ha Hg].
  unfold methodx_of_desc, method_desc, methodx_of. cbn [md_name md_response md_args md_throws md_oneway md_annos md_comments omap].
  rewrite tyx_type_desc, !fieldsx, annos_map_faithful by assumption. reflexivity.
Qed.

Lemma servicex_service_desc p s :
  annos_ok (sv_annos s) &&
  forallb (fun fn => annos_ok (fn_annos fn) && forallb field_annos_ok (fn_args fn) && forallb field_annos_ok (fn_throws fn)) (sv_functions s) = true ->
  servicex_of_desc (service_desc p s) = servicex_of s.
Proof.
  intro H. apply andb_true_iff in H as [Ha Hf]. unfold servicex_of_desc, service_desc, servicex_of.
  cbn [svd_name svd_base svd_methods svd_annos svd_comments]. rewrite annos_map_faithful by exact Ha. f_equal.
  apply map_map_in. intros fn Hin. apply methodx_method_desc. rewrite forallb_forall in Hf. apply Hf. exact Hin.
Qed.

Lemma constx_const_desc p c : annos_ok (co_annos c) = true -> constx_of_desc (const_desc p c) = constx_of c.
Proof.
  intro H. unfold constx_of_desc, const_desc, constx_of. cbn [cd_name cd_type cd_value cd_annos cd_comments].
  rewrite tyx_type_desc, cvx_cv_desc, annos_map_faithful by exact H. reflexivity.
Qed.

(* ---- namespaces ---- *)

Lemma dedup_snoc : forall l seen x,
  dedup seen (l ++ [x]) = dedup seen l ++ (if existsb (beqb x) seen || existsb (beqb x) l then [] else [x]).
Proof.
  induction l as [|y r IH]; intros seen x; cbn [app dedup existsb].
  - rewrite orb_false_r. destruct (existsb (beqb x) seen); reflexivity.
  - destruct (existsb (beqb y) seen) eqn:Ey.
    + rewrite IH. f_equal. destruct (beqb x y) eqn:Exy; [|reflexivity].
      apply beqb_true in Exy. subst y. rewrite Ey. reflexivity.
    + cbn [app]. rewrite IH. cbn [existsb]. f_equal. f_equal.
      destruct (beqb x y); destruct (existsb (beqb x) seen); destruct (existsb (beqb x) r); reflexivity.
Qed.

Lemma dedup_In : forall l seen x, In x (dedup seen l) <-> In x l /\ ~ In x seen.
Proof.
  induction l as [|y r IH]; intros seen x; cbn [dedup In]; [tauto|].
  destruct (existsb (beqb y) seen) eqn:Ey.
  - rewrite IH. apply existsb_beqb_In in Ey. split; [tauto|]. intros [[->|H] Hn]; [contradiction|tauto].
  - cbn [In]. rewrite IH. cbn [In].
    assert (Hy : ~ In y seen) by (intro Hin; apply existsb_beqb_In in Hin; congruence).
    split.
    + intros [->|[H Hn]]; [tauto|]. split; [tauto|]. intro Hs. apply Hn. right. exact Hs.
    + intros [[->|H] Hn]; [left; reflexivity|].
      destruct (beqb y x) eqn:E; [apply beqb_true in E; left; exact E|].
      right. split; [exact H|]. intros [->|Hs]; [rewrite beqb_refl in E; discriminate|contradiction].
Qed.

Lemma dedup_NoDup : forall l seen, NoDup (dedup seen l).
Proof.
  induction l as [|y r IH]; intro seen; cbn [dedup]; [constructor|].
  destruct (existsb (beqb y) seen); [apply IH|]. constructor; [|apply IH].
  rewrite dedup_In. cbn [In]. tauto.
Qed.

Lemma find_snoc {A} (p : A -> bool) l x :
  find p (l ++ [x]) = match find p l with Some y => Some y | None => if p x then Some x else None end.
Proof. induction l as [|y r IH]; cbn [app find]; [reflexivity|]. destruct (p y); [reflexivity|exact IH]. Qed.

Lemma find_lang_In l ns : In l (map ns_language ns) <-> find (fun n => beqb (ns_language n) l) ns <> None.
Proof.
  induction ns as [|n r IH]; cbn [map In find]; [split; [tauto|congruence]|].
  destruct (beqb (ns_language n) l) eqn:E.
  - apply beqb_true in E. split; [congruence|]. intros _. left. exact E.
  - rewrite <- IH. split; [|tauto]. intros [H|H]; [subst; rewrite beqb_refl in E; discriminate|exact H].
Qed.

Lemma first_ns_snoc l pre n :
  first_ns l (pre ++ [n]) =
  match first_ns l pre with Some x => Some x | None => if beqb (ns_language n) l then Some (ns_name n) else None end.
Proof.
  unfold first_ns. rewrite find_snoc. destruct (find (fun n0 => beqb (ns_language n0) l) pre); [reflexivity|].
  destruct (beqb (ns_language n) l); reflexivity.
Qed.

Lemma last_ns_snoc l pre n :
  last_ns l (pre ++ [n]) = if beqb (ns_language n) l then Some (ns_name n) else last_ns l pre.
Proof.
  unfold last_ns. rewrite rev_unit. unfold first_ns. cbn [find]. destruct (beqb (ns_language n) l); reflexivity.
Qed.

Lemma first_ns_In l ns : In l (map ns_language ns) -> first_ns l ns <> None.
Proof.
  intro H. apply find_lang_In in H. unfold first_ns. destruct (find (fun n => beqb (ns_language n) l) ns); [discriminate|congruence].
Qed.
Lemma first_ns_notIn l ns : ~ In l (map ns_language ns) -> first_ns l ns = None.
Proof.
  intro H. unfold first_ns. destruct (find (fun n => beqb (ns_language n) l) ns) eqn:E; [|reflexivity].
  exfalso. apply H. apply find_lang_In. congruence.
Qed.

(* the namespace of a language that the prefix already names, after one more line *)
Lemma ns_of_language_snoc_old l pre n :
  In l (map ns_language pre) ->
  ns_of_language l (pre ++ [n]) =
  if beqb l s_star && beqb (ns_language n) l then ns_name n else ns_of_language l pre.
Proof.
  intro Hin. unfold ns_of_language. destruct (beqb l s_star) eqn:Es; cbn [andb].
  - rewrite last_ns_snoc. destruct (beqb (ns_language n) l); reflexivity.
  - rewrite first_ns_snoc. pose proof (first_ns_In l pre Hin) as Hf. destruct (first_ns l pre); [reflexivity|congruence].
Qed.

Lemma ns_of_language_snoc_new pre n :
  ~ In (ns_language n) (map ns_language pre) -> ns_of_language (ns_language n) (pre ++ [n]) = ns_name n.
Proof.
  intro Hn. unfold ns_of_language. destruct (beqb (ns_language n) s_star).
  - rewrite last_ns_snoc, beqb_refl. reflexivity.
  - rewrite first_ns_snoc, (first_ns_notIn _ _ Hn), beqb_refl. reflexivity.
Qed.

Lemma lookup_map_self {A} (g : bytes -> A) l D :
  lookup l (map (fun x => (x, g x)) D) = if existsb (beqb l) D then Some (g l) else None.
Proof.
  induction D as [|y r IH]; cbn [map lookup existsb]; [reflexivity|].
  destruct (beqb l y) eqn:E; cbn [orb]; [apply beqb_true in E; subst; reflexivity|exact IH].
Qed.

Lemma update_map_self {A} (g : bytes -> A) l v D :
  NoDup D -> In l D ->
  update l v (map (fun x => (x, g x)) D) = map (fun x => (x, if beqb x l then v else g x)) D.
Proof.
  induction D as [|y r IH]; intros Hnd Hin; [destruct Hin|]. cbn [map update]. inversion Hnd as [|? ? Hy Hr]; subst.
  destruct (beqb l y) eqn:E.
  - apply beqb_true in E. subst y. rewrite beqb_refl. f_equal. apply map_ext_in. intros x Hx.
    destruct (beqb x l) eqn:E2; [apply beqb_true in E2; subst; contradiction|reflexivity].
  - rewrite (beqb_sym y l), E. f_equal. apply IH; [exact Hr|]. destruct Hin as [->|H]; [rewrite beqb_refl in E; discriminate|exact H].
Qed.

Theorem namespaces_faithful f : namespaces_map f = namespaces_x f.
Proof.
  unfold namespaces_map, namespaces_x. generalize (f_namespaces f) as ns. clear f.
  induction ns as [|n pre IH] using rev_ind; [reflexivity|].
  rewrite fold_left_app. cbn [fold_left]. rewrite IH. clear IH.
  rewrite map_app. cbn [map]. rewrite dedup_snoc. cbn [existsb orb].
  set (L := ns_language n). set (D := dedup [] (map ns_language pre)).
  assert (HD : forall x, In x D <-> In x (map ns_language pre)).
  { intro x. unfold D. rewrite dedup_In. cbn [In]. tauto. }
  assert (HDnd : NoDup D) by apply dedup_NoDup.
  rewrite lookup_map_self.
  destruct (existsb (beqb L) (map ns_language pre)) eqn:EL.
  - (* the language was named before *)
    apply existsb_beqb_In in EL as HLin. assert (HLD : In L D) by (apply HD; exact HLin).
    assert (E1 : existsb (beqb L) D = true) by (apply existsb_beqb_In; exact HLD).
    rewrite E1, app_nil_r.
    destruct (beqb L s_star) eqn:Es.
    + rewrite (update_map_self _ L (ns_name n) D HDnd HLD). apply map_ext_in. intros x Hx.
      rewrite ns_of_language_snoc_old by (apply HD; exact Hx). fold L. f_equal.
      destruct (beqb x L) eqn:Ex.
      * apply beqb_true in Ex. subst x. rewrite Es, beqb_refl. reflexivity.
      * rewrite (beqb_sym L x), Ex, andb_false_r. reflexivity.
    + apply map_ext_in. intros x Hx. rewrite ns_of_language_snoc_old by (apply HD; exact Hx). fold L. f_equal.
      destruct (beqb x s_star) eqn:Exs; [|reflexivity]. cbn [andb].
      destruct (beqb L x) eqn:ELx; [|reflexivity]. apply beqb_true in ELx. subst x. congruence.
  - (* a new language *)
    assert (HLn : ~ In L (map ns_language pre)) by (intro Hin; apply existsb_beqb_In in Hin; congruence).
    assert (E1 : existsb (beqb L) D = false).
    { destruct (existsb (beqb L) D) eqn:E; [|reflexivity]. apply existsb_beqb_In in E. apply HD in E. contradiction. }
    rewrite E1. rewrite update_notin.
    + rewrite map_app. cbn [map]. f_equal.
      * apply map_ext_in. intros x Hx. rewrite ns_of_language_snoc_old by (apply HD; exact Hx). fold L. f_equal.
        destruct (beqb L x) eqn:ELx; [|rewrite andb_false_r; reflexivity].
        apply beqb_true in ELx. subst x. exfalso. apply HLn. apply HD. exact Hx.
      * unfold L. rewrite ns_of_language_snoc_new by exact HLn. reflexivity.
    + rewrite map_map. cbn [fst]. rewrite map_id. intro Hin. apply HLn. apply HD. exact Hin.
Qed.

(* ---- splitting at the last dot / slash ---- *)

Definition no_byte (c : byte) (s : bytes) : bool := forallb (fun b => negb (Byte.eqb b c)) s.

Lemma split_on_none c : forall s cur, no_byte c s = true -> split_on c s cur = [rev cur ++ s].
Proof.
  induction s as [|b r IH]; intros cur H; cbn [split_on]; [rewrite app_nil_r; reflexivity|].
  cbn [no_byte forallb] in H. apply andb_true_iff in H as [Hb Hr]. apply negb_true_iff in Hb. rewrite Hb.
  rewrite IH by exact Hr. cbn [rev]. rewrite <- app_assoc. reflexivity.
Qed.

Lemma split_on_app c : forall a b cur, split_on c (a ++ c :: b) cur = split_on c a cur ++ split_on c b [].
Proof.
  induction a as [|x a IH]; intros b cur; cbn [app split_on].
  - assert (E : Byte.eqb c c = true) by (apply byte_eqb_eq; reflexivity). rewrite E. reflexivity.
  - destruct (Byte.eqb x c); [rewrite IH; reflexivity|apply IH].
Qed.

Definition join_with (c : byte) (l : list bytes) : bytes :=
  List.concat (match l with [] => [] | x :: r => x :: map (fun p => c :: p) r end).

Lemma split_on_nonempty c : forall s cur, split_on c s cur <> [].
Proof. induction s as [|b r IH]; intro cur; cbn [split_on]; [discriminate|]. destruct (Byte.eqb b c); [discriminate|apply IH]. Qed.

Lemma join_split c : forall s cur, join_with c (split_on c s cur) = rev cur ++ s.
Proof.
  induction s as [|b r IH]; intro cur; cbn [split_on].
  - unfold join_with. cbn [map List.concat]. rewrite !app_nil_r. reflexivity.
  - destruct (Byte.eqb b c) eqn:E.
    + apply byte_eqb_eq in E. subst b. specialize (IH []). cbn [rev app] in IH.
      unfold join_with in *. destruct (split_on c r []) as [|y ys] eqn:Es; [exfalso; exact (split_on_nonempty c r [] Es)|].
      cbn [map List.concat] in *. rewrite <- IH. cbn [app]. reflexivity.
    + rewrite IH. cbn [rev]. rewrite <- app_assoc. reflexivity.
Qed.

Lemma last_index_split_last c a b : no_byte c b = true -> last_index_split c (a ++ c :: b) = Some (a, b).
Proof.
  intro Hb. unfold last_index_split. rewrite split_on_app, (split_on_none c b [] Hb). cbn [rev app].
  rewrite rev_unit. pose proof (join_split c a []) as J. cbn [rev app] in J.
  destruct (split_on c a []) as [|x r] eqn:Es; [exfalso; exact (split_on_nonempty c a [] Es)|].
  rewrite rev_involutive. unfold join_with in J. rewrite J.
  match goal with |- match ?q with _ => _ end = _ => destruct q as [|y ys] eqn:Er end; [|reflexivity].
  apply (f_equal (@List.length (list byte))) in Er. rewrite rev_length in Er. discriminate.
Qed.

Lemma last_index_split_none c s : no_byte c s = true -> last_index_split c s = None.
Proof. intro H. unfold last_index_split. rewrite (split_on_none c s [] H). reflexivity. Qed.

(* ---- includes ---- *)

Lemma include_alias_prefix i :
  match in_ref i with
  | Some p => beqb (base_name (in_path i)) (base_name p)
  | None => false end = true ->
  include_alias (include_path i) = idl_prefix (in_path i).
Proof.
  unfold include_path. destruct (in_ref i) as [p|]; [|discriminate]. intro Hb. apply beqb_true in Hb.
  unfold include_alias, idl_prefix. rewrite Hb. reflexivity.
Qed.

Theorem includes_faithful f :
  distinct_basenames f = true -> includes_plain f = true -> includes_map f = includes_x f.
Proof.
  unfold distinct_basenames, includes_plain, includes_map, includes_x. intros Hd Hp.
  apply nodupb_NoDup in Hd. rewrite (fold_update_map _ _ _ Hd).
  apply map_ext_in. intros i Hi. rewrite forallb_forall in Hp. rewrite (include_alias_prefix i (Hp i Hi)). reflexivity.
Qed.

(* ---- the whole file ---- *)

Definition forget_includes (x : filex) : filex :=
  FileX (x_path x) [] (x_namespaces x) (x_structs x) (x_unions x) (x_exceptions x) (x_enums x) (x_typedefs x)
        (x_services x) (x_consts x).

Lemma struct_likes_ok f :
  forallb (fun s => annos_ok (sl_annos s) && forallb field_annos_ok (sl_fields s)) (struct_likes f) = true ->
  map structx_of_desc (map (struct_desc (f_filename f)) (f_structs f)) = map structx_of (f_structs f) /\
  map structx_of_desc (map (struct_desc (f_filename f)) (f_unions f)) = map structx_of (f_unions f) /\
  map structx_of_desc (map (struct_desc (f_filename f)) (f_exceptions f)) = map structx_of (f_exceptions f).
Proof.
  unfold struct_likes. rewrite !forallb_app. intro H. apply andb_true_iff in H as [Hs H]. apply andb_true_iff in H as [Hu He].
  repeat split; apply map_map_in; intros s Hin; apply structx_struct_desc;
    match goal with H : forallb _ ?l = true, Hin : In s ?l |- _ => rewrite forallb_forall in H; apply H; exact Hin end.
Qed.

(* everything but the includes: for every file *)
Theorem descriptor_faithful_definitions f :
  file_annos_ok f = true -> forget_includes (project_d (descriptor_of f)) = forget_includes (project_a f).
Proof.
  unfold file_annos_ok. intro H.
  apply andb_true_iff in H as [H Hsv]. apply andb_true_iff in H as [H Hco]. apply andb_true_iff in H as [H Htd].
  apply andb_true_iff in H as [Hsl Hen].
  destruct (struct_likes_ok f Hsl) as [Es [Eu Ex]].
  unfold forget_includes, project_d, project_a, descriptor_of.
  cbn [x_path x_namespaces x_structs x_unions x_exceptions x_enums x_typedefs x_services x_consts
       fdc_filepath fdc_namespaces fdc_structs fdc_unions fdc_exceptions fdc_enums fdc_typedefs fdc_services fdc_consts].
  rewrite Es, Eu, Ex, namespaces_faithful. f_equal.
  - apply map_map_in. intros e Hin. apply enumx_enum_desc. rewrite forallb_forall in Hen. apply Hen. exact Hin.
  - apply map_map_in. intros t Hin. apply typedefx_typedef_desc. rewrite forallb_forall in Htd. apply Htd. exact Hin.
  - apply map_map_in. intros s Hin. apply servicex_service_desc. rewrite forallb_forall in Hsv. apply Hsv. exact Hin.
  - apply map_map_in. intros c Hin. apply constx_const_desc. rewrite forallb_forall in Hco. apply Hco. exact Hin.
Qed.

Lemma forget_includes_eq x y : forget_includes x = forget_includes y -> x_includes x = x_includes y -> x = y.
Proof. destruct x, y. unfold forget_includes. cbn. intros H E. injection H as -> -> -> -> -> -> -> -> ->. subst. reflexivity. Qed.

Theorem descriptor_faithful f :
  file_annos_ok f = true -> distinct_basenames f = true -> includes_plain f = true ->
  project_d (descriptor_of f) = project_a f.
Proof.
  intros Ha Hd Hp. apply forget_includes_eq; [apply descriptor_faithful_definitions; exact Ha|].
  unfold project_d, project_a, descriptor_of. cbn [x_includes fdc_includes]. apply includes_faithful; assumption.
Qed.

(* two files with the same descriptor state the same; a difference in anything the property names
   shows in the descriptor *)
Theorem descriptor_of_injective_on_projection f g :
  file_annos_ok f = true -> distinct_basenames f = true -> includes_plain f = true ->
  file_annos_ok g = true -> distinct_basenames g = true -> includes_plain g = true ->
  descriptor_of f = descriptor_of g -> project_a f = project_a g.
Proof.
  intros Hf1 Hf2 Hf3 Hg1 Hg2 Hg3 E.
  rewrite <- (descriptor_faithful f Hf1 Hf2 Hf3), <- (descriptor_faithful g Hg1 Hg2 Hg3), E. reflexivity.
Qed.

(* the unchanged descriptor format cannot state two includes of one base name *)
Local Open Scope string_scope.
Definition dup_file : file :=
  File (B "main.thrift")
       [Include (B "x/shared.thrift") (Some (B "x/shared.thrift")) None;
        Include (B "y/shared.thrift") (Some (B "y/shared.thrift")) None]
       [] [] [] [] [] [] [] [] [] None.
Local Close Scope string_scope.

Theorem includes_same_basename_refuted :
  exists f, file_annos_ok f = true /\ includes_plain f = true /\ distinct_basenames f = false /\
            x_includes (project_d (descriptor_of f)) <> x_includes (project_a f).
Proof.
  exists dup_file. repeat split; try (vm_compute; reflexivity). vm_compute. intro H. discriminate H.
Qed.

(* ================================================================ 4. lookups *)

(* a program as the parser delivers it: every file once, listed under its own Filename *)
Definition prog_ok (P : program) : bool :=
  nodupb (map fst P) && forallb (fun nf => beqb (fst nf) (f_filename (snd nf))) P.

Lemma lookup_fd_registry P path :
  prog_ok P = true -> lookup_fd (registry_of P) path = omap descriptor_of (prog_file P path).
Proof.
  unfold prog_ok. intro H. apply andb_true_iff in H as [_ H]. unfold lookup_fd, registry_of, prog_file.
  induction P as [|[k f] P IH]; [reflexivity|]. cbn [forallb fst snd] in H. apply andb_true_iff in H as [Hk HP].
  apply beqb_true in Hk. cbn [map find lookup snd]. unfold descriptor_of at 1. cbn [fdc_filepath].
  rewrite <- Hk, (beqb_sym k path). destruct (beqb path k); [reflexivity|]. apply IH. exact HP.
Qed.

Lemma parse_alias_plain n : no_byte dot n = true -> parse_alias n = ([], n).
Proof. intro H. unfold parse_alias. rewrite (last_index_split_none dot n H). reflexivity. Qed.

Lemma parse_alias_qualified pre n : no_byte dot n = true -> parse_alias (pre ++ dot :: n) = (pre, n).
Proof. intro H. unfold parse_alias. rewrite (last_index_split_last dot pre n H). reflexivity. Qed.

Lemma is_empty_false (s : bytes) : s <> [] -> is_empty s = false.
Proof. destruct s; [congruence|reflexivity]. Qed.

Lemma get_descriptor_local {A} (lk : fdesc -> bytes -> option A) reg f n :
  n <> [] -> no_byte dot n = true -> get_descriptor lk reg f n = lk f n.
Proof.
  intros Hn Hd. unfold get_descriptor. rewrite (is_empty_false n Hn), (parse_alias_plain n Hd). reflexivity.
Qed.

Lemma get_descriptor_qualified {A} (lk : fdesc -> bytes -> option A) reg f pre n :
  pre <> [] -> n <> [] -> no_byte dot n = true ->
  get_descriptor lk reg f (pre ++ dot :: n) =
  match get_include_fd reg f pre with Some g => lk g n | None => None end.
Proof.
  intros Hp Hn Hd. unfold get_descriptor.
  rewrite is_empty_false by (destruct pre; discriminate).
  rewrite (parse_alias_qualified pre n Hd), (is_empty_false pre Hp), (is_empty_false n Hn). reflexivity.
Qed.

Lemma lookup_map_unique {A B} (key : A -> bytes) (val : A -> B) l x :
  NoDup (map key l) -> In x l -> lookup (key x) (map (fun y => (key y, val y)) l) = Some (val x).
Proof.
  induction l as [|y l IH]; intros Hnd Hin; [destruct Hin|]. cbn [map lookup]. inversion Hnd as [|? ? Hy Hl]; subst.
  destruct Hin as [->|Hin]; [rewrite beqb_refl; reflexivity|].
  destruct (beqb (key x) (key y)) eqn:E; [|apply IH; assumption].
  apply beqb_true in E. exfalso. apply Hy. rewrite <- E. apply in_map. exact Hin.
Qed.

(* the descriptor of the file an include prefix stands for *)
Lemma include_fd_right P f i gname g :
  prog_ok P = true -> distinct_basenames f = true ->
  In i (f_includes f) -> in_ref i = Some gname -> gname <> [] -> include_alias gname <> [] ->
  prog_file P gname = Some g ->
  get_include_fd (registry_of P) (descriptor_of f) (include_alias gname) = Some (descriptor_of g).
Proof.
  intros HP Hd Hin Href Hg Ha Hfile. unfold get_include_fd. rewrite (is_empty_false _ Ha).
  unfold descriptor_of at 1. cbn [fdc_includes]. unfold includes_map, distinct_basenames in *.
  apply nodupb_NoDup in Hd. rewrite (fold_update_map _ _ _ Hd).
  assert (Ep : include_path i = gname) by (unfold include_path; rewrite Href; reflexivity).
  rewrite <- Ep at 1.
  rewrite (lookup_map_unique (fun i => include_alias (include_path i)) include_path (f_includes f) i Hd Hin).
  rewrite Ep, (is_empty_false _ Hg), (lookup_fd_registry P gname HP), Hfile. reflexivity.
Qed.

Section LookupByName.
  Context {A D : Type} (lk : fdesc -> bytes -> option D) (mk : bytes -> A -> D) (afind : file -> bytes -> option A).
  (* the descriptor-side search mirrors the AST-side search, file by file *)
  Hypothesis mirrors : forall g n, lk (descriptor_of g) n = omap (mk (f_filename g)) (afind g n).

  (* an unqualified name finds the definition of that name in the file itself *)
  Theorem lookup_local P f n :
    n <> [] -> no_byte dot n = true ->
    get_descriptor lk (registry_of P) (descriptor_of f) n = omap (mk (f_filename f)) (afind f n).
  Proof. intros Hn Hd. rewrite get_descriptor_local by assumption. apply mirrors. Qed.

  (* a name written through the prefix of an include finds the definition in the included file *)
  Theorem lookup_through_include P f i gname g n :
    prog_ok P = true -> distinct_basenames f = true ->
    In i (f_includes f) -> in_ref i = Some gname -> gname <> [] -> include_alias gname <> [] ->
    prog_file P gname = Some g -> n <> [] -> no_byte dot n = true ->
    get_descriptor lk (registry_of P) (descriptor_of f) (include_alias gname ++ dot :: n) =
    omap (mk (f_filename g)) (afind g n).
  Proof.
    intros HP Hd Hin Href Hg Ha Hfile Hn Hnd.
    rewrite get_descriptor_qualified by assumption.
    rewrite (include_fd_right P f i gname g HP Hd Hin Href Hg Ha Hfile). apply mirrors.
  Qed.
End LookupByName.

Lemma first_named_map {A D} (key : D -> bytes) (akey : A -> bytes) (mk : A -> D) l n :
  (forall x, key (mk x) = akey x) -> first_named key (map mk l) n = omap mk (find_by akey n l).
Proof.
  intro H. unfold first_named. induction l as [|x l IH]; [reflexivity|]. cbn [map find find_by].
  rewrite H. destruct (beqb (akey x) n); [reflexivity|exact IH].
Qed.

Lemma mirrors_struct g n :
  first_named sd_name (fdc_structs (descriptor_of g)) n = omap (struct_desc (f_filename g)) (find_struct g n).
Proof. apply first_named_map. reflexivity. Qed.
Lemma mirrors_union g n :
  first_named sd_name (fdc_unions (descriptor_of g)) n = omap (struct_desc (f_filename g)) (find_union g n).
Proof. apply first_named_map. reflexivity. Qed.
Lemma mirrors_exception g n :
  first_named sd_name (fdc_exceptions (descriptor_of g)) n = omap (struct_desc (f_filename g)) (find_exception g n).
Proof. apply first_named_map. reflexivity. Qed.
Lemma mirrors_enum g n :
  first_named ed_name (fdc_enums (descriptor_of g)) n = omap (enum_desc (f_filename g)) (find_enum g n).
Proof. apply first_named_map. reflexivity. Qed.
Lemma mirrors_typedef g n :
  first_named tdd_alias (fdc_typedefs (descriptor_of g)) n = omap (typedef_desc (f_filename g)) (find_typedef g n).
Proof. apply first_named_map. reflexivity. Qed.
Lemma mirrors_const g n :
  first_named cd_name (fdc_consts (descriptor_of g)) n = omap (const_desc (f_filename g)) (find_constant g n).
Proof. apply first_named_map. reflexivity. Qed.
Lemma mirrors_service g n :
  first_named svd_name (fdc_services (descriptor_of g)) n = omap (service_desc (f_filename g)) (find_service g n).
Proof. apply first_named_map. reflexivity. Qed.

(* fields by name and by id, methods by name: the first entry with that name / id, which is THE
   entry when names / ids are unique *)
Lemma field_by_name p s n :
  get_field_by_name (struct_desc p s) n = omap (field_desc p) (find_field s n).
Proof. unfold get_field_by_name, struct_desc, find_field. cbn [sd_fields]. apply first_named_map. reflexivity. Qed.

Lemma find_map_mirror {A D} (mk : A -> D) (q : D -> bool) (p : A -> bool) l :
  (forall x, q (mk x) = p x) -> find q (map mk l) = omap mk (find p l).
Proof. intro H. induction l as [|x l IH]; [reflexivity|]. cbn [map find]. rewrite H. destruct (p x); [reflexivity|exact IH]. Qed.

Lemma field_by_id p s id :
  get_field_by_id (struct_desc p s) id = omap (field_desc p) (find (fun x => fd_id x =? id) (sl_fields s)).
Proof. unfold get_field_by_id, struct_desc. cbn [sd_fields]. apply find_map_mirror. reflexivity. Qed.

Lemma find_unique {A} (p : A -> bool) (key : A -> Z) l x :
  NoDup (map key l) -> In x l -> (forall y, p y = (key y =? key x)) -> find p l = Some x.
Proof.
  induction l as [|y l IH]; intros Hnd Hin Hp; [destruct Hin|]. cbn [find map] in *. inversion Hnd as [|? ? Hy Hl]; subst.
  destruct Hin as [->|Hin]; [rewrite Hp, Z.eqb_refl; reflexivity|].
  rewrite Hp. destruct (Z.eqb_spec (key y) (key x)) as [E|E]; [|apply IH; assumption].
  exfalso. apply Hy. rewrite E. apply in_map. exact Hin.
Qed.

Theorem field_by_id_right p s x :
  NoDup (map fd_id (sl_fields s)) -> In x (sl_fields s) ->
  get_field_by_id (struct_desc p s) (fd_id x) = Some (field_desc p x).
Proof.
  intros Hnd Hin. rewrite field_by_id. rewrite (find_unique _ fd_id (sl_fields s) x Hnd Hin); [reflexivity|]. reflexivity.
Qed.

Lemma find_by_unique {A} (key : A -> bytes) l x :
  NoDup (map key l) -> In x l -> find_by key (key x) l = Some x.
Proof.
  induction l as [|y l IH]; intros Hnd Hin; [destruct Hin|]. cbn [find_by map] in *. inversion Hnd as [|? ? Hy Hl]; subst.
  destruct Hin as [->|Hin]; [rewrite beqb_refl; reflexivity|].
  destruct (beqb (key y) (key x)) eqn:E; [|apply IH; assumption].
  apply beqb_true in E. exfalso. apply Hy. rewrite E. apply in_map. exact Hin.
Qed.

Theorem field_by_name_right p s x :
  NoDup (map fd_name (sl_fields s)) -> In x (sl_fields s) ->
  get_field_by_name (struct_desc p s) (fd_name x) = Some (field_desc p x).
Proof.
  intros Hnd Hin. rewrite field_by_name. unfold find_field. rewrite (find_by_unique fd_name _ x Hnd Hin). reflexivity.
Qed.

Theorem method_by_name_right p s fn :
  NoDup (map fn_name (sv_functions s)) -> In fn (sv_functions s) ->
  get_method_by_name (service_desc p s) (fn_name fn) = Some (method_desc p fn).
Proof.
  intros Hnd Hin. unfold get_method_by_name, service_desc. cbn [svd_methods].
  rewrite (first_named_map md_name fn_name (method_desc p)) by reflexivity.
  rewrite (find_by_unique fn_name _ fn Hnd Hin). reflexivity.
Qed.

(* a lookup without a file path: when exactly one registered file answers, that answer is the
   result, wherever the file stands in the registry (the Go code ranges over a map) *)
Lemma lookup_first_unique {A} (get : registry -> fdesc -> bytes -> option A) reg name d0 x : forall regs,
  In d0 regs -> get reg d0 name = Some x ->
  (forall d, In d regs -> get reg d name <> None -> d = d0) ->
  (fix go (l : list fdesc) : option A :=
     match l with
     | [] => None
     | f :: r => match get reg f name with Some x => Some x | None => go r end
     end) regs = Some x.
Proof.
  induction regs as [|d r IH]; intros Hin H0 Huniq; [destruct Hin|].
  destruct (get reg d name) as [y|] eqn:E.
  - assert (d = d0) by (apply Huniq; [left; reflexivity|congruence]). subst d. congruence.
  - destruct Hin as [->|Hin]; [congruence|]. apply IH; [exact Hin|exact H0|]. intros d' Hd'. apply Huniq. right. exact Hd'.
Qed.

Theorem lookup_without_path {A} (get : registry -> fdesc -> bytes -> option A) reg name d0 x :
  In d0 reg -> get reg d0 name = Some x ->
  (forall d, In d reg -> get reg d name <> None -> d = d0) ->
  lookup_in get reg name [] = Some x.
Proof. intros Hin H0 Huniq. unfold lookup_in. cbn [is_empty]. apply (lookup_first_unique get reg name d0 x reg); assumption. Qed.

Theorem lookup_with_path {A} (get : registry -> fdesc -> bytes -> option A) P path f name :
  prog_ok P = true -> path <> [] -> prog_file P path = Some f ->
  lookup_in get (registry_of P) name path = get (registry_of P) (descriptor_of f) name.
Proof.
  intros HP Hp Hf. unfold lookup_in. rewrite (is_empty_false path Hp), (lookup_fd_registry P path HP), Hf. reflexivity.
Qed.

(* ================================================================ 5. Go types *)

Lemma gkind_eqb_eq a b : gkind_eqb a b = true <-> a = b.
Proof. destruct a, b; cbn; split; congruence. Qed.

Lemma dkey_eqb_eq (a b : dkey) : dkey_eqb a b = true <-> a = b.
Proof.
  destruct a as [[p k] i], b as [[q k'] j]. unfold dkey_eqb. cbn [fst snd].
  rewrite !andb_true_iff, beqb_true, gkind_eqb_eq, Nat.eqb_eq. split; [intros [[-> ->] ->]; reflexivity|].
  intro H. injection H as -> -> ->. tauto.
Qed.

Lemma dkey_eqb_refl k : dkey_eqb k k = true.
Proof. apply dkey_eqb_eq. reflexivity. Qed.
Lemma dkey_eqb_neq a b : a <> b -> dkey_eqb a b = false.
Proof. intro H. destruct (dkey_eqb a b) eqn:E; [apply dkey_eqb_eq in E; contradiction|reflexivity]. Qed.

Definition kind_of (k : dkey) : gkind := snd (fst k).

Section GoTypeFacts.
  Context {G : Type} (geqb : G -> G -> bool).
  Hypothesis geqb_spec : forall a b, geqb a b = true <-> a = b.

  Lemma geqb_refl g : geqb g g = true.
  Proof. apply geqb_spec. reflexivity. Qed.

  Definition getf (m : list (dkey * G)) (k : dkey) : option G := omap snd (find (fun e => dkey_eqb (fst e) k) m).
  Definition getb (m : list (gkind * G * dkey)) (kd : gkind) (g : G) : option dkey :=
    omap snd (find (fun e => gkind_eqb (fst (fst e)) kd && geqb (snd (fst e)) g) m).

  Lemma getf_put_same k g m : getf (put_fwd k g m) k = Some g.
  Proof.
    unfold getf. induction m as [|[k' g'] m IH]; cbn [put_fwd find fst].
    - rewrite dkey_eqb_refl. reflexivity.
    - destruct (dkey_eqb k k') eqn:E; cbn [find fst].
      + rewrite dkey_eqb_refl. reflexivity.
      + assert (E' : dkey_eqb k' k = false).
        { apply dkey_eqb_neq. intro H. subst. rewrite dkey_eqb_refl in E. discriminate. }
        rewrite E'. exact IH.
  Qed.

  Lemma getf_put_other k k' g m : k <> k' -> getf (put_fwd k g m) k' = getf m k'.
  Proof.
    intro Hne. unfold getf. induction m as [|[k1 g1] m IH]; cbn [put_fwd find fst].
    - rewrite (dkey_eqb_neq k k' Hne). reflexivity.
    - destruct (dkey_eqb k k1) eqn:E; cbn [find fst].
      + apply dkey_eqb_eq in E. subst k1. rewrite (dkey_eqb_neq k k' Hne). reflexivity.
      + destruct (dkey_eqb k1 k'); [reflexivity|exact IH].
  Qed.

  Definition same_bkey (kd : gkind) (g : G) (kd' : gkind) (g' : G) : bool := gkind_eqb kd kd' && geqb g g'.
  Lemma same_bkey_eq kd g kd' g' : same_bkey kd g kd' g' = true <-> kd = kd' /\ g = g'.
  Proof. unfold same_bkey. rewrite andb_true_iff, gkind_eqb_eq, geqb_spec. tauto. Qed.

  Lemma getb_put_same kd g k m : getb (put_bwd geqb kd g k m) kd g = Some k.
  Proof.
    unfold getb. induction m as [|[[kd' g'] k'] m IH]; cbn [put_bwd find fst snd].
    - assert (E : gkind_eqb kd kd = true) by (apply gkind_eqb_eq; reflexivity). rewrite E, geqb_refl. reflexivity.
    - destruct (gkind_eqb kd kd' && geqb g g') eqn:E; cbn [find fst snd].
      + assert (E1 : gkind_eqb kd kd = true) by (apply gkind_eqb_eq; reflexivity). rewrite E1, geqb_refl. reflexivity.
      + assert (E' : gkind_eqb kd' kd && geqb g' g = false).
        { destruct (gkind_eqb kd' kd && geqb g' g) eqn:E2; [|reflexivity].
          apply andb_true_iff in E2 as [A B]. apply gkind_eqb_eq in A. apply geqb_spec in B. subst.
          assert (X : gkind_eqb kd kd = true) by (apply gkind_eqb_eq; reflexivity). rewrite X, geqb_refl in E. discriminate. }
        rewrite E'. exact IH.
  Qed.

  Lemma getb_put_other kd g k kd' g' m :
    ~ (kd = kd' /\ g = g') -> getb (put_bwd geqb kd g k m) kd' g' = getb m kd' g'.
  Proof.
    intro Hne. unfold getb.
    assert (N : gkind_eqb kd kd' && geqb g g' = false).
    { destruct (gkind_eqb kd kd' && geqb g g') eqn:E; [|reflexivity]. apply andb_true_iff in E as [A B].
      apply gkind_eqb_eq in A. apply geqb_spec in B. tauto. }
    induction m as [|[[kd1 g1] k1] m IH]; cbn [put_bwd find fst snd].
    - rewrite N. reflexivity.
    - destruct (gkind_eqb kd kd1 && geqb g g1) eqn:E; cbn [find fst snd].
      + apply andb_true_iff in E as [A B]. apply gkind_eqb_eq in A. apply geqb_spec in B. subst kd1 g1. rewrite N. reflexivity.
      + destruct (gkind_eqb kd1 kd' && geqb g1 g'); [reflexivity|exact IH].
  Qed.

  Lemma register_all_snoc t l k g :
    register_all geqb t (l ++ [(k, g)]) = register1 geqb (register_all geqb t l) k g.
  Proof. unfold register_all. rewrite fold_left_app. reflexivity. Qed.

  Lemma go_type_of_getf t k : go_type_of t k = getf (g_fwd t) k.
  Proof. reflexivity. Qed.
  Lemma desc_of_go_type_getb t kd g : desc_of_go_type geqb t kd g = getb (g_bwd t) kd g.
  Proof. reflexivity. Qed.

  (* descriptor |-> its Go type *)
  Lemma registered_fwd t : forall l k g,
    NoDup (map fst l) -> In (k, g) l -> go_type_of (register_all geqb t l) k = Some g.
  Proof.
    induction l as [|[k1 g1] l IH] using rev_ind; intros k g Hnd Hin; [destruct Hin|].
    rewrite register_all_snoc, go_type_of_getf. unfold register1. cbn [g_fwd].
    rewrite map_app in Hnd. cbn [map fst] in Hnd. apply in_app_or in Hin as [Hin|[Heq|[]]].
    - assert (k1 <> k).
      { intro E. subst k1. apply NoDup_remove_2 in Hnd. apply Hnd. rewrite app_nil_r. apply (in_map fst) in Hin. exact Hin. }
      rewrite getf_put_other by assumption. rewrite <- go_type_of_getf. apply IH; [|exact Hin].
      apply NoDup_remove_1 in Hnd. rewrite app_nil_r in Hnd. exact Hnd.
    - injection Heq as -> ->. apply getf_put_same.
  Qed.

  Lemma fwd_untouched t : forall l k, ~ In k (map fst l) -> go_type_of (register_all geqb t l) k = go_type_of t k.
  Proof.
    induction l as [|[k1 g1] l IH] using rev_ind; intros k Hn; [reflexivity|].
    rewrite register_all_snoc, go_type_of_getf. unfold register1. cbn [g_fwd].
    rewrite map_app, in_app_iff in Hn. cbn [map fst In] in Hn.
    rewrite getf_put_other by (intro E; apply Hn; right; left; exact E).
    rewrite <- go_type_of_getf. apply IH. tauto.
  Qed.

  (* Go type |-> the descriptor it was given to, when it was given once within the kind *)
  Lemma registered_bwd t : forall l k g,
    In (k, g) l ->
    (forall k', In (k', g) l -> kind_of k' = kind_of k -> k' = k) ->
    desc_of_go_type geqb (register_all geqb t l) (kind_of k) g = Some k.
  Proof.
    induction l as [|[k1 g1] l IH] using rev_ind; intros k g Hin Huniq; [destruct Hin|].
    rewrite register_all_snoc, desc_of_go_type_getb. unfold register1. cbn [g_bwd].
    destruct (dkey_eqb k1 k && geqb g1 g) eqn:E.
    - apply andb_true_iff in E as [A B]. apply dkey_eqb_eq in A. apply geqb_spec in B. subst. apply getb_put_same.
    - rewrite getb_put_other.
      + rewrite <- desc_of_go_type_getb. apply in_app_or in Hin as [Hin|[Heq|[]]].
        * apply IH; [exact Hin|]. intros k' Hk'. apply Huniq. apply in_or_app. left. exact Hk'.
        * injection Heq as -> ->. rewrite dkey_eqb_refl, geqb_refl in E. discriminate.
      + intros [A B]. subst g1. assert (k1 = k) by (apply Huniq; [apply in_or_app; right; left; reflexivity|exact A]).
        subst k1. rewrite dkey_eqb_refl, geqb_refl in E. discriminate.
  Qed.

  (* Go type |-> descriptor |-> Go type is the identity, whatever was registered *)
  Definition table_inv (t : gtable) : Prop :=
    forall kd g k, desc_of_go_type geqb t kd g = Some k -> go_type_of t k = Some g /\ kind_of k = kd.

  Lemma table_inv_empty : table_inv gtable_empty.
  Proof. intros kd g k H. discriminate H. Qed.

  Lemma table_inv_step t k g : table_inv t -> go_type_of t k = None -> table_inv (register1 geqb t k g).
  Proof.
    intros Hinv Hfresh kd' g' k' H. rewrite desc_of_go_type_getb in H. unfold register1 in *. cbn [g_bwd g_fwd] in *.
    rewrite go_type_of_getf. cbn [g_fwd].
    destruct (same_bkey (snd (fst k)) g kd' g') eqn:E.
    - apply same_bkey_eq in E as [<- <-]. rewrite getb_put_same in H. injection H as <-.
      split; [apply getf_put_same|reflexivity].
    - rewrite getb_put_other in H by (intro X; apply same_bkey_eq in X; congruence).
      rewrite <- desc_of_go_type_getb in H. destruct (Hinv kd' g' k' H) as [Hf Hk].
      split; [|exact Hk]. rewrite getf_put_other; [exact Hf|]. intro X. subst k'. congruence.
  Qed.

  Lemma table_inv_all t : forall l,
    table_inv t -> NoDup (map fst l) -> (forall k, In k (map fst l) -> go_type_of t k = None) ->
    table_inv (register_all geqb t l).
  Proof.
    induction l as [|[k1 g1] l IH] using rev_ind; intros Hinv Hnd Hfresh; [exact Hinv|].
    rewrite register_all_snoc. rewrite map_app in Hnd, Hfresh. cbn [map fst] in Hnd, Hfresh.
    apply table_inv_step.
    - apply IH; [exact Hinv| |].
      + apply NoDup_remove_1 in Hnd. rewrite app_nil_r in Hnd. exact Hnd.
      + intros k Hk. apply Hfresh. apply in_or_app. left. exact Hk.
    - rewrite fwd_untouched.
      + apply Hfresh. apply in_or_app. right. left. reflexivity.
      + apply NoDup_remove_2 in Hnd. rewrite app_nil_r in Hnd. exact Hnd.
  Qed.

  (* the keys registerGoTypes walks are pairwise distinct *)
  Lemma keys_of_In p kd n k : In k (keys_of p kd n) -> fst (fst k) = p /\ kind_of k = kd.
  Proof. unfold keys_of. rewrite in_map_iff. intros [j [<- _]]. split; reflexivity. Qed.

  Lemma keys_of_NoDup p kd n : NoDup (keys_of p kd n).
  Proof.
    unfold keys_of. apply FinFun.Injective_map_NoDup; [|apply seq_NoDup]. intros a b H. injection H as ->. reflexivity.
  Qed.

  Lemma NoDup_app_disjoint {A} (a b : list A) : NoDup a -> NoDup b -> (forall x, In x a -> ~ In x b) -> NoDup (a ++ b).
  Proof.
    intros Ha Hb Hd. induction Ha as [|x a Hx Ha IH]; [exact Hb|]. cbn [app]. constructor.
    - rewrite in_app_iff. intros [H|H]; [contradiction|]. exact (Hd x (or_introl eq_refl) H).
    - apply IH. intros y Hy. apply Hd. right. exact Hy.
  Qed.

  Lemma all_keys_NoDup d : NoDup (all_keys d).
  Proof.
    unfold all_keys. apply NoDup_app_disjoint; [apply keys_of_NoDup| |].
    - apply NoDup_app_disjoint; [apply keys_of_NoDup|apply keys_of_NoDup|].
      intros x H1 H2. apply keys_of_In in H1 as [_ A]. apply keys_of_In in H2 as [_ B]. congruence.
    - intros x H1 H2. apply keys_of_In in H1 as [_ A]. apply in_app_or in H2 as [H2|H2]; apply keys_of_In in H2 as [_ B]; congruence.
  Qed.

  Lemma combine_keys_NoDup {A B} (ks : list A) (gs : list B) : NoDup ks -> NoDup (map fst (combine ks gs)).
  Proof.
    intro H. revert gs. induction H as [|k ks Hk Hnd IH]; intro gs; [constructor|].
    destruct gs as [|g gs]; [constructor|]. cbn [combine map fst]. constructor; [|apply IH].
    intro Hin. apply Hk. apply in_map_iff in Hin as [[k' g'] [E Hin]]. cbn [fst] in E. subst k'.
    apply in_combine_l in Hin. exact Hin.
  Qed.

  (* registering the Go types of one file into a table that does not know the file yet *)
  Theorem go_type_table_spec t d gs t' :
    table_inv t -> (forall k, In k (all_keys d) -> go_type_of t k = None) ->
    go_type_table geqb t d gs = Some t' ->
    table_inv t' /\
    (forall k g, In (k, g) (combine (all_keys d) gs) ->
       go_type_of t' k = Some g /\
       ((forall k', In (k', g) (combine (all_keys d) gs) -> kind_of k' = kind_of k -> k' = k) ->
        desc_of_go_type geqb t' (kind_of k) g = Some k)).
  Proof.
    intros Hinv Hfresh H. unfold go_type_table in H.
    destruct (List.length gs <? List.length (all_keys d))%nat; [discriminate|]. injection H as <-.
    pose proof (combine_keys_NoDup (all_keys d) gs (all_keys_NoDup d)) as Hnd.
    split.
    - apply table_inv_all; [exact Hinv|exact Hnd|]. intros k Hk. apply Hfresh.
      apply in_map_iff in Hk as [[k' g'] [E Hin]]. cbn [fst] in E. subst k'. apply in_combine_l in Hin. exact Hin.
    - intros k g Hin. split; [apply registered_fwd; assumption|]. intro Huniq. apply registered_bwd; assumption.
  Qed.

  Corollary go_type_bijection d gs t' :
    go_type_table geqb gtable_empty d gs = Some t' ->
    (* Go type |-> descriptor |-> Go type *)
    (forall kd g k, desc_of_go_type geqb t' kd g = Some k -> go_type_of t' k = Some g /\ kind_of k = kd) /\
    (* the k-th descriptor has the k-th type; and back, when no other descriptor of the kind has it *)
    (forall k g, In (k, g) (combine (all_keys d) gs) ->
       go_type_of t' k = Some g /\
       ((forall k', In (k', g) (combine (all_keys d) gs) -> kind_of k' = kind_of k -> k' = k) ->
        desc_of_go_type geqb t' (kind_of k) g = Some k)).
  Proof. intro H. apply (go_type_table_spec gtable_empty d gs t' table_inv_empty); [intros; reflexivity|exact H]. Qed.
End GoTypeFacts.

(* ================================================================ 6. bundles stated in Props/C15.v *)

Theorem lookup_by_name_local P f n :
  n <> [] -> no_byte dot n = true ->
  get_struct (registry_of P) (descriptor_of f) n = omap (struct_desc (f_filename f)) (find_struct f n) /\
  get_union (registry_of P) (descriptor_of f) n = omap (struct_desc (f_filename f)) (find_union f n) /\
  get_exception (registry_of P) (descriptor_of f) n = omap (struct_desc (f_filename f)) (find_exception f n) /\
  get_enum (registry_of P) (descriptor_of f) n = omap (enum_desc (f_filename f)) (find_enum f n) /\
  get_typedef (registry_of P) (descriptor_of f) n = omap (typedef_desc (f_filename f)) (find_typedef f n) /\
  get_const (registry_of P) (descriptor_of f) n = omap (const_desc (f_filename f)) (find_constant f n) /\
  get_service (registry_of P) (descriptor_of f) n = omap (service_desc (f_filename f)) (find_service f n).
Proof.
  intros Hn Hd. repeat split.
  - apply (lookup_local _ _ _ mirrors_struct); assumption.
  - apply (lookup_local _ _ _ mirrors_union); assumption.
  - apply (lookup_local _ _ _ mirrors_exception); assumption.
  - apply (lookup_local _ _ _ mirrors_enum); assumption.
  - apply (lookup_local _ _ _ mirrors_typedef); assumption.
  - apply (lookup_local _ _ _ mirrors_const); assumption.
  - apply (lookup_local _ _ _ mirrors_service); assumption.
Qed.

Theorem lookup_by_name_through_include P f i gname g n :
  prog_ok P = true -> distinct_basenames f = true ->
  In i (f_includes f) -> in_ref i = Some gname -> gname <> [] -> include_alias gname <> [] ->
  prog_file P gname = Some g -> n <> [] -> no_byte dot n = true ->
  let q := include_alias gname ++ dot :: n in
  get_struct (registry_of P) (descriptor_of f) q = omap (struct_desc (f_filename g)) (find_struct g n) /\
  get_union (registry_of P) (descriptor_of f) q = omap (struct_desc (f_filename g)) (find_union g n) /\
  get_exception (registry_of P) (descriptor_of f) q = omap (struct_desc (f_filename g)) (find_exception g n) /\
  get_enum (registry_of P) (descriptor_of f) q = omap (enum_desc (f_filename g)) (find_enum g n) /\
  get_typedef (registry_of P) (descriptor_of f) q = omap (typedef_desc (f_filename g)) (find_typedef g n) /\
  get_const (registry_of P) (descriptor_of f) q = omap (const_desc (f_filename g)) (find_constant g n) /\
  get_service (registry_of P) (descriptor_of f) q = omap (service_desc (f_filename g)) (find_service g n).
Proof.
  intros HP Hd Hin Href Hg Ha Hfile Hn Hnd q. repeat split.
  - apply (lookup_through_include _ _ _ mirrors_struct P f i gname g n); assumption.
  - apply (lookup_through_include _ _ _ mirrors_union P f i gname g n); assumption.
  - apply (lookup_through_include _ _ _ mirrors_exception P f i gname g n); assumption.
  - apply (lookup_through_include _ _ _ mirrors_enum P f i gname g n); assumption.
  - apply (lookup_through_include _ _ _ mirrors_typedef P f i gname g n); assumption.
  - apply (lookup_through_include _ _ _ mirrors_const P f i gname g n); assumption.
  - apply (lookup_through_include _ _ _ mirrors_service P f i gname g n); assumption.
Qed.

(* a type expression of file f resolves through the descriptor to the definition in the file the
   prefix stands for: TypeDescriptor.GetStructDescriptor & co. *)
Theorem type_target_right {A} (get : registry -> fdesc -> bytes -> option A) P f t :
  prog_ok P = true -> prog_file P (f_filename f) = Some f ->
  is_container (ty_name t) || is_basic (ty_name t) = false -> f_filename f <> [] ->
  type_target get (registry_of P) (type_desc (f_filename f) t) = get (registry_of P) (descriptor_of f) (ty_name t).
Proof.
  intros HP Hf Hb Hne. destruct t as [n k v c an cat r td]. unfold type_target. cbn [type_desc tyd_name tyd_filepath ty_name] in *.
  rewrite Hb, (lookup_fd_registry P _ HP), Hf. reflexivity.
Qed.

(* the unchanged format loses the include that defines a name when a later include has the same
   base name: the lookup through the prefix answers nil although the IDL defines the name *)
Local Open Scope string_scope.
Definition dup_x : file :=
  File (B "x/shared.thrift") [] [] [] [] [] [] [StructLike SKStruct (B "OnlyInX") [] [] []] [] [] [] None.
Definition dup_y : file := empty_file (B "y/shared.thrift").
Definition dup_program : program := [(B "main.thrift", dup_file); (B "x/shared.thrift", dup_x); (B "y/shared.thrift", dup_y)].
Theorem lookup_same_basename_refuted :
  exists P f g n, prog_ok P = true /\ prog_file P (f_filename f) = Some f /\
    (exists i, In i (f_includes f) /\ in_ref i = Some (f_filename g)) /\
    prog_file P (f_filename g) = Some g /\ find_struct g n <> None /\
    get_struct (registry_of P) (descriptor_of f) (include_alias (f_filename g) ++ dot :: n)%list = None.
Proof.
  exists dup_program, dup_file, dup_x, (B "OnlyInX").
  split; [vm_compute; reflexivity|]. split; [vm_compute; reflexivity|].
  split; [eexists; split; [left; reflexivity|reflexivity]|].
  split; [vm_compute; reflexivity|]. split; [vm_compute; discriminate|]. vm_compute. reflexivity.
Qed.

(* ---- the hypotheses are satisfiable ---- *)
Definition ex_types : file :=
  File (B "base/types.thrift") [] [] [Namespace (B "go") (B "c15.types") []]
       [Typedef (ty_named (B "i64")) (B "Id") [] []] [] []
       [StructLike SKStruct (B "Point") [Field 1 (B "x") ReqDefault (ty_named (B "double")) None [] [];
                                         Field 2 (B "y") ReqDefault (ty_named (B "double")) None [] []] [] []]
       [] [] [] None.
Definition ex_api : file :=
  File (B "svc/api.thrift")
       [Include (B "../base/types.thrift") (Some (B "base/types.thrift")) None] []
       [Namespace (B "go") (B "c15.api") []; Namespace (B "go") (B "ignored") []; Namespace (B "*") (B "a") []; Namespace (B "*") (B "b") []]
       [Typedef (ty_named (B "types.Id")) (B "LocalId") [Anno (B "note") [B "x"; B "y"]] (B "// id")]
       [Constant (B "AGES") (ty_plain (B "map") (Some (ty_named (B "string"))) (Some (ty_named (B "i32"))) [] [])
                 (CMap [(CLiteral (B "a"), CInt 1); (CLiteral (B "b"), CIdent (B "true") None)]) [] []]
       [Enum (B "Colour") [EnumValue (B "RED") 1 [Anno (B "w") [B "h"]] []; EnumValue (B "BLUE") (-5) [] []] [] []]
       [StructLike SKStruct (B "Request")
          [Field 1 (B "id") ReqRequired (ty_named (B "LocalId")) None [Anno (B "k") [B "v1"; B "v2"]] [];
           Field (-4) (B "where") ReqOptional (ty_named (B "types.Point")) None [] [];
           Field 7 (B "cs") ReqDefault (ty_plain (B "list") None (Some (ty_named (B "Colour"))) [] [])
                 (Some (CList [CIdent (B "Colour.RED") None; CInt 5; CDouble 4602678819172646912%N])) [] []] [] []]
       [] []
       [Service (B "Api") (B "") [Function (B "fire") true true (ty_named (B "void"))
                                   [Field 1 (B "r") ReqDefault (ty_named (B "Request")) None [] []] [] [] []] [] None []]
       None.
Definition ex_program : program := [(B "svc/api.thrift", ex_api); (B "base/types.thrift", ex_types)].
Local Close Scope string_scope.

Lemma ex_hypotheses :
  file_annos_ok ex_api = true /\ distinct_basenames ex_api = true /\ includes_plain ex_api = true /\
  prog_ok ex_program = true /\ wfb (enc_fdesc (descriptor_of ex_api)) = true /\ fdesc_ok (descriptor_of ex_api) = true.
Proof. vm_compute. repeat split. Qed.

(* ================================================================ 7. the descriptor holds nothing else *)

(* the descriptor rebuilt from the facts alone *)
Fixpoint tdesc_of_tyx (p : bytes) (t : tyx) : tdesc :=
  match t with
  | TyX n k v => TDesc p n (match k with Some x => Some (tdesc_of_tyx p x) | None => None end)
                       (match v with Some x => Some (tdesc_of_tyx p x) | None => None end) None
  end.
Fixpoint cvdesc_of_cvx (c : cvx) : cvdesc :=
  match c with
  | XDouble b => cvd_plain CVT_DOUBLE b 0 [] false []
  | XInt z => cvd_plain CVT_INT 0 z [] false []
  | XString s => cvd_plain CVT_STRING 0 0 s false []
  | XBool b => cvd_plain CVT_BOOL 0 0 [] b []
  | XIdent s => cvd_plain CVT_IDENTIFIER 0 0 [] false s
  | XList l => CVD CVT_LIST 0 0 [] false
                   (Some ((fix go (l : list cvx) : list cvdesc := match l with [] => [] | x :: r => cvdesc_of_cvx x :: go r end) l))
                   None [] None
  | XMap l => CVD CVT_MAP 0 0 [] false None
                  (Some ((fix go (l : list (cvx * cvx)) : list (cvdesc * cvdesc) :=
                            match l with [] => [] | (k, v) :: r => (cvdesc_of_cvx k, cvdesc_of_cvx v) :: go r end) l))
                  [] None
  end.
Definition fielddesc_of_x (p : bytes) (f : fieldx) : fielddesc :=
  FieldD p (fx_name f) (tdesc_of_tyx p (fx_type f)) (match fx_req f with Some r => req_string r | None => [] end) (fx_id f)
         (omap cvdesc_of_cvx (fx_default f)) (fx_annos f) (fx_comments f) None.
Definition structdesc_of_x (p : bytes) (s : structx) : structdesc :=
  StructD p (sx_name s) (map (fielddesc_of_x p) (sx_fields s)) (sx_annos s) (sx_comments s) None.
Definition enumdesc_of_x (p : bytes) (e : enumx) : enumdesc :=
  EnumD p (ex_name' e) (map (fun v => EnumValueD p (evx_name v) (evx_number v) (evx_annos v) (evx_comments v) None) (ex_values e))
        (ex_annos e) (ex_comments e) None.
Definition typedefdesc_of_x (p : bytes) (t : typedefx) : typedefdesc :=
  TypedefD p (tdesc_of_tyx p (tx_type t)) (tx_alias t) (tx_annos t) (tx_comments t) None.
Definition methoddesc_of_x (p : bytes) (m : methodx) : methoddesc :=
  MethodD p (mx_name m) (omap (tdesc_of_tyx p) (mx_response m)) (map (fielddesc_of_x p) (mx_args m)) (mx_annos m)
          (mx_comments m) (map (fielddesc_of_x p) (mx_throws m)) (mx_oneway m) None.
Definition servicedesc_of_x (p : bytes) (s : servicex) : servicedesc :=
  ServiceD p (svx_name s) (map (methoddesc_of_x p) (svx_methods s)) (svx_annos s) (svx_comments s) None (svx_base s).
Definition constdesc_of_x (p : bytes) (c : constx) : constdesc :=
  ConstD p (cx_name c) (tdesc_of_tyx p (cx_type c)) (cvdesc_of_cvx (cx_value c)) (cx_annos c) (cx_comments c) None.
Definition fdesc_of_facts (x : filex) : fdesc :=
  let p := x_path x in
  FileD p (x_includes x) (x_namespaces x) (map (servicedesc_of_x p) (x_services x)) (map (structdesc_of_x p) (x_structs x))
        (map (structdesc_of_x p) (x_exceptions x)) (map (enumdesc_of_x p) (x_enums x)) (map (typedefdesc_of_x p) (x_typedefs x))
        (map (structdesc_of_x p) (x_unions x)) (map (constdesc_of_x p) (x_consts x)) None.

Lemma tdesc_of_tyx_ty p : forall t, tdesc_of_tyx p (tyx_of_ty t) = type_desc p t.
Proof.
  induction t as [n k v c an cat r td IHk IHv] using ty_ind'. cbn [tyx_of_ty tdesc_of_tyx type_desc].
  destruct k as [x|]; destruct v as [y|]; rewrite ?(IHk _ eq_refl), ?(IHv _ eq_refl); reflexivity.
Qed.

Lemma cvdesc_of_cvx_list_eq l :
  (fix go (l : list cvx) : list cvdesc := match l with [] => [] | x :: r => cvdesc_of_cvx x :: go r end) l = map cvdesc_of_cvx l.
Proof. induction l as [|x r IH]; [reflexivity|]. cbn [map]. rewrite <- IH. reflexivity. Qed.
Lemma cvdesc_of_cvx_map_eq l :
  (fix go (l : list (cvx * cvx)) : list (cvdesc * cvdesc) :=
     match l with [] => [] | (k, v) :: r => (cvdesc_of_cvx k, cvdesc_of_cvx v) :: go r end) l =
  map (fun kv => (cvdesc_of_cvx (fst kv), cvdesc_of_cvx (snd kv))) l.
Proof. induction l as [|[k v] r IH]; [reflexivity|]. cbn [map fst snd]. rewrite <- IH. reflexivity. Qed.

Lemma cvdesc_of_cvx_cv : forall c, cvdesc_of_cvx (cvx_of_cv c) = cv_desc c.
Proof.
  induction c as [b|z|s|s e|l IH|l IH] using const_value_ind'; cbn [cvx_of_cv cv_desc]; try reflexivity.
  - destruct (beqb s s_false); [reflexivity|]. destruct (beqb s s_true); reflexivity.
  - rewrite cvx_of_cv_list_eq, cv_desc_list_eq. cbn [cvdesc_of_cvx]. rewrite cvdesc_of_cvx_list_eq, map_map. do 2 f_equal.
    induction IH as [|x r Hx _ IHr]; [reflexivity|]. cbn [map]. rewrite Hx, IHr. reflexivity.
  - rewrite cvx_of_cv_map_eq, cv_desc_map_eq. cbn [cvdesc_of_cvx]. rewrite cvdesc_of_cvx_map_eq, map_map. do 2 f_equal.
    induction IH as [|[k v] r [Hk Hv] _ IHr]; [reflexivity|]. cbn [map fst snd] in *. rewrite Hk, Hv, IHr. reflexivity.
Qed.

Lemma fielddesc_of_x_field p f : field_annos_ok f = true -> fielddesc_of_x p (fieldx_of f) = field_desc p f.
Proof.
  unfold field_annos_ok. intro H. unfold fielddesc_of_x, fieldx_of, field_desc.
  cbn [fx_name fx_id fx_req fx_type fx_default fx_annos fx_comments].
  rewrite tdesc_of_tyx_ty, <- annos_map_faithful by exact H.
  destruct (fd_default f); cbn [omap]; [rewrite cvdesc_of_cvx_cv|]; reflexivity.
Qed.

Lemma fields_of_x p l : forallb field_annos_ok l = true -> map (fielddesc_of_x p) (map fieldx_of l) = map (field_desc p) l.
Proof. intro H. apply map_map_in. intros x Hx. apply fielddesc_of_x_field. rewrite forallb_forall in H. apply H. exact Hx. Qed.

Lemma structdesc_of_x_struct p s :
  annos_ok (sl_annos s) && forallb field_annos_ok (sl_fields s) = true -> structdesc_of_x p (structx_of s) = struct_desc p s.
Proof.
  intro H. apply andb_true_iff in H as [Ha Hf]. unfold structdesc_of_x, structx_of, struct_desc.
  cbn [sx_name sx_fields sx_annos sx_comments]. rewrite fields_of_x, <- annos_map_faithful by assumption. reflexivity.
Qed.

Lemma enumdesc_of_x_enum p e :
  annos_ok (en_annos e) && forallb (fun v => annos_ok (ev_annos v)) (en_values e) = true -> enumdesc_of_x p (enumx_of e) = enum_desc p e.
Proof.
  intro H. apply andb_true_iff in H as [Ha Hv]. unfold enumdesc_of_x, enumx_of, enum_desc.
  cbn [ex_name' ex_values ex_annos ex_comments]. rewrite <- annos_map_faithful by exact Ha. f_equal.
  apply map_map_in. intros v Hin. unfold enumvaluex_of, enum_value_desc. cbn [evx_name evx_number evx_annos evx_comments].
  rewrite <- annos_map_faithful; [reflexivity|]. rewrite forallb_forall in Hv. apply Hv. exact Hin.
Qed.

Lemma typedefdesc_of_x_typedef p t : annos_ok (td_annos t) = true -> typedefdesc_of_x p (typedefx_of t) = typedef_desc p t.
Proof.
  intro H. unfold typedefdesc_of_x, typedefx_of, typedef_desc. cbn [tx_alias tx_type tx_annos tx_comments].
  rewrite tdesc_of_tyx_ty, <- annos_map_faithful by exact H. reflexivity.
Qed.

Lemma methoddesc_of_x_method p fn :
  annos_ok (fn_annos fn) && forallb field_annos_ok (fn_args fn) && forallb field_annos_ok (fn_throws fn) = true ->
  methoddesc_of_x p (methodx_of fn) = method_desc p fn.
Proof.
  intro H. apply andb_true_iff in H as [H Ht]. apply andb_true_iff in H as [Ha Hg].
  unfold methoddesc_of_x, methodx_of, method_desc. cbn [mx_name mx_response mx_args mx_throws mx_oneway mx_annos mx_comments omap].
  rewrite tdesc_of_tyx_ty, !fields_of_x, <- annos_map_faithful by assumption. reflexivity.
Qed.

Lemma servicedesc_of_x_service p s :
  annos_ok (sv_annos s) &&
  forallb (fun fn => annos_ok (fn_annos fn) && forallb field_annos_ok (fn_args fn) && forallb field_annos_ok (fn_throws fn)) (sv_functions s) = true ->
  servicedesc_of_x p (servicex_of s) = service_desc p s.
Proof.
  intro H. apply andb_true_iff in H as [Ha Hf]. unfold servicedesc_of_x, servicex_of, service_desc.
  cbn [svx_name svx_base svx_methods svx_annos svx_comments]. rewrite <- annos_map_faithful by exact Ha. f_equal.
  apply map_map_in. intros fn Hin. apply methoddesc_of_x_method. rewrite forallb_forall in Hf. apply Hf. exact Hin.
Qed.

Lemma constdesc_of_x_const p c : annos_ok (co_annos c) = true -> constdesc_of_x p (constx_of c) = const_desc p c.
Proof.
  intro H. unfold constdesc_of_x, constx_of, const_desc. cbn [cx_name cx_type cx_value cx_annos cx_comments].
  rewrite tdesc_of_tyx_ty, cvdesc_of_cvx_cv, <- annos_map_faithful by exact H. reflexivity.
Qed.

(* the descriptor is a function of the facts: it holds nothing the property does not name (the
   Filepath copies in every node repeat the file's path) *)
Theorem descriptor_from_facts f :
  file_annos_ok f = true -> distinct_basenames f = true -> includes_plain f = true ->
  descriptor_of f = fdesc_of_facts (project_a f).
Proof.
  intros Ha Hd Hp. unfold file_annos_ok in Ha.
  apply andb_true_iff in Ha as [H Hsv]. apply andb_true_iff in H as [H Hco]. apply andb_true_iff in H as [H Htd].
  apply andb_true_iff in H as [Hsl Hen].
  unfold struct_likes in Hsl. rewrite !forallb_app in Hsl. apply andb_true_iff in Hsl as [Hs Hsl]. apply andb_true_iff in Hsl as [Hu He].
  unfold fdesc_of_facts, project_a, descriptor_of.
  cbn [x_path x_includes x_namespaces x_structs x_unions x_exceptions x_enums x_typedefs x_services x_consts].
  rewrite (includes_faithful f Hd Hp), namespaces_faithful.
  f_equal; symmetry; apply map_map_in; intros y Hin.
  - apply servicedesc_of_x_service. rewrite forallb_forall in Hsv. apply Hsv. exact Hin.
  - apply structdesc_of_x_struct. rewrite forallb_forall in Hs. apply Hs. exact Hin.
  - apply structdesc_of_x_struct. rewrite forallb_forall in He. apply He. exact Hin.
  - apply enumdesc_of_x_enum. rewrite forallb_forall in Hen. apply Hen. exact Hin.
  - apply typedefdesc_of_x_typedef. rewrite forallb_forall in Htd. apply Htd. exact Hin.
  - apply structdesc_of_x_struct. rewrite forallb_forall in Hu. apply Hu. exact Hin.
  - apply constdesc_of_x_const. rewrite forallb_forall in Hco. apply Hco. exact Hin.
Qed.

Corollary descriptor_determined_by_projection f g :
  file_annos_ok f = true -> distinct_basenames f = true -> includes_plain f = true ->
  file_annos_ok g = true -> distinct_basenames g = true -> includes_plain g = true ->
  project_a f = project_a g -> descriptor_of f = descriptor_of g.
Proof.
  intros Hf1 Hf2 Hf3 Hg1 Hg2 Hg3 E.
  rewrite (descriptor_from_facts f Hf1 Hf2 Hf3), (descriptor_from_facts g Hg1 Hg2 Hg3), E. reflexivity.
Qed.

(* ================================================================ 8. GetAllMethods *)

(* the extends chain of a service, read off the AST: every link is either a service of the same
   file (unqualified base) or a service of an included file (base written through the prefix) *)
Inductive base_chain (P : program) : file -> service -> list (file * service) -> Prop :=
| bc_end f s : sv_extends s = [] -> base_chain P f s [(f, s)]
| bc_local f s t l :
    sv_extends s <> [] -> no_byte dot (sv_extends s) = true ->
    find_service f (sv_extends s) = Some t -> prog_file P (f_filename f) = Some f ->
    base_chain P f t l -> base_chain P f s ((f, s) :: l)
| bc_include f s i gname g n t l :
    distinct_basenames f = true -> In i (f_includes f) -> in_ref i = Some gname -> gname <> [] ->
    include_alias gname <> [] -> prog_file P gname = Some g -> n <> [] -> no_byte dot n = true ->
    sv_extends s = include_alias gname ++ dot :: n -> find_service g n = Some t ->
    prog_file P (f_filename f) = Some f ->
    base_chain P g t l -> base_chain P f s ((f, s) :: l).

Definition chain_methods (l : list (file * service)) : list methoddesc :=
  flat_map (fun fs => map (method_desc (f_filename (fst fs))) (sv_functions (snd fs))) l.

Lemma get_parent_end reg p s : sv_extends s = [] -> get_parent reg (service_desc p s) = None.
Proof.
  intro H. unfold get_parent, service_desc. cbn [svd_filepath svd_base]. rewrite H.
  destruct (lookup_fd reg p); reflexivity.
Qed.

Lemma chain_file_in P f s l : base_chain P f s l -> sv_extends s <> [] -> prog_file P (f_filename f) = Some f.
Proof. intros H Hne. destruct H; [contradiction|assumption|assumption]. Qed.

Theorem all_methods_chain P : prog_ok P = true -> forall f s l, base_chain P f s l ->
  forall fuel, (List.length l <= S fuel)%nat ->
  all_methods fuel (registry_of P) (service_desc (f_filename f) s) = chain_methods l.
Proof.
  intros HP f s l H. induction H as [f s He|f s t l Hne Hnd Hfind Hfile Hc IH|f s i gname g n t l Hd Hin Href Hg Ha Hgf Hn Hnd Hext Hfind Hfile Hc IH];
    intros fuel Hlen.
  - unfold chain_methods. cbn [flat_map fst snd]. rewrite app_nil_r.
    destruct fuel; cbn [all_methods]; unfold service_desc at 1; cbn [svd_methods];
      [rewrite app_nil_r; reflexivity|]. rewrite get_parent_end by exact He. rewrite app_nil_r. reflexivity.
  - cbn [List.length] in Hlen. destruct fuel as [|fuel].
    { destruct Hc; cbn [List.length] in Hlen; lia. }
    cbn [all_methods]. unfold chain_methods. cbn [flat_map fst snd]. fold (chain_methods l).
    unfold service_desc at 1. cbn [svd_methods]. f_equal.
    unfold get_parent. unfold service_desc at 1 2. cbn [svd_filepath svd_base].
    rewrite (lookup_fd_registry P _ HP), Hfile. cbn [omap].
    unfold get_service. rewrite (lookup_local _ _ _ mirrors_service P f _ Hne Hnd), Hfind. cbn [omap].
    apply IH. lia.
  - cbn [List.length] in Hlen. destruct fuel as [|fuel].
    { destruct Hc; cbn [List.length] in Hlen; lia. }
    cbn [all_methods]. unfold chain_methods. cbn [flat_map fst snd]. fold (chain_methods l).
    unfold service_desc at 1. cbn [svd_methods]. f_equal.
    unfold get_parent. unfold service_desc at 1 2. cbn [svd_filepath svd_base].
    rewrite (lookup_fd_registry P _ HP), Hfile. cbn [omap]. rewrite Hext.
    unfold get_service. rewrite (lookup_through_include _ _ _ mirrors_service P f i gname g n HP Hd Hin Href Hg Ha Hgf Hn Hnd), Hfind.
    cbn [omap].
    apply IH. lia.
Qed.

(* GetAllMethods = own methods ++ those of the base service ++ ... for a chain of any length, with
   the fuel the model uses (one more than the number of registered services) whenever the chain is
   not longer than that *)
Corollary get_all_methods_chain P f s l :
  prog_ok P = true -> base_chain P f s l -> (List.length l <= S (chain_fuel (registry_of P)))%nat ->
  get_all_methods (registry_of P) (service_desc (f_filename f) s) = chain_methods l.
Proof. intros HP Hc Hlen. unfold get_all_methods. apply (all_methods_chain P HP f s l Hc). exact Hlen. Qed.

Corollary method_from_all_chain P f s l n :
  prog_ok P = true -> base_chain P f s l -> (List.length l <= S (chain_fuel (registry_of P)))%nat ->
  get_method_from_all (registry_of P) (service_desc (f_filename f) s) n = first_named md_name (chain_methods l) n.
Proof. intros HP Hc Hlen. unfold get_method_from_all. rewrite (get_all_methods_chain P f s l HP Hc Hlen). reflexivity. Qed.

(* ================================================================ 9. equivalence up to map-entry order *)

(* ---- generic ---- *)
Lemma optR_refl {A} (R : A -> A -> Prop) o : (forall x, o = Some x -> R x x) -> optR R o o.
Proof. destruct o; intro H; constructor. apply H. reflexivity. Qed.
Lemma optR_sym {A} (R : A -> A -> Prop) o o' : (forall x y, o = Some x -> R x y -> R y x) -> optR R o o' -> optR R o' o.
Proof. intros H H0. inversion H0; subst; constructor. eapply H; [reflexivity|assumption]. Qed.
Lemma optR_trans {A} (R : A -> A -> Prop) o o' o'' :
  (forall x y z, o = Some x -> R x y -> R y z -> R x z) -> optR R o o' -> optR R o' o'' -> optR R o o''.
Proof.
  intros H H1 H2. inversion H1; subst; inversion H2; subst; constructor. eapply H; [reflexivity|eassumption|assumption].
Qed.

Lemma Forall2_refl_in {A} (R : A -> A -> Prop) l : Forall (fun x => R x x) l -> Forall2 R l l.
Proof. induction 1; constructor; assumption. Qed.
Lemma Forall2_sym_in {A} (R : A -> A -> Prop) l l' :
  Forall (fun x => forall y, R x y -> R y x) l -> Forall2 R l l' -> Forall2 R l' l.
Proof. intros H F. induction F; constructor; inversion H; subst; auto. Qed.
Lemma Forall2_trans_in {A} (R : A -> A -> Prop) l : forall l' l'',
  Forall (fun x => forall y z, R x y -> R y z -> R x z) l -> Forall2 R l l' -> Forall2 R l' l'' -> Forall2 R l l''.
Proof.
  induction l as [|x l IH]; intros l' l'' H F1 F2; inversion F1; subst; inversion F2; subst; constructor;
    inversion H; subst; eauto.
Qed.

(* an element-wise relation commutes with a permutation *)
Lemma Forall2_perm_r {A} (R : A -> A -> Prop) b c : Permutation b c ->
  forall a, Forall2 R a b -> exists a', Permutation a a' /\ Forall2 R a' c.
Proof.
  induction 1 as [|x b c Hp IH|x y b|b c d H1 IH1 H2 IH2]; intros a F.
  - inversion F; subst. exists []. split; constructor.
  - inversion F as [|x0 ? a0 ? Hr F0]; subst. destruct (IH a0 F0) as (a' & Pa & Fa).
    exists (x0 :: a'). split; [constructor; exact Pa|constructor; assumption].
  - inversion F as [|y0 ? a1 ? Hy F1]; subst. inversion F1 as [|x0 ? a0 ? Hx F0]; subst.
    exists (x0 :: y0 :: a0). split; [apply perm_swap|]. repeat constructor; assumption.
  - destruct (IH1 a F) as (a1 & P1 & F1). destruct (IH2 a1 F1) as (a2 & P2 & F2').
    exists a2. split; [eapply Permutation_trans; eassumption|exact F2'].
Qed.

Lemma Forall_perm {A} (P : A -> Prop) l l' : Permutation l l' -> Forall P l -> Forall P l'.
Proof. intros Hp H. rewrite Forall_forall in *. intros x Hx. apply H. eapply Permutation_in; [apply Permutation_sym; exact Hp|exact Hx]. Qed.

Lemma PermR_refl_in {A} (R : A -> A -> Prop) l : Forall (fun x => R x x) l -> PermR R l l.
Proof. intro H. apply (PermR_intro R l l l); [apply Permutation_refl|apply Forall2_refl_in; exact H]. Qed.
Lemma PermR_sym_in {A} (R : A -> A -> Prop) l l' :
  Forall (fun x => forall y, R x y -> R y x) l -> PermR R l l' -> PermR R l' l.
Proof.
  intros H HP. inversion HP as [m l0 m' Hp F E1 E2]. subst m m'. pose proof (Forall_perm _ _ _ Hp H) as H0.
  pose proof (Forall2_sym_in R l0 l' H0 F) as Fs.
  destruct (Forall2_perm_r R l0 l (Permutation_sym Hp) l' Fs) as (a' & Pa & Fa).
  exact (PermR_intro R l' a' l Pa Fa).
Qed.
Lemma PermR_trans_in {A} (R : A -> A -> Prop) l l' l'' :
  Forall (fun x => forall y z, R x y -> R y z -> R x z) l -> PermR R l l' -> PermR R l' l'' -> PermR R l l''.
Proof.
  intros H HP H2. inversion HP as [m l0 m' Hp F E1 E2]. subst m m'. inversion H2 as [m l1 m'' Hp1 F1 E1 E2]. subst m m''.
  destruct (Forall2_perm_r R l' l1 Hp1 l0 F) as (l0' & P0 & F0).
  apply (PermR_intro R l l0' l''); [eapply Permutation_trans; eassumption|].
  apply (Forall2_trans_in R l0' l1 l''); [|exact F0|exact F1].
  apply (Forall_perm _ l); [eapply Permutation_trans; eassumption|exact H].
Qed.

Lemma extra_eq_refl e : extra_eq e e.
Proof. apply optR_refl. intros. apply Permutation_refl. Qed.
Lemma extra_eq_sym e e' : extra_eq e e' -> extra_eq e' e.
Proof. apply optR_sym. intros. apply Permutation_sym. assumption. Qed.
Lemma extra_eq_trans e e' e'' : extra_eq e e' -> extra_eq e' e'' -> extra_eq e e''.
Proof. apply optR_trans. intros. eapply Permutation_trans; eassumption. Qed.

(* ---- TypeDescriptor ---- *)
Lemma tdesc_eq_refl : forall t, tdesc_eq t t.
Proof.
  induction t as [p n k v ex IHk IHv] using tdesc_ind'. cbn [tdesc_eq].
  split; [reflexivity|]. split; [reflexivity|].
  split; [destruct k; [apply IHk; reflexivity|exact I]|].
  split; [destruct v; [apply IHv; reflexivity|exact I]|apply extra_eq_refl].
Qed.
Lemma tdesc_eq_sym : forall a b, tdesc_eq a b -> tdesc_eq b a.
Proof.
  induction a as [p n k v ex IHk IHv] using tdesc_ind'. intros [p' n' k' v' ex']. cbn [tdesc_eq].
  intros (-> & -> & Hk & Hv & He). split; [reflexivity|]. split; [reflexivity|].
  split; [|split; [|apply extra_eq_sym; exact He]].
  - destruct k, k'; try contradiction; [apply (IHk _ eq_refl); exact Hk|exact I].
  - destruct v, v'; try contradiction; [apply (IHv _ eq_refl); exact Hv|exact I].
Qed.
Lemma tdesc_eq_trans : forall a b c, tdesc_eq a b -> tdesc_eq b c -> tdesc_eq a c.
Proof.
  induction a as [p n k v ex IHk IHv] using tdesc_ind'. intros [p' n' k' v' ex'] [p'' n'' k'' v'' ex'']. cbn [tdesc_eq].
  intros (-> & -> & Hk & Hv & He) (-> & -> & Hk' & Hv' & He'). split; [reflexivity|]. split; [reflexivity|].
  split; [|split; [|eapply extra_eq_trans; eassumption]].
  - destruct k, k', k''; try contradiction; [eapply (IHk _ eq_refl); eassumption|exact I].
  - destruct v, v', v''; try contradiction; [eapply (IHv _ eq_refl); eassumption|exact I].
Qed.

(* ---- ConstValueDescriptor ---- *)
Lemma pair_Forall_refl (R : cvdesc -> cvdesc -> Prop) m :
  Forall (fun kv : cvdesc * cvdesc => R (fst kv) (fst kv) /\ R (snd kv) (snd kv)) m ->
  Forall (fun x => pairR R x x) m.
Proof. intro H. eapply Forall_impl; [|exact H]. intros [k v] [A B]. constructor; assumption. Qed.

Lemma cvd_eq_refl : forall c, cvd_eq c c.
Proof.
  induction c as [ty dbl int str b l m id ex IHl IHm] using cvdesc_ind'. constructor; [| |apply extra_eq_refl].
  - apply optR_refl. intros x ->. apply Forall2_refl_in. exact (IHl x eq_refl).
  - apply optR_refl. intros x ->. apply PermR_refl_in. apply pair_Forall_refl. exact (IHm x eq_refl).
Qed.

Lemma cvd_eq_sym : forall a b, cvd_eq a b -> cvd_eq b a.
Proof.
  induction a as [ty dbl int str b l m id ex IHl IHm] using cvdesc_ind'. intros c H. inversion H as [? ? ? ? ? ? l' ? m' ? ? ex' Hl Hm He]; subst.
  constructor; [| |apply extra_eq_sym; exact He].
  - eapply optR_sym; [|exact Hl]. intros x y -> F. apply Forall2_sym_in; [exact (IHl x eq_refl)|exact F].
  - eapply optR_sym; [|exact Hm]. intros x y -> F. apply PermR_sym_in; [|exact F].
    eapply Forall_impl; [|exact (IHm x eq_refl)]. intros [k v] [A B] [k' v'] Hp. inversion Hp; subst. constructor; auto.
Qed.

Lemma cvd_eq_trans : forall a b c, cvd_eq a b -> cvd_eq b c -> cvd_eq a c.
Proof.
  induction a as [ty dbl int str b l m id ex IHl IHm] using cvdesc_ind'. intros c d H1 H2.
  inversion H1 as [? ? ? ? ? ? l' ? m' ? ? ex' Hl Hm He]; subst.
  inversion H2 as [? ? ? ? ? ? l'' ? m'' ? ? ex'' Hl' Hm' He']; subst.
  constructor; [| |eapply extra_eq_trans; eassumption].
  - eapply optR_trans; [|exact Hl|exact Hl']. intros x y z -> F1 F2. eapply Forall2_trans_in; [exact (IHl x eq_refl)|exact F1|exact F2].
  - eapply optR_trans; [|exact Hm|exact Hm']. intros x y z -> F1 F2. eapply PermR_trans_in; [|exact F1|exact F2].
    eapply Forall_impl; [|exact (IHm x eq_refl)]. intros [k v] [A B] [k' v'] [k'' v''] P1 P2.
    inversion P1; subst. inversion P2; subst. constructor; eauto.
Qed.

(* ---- lists of equivalent things ---- *)
Lemma Forall2_refl_all {A} (R : A -> A -> Prop) : (forall x, R x x) -> forall l, Forall2 R l l.
Proof. intros H l. apply Forall2_refl_in. apply Forall_forall. intros; apply H. Qed.
Lemma Forall2_sym_all {A} (R : A -> A -> Prop) : (forall x y, R x y -> R y x) -> forall l l', Forall2 R l l' -> Forall2 R l' l.
Proof. intros H l l'. apply Forall2_sym_in. apply Forall_forall. intros; apply H; assumption. Qed.
Lemma Forall2_trans_all {A} (R : A -> A -> Prop) :
  (forall x y z, R x y -> R y z -> R x z) -> forall l l' l'', Forall2 R l l' -> Forall2 R l' l'' -> Forall2 R l l''.
Proof. intros H l l' l''. apply Forall2_trans_in. apply Forall_forall. intros; eapply H; eassumption. Qed.

Lemma optR_refl_all {A} (R : A -> A -> Prop) : (forall x, R x x) -> forall o, optR R o o.
Proof. intros H o. apply optR_refl. intros; apply H. Qed.
Lemma optR_sym_all {A} (R : A -> A -> Prop) : (forall x y, R x y -> R y x) -> forall o o', optR R o o' -> optR R o' o.
Proof. intros H o o'. apply optR_sym. intros; apply H; assumption. Qed.
Lemma optR_trans_all {A} (R : A -> A -> Prop) :
  (forall x y z, R x y -> R y z -> R x z) -> forall o o' o'', optR R o o' -> optR R o' o'' -> optR R o o''.
Proof. intros H o o' o''. apply optR_trans. intros; eapply H; eassumption. Qed.

Lemma fielddesc_eq_refl a : fielddesc_eq a a.
Proof. unfold fielddesc_eq. repeat split; eauto using Permutation_refl, tdesc_eq_refl, cvd_eq_refl, extra_eq_refl, (optR_refl_all _ cvd_eq_refl), (optR_refl_all _ tdesc_eq_refl). Qed.
Lemma fielddesc_eq_sym a b : fielddesc_eq a b -> fielddesc_eq b a.
Proof. unfold fielddesc_eq. intros (A1 & A2 & A3 & A4 & A5 & A6 & A7 & A8 & A9). repeat split; eauto using eq_sym, Permutation_sym, tdesc_eq_sym, cvd_eq_sym, extra_eq_sym, (optR_sym_all _ cvd_eq_sym), (optR_sym_all _ tdesc_eq_sym). Qed.
Lemma fielddesc_eq_trans a b c : fielddesc_eq a b -> fielddesc_eq b c -> fielddesc_eq a c.
Proof. unfold fielddesc_eq. intros (A1 & A2 & A3 & A4 & A5 & A6 & A7 & A8 & A9) (B1 & B2 & B3 & B4 & B5 & B6 & B7 & B8 & B9). repeat split; eauto using eq_trans, Permutation_trans, tdesc_eq_trans, cvd_eq_trans, extra_eq_trans, (optR_trans_all _ cvd_eq_trans), (optR_trans_all _ tdesc_eq_trans). Qed.

Lemma structdesc_eq_refl a : structdesc_eq a a.
Proof. unfold structdesc_eq. repeat split; eauto using Permutation_refl, tdesc_eq_refl, cvd_eq_refl, extra_eq_refl, (optR_refl_all _ cvd_eq_refl), (optR_refl_all _ tdesc_eq_refl), (Forall2_refl_all _ fielddesc_eq_refl). Qed.
Lemma structdesc_eq_sym a b : structdesc_eq a b -> structdesc_eq b a.
Proof. unfold structdesc_eq. intros (A1 & A2 & A3 & A4 & A5 & A6). repeat split; eauto using eq_sym, Permutation_sym, tdesc_eq_sym, cvd_eq_sym, extra_eq_sym, (optR_sym_all _ cvd_eq_sym), (optR_sym_all _ tdesc_eq_sym), (Forall2_sym_all _ fielddesc_eq_sym). Qed.
Lemma structdesc_eq_trans a b c : structdesc_eq a b -> structdesc_eq b c -> structdesc_eq a c.
Proof. unfold structdesc_eq. intros (A1 & A2 & A3 & A4 & A5 & A6) (B1 & B2 & B3 & B4 & B5 & B6). repeat split; eauto using eq_trans, Permutation_trans, tdesc_eq_trans, cvd_eq_trans, extra_eq_trans, (optR_trans_all _ cvd_eq_trans), (optR_trans_all _ tdesc_eq_trans), (Forall2_trans_all _ fielddesc_eq_trans). Qed.

Lemma enumvaluedesc_eq_refl a : enumvaluedesc_eq a a.
Proof. unfold enumvaluedesc_eq. repeat split; eauto using Permutation_refl, tdesc_eq_refl, cvd_eq_refl, extra_eq_refl, (optR_refl_all _ cvd_eq_refl), (optR_refl_all _ tdesc_eq_refl). Qed.
Lemma enumvaluedesc_eq_sym a b : enumvaluedesc_eq a b -> enumvaluedesc_eq b a.
Proof. unfold enumvaluedesc_eq. intros (A1 & A2 & A3 & A4 & A5 & A6). repeat split; eauto using eq_sym, Permutation_sym, tdesc_eq_sym, cvd_eq_sym, extra_eq_sym, (optR_sym_all _ cvd_eq_sym), (optR_sym_all _ tdesc_eq_sym). Qed.
Lemma enumvaluedesc_eq_trans a b c : enumvaluedesc_eq a b -> enumvaluedesc_eq b c -> enumvaluedesc_eq a c.
Proof. unfold enumvaluedesc_eq. intros (A1 & A2 & A3 & A4 & A5 & A6) (B1 & B2 & B3 & B4 & B5 & B6). repeat split; eauto using eq_trans, Permutation_trans, tdesc_eq_trans, cvd_eq_trans, extra_eq_trans, (optR_trans_all _ cvd_eq_trans), (optR_trans_all _ tdesc_eq_trans). Qed.

Lemma enumdesc_eq_refl a : enumdesc_eq a a.
Proof. unfold enumdesc_eq. repeat split; eauto using Permutation_refl, tdesc_eq_refl, cvd_eq_refl, extra_eq_refl, (optR_refl_all _ cvd_eq_refl), (optR_refl_all _ tdesc_eq_refl), (Forall2_refl_all _ enumvaluedesc_eq_refl). Qed.
Lemma enumdesc_eq_sym a b : enumdesc_eq a b -> enumdesc_eq b a.
Proof. unfold enumdesc_eq. intros (A1 & A2 & A3 & A4 & A5 & A6). repeat split; eauto using eq_sym, Permutation_sym, tdesc_eq_sym, cvd_eq_sym, extra_eq_sym, (optR_sym_all _ cvd_eq_sym), (optR_sym_all _ tdesc_eq_sym), (Forall2_sym_all _ enumvaluedesc_eq_sym). Qed.
Lemma enumdesc_eq_trans a b c : enumdesc_eq a b -> enumdesc_eq b c -> enumdesc_eq a c.
Proof. unfold enumdesc_eq. intros (A1 & A2 & A3 & A4 & A5 & A6) (B1 & B2 & B3 & B4 & B5 & B6). repeat split; eauto using eq_trans, Permutation_trans, tdesc_eq_trans, cvd_eq_trans, extra_eq_trans, (optR_trans_all _ cvd_eq_trans), (optR_trans_all _ tdesc_eq_trans), (Forall2_trans_all _ enumvaluedesc_eq_trans). Qed.

Lemma typedefdesc_eq_refl a : typedefdesc_eq a a.
Proof. unfold typedefdesc_eq. repeat split; eauto using Permutation_refl, tdesc_eq_refl, cvd_eq_refl, extra_eq_refl, (optR_refl_all _ cvd_eq_refl), (optR_refl_all _ tdesc_eq_refl). Qed.
Lemma typedefdesc_eq_sym a b : typedefdesc_eq a b -> typedefdesc_eq b a.
Proof. unfold typedefdesc_eq. intros (A1 & A2 & A3 & A4 & A5 & A6). repeat split; eauto using eq_sym, Permutation_sym, tdesc_eq_sym, cvd_eq_sym, extra_eq_sym, (optR_sym_all _ cvd_eq_sym), (optR_sym_all _ tdesc_eq_sym). Qed.
Lemma typedefdesc_eq_trans a b c : typedefdesc_eq a b -> typedefdesc_eq b c -> typedefdesc_eq a c.
Proof. unfold typedefdesc_eq. intros (A1 & A2 & A3 & A4 & A5 & A6) (B1 & B2 & B3 & B4 & B5 & B6). repeat split; eauto using eq_trans, Permutation_trans, tdesc_eq_trans, cvd_eq_trans, extra_eq_trans, (optR_trans_all _ cvd_eq_trans), (optR_trans_all _ tdesc_eq_trans). Qed.

Lemma methoddesc_eq_refl a : methoddesc_eq a a.
Proof. unfold methoddesc_eq. repeat split; eauto using Permutation_refl, tdesc_eq_refl, cvd_eq_refl, extra_eq_refl, (optR_refl_all _ cvd_eq_refl), (optR_refl_all _ tdesc_eq_refl), (Forall2_refl_all _ fielddesc_eq_refl). Qed.
Lemma methoddesc_eq_sym a b : methoddesc_eq a b -> methoddesc_eq b a.
Proof. unfold methoddesc_eq. intros (A1 & A2 & A3 & A4 & A5 & A6 & A7 & A8 & A9). repeat split; eauto using eq_sym, Permutation_sym, tdesc_eq_sym, cvd_eq_sym, extra_eq_sym, (optR_sym_all _ cvd_eq_sym), (optR_sym_all _ tdesc_eq_sym), (Forall2_sym_all _ fielddesc_eq_sym). Qed.
Lemma methoddesc_eq_trans a b c : methoddesc_eq a b -> methoddesc_eq b c -> methoddesc_eq a c.
Proof. unfold methoddesc_eq. intros (A1 & A2 & A3 & A4 & A5 & A6 & A7 & A8 & A9) (B1 & B2 & B3 & B4 & B5 & B6 & B7 & B8 & B9). repeat split; eauto using eq_trans, Permutation_trans, tdesc_eq_trans, cvd_eq_trans, extra_eq_trans, (optR_trans_all _ cvd_eq_trans), (optR_trans_all _ tdesc_eq_trans), (Forall2_trans_all _ fielddesc_eq_trans). Qed.

Lemma servicedesc_eq_refl a : servicedesc_eq a a.
Proof. unfold servicedesc_eq. repeat split; eauto using Permutation_refl, tdesc_eq_refl, cvd_eq_refl, extra_eq_refl, (optR_refl_all _ cvd_eq_refl), (optR_refl_all _ tdesc_eq_refl), (Forall2_refl_all _ methoddesc_eq_refl). Qed.
Lemma servicedesc_eq_sym a b : servicedesc_eq a b -> servicedesc_eq b a.
Proof. unfold servicedesc_eq. intros (A1 & A2 & A3 & A4 & A5 & A6 & A7). repeat split; eauto using eq_sym, Permutation_sym, tdesc_eq_sym, cvd_eq_sym, extra_eq_sym, (optR_sym_all _ cvd_eq_sym), (optR_sym_all _ tdesc_eq_sym), (Forall2_sym_all _ methoddesc_eq_sym). Qed.
Lemma servicedesc_eq_trans a b c : servicedesc_eq a b -> servicedesc_eq b c -> servicedesc_eq a c.
Proof. unfold servicedesc_eq. intros (A1 & A2 & A3 & A4 & A5 & A6 & A7) (B1 & B2 & B3 & B4 & B5 & B6 & B7). repeat split; eauto using eq_trans, Permutation_trans, tdesc_eq_trans, cvd_eq_trans, extra_eq_trans, (optR_trans_all _ cvd_eq_trans), (optR_trans_all _ tdesc_eq_trans), (Forall2_trans_all _ methoddesc_eq_trans). Qed.

Lemma constdesc_eq_refl a : constdesc_eq a a.
Proof. unfold constdesc_eq. repeat split; eauto using Permutation_refl, tdesc_eq_refl, cvd_eq_refl, extra_eq_refl, (optR_refl_all _ cvd_eq_refl), (optR_refl_all _ tdesc_eq_refl). Qed.
Lemma constdesc_eq_sym a b : constdesc_eq a b -> constdesc_eq b a.
Proof. unfold constdesc_eq. intros (A1 & A2 & A3 & A4 & A5 & A6 & A7). repeat split; eauto using eq_sym, Permutation_sym, tdesc_eq_sym, cvd_eq_sym, extra_eq_sym, (optR_sym_all _ cvd_eq_sym), (optR_sym_all _ tdesc_eq_sym). Qed.
Lemma constdesc_eq_trans a b c : constdesc_eq a b -> constdesc_eq b c -> constdesc_eq a c.
Proof. unfold constdesc_eq. intros (A1 & A2 & A3 & A4 & A5 & A6 & A7) (B1 & B2 & B3 & B4 & B5 & B6 & B7). repeat split; eauto using eq_trans, Permutation_trans, tdesc_eq_trans, cvd_eq_trans, extra_eq_trans, (optR_trans_all _ cvd_eq_trans), (optR_trans_all _ tdesc_eq_trans). Qed.

(* fdesc_equiv is an equivalence relation *)
Theorem fdesc_equiv_refl d : fdesc_equiv d d.
Proof. unfold fdesc_equiv. repeat split; eauto using Permutation_refl, extra_eq_refl, (Forall2_refl_all _ servicedesc_eq_refl), (Forall2_refl_all _ structdesc_eq_refl), (Forall2_refl_all _ enumdesc_eq_refl), (Forall2_refl_all _ typedefdesc_eq_refl), (Forall2_refl_all _ constdesc_eq_refl). Qed.
Theorem fdesc_equiv_sym a b : fdesc_equiv a b -> fdesc_equiv b a.
Proof. unfold fdesc_equiv. intros (A1 & A2 & A3 & A4 & A5 & A6 & A7 & A8 & A9 & A10 & A11). repeat split; eauto using eq_sym, Permutation_sym, extra_eq_sym, (Forall2_sym_all _ servicedesc_eq_sym), (Forall2_sym_all _ structdesc_eq_sym), (Forall2_sym_all _ enumdesc_eq_sym), (Forall2_sym_all _ typedefdesc_eq_sym), (Forall2_sym_all _ constdesc_eq_sym). Qed.
Theorem fdesc_equiv_trans a b c : fdesc_equiv a b -> fdesc_equiv b c -> fdesc_equiv a c.
Proof. unfold fdesc_equiv. intros (A1 & A2 & A3 & A4 & A5 & A6 & A7 & A8 & A9 & A10 & A11) (B1 & B2 & B3 & B4 & B5 & B6 & B7 & B8 & B9 & B10 & B11). repeat split; eauto using eq_trans, Permutation_trans, extra_eq_trans, (Forall2_trans_all _ servicedesc_eq_trans), (Forall2_trans_all _ structdesc_eq_trans), (Forall2_trans_all _ enumdesc_eq_trans), (Forall2_trans_all _ typedefdesc_eq_trans), (Forall2_trans_all _ constdesc_eq_trans). Qed.

(* ---- equivalent descriptors are in the domain of the round trip together ---- *)

Lemma smap_ok_perm {A} (m m' : smap A) : Permutation m m' -> smap_ok m = true -> smap_ok m' = true.
Proof.
  unfold smap_ok. intros Hp H. apply nodupb_NoDup. apply nodupb_NoDup in H.
  eapply Permutation_NoDup; [apply Permutation_map; exact Hp|exact H].
Qed.

Lemma extra_ok_eq e e' : extra_eq e e' -> extra_ok e = true -> extra_ok e' = true.
Proof. intros H. inversion H; subst; cbn [extra_ok]; [auto|]. apply smap_ok_perm. assumption. Qed.

Lemma tdesc_ok_eq : forall a b, tdesc_eq a b -> tdesc_ok a = true -> tdesc_ok b = true.
Proof.
  induction a as [p n k v ex IHk IHv] using tdesc_ind'. intros [p' n' k' v' ex']. cbn [tdesc_eq tdesc_ok].
  intros (_ & _ & Hk & Hv & He) H. apply andb_true_iff in H as [H Hex]. apply andb_true_iff in H as [Hok Hov].
  rewrite (extra_ok_eq _ _ He Hex), andb_true_r. apply andb_true_iff. split.
  - destruct k, k'; try contradiction; [apply (IHk _ eq_refl _ Hk Hok)|reflexivity].
  - destruct v, v'; try contradiction; [apply (IHv _ eq_refl _ Hv Hov)|reflexivity].
Qed.

Lemma cv_list_ok_iff l :
  (fix go (l0 : list cvdesc) : bool := match l0 with [] => true | x :: r => cvdesc_ok x && go r end) l = true <->
  Forall (fun c => cvdesc_ok c = true) l.
Proof.
  split; [apply cv_list_ok|]. induction 1 as [|x r Hx _ IH]; [reflexivity|]. rewrite Hx, IH. reflexivity.
Qed.
Lemma cv_map_ok_iff m :
  (fix go (l : list (cvdesc * cvdesc)) : bool :=
     match l with [] => true | (k, v) :: r => cvdesc_ok k && cvdesc_ok v && go r end) m = true <->
  Forall (fun kv => cvdesc_ok (fst kv) = true /\ cvdesc_ok (snd kv) = true) m.
Proof.
  split; [apply cv_map_ok|]. induction 1 as [|[k v] r [Hk Hv] _ IH]; [reflexivity|]. cbn [fst snd] in *. rewrite Hk, Hv, IH. reflexivity.
Qed.

Lemma Forall2_Forall_transfer {A} (R : A -> A -> Prop) (Q : A -> Prop) l l' :
  Forall (fun x => forall y, R x y -> Q x -> Q y) l -> Forall2 R l l' -> Forall Q l -> Forall Q l'.
Proof.
  intros H F. induction F as [|x y l l' Hr F IH]; intro HQ; constructor; inversion H; subst; inversion HQ; subst; auto.
Qed.

Lemma cvdesc_ok_eq : forall a b, cvd_eq a b -> cvdesc_ok a = true -> cvdesc_ok b = true.
Proof.
  induction a as [ty dbl int str b l m id ex IHl IHm] using cvdesc_ind'. intros c H Hok.
  inversion H as [? ? ? ? ? ? l' ? m' ? ? ex' Hl Hm He]; subst. cbn [cvdesc_ok] in *.
  apply andb_true_iff in Hok as [Hok Hex]. apply andb_true_iff in Hok as [Hok Hmo]. apply andb_true_iff in Hok as [Hty Hlo].
  rewrite Hty, (extra_ok_eq _ _ He Hex), andb_true_r. cbn [andb]. apply andb_true_iff. split.
  - inversion Hl as [|x y F]; subst; [reflexivity|]. apply cv_list_ok_iff. apply cv_list_ok_iff in Hlo.
    exact (Forall2_Forall_transfer cvd_eq _ x y (IHl x eq_refl) F Hlo).
  - inversion Hm as [|x y F]; subst; [reflexivity|]. apply cv_map_ok_iff. apply cv_map_ok_iff in Hmo.
    inversion F as [q l0 q' Hp F2 E1 E2]. subst q q'.
    pose proof (Forall_perm _ _ _ Hp Hmo) as H0. pose proof (Forall_perm _ _ _ Hp (IHm x eq_refl)) as IH0.
    refine (Forall2_Forall_transfer (pairR cvd_eq) _ l0 y _ F2 H0).
    eapply Forall_impl; [|exact IH0]. intros [k v] [A B] [k' v'] Hpr [Ok Ov]. inversion Hpr; subst. cbn [fst snd] in *. split; auto.
Qed.

Lemma forallb_Forall2 {A} (ok : A -> bool) (R : A -> A -> Prop) l l' :
  (forall x y, R x y -> ok x = true -> ok y = true) -> Forall2 R l l' -> forallb ok l = true -> forallb ok l' = true.
Proof.
  intros H F. induction F as [|x y l l' Hr F IH]; [auto|]. cbn [forallb]. intro Hb. apply andb_true_iff in Hb as [Hx Hl].
  rewrite (H x y Hr Hx), (IH Hl). reflexivity.
Qed.

Lemma fielddesc_ok_eq a b : fielddesc_eq a b -> fielddesc_ok a = true -> fielddesc_ok b = true.
Proof.
  unfold fielddesc_eq, fielddesc_ok. intros (_ & _ & A3 & _ & _ & A6 & A7 & _ & A9) H. bsplit.
  rewrite (tdesc_ok_eq _ _ A3), (smap_ok_perm _ _ A7), (extra_ok_eq _ _ A9) by assumption. rewrite !andb_true_r.
  inversion A6 as [|x y Hc E1 E2]; [reflexivity|]. rewrite <- E1 in *. eapply cvdesc_ok_eq; eassumption.
Qed.
Lemma structdesc_ok_eq a b : structdesc_eq a b -> structdesc_ok a = true -> structdesc_ok b = true.
Proof.
  unfold structdesc_eq, structdesc_ok. intros (_ & _ & A3 & A4 & _ & A6) H. bsplit.
  rewrite (forallb_Forall2 _ _ _ _ fielddesc_ok_eq A3), (smap_ok_perm _ _ A4), (extra_ok_eq _ _ A6) by assumption. reflexivity.
Qed.
Lemma enumvaluedesc_ok_eq a b : enumvaluedesc_eq a b -> enumvaluedesc_ok a = true -> enumvaluedesc_ok b = true.
Proof.
  unfold enumvaluedesc_eq, enumvaluedesc_ok. intros (_ & _ & _ & A4 & _ & A6) H. bsplit.
  rewrite (smap_ok_perm _ _ A4), (extra_ok_eq _ _ A6) by assumption. reflexivity.
Qed.
Lemma enumdesc_ok_eq a b : enumdesc_eq a b -> enumdesc_ok a = true -> enumdesc_ok b = true.
Proof.
  unfold enumdesc_eq, enumdesc_ok. intros (_ & _ & A3 & A4 & _ & A6) H. bsplit.
  rewrite (forallb_Forall2 _ _ _ _ enumvaluedesc_ok_eq A3), (smap_ok_perm _ _ A4), (extra_ok_eq _ _ A6) by assumption. reflexivity.
Qed.
Lemma typedefdesc_ok_eq a b : typedefdesc_eq a b -> typedefdesc_ok a = true -> typedefdesc_ok b = true.
Proof.
  unfold typedefdesc_eq, typedefdesc_ok. intros (_ & A2 & _ & A4 & _ & A6) H. bsplit.
  rewrite (tdesc_ok_eq _ _ A2), (smap_ok_perm _ _ A4), (extra_ok_eq _ _ A6) by assumption. reflexivity.
Qed.
Lemma methoddesc_ok_eq a b : methoddesc_eq a b -> methoddesc_ok a = true -> methoddesc_ok b = true.
Proof.
  unfold methoddesc_eq, methoddesc_ok. intros (_ & _ & A3 & A4 & A5 & _ & A7 & _ & A9) H. bsplit.
  rewrite (forallb_Forall2 _ _ _ _ fielddesc_ok_eq A4), (forallb_Forall2 _ _ _ _ fielddesc_ok_eq A7),
    (smap_ok_perm _ _ A5), (extra_ok_eq _ _ A9) by assumption. rewrite !andb_true_r.
  inversion A3 as [|x y Hc E1 E2]; [reflexivity|]. rewrite <- E1 in *. eapply tdesc_ok_eq; eassumption.
Qed.
Lemma servicedesc_ok_eq a b : servicedesc_eq a b -> servicedesc_ok a = true -> servicedesc_ok b = true.
Proof.
  unfold servicedesc_eq, servicedesc_ok. intros (_ & _ & A3 & A4 & _ & A6 & _) H. bsplit.
  rewrite (forallb_Forall2 _ _ _ _ methoddesc_ok_eq A3), (smap_ok_perm _ _ A4), (extra_ok_eq _ _ A6) by assumption. reflexivity.
Qed.
Lemma constdesc_ok_eq a b : constdesc_eq a b -> constdesc_ok a = true -> constdesc_ok b = true.
Proof.
  unfold constdesc_eq, constdesc_ok. intros (_ & _ & A3 & A4 & A5 & _ & A7) H. bsplit.
  rewrite (tdesc_ok_eq _ _ A3), (cvdesc_ok_eq _ _ A4), (smap_ok_perm _ _ A5), (extra_ok_eq _ _ A7) by assumption. reflexivity.
Qed.

Theorem fdesc_ok_equiv a b : fdesc_equiv a b -> fdesc_ok a = true -> fdesc_ok b = true.
Proof.
  unfold fdesc_equiv, fdesc_ok. intros (_ & A2 & A3 & A4 & A5 & A6 & A7 & A8 & A9 & A10 & A11) H. bsplit.
  rewrite (smap_ok_perm _ _ A2), (smap_ok_perm _ _ A3), (forallb_Forall2 _ _ _ _ servicedesc_ok_eq A4),
    (forallb_Forall2 _ _ _ _ structdesc_ok_eq A5), (forallb_Forall2 _ _ _ _ structdesc_ok_eq A6),
    (forallb_Forall2 _ _ _ _ enumdesc_ok_eq A7), (forallb_Forall2 _ _ _ _ typedefdesc_ok_eq A8),
    (forallb_Forall2 _ _ _ _ structdesc_ok_eq A9), (forallb_Forall2 _ _ _ _ constdesc_ok_eq A10), (extra_ok_eq _ _ A11) by assumption.
  reflexivity.
Qed.

(* decoding the encoding of ANY entry-order permutation of the maps of a descriptor yields a
   descriptor equivalent to it *)
Theorem wire_roundtrip_any_order d d' :
  fdesc_ok d = true -> fdesc_equiv d d' ->
  exists d'', dec_fdesc (enc_fdesc d') = Some d'' /\ fdesc_equiv d'' d.
Proof.
  intros Hok He. exists d'. split; [apply fdesc_rt; exact (fdesc_ok_equiv d d' He Hok)|apply fdesc_equiv_sym; exact He].
Qed.

Section GzipAnyOrder.
  Variable zip : bytes -> bytes.
  Variable unzip : bytes -> option bytes.
  Hypothesis unzip_zip : forall x, unzip (zip x) = Some x.

  Theorem marshal_roundtrip_any_order d d' :
    fdesc_ok d = true -> fdesc_equiv d d' -> wfb (enc_fdesc d') = true ->
    exists d'', unmarshal unzip (marshal zip d') = Some d'' /\ fdesc_equiv d'' d.
  Proof.
    intros Hok He Hwf. exists d'. split; [|apply fdesc_equiv_sym; exact He].
    apply (marshal_roundtrip zip unzip unzip_zip); [exact (fdesc_ok_equiv d d' He Hok)|exact Hwf].
  Qed.
End GzipAnyOrder.

(* ================================================================ 10. equivalent descriptors fit the wire together *)

(* same wire type, and well-formedness carries over *)
Definition wsim (w w' : wval) : Prop := wtype w = wtype w' /\ (wf w -> wf w').
Definition slot_rel (s s' : slot) : Prop := snd s = snd s' /\ wsim (fst s) (fst s').

Lemma wsim_refl w : wsim w w.
Proof. split; auto. Qed.
Lemma slot_refl s : slot_rel s s.
Proof. split; [reflexivity|apply wsim_refl]. Qed.
Lemma slot_nz w w' : wsim w w' -> slot_rel (nz w) (nz w').
Proof. intro H. split; [reflexivity|exact H]. Qed.

Lemma emit_wf lay : forall sl sl', Forall2 slot_rel sl sl' ->
  Forall (fun f : wfield => wtype (snd f) = fst (fst f) /\ in_srange 2 (snd (fst f)) /\ wf (snd f)) (emit lay sl) ->
  Forall (fun f : wfield => wtype (snd f) = fst (fst f) /\ in_srange 2 (snd (fst f)) /\ wf (snd f)) (emit lay sl').
Proof.
  induction lay as [|[[t id] r] lay IH]; intros sl sl' F H; [destruct sl'; constructor|].
  destruct F as [|[w z] [w' z'] sl sl' [Hz [Ht Hw]] F]; cbn [emit fst snd] in *; [constructor|]. subst z'.
  destruct (req_eqb r Optional && z); [apply (IH _ _ F H)|].
  inversion H as [|? ? [A [B C]] H']; subst. cbn [fst snd] in *. constructor; [|apply (IH _ _ F H')].
  cbn [fst snd]. split; [congruence|]. split; [exact B|apply Hw; exact C].
Qed.

Lemma emit_wsim lay sl sl' : Forall2 slot_rel sl sl' -> wsim (wstruct lay sl) (wstruct lay sl').
Proof.
  intro F. split; [reflexivity|]. unfold wstruct. rewrite !wf_struct_iff. apply emit_wf. exact F.
Qed.

Lemma smap_wsim {A} vt (e : A -> wval) (m m' : smap A) : Permutation m m' -> wsim (w_smap vt e m) (w_smap vt e m').
Proof.
  intro Hp. split; [reflexivity|]. unfold w_smap. rewrite !wf_map_iff, !map_length, (Permutation_length Hp).
  intros [Hl Hf]. split; [exact Hl|]. eapply Forall_perm; [apply Permutation_map; exact Hp|exact Hf].
Qed.

Lemma F2_len {A B} (R : A -> B -> Prop) l l' : Forall2 R l l' -> List.length l = List.length l'.
Proof. induction 1; cbn [List.length]; congruence. Qed.

Lemma structs_wsim {A} (R : A -> A -> Prop) (e : A -> wval) l l' :
  (forall x y, R x y -> wsim (e x) (e y)) -> Forall2 R l l' -> wsim (w_structs e l) (w_structs e l').
Proof.
  intros H F. split; [reflexivity|]. unfold w_structs. rewrite !wf_list_iff, !map_length.
  intros [Hl Hf]. split; [rewrite <- (F2_len _ _ _ F); exact Hl|].
  clear Hl. induction F as [|x y l l' Hr F IH]; cbn [map] in *; [constructor|].
  inversion Hf as [|? ? [Ht Hw] Hf']; subst. destruct (H x y Hr) as [Et Ew].
  constructor; [split; [congruence|apply Ew; exact Hw]|apply IH; exact Hf'].
Qed.

Lemma slot_extra e e' : extra_eq e e' -> slot_rel (s_extra e) (s_extra e').
Proof.
  intro H. inversion H as [|m m' Hp]; subst; cbn [s_extra]; [apply slot_refl|].
  split; [reflexivity|]. cbn [fst]. apply smap_wsim. exact Hp.
Qed.
Lemma slot_annos a a' : Permutation a a' -> slot_rel (s_annos a) (s_annos a').
Proof. intro H. apply slot_nz. apply smap_wsim. exact H. Qed.
Lemma slot_strmap a a' : Permutation a a' -> slot_rel (s_strmap a) (s_strmap a').
Proof. intro H. apply slot_nz. apply smap_wsim. exact H. Qed.
Lemma slot_opt {A} (R : A -> A -> Prop) (e : A -> wval) o o' :
  (forall x y, R x y -> wsim (e x) (e y)) -> optR R o o' -> slot_rel (s_opt e o) (s_opt e o').
Proof.
  intros H Ho. inversion Ho as [|x y Hr]; subst; cbn [s_opt]; [apply slot_refl|].
  split; [reflexivity|]. cbn [fst]. apply H. exact Hr.
Qed.
Lemma slot_structs {A} (R : A -> A -> Prop) (e : A -> wval) l l' :
  (forall x y, R x y -> wsim (e x) (e y)) -> Forall2 R l l' -> slot_rel (nz (w_structs e l)) (nz (w_structs e l')).
Proof. intros H F. apply slot_nz. eapply structs_wsim; eassumption. Qed.

Ltac slots := repeat apply Forall2_cons; try apply Forall2_nil.

(* ---- TypeDescriptor ---- *)
Lemma tdesc_wsim : forall a b, tdesc_eq a b -> wsim (enc_tdesc a) (enc_tdesc b).
Proof.
  induction a as [p n k v ex IHk IHv] using tdesc_ind'. intros [p' n' k' v' ex']. cbn [tdesc_eq].
  intros (-> & -> & Hk & Hv & He). cbn [enc_tdesc]. apply emit_wsim. slots; try apply slot_refl; [| |apply slot_extra; exact He].
  - destruct k, k'; try contradiction; [|apply slot_refl]. split; [reflexivity|]. cbn [fst]. apply (IHk _ eq_refl). exact Hk.
  - destruct v, v'; try contradiction; [|apply slot_refl]. split; [reflexivity|]. cbn [fst]. apply (IHv _ eq_refl). exact Hv.
Qed.

(* ---- ConstValueDescriptor ---- *)
Lemma structs_wsim_in {A} (R : A -> A -> Prop) (e : A -> wval) l l' :
  Forall (fun x => forall y, R x y -> wsim (e x) (e y)) l -> Forall2 R l l' -> wsim (w_structs e l) (w_structs e l').
Proof.
  intros H F. split; [reflexivity|]. unfold w_structs. rewrite !wf_list_iff, !map_length.
  intros [Hl Hf]. split; [rewrite <- (F2_len _ _ _ F); exact Hl|].
  clear Hl. induction F as [|x y l l' Hr F IH]; cbn [map] in *; [constructor|].
  inversion Hf as [|? ? [Ht Hw] Hf']; subst. inversion H as [|? ? Hx Hrest]; subst. destruct (Hx y Hr) as [Et Ew].
  constructor; [split; [congruence|apply Ew; exact Hw]|apply IH; assumption].
Qed.

Definition enc_pair (kv : cvdesc * cvdesc) : wval * wval := (enc_cvdesc (fst kv), enc_cvdesc (snd kv)).

Lemma pairs_wf_transfer l0 m' :
  Forall (fun kv : cvdesc * cvdesc => (forall y, cvd_eq (fst kv) y -> wsim (enc_cvdesc (fst kv)) (enc_cvdesc y)) /\
                                      (forall y, cvd_eq (snd kv) y -> wsim (enc_cvdesc (snd kv)) (enc_cvdesc y))) l0 ->
  Forall2 (pairR cvd_eq) l0 m' ->
  Forall (fun p : wval * wval => wtype (fst p) = T_STRUCT /\ wtype (snd p) = T_STRUCT /\ wf (fst p) /\ wf (snd p)) (map enc_pair l0) ->
  Forall (fun p : wval * wval => wtype (fst p) = T_STRUCT /\ wtype (snd p) = T_STRUCT /\ wf (fst p) /\ wf (snd p)) (map enc_pair m').
Proof.
  intros H F. induction F as [|x y l l' Hr F IH]; cbn [map]; intro Hf; [constructor|].
  inversion Hf as [|? ? (T1 & T2 & W1 & W2) Hf']; subst. inversion H as [|? ? [Hk Hv] Hrest]; subst.
  inversion Hr as [a b a' b' Ra Rb]; subst. cbn [enc_pair fst snd] in *.
  destruct (Hk a' Ra) as [Ek Wk]. destruct (Hv b' Rb) as [Ev Wv].
  constructor; [|apply IH; assumption]. cbn [enc_pair fst snd]. repeat split; [congruence|congruence|auto|auto].
Qed.

Lemma cvdesc_wsim : forall a b, cvd_eq a b -> wsim (enc_cvdesc a) (enc_cvdesc b).
Proof.
  induction a as [ty dbl int str b l m id ex IHl IHm] using cvdesc_ind'. intros c H.
  inversion H as [? ? ? ? ? ? l' ? m' ? ? ex' Hl Hm He]; subst.
  cbn [enc_cvdesc]. apply emit_wsim. slots; try apply slot_refl; [| |apply slot_extra; exact He].
  - inversion Hl as [|x y F]; subst; [apply slot_refl|]. split; [reflexivity|]. cbn [fst].
    rewrite !enc_cv_list_eq. apply (structs_wsim_in cvd_eq enc_cvdesc x y (IHl x eq_refl) F).
  - inversion Hm as [|x y F]; subst; [apply slot_refl|]. split; [reflexivity|]. cbn [fst].
    rewrite !enc_cv_map_eq. split; [reflexivity|]. inversion F as [q l0 q' Hp F2 E1 E2]. subst q q'.
    change (fun kv : cvdesc * cvdesc => (enc_cvdesc (fst kv), enc_cvdesc (snd kv))) with enc_pair.
    rewrite !wf_map_iff, !map_length, (Permutation_length Hp), (F2_len _ _ _ F2).
    intros [Hlen Hf]. split; [exact Hlen|].
    apply (pairs_wf_transfer l0 y); [|exact F2|].
    + apply (Forall_perm _ x l0 Hp). eapply Forall_impl; [|exact (IHm x eq_refl)]. intros [k v] [A B]. split; assumption.
    + eapply Forall_perm; [apply Permutation_map; exact Hp|exact Hf].
Qed.

(* ---- the other descriptors ---- *)
Lemma fielddesc_wsim a b : fielddesc_eq a b -> wsim (enc_fielddesc a) (enc_fielddesc b).
Proof.
  destruct a, b. unfold fielddesc_eq, enc_fielddesc. cbn. intros (-> & -> & A3 & -> & -> & A6 & A7 & -> & A9).
  apply emit_wsim. slots; try apply slot_refl.
  - apply slot_nz. apply tdesc_wsim. exact A3.
  - apply (slot_opt cvd_eq); [exact cvdesc_wsim|exact A6].
  - apply slot_annos. exact A7.
  - apply slot_extra. exact A9.
Qed.

Lemma structdesc_wsim a b : structdesc_eq a b -> wsim (enc_structdesc a) (enc_structdesc b).
Proof.
  destruct a, b. unfold structdesc_eq, enc_structdesc, enc_fielddescs. cbn. intros (-> & -> & A3 & A4 & -> & A6).
  apply emit_wsim. slots; try apply slot_refl.
  - apply (slot_structs fielddesc_eq); [exact fielddesc_wsim|exact A3].
  - apply slot_annos. exact A4.
  - apply slot_extra. exact A6.
Qed.
Lemma enumvaluedesc_wsim a b : enumvaluedesc_eq a b -> wsim (enc_enumvaluedesc a) (enc_enumvaluedesc b).
Proof.
  destruct a, b. unfold enumvaluedesc_eq, enc_enumvaluedesc. cbn. intros (-> & -> & -> & A4 & -> & A6).
  apply emit_wsim. slots; try apply slot_refl; [apply slot_annos; exact A4|apply slot_extra; exact A6].
Qed.
Lemma enumdesc_wsim a b : enumdesc_eq a b -> wsim (enc_enumdesc a) (enc_enumdesc b).
Proof.
  destruct a, b. unfold enumdesc_eq, enc_enumdesc. cbn. intros (-> & -> & A3 & A4 & -> & A6).
  apply emit_wsim. slots; try apply slot_refl.
  - apply (slot_structs enumvaluedesc_eq); [exact enumvaluedesc_wsim|exact A3].
  - apply slot_annos. exact A4.
  - apply slot_extra. exact A6.
Qed.
Lemma typedefdesc_wsim a b : typedefdesc_eq a b -> wsim (enc_typedefdesc a) (enc_typedefdesc b).
Proof.
  destruct a, b. unfold typedefdesc_eq, enc_typedefdesc. cbn. intros (-> & A2 & -> & A4 & -> & A6).
  apply emit_wsim. slots; try apply slot_refl.
  - apply slot_nz. apply tdesc_wsim. exact A2.
  - apply slot_annos. exact A4.
  - apply slot_extra. exact A6.
Qed.
Lemma methoddesc_wsim a b : methoddesc_eq a b -> wsim (enc_methoddesc a) (enc_methoddesc b).
Proof.
  destruct a, b. unfold methoddesc_eq, enc_methoddesc, enc_fielddescs. cbn. intros (-> & -> & A3 & A4 & A5 & -> & A7 & -> & A9).
  apply emit_wsim. slots; try apply slot_refl.
  - apply (slot_opt tdesc_eq); [exact tdesc_wsim|exact A3].
  - apply (slot_structs fielddesc_eq); [exact fielddesc_wsim|exact A4].
  - apply slot_annos. exact A5.
  - apply (slot_structs fielddesc_eq); [exact fielddesc_wsim|exact A7].
  - apply slot_extra. exact A9.
Qed.
Lemma servicedesc_wsim a b : servicedesc_eq a b -> wsim (enc_servicedesc a) (enc_servicedesc b).
Proof.
  destruct a, b. unfold servicedesc_eq, enc_servicedesc. cbn. intros (-> & -> & A3 & A4 & -> & A6 & ->).
  apply emit_wsim. slots; try apply slot_refl.
  - apply (slot_structs methoddesc_eq); [exact methoddesc_wsim|exact A3].
  - apply slot_annos. exact A4.
  - apply slot_extra. exact A6.
Qed.
Lemma constdesc_wsim a b : constdesc_eq a b -> wsim (enc_constdesc a) (enc_constdesc b).
Proof.
  destruct a, b. unfold constdesc_eq, enc_constdesc. cbn. intros (-> & -> & A3 & A4 & A5 & -> & A7).
  apply emit_wsim. slots; try apply slot_refl.
  - apply slot_nz. apply tdesc_wsim. exact A3.
  - apply slot_nz. apply cvdesc_wsim. exact A4.
  - apply slot_annos. exact A5.
  - apply slot_extra. exact A7.
Qed.

Lemma fdesc_wsim a b : fdesc_equiv a b -> wsim (enc_fdesc a) (enc_fdesc b).
Proof.
  destruct a, b. unfold fdesc_equiv, enc_fdesc. cbn. intros (-> & A2 & A3 & A4 & A5 & A6 & A7 & A8 & A9 & A10 & A11).
  apply emit_wsim. slots; try apply slot_refl.
  - apply slot_strmap. exact A2.
  - apply slot_strmap. exact A3.
  - apply (slot_structs servicedesc_eq); [exact servicedesc_wsim|exact A4].
  - apply (slot_structs structdesc_eq); [exact structdesc_wsim|exact A5].
  - apply (slot_structs structdesc_eq); [exact structdesc_wsim|exact A6].
  - apply (slot_structs enumdesc_eq); [exact enumdesc_wsim|exact A7].
  - apply (slot_structs typedefdesc_eq); [exact typedefdesc_wsim|exact A8].
  - apply (slot_structs structdesc_eq); [exact structdesc_wsim|exact A9].
  - apply (slot_structs constdesc_eq); [exact constdesc_wsim|exact A10].
  - apply slot_extra. exact A11.
Qed.

(* equivalent descriptors fit the wire format together *)
Theorem fdesc_wf_equiv a b : fdesc_equiv a b -> wf (enc_fdesc a) -> wf (enc_fdesc b).
Proof. intro H. exact (proj2 (fdesc_wsim a b H)). Qed.

(* the bytes of any entry-order permutation d' of d read back to a descriptor equivalent to d: the
   premises speak about d only *)
Theorem meta_roundtrip_any_order d d' rest :
  fdesc_ok d = true -> wfb (enc_fdesc d) = true -> fdesc_equiv d d' ->
  exists d'', meta_unmarshal (meta_marshal d' ++ rest) = Some d'' /\ fdesc_equiv d'' d.
Proof.
  intros Hok Hwf He. exists d'. split; [|apply fdesc_equiv_sym; exact He].
  unfold meta_unmarshal, meta_marshal. destruct (enc_fdesc_struct d') as [fs Hfs]. rewrite Hfs.
  rewrite dec_struct_enc by (rewrite <- Hfs; apply (fdesc_wf_equiv d d' He); apply wfb_sound; exact Hwf).
  rewrite <- Hfs. apply fdesc_rt. exact (fdesc_ok_equiv d d' He Hok).
Qed.

Section GzipAnyOrderFull.
  Variable zip : bytes -> bytes.
  Variable unzip : bytes -> option bytes.
  Hypothesis unzip_zip : forall x, unzip (zip x) = Some x.

  Theorem marshal_roundtrip_every_order d d' :
    fdesc_ok d = true -> wfb (enc_fdesc d) = true -> fdesc_equiv d d' ->
    exists d'', unmarshal unzip (marshal zip d') = Some d'' /\ fdesc_equiv d'' d.
  Proof.
    intros Hok Hwf He. unfold unmarshal, marshal. rewrite unzip_zip.
    rewrite <- (app_nil_r (meta_marshal d')). apply meta_roundtrip_any_order; assumption.
  Qed.
End GzipAnyOrderFull.

(* ================================================================ 11. an acyclic extends chain fits the fuel *)

(* every (file, service) of a program *)
Definition all_services (P : program) : list (file * service) :=
  flat_map (fun nf => map (pair (snd nf)) (f_services (snd nf))) P.

Lemma all_services_length P : List.length (all_services P) = List.length (flat_map fdc_services (registry_of P)).
Proof.
  unfold all_services, registry_of. induction P as [|[n f] P IH]; [reflexivity|].
  cbn [flat_map map snd]. rewrite !app_length, IH. f_equal. unfold descriptor_of. cbn [fdc_services]. rewrite !map_length. reflexivity.
Qed.

Lemma find_by_In {A} (key : A -> bytes) n l x : find_by key n l = Some x -> In x l.
Proof.
  induction l as [|y l IH]; cbn [find_by]; [discriminate|]. destruct (beqb (key y) n); [intros [= <-]; left; reflexivity|].
  intro H. right. apply IH. exact H.
Qed.

Lemma in_all_services P n f s : prog_file P n = Some f -> In s (f_services f) -> In (f, s) (all_services P).
Proof.
  intros Hf Hs. unfold all_services. apply in_flat_map. exists (n, f). split; [apply lookup_In; exact Hf|].
  cbn [snd]. apply in_map. exact Hs.
Qed.

(* everything after the head of a chain is a service of the program *)
Lemma base_chain_tail P f s l : base_chain P f s l -> incl (tl l) (all_services P).
Proof.
  induction 1 as [f s He|f s t l Hne Hnd Hfind Hfile Hc IH|f s i gname g n t l Hd Hin Href Hg Ha Hgf Hn Hnd Hext Hfind Hfile Hc IH];
    cbn [tl]; [intros x []| |].
  - assert (Hhd : exists r, l = (f, t) :: r) by (destruct Hc; eexists; reflexivity).
    destruct Hhd as [r ->]. cbn [tl] in IH. intros x [<-|Hx]; [|apply IH; exact Hx].
    apply (in_all_services P (f_filename f)); [exact Hfile|]. unfold find_service in Hfind. apply (find_by_In _ _ _ _ Hfind).
  - assert (Hhd : exists r, l = (g, t) :: r) by (destruct Hc; eexists; reflexivity).
    destruct Hhd as [r ->]. cbn [tl] in IH. intros x [<-|Hx]; [|apply IH; exact Hx].
    apply (in_all_services P gname); [exact Hgf|]. unfold find_service in Hfind. apply (find_by_In _ _ _ _ Hfind).
Qed.

(* GetAllMethods along an extends chain without repetition (what the checker guarantees): no
   premise about the fuel *)
Theorem get_all_methods_acyclic P f s l :
  prog_ok P = true -> base_chain P f s l -> NoDup (tl l) ->
  get_all_methods (registry_of P) (service_desc (f_filename f) s) = chain_methods l.
Proof.
  intros HP Hc Hnd. apply (get_all_methods_chain P f s l HP Hc).
  unfold chain_fuel. rewrite <- all_services_length.
  pose proof (NoDup_incl_length Hnd (base_chain_tail P f s l Hc)) as Hlen.
  destruct l as [|x r]; cbn [List.length tl] in *; lia.
Qed.
